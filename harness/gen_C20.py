"""C20 -- difference operators and the priors built on them have the documented structure.

Correspondence: cuqi.operator.{First,Second}OrderFiniteDifference / PrecisionFiniteDifference and
cuqi.distribution.{GMRF,LMRF,CMRF} vs Model/C20_Diff.v.
  * get_matrix() of every operator: EXACT, exhaustive over the bounded (n, BC, order, 1-d/2-d) range;
  * D @ x, D.T @ y on integer vectors: EXACT;
  * GMRF: refusal / coded rank / operators EXACT; sqrtprec^T sqrtprec, exp(logdet), quadratic form of logpdf
    against the model's exact rationals within 1e-9;
  * LMRF / CMRF: the operator they hold EXACT, and the data-dependent part of logpdf within 1e-9.
Independent oracle: dense reference stencils built with np.diff on padded / wrapped signals, applied along the
axes of the C-order image in 2-d, eigenvalue rank / pseudo-determinant of the dense precision."""
import io, contextlib, math
from fractions import Fraction
import numpy as np
from common import *

IMPORTS = "From CV Require Import Base.Cmp Model.C20_Diff.\nFrom Coq Require Import QArith."
RULE = ("every (order, BC, n) for 1-d n<=12 quick/<=40 thorough and 2-d n x n <= 5x5 quick/<=10x10 thorough, BC in "
        "zero/periodic/neumann/backward/none/unknown, orders 1,2 (0..3 for the precision), both num_nodes forms, dyadic and "
        "non-dyadic dx, malformed constructor calls; integer vectors applied; GMRF (1-d n<=10/24, 2-d N<=4 quick, <=5 thorough (6 for zero BC)) x BC x order 0..2; "
        "GMRF with config.MAX_DIM_INV lowered (large-dimension log-determinant branch); negative dx; LMRF/CMRF x BC x scalar/vector location. distinct = distinct (operation, configuration, vectors); trivial = "
        "refused configurations and BC 'none' (identity)")

BCS = ["zero", "periodic", "neumann", "backward", "none"]
BC_COQ = {"zero": "Zero", "periodic": "Periodic", "neumann": "Neumann", "backward": "Backward", "none": "NoBC"}

SIG_RANK0 = "GMRF.__init__|rank:order0-periodic/neumann"
SIG_RANK2N = "GMRF.__init__|rank:order2-neumann"
SIG_SMALLN = "FiniteDifference._create_diff_matrix|periodic:N-below-stencil-width"
SIG_BIGDIM = "GMRF.__init__|logdet:dim-above-MAX_DIM_INV"
SIG_RANK_OTHER = "GMRF.__init__|rank-logdet:other"
SQRT_EPS = 2.0 ** -26


_STATE = {}


def repair_state():
    """(acc, rk): which of the two proposed repairs the tree under test contains, read off two witnesses:
    acc -- periodic boundary patches accumulate (fixes/C20_periodic_accumulate.diff);
    rk  -- repaired GMRF rank rule (fixes/C20_gmrf_rank_rule.diff).  The model variant is chosen accordingly."""
    if not _STATE:
        acc = rk = False
        try:
            from cuqi.operator import SecondOrderFiniteDifference
            M = dense(SecondOrderFiniteDifference(2, "periodic").get_matrix())
            acc = bool(M.shape == (4, 2) and np.array_equal(M, np.array([[-2, 2], [2, -2], [-2, 2], [2, -2]], dtype=float)))
        except Exception:
            pass
        try:
            g, _ = observe_gmrf(1, 7, "periodic", 0)
            rk = g is not None and int(g._rank) == 7
        except Exception:
            pass
        bd = False
        try:
            # cd6ea4a: above MAX_DIM_INV the log(sqrt(eps)) of every null direction is taken out of the regularised logdet
            g, _ = observe_gmrf(1, 7, "periodic", 1, big=True)
            ev = np.linalg.eigvalsh(ref_matrix(1, "periodic", 7).T @ ref_matrix(1, "periodic", 7))
            bd = g is not None and abs(float(g._logdet) - float(np.sum(np.log(ev[1:])))) < 1e-3
        except Exception:
            pass
        _STATE.update(acc=acc, rk=rk, bd=bd)
    return _STATE["acc"], _STATE["rk"]


def bigdim_repaired():
    repair_state()
    return _STATE["bd"]


def acc_state():
    return repair_state()[0]


def cst():
    return cbool(repair_state()[0])


def cbc(bc):
    return BC_COQ.get(bc, "UnknownBC")


def cnodes(nd):
    """nd: JSON form of num_nodes -- int, ["t", ...] for a tuple, ["bad", repr] for anything else"""
    if isinstance(nd, int):
        return "(NInt %s)" % cnat(nd)
    if nd[0] == "np":                                   # numpy integer scalar / tuple of numpy integers
        return "(NInt %s)" % cnat(nd[1]) if len(nd) == 2 else "(NTup2 %s %s)" % (cnat(nd[1]), cnat(nd[2]))
    if nd[0] == "t" and len(nd) == 2:
        return "(NTup1 %s)" % cnat(nd[1])
    if nd[0] == "t" and len(nd) == 3:
        return "(NTup2 %s %s)" % (cnat(nd[1]), cnat(nd[2]))
    return "NBad"


def py_nodes(nd):
    if isinstance(nd, int):
        return nd
    if nd[0] == "t":
        return tuple(nd[1:])
    if nd[0] == "np":
        return np.int64(nd[1]) if len(nd) == 2 else (np.int32(nd[1]), np.int64(nd[2]))
    if nd[1] == "tuple0":
        return ()
    if nd[1] == "bool":
        return True
    return {"float": 3.0, "list": [3], "tuple3": (2, 2, 2), "str": "3", "tuple-float": (2.0, 2.0)}[nd[1]]


def dense(M):
    return np.asarray(M.toarray() if hasattr(M, "toarray") else M, dtype=float)


def int_rows(A):
    """list of integer rows, or None if some entry is not an integer"""
    A = np.asarray(A, dtype=float)
    if A.size and not np.all(A == np.round(A)):
        return None
    return [[int(v) for v in r] for r in A] if A.ndim == 2 else [int(v) for v in A]


def quiet(f, *a, **k):
    with contextlib.redirect_stdout(io.StringIO()):
        return f(*a, **k)


# ------------------------------------------------------------------------------------------------
# independent oracle: reference stencils (np.diff on padded / wrapped signals)
# ------------------------------------------------------------------------------------------------
def ref_apply_1d(order, bc, x):
    """the documented difference of the 1-d signal x (numpy, no reference to the code under test);
    returns None where the configuration has no documented operator"""
    x = np.asarray(x, dtype=float)
    n = len(x)
    if order == 0 or bc == "none":
        return x.copy() if order in (0, 1) else None
    if order == 1:
        if bc == "zero":
            return np.diff(np.concatenate([[0.0], x, [0.0]]))
        if bc == "periodic":
            return np.diff(x[np.arange(-1, n + 1) % n])
        if bc == "neumann":
            return np.diff(x)
        if bc == "backward":
            return np.diff(np.concatenate([[0.0], x]))
        return None
    if order == 2:
        if bc == "zero":
            return -np.diff(np.concatenate([[0.0, 0.0], x, [0.0, 0.0]]), 2)
        if bc == "periodic":
            return -np.diff(x[np.arange(-2, n + 2) % n], 2)
        if bc == "neumann":
            return -np.diff(x, 2) if n >= 2 else None
        return None
    return None


def ref_matrix(order, bc, n, two_d=False):
    """dense reference matrix (columns = images of the unit vectors), or None"""
    if n < 1:
        return None
    if ref_apply_1d(order, bc, np.zeros(n)) is None:
        return None
    if not two_d:
        cols = [ref_apply_1d(order, bc, e) for e in np.eye(n)]
        return np.array(cols).T.reshape(-1, n)
    cols = []
    for e in np.eye(n * n):
        X = e.reshape(n, n)                                   # C order image
        a = np.array([ref_apply_1d(order, bc, X[i, :]) for i in range(n)])          # along rows, image by image row
        b = np.array([ref_apply_1d(order, bc, X[:, j]) for j in range(n)]).T         # along columns
        cols.append(np.concatenate([a.ravel(), b.ravel()]))
    return np.array(cols).T.reshape(-1, n * n)


def must_exist(order, bc, n):
    """configurations the documentation promises (a refusal there is a failure); elsewhere a refusal is fine"""
    if order == 0:
        return n >= 1
    if order == 1:
        return bc in BCS and n >= 1
    if order == 2:
        return bc in ("zero", "periodic", "neumann") and n >= 3
    return False


def small_n_periodic(order, bc, n):
    return bc == "periodic" and ((order == 1 and n == 1) or (order == 2 and n <= 2))


def rows_equal_up_to_sign(A, B):
    return A.shape == B.shape and all(np.array_equal(a, b) or np.array_equal(a, -b) for a, b in zip(A, B))


def oracle_matrix(order, bc, n, two_d, obs, scale=1.0, exact=True):
    """obs: dense observed matrix or None (refused).  Returns (detail, signature) or (None, '')."""
    if n == 0:
        return None, ""
    ref = ref_matrix(order, bc, n, two_d) if bc in BCS else None
    sig = SIG_SMALLN if small_n_periodic(order, bc, n) else "FiniteDifference.get_matrix|%s-order%d-%s" % ("2d" if two_d else "1d", order, bc)
    if obs is None:
        if ref is not None and must_exist(order, bc, n):
            return "operator (order %d, %s, n=%d, %s) is refused although it is documented" % (order, bc, n, "2-d" if two_d else "1-d"), sig
        return None, ""
    if ref is None:
        return "operator (order %d, bc %r, n=%d) is built although no such operator is documented: %s" % (order, bc, n, obs.tolist()), sig
    ref = ref / scale
    if bc == "backward":
        ok = rows_equal_up_to_sign(obs, ref) if exact else (obs.shape == ref.shape and np.allclose(np.abs(obs), np.abs(ref), rtol=1e-12, atol=0))
    else:
        ok = obs.shape == ref.shape and (np.array_equal(obs, ref) if exact else np.allclose(obs, ref, rtol=1e-12, atol=0))
    if not ok:
        return "get_matrix() (order %d, %s, n=%d, %s) = %s differs from the documented stencil %s" % (
            order, bc, n, "2-d" if two_d else "1-d", obs.tolist(), ref.tolist()), sig
    return None, ""


def nullity_expected(order, bc, two_d):
    k = {"zero": 0, "backward": 0, "none": 0, "periodic": min(order, 1), "neumann": order}[bc] if order > 0 else 0
    return k * k if two_d else k


def oracle_prec(order, bc, n, two_d, obs):
    """P = D^T D of the reference operator; symmetric, PSD, null space as implied by the BC."""
    if n == 0:
        return None, ""
    obc = "none" if order == 0 else bc
    oorder = 1 if order == 0 else order
    ref = ref_matrix(oorder, obc, n, two_d) if (obc in BCS and order in (0, 1, 2)) else None
    sig = SIG_SMALLN if small_n_periodic(order, bc, n) else "PrecisionFiniteDifference|%s-order%d-%s" % ("2d" if two_d else "1d", order, bc)
    if obs is None:
        if ref is not None and must_exist(order, bc, n):
            return "precision (order %d, %s, n=%d) is refused although documented" % (order, bc, n), sig
        return None, ""
    if ref is None:
        return "precision (order %d, bc %r, n=%d) is built although not documented" % (order, bc, n), sig
    P = ref.T @ ref
    if obs.shape != P.shape or not np.array_equal(obs, P):
        return "precision (order %d, %s, n=%d, %s) = %s is not D^T D of the documented operator = %s" % (
            order, bc, n, "2-d" if two_d else "1-d", obs.tolist(), P.tolist()), sig
    if not np.array_equal(obs, obs.T):
        return "precision not symmetric", sig
    ev = np.linalg.eigvalsh(obs) if obs.size else np.array([])
    if ev.size and ev.min() < -1e-9 * max(1.0, ev.max()):
        return "precision not positive semi-definite: min eigenvalue %r" % ev.min(), sig
    dimn = obs.shape[0]
    if n >= (3 if order == 2 else 2) or order == 0:
        nul = int(np.sum(ev <= 1e-9 * max(1.0, ev.max()))) if ev.size else 0
        if nul != min(nullity_expected(order, obc, two_d), dimn):
            return "null space of the precision (order %d, %s, n=%d, %s) has dimension %d, the boundary condition implies %d" % (
                order, bc, n, "2-d" if two_d else "1-d", nul, nullity_expected(order, obc, two_d)), sig
    return None, ""


# ------------------------------------------------------------------------------------------------
# drivers of the implementation
# ------------------------------------------------------------------------------------------------
def build_fd(order, nd, bc, dx):
    from cuqi.operator import FirstOrderFiniteDifference, SecondOrderFiniteDifference
    cls = FirstOrderFiniteDifference if order == 1 else SecondOrderFiniteDifference
    kw = {} if dx is None else {"dx": dx}
    return cls(py_nodes(nd), bc_type=bc, **kw)


def observe_fd(order, nd, bc, dx):
    try:
        op = build_fd(order, nd, bc, dx)
        M = dense(op.get_matrix())
        if M.shape != tuple(op.shape):
            return None, "shape attribute %s differs from the matrix %s" % (op.shape, M.shape)
        return M, None
    except Exception as e:          # a refusal: IndexError / ValueError / NotImplementedError / ZeroDivisionError / TypeError
        return None, type(e).__name__


def observe_prec(order, nd, bc):
    from cuqi.operator import PrecisionFiniteDifference
    try:
        return dense(PrecisionFiniteDifference(py_nodes(nd), bc_type=bc, order=order).get_matrix()), None
    except Exception as e:
        return None, type(e).__name__


def mk_geometry(pd, dim):
    import cuqi
    if pd == 1:
        return cuqi.geometry.Continuous1D(dim)
    N = int(round(math.sqrt(dim)))
    return cuqi.geometry.Image2D((N, N))


def observe_gmrf(pd, dim, bc, order, prec=1.0, mean=None, big=False, mdi=None):
    """big: construct with cuqi.config.MAX_DIM_INV lowered below dim (the documented configuration knob), which
    selects the large-dimension branch of GMRF.__init__ at a size the model can evaluate exactly"""
    import cuqi
    from cuqi.distribution import GMRF
    saved = cuqi.config.MAX_DIM_INV
    try:
        if mdi is not None:
            cuqi.config.MAX_DIM_INV = mdi               # exact-threshold cells: dim - 1, dim, dim + 1
        elif big:
            cuqi.config.MAX_DIM_INV = 1
        g = quiet(GMRF, np.zeros(dim) if mean is None else mean, prec, bc_type=bc, order=order, geometry=mk_geometry(pd, dim))
        return g, None
    except Exception as e:
        return None, type(e).__name__
    finally:
        cuqi.config.MAX_DIM_INV = saved


def nd_info(nd):
    """(n, two_d, wellformed-square) of a JSON num_nodes"""
    if isinstance(nd, int):
        return nd, False, True
    if nd[0] == "t" and len(nd) == 2:
        return nd[1], False, True
    if nd[0] == "t" and len(nd) == 3:
        return nd[1], True, nd[1] == nd[2]
    if nd[0] == "np":
        return (nd[1], False, True) if len(nd) == 2 else (nd[1], True, nd[1] == nd[2])
    return 0, False, False


# ------------------------------------------------------------------------------------------------
# case builders (each also usable from oracle() / replay() through meta)
# ------------------------------------------------------------------------------------------------
def case_fd(order, nd, bc, dx=None, dx_repr=None):
    n, two_d, wf = nd_info(nd)
    obs, err = observe_fd(order, nd, bc, dx)
    meta = {"op": "fd", "order": order, "nodes": nd, "bc": bc, "dx": dx_repr if dx_repr is not None else dx, "refusal": err}
    cell = "fd%d/%s/%s%s" % (order, "2d" if two_d else "1d", bc if bc in BCS else "unknown", "" if dx is None else "/dx")
    fail, sig = None, ""
    if not wf or (two_d and dx is not None) or (dx is not None and dx == 0):
        cell = "fd%d/malformed" % order
        if obs is not None:
            fail, sig = "malformed constructor call accepted: %r" % (meta,), "FiniteDifference.__init__|malformed-accepted"
    else:
        scale = 1.0 if dx is None else float(dx) ** order
        exact = dx is None or is_pow2(dx)
        fail, sig = oracle_matrix(order, bc, n, two_d, obs, scale=scale, exact=exact)
    if dx is None:
        rows = int_rows(obs) if obs is not None else None
        if obs is not None and rows is None:
            expr = "false"      # non-integer entries without a grid spacing
        else:
            expr = "check_fd_z_st %s %s %s %s %s" % (cst(), cnat(order), cnodes(nd), cbc(bc), copt(rows, czmat))
        model = "option_map fst (fd_op %s %s %s None)" % (cnat(order), cnodes(nd), cbc(bc))
    else:
        dxq = "(Some %s)" % cq(dx)
        expr = "check_fd_q_st %s %s %s %s %s %s %s" % (cst(), cnat(order), cnodes(nd), cbc(bc), dxq, cbool(is_pow2(dx)),
                                                copt(None if obs is None else obs.tolist(), cqmat))
        model = "fd_op %s %s %s %s" % (cnat(order), cnodes(nd), cbc(bc), dxq)
    meta["coq_model"] = model
    return Case(expr=expr, meta=meta, cell=cell, trivial=(obs is None or bc == "none"), kind="EXACT" if dx is None or is_pow2(dx) else "TOLERANCE",
                impl_fail=fail, signature=sig if fail else "")


def is_pow2(dx):
    if dx is None or dx == 0:
        return False
    f = abs(Fraction(dx))
    return (f.numerator & (f.numerator - 1)) == 0 and (f.denominator & (f.denominator - 1)) == 0 and f > 0


def case_prec(order, nd, bc):
    n, two_d, wf = nd_info(nd)
    obs, err = observe_prec(order, nd, bc)
    meta = {"op": "prec", "order": order, "nodes": nd, "bc": bc, "refusal": err}
    rows = int_rows(obs) if obs is not None else None
    expr = "false" if (obs is not None and rows is None) else \
        "check_prec_st %s %s %s %s %s" % (cst(), cnat(order), cnodes(nd), cbc(bc), copt(rows, czmat))
    meta["coq_model"] = "prec_op %s %s %s" % (cnat(order), cnodes(nd), cbc(bc))
    if wf:
        fail, sig = oracle_prec(order, bc, n, two_d, obs)
    else:
        fail, sig = (None, "") if obs is None else ("malformed call accepted", "PrecisionFiniteDifference|malformed-accepted")
    return Case(expr=expr, meta=meta, cell="prec/o%d/%s/%s" % (order, "2d" if two_d else "1d", bc if bc in BCS else "unknown"),
                trivial=(obs is None or order == 0 or bc == "none"), impl_fail=fail, signature=sig if fail else "")


def case_apply(order, nd, bc, x, y, half=False):
    """half: the vectors handed to the implementation are x/2, y/2 (half-integers, exact in binary floating point);
    the results are doubled (exactly) before the comparison with the integer model"""
    n, two_d, wf = nd_info(nd)
    op = build_fd(order, nd, bc, None)
    sc = 0.5 if half else 1.0
    Dx = (op @ (np.array(x, dtype=float) * sc)) / sc
    DTy = (op.T @ (np.array(y, dtype=float) * sc)) / sc
    meta = {"op": "apply", "order": order, "nodes": nd, "bc": bc, "x": x, "y": y, "half": half}
    a, b = int_rows(Dx), int_rows(DTy)
    expr = "false" if a is None or b is None else \
        "check_apply_st %s %s %s %s %s %s %s %s" % (cst(), cnat(order), cnodes(nd), cbc(bc), czvec(x), czvec(y), czvec(a), czvec(b))
    meta["coq_model"] = "option_map (fun D => (zmatvec (fst D) %s, zmattvec (nodes_dim %s) (fst D) %s)) (fd_op %s %s %s None)" % (
        czvec(x), cnodes(nd), czvec(y), cnat(order), cnodes(nd), cbc(bc))
    fail, sig = None, ""
    if not small_n_periodic(order, bc, n):
        X = np.array(x, dtype=float)
        if two_d:
            Xi = X.reshape(n, n)
            ref = np.concatenate([np.array([ref_apply_1d(order, bc, Xi[i, :]) for i in range(n)]).ravel(),
                                  np.array([ref_apply_1d(order, bc, Xi[:, j]) for j in range(n)]).T.ravel()])
        else:
            ref = ref_apply_1d(order, bc, X)
        okx = ref.shape == Dx.shape and (np.array_equal(np.abs(ref), np.abs(Dx)) if bc == "backward" else np.array_equal(ref, Dx))
        # adjoint: <D x, y> = <x, D^T y>
        oky = float(np.dot(Dx, np.array(y, dtype=float))) == float(np.dot(X, DTy))
        if not okx:
            fail = "D @ x = %s is not the documented difference %s of x = %s (order %d, %s)" % (Dx.tolist(), ref.tolist(), x, order, bc)
        elif not oky:
            fail = "<D x, y> != <x, D^T y> for x=%s y=%s" % (x, y)
        sig = "FiniteDifference.__matmul__|%s-order%d-%s" % ("2d" if two_d else "1d", order, bc)
    return Case(expr=expr, meta=meta, cell="apply/fd%d/%s/%s%s" % (order, "2d" if two_d else "1d", bc, "/half-integers" if half else ""),
                trivial=(bc == "none" or all(v == 0 for v in x)), impl_fail=fail, signature=sig if fail else "")


def case_keepalive(order, nd, bc, rng):
    """history: the operator is used (D@x, D.T@y, D.T@D, a precision operator and a Gaussian field of the same
    configuration are built, evaluated, their factors read) and is then re-read: its matrix, the vectors handed in and
    the field's operators must be what they were (nothing is shared or updated in place)"""
    from cuqi.operator import PrecisionFiniteDifference
    n, two_d, wf = nd_info(nd)
    op = build_fd(order, nd, bc, None)
    M0 = dense(op.get_matrix()).copy()
    dim = n * n if two_d else n
    x = np.array([rng.randint(-9, 9) for _ in range(dim)], dtype=float)
    y = np.array([rng.randint(-9, 9) for _ in range(M0.shape[0])], dtype=float)
    x0, y0 = x.copy(), y.copy()
    changed = []
    a1 = op @ x
    a1c = a1.copy()
    op @ (x + 1.0)                  # a different vector of the same shape: an output handed out earlier must not follow
    if not np.array_equal(a1, a1c):
        changed.append("D@x returned earlier changed after a later product")
    t1 = op.T @ y
    t1c = np.array(t1).copy()
    op.T @ (y - 2.0)
    if not np.array_equal(np.array(t1), t1c):
        changed.append("D.T@y returned earlier changed after a later product")
    (op.T @ op)
    P = PrecisionFiniteDifference(py_nodes(nd), bc_type=bc, order=order)
    P0 = dense(P.get_matrix()).copy()
    P @ x
    g = None
    if bc in ("zero", "periodic", "neumann") and dim >= 2:
        g, _ = observe_gmrf(2 if two_d else 1, dim, bc, order, prec=2.0, mean=x.copy())
    if g is not None:
        Pg0 = dense(g._prec_op.get_matrix()).copy()
        Dg0 = dense(g._diff_op.get_matrix()).copy()
        v1 = float(np.ravel(g.logpdf(y[:dim] if len(y) >= dim else x))[0])
        g.sqrtprec; g.sqrtprecTimesMean
        try:
            g.gradient(x)
        except Exception:
            pass
        v2 = float(np.ravel(g.logpdf(y[:dim] if len(y) >= dim else x))[0])
        if not (v1 == v2 or (math.isnan(v1) and math.isnan(v2))):
            changed.append("GMRF.logpdf gives %r then %r on the same input" % (v1, v2))
        if not np.array_equal(dense(g._prec_op.get_matrix()), Pg0) or not np.array_equal(dense(g._diff_op.get_matrix()), Dg0):
            changed.append("the field's operators changed by evaluating it")
    a2 = op @ x
    M1 = dense(op.get_matrix())
    if not np.array_equal(M0, M1):
        changed.append("get_matrix() changed by use: %s -> %s" % (M0.tolist(), M1.tolist()))
    if not np.array_equal(x, x0) or not np.array_equal(y, y0):
        changed.append("an input vector was modified in place")
    if not np.array_equal(a1, a1c) or not np.array_equal(a1c, a2):
        changed.append("D@x returned earlier changed / is not reproducible")
    if not np.array_equal(dense(P.get_matrix()), P0):
        changed.append("precision matrix changed by use")
    rows = int_rows(M1)
    expr = "false" if rows is None else "check_fd_z_st %s %s %s %s (Some %s)" % (cst(), cnat(order), cnodes(nd), cbc(bc), czmat(rows))
    return Case(expr=expr, meta={"op": "keepalive", "order": order, "nodes": nd, "bc": bc}, cell="keepalive/fd%d/%s/%s" % (order, "2d" if two_d else "1d", bc),
                impl_fail="; ".join(changed) or None, signature="FiniteDifference|state-changed-by-use" if changed else "")


def style_cases(rng):
    """declaration styles, optional arguments left at their defaults, dtypes / memory layouts of the vectors, and
    objects re-used after their parameters were re-assigned; every case is compared with the model through the same
    checkers as the plain cells and with the independent stencils"""
    import cuqi
    from cuqi.operator import FirstOrderFiniteDifference, SecondOrderFiniteDifference, PrecisionFiniteDifference
    from cuqi.distribution import GMRF, LMRF, CMRF
    out = []

    def fd_case(op, order, n, bc, style):
        M = dense(op.get_matrix())
        rows = int_rows(M)
        fail, sig = oracle_matrix(order, bc, n, False, M)
        return Case(expr="false" if rows is None else "check_fd_z_st %s %s %s %s (Some %s)" % (cst(), cnat(order), cnodes(n), cbc(bc), czmat(rows)),
                    meta={"op": "style", "what": style, "order": order, "n": n, "bc": bc}, cell="style/" + style,
                    impl_fail=fail, signature=("FiniteDifference|style:" + style) if fail else "")
    # defaults: the operators default to periodic, the precision to periodic order 1
    for n in (3, 6):
        out.append(fd_case(FirstOrderFiniteDifference(n), 1, n, "periodic", "default-bc"))
        out.append(fd_case(SecondOrderFiniteDifference(n), 2, n, "periodic", "default-bc"))
        out.append(fd_case(FirstOrderFiniteDifference(n, "neumann"), 1, n, "neumann", "positional-bc"))
        out.append(fd_case(SecondOrderFiniteDifference(n, "zero", None), 2, n, "zero", "positional-bc-dx"))
        P = dense(PrecisionFiniteDifference(n).get_matrix())
        out.append(Case(expr="check_prec_st %s 1%%nat %s Periodic (Some %s)" % (cst(), cnodes(n), czmat(int_rows(P))),
                        meta={"op": "style", "what": "prec-defaults", "n": n}, cell="style/default-prec"))
    # vectors: integer dtype, float32, strided and reversed views, Fortran-ordered image
    for order, bc in ((1, "zero"), (1, "periodic"), (2, "neumann"), (1, "backward")):
        n = 6
        op = build_fd(order, n, bc, None)
        base = np.array([rng.randint(-9, 9) for _ in range(2 * n)])
        for style, x in (("int64", base[:n].astype(np.int64)), ("float32", base[:n].astype(np.float32)),
                         ("strided", base.astype(float)[::2]), ("reversed-view", base[:n].astype(float)[::-1])):
            xl = [int(v) for v in x]
            Dx = np.asarray(op @ x, dtype=float)
            ref = ref_apply_1d(order, bc, np.array(xl, dtype=float))
            ok = np.array_equal(np.abs(ref), np.abs(Dx)) if bc == "backward" else np.array_equal(ref, Dx)
            y = [0] * len(Dx)
            out.append(Case(expr="check_apply_st %s %s %s %s %s %s %s %s" % (cst(), cnat(order), cnodes(n), cbc(bc), czvec(xl), czvec(y), czvec(int_rows(Dx)), czvec([0] * n)),
                            meta={"op": "style", "what": "vector-" + style, "order": order, "bc": bc, "x": xl}, cell="style/vector-" + style,
                            impl_fail=None if ok else "D @ x for a %s vector %s = %s, documented %s" % (style, xl, Dx.tolist(), ref.tolist()),
                            signature="" if ok else "FiniteDifference.__matmul__|vector-" + style))
    # priors: geometry given as an integer, defaults (zero BC, order 1), 1-element array precision, list mean,
    # integer / strided evaluation points; then the SAME object after prec and mean were re-assigned
    for dim in (5, 8):
        x = [rng.randint(-6, 6) for _ in range(dim)]
        m1 = [rng.randint(-3, 3) for _ in range(dim)]
        m2 = [rng.randint(-3, 3) for _ in range(dim)]
        g = quiet(GMRF, m1, np.array([3.0]), geometry=dim)                 # defaults: zero BC, order 1
        ref = ref_matrix(1, "zero", dim)
        Pref = ref.T @ ref

        def quad_case(g, mean, prec, xs, style):
            xa = np.array(xs)                                                # integer dtype on purpose
            if style.endswith("strided"):
                xa = np.array([v for v in xs for _ in (0, 1)], dtype=float)[::2]
            v0 = float(np.ravel(g.logpdf(np.array(mean, dtype=float)))[0])
            v = float(np.ravel(g.logpdf(xa))[0])
            q_obs = -2.0 * (v - v0) / prec
            d = np.array(xs, dtype=float) - np.array(mean, dtype=float)
            q_ref = float(d @ (Pref @ d))
            bad = abs(q_obs - q_ref) > 1e-9 * (1 + abs(q_ref))
            return Case(expr="check_gmrf_quad_st %s 1%%nat %s Zero 1%%nat %s %s %s" % (cst(), cnat(dim), czvec(xs), czvec(mean), cq(q_obs)),
                        meta={"op": "style", "what": style, "dim": dim, "x": xs, "mean": mean, "prec": prec}, cell="style/gmrf-" + style, kind="TOLERANCE",
                        impl_fail=("GMRF (%s): quadratic form read off logpdf = %r, (x-mean)^T P (x-mean) = %r" % (style, q_obs, q_ref)) if bad else None,
                        signature="GMRF.logpdf|style:" + style if bad else "")
        out.append(quad_case(g, m1, 3.0, x, "defaults-int-geometry-array-prec-list-mean"))
        out.append(quad_case(g, m1, 3.0, x, "int-x-strided"))
        R1 = dense(g.sqrtprec)
        g.prec = 0.75
        g.mean = np.array(m2, dtype=float)
        out.append(quad_case(g, m2, 0.75, x, "after-reassigning-prec-and-mean"))
        R2 = dense(g.sqrtprec)
        bad = np.abs(R2.T @ R2 - 0.75 * Pref).max() > 1e-9 or np.abs(R1.T @ R1 - 3.0 * Pref).max() > 1e-9
        out.append(Case(expr="check_sqrtprec_st %s 1%%nat %s Zero 1%%nat %s %s" % (cst(), cnat(dim), cq(0.75), cqmat(R2.tolist())),
                        meta={"op": "style", "what": "sqrtprec-after-reassigning-prec", "dim": dim}, cell="style/gmrf-sqrtprec-reassigned", kind="TOLERANCE",
                        impl_fail="sqrtprec does not follow the re-assigned precision" if bad else None,
                        signature="GMRF.sqrtprec|after-reassignment" if bad else ""))
        # LMRF / CMRF: defaults (zero BC), integer geometry, location re-assigned, data 2^20 times larger
        for kind, cls in (("lmrf", LMRF), ("cmrf", CMRF)):
            dist = cls(0, 0.5, geometry=dim)
            for style, loc, xs in (("defaults-int-geometry", [0] * dim, x), ("after-reassigning-location", m2, x),
                                   ("magnitude-2^20", m2, [v * 2 ** 20 for v in x])):
                if style != "defaults-int-geometry":
                    dist.location = np.array(loc, dtype=float)
                if kind == "cmrf" and style == "magnitude-2^20":
                    continue
                v0 = float(np.ravel(dist.logpdf(np.array(loc, dtype=float)))[0])
                v = float(np.ravel(dist.logpdf(np.array(xs, dtype=float)))[0])
                refd = ref_apply_1d(1, "zero", np.array(xs, dtype=float) - np.array(loc, dtype=float))
                Drows = int_rows(dense(dist._diff_op.get_matrix()))
                if kind == "lmrf":
                    obs, expect = 0.5 * (v0 - v), float(np.sum(np.abs(refd)))
                    expr = "check_lmrf_st %s 1%%nat %s Zero %s %s (Some %s) %s" % (cst(), cnat(dim), czvec(xs), czvec(loc), cq(obs), copt(Drows, czmat))
                else:
                    obs, expect = math.exp(v0 - v), float(np.prod(1.0 + (refd / 0.5) ** 2))
                    expr = "check_cmrf_st %s 1%%nat %s Zero %s %s %s (Some %s) %s" % (cst(), cnat(dim), cq(0.5), czvec(xs), czvec(loc), cq(obs), copt(Drows, czmat))
                bad = abs(obs - expect) > 1e-9 * (1 + abs(expect))
                out.append(Case(expr=expr, meta={"op": "style", "what": kind + "-" + style, "dim": dim, "x": xs, "loc": loc}, cell="style/%s-%s" % (kind, style), kind="TOLERANCE",
                                impl_fail=("%s (%s): data term %r, through the documented differences %r" % (kind.upper(), style, obs, expect)) if bad else None,
                                signature=("%s.logpdf|style:%s" % (kind.upper(), style)) if bad else ""))
    return out


def lesson_cases(ctx, rng):
    """cell families for the round-4 lessons L14..L26 (see the registry note for the table); every family compares with the
    model through the ordinary checkers and with the independent stencils"""
    import cuqi, collections
    from cuqi.operator import FirstOrderFiniteDifference, SecondOrderFiniteDifference
    from cuqi.distribution import GMRF, LMRF, CMRF
    out = []

    def refP(order, bc, dim):
        r = ref_matrix(1 if order == 0 else order, "none" if order == 0 else bc, dim)
        return r.T @ r

    def gq(g, xs, mean, prec, order, bc, fam, xarr=None, v0=None):
        """quadratic-form read-off of a 1-d field against the model and ref^T ref"""
        dim = len(xs)
        mvec = np.array(mean, dtype=float)
        if v0 is None:
            v0 = float(np.ravel(g.logpdf(mvec.copy()))[0])
        v = float(np.ravel(g.logpdf(np.array(xs, dtype=float) if xarr is None else xarr))[0])
        q_obs = -2.0 * (v - v0) / prec
        d = np.array(xs, dtype=float) - mvec
        q_ref = float(d @ (refP(order, bc, dim) @ d))
        bad = not (abs(q_obs - q_ref) <= 1e-9 * (1 + abs(q_ref)))
        return Case(expr="check_gmrf_quad_st %s 1%%nat %s %s %s %s %s %s" % (cst(), cnat(dim), cbc(bc), cnat(order), czvec(xs), czvec(mean), cq(q_obs if math.isfinite(q_obs) else 0.0)),
                    meta={"op": "lesson", "what": fam, "dim": dim, "bc": bc, "order": order, "x": xs, "mean": mean, "prec": prec}, cell="lesson/" + fam, kind="TOLERANCE",
                    impl_fail=("GMRF (%s, %s, order %d): quadratic form read off logpdf = %r, (x-mean)^T P (x-mean) = %r" % (fam, bc, order, q_obs, q_ref)) if bad else None,
                    signature=("GMRF.logpdf|" + fam) if bad else "")

    def lm(kind, dist, xs, loc, scale, bc, fam, xarr=None, dim=None):
        dim = len(xs)
        lvec = np.array(loc, dtype=float)
        v0 = float(np.ravel(dist.logpdf(lvec.copy()))[0])
        v = float(np.ravel(dist.logpdf(np.array(xs, dtype=float) if xarr is None else xarr))[0])
        refd = ref_apply_1d(1, bc, np.array(xs, dtype=float) - lvec)
        Drows = int_rows(dense(dist._diff_op.get_matrix()))
        if kind == "lmrf":
            obs, expect = scale * (v0 - v), float(np.sum(np.abs(refd)))
            expr = "check_lmrf_st %s 1%%nat %s %s %s %s (Some %s) %s" % (cst(), cnat(dim), cbc(bc), czvec(xs), czvec(loc), cq(obs), copt(Drows, czmat))
        else:
            obs, expect = math.exp(v0 - v), float(np.prod(1.0 + (refd / scale) ** 2))
            expr = "check_cmrf_st %s 1%%nat %s %s %s %s %s (Some %s) %s" % (cst(), cnat(dim), cbc(bc), cq(scale), czvec(xs), czvec(loc), cq(obs), copt(Drows, czmat))
        bad = not (abs(obs - expect) <= 1e-9 * (1 + abs(expect)))
        return Case(expr=expr, meta={"op": "lesson", "what": fam + "-" + kind, "dim": dim, "bc": bc, "x": xs, "loc": loc, "scale": scale}, cell="lesson/%s-%s" % (fam, kind), kind="TOLERANCE",
                    impl_fail=("%s (%s, %s): data term %r, through the documented differences %r" % (kind.upper(), fam, bc, obs, expect)) if bad else None,
                    signature=("%s.logpdf|%s" % (kind.upper(), fam)) if bad else "")

    dim = 6
    ints = lambda lo, hi, n=dim: [rng.randint(lo, hi) for _ in range(n)]
    # ---- L14: a refused re-assignment after use leaves the object as it was ------------------------------------
    for bc in ("zero", "neumann"):
        x, m = ints(-6, 6), ints(-3, 3)
        g = quiet(GMRF, np.array(m, dtype=float), 2.0, bc_type=bc)
        g.logpdf(np.array(x, dtype=float)); g.sqrtprec
        refused = False
        try:
            g.prec = np.array([1.0, 2.0])
        except ValueError:
            refused = True
        c = gq(g, x, m, 2.0, 1, bc, "L14-refusal-after-use")
        if not refused:
            c.impl_fail = "GMRF.prec accepts a 2-element array after the object was used (refused on a fresh object)"
            c.signature = "GMRF.prec|L14-refusal-after-use"
        out.append(c)
    # ---- L15: the caller overwrites the SAME array object in place between calls ------------------------------
    for bc in ("zero", "periodic"):
        x, m = ints(-6, 6), ints(-3, 3)
        g = quiet(GMRF, np.array(m, dtype=float), 2.0, bc_type=bc)
        xa = np.array(x, dtype=float)
        v0 = float(np.ravel(g.logpdf(np.array(m, dtype=float)))[0])
        g.logpdf(xa)
        xa *= 2.0
        xa += 1.0                                                  # same object, new content
        out.append(gq(g, [2 * v + 1 for v in x], m, 2.0, 1, bc, "L15-inplace-overwritten-x", xarr=xa, v0=v0))
        dl = LMRF(0, 0.5, bc_type=bc, geometry=dim)
        xb = np.array(x, dtype=float)
        dl.logpdf(xb)
        xb *= 3.0
        out.append(lm("lmrf", dl, [3 * v for v in x], [0] * dim, 0.5, bc, "L15-inplace-overwritten-x", xarr=xb))
        op = build_fd(1, dim, bc, None)
        xc = np.array(x, dtype=float)
        op @ xc
        xc -= 4.0
        Dx = op @ xc
        ref = ref_apply_1d(1, bc, np.array(x, dtype=float) - 4.0)
        ok = np.array_equal(Dx, ref)
        out.append(Case(expr="check_apply_st %s 1%%nat %s %s %s %s %s %s" % (cst(), cnodes(dim), cbc(bc), czvec([v - 4 for v in x]), czvec([0] * len(Dx)), czvec(int_rows(Dx)), czvec([0] * dim)),
                        meta={"op": "lesson", "what": "L15-inplace-overwritten-x-op", "bc": bc, "x": x}, cell="lesson/L15-inplace-overwritten-x-op",
                        impl_fail=None if ok else "D @ x after x was overwritten in place = %s, documented %s" % (Dx.tolist(), ref.tolist()),
                        signature="" if ok else "FiniteDifference.__matmul__|L15-inplace-overwritten-x"))
    # ---- L17 / L25: parameter given through a callable whose argument is named like the attribute; two conditioned
    #      copies alive at once, the FIRST evaluated (logpdf and sqrtprec) after the second was created and used ----
    for bc in ("zero", "neumann"):
        x, m = ints(-6, 6), ints(-3, 3)
        G = quiet(GMRF, np.array(m, dtype=float), lambda prec: 1.0 / prec, bc_type=bc)
        g1 = quiet(G, prec=4.0)                                    # effective precision 1/4
        g2 = quiet(G, prec=0.5)                                    # effective precision 2
        g2.logpdf(np.array(x, dtype=float)); g2.sqrtprec
        out.append(gq(g1, x, m, 0.25, 1, bc, "L17-L25-named-like-attribute-first-of-two-copies"))
        out.append(gq(g2, x, m, 2.0, 1, bc, "L17-L25-named-like-attribute-second-copy"))
        R1 = dense(g1.sqrtprec)
        shift = 0.0 if bc == "zero" else SQRT_EPS
        bad = np.abs(R1.T @ R1 - 0.25 * (refP(1, bc, dim) + shift * np.eye(dim))).max() > 1e-9
        out.append(Case(expr="check_sqrtprec_st %s 1%%nat %s %s 1%%nat %s %s" % (cst(), cnat(dim), cbc(bc), cq(0.25), cqmat(R1.tolist())),
                        meta={"op": "lesson", "what": "L25-sqrtprec-first-of-two-copies", "bc": bc}, cell="lesson/L25-sqrtprec-first-of-two-copies", kind="TOLERANCE",
                        impl_fail="sqrtprec of the first conditioned copy is not that of ITS precision after a second copy was used" if bad else None,
                        signature="GMRF.sqrtprec|L25-shallow-copies" if bad else ""))
        Ld = LMRF(np.array(m, dtype=float), lambda scale: 1.0 / scale, bc_type=bc, geometry=dim)
        l1, l2 = Ld(scale=4.0), Ld(scale=0.5)
        l2.logpdf(np.array(x, dtype=float))
        out.append(lm("lmrf", l1, x, m, 0.25, bc, "L17-L25-named-like-attribute-first-of-two-copies"))
        Cd = CMRF(np.array(m, dtype=float), lambda scale: 1.0 / scale, bc_type=bc, geometry=dim)
        c1, c2 = Cd(scale=2.0), Cd(scale=0.5)
        c2.logpdf(np.array(x, dtype=float))
        out.append(lm("cmrf", c1, x, m, 0.5, bc, "L17-L25-named-like-attribute-first-of-two-copies"))
    # ---- L18 / L26: exact zeros inside generic data; vectors of the null space (constant, affine), also with a large
    #      common offset: the data term must be EXACTLY that of the differences ------------------------------------
    for bc in ("zero", "periodic", "neumann"):
        for order in (1, 2):
            base = ints(1, 6)
            zx = [0 if i % 2 else v for i, v in enumerate(base)]
            zm = [0, 2] + [0] * (dim - 2)
            g = quiet(GMRF, np.array(zm, dtype=float), 2.0, bc_type=bc, order=order)
            out.append(gq(g, zx, zm, 2.0, order, bc, "L18-exact-zeros"))
            m = ints(-3, 3)
            g = quiet(GMRF, np.array(m, dtype=float), 2.0, bc_type=bc, order=order)
            for fam, dlt in (("L18-null-space-constant", [5] * dim), ("L18-null-space-affine", [3 * i - 4 for i in range(dim)]),
                             ("L26-null-space-offset-2^30", [2 ** 30] * dim)):
                out.append(gq(g, [a + b for a, b in zip(m, dlt)], m, 2.0, order, bc, fam))
        off = 2 ** 30
        mo = [a + off for a in ints(-3, 3)]
        g = quiet(GMRF, np.array(mo, dtype=float), 2.0, bc_type=bc)
        out.append(gq(g, [a + rng.randint(-3, 3) for a in mo], mo, 2.0, 1, bc, "L26-large-common-offset"))
        loc = ints(-3, 3)
        for kind, cls, sc in (("lmrf", LMRF, 0.5), ("cmrf", CMRF, 0.5)):
            d0 = cls(np.array(loc, dtype=float), sc, bc_type=bc, geometry=dim)
            out.append(lm(kind, d0, [a + (0 if i % 2 else 3) for i, a in enumerate(loc)], loc, sc, bc, "L18-exact-zero-differences"))
            out.append(lm(kind, d0, [a + 7 for a in loc], loc, sc, bc, "L18-null-space-constant"))
            off = 2 ** 30
            d1 = cls(np.array([a + off for a in loc], dtype=float), sc, bc_type=bc, geometry=dim)
            xs = [a + off + rng.randint(-3, 3) for a in loc]
            out.append(lm(kind, d1, xs, [a + off for a in loc], sc, bc, "L26-large-common-offset"))
    # ---- L19 / L21: LMRF and CMRF evaluate a batch (columns = points), C- and Fortran-ordered, and a single column -----
    for kind, cls in (("lmrf", LMRF), ("cmrf", CMRF)):
        for bc in ("zero", "neumann"):
            dist = cls(0, 0.5, bc_type=bc, geometry=dim)
            cols = [ints(-6, 6) for _ in range(3)]
            X = np.array(cols, dtype=float).T.copy()
            for fam, arr in (("L19-batch-C-order", X), ("L19-batch-Fortran-order", np.asfortranarray(X)), ("L21-one-column", X[:, :1])):
                vals = np.asarray(dist.logpdf(arr), dtype=float)
                v0 = float(np.ravel(dist.logpdf(np.zeros(dim)))[0])
                k = arr.shape[1]
                exp_shape_ok = vals.shape == (k,)
                bad_msgs = [] if exp_shape_ok else ["logpdf of a (dim, %d) batch has shape %s" % (k, vals.shape)]
                vv = np.ravel(vals)
                for j in range(min(k, len(vv))):
                    refd = ref_apply_1d(1, bc, np.array(cols[j], dtype=float))
                    if kind == "lmrf":
                        obs, expect = 0.5 * (v0 - vv[j]), float(np.sum(np.abs(refd)))
                    else:
                        obs, expect = math.exp(v0 - vv[j]), float(np.prod(1.0 + (refd / 0.5) ** 2))
                    if not abs(obs - expect) <= 1e-9 * (1 + abs(expect)):
                        bad_msgs.append("column %d: data term %r, through the documented differences %r" % (j, obs, expect))
                j = 0
                obs0 = 0.5 * (v0 - vv[0]) if kind == "lmrf" else math.exp(v0 - vv[0])
                Drows = int_rows(dense(dist._diff_op.get_matrix()))
                expr = ("check_lmrf_st %s 1%%nat %s %s %s %s (Some %s) %s" % (cst(), cnat(dim), cbc(bc), czvec(cols[0]), czvec([0]), cq(obs0), copt(Drows, czmat))) if kind == "lmrf" else \
                    ("check_cmrf_st %s 1%%nat %s %s %s %s %s (Some %s) %s" % (cst(), cnat(dim), cbc(bc), cq(0.5), czvec(cols[0]), czvec([0]), cq(obs0), copt(Drows, czmat)))
                out.append(Case(expr=expr, meta={"op": "lesson", "what": fam + "-" + kind, "bc": bc, "cols": cols}, cell="lesson/%s-%s" % (fam, kind), kind="TOLERANCE",
                                impl_fail="; ".join(bad_msgs) or None, signature=("%s.logpdf|%s" % (kind.upper(), fam)) if bad_msgs else ""))
    # ---- L20: parameters stored with an integer dtype, evaluated at half-integer points ----------------------------
    for bc in ("zero", "neumann"):
        m = ints(-3, 3)
        x2 = [2 * v + 1 for v in ints(-4, 4)]                       # twice the evaluation point (odd: half-integers)
        g = quiet(GMRF, np.array(m, dtype=np.int64), 2, bc_type=bc)  # integer mean array, integer precision
        m2 = [2 * v for v in m]
        mvec = np.array(m, dtype=float)
        v0 = float(np.ravel(g.logpdf(mvec))[0])
        c = gq(g, x2, m2, 2.0, 1, bc, "L20-integer-parameters", xarr=np.array(x2, dtype=float) / 2.0, v0=v0)
        # the read-off at x/2 is a quarter of the form at x (both x and mean doubled in the model)
        vq = float(np.ravel(g.logpdf(np.array(x2, dtype=float) / 2.0))[0])
        q_obs = -2.0 * (vq - v0) / 2.0 * 4.0
        d = np.array(x2, dtype=float) - np.array(m2, dtype=float)
        q_ref = float(d @ (refP(1, bc, dim) @ d))
        bad = not abs(q_obs - q_ref) <= 1e-9 * (1 + abs(q_ref))
        c.expr = "check_gmrf_quad_st %s 1%%nat %s %s 1%%nat %s %s %s" % (cst(), cnat(dim), cbc(bc), czvec(x2), czvec(m2), cq(q_obs))
        c.impl_fail = ("GMRF with integer mean / precision at a half-integer point: 4 x quadratic form %r, expected %r" % (q_obs, q_ref)) if bad else None
        c.signature = "GMRF.logpdf|L20-integer-parameters" if bad else ""
        out.append(c)
        for kind, cls in (("lmrf", LMRF), ("cmrf", CMRF)):
            dist = cls(np.array(m, dtype=np.int64), 2, bc_type=bc, geometry=dim)     # integer location array, integer scale
            lvec = np.array(m, dtype=float)
            v0 = float(np.ravel(dist.logpdf(lvec))[0])
            vh = float(np.ravel(dist.logpdf(np.array(x2, dtype=float) / 2.0))[0])
            refd = ref_apply_1d(1, bc, np.array(x2, dtype=float) / 2.0 - lvec)
            Drows = int_rows(dense(dist._diff_op.get_matrix()))
            if kind == "lmrf":
                obs, expect = 2.0 * (v0 - vh) * 2.0, 2.0 * float(np.sum(np.abs(refd)))      # doubled: l1 of the doubled data
                expr = "check_lmrf_st %s 1%%nat %s %s %s %s (Some %s) %s" % (cst(), cnat(dim), cbc(bc), czvec(x2), czvec(m2), cq(obs), copt(Drows, czmat))
            else:
                obs, expect = math.exp(v0 - vh), float(np.prod(1.0 + (refd / 2.0) ** 2))
                expr = "check_cmrf_st %s 1%%nat %s %s %s %s %s (Some %s) %s" % (cst(), cnat(dim), cbc(bc), cq(4.0), czvec(x2), czvec(m2), cq(obs), copt(Drows, czmat))
            bad = not abs(obs - expect) <= 1e-9 * (1 + abs(expect))
            out.append(Case(expr=expr, meta={"op": "lesson", "what": "L20-integer-parameters-" + kind, "bc": bc, "x2": x2, "loc": m}, cell="lesson/L20-integer-parameters-" + kind, kind="TOLERANCE",
                            impl_fail=("%s with integer location / scale at a half-integer point: data term %r, expected %r" % (kind.upper(), obs, expect)) if bad else None,
                            signature=("%s.logpdf|L20-integer-parameters" % kind.upper()) if bad else ""))
    # ---- L22: the SHIPPED threshold config.MAX_DIM_INV = 2000, not a lowered one: dim 2001 (2000 in the thorough tier);
    #      order 1 / neumann, whose pseudo-determinant is n for every n (Props/C20_det.v: C20_pdet_order1_neumann) --------
    for n_big in ([2001] + ([2000] if ctx.thorough else [])):
        mdi = int(cuqi.config.MAX_DIM_INV)
        g, err = observe_gmrf(1, n_big, "neumann", 1)
        took_reg = g is not None and not hasattr(g, "_L_eigval")
        fail, sig = None, ""
        if g is None:
            fail, sig = "GMRF(dim=%d, neumann) refused: %s" % (n_big, err), "GMRF.__init__|refused"
        else:
            L = math.log(n_big)
            dev = float(g._logdet) - L
            hi = (SQRT_EPS * (n_big ** 2 - 1) / 6.0 + 1e-6) if (took_reg and bigdim_repaired()) else 1e-8     # trace(P^+) of the path Laplacian
            if int(g._rank) != n_big - 1 or not (-1e-6 <= dev <= hi):
                fail = "GMRF(dim=%d, neumann, order 1) with the shipped MAX_DIM_INV=%d: rank %d, logdet %r, ln n = %r" % (n_big, mdi, g._rank, float(g._logdet), L)
                sig = SIG_BIGDIM if took_reg else SIG_RANK_OTHER
        out.append(Case(expr="check_logdet_branch Neumann %s %s %s" % (cnat(n_big), cnat(mdi), cbool(took_reg)),
                        meta={"op": "lesson", "what": "L22-shipped-threshold-%d" % n_big}, cell="lesson/L22-shipped-threshold", kind="DECISION",
                        impl_fail=fail, signature=sig))
    # ---- L23: subclass instances where the code tests types: tuple subclass as num_nodes, ndarray subclass (CUQIarray)
    #      as evaluation point and as mean, geometries that subclass Continuous1D -----------------------------------------
    NT = collections.namedtuple("NT", "nx ny")
    for order, cls in ((1, FirstOrderFiniteDifference), (2, SecondOrderFiniteDifference)):
        try:
            M = dense(cls(NT(3, 3), bc_type="neumann").get_matrix())
            rows, fail = int_rows(M), oracle_matrix(order, "neumann", 3, True, M)[0]
        except Exception as e:
            rows, fail = None, "a tuple subclass (namedtuple) as num_nodes is refused: %s" % type(e).__name__
        out.append(Case(expr="check_fd_z_st %s %s (NTup2 3%%nat 3%%nat) Neumann %s" % (cst(), cnat(order), copt(rows, czmat)),
                        meta={"op": "lesson", "what": "L23-tuple-subclass-%d" % order}, cell="lesson/L23-tuple-subclass",
                        impl_fail=fail, signature="FiniteDifference.__init__|L23-tuple-subclass" if fail else ""))
    for bc in ("zero", "neumann"):
        x, m = ints(-6, 6), ints(-3, 3)
        geo = cuqi.geometry.Continuous1D(dim)
        g = quiet(GMRF, cuqi.array.CUQIarray(np.array(m, dtype=float), geometry=geo), 2.0, bc_type=bc)
        out.append(gq(g, x, m, 2.0, 1, bc, "L23-CUQIarray-mean-and-point", xarr=cuqi.array.CUQIarray(np.array(x, dtype=float), geometry=geo)))
        for gname, geom in (("StepExpansion", cuqi.geometry.StepExpansion(np.linspace(0, 1, 2 * dim), n_steps=dim)),
                            ("KLExpansion", cuqi.geometry.KLExpansion(np.linspace(0, 1, dim)))):
            g = quiet(GMRF, np.array(m, dtype=float), 2.0, bc_type=bc, geometry=geom)
            out.append(gq(g, x, m, 2.0, 1, bc, "L23-geometry-subclass-" + gname))
    return out


def gmrf_class_signature(pd, dim, bc, order):
    N = dim if pd == 1 else int(math.isqrt(dim))
    if order == 0 and bc in ("periodic", "neumann"):
        return SIG_RANK0
    if order == 2 and bc == "neumann":
        return SIG_RANK2N
    if order == 2 and bc == "periodic" and N <= 2:
        return SIG_SMALLN
    return SIG_RANK_OTHER


def gmrf_cases(pd, dim, bc, order, rng, nvec=2, big=False, mdi=None):
    """all cases for one GMRF configuration (big: the dim > config.MAX_DIM_INV branch, see observe_gmrf)"""
    out = []
    base = {"pd": pd, "dim": dim, "bc": bc, "order": order}
    thr_cell = ""
    if mdi is not None:
        # the documented rule: the approximate (regularised) log-determinant strictly ABOVE config.MAX_DIM_INV only
        base["mdi"] = mdi
        big = dim > mdi
        thr_cell = "/threshold:MAX_DIM_INV=dim%+d" % (mdi - dim) if mdi != dim else "/threshold:MAX_DIM_INV=dim"
    if big:
        base["big"] = True
    args = "%s %s %s %s" % (cnat(pd), cnat(dim), cbc(bc), cnat(order))
    cell = "gmrf/%dd/o%d/%s%s%s" % (pd, order, bc if bc in BCS else "unknown", "/bigdim" if big else "", thr_cell)
    prec = rng.choice([0.5, 1.0, 2.0, 4.0, 3.0, 0.3])
    g, err = observe_gmrf(pd, dim, bc, order, prec=prec, big=big, mdi=mdi)
    # (a) refusal, coded rank, operators -- faithful model
    if g is None:
        obs_init = None
        ok_int = True
    else:
        P = int_rows(dense(g._prec_op.get_matrix()))
        D = int_rows(dense(g._diff_op.get_matrix()))
        ok_int = P is not None and D is not None and int(g._rank) == g._rank
        obs_init = (int(g._rank), P, D)
    enc_init = lambda t: "(%s, %s, %s)" % (cnat(t[0]), czmat(t[1]), czmat(t[2]))
    expr = "check_gmrf_init_st %s %s %s %s" % (cst(), cbool(repair_state()[1]), args, copt(obs_init, enc_init)) if ok_int else "false"
    m = dict(base, op="gmrf_init", refusal=err, prec=prec,
             coq_model="option_map (fun g => (g_rank g, g_prec g)) (gmrf_init %s)" % args)
    fail, sig = None, ""
    N = dim if pd == 1 else int(math.isqrt(dim))
    if g is not None and (pd == 1 or N * N == dim):
        fail, sig = oracle_prec(order, bc, N, pd == 2, np.array(obs_init[1], dtype=float))
    elif g is None and order in (0, 1, 2) and bc in ("zero", "periodic", "neumann") and dim >= 4 and (pd == 1 or N * N == dim):
        fail, sig = "GMRF(dim=%d, %s, order %d, %d-d) is refused (%s)" % (dim, bc, order, pd, err), "GMRF.__init__|refused"
    out.append(Case(expr=expr, meta=m, cell=cell, trivial=(g is None), impl_fail=fail, signature=sig if fail else ""))
    if g is None:
        return out
    Pd = dense(g._prec_op.get_matrix())
    # the reference precision of the oracles below is built from the independent stencils, not read from the object
    # (the object's own matrix was compared with it in (a)); only where no documented operator exists it is the object's
    _ref = ref_matrix(1 if order == 0 else order, "none" if order == 0 else bc, N, pd == 2) if (order in (0, 1, 2) and (pd == 1 or N * N == dim)) else None
    if _ref is not None and (acc_state() or not small_n_periodic(order, bc, N)) and _ref.shape[1] == dim:
        Pd = _ref.T @ _ref
    if mdi is not None:
        # DECISION: which branch computed the log-determinant (the spectrum is stored only by the exact branch)
        took_regularised = bc in ("periodic", "neumann") and not hasattr(g, "_L_eigval")
        out.append(Case(expr="check_logdet_branch %s %s %s %s" % (cbc(bc), cnat(dim), cnat(mdi), cbool(took_regularised)),
                        meta=dict(base, op="gmrf_logdet_branch", prec=prec, observed_regularised=took_regularised,
                                  coq_model="gmrf_uses_regularised %s %s %s" % (cbc(bc), cnat(dim), cnat(mdi))),
                        cell=cell + "/branch", kind="DECISION"))
    # (b) sqrtprec^T sqrtprec = prec * P  (up to the sqrt(eps) shift the code adds for periodic / neumann)
    R = dense(g.sqrtprec)
    expr = "check_sqrtprec_st %s %s %s %s" % (cst(), args, cq(prec), cqmat(R.tolist()))
    fail = None
    if R.shape != Pd.shape or np.abs(R.T @ R - prec * Pd).max() > 1e-6 * prec * max(1.0, np.abs(Pd).max()):
        fail = "sqrtprec^T sqrtprec differs from prec * P by %r" % (np.abs(R.T @ R - prec * Pd).max() if R.shape == Pd.shape else R.shape,)
    out.append(Case(expr=expr, meta=dict(base, op="gmrf_sqrtprec", prec=prec), cell=cell + "/sqrtprec", kind="TOLERANCE",
                    impl_fail=fail, signature="GMRF.sqrtprec" if fail else ""))
    # (c) property: rank and log-determinant are those of the precision
    ev = np.linalg.eigvalsh(Pd)
    pos_ev = ev > 1e-9 * max(1.0, ev.max())
    true_rank = int(np.sum(pos_ev))
    true_logdet = float(np.sum(np.log(ev[pos_ev])))
    logdet = float(g._logdet)
    finite = math.isfinite(logdet)
    fail = None
    if int(g._rank) != true_rank:
        fail = "GMRF(dim=%d, %s, order %d, %d-d): reported rank %d, the precision has rank %d; reported logdet %r, pseudo-log-determinant %r" % (
            dim, bc, order, pd, g._rank, true_rank, logdet, true_logdet)
    elif big and bigdim_repaired() and bc in ("periodic", "neumann") and finite and \
            -1e-7 * (1 + abs(true_logdet)) <= logdet - true_logdet <= SQRT_EPS * float(np.sum(1.0 / ev[pos_ev])) + 1e-7 * (1 + abs(true_logdet)):
        # repaired regularised branch: sum ln(l_i + e) lies in [pseudo-logdet, pseudo-logdet + e trace(P^+)]
        # (Props/C20_logdet.v: C20_logdet_regularised_bound); 1e-7 for the rounding of the ~sqrt(eps) pivots
        pass
    elif not finite or abs(logdet - true_logdet) > 1e-9 * (1 + abs(true_logdet)):
        fail = "GMRF(dim=%d, %s, order %d, %d-d): reported logdet %r, the precision has pseudo-log-determinant %r (rank %d)" % (
            dim, bc, order, pd, logdet, true_logdet, true_rank)
    sig = gmrf_class_signature(pd, dim, bc, order) if fail else ""
    if fail and big and bc in ("periodic", "neumann") and (sig == SIG_RANK_OTHER or int(g._rank) == true_rank):
        sig = SIG_BIGDIM          # the rank is right (or not in a rank class): only the regularised log-determinant is off
    elif fail and not big and int(g._rank) == true_rank:
        sig = SIG_RANK_OTHER      # right rank, wrong log-determinant outside the regularised branch: not one of the rank classes
    e_obs = math.exp(logdet) if finite and logdet < 600 else 0.0
    # the model's pseudo-determinant is exact for every nullity (characteristic-polynomial coefficient over Z)
    expr = "check_true_rank_st %s %s %s && check_true_expdet_any %s %s %s" % (cst(), args, cnat(int(g._rank)), cst(), args, cq(e_obs))
    reg_repaired = big and bigdim_repaired() and repair_state()[1] and bc in ("periodic", "neumann")
    if reg_repaired:
        # repaired regularised branch: exp(_logdet) = det(P + e I) / e^nullity exactly as coded, equal to the characteristic
        # polynomial at -e, and within [pdet, pdet (1 + 2 e trace(P^+))] of the exact pseudo-determinant
        expr = "check_true_rank_st %s %s %s && check_expdet_reg_repaired %s %s %s" % (cst(), args, cnat(int(g._rank)), cst(), args, cq(e_obs))
    out.append(Case(expr=expr, meta=dict(base, op="gmrf_rank_logdet", prec=prec,
                                         coq_model="option_map (fun g => (zrank %s (g_prec g), zpdet %s (g_prec g) (%s - zrank %s (g_prec g)))) (gmrf_init_gen (fdm_of %s) false %s)" % (cnat(dim), cnat(dim), cnat(dim), cnat(dim), cst(), args)),
                    cell=cell + "/rank-logdet", kind="TOLERANCE", impl_fail=fail, signature=sig))
    # (d) faithful exp(logdet) where the model describes the code's value
    if reg_repaired:
        pass                                    # the coded value is part of the rank-logdet case above
    elif big and bc in ("periodic", "neumann"):
        # large-dimension branch: log det of the regularised matrix P + sqrt(eps) I; compared after division by sqrt(eps) = 2^-26
        e_reg = math.exp(logdet + 26 * math.log(2.0)) if finite and logdet < 500 else 0.0
        out.append(Case(expr="check_expdet_reg %s %s" % (args, cq(e_reg)),
                        meta=dict(base, op="gmrf_expdet_coded", prec=prec, coq_model="gmrf_expdet_reg %s" % args),
                        cell=cell + "/logdet-coded", kind="TOLERANCE"))
    elif repair_state()[1]:
        # repaired rank rule: the coded value is the product of the eigenvalues left after dropping `nullity` of them
        out.append(Case(expr="check_expdet_repaired %s %s %s" % (cst(), args, cq(e_obs)),
                        meta=dict(base, op="gmrf_expdet_coded", prec=prec,
                                  coq_model="option_map (fun g => (g_rank g, zrank %s (g_prec g), zpdet %s (g_prec g) (%s - g_rank g))) (gmrf_init_gen (fdm_of %s) true %s)" % (
                                      cnat(dim), cnat(dim), cnat(dim), cst(), args)),
                        cell=cell + "/logdet-coded", kind="TOLERANCE"))
    elif not (order == 2 and (bc == "neumann" or (bc == "periodic" and N <= 2))):
        expr = "check_expdet %s %s" % (args, cq(e_obs))
        out.append(Case(expr=expr, meta=dict(base, op="gmrf_expdet_coded", prec=prec, coq_model="gmrf_expdet %s" % args),
                        cell=cell + "/logdet-coded", kind="TOLERANCE"))
    # (e) logpdf evaluates the shifted variable through the precision operator
    for k in range(nvec + (1 if nvec >= 2 else 0)):
        x = [rng.randint(-6, 6) for _ in range(dim)]
        if k == 0:
            mean = [rng.randint(-3, 3)]
        else:
            mean = [rng.randint(-3, 3) for _ in range(dim)]
        if k == 2:                      # magnitude sweep: the same kind of vector 2^20 times larger (still exact integers)
            x = [v * 2 ** 20 for v in x]
            mean = [v * 2 ** 20 for v in mean]
        gm, _ = observe_gmrf(pd, dim, bc, order, prec=prec, mean=np.array(mean, dtype=float) if len(mean) > 1 else float(mean[0]), big=big, mdi=mdi)
        mvec = np.array(mean * dim if len(mean) == 1 else mean, dtype=float)
        v0 = float(np.ravel(gm.logpdf(mvec))[0])
        xeval = np.array(x, dtype=float)
        half = (k == 1)
        if half:
            # evaluate at the half-way point (x + mean)/2 (half-integers): the quadratic form is exactly a quarter
            xeval = (np.array(x, dtype=float) + mvec) / 2.0
        v = float(np.ravel(gm.logpdf(xeval))[0])
        d = np.array(x, dtype=float) - mvec
        fail = None
        if math.isfinite(v0) and math.isfinite(v):
            q_obs = -2.0 * (v - v0) / prec * (4.0 if half else 1.0)
            q_ref = float(d @ (Pd @ d))
            if abs(q_obs - q_ref) > 1e-9 * (1 + abs(q_ref)):
                fail = "GMRF.logpdf: -2(logpdf(x)-logpdf(mean))/prec = %r, (x-mean)^T P (x-mean) = %r" % (q_obs, q_ref)
            expr = "check_gmrf_quad_st %s %s %s %s %s" % (cst(), args, czvec(x), czvec(mean), cq(q_obs))
            out.append(Case(expr=expr, meta=dict(base, op="gmrf_quad", prec=prec, x=x, mean=mean), cell=cell + "/logpdf-quad",
                            kind="TOLERANCE", trivial=all(a == 0 for a in d), impl_fail=fail, signature="GMRF.logpdf|quadratic-form" if fail else ""))
    return out


def mrf_case(kind, pd, dim, bc, rng, loc_form):
    from cuqi.distribution import LMRF, CMRF
    cls = LMRF if kind == "lmrf" else CMRF
    scale = rng.choice([0.5, 1.0, 2.0, 0.25])
    x = [rng.randint(-9, 9) for _ in range(dim)]
    loc = [rng.randint(-4, 4)] if loc_form == "scalar" else [rng.randint(-4, 4) for _ in range(dim)]
    return mrf_case_from(kind, pd, dim, bc, scale, x, loc)


def mrf_case_from(kind, pd, dim, bc, scale, x, loc):
    from cuqi.distribution import LMRF, CMRF
    cls = LMRF if kind == "lmrf" else CMRF
    meta = {"op": kind, "pd": pd, "dim": dim, "bc": bc, "scale": scale, "x": x, "loc": loc}
    args = "%s %s %s" % (cnat(pd), cnat(dim), cbc(bc))
    cell = "%s/%dd/%s/loc-%s" % (kind, pd, bc if bc in BCS else "unknown", "scalar" if len(loc) == 1 else "vector")
    N = dim if pd == 1 else int(math.isqrt(dim))
    try:
        locarg = float(loc[0]) if len(loc) == 1 else np.array(loc, dtype=float)
        dist = cls(locarg, scale, bc_type=bc, geometry=mk_geometry(pd, dim))
        D = dense(dist._diff_op.get_matrix())
        lvec = np.array(loc * dim if len(loc) == 1 else loc, dtype=float)
        v0 = float(np.ravel(dist.logpdf(lvec))[0])
        v = float(np.ravel(dist.logpdf(np.array(x, dtype=float)))[0])
        err = None
    except Exception as e:
        dist, D, err = None, None, type(e).__name__
    meta["refusal"] = err
    fail, sig = None, ""
    if dist is None:
        expr = ("check_lmrf_st %s %s %s %s None None" % (cst(), args, czvec(x), czvec(loc))) if kind == "lmrf" else \
            ("check_cmrf_st %s %s %s %s %s None None" % (cst(), args, cq(scale), czvec(x), czvec(loc)))
        if bc in BCS and dim >= 2 and (pd == 1 or N * N == dim):
            fail, sig = "%s(dim=%d, %s, %d-d) is refused (%s)" % (kind.upper(), dim, bc, pd, err), "%s.__init__|refused" % kind.upper()
        return Case(expr=expr, meta=meta, cell=cell, trivial=True, impl_fail=fail, signature=sig)
    Drows = int_rows(D)
    d = np.array(x, dtype=float) - lvec
    Xi = d.reshape(N, N) if pd == 2 else d
    if pd == 2:
        ref = np.concatenate([np.array([ref_apply_1d(1, bc, Xi[i, :]) for i in range(N)]).ravel(),
                              np.array([ref_apply_1d(1, bc, Xi[:, j]) for j in range(N)]).T.ravel()])
    else:
        ref = ref_apply_1d(1, bc, d)
    if kind == "lmrf":
        obs = scale * (v0 - v)
        expect = float(np.sum(np.abs(ref)))
        # the second evaluation path of LMRF (pdf) and a half-integer point must give the same data term
        try:
            p0, p1 = float(np.ravel(dist.pdf(lvec))[0]), float(np.ravel(dist.pdf(np.array(x, dtype=float)))[0])
            vh = float(np.ravel(dist.logpdf((np.array(x, dtype=float) + lvec) / 2.0))[0])
            if p0 > 0 and p1 > 0 and abs(-scale * math.log(p1 / p0) - expect) > 1e-7 * (1 + abs(expect)):
                fail, sig = "LMRF.pdf: data term %r, through the documented differences %r" % (-scale * math.log(p1 / p0), expect), "LMRF.pdf|through-operator"
            elif abs(2.0 * scale * (v0 - vh) - expect) > 1e-9 * (1 + abs(expect)):
                fail, sig = "LMRF.logpdf at the half-integer point (x+location)/2: data term %r, expected %r / 2" % (scale * (v0 - vh), expect), "LMRF.logpdf|half-integer-point"
        except Exception as e:
            fail, sig = "LMRF.pdf raised %s" % type(e).__name__, "LMRF.pdf|through-operator"
        expr = "check_lmrf_st %s %s %s %s (Some %s) %s" % (cst(), args, czvec(x), czvec(loc), cq(obs), copt(Drows, czmat))
        meta["coq_model"] = "lmrf_l1 %s %s %s" % (args, czvec(x), czvec(loc))
    else:
        obs = math.exp(v0 - v)
        expect = float(np.prod(1.0 + (ref / scale) ** 2))
        expr = "check_cmrf_st %s %s %s %s %s (Some %s) %s" % (cst(), args, cq(scale), czvec(x), czvec(loc), cq(obs), copt(Drows, czmat))
        meta["coq_model"] = "option_map (cmrf_ratio %s) (mrf_dx %s %s %s)" % (cq(scale), args, czvec(x), czvec(loc))
    meta["observed"] = obs
    # the value at the location has no data term: it is (number of differences) x (per-difference constant), so it reads
    # off len(Dx) -- which must be the number of rows of the documented operator
    per = -(math.log(2.0) + math.log(scale)) if kind == "lmrf" else -(math.log(math.pi) + math.log(scale))
    if not fail and abs(per) > 1e-6 and (acc_state() or not small_n_periodic(1, bc, N)):
        if abs(v0 - len(ref) * per) > 1e-9 * (1 + abs(len(ref) * per)):
            fail = "%s.logpdf(location) = %r, but %d differences x %r = %r" % (kind.upper(), v0, len(ref), per, len(ref) * per)
            sig = "%s.logpdf|number-of-differences" % kind.upper()
    if not fail and not small_n_periodic(1, bc, N):
        if abs(obs - expect) > 1e-9 * (1 + abs(expect)):
            fail = "%s.logpdf (%s, dim %d, %d-d): data term read off logpdf = %r, through the documented differences of x - location = %r" % (
                kind.upper(), bc, dim, pd, obs, expect)
            sig = "%s.logpdf|through-operator" % kind.upper()
    return Case(expr=expr, meta=meta, cell=cell, kind="TOLERANCE", trivial=all(a == 0 for a in d), impl_fail=fail, signature=sig)


# ------------------------------------------------------------------------------------------------
def run(ctx):
    import cuqi
    rng = ctx.rng
    cases = []
    N1 = ctx.n(12, 40)
    N2 = ctx.n(5, 10)
    allbc = BCS + ["foo"]

    # ---- 1. get_matrix(), 1-d, every (order, BC, n), both num_nodes forms -------------------------------
    for order in (1, 2):
        for bc in allbc:
            for n in range(1, N1 + 1):
                nd = n if n % 3 else ["t", n]
                cases.append(case_fd(order, nd, bc))
    # ---- 1b. quick tier: one seeded larger size per (order, BC) in 1-d and 2-d (the thorough tier sweeps them all) ----
    if not ctx.thorough:
        for order in (1, 2):
            for bc in BCS:
                if order == 2 and bc in ("backward", "none"):
                    continue
                for parity in (0, 1):           # one even and one odd larger size
                    cases.append(case_fd(order, 2 * rng.randint((N1 + 2) // 2, 19) + parity, bc))
                cases.append(case_fd(order, ["t"] + [2 * rng.randint(3, 4)] * 2, bc))
                cases.append(case_fd(order, ["t"] + [2 * rng.randint(3, 4) + 1] * 2, bc))
    # ---- 1c. the lower boundary of num_nodes: zero nodes in every form (outside the documented domain: only
    #          model = implementation is compared, built or refused) ------------------------------------------------
    for order in (1, 2):
        for bc in BCS:
            for nd in (0, ["t", 0], ["t", 0, 0]):
                cases.append(case_fd(order, nd, bc))
        for bc in ("zero", "periodic", "neumann"):
            cases.append(case_prec(order, 0, bc))
    # ---- 2. grid spacing ------------------------------------------------------------------------------
    dyadic = [0.5, 2.0, 0.25, 4, 0.125, 2]
    other = [0.1, 3, 0.3, 1e-3, 7.5, 10]
    for order in (1, 2):
        for bc in BCS:
            for n in ([1, 2, 3, 4, 7] if not ctx.thorough else [1, 2, 3, 4, 5, 7, 11, 16]):
                for dx in (rng.choice(dyadic), rng.choice(other)):
                    cases.append(case_fd(order, n, bc, dx=dx))
            for n in (3, 6):
                cases.append(case_fd(order, n, bc, dx=rng.choice([-0.5, -2.0, -0.25])))     # negative spacing: D/dx, D/dx^2
                cases.append(case_fd(order, n, bc, dx=rng.choice([-0.3, -3, -1e-2])))
        cases.append(case_fd(order, 3, "zero", dx=0))
        cases.append(case_fd(order, 3, "zero", dx=0.0))
        cases.append(case_fd(order, ["t", 2, 2], "zero", dx=0.5))
    # ---- 2b. grid spacing over 60 binary orders of magnitude (exact: division by a power of two) ---------------
    for order in (1, 2):
        for bc in BCS:
            if order == 2 and bc in ("backward", "none"):
                continue
            for k in (-40, -17, 23):
                cases.append(case_fd(order, 5, bc, dx=2.0 ** k))
    # ---- 2c. declaration styles of num_nodes (numpy integers) ------------------------------------------------
    for order in (1, 2):
        for bc in ("zero", "periodic", "neumann"):
            cases.append(case_fd(order, ["np", 4], bc))
            cases.append(case_fd(order, ["np", 3, 3], bc))
            cases.append(case_prec(order, ["np", 3, 3], bc))
    # ---- 2d. histories: operators re-read after use (keep-alive) --------------------------------------------
    for order in (1, 2):
        for bc in BCS:
            if order == 2 and bc in ("backward", "none"):
                continue
            for nd in (5, ["t", 3, 3]):
                cases.append(case_keepalive(order, nd, bc, rng))
    # ---- 3. two dimensions ----------------------------------------------------------------------------
    for order in (1, 2):
        for bc in allbc:
            for n in range(1, N2 + 1):
                cases.append(case_fd(order, ["t", n, n], bc))
    # ---- 4. malformed num_nodes -----------------------------------------------------------------------
    for order in (1, 2):
        for nd in (["t", 2, 3], ["t", 3, 1], ["t", 0, 1], ["bad", "tuple0"], ["bad", "bool"], ["bad", "float"], ["bad", "list"], ["bad", "tuple3"], ["bad", "str"], ["bad", "tuple-float"]):
            cases.append(case_fd(order, nd, rng.choice(["zero", "periodic", "neumann"])))
    # ---- 5. precision operators -------------------------------------------------------------------------
    for order in (0, 1, 2, 3):
        for bc in allbc:
            for n in range(1, ctx.n(10, 30) + 1):
                cases.append(case_prec(order, n if n % 2 else ["t", n], bc))
            for n in range(1, ctx.n(4, 7) + 1):
                cases.append(case_prec(order, ["t", n, n], bc))
        cases.append(case_prec(order, ["t", 2, 3], "zero"))
    # ---- 6. operators applied to integer vectors -------------------------------------------------------
    for order in (1, 2):
        for bc in BCS:
            if order == 2 and bc in ("backward", "none"):
                continue
            for two_d, sizes in ((False, [1, 2, 3, 4, 6, 9] + ([13, 20, 33] if ctx.thorough else [])),
                                 (True, [1, 2, 3, 4] + ([6, 8] if ctx.thorough else []))):
                for n in sizes:
                    nd = ["t", n, n] if two_d else n
                    if observe_fd(order, nd, bc, None)[0] is None:
                        continue
                    rows = observe_fd(order, nd, bc, None)[0].shape[0]
                    dim = n * n if two_d else n
                    for k in range(ctx.n(2, 5)):
                        if k == 0:
                            x = [0] * dim
                            x[rng.randrange(dim)] = 1
                        else:
                            x = [rng.randint(-20, 20) for _ in range(dim)]
                        y = [rng.randint(-20, 20) for _ in range(rows)]
                        cases.append(case_apply(order, nd, bc, x, y))
                        if k == 1:
                            cases.append(case_apply(order, nd, bc, [2 * v + 1 for v in x], [2 * v + 1 for v in y], half=True))
    # ---- 7. GMRF ------------------------------------------------------------------------------------------
    for order in (0, 1, 2, 3):
        for bc in ["zero", "periodic", "neumann", "backward", "none", "foo"]:
            dims1 = list(range(1, ctx.n(10, 24) + 1))
            if order == 3 or bc not in ("zero", "periodic", "neumann"):
                dims1 = [1, 2, 5]
            for dim in dims1:
                cases += gmrf_cases(1, dim, bc, order, rng, nvec=2)
            # 2-d: the exact pseudo-determinant (sum of dim principal minors over Q) costs ~1 min per case at 6x6 and
            # minutes at order 2, so periodic / neumann stop at 5x5; zero BC (one determinant) goes to 6x6
            Ns = list(range(1, ctx.n(4, 6 if bc == "zero" else 5) + 1))
            if order == 3 or bc not in ("zero", "periodic", "neumann"):
                Ns = [2]
            for N in Ns:
                cases += gmrf_cases(2, N * N, bc, order, rng, nvec=2)
    # ---- 7b. GMRF, the dim > config.MAX_DIM_INV branch (periodic / neumann take log det of P + sqrt(eps) I) ----
    for order in (0, 1, 2):
        for bc in ("zero", "periodic", "neumann"):
            for dim in ([4, 7] if not ctx.thorough else [3, 4, 7, 12]):
                cases += gmrf_cases(1, dim, bc, order, rng, nvec=1, big=True)
            cases += gmrf_cases(2, 9, bc, order, rng, nvec=1, big=True)
    # ---- 7c. GMRF exactly AT the threshold config.MAX_DIM_INV: dim - 1, dim, dim + 1 for every (BC, order, 1-d / 2-d),
    #          with the DECISION which branch computes the log-determinant and the value it gives ---------------------
    for order in (0, 1, 2):
        for bc in ("zero", "periodic", "neumann"):
            for pd, dim in [(1, 6), (2, 9)] + ([(1, 16), (2, 16)] if ctx.thorough else []):
                for mdi in (dim - 1, dim, dim + 1):
                    cases += gmrf_cases(pd, dim, bc, order, rng, nvec=1, mdi=mdi)
    # ---- 7d. declaration styles, defaults, dtypes / layouts, re-assigned parameters --------------------------------
    cases += style_cases(rng)
    # ---- 7e. round-4 lessons L14..L26 ------------------------------------------------------------------------------
    cases += lesson_cases(ctx, rng)
    # ---- 8. LMRF / CMRF -----------------------------------------------------------------------------------
    for kind in ("lmrf", "cmrf"):
        for bc in allbc:
            for loc_form in ("scalar", "vector"):
                for dim in [1, 2, 3, 4, 6, 8] + ([12, 17] if ctx.thorough else []):
                    for _ in range(ctx.n(1, 3)):
                        cases.append(mrf_case(kind, 1, dim, bc, rng, loc_form))
                for N in [1, 2, 3] + ([4, 5] if ctx.thorough else []):
                    for _ in range(ctx.n(1, 3)):
                        cases.append(mrf_case(kind, 2, N * N, bc, rng, loc_form))
    return Result(cases=cases, rule=RULE,
                  assumptions=["scipy.sparse (spdiags, kron, vstack, item assignment, @) is exercised through get_matrix().toarray(); its semantics are modelled exactly as index functions",
                               "splu/sparse_cholesky and eigsh are oracles: their results enter only as certificates (R^T R against prec*P, exp(logdet) against the exact determinant / pseudo-determinant computed by elimination over Q in the model) within 1e-9",
                               "exp() of an observed log-density difference is taken in the harness (float) before the comparison with the model's exact rational (LMRF/CMRF/GMRF logdet)",
                               "the model's exact rank / determinant routines (Gaussian elimination over Q) are reference computations, cross-checked on every run against numpy's eigenvalue rank and pseudo-determinant"])


# ------------------------------------------------------------------------------------------------
def rebuild(meta, rng=None):
    """re-run the implementation for a stored case"""
    import random
    op = meta.get("op")
    if op == "fd":
        dx = meta.get("dx")
        return [case_fd(meta["order"], meta["nodes"], meta["bc"], dx=dx)]
    if op == "prec":
        return [case_prec(meta["order"], meta["nodes"], meta["bc"])]
    if op == "lesson":
        import random as _r
        class _C:
            thorough = False
        return [c for c in lesson_cases(_C, _r.Random(0)) if c.meta.get("what") == meta.get("what")]
    if op == "style":
        import random as _r
        return [c for c in style_cases(_r.Random(0)) if c.meta.get("what") == meta.get("what")]
    if op == "keepalive":
        import random as _r
        return [case_keepalive(meta["order"], meta["nodes"], meta["bc"], _r.Random(0))]
    if op == "apply":
        return [case_apply(meta["order"], meta["nodes"], meta["bc"], meta["x"], meta["y"], half=bool(meta.get("half")))]
    if op and op.startswith("gmrf"):
        cs = gmrf_cases(meta["pd"], meta["dim"], meta["bc"], meta["order"], random.Random(0), nvec=2,
                        big=bool(meta.get("big")) and meta.get("mdi") is None, mdi=meta.get("mdi"))
        return [c for c in cs if c.meta["op"] == op] or cs
    if op in ("lmrf", "cmrf"):
        return [mrf_case_from(op, meta["pd"], meta["dim"], meta["bc"], meta["scale"], meta["x"], meta["loc"])]
    return []


def oracle(ctx, meta):
    """independent re-check of the property itself for one stored case"""
    m = meta.get("meta", meta)
    for c in rebuild(m):
        if c.impl_fail:
            return c.impl_fail
    return None


def classify(meta, detail):
    m = meta.get("meta", meta)
    for c in rebuild(m):
        if c.impl_fail:
            return c.signature
    return "C20|" + str(m.get("op"))


def search(ctx):
    """wider sweep of the independent oracle (sizes beyond the tier's correspondence range)"""
    import random
    rng = random.Random(ctx.seed + 17)
    found = []
    for order in (1, 2):
        for bc in BCS:
            for n in list(range(1, 60, 3)):
                for c in (case_fd(order, n, bc), case_prec(order, n, bc)):
                    if c.impl_fail:
                        found.append(c)
            for n in range(1, 9):
                c = case_fd(order, ["t", n, n], bc)
                if c.impl_fail:
                    found.append(c)
    for order in (0, 1, 2):
        for bc in ("zero", "periodic", "neumann"):
            for dim in (2, 3, 4, 9, 16, 30):
                for pd in (1, 2):
                    if pd == 2 and int(math.isqrt(dim)) ** 2 != dim:
                        continue
                    found += [c for c in gmrf_cases(pd, dim, bc, order, rng, nvec=1) if c.impl_fail]
                    if dim in (4, 9):
                        found += [c for c in gmrf_cases(pd, dim, bc, order, rng, nvec=1, big=True) if c.impl_fail]
    for kind in ("lmrf", "cmrf"):
        for bc in BCS:
            for dim in (2, 5, 9):
                for pd in (1, 2):
                    if pd == 2 and dim != 9:
                        continue
                    c = mrf_case(kind, pd, dim, bc, rng, "vector")
                    if c.impl_fail:
                        found.append(c)
    return found


def known_witnesses(ctx):
    """one fixed witness per known signature, replayed on the implementation on every run"""
    import random
    out = {}
    r = random.Random(1)
    def first_fail(cs, sig):
        for c in cs:
            if c.impl_fail and c.signature == sig:
                return (True, c.impl_fail)
        return (False, "witness no longer fails")
    out[SIG_RANK0] = first_fail(gmrf_cases(1, 7, "periodic", 0, r, nvec=0), SIG_RANK0)
    out[SIG_RANK2N] = first_fail(gmrf_cases(1, 7, "neumann", 2, r, nvec=0), SIG_RANK2N)
    out[SIG_SMALLN] = first_fail([case_fd(2, 2, "periodic")], SIG_SMALLN)
    out[SIG_BIGDIM] = first_fail(gmrf_cases(1, 7, "periodic", 1, r, nvec=0, big=True), SIG_BIGDIM)
    return out


def replay(ctx, meta):
    m = meta.get("meta", meta)
    print(json.dumps({k: v for k, v in meta.items() if k != "meta"}, indent=1, default=str)[:3000])
    print("case:", json.dumps(m, default=str)[:3000])
    if "no_longer_checks" in meta:
        return 0
    for c in rebuild(m):
        print("--- %s [%s]" % (c.meta.get("op"), c.cell))
        print("implementation vs model (Coq term):", c.expr[:3000])
        rc, out = eval_in_coq(IMPORTS, c.expr, tag="replay_C20")
        print("model agrees with the implementation:", out[-300:])
        if c.meta.get("coq_model"):
            rc, out = eval_in_coq(IMPORTS, c.meta["coq_model"], tag="replay_C20")
            print("model value:", out[-3000:])
        print("independent oracle:", c.impl_fail or "property holds on this case", ("[" + c.signature + "]") if c.signature else "")
    return 0
