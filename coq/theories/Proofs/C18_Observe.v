(* C18 -- observation, third deepening round:
   (ii)  the repaired `squeeze` (drop only a trailing axis of length 1 of a 2-d result) never changes the VALUES, and its guard
         is decided as the code decides it (`ndim > 1 and shape[-1] == 1`) on the result of every modelled observation map;
   (iii) SteadyStateLinearPDE.solve under every return convention of linalg_solve the code accepts;
   (iv)  solutions with two space axes: final-time restriction, restriction at coinciding stored times, refusal otherwise. *)
From CV Require Import Base.Tac Base.LinAlg Base.Cmp Base.QcLin Model.C18_Spline Model.C18_PDE Proofs.C18_Alg Proofs.C18_PDE Proofs.C18_Spline.
From Coq Require Import QArith Qcanon.
Local Open Scope Qc_scope.


(* ================= (ii) squeeze ================= *)
(* the values of an array in C order (numpy's .ravel()) *)
Definition arr_flat (a : arr) : qv := match a with A0 x => [x] | A1 v => v | A2 m => concat m end.

Lemma concat_columns (m : qm) : forallb (fun r => (length r =? 1)%nat) m = true -> concat m = map (fun r => hd 0 r) m.
Proof.
  induction m as [|r m IH]; intros H; [reflexivity|]. cbn [forallb] in H. apply andb_true_iff in H as [H1 H2].
  apply Nat.eqb_eq in H1. destruct r as [|x [|y r]]; simpl in H1; try discriminate.
  cbn [concat map hd app]. rewrite (IH H2). reflexivity.
Qed.

Theorem squeeze_values (a : arr) : arr_flat (squeeze a) = arr_flat a.
Proof.
  destruct a as [x|v|m]; try reflexivity. unfold squeeze.
  destruct (forallb (fun r => (length r =? 1)%nat) m) eqn:E; [|reflexivity].
  cbn [arr_flat]. symmetry. apply concat_columns. exact E.
Qed.

(* an array of shape (r, c) *)
Definition rect (r c : nat) (m : qm) : Prop := length m = r /\ Forall (fun row => length row = c) m.

(* the guard: for a 2-d array of shape (r, c) with at least one row the model drops the last axis exactly when the code does
   (shape[-1] == 1); an array without rows has no values, the model's answer is the empty vector *)
Theorem squeeze_guard r c m : rect r c m ->
  squeeze (A2 m) = if ((c =? 1)%nat || (r =? 0)%nat) then A1 (map (fun row => hd 0 row) m) else A2 m.
Proof.
  intros [Hr Hc]. unfold squeeze.
  destruct (c =? 1)%nat eqn:E1.
  - apply Nat.eqb_eq in E1. subst c.
    assert (F : forallb (fun row => (length row =? 1)%nat) m = true).
    { apply forallb_forall. intros row Hin. rewrite Forall_forall in Hc. apply Nat.eqb_eq. apply Hc. exact Hin. }
    rewrite F. reflexivity.
  - destruct m as [|row m]; simpl in Hr; subst r; [reflexivity|].
    cbn [orb Nat.eqb forallb]. inversion Hc as [|x l Hx Hl]; subst. rewrite E1. reflexivity.
Qed.

(* rank-0 and rank-1 results are never touched (the code's `ndim > 1`) *)
Theorem squeeze_low_rank : (forall x, squeeze (A0 x) = A0 x) /\ (forall v, squeeze (A1 v) = A1 v).
Proof. split; reflexivity. Qed.

Lemma rect_map (f : qv -> qv) r c m : (forall row, length (f row) = length row) -> rect r c m -> rect r c (map f m).
Proof.
  intros Hf [Hr Hc]. split; [rewrite map_length; exact Hr|].
  apply Forall_forall. intros row Hin. apply in_map_iff in Hin as [row0 [<- Hin0]]. rewrite Hf.
  rewrite Forall_forall in Hc. apply Hc. exact Hin0.
Qed.

Lemma skipn_rect k r c m : rect r c m -> rect (r - k) c (skipn k m).
Proof.
  intros [Hr Hc]. split; [rewrite skipn_length; nlia|].
  apply Forall_forall. intros row Hin. rewrite Forall_forall in Hc. apply Hc.
  rewrite <- (firstn_skipn k m). apply in_or_app. right. exact Hin.
Qed.

Lemma qmattvec_len n (A : qm) y : wf_mat n A -> length (qmattvec n A y) = n.
Proof. apply (mattvec_length Qc 0 Qcplus Qcmult). Qed.

(* every modelled observation map, applied to a 2-d array of shape (r, c), r >= 1, returns -- if it returns -- a 2-d array with
   the SAME trailing (time) axis c, or (u[0]) the rank-1 row of length c *)
Theorem omap_keeps_time_axis (code : omap_code) r c m b :
  rect r c m -> (1 <= r)%nat -> apply_obsmap (omap_fun code) (A2 m) = Ok b ->
  (exists r' m', b = A2 m' /\ rect r' c m') \/ (exists v, b = A1 v /\ length v = c).
Proof.
  intros Hm Hr H. destruct code as [| |k| |k|M]; cbn [omap_fun apply_obsmap] in H.
  - injection H as <-. left. exists r, m. split; [reflexivity | exact Hm].
  - injection H as <-. left. exists r, (map (map sq) m). split; [reflexivity|]. apply rect_map; [|exact Hm]. intros row. apply map_length.
  - injection H as <-. left. exists r, (mscale k m). split; [reflexivity|]. apply rect_map; [|exact Hm]. intros row. apply qvscale_length.
  - destruct m as [|row m]; [discriminate|]. injection H as <-. right. exists row. split; [reflexivity|].
    destruct Hm as [_ Hc]. inversion Hc; assumption.
  - injection H as <-. left. exists (r - k)%nat, (skipn k m). split; [reflexivity|]. apply skipn_rect. exact Hm.
  - destruct (forallb (fun r0 => (length r0 =? length m)%nat) M) eqn:E; [|discriminate]. injection H as <-.
    left. exists (length M), (qmatmul (ncols m) M m). split; [reflexivity|].
    assert (Hn : ncols m = c).
    { destruct Hm as [Hl Hc]. destruct m as [|row m]; [simpl in Hl; nlia|]. simpl. inversion Hc; assumption. }
    split; [unfold qmatmul, matmul; apply map_length|].
    apply Forall_forall. intros row Hin. unfold qmatmul, matmul in Hin. apply in_map_iff in Hin as [row0 [<- _]].
    rewrite Hn. apply qmattvec_len. destruct Hm as [_ Hc]. exact Hc.
Qed.

(* ... hence, for ONE observation time (c = 1): the result of the observation map is either 2-d with trailing axis 1, and then
   the model's squeeze drops exactly that axis -- as the code's guard `ndim > 1 and shape[-1] == 1` decides --, or rank-1,
   and then both leave it alone; the values are unchanged in both cases *)
Theorem squeeze_decided_as_code (code : omap_code) r m b :
  rect r 1 m -> (1 <= r)%nat -> apply_obsmap (omap_fun code) (A2 m) = Ok b ->
  ((exists r' m', b = A2 m' /\ rect r' 1 m' /\ squeeze b = A1 (map (fun row => hd 0 row) m')) \/
   (exists v, b = A1 v /\ length v = 1%nat /\ squeeze b = b))
  /\ arr_flat (squeeze b) = arr_flat b.
Proof.
  intros Hm Hr H. split; [|apply squeeze_values].
  destruct (omap_keeps_time_axis code r 1 m b Hm Hr H) as [[r' [m' [-> Hm']]]|[v [-> Hv]]].
  - left. exists r', m'. split; [reflexivity|]. split; [exact Hm'|]. rewrite (squeeze_guard r' 1 m' Hm'). reflexivity.
  - right. exists v. split; [reflexivity|]. split; [exact Hv | reflexivity].
Qed.

(* for several observation times (c <> 1) and at least one row the model's squeeze would not drop anything either -- and
   td_observe does not even call it (its own test `len(time_obs) == 1`) *)
Theorem squeeze_keeps_several_times r c m : rect r c m -> (1 <= r)%nat -> c <> 1%nat -> squeeze (A2 m) = A2 m.
Proof.
  intros Hm Hr Hc. rewrite (squeeze_guard r c m Hm).
  destruct (c =? 1)%nat eqn:E1; [apply Nat.eqb_eq in E1; contradiction|].
  destruct (r =? 0)%nat eqn:E2; [apply Nat.eqb_eq in E2; nlia | reflexivity].
Qed.

(* ================= (iii) the return conventions of linalg_solve ================= *)
(* `isinstance(returned_values, tuple)`: a plain value is the solution, info None; a tuple (also a 1-tuple, also a tuple
   subclass such as a namedtuple) gives solution = first entry, info = the other entries (possibly none).  In every convention
   the returned solution is the solver's vector, so it satisfies the assembled system whenever the solver's vector does. *)
Theorem ss_solve_conventions (P I : Type) (solver : nat -> qm -> qv -> sret I) (sform : P -> qm * qv) (s : sstate) (p : P) :
  let A := fst (sform p) in let b := snd (sform p) in
  (forall x, solver 0%nat A b = SPlain x ->
     ss_solve I solver (ss_assemble P sform s p) = Ok (x, None)) /\
  (forall x extra, solver 0%nat A b = STuple x extra ->
     ss_solve I solver (ss_assemble P sform s p) = Ok (x, Some extra)) /\
  (forall u info, ss_solve I solver (ss_assemble P sform s p) = Ok (u, info) ->
     (exists x, solver 0%nat A b = SPlain x /\ u = x /\ info = None) \/
     (exists x extra, solver 0%nat A b = STuple x extra /\ u = x /\ info = Some extra)) /\
  (forall u info, ss_solve I solver (ss_assemble P sform s p) = Ok (u, info) ->
     qmatvec A (sret_sol (solver 0%nat A b)) = b -> qmatvec A u = b).
Proof.
  intros A b. unfold ss_solve, ss_assemble, solve_linear_system. cbn [ss_sys].
  destruct (sform p) as [A' b'] eqn:E. cbn [fst snd] in A, b. subst A b.
  repeat split.
  - intros x Hx. rewrite Hx. reflexivity.
  - intros x extra Hx. rewrite Hx. reflexivity.
  - intros u info H. destruct (solver 0%nat A' b') as [x|x extra] eqn:Es; cbn [split_ret] in H; injection H as <- <-.
    + left. exists x. auto.
    + right. exists x, extra. auto.
  - intros u info H Hlaw. unfold sret_sol in Hlaw.
    destruct (solver 0%nat A' b') as [x|x extra] eqn:Es; cbn [split_ret fst] in *; injection H as <- <-; exact Hlaw.
Qed.

(* ================= (iv) solutions with two space axes ================= *)
Section TwoSpaceAxes.
Variable Q : quirks.

(* equal grids and the final time: the last stored level (a matrix), no time axis *)
Theorem observe_2dspace_final (G : grids) (times : qv) (T : Qc) (levels : list qm) (u : qm) :
  g_eq G = true -> last_opt times = Some T -> last_opt levels = Some u ->
  td_observe_2dspace Q G times [T] levels = Ok [u].
Proof.
  intros Hg Ht Hl. unfold td_observe_2dspace. rewrite Hg, (time_test_final Q times T Ht). cbn [andb]. rewrite Hl. reflexivity.
Qed.

(* equal grids, every requested time a stored one (the route of /repo's `np.isin(time_obs, time_steps).all()`): one stored
   level -- the whole matrix, both space axes untouched -- per requested time, in the order requested; the level is the FIRST
   one whose time equals the requested time *)
Theorem observe_2dspace_coinciding (G : grids) (times tobs : qv) (levels : list qm) (out : list qm) :
  q_spline_route Q = false -> g_eq G = true -> time_test Q times tobs = false ->
  td_observe_2dspace Q G times tobs levels = Ok out ->
  length out = length tobs /\
  forall j t, nth_error tobs j = Some t ->
    exists b, index_of t times = Some b /\ nth_error times b = Some t /\ nth j out [] = nth b levels [].
Proof.
  intros Hq Hg Ht H. unfold td_observe_2dspace in H. rewrite Hg, Ht, Hq in H. cbn [andb] in H.
  unfold coincide_cols in H.
  destruct (opt_all (map (fun t => index_of t times) tobs)) as [cols|] eqn:Ec; [|discriminate].
  injection H as <-. destruct (opt_all_spec _ _ _ Ec) as [Lc Hcs].
  split; [rewrite map_length; exact Lc|].
  intros j t Hj. destruct (Hcs j t Hj) as [b [Hb Hjb]]. exists b. split; [exact Hjb|]. split; [apply index_of_spec; exact Hjb|].
  clear - Hb. revert j Hb; induction cols as [|c cols IH]; intros [|j] H; simpl in *; try discriminate.
  - injection H as ->. reflexivity.
  - apply IH. exact H.
Qed.

(* ... and that route answers whenever every requested time is a time step *)
Theorem observe_2dspace_coinciding_defined (G : grids) (times tobs : qv) (levels : list qm) :
  q_spline_route Q = false -> g_eq G = true -> time_test Q times tobs = false ->
  (forall t, In t tobs -> In t times) ->
  exists out, td_observe_2dspace Q G times tobs levels = Ok out.
Proof.
  intros Hq Hg Ht Hin. unfold td_observe_2dspace. rewrite Hg, Ht, Hq. cbn [andb]. unfold coincide_cols.
  assert (A1 : forall (l ref : qv), (forall x, In x l -> In x ref) -> exists r, opt_all (map (fun x => index_of x ref) l) = Some r).
  { induction l as [|x l IH]; intros ref H; simpl; [eexists; reflexivity|].
    destruct (index_of_complete x ref (H x (or_introl eq_refl))) as [a Ha]. rewrite Ha.
    destruct (IH ref (fun y Hy => H y (or_intror Hy))) as [r Hr]. rewrite Hr. eexists; reflexivity. }
  destruct (A1 tobs times Hin) as [cols Hc]. rewrite Hc. eexists; reflexivity.
Qed.

(* everything else is refused (ValueError "not supported"): unequal grids, or a requested time that is no time step -- no
   interpolation of solutions with two space axes is ever attempted *)
Theorem observe_2dspace_refused (G : grids) (times tobs : qv) (levels : list qm) :
  g_eq G && time_test Q times tobs = false ->
  (g_eq G = false \/ (exists t, In t tobs /\ ~ In t times) \/ q_spline_route Q = true) ->
  td_observe_2dspace Q G times tobs levels = Er EValue.
Proof.
  intros Hb H. unfold td_observe_2dspace. rewrite Hb.
  destruct (q_spline_route Q) eqn:Eq; [reflexivity|].
  destruct H as [Hg|[[t [Hin Hnot]]|H]]; [rewrite Hg; reflexivity| |discriminate].
  destruct (g_eq G); [|reflexivity]. unfold coincide_cols.
  destruct (opt_all (map (fun t0 => index_of t0 times) tobs)) as [cols|] eqn:Ec; [|reflexivity].
  exfalso. destruct (opt_all_spec _ _ _ Ec) as [_ Hcs].
  destruct (In_nth_error _ _ Hin) as [j Hj]. destruct (Hcs j t Hj) as [b [_ Hjb]].
  apply Hnot. apply index_of_spec in Hjb. apply (nth_error_In _ _ Hjb).
Qed.
End TwoSpaceAxes.

(* non-vacuity: three stored 2x2 levels at times 0, 1/2, 2; requested times [2; 0] (stored), on equal grids *)
Example ex_2dspace :
  let l0 := [[qc (1 # 1); qc (2 # 1)]; [qc (3 # 1); qc (4 # 1)]] in
  let l1 := [[qc (5 # 1); qc (6 # 1)]; [qc (7 # 1); qc (8 # 1)]] in
  let l2 := [[qc (9 # 1); qc (0 # 1)]; [qc (1 # 2); qc (3 # 2)]] in
  let times := [qc (0 # 1); qc (1 # 2); qc (2 # 1)] in
  td_observe_2dspace quirks_minimal (init_grids None None) times [qc (2 # 1); qc (0 # 1)] [l0; l1; l2] = Ok [l2; l0] /\
  td_observe_2dspace quirks_minimal (init_grids None None) times [qc (2 # 1)] [l0; l1; l2] = Ok [l2] /\
  td_observe_2dspace quirks_minimal (init_grids None None) times [qc (1 # 1)] [l0; l1; l2] = Er EValue.
Proof. repeat split. Qed.

(* non-vacuity of squeeze_decided_as_code: a (3, 1) array through u -> 2 u and through u -> u[0] *)
Example ex_squeeze :
  let m := [[qc (1 # 1)]; [qc (2 # 1)]; [qc (3 # 1)]] in
  rect 3 1 m /\
  apply_obsmap (omap_fun (OMScale (qc (2 # 1)))) (A2 m) = Ok (A2 [[qc (2 # 1)]; [qc (4 # 1)]; [qc (6 # 1)]]) /\
  squeeze (A2 [[qc (2 # 1)]; [qc (4 # 1)]; [qc (6 # 1)]]) = A1 [qc (2 # 1); qc (4 # 1); qc (6 # 1)] /\
  apply_obsmap (omap_fun OMFirst) (A2 m) = Ok (A1 [qc (1 # 1)]).
Proof.
  split; [split; [reflexivity | repeat constructor]|]. repeat split; vm_compute; reflexivity.
Qed.

(* ================= (ii) tied to td_observe as it runs: ONE observation time ================= *)
Lemma nth_map_hd (m : qm) i : nth i (map (fun row => hd 0 row) m) 0 = nth 0 (nth i m []) 0.
Proof.
  revert i; induction m as [|r m IH]; intros [|i]; simpl; try reflexivity.
  - destruct r; reflexivity.
  - apply IH.
Qed.

(* spline route, one observation time, no observation map: the (n_obs, 1) answer of the spline loses exactly its time axis -- a
   vector with one entry per observation node, ALSO for a single observation node --, and the entry of a node that is a solution
   node at a time that is a time step is the stored value *)
Theorem td_observe_cubic_single_time Q (G : grids) gs go times t levels m :
  g_eq G && time_test Q times [t] = false -> coincide_restriction Q G times [t] levels = None ->
  g_sol G = Some gs -> g_obs G = Some go ->
  interp2_cubic gs times levels go [t] = Ok m ->
  let v := map (fun row => hd 0 row) m in
  td_observe Q None interp2_cubic G times [t] levels = Ok (true, A1 v) /\
  length v = length go /\
  forall i a b, nth_error go i = nth_error gs a -> nth_error go i <> None -> nth_error times b = Some t ->
                nth i v 0 = nth a (nth b levels []) 0.
Proof.
  intros Hb Hc Hs Ho Hm v.
  destruct (interp2_cubic_shape _ _ _ _ _ _ Hm) as [Lm Fm].
  split; [|split].
  - rewrite (observe_interp_general Q None interp2_cubic G gs go times [t] levels Hb Hc Hs Ho). rewrite Hm.
    cbn [apply_obsmap length Nat.eqb].
    rewrite (squeeze_guard (length go) 1 m (conj Lm Fm)). reflexivity.
  - unfold v. rewrite map_length. exact Lm.
  - intros i a b Hi Hin Hbt. unfold v. rewrite nth_map_hd.
    apply (interp2_cubic_exact_at_nodes gs times levels go [t] m Hm i 0%nat a b Hi Hin); cbn [nth_error]; [symmetry; exact Hbt | discriminate].
Qed.

(* restriction at coinciding nodes and times, one observation time, no observation map: same shape rule *)
Lemma restrict_to_rect rows cols levels : rect (length rows) (length cols) (restrict_to rows cols levels).
Proof.
  unfold restrict_to. split; [apply map_length|].
  apply Forall_forall. intros row Hin. apply in_map_iff in Hin as [a [<- _]]. apply map_length.
Qed.

Theorem td_observe_coinciding_single_time Q interp2 (G : grids) times t levels m :
  g_eq G && time_test Q times [t] = false -> coincide_restriction Q G times [t] levels = Some m ->
  td_observe Q None interp2 G times [t] levels = Ok (false, A1 (map (fun row => hd 0 row) m)).
Proof.
  intros Hb Hc. rewrite (observe_coinciding Q None interp2 G times [t] levels m Hb Hc). cbn [apply_obsmap length Nat.eqb].
  assert (R : exists r, rect r 1 m).
  { unfold coincide_restriction in Hc. destruct (q_spline_route Q); [discriminate|].
    destruct (coincide_rows Q G levels) as [rows|]; [|discriminate].
    destruct (coincide_cols times [t]) as [cols|] eqn:Ec; [|discriminate]. injection Hc as <-.
    assert (Lc : length cols = 1%nat).
    { unfold coincide_cols in Ec. destruct (opt_all_spec _ _ _ Ec) as [L _]. exact L. }
    exists (length rows). rewrite <- Lc. apply restrict_to_rect. }
  destruct R as [r Hr]. rewrite (squeeze_guard r 1 m Hr). reflexivity.
Qed.

(* ================= what the in-model routines REFUSE ================= *)
(* interp1d(kind='quadratic'): fewer than 3 nodes, a solution of another length, an observation point outside [min, max] *)
Theorem interp1_quad_refuses gs sol go :
  ((length gs < 3)%nat \/ length sol <> length gs \/ exists x, In x go /\ in_range gs x = false) ->
  interp1_quad gs sol go = Er EValue.
Proof.
  intros H. unfold interp1_quad.
  destruct ((length gs <? 3)%nat || negb (length sol =? length gs)%nat || negb (forallb (in_range gs) go)) eqn:E; [reflexivity|].
  exfalso. apply orb_false_iff in E as [E E3]. apply orb_false_iff in E as [E1 E2].
  apply Nat.ltb_ge in E1. apply negb_false_iff in E2. apply Nat.eqb_eq in E2. apply negb_false_iff in E3.
  destruct H as [H|[H|[x [Hin Hx]]]]; [nlia | contradiction |].
  rewrite forallb_forall in E3. rewrite (E3 x Hin) in Hx. discriminate.
Qed.

(* RectBivariateSpline: nodes or times not strictly increasing -> ValueError; fewer than 4 of either (shape and order being
   right) -> fitpack's error *)
Theorem interp2_cubic_refuses gs ts sol go to :
  ((strictly_inc gs = false \/ strictly_inc ts = false) -> interp2_cubic gs ts sol go to = Er EValue) /\
  (strictly_inc gs = true -> strictly_inc ts = true ->
   length sol = length ts -> Forall (fun lv => length lv = length gs) sol ->
   ((length gs < 4)%nat \/ (length ts < 4)%nat) -> interp2_cubic gs ts sol go to = Er EOther).
Proof.
  unfold interp2_cubic. split.
  - intros [H|H]; rewrite H; cbn [negb orb]; [reflexivity|]. rewrite orb_true_r. reflexivity.
  - intros Hg Ht Hl Hw Hn. rewrite Hg, Ht. cbn [negb orb].
    assert (E : ((length sol =? length ts)%nat && forallb (fun lv => (length lv =? length gs)%nat) sol) = true).
    { apply andb_true_iff. split; [apply Nat.eqb_eq; exact Hl|]. apply forallb_forall. intros lv Hin.
      rewrite Forall_forall in Hw. apply Nat.eqb_eq. apply Hw. exact Hin. }
    rewrite E. cbn [negb].
    assert (E2 : ((length gs <? 4)%nat || (length ts <? 4)%nat) = true).
    { apply orb_true_iff. destruct Hn as [Hn|Hn]; [left|right]; apply Nat.ltb_lt; exact Hn. }
    rewrite E2. reflexivity.
Qed.

(* THE OPEN FINDING with the routine that runs (today's tree: q_subgrid_route = true): an observation grid that differs from
   the solution grid -- also one whose nodes are all solution nodes, at times that are all time steps -- goes through the
   spline, which refuses fewer than 4 nodes or 4 time levels; `exactly at coinciding nodes and times` fails there *)
Theorem observe_subgrid_refused_cubic Q (G : grids) gs go times tobs levels :
  q_subgrid_route Q = true -> g_eq G = false -> g_sol G = Some gs -> g_obs G = Some go ->
  strictly_inc gs = true -> strictly_inc times = true ->
  length levels = length times -> Forall (fun lv => length lv = length gs) levels ->
  ((length gs < 4)%nat \/ (length times < 4)%nat) ->
  td_observe Q None interp2_cubic G times tobs levels = Er EOther.
Proof.
  intros Hq Hg Hs Ho Ig It Hl Hw Hn.
  assert (Hc : coincide_restriction Q G times tobs levels = None).
  { unfold coincide_restriction. destruct (q_spline_route Q); [reflexivity|].
    unfold coincide_rows. rewrite Hg, Hq. reflexivity. }
  assert (Hb : g_eq G && time_test Q times tobs = false) by (rewrite Hg; reflexivity).
  rewrite (observe_interp_general Q None interp2_cubic G gs go times tobs levels Hb Hc Hs Ho).
  rewrite (proj2 (interp2_cubic_refuses gs times levels go tobs) Ig It Hl Hw Hn). reflexivity.
Qed.

(* the witness of the finding: 4 nodes, 3 levels, the two inner nodes observed at the final time *)
Example ex_subgrid_refused :
  let gs := qvec [0 # 1; 1 # 2; 1 # 1; 3 # 2] in let go := qvec [1 # 2; 1 # 1] in
  let times := qvec [0 # 1; 1 # 4; 1 # 2] in
  let levels := [qvec [1 # 1; 2 # 1; 3 # 1; 4 # 1]; qvec [2 # 1; 3 # 1; 4 # 1; 5 # 1]; qvec [3 # 1; 5 # 1; 7 # 1; 9 # 1]] in
  let G := init_grids (Some gs) (Some go) in
  g_eq G = false /\ strictly_inc gs = true /\ strictly_inc times = true /\
  td_observe quirks_minimal None interp2_cubic G times (qvec [1 # 2]) levels = Er EOther /\
  td_observe quirks_repaired None interp2_cubic G times (qvec [1 # 2]) levels = Ok (false, A1 (qvec [5 # 1; 7 # 1])).
Proof. repeat split; vm_compute; reflexivity. Qed.
