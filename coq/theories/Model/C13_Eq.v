(* C13 -- executable model of Geometry.__eq__ / Geometry._all_values_equal (cuqi/geometry/_geometry.py): the
   attribute dictionaries of two geometry objects are compared key by key with numpy's array_equiv (today: shapes are
   BROADCAST) or array_equal (proposed repair: shapes must agree).  No proofs here.
   Values: None, numbers, 1-d float arrays, atoms (strings, booleans, callables and other objects compared by identity),
   and tuples/lists of those. *)
From CV Require Import Base.Tac Base.Cmp Base.QcLin.
From Coq Require Import QArith Qcanon.

Inductive sval := SNone | SNum (q : Qc) | SArr (l : list Qc) | SAtom (n : nat).
Inductive pval := PS (s : sval) | PTuple (l : list sval).

Definition all_eq (x : Qc) (l : list Qc) : bool := forallb (qc_eqb x) l.

(* np.array_equiv (strict = false: broadcasting) / np.array_equal (strict = true) on two simple values *)
Definition sval_eqv (strict : bool) (a b : sval) : bool :=
  match a, b with
  | SNone, SNone => true
  | SAtom n, SAtom m => (n =? m)%nat
  | SNum x, SNum y => qc_eqb x y
  | SNum x, SArr l | SArr l, SNum x => if strict then false else all_eq x l
  | SArr l1, SArr l2 =>
      if (length l1 =? length l2)%nat then qcl_eqb l1 l2
      else if strict then false
      else match l1, l2 with
           | [x], _ => all_eq x l2
           | _, [y] => all_eq y l1
           | _, _ => false
           end
  | _, _ => false
  end.

Fixpoint svals_eqv (strict : bool) (x y : list sval) : bool :=
  match x, y with
  | [], [] => true
  | a :: x', b :: y' => sval_eqv strict a b && svals_eqv strict x' y'
  | _, _ => false
  end.

(* one attribute: tuples/lists element by element (lengths must agree), everything else through array_equiv.
   A tuple against a non-tuple goes through array_equiv of the tuple converted to an array: modelled for tuples of
   numbers only (the other combinations do not occur for geometries) *)
Definition tuple_as_arr (l : list sval) : option (list Qc) :=
  fold_right (fun s acc => match s, acc with SNum q, Some r => Some (q :: r) | _, _ => None end) (Some []) l.

Definition pval_eqv (strict : bool) (a b : pval) : bool :=
  match a, b with
  | PTuple x, PTuple y => svals_eqv strict x y
  | PS s, PS t => sval_eqv strict s t
  | PTuple x, PS t | PS t, PTuple x =>
      match tuple_as_arr x with Some l => sval_eqv strict (SArr l) t | None => false end
  end.

Fixpoint lookup (k : nat) (d : list (nat * pval)) : option pval :=
  match d with [] => None | (k', v) :: r => if (k =? k')%nat then Some v else lookup k r end.

(* _all_values_equal(self, obj): every attribute of self must exist in obj and compare equal *)
Definition all_values_equal (strict : bool) (self obj : list (nat * pval)) : bool :=
  forallb (fun kv => match lookup (fst kv) obj with Some w => pval_eqv strict (snd kv) w | None => false end) self.

(* __eq__: isinstance(obj, self.__class__) (supplied), then _all_values_equal *)
Definition geom_eq (strict : bool) (isinst : bool) (self obj : list (nat * pval)) : bool :=
  isinst && all_values_equal strict self obj.

Definition check_geom_eq (strict isinst : bool) (self obj : list (nat * pval)) (observed : bool) : bool :=
  Bool.eqb observed (geom_eq strict isinst self obj).
