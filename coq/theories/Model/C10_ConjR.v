(* C10 -- real-valued side of the model (definitions only, no proofs): the log-densities of the code as
   functions of the hyper-parameter, and the samplers' Gamma parameters at carrier R (the SAME generic
   definitions gg_shape / gg_rate of Model/C10_Conj.v, instantiated at R).

   Formulas copied from the code (kept self-contained on purpose: C04 owns the densities proper):
     Gamma.logpdf       = scipy.stats.gamma.logpdf(x, a=shape, scale=1/rate)
     Gaussian.logpdf    = -0.5*(rank*log(2*pi) + logdet) - 0.5*sum((sqrtprec @ (x - mean))**2)
       get_sqrtprec_from_cov , scalar branch : logdet = dim*log(var),  rank = dim, sqrtprec = sqrt(1/var) * I
       get_sqrtprec_from_prec, scalar branch : logdet = -dim*log(prec), rank = dim, sqrtprec = sqrt(prec) * I
     GMRF.logpdf        = 0.5*(rank*(log(prec) - log(2*pi)) + logdet) - 0.5*prec*((x-mean) @ (P @ (x-mean)))
     GMRF.sqrtprec      = sqrt(prec) * chol.T *)
From CV Require Import Base.Tac Base.LinAlg Model.C10_Conj.
From Coq Require Import Reals.
Open Scope R_scope.

Definition Rvec := list R.
Definition Rmat := list (list R).
Definition Rdot := dot 0 Rplus Rmult.
Definition Rvsub := vsub Rminus.
Definition Rvscale := vscale Rmult.
Definition Rmatvec := matvec 0 Rplus Rmult.
Definition Rmattvec := mattvec 0 Rplus Rmult.
Definition Rnormsq := normsq 0 Rplus Rmult.
Definition Rident (n : nat) : Rmat := map (fun i => unit_vec 0 1 n i) (seq 0 n).
Definition Rmscale (c : R) (A : Rmat) : Rmat := map (Rvscale c) A.

(* the samplers' Gamma parameters at R *)
Definition r_shape := gg_shape R Rplus Rmult (1 / 2) INR.
Definition r_rate := gg_rate R 0 Rplus Rmult Rminus (1 / 2).

Section Densities.
Variable lnGamma : R -> R.            (* scipy.special.gammaln: an oracle; no law is needed *)

Definition gamma_logpdf (shape rate s : R) : R :=
  shape * ln rate - lnGamma shape + (shape - 1) * ln s - rate * s.

(* Gaussian.logpdf *)
Definition gaussian_logpdf (rank : nat) (logdet : R) (sqrtprec : Rmat) (mean x : Rvec) : R :=
  - (1 / 2) * (INR rank * ln (2 * PI) + logdet) + - (1 / 2) * Rnormsq (Rmatvec sqrtprec (Rvsub x mean)).

(* what the cov / prec setters store (scalar branches): (rank, logdet, sqrtprec) *)
Definition from_cov_scalar (dim : nat) (var : R) : nat * R * Rmat :=
  (dim, INR dim * ln var, Rmscale (sqrt (1 / var)) (Rident dim)).
Definition from_prec_scalar (dim : nat) (prec : R) : nat * R * Rmat :=
  (dim, - INR dim * ln prec, Rmscale (sqrt prec) (Rident dim)).

Definition gaussian_of (st : nat * R * Rmat) (mean x : Rvec) : R :=
  let '(rk, ld, sp) := st in gaussian_logpdf rk ld sp mean x.
Definition sqrtprec_of (st : nat * R * Rmat) : Rmat := snd st.

(* likelihood of the hyper-parameter s: Gaussian(mean = Ax, cov = cov_fun s).logd(b) *)
Definition lik_gauss_cov (cov_fun : R -> R) (Ax b : Rvec) (s : R) : R :=
  gaussian_of (from_cov_scalar (length b) (cov_fun s)) Ax b.
Definition lik_gauss_prec (prec_fun : R -> R) (Ax b : Rvec) (s : R) : R :=
  gaussian_of (from_prec_scalar (length b) (prec_fun s)) Ax b.

(* general Gaussian whose precision is s * P1 with P1 = L1^T L1 of rank `rank`, log-determinant of the
   covariance at s = 1 equal to logdet1 (the class the legacy sampler is exact on):
   sqrtprec(s) = sqrt(s) * L1, logdet(s) = logdet1 - rank * ln s *)
Definition lik_gauss_homog (rank : nat) (logdet1 : R) (L1 : Rmat) (Ax b : Rvec) (s : R) : R :=
  gaussian_logpdf rank (logdet1 - INR rank * ln s) (Rmscale (sqrt s) L1) Ax b.

(* GMRF.logpdf with prec = prec_fun s *)
Definition gmrf_logpdf (rank : nat) (logdet : R) (P : Rmat) (mean x : Rvec) (prec : R) : R :=
  1 / 2 * (INR rank * (ln prec - ln (2 * PI)) + logdet)
  - 1 / 2 * (prec * Rdot (Rvsub x mean) (Rmatvec P (Rvsub x mean))).
Definition gmrf_sqrtprec (cholT : Rmat) (prec : R) : Rmat := Rmscale (sqrt prec) cholT.
Definition lik_gmrf (prec_fun : R -> R) (rank : nat) (logdet : R) (P : Rmat) (Ax b : Rvec) (s : R) : R :=
  gmrf_logpdf rank logdet P Ax b (prec_fun s).

(* Posterior.logd = likelihood.logd + prior.logd *)
Definition post_logd (lik : R -> R) (alpha beta : R) (s : R) : R := lik s + gamma_logpdf alpha beta s.

(* the sampler's Gamma, for a likelihood whose sqrtprec at unit hyper-parameter is L1 *)
Definition sampler_logpdf (m : nat) (L1 : Rmat) (Ax b : Rvec) (alpha beta : R) (s : R) : R :=
  gamma_logpdf (r_shape m alpha) (r_rate L1 Ax b beta) s.

End Densities.


(* ------------------------------------------------------------------------------------------------- *)
(* ConjugateApprox (_LMRFGammaPair.sample / legacy ConjugateApprox.step) and the LMRF density          *)
(* ------------------------------------------------------------------------------------------------- *)

Definition norm1 (v : Rvec) : R := fold_right (fun a acc => Rabs a + acc) 0 v.
Definition Rsum (v : Rvec) : R := fold_right Rplus 0 v.

(* LMRF.logpdf: len(Dx)*(-(log 2 + log scale)) - ||Dx||_1/scale; written for an arbitrary number of factors N and
   an arbitrary penalty S so that the true density (N = len(Dx), S = ||Dx||_1) and the density the sampler is exact
   for (N = len(x), S = sum_i phi_delta((Dx)_i)) are instances of ONE formula *)
Definition lmrf_like_logpdf (N : nat) (S : R) (scale : R) : R := INR N * (- (ln 2 + ln scale)) - S / scale.
Definition lmrf_logpdf (Dx : Rvec) (scale : R) : R := lmrf_like_logpdf (length Dx) (norm1 Dx) scale.
Definition lik_lmrf (scale_fun : R -> R) (D : Rmat) (x : Rvec) (s : R) : R := lmrf_logpdf (Rmatvec D x) (scale_fun s).

(* (W^(1/2) D x)_i^2 with W = diag(1/sqrt((Dx)^2 + delta)):  t^2 / sqrt(t^2 + delta) -- a smoothing of |t| *)
Definition phi_delta (delta t : R) : R := t * t * (1 / sqrt (t * t + delta)).
Definition approx_penalty (delta : R) (Dx : Rvec) : R := Rsum (map (phi_delta delta) Dx).
(* Gamma(shape = d + alpha, rate = ||Lx||^2 + beta), d = len(x) *)
Definition approx_shape_R (d : nat) (alpha : R) : R := INR d + alpha.
Definition approx_rate_R (delta : R) (D : Rmat) (x : Rvec) (beta : R) : R := approx_penalty delta (Rmatvec D x) + beta.
Definition approx_delta : R := 1 / 100000.


(* ------------------------------------------------------------------------------------------------- *)
(* vector and diagonal-matrix branches of get_sqrtprec_from_cov / get_sqrtprec_from_prec               *)
(* ------------------------------------------------------------------------------------------------- *)

(* np.diag(v) *)
Definition Rdiagmat (v : Rvec) : Rmat :=
  map (fun i => Rvscale (nth i v 0) (unit_vec 0 1 (length v) i)) (seq 0 (length v)).
(* cov is a vector: logdet = sum(log(cov)), rank = dim, sqrtprec = diag(sqrt(1/cov)) *)
Definition from_cov_vector (cov : Rvec) : nat * R * Rmat :=
  (length cov, Rsum (map ln cov), Rdiagmat (map (fun c => sqrt (1 / c)) cov)).
(* prec is a vector: logdet = sum(-log(prec)), rank = dim, sqrtprec = diag(sqrt(prec)) *)
Definition from_prec_vector (prec : Rvec) : nat * R * Rmat :=
  (length prec, Rsum (map (fun p => - ln p) prec), Rdiagmat (map sqrt prec)).
(* cov is a diagonal matrix: var = cov.diagonal(), then as for a vector *)
Definition diag_of (C : Rmat) : Rvec := map (fun i => nth i (nth i C []) 0) (seq 0 (length C)).

Definition lik_gauss_covvec (cov_fun : R -> Rvec) (Ax b : Rvec) (s : R) : R :=
  gaussian_of (from_cov_vector (cov_fun s)) Ax b.
Definition lik_gauss_precvec (prec_fun : R -> Rvec) (Ax b : Rvec) (s : R) : R :=
  gaussian_of (from_prec_vector (prec_fun s)) Ax b.
Definition lik_gauss_covdiag (cov_fun : R -> Rmat) (Ax b : Rvec) (s : R) : R :=
  gaussian_of (from_cov_vector (diag_of (cov_fun s))) Ax b.


(* ------------------------------------------------------------------------------------------------- *)
(* dense full-matrix branches of get_sqrtprec_from_prec / get_sqrtprec_from_cov                        *)
(* ------------------------------------------------------------------------------------------------- *)
(* numpy's matrix_rank, slogdet (log-determinant), inv and cholesky are oracles (Section variables); their laws are
   hypotheses of the theorems in Proofs/C10_Full.v and are checked per case by the correspondence (L^T L = P, C P = I) *)
Section FullBranch.
Variables (rank_fn : Rmat -> nat) (logdet_fn : Rmat -> R) (inv_fn : Rmat -> Rmat) (cholT_fn : Rmat -> Rmat).
(* prec full: rank = matrix_rank(prec), logdet = -log det(prec), sqrtprec = cholesky(prec).T *)
Definition from_prec_full (P : Rmat) : nat * R * Rmat := (rank_fn P, - logdet_fn P, cholT_fn P).
(* cov full: rank = matrix_rank(cov), logdet = log det(cov), prec = inv(cov), sqrtprec = cholesky(prec).T *)
Definition from_cov_full (C : Rmat) : nat * R * Rmat := (rank_fn C, logdet_fn C, cholT_fn (inv_fn C)).
Definition lik_gauss_precfull (prec_fun : R -> Rmat) (Ax b : Rvec) (s : R) : R := gaussian_of (from_prec_full (prec_fun s)) Ax b.
Definition lik_gauss_covfull (cov_fun : R -> Rmat) (Ax b : Rvec) (s : R) : R := gaussian_of (from_cov_full (cov_fun s)) Ax b.
End FullBranch.

(* "f is proportional to g as densities on s > 0": the log-ratio does not depend on s *)
Definition proportional_on_pos (logf logg : R -> R) : Prop :=
  forall s s', 0 < s -> 0 < s' -> logf s - logg s = logf s' - logg s'.
