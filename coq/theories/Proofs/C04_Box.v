(* C04 -- proofs, part 10: the per-coordinate normalisation lifted to the n-dimensional product densities the code evaluates
   (independent coordinates, broadcast parameters).  `is_box_int f box v`: the iterated integral of f : list R -> R over the box
   [a1,b1] x ... x [an,bn] (first coordinate outermost) exists at every level and has the value v.  For a product density
   prod_i k(p_i, x_i) it is the product of the 1-d integrals, for every n (induction on n: the Fubini step for product
   integrands).  Instances: the model's vector densities of Normal, Laplace, Cauchy, Uniform, Gamma / Beta / InverseGamma with
   integer shapes, Lognormal; and the limit of the mass over growing boxes is 1. *)
From CV Require Import Base.Tac Model.C04_Dens Model.C04_Cdf Proofs.C04_Dens Proofs.C04_More Proofs.C04_Cdf Proofs.C04_Cdf2
  Proofs.C04_Norm Proofs.C04_Lim Proofs.C04_Beta Proofs.C04_InvGamma Proofs.C04_Gauss.
From Coq Require Import Reals Lra.
From Coquelicot Require Import Coquelicot.
Local Open Scope R_scope.

(* ---------- iterated integral over a box ---------- *)
Definition in_open (ab : R * R) (t : R) : Prop := Rmin (fst ab) (snd ab) < t < Rmax (fst ab) (snd ab).

Fixpoint is_box_int (f : list R -> R) (box : list (R * R)) (v : R) : Prop :=
  match box with
  | nil => f nil = v
  | ab :: rest => exists F : R -> R,
      (forall t, in_open ab t -> is_box_int (fun xs => f (t :: xs)) rest (F t)) /\ is_RInt F (fst ab) (snd ab) v
  end.

Fixpoint in_box (box : list (R * R)) (xs : list R) : Prop :=
  match box, xs with
  | nil, nil => True
  | ab :: box', x :: xs' => in_open ab x /\ in_box box' xs'
  | _, _ => False
  end.

Lemma in_box_length box xs : in_box box xs -> length xs = length box.
Proof.
  revert xs. induction box as [|ab box IH]; intros [|x xs] H; cbn in H; try contradiction; [reflexivity|].
  cbn. f_equal. apply IH. apply H.
Qed.

(* only the values of the integrand inside the open box matter *)
Lemma is_box_int_ext f g box v : (forall xs, in_box box xs -> f xs = g xs) -> is_box_int f box v -> is_box_int g box v.
Proof.
  revert f g v. induction box as [|ab box IH]; intros f g v H Hi; cbn in *.
  - rewrite <- (H nil I). exact Hi.
  - destruct Hi as [F [HF HI]]. exists F. split; [|exact HI].
    intros t Ht. apply (IH (fun xs => f (t :: xs))); [|apply HF; exact Ht].
    intros xs Hxs. apply H. split; assumption.
Qed.

(* the value is unique: is_box_int defines THE iterated integral *)
Lemma is_box_int_unique f box v w : is_box_int f box v -> is_box_int f box w -> v = w.
Proof.
  revert f v w. induction box as [|ab box IH]; intros f v w Hv Hw; cbn in *.
  - congruence.
  - destruct Hv as [F [HF HI]]. destruct Hw as [G [HG HJ]].
    rewrite <- (is_RInt_unique G (fst ab) (snd ab) w HJ). symmetry. apply is_RInt_unique.
    apply (is_RInt_ext F); [|exact HI].
    intros t Ht. apply (IH (fun xs => f (t :: xs))); [apply HF | apply HG]; exact Ht.
Qed.

Lemma is_box_int_scal c f box v : is_box_int f box v -> is_box_int (fun xs => c * f xs) box (c * v).
Proof.
  revert f v. induction box as [|ab box IH]; intros f v Hi; cbn in *.
  - rewrite Hi. reflexivity.
  - destruct Hi as [F [HF HI]]. exists (fun t => c * F t). split.
    + intros t Ht. apply (IH (fun xs => f (t :: xs))). apply HF. exact Ht.
    + apply (is_RInt_scal F (fst ab) (snd ab) c v). exact HI.
Qed.

(* THE PRODUCT STEP, every n: a product density over independent coordinates with parameters ps integrates over a box to the
   product of the 1-d integrals *)
Theorem box_int_product {A} (k : A -> R -> R) (ms : A -> R * R -> R) (ps : list A) : forall box : list (R * R),
  length box = length ps ->
  (forall q, In q (combine ps box) -> is_RInt (k (fst q)) (fst (snd q)) (snd (snd q)) (ms (fst q) (snd q))) ->
  is_box_int (fun xs => rprod (map (fun q => k (fst q) (snd q)) (combine ps xs))) box
             (rprod (map (fun q => ms (fst q) (snd q)) (combine ps box))).
Proof.
  induction ps as [|p ps IH]; intros [|ab box] Hl H; cbn in Hl; try discriminate.
  - reflexivity.
  - cbn [is_box_int combine map rprod fold_right fst snd].
    set (M := fold_right Rmult 1 (map (fun q => ms (fst q) (snd q)) (combine ps box))).
    exists (fun t => k p t * M). split.
    + intros t _. apply (is_box_int_scal (k p t) (fun xs => rprod (map (fun q => k (fst q) (snd q)) (combine ps xs)))).
      apply IH; [lia|]. intros q Hq. apply H. right. exact Hq.
    + apply (is_RInt_ext (fun t => scal M (k p t))); [intros t _; apply Rmult_comm|].
      replace (ms p ab * M) with (scal M (ms p ab)) by apply Rmult_comm.
      apply (is_RInt_scal (k p) (fst ab) (snd ab) M). apply (H (p, ab)). left. reflexivity.
Qed.

(* a finite product of functions that tend to 1 tends to 1 *)
Lemma is_lim_rprod_1 {A} (g : A -> R -> R) (ps : list A) :
  (forall p, In p ps -> is_lim (g p) p_infty 1) -> is_lim (fun T => rprod (map (fun p => g p T) ps)) p_infty 1.
Proof.
  induction ps as [|p ps IH]; intros H; cbn [map rprod fold_right].
  - apply is_lim_const.
  - evar_last.
    + apply (is_lim_mult (g p) (fun T => rprod (map (fun p => g p T) ps)) p_infty 1 1).
      * apply H. left. reflexivity.
      * apply IH. intros q Hq. apply H. right. exact Hq.
      * exact I.
    + cbn. f_equal. ring.
Qed.

(* ---------- list plumbing: the model's zipN argument lists as `combine params x` ---------- *)
Lemma zip2_combine (a x : list R) : zip2 a x = combine a x.
Proof. revert x. induction a as [|u a IH]; intros [|t x]; cbn; try reflexivity; f_equal; apply IH. Qed.

Lemma zip3_combine (a b x : list R) : zip3 a b x = map (fun q => (fst (fst q), snd (fst q), snd q)) (combine (zip2 a b) x).
Proof.
  revert b x. induction a as [|u a IH]; intros [|v b] [|t x]; cbn; try reflexivity.
  f_equal. apply IH.
Qed.

Lemma combine_map_fst_l {A B C} (g : A -> C) (ps : list A) (xs : list B) :
  combine (map g ps) xs = map (fun q => (g (fst q), snd q)) (combine ps xs).
Proof. revert xs. induction ps as [|p ps IH]; intros [|x xs]; cbn; try reflexivity. f_equal. apply IH. Qed.

Lemma zip2_bc_length n (a b : list R) : (length a = 1%nat \/ length a = n) -> (length b = 1%nat \/ length b = n) ->
  length (zip2 (bc n a) (bc n b)) = n.
Proof. intros Ha Hb. rewrite zip2_length; rewrite !bc_length by assumption; reflexivity. Qed.

Lemma In_combine_Forall_l {A B} (P : A -> Prop) (ps : list A) (box : list B) q : List.Forall P ps -> In q (combine ps box) -> P (fst q).
Proof. intros HF Hq. destruct q as [p ab]. apply in_combine_l in Hq. rewrite Forall_forall in HF. apply HF. exact Hq. Qed.

Lemma rprod_const_combine {A B} (c : R) (ps : list A) (bs : list B) :
  length bs = length ps -> rprod (map (fun _ => c) (combine ps bs)) = c ^ length ps.
Proof.
  revert bs. induction ps as [|p ps IH]; intros [|u bs] H; cbn in *; try discriminate; [reflexivity|].
  f_equal. apply IH. lia.
Qed.

(* ---------- location-scale families whose argument list is zip3 (bc n loc) (bc n scale) x  (Normal, Cauchy) ---------- *)
Lemma combine_map_self {A B} (h : A -> B) (ps : list A) : combine ps (map h ps) = map (fun p => (p, h p)) ps.
Proof. induction ps as [|p ps IH]; cbn; [reflexivity|]. f_equal. exact IH. Qed.

Section LocScale.
  Variables (pdf1 cdf1 : R * R * R -> R) (P : R -> Prop).
  Hypothesis mass1 : forall l s a b, P s -> is_RInt (fun t => pdf1 (l, s, t)) a b (cdf1 (l, s, b) - cdf1 (l, s, a)).

  Definition ls_mass1 (q : R * R * (R * R)) : R :=
    cdf1 (fst (fst q), snd (fst q), snd (snd q)) - cdf1 (fst (fst q), snd (fst q), fst (snd q)).

  (* the mass of EVERY box is the product of the cdf differences (the Fubini step for the product density) *)
  Theorem locscale_box_mass loc scale (box : list (R * R)) :
    (length loc = 1%nat \/ length loc = length box) -> (length scale = 1%nat \/ length scale = length box) ->
    List.Forall P scale ->
    is_box_int (fun xs => rprod (map pdf1 (zip3 (bc (length xs) loc) (bc (length xs) scale) xs))) box
      (rprod (map ls_mass1 (combine (zip2 (bc (length box) loc) (bc (length box) scale)) box))).
  Proof.
    intros Hm Hs Hpos. set (n := length box). set (ps := zip2 (bc n loc) (bc n scale)).
    apply (is_box_int_ext (fun xs => rprod (map (fun q => (fun (p : R * R) t => pdf1 (fst p, snd p, t)) (fst q) (snd q)) (combine ps xs)))).
    { intros xs Hxs. apply in_box_length in Hxs. rewrite Hxs. fold n. rewrite zip3_combine, map_map. reflexivity. }
    apply (box_int_product (fun (p : R * R) t => pdf1 (fst p, snd p, t))
                           (fun p ab => cdf1 (fst p, snd p, snd ab) - cdf1 (fst p, snd p, fst ab)) ps box).
    - unfold ps. rewrite zip2_bc_length by assumption. reflexivity.
    - intros q Hq. apply mass1.
      apply (In_combine_Forall_l (fun p : R * R => P (snd p)) ps box q); [|exact Hq].
      unfold ps. apply zip2_Forall2. apply bc_Forall. exact Hpos.
  Qed.

  (* boxes centred at the locations, half-width T *)
  Definition centred_box2 (T : R) (ps : list (R * R)) : list (R * R) := map (fun p => (fst p - T, fst p + T)) ps.
  Hypothesis lim1 : forall l s, P s -> is_lim (fun T => cdf1 (l, s, l + T) - cdf1 (l, s, l - T)) p_infty 1.

  Theorem locscale_centred_normalised loc scale (n : nat) : List.Forall P scale ->
    is_lim (fun T => rprod (map ls_mass1 (combine (zip2 (bc n loc) (bc n scale)) (centred_box2 T (zip2 (bc n loc) (bc n scale))))))
           p_infty 1.
  Proof.
    intros Hpos. set (ps := zip2 (bc n loc) (bc n scale)).
    apply is_lim_ext with (f := fun T => rprod (map (fun p => (fun (p : R * R) T => cdf1 (fst p, snd p, fst p + T) - cdf1 (fst p, snd p, fst p - T)) p T) ps)).
    { intros T. unfold centred_box2. rewrite combine_map_self, map_map. reflexivity. }
    apply (is_lim_rprod_1 (fun (p : R * R) T => cdf1 (fst p, snd p, fst p + T) - cdf1 (fst p, snd p, fst p - T)) ps).
    intros p Hp. apply lim1.
    assert (HF : List.Forall (fun p : R * R => P (snd p)) ps) by (unfold ps; apply zip2_Forall2; apply bc_Forall; exact Hpos).
    rewrite Forall_forall in HF. apply HF. exact Hp.
  Qed.
End LocScale.

(* exp (logpdf) IS the product density (so the theorems below speak about the function the code evaluates) *)
Lemma normal_exp_logpdf mean std x : List.Forall (fun s => 0 < s) std -> exp (normal_logpdf mean std x) = normal_pdf mean std x.
Proof.
  intros Hs. rewrite normal_logpdf_doc by exact Hs. apply exp_ln. unfold normal_pdf. apply rprod_pos.
  pose proof (zip3_Forall2 (fun s => 0 < s) (bc (length x) mean) (bc (length x) std) x (bc_Forall _ _ _ Hs)) as H.
  unfold normal_args. eapply Forall_impl; [|exact H]. intros [[m s] t] Hp; cbn in Hp. apply normal_pdf1_pos. exact Hp.
Qed.

Lemma cauchy_exp_logpdf loc scale x : List.Forall (fun s => 0 < s) scale ->
  exp (cauchy_logpdf loc scale x) = rprod (map cauchy_pdf1 (cauchy_args loc scale x)).
Proof.
  intros Hs. rewrite cauchy_logpdf_doc by exact Hs. apply exp_ln. apply rprod_pos.
  pose proof (zip3_Forall2 (fun s => 0 < s) (bc (length x) loc) (bc (length x) scale) x (bc_Forall _ _ _ Hs)) as H.
  unfold cauchy_args. eapply Forall_impl; [|exact H]. intros [[m s] t] Hp; cbn in Hp. apply cauchy_pdf1_pos. exact Hp.
Qed.

(* ---------- Normal (and Gaussian with diagonal covariance, whose logpdf is this one: gauss_diag_ln_pdf): FULL product step ---------- *)
Theorem normal_box_mass mean std (box : list (R * R)) :
  (length mean = 1%nat \/ length mean = length box) -> (length std = 1%nat \/ length std = length box) ->
  List.Forall (fun s => 0 < s) std ->
  is_box_int (fun xs => exp (normal_logpdf mean std xs)) box
    (rprod (map (ls_mass1 normal_cdf1) (combine (zip2 (bc (length box) mean) (bc (length box) std)) box))).
Proof.
  intros Hm Hs Hpos.
  apply (is_box_int_ext (fun xs => rprod (map normal_pdf1 (zip3 (bc (length xs) mean) (bc (length xs) std) xs)))).
  { intros xs _. symmetry. apply normal_exp_logpdf. exact Hpos. }
  apply (locscale_box_mass normal_pdf1 normal_cdf1 (fun s => 0 < s)); try assumption.
  intros l s a b H. apply normal_cdf1_is_integral. exact H.
Qed.

(* every Normal cdf factor is the standard one at the standardised point *)
Lemma normal_cdf1_std m s x : normal_cdf1 (m, s, x) = normal_cdf1 (0, 1, (x - m) / s).
Proof. unfold normal_cdf1. f_equal. f_equal. unfold Rdiv. rewrite Rinv_1. ring. Qed.

(* normalisation GIVEN the two limits of the standard Normal cdf (discharged in Proofs/C04_GaussInt.v if present) *)
Theorem normal_centred_normalised_given mean std (n : nat) :
  is_lim (fun u => normal_cdf1 (0, 1, u)) p_infty 1 -> is_lim (fun u => normal_cdf1 (0, 1, u)) m_infty 0 ->
  List.Forall (fun s => 0 < s) std ->
  is_lim (fun T => rprod (map (ls_mass1 normal_cdf1)
                              (combine (zip2 (bc n mean) (bc n std)) (centred_box2 T (zip2 (bc n mean) (bc n std))))))
         p_infty 1.
Proof.
  intros Hp Hm Hpos. apply (locscale_centred_normalised normal_cdf1 (fun s => 0 < s)); [|exact Hpos].
  intros l s Hs.
  apply is_lim_ext with (f := fun T => normal_cdf1 (0, 1, T / s) - normal_cdf1 (0, 1, - (T / s))).
  { intros T. rewrite (normal_cdf1_std l s (l + T)), (normal_cdf1_std l s (l - T)). f_equal; f_equal; f_equal; field; lra. }
  evar_last.
  - apply is_lim_minus'.
    + apply (is_lim_comp (fun u => normal_cdf1 (0, 1, u)) (fun T => T / s) p_infty 1 p_infty); [exact Hp | apply lim_div_p; exact Hs |].
      exists 0. intros y _. discriminate.
    + apply (is_lim_comp (fun u => normal_cdf1 (0, 1, u)) (fun T => - (T / s)) p_infty 0 m_infty); [exact Hm | |].
      * evar_last; [apply is_lim_opp; apply lim_div_p; exact Hs | reflexivity].
      * exists 0. intros y _. discriminate.
  - cbn. f_equal. lra.
Qed.

(* ---------- Cauchy: mass of every box; centred boxes: prod (2/pi) atan(T/s_i) -> 1 (FULL) ---------- *)
Theorem cauchy_box_mass loc scale (box : list (R * R)) :
  (length loc = 1%nat \/ length loc = length box) -> (length scale = 1%nat \/ length scale = length box) ->
  List.Forall (fun s => 0 < s) scale ->
  is_box_int (fun xs => exp (cauchy_logpdf loc scale xs)) box
    (rprod (map (ls_mass1 cauchy_cdf1) (combine (zip2 (bc (length box) loc) (bc (length box) scale)) box))).
Proof.
  intros Hm Hs Hpos.
  apply (is_box_int_ext (fun xs => rprod (map cauchy_pdf1 (zip3 (bc (length xs) loc) (bc (length xs) scale) xs)))).
  { intros xs _. symmetry. apply cauchy_exp_logpdf. exact Hpos. }
  apply (locscale_box_mass cauchy_pdf1 cauchy_cdf1 (fun s => 0 < s)); try assumption.
  intros l s a b H. apply cauchy_cdf_is_integral. exact H.
Qed.

Theorem cauchy_centred_normalised loc scale (n : nat) : List.Forall (fun s => 0 < s) scale ->
  is_lim (fun T => rprod (map (ls_mass1 cauchy_cdf1)
                              (combine (zip2 (bc n loc) (bc n scale)) (centred_box2 T (zip2 (bc n loc) (bc n scale))))))
         p_infty 1.
Proof.
  intros Hpos. apply (locscale_centred_normalised cauchy_cdf1 (fun s => 0 < s)); [|exact Hpos].
  intros l s Hs.
  apply is_lim_ext with (f := fun T => RInt (fun t => cauchy_pdf1 (l, s, t)) (l - T) (l + T)).
  { intros T. apply is_RInt_unique. apply cauchy_cdf_is_integral. exact Hs. }
  apply cauchy_normalised. exact Hs.
Qed.

(* ---------- Laplace (scalar scale b, location broadcast): mass of prod [mu_i - T, mu_i + T] is (1 - exp(-T/b))^n -> 1 ---------- *)
Definition centred_box (T : R) (locs : list R) : list (R * R) := map (fun m => (m - T, m + T)) locs.

Lemma laplace_exp_logpdf loc b x : 0 < b -> (length loc = 1%nat \/ length loc = length x) ->
  exp (laplace_logpdf (length x) loc b x) = rprod (map (laplace_pdf1 b) (laplace_args loc x)).
Proof.
  intros Hb Hl. rewrite laplace_logpdf_doc by assumption. apply exp_ln. apply rprod_pos.
  apply Forall_forall. intros [l t] _. apply laplace_pdf1_pos. exact Hb.
Qed.

Theorem laplace_box_mass (loc : list R) (b T : R) (n : nat) : 0 < b -> 0 <= T -> (length loc = 1%nat \/ length loc = n) ->
  is_box_int (fun xs => exp (laplace_logpdf n loc b xs)) (centred_box T (bc n loc)) ((1 - exp (- T / b)) ^ n).
Proof.
  intros Hb HT Hl. set (ps := bc n loc).
  assert (Hn : length ps = n) by (apply bc_length; exact Hl).
  apply (is_box_int_ext (fun xs => rprod (map (fun q => laplace_dens (fst q) b (snd q)) (combine ps xs)))).
  { intros xs Hxs. apply in_box_length in Hxs. unfold centred_box in Hxs. rewrite map_length, Hn in Hxs.
    rewrite <- Hxs at 1. rewrite laplace_exp_logpdf by (try assumption; rewrite Hxs; exact Hl).
    unfold laplace_args. rewrite Hxs. f_equal. change (zip2 (bc n loc) xs) with (combine ps xs).
    apply map_ext. intros [mu t]. reflexivity. }
  replace ((1 - exp (- T / b)) ^ n)
    with (rprod (map (fun q : R * (R * R) => (fun _ _ => 1 - exp (- T / b)) (fst q) (snd q)) (combine ps (centred_box T ps)))).
  2:{ rewrite <- Hn. apply rprod_const_combine. unfold centred_box. apply map_length. }
  apply (box_int_product (fun mu t => laplace_dens mu b t) (fun _ _ => 1 - exp (- T / b)) ps (centred_box T ps)).
  - unfold centred_box. apply map_length.
  - intros q Hq. unfold centred_box in Hq.
    assert (E : snd q = (fst q - T, fst q + T)).
    { clear - Hq. revert Hq. induction ps as [|p ps IH]; cbn; [contradiction|]. intros [<-|H]; [reflexivity | apply IH; exact H]. }
    rewrite E. cbn [fst snd]. apply laplace_mass; assumption.
Qed.

Lemma is_lim_pow_1 (g : R -> R) (n : nat) : is_lim g p_infty 1 -> is_lim (fun T => g T ^ n) p_infty 1.
Proof.
  intros H. induction n as [|n IH]; cbn [pow]; [apply is_lim_const|].
  evar_last; [apply (is_lim_mult g (fun T => g T ^ n) p_infty 1 1); [exact H | exact IH | exact I]|]. cbn. f_equal. ring.
Qed.

Theorem laplace_box_normalised (b : R) (n : nat) : 0 < b -> is_lim (fun T => (1 - exp (- T / b)) ^ n) p_infty 1.
Proof.
  intros Hb. apply (is_lim_pow_1 (fun T => 1 - exp (- T / b))).
  evar_last; [apply is_lim_minus'; [apply is_lim_const | apply lim_exp_neg; exact Hb]|]. cbn. f_equal. lra.
Qed.

(* ---------- the product step when the factors are only known INSIDE the open box (densities with a boundary: x > 0, x > loc) ---------- *)
Lemma rprod_combine_ext_in_box {A} (k k' : A -> R -> R) (ps : list A) : forall (box : list (R * R)) (xs : list R),
  length box = length ps -> in_box box xs ->
  (forall q, In q (combine ps box) -> forall t, in_open (snd q) t -> k (fst q) t = k' (fst q) t) ->
  rprod (map (fun q => k (fst q) (snd q)) (combine ps xs)) = rprod (map (fun q => k' (fst q) (snd q)) (combine ps xs)).
Proof.
  induction ps as [|p ps IH]; intros [|ab box] [|x xs] Hl Hin H; cbn in *; try discriminate; try contradiction; try reflexivity.
  destruct Hin as [Hx Hin]. f_equal.
  - apply (H (p, ab)); [left; reflexivity | exact Hx].
  - apply (IH box xs); [lia | exact Hin |]. intros q Hq. apply H. right. exact Hq.
Qed.

Theorem box_int_product_open {A} (k k' : A -> R -> R) (ms : A -> R * R -> R) (ps : list A) (box : list (R * R)) :
  length box = length ps ->
  (forall q, In q (combine ps box) -> forall t, in_open (snd q) t -> k (fst q) t = k' (fst q) t) ->
  (forall q, In q (combine ps box) -> is_RInt (k' (fst q)) (fst (snd q)) (snd (snd q)) (ms (fst q) (snd q))) ->
  is_box_int (fun xs => rprod (map (fun q => k (fst q) (snd q)) (combine ps xs))) box
             (rprod (map (fun q => ms (fst q) (snd q)) (combine ps box))).
Proof.
  intros Hl Hk Hi.
  apply (is_box_int_ext (fun xs => rprod (map (fun q => k' (fst q) (snd q)) (combine ps xs)))).
  - intros xs Hxs. symmetry. apply (rprod_combine_ext_in_box k k' ps box xs); assumption.
  - apply box_int_product; assumption.
Qed.

Lemma exp_rsum {A} (f : A -> R) l : exp (rsum (map f l)) = rprod (map (fun a => exp (f a)) l).
Proof. induction l as [|a l IH]; cbn [map rsum rprod fold_right]; [apply exp_0|]. rewrite exp_plus. f_equal. exact IH. Qed.

Lemma In_combine_same {A} (ps : list A) a b : In (a, b) (combine ps ps) -> a = b.
Proof. induction ps as [|p ps IH]; cbn; [contradiction|]. intros [E|H]; [congruence | apply IH; exact H]. Qed.

Lemma map_fst_combine {A B C} (f : A -> C) (ps : list A) (xs : list B) : length xs = length ps ->
  map (fun q => f (fst q)) (combine ps xs) = map f ps.
Proof. revert xs. induction ps as [|p ps IH]; intros [|x xs] H; cbn in *; try discriminate; [reflexivity|]. f_equal. apply IH. lia. Qed.

(* ---------- Uniform: the (constant) density integrates to one over its own box, every dimension, scalar or vector bounds
   (guard: the exact complement of the defective class, as in uniform_logpdf_doc_guarded) ---------- *)
Theorem uniform_box_normalised fixed (n : nat) low high :
  (length low = 1%nat \/ length low = n) -> (length high = 1%nat \/ length high = n) ->
  List.Forall (fun p => fst p < snd p) (zip2 (bc n low) (bc n high)) ->
  (fixed = true \/ length low = n \/ length high = n) ->
  is_box_int (fun _ => exp (uniform_logpdf fixed n low high)) (zip2 (bc n low) (bc n high)) 1.
Proof.
  intros Hl Hh Hpos Hg. rewrite uniform_logpdf_doc_guarded by assumption.
  set (ps := zip2 (bc n low) (bc n high)) in *.
  rewrite exp_ln.
  2:{ unfold uniform_pdf. fold ps. apply rprod_pos. eapply Forall_impl; [|exact Hpos].
      intros [l h] H; cbn in H. unfold uniform_pdf1. apply Rdiv_lt_0_compat; lra. }
  apply (is_box_int_ext (fun xs => rprod (map (fun q => (fun (p : R * R) (_ : R) => uniform_pdf1 p) (fst q) (snd q)) (combine ps xs)))).
  { intros xs Hxs. apply in_box_length in Hxs. unfold uniform_pdf. fold ps. f_equal.
    apply (map_fst_combine uniform_pdf1 ps xs). exact Hxs. }
  replace 1 with (rprod (map (fun q : (R * R) * (R * R) => (fun _ _ => 1) (fst q) (snd q)) (combine ps ps))).
  2:{ rewrite (rprod_const_combine 1 ps ps eq_refl). apply pow1. }
  apply (box_int_product (fun (p : R * R) (_ : R) => uniform_pdf1 p) (fun _ _ => 1) ps ps eq_refl).
  intros [p ab] Hq. pose proof (In_combine_same ps p ab Hq) as <-. cbn [fst snd].
  assert (Hp : fst p < snd p).
  { apply in_combine_l in Hq. rewrite Forall_forall in Hpos. apply Hpos. exact Hq. }
  destruct p as [l h]. cbn [fst snd] in *. apply uniform_normalised. exact Hp.
Qed.

(* ---------- Lognormal with diagonal covariance V: the mass of prod [exp(-v), exp(v)] is the product of the Normal cdf differences
   at +-v (change of variables u = ln t per coordinate; FULL), hence -> 1 given the Normal limits ---------- *)
Lemma lognormal_exp_term m s t : 0 < t -> 0 < s -> exp (lognormal_term (m, s, t)) = lognormal_pdf1 m s t.
Proof.
  intros Ht Hs. rewrite lognormal_term_ln by assumption. apply exp_ln. unfold lognormal_pdf1.
  apply Rmult_lt_0_compat; [apply Rinv_0_lt_compat; exact Ht | apply normal_pdf1_pos; exact Hs].
Qed.

Lemma in_open_exp v t : 0 <= v -> in_open (exp (- v), exp v) t -> exp (- v) < t < exp v.
Proof.
  intros Hv [H1 H2]. cbn [fst snd] in *.
  assert (exp (- v) <= exp v) by (destruct (Req_dec v 0) as [->|]; [rewrite Ropp_0; lra | left; apply exp_increasing; lra]).
  rewrite Rmin_left in H1 by assumption. rewrite Rmax_right in H2 by assumption. split; assumption.
Qed.

Theorem lognormal_box_mass (V mean : list R) (v : R) : 0 <= v ->
  (length mean = 1%nat \/ length mean = length V) -> List.Forall (fun c => 0 < c) V ->
  is_box_int (fun xs => exp (lognormal_logpdf (gauss_diag_logpdf FCov false (length xs) V mean (map ln xs)) xs))
             (map (fun _ => (exp (- v), exp v)) V)
             (rprod (map (fun p => normal_cdf1 (fst p, snd p, v) - normal_cdf1 (fst p, snd p, - v))
                         (zip2 (bc (length V) mean) (map sqrt V)))).
Proof.
  intros Hv Hm Hpos. set (n := length V). set (ps := zip2 (bc n mean) (map sqrt V)).
  set (box := map (fun _ : R => (exp (- v), exp v)) V).
  assert (Hlb : length box = n) by (unfold box; apply map_length).
  assert (Hlp : length ps = n).
  { unfold ps. rewrite zip2_length; rewrite bc_length by exact Hm; [reflexivity | rewrite map_length; reflexivity]. }
  assert (Hps : List.Forall (fun p : R * R => 0 < snd p) ps).
  { unfold ps. apply zip2_Forall2. apply Forall_map. eapply Forall_impl; [|exact Hpos]. intros c Hc. apply sqrt_lt_R0. exact Hc. }
  assert (Hbox : forall q, In q (combine ps box) -> snd q = (exp (- v), exp v)).
  { intros [p ab] Hq. apply in_combine_r in Hq. unfold box in Hq. apply in_map_iff in Hq. destruct Hq as [c [E _]]. symmetry. exact E. }
  assert (Hxpos : forall xs, in_box box xs -> List.Forall (fun t => 0 < t) xs).
  { unfold box. clear - Hv. generalize V. intros W. induction W as [|c W IH]; intros [|x xs] H; cbn in H; try contradiction; constructor.
    - destruct H as [H _]. apply in_open_exp in H; [|exact Hv]. pose proof (exp_pos (- v)). lra.
    - apply IH. apply H. }
  apply (is_box_int_ext (fun xs => rprod (map (fun q => (fun (p : R * R) t => exp (lognormal_term (fst p, snd p, t))) (fst q) (snd q)) (combine ps xs)))).
  { intros xs Hxs. pose proof (Hxpos xs Hxs) as Hx. apply in_box_length in Hxs. rewrite Hlb in Hxs.
    rewrite lognormal_diag_doc; try assumption; try (rewrite Hxs; fold n; try reflexivity; exact Hm).
    rewrite Hxs. fold ps. rewrite exp_rsum. unfold ps. rewrite zip3_combine, map_map. reflexivity. }
  replace (rprod (map (fun p => normal_cdf1 (fst p, snd p, v) - normal_cdf1 (fst p, snd p, - v)) ps))
    with (rprod (map (fun q : (R * R) * (R * R) => (fun (p : R * R) (_ : R * R) => normal_cdf1 (fst p, snd p, v) - normal_cdf1 (fst p, snd p, - v)) (fst q) (snd q)) (combine ps box))).
  2:{ f_equal. apply (map_fst_combine (fun p : R * R => normal_cdf1 (fst p, snd p, v) - normal_cdf1 (fst p, snd p, - v)) ps box). congruence. }
  apply (box_int_product_open (fun (p : R * R) t => exp (lognormal_term (fst p, snd p, t))) (fun (p : R * R) t => lognormal_pdf1 (fst p) (snd p) t)
           (fun (p : R * R) (_ : R * R) => normal_cdf1 (fst p, snd p, v) - normal_cdf1 (fst p, snd p, - v)) ps box).
  - congruence.
  - intros q Hq t Ht. rewrite (Hbox q Hq) in Ht. apply in_open_exp in Ht; [|exact Hv].
    apply lognormal_exp_term; [pose proof (exp_pos (- v)); lra|].
    apply (In_combine_Forall_l (fun p : R * R => 0 < snd p) ps box q Hps Hq).
  - intros q Hq. rewrite (Hbox q Hq). cbn [fst snd].
    rewrite <- (ln_exp v) at 3. rewrite <- (ln_exp (- v)) at 2.
    apply lognormal_mass.
    + apply (In_combine_Forall_l (fun p : R * R => 0 < snd p) ps box q Hps Hq).
    + apply exp_pos.
    + destruct (Req_dec v 0) as [->|]; [rewrite Ropp_0; lra | left; apply exp_increasing; lra].
Qed.

(* limits of a Normal cdf factor from those of the standard one *)
Lemma lim_affine_p m s : 0 < s -> is_lim (fun v => (v - m) / s) p_infty p_infty.
Proof.
  intros Hs. apply is_lim_ext with (f := fun v => v / s + (- m / s)); [intros v; field; lra|].
  apply (is_lim_plus (fun v => v / s) (fun _ => - m / s) p_infty p_infty (- m / s) p_infty); [apply lim_div_p; exact Hs | apply is_lim_const |].
  unfold is_Rbar_plus; cbn. reflexivity.
Qed.

Lemma lim_affine_m m s : 0 < s -> is_lim (fun v => (- v - m) / s) p_infty m_infty.
Proof.
  intros Hs. apply is_lim_ext with (f := fun v => - (v / s) + (- m / s)); [intros v; field; lra|].
  apply (is_lim_plus (fun v => - (v / s)) (fun _ => - m / s) p_infty m_infty (- m / s) m_infty); [| apply is_lim_const |].
  - evar_last; [apply is_lim_opp; apply lim_div_p; exact Hs | reflexivity].
  - unfold is_Rbar_plus; cbn. reflexivity.
Qed.

Theorem lognormal_box_normalised_given (V mean : list R) :
  is_lim (fun u => normal_cdf1 (0, 1, u)) p_infty 1 -> is_lim (fun u => normal_cdf1 (0, 1, u)) m_infty 0 ->
  List.Forall (fun c => 0 < c) V ->
  is_lim (fun v => rprod (map (fun p => normal_cdf1 (fst p, snd p, v) - normal_cdf1 (fst p, snd p, - v))
                              (zip2 (bc (length V) mean) (map sqrt V)))) p_infty 1.
Proof.
  intros Hp Hm Hpos. set (ps := zip2 (bc (length V) mean) (map sqrt V)).
  assert (Hps : List.Forall (fun p : R * R => 0 < snd p) ps).
  { unfold ps. apply zip2_Forall2. apply Forall_map. eapply Forall_impl; [|exact Hpos]. intros c Hc. apply sqrt_lt_R0. exact Hc. }
  apply (is_lim_rprod_1 (fun (p : R * R) v => normal_cdf1 (fst p, snd p, v) - normal_cdf1 (fst p, snd p, - v)) ps).
  intros [m s] Hin. rewrite Forall_forall in Hps. pose proof (Hps _ Hin) as Hs. cbn [fst snd] in *.
  apply is_lim_ext with (f := fun v => normal_cdf1 (0, 1, (v - m) / s) - normal_cdf1 (0, 1, (- v - m) / s)).
  { intros v. rewrite (normal_cdf1_std m s v), (normal_cdf1_std m s (- v)). reflexivity. }
  evar_last.
  - apply is_lim_minus'.
    + apply (is_lim_comp (fun u => normal_cdf1 (0, 1, u)) (fun v => (v - m) / s) p_infty 1 p_infty); [exact Hp | apply lim_affine_p; exact Hs |].
      exists 0. intros y _. discriminate.
    + apply (is_lim_comp (fun u => normal_cdf1 (0, 1, u)) (fun v => (- v - m) / s) p_infty 0 m_infty); [exact Hm | apply lim_affine_m; exact Hs |].
      exists 0. intros y _. discriminate.
  - cbn. f_equal. lra.
Qed.

(* ---------- more list plumbing ---------- *)
Lemma zip3_map_combine {A} (f1 f2 : A -> R) (ps : list A) (xs : list R) :
  zip3 (map f1 ps) (map f2 ps) xs = map (fun q => (f1 (fst q), f2 (fst q), snd q)) (combine ps xs).
Proof. revert xs. induction ps as [|p ps IH]; intros [|x xs]; cbn; try reflexivity. f_equal. apply IH. Qed.

Lemma zip3_map_self {A} (f1 f2 f3 : A -> R) (ps : list A) :
  zip3 (map f1 ps) (map f2 ps) (map f3 ps) = map (fun p => (f1 p, f2 p, f3 p)) ps.
Proof. induction ps as [|p ps IH]; cbn; [reflexivity|]. f_equal. exact IH. Qed.

Lemma zip4_map_combine {A} (f1 f2 f3 : A -> R) (ps : list A) (xs : list R) :
  zip4 (map f1 ps) (map f2 ps) (map f3 ps) xs = map (fun q => (f1 (fst q), f2 (fst q), f3 (fst q), snd q)) (combine ps xs).
Proof. revert xs. induction ps as [|p ps IH]; intros [|x xs]; cbn; try reflexivity. f_equal. apply IH. Qed.

Lemma combine_map_zip {A B C D} (h : A -> C) (g : A * B -> D) (ps : list A) (xs : list B) :
  combine (map h ps) (map g (combine ps xs)) = map (fun q => (h (fst q), g q)) (combine ps xs).
Proof. revert xs. induction ps as [|p ps IH]; intros [|x xs]; cbn; try reflexivity. f_equal. apply IH. Qed.

Lemma in_open_0T T t : 0 < T -> in_open (0, T) t -> 0 < t < T.
Proof. intros HT [H1 H2]. cbn [fst snd] in *. rewrite Rmin_left in H1 by lra. rewrite Rmax_right in H2 by lra. split; assumption. Qed.

Lemma In_combine_const_box {A} (ps : list A) (ab : R * R) q : In q (combine ps (map (fun _ => ab) ps)) -> snd q = ab.
Proof. rewrite combine_map_self. intros H. apply in_map_iff in H. destruct H as [p [<- _]]. reflexivity. Qed.

(* ---------- Gamma with integer shapes k_i + 1 and rates r_i (ps = list of (k_i, r_i); a scalar parameter is the vector of repeats):
   exp(logpdf), with lnGamma(k+1) = ln k!, integrates over (0,T)^n to the product of the 1-d cdfs, which tends to 1 (FULL) ---------- *)
Definition gamma_int_g (p : nat * R) : R := ln (INR (fact (fst p))).
Definition gamma_int_shape (p : nat * R) : R := INR (S (fst p)).

Lemma gamma_exp_term k r t : 0 < r -> 0 < t ->
  exp (gamma_term (ln (INR (fact k)), INR (S k), r, t)) = gamma_int_pdf k r t.
Proof.
  intros Hr Ht. rewrite gamma_term_doc by apply INR_fact_pos. rewrite <- gamma_int_pdf_doc by assumption.
  apply exp_ln. unfold gamma_int_pdf. pose proof (INR_fact_pos k).
  apply Rdiv_lt_0_compat; [|assumption]. repeat apply Rmult_lt_0_compat; try apply pow_lt; try assumption. apply exp_pos.
Qed.

Theorem gamma_int_box_mass (ps : list (nat * R)) (T : R) : 0 < T -> List.Forall (fun p => 0 < snd p) ps ->
  is_box_int (fun xs => exp (gamma_logpdf (map gamma_int_g ps) (map gamma_int_shape ps) (map snd ps) xs))
             (map (fun _ => (0, T)) ps) (rprod (map (fun p => gamma_int_cdf1 (fst p) (snd p) T) ps)).
Proof.
  intros HT Hpos. set (box := map (fun _ : nat * R => (0, T)) ps).
  assert (Hlb : length box = length ps) by (unfold box; apply map_length).
  apply (is_box_int_ext (fun xs => rprod (map (fun q => (fun (p : nat * R) t => exp (gamma_term (gamma_int_g p, gamma_int_shape p, snd p, t))) (fst q) (snd q)) (combine ps xs)))).
  { intros xs Hxs. apply in_box_length in Hxs. rewrite Hlb in Hxs. unfold gamma_logpdf.
    rewrite !bc_same by (rewrite map_length; symmetry; exact Hxs).
    rewrite zip4_map_combine, map_map, exp_rsum. reflexivity. }
  replace (rprod (map (fun p => gamma_int_cdf1 (fst p) (snd p) T) ps))
    with (rprod (map (fun q : (nat * R) * (R * R) => (fun (p : nat * R) (_ : R * R) => gamma_int_cdf1 (fst p) (snd p) T) (fst q) (snd q)) (combine ps box))).
  2:{ f_equal. apply (map_fst_combine (fun p : nat * R => gamma_int_cdf1 (fst p) (snd p) T) ps box Hlb). }
  apply (box_int_product_open (fun (p : nat * R) t => exp (gamma_term (gamma_int_g p, gamma_int_shape p, snd p, t)))
           (fun (p : nat * R) t => gamma_int_pdf (fst p) (snd p) t)
           (fun (p : nat * R) (_ : R * R) => gamma_int_cdf1 (fst p) (snd p) T) ps box Hlb).
  - intros q Hq t Ht. rewrite (In_combine_const_box ps (0, T) q Hq) in Ht. apply in_open_0T in Ht; [|exact HT].
    apply gamma_exp_term; [|lra]. apply (In_combine_Forall_l (fun p : nat * R => 0 < snd p) ps box q Hpos Hq).
  - intros q Hq. rewrite (In_combine_const_box ps (0, T) q Hq). cbn [fst snd]. unfold gamma_int_cdf1.
    apply (@RInt_correct R_CompleteNormedModule). apply ex_RInt_continuous. intros t _. apply gamma_int_pdf_cont.
Qed.

Theorem gamma_int_box_normalised (ps : list (nat * R)) : List.Forall (fun p => 0 < snd p) ps ->
  is_lim (fun T => rprod (map (fun p => gamma_int_cdf1 (fst p) (snd p) T) ps)) p_infty 1.
Proof.
  intros Hpos. apply (is_lim_rprod_1 (fun (p : nat * R) T => gamma_int_cdf1 (fst p) (snd p) T) ps).
  intros p Hp. apply gamma_int_normalised. rewrite Forall_forall in Hpos. apply Hpos. exact Hp.
Qed.

(* ---------- Beta with integer parameters (a_i + 1, b_i + 1): exp(logpdf) integrates to 1 over (0,1)^n (FULL) ---------- *)
Definition beta_int_ga (p : nat * nat) : R := ln (INR (fact (fst p))).
Definition beta_int_gb (p : nat * nat) : R := ln (INR (fact (snd p))).
Definition beta_int_gab (p : nat * nat) : R := ln (INR (fact (fst p + snd p + 1))).
Definition beta_int_alpha (p : nat * nat) : R := INR (S (fst p)).
Definition beta_int_beta (p : nat * nat) : R := INR (S (snd p)).

Lemma beta_exp_term a b t : 0 < t < 1 ->
  exp (beta_term (ln (INR (fact a)), ln (INR (fact b)), ln (INR (fact (a + b + 1)))) (INR (S a), INR (S b), t)) = beta_int_pdf a b t.
Proof.
  intros Ht. rewrite beta_term_doc by apply INR_fact_pos. rewrite <- beta_int_pdf_doc by assumption.
  apply exp_ln. unfold beta_int_pdf. pose proof (INR_fact_pos a). pose proof (INR_fact_pos b). pose proof (INR_fact_pos (a + b + 1)).
  apply Rdiv_lt_0_compat; [|apply Rmult_lt_0_compat; assumption].
  repeat apply Rmult_lt_0_compat; try apply pow_lt; try assumption; lra.
Qed.

Theorem beta_int_box_normalised (ps : list (nat * nat)) :
  is_box_int (fun xs => exp (beta_logpdf (map beta_int_ga ps) (map beta_int_gb ps) (map beta_int_gab ps)
                                         (map beta_int_alpha ps) (map beta_int_beta ps) xs))
             (map (fun _ => (0, 1)) ps) 1.
Proof.
  set (box := map (fun _ : nat * nat => (0, 1)) ps).
  assert (Hlb : length box = length ps) by (unfold box; apply map_length).
  apply (is_box_int_ext (fun xs => rprod (map (fun q => (fun (p : nat * nat) t =>
           exp (beta_term (beta_int_ga p, beta_int_gb p, beta_int_gab p) (beta_int_alpha p, beta_int_beta p, t))) (fst q) (snd q)) (combine ps xs)))).
  { intros xs Hxs. apply in_box_length in Hxs. rewrite Hlb in Hxs. unfold beta_logpdf.
    rewrite !bc_same by (rewrite map_length; symmetry; exact Hxs).
    rewrite zip3_map_self, zip3_map_combine.
    rewrite (combine_map_zip (fun p => (beta_int_ga p, beta_int_gb p, beta_int_gab p))
                             (fun q : (nat * nat) * R => (beta_int_alpha (fst q), beta_int_beta (fst q), snd q)) ps xs).
    rewrite map_map, exp_rsum. reflexivity. }
  replace 1 with (rprod (map (fun q : (nat * nat) * (R * R) => (fun _ _ => 1) (fst q) (snd q)) (combine ps box))).
  2:{ rewrite (rprod_const_combine 1 ps box Hlb). apply pow1. }
  apply (box_int_product_open (fun (p : nat * nat) t => exp (beta_term (beta_int_ga p, beta_int_gb p, beta_int_gab p) (beta_int_alpha p, beta_int_beta p, t)))
           (fun (p : nat * nat) t => beta_int_pdf (fst p) (snd p) t) (fun _ _ => 1) ps box Hlb).
  - intros q Hq t Ht. rewrite (In_combine_const_box ps (0, 1) q Hq) in Ht. apply in_open_0T in Ht; [|lra].
    apply beta_exp_term. exact Ht.
  - intros q Hq. rewrite (In_combine_const_box ps (0, 1) q Hq). cbn [fst snd]. apply beta_int_normalised.
Qed.

(* ---------- InverseGamma with integer shapes k_i + 1 (ps = list of (k_i, loc_i, scale_i)): by 1/(x - loc) ~ Gamma(k+1, rate = scale) ---------- *)
Lemma invgamma_int_pdf_doc k l sc x : l < x -> 0 < sc ->
  invgamma_int_pdf k l sc x = invgamma_pdf1 (INR (fact k)) (INR (S k)) l sc x.
Proof.
  intros Hx Hsc. unfold invgamma_int_pdf, invgamma_pdf1. pose proof (INR_fact_pos k).
  replace (- INR (S k) - 1) with (- INR (k + 2)) by (rewrite S_INR, plus_INR; cbn; ring).
  rewrite !Rpower_Ropp, !Rpower_pow by lra.
  rewrite pow_inv.
  assert (0 < (x - l) ^ (k + 2)) by (apply pow_lt; lra). assert (0 < sc ^ S k) by (apply pow_lt; lra).
  field. repeat split; lra.
Qed.

Lemma invgamma_exp_term k l sc t : l < t -> 0 < sc ->
  exp (invgamma_term (ln (INR (fact k))) (INR (S k), l, sc, t)) = invgamma_int_pdf k l sc t.
Proof.
  intros Ht Hsc. rewrite invgamma_term_doc by apply INR_fact_pos. rewrite <- invgamma_int_pdf_doc by assumption.
  apply exp_ln. unfold invgamma_int_pdf. pose proof (INR_fact_pos k).
  apply Rdiv_lt_0_compat; [|assumption]. repeat apply Rmult_lt_0_compat; try apply pow_lt; try assumption; try apply exp_pos.
  apply Rinv_0_lt_compat. lra.
Qed.

Lemma invgamma_int_pdf_cont k l sc x : l < x -> continuous (invgamma_int_pdf k l sc) x.
Proof.
  intros Hx. apply (ex_derive_continuous (invgamma_int_pdf k l sc)). unfold invgamma_int_pdf. pose proof (INR_fact_pos k).
  auto_derive. repeat split; lra.
Qed.

(* the cdf of the model is the integral of the density over every interval inside the support *)
Theorem invgamma_int_cdf_is_integral k l sc a b : l < a -> a <= b ->
  is_RInt (invgamma_int_pdf k l sc) a b (invgamma_int_cdf1 k l sc b - invgamma_int_cdf1 k l sc a).
Proof.
  intros Ha Hab.
  apply (is_RInt_derive (invgamma_int_cdf1 k l sc) (invgamma_int_pdf k l sc)).
  - intros x Hx. rewrite Rmin_left, Rmax_right in Hx by lra. apply invgamma_int_cdf_derive. lra.
  - intros x Hx. rewrite Rmin_left, Rmax_right in Hx by lra. apply invgamma_int_pdf_cont. lra.
Qed.

Definition invgamma_int_g (p : nat * R * R) : R := ln (INR (fact (fst (fst p)))).
Definition invgamma_int_shape (p : nat * R * R) : R := INR (S (fst (fst p))).
Definition invgamma_box (T : R) (ps : list (nat * R * R)) : list (R * R) := map (fun p => (snd (fst p) + / T, snd (fst p) + T)) ps.
Definition invgamma_mass1 (T : R) (p : nat * R * R) : R := gamma_int_cdf1 (fst (fst p)) (snd p) T - gamma_int_cdf1 (fst (fst p)) (snd p) (/ T).

Theorem invgamma_int_box_mass (ps : list (nat * R * R)) (T : R) : 1 < T -> List.Forall (fun p => 0 < snd p) ps ->
  is_box_int (fun xs => exp (invgamma_logpdf (map invgamma_int_g ps) (map invgamma_int_shape ps) (map (fun p => snd (fst p)) ps) (map snd ps) xs))
             (invgamma_box T ps) (rprod (map (invgamma_mass1 T) ps)).
Proof.
  intros HT Hpos. set (box := invgamma_box T ps).
  assert (Hlb : length box = length ps) by (unfold box, invgamma_box; apply map_length).
  assert (HiT : 0 < / T < T) by (split; [apply Rinv_0_lt_compat; lra | apply Rlt_trans with 1; [rewrite <- Rinv_1; apply Rinv_lt_contravar; lra | lra]]).
  assert (Hbox : forall q, In q (combine ps box) -> snd q = (snd (fst (fst q)) + / T, snd (fst (fst q)) + T)).
  { intros q Hq. unfold box, invgamma_box in Hq. rewrite combine_map_self in Hq. apply in_map_iff in Hq. destruct Hq as [p [<- _]]. reflexivity. }
  apply (is_box_int_ext (fun xs => rprod (map (fun q => (fun (p : nat * R * R) t =>
           exp (invgamma_term (invgamma_int_g p) (invgamma_int_shape p, snd (fst p), snd p, t))) (fst q) (snd q)) (combine ps xs)))).
  { intros xs Hxs. apply in_box_length in Hxs. rewrite Hlb in Hxs. unfold invgamma_logpdf.
    rewrite !bc_same by (rewrite map_length; symmetry; exact Hxs).
    rewrite zip4_map_combine.
    rewrite (combine_map_zip invgamma_int_g (fun q : (nat * R * R) * R => (invgamma_int_shape (fst q), snd (fst (fst q)), snd (fst q), snd q)) ps xs).
    rewrite map_map, exp_rsum. reflexivity. }
  replace (rprod (map (invgamma_mass1 T) ps))
    with (rprod (map (fun q : (nat * R * R) * (R * R) => (fun (p : nat * R * R) (_ : R * R) => invgamma_mass1 T p) (fst q) (snd q)) (combine ps box))).
  2:{ f_equal. apply (map_fst_combine (invgamma_mass1 T) ps box Hlb). }
  apply (box_int_product_open (fun (p : nat * R * R) t => exp (invgamma_term (invgamma_int_g p) (invgamma_int_shape p, snd (fst p), snd p, t)))
           (fun (p : nat * R * R) t => invgamma_int_pdf (fst (fst p)) (snd (fst p)) (snd p) t)
           (fun (p : nat * R * R) (_ : R * R) => invgamma_mass1 T p) ps box Hlb).
  - intros q Hq t Ht. rewrite (Hbox q Hq) in Ht. destruct Ht as [H1 H2]. cbn [fst snd] in *.
    rewrite Rmin_left in H1 by lra. apply invgamma_exp_term; [lra|].
    apply (In_combine_Forall_l (fun p : nat * R * R => 0 < snd p) ps box q Hpos Hq).
  - intros q Hq. rewrite (Hbox q Hq). cbn [fst snd]. destruct q as [[[k l] sc] ab]. cbn [fst snd].
    evar_last; [apply invgamma_int_cdf_is_integral; lra|].
    unfold invgamma_mass1, invgamma_int_cdf1. cbn [fst snd].
    replace (l + T - l) with T by ring. replace (l + / T - l) with (/ T) by ring. rewrite Rinv_inv. ring.
Qed.

Theorem invgamma_int_box_normalised (ps : list (nat * R * R)) : List.Forall (fun p => 0 < snd p) ps ->
  is_lim (fun T => rprod (map (invgamma_mass1 T) ps)) p_infty 1.
Proof.
  intros Hpos. apply (is_lim_rprod_1 (fun (p : nat * R * R) T => invgamma_mass1 T p) ps).
  intros p Hp. rewrite Forall_forall in Hpos. pose proof (Hpos p Hp) as Hs. unfold invgamma_mass1.
  evar_last.
  - apply is_lim_minus'; [apply gamma_int_normalised; exact Hs|].
    apply (is_lim_comp (gamma_int_cdf1 (fst (fst p)) (snd p)) (fun T => / T) p_infty 0 0); [apply gamma_int_cdf_lim_0 | |].
    + evar_last; [apply (is_lim_inv (fun T => T) p_infty p_infty); [apply is_lim_id | discriminate] | reflexivity].
    + exists 1. intros T HT E. injection E as E. assert (0 < / T) by (apply Rinv_0_lt_compat; lra). lra.
  - cbn. f_equal. lra.
Qed.
