"""C07 -- a linear model's adjoint is the transpose of its forward map.

Correspondence: cuqi.model.LinearModel (forward / adjoint / get_matrix / T) under every geometry class, and the
forward models of the shipped linear test problems (Deconvolution1D, Deconvolution2D, Abel1D), against
Model/C07_Adj.v.  EXACT on integer data where only ring operations occur, 1e-9 otherwise (KL expansions, FFT
convolution, float PSFs).  Independent oracle: the inner-product identity, get_matrix vs forward column by column,
T vs adjoint/forward -- computed from the implementation's own outputs in Fractions."""
import itertools, warnings, copy
from fractions import Fraction
import numpy as np
from common import *

IMPORTS = ("From CV Require Import Base.Cmp Base.QcLin Model.C07_Adj Model.C07_Input.\n"
           "From Coq Require Import QArith Qcanon.")
RULE = ("configuration lattice: backing (dense/csc/csr matrix, allocating function pair, function pair returning views / its argument / its argument modified in place / lists) x domain geometry x range geometry "
        "(int, Continuous1D, Discrete, Image2D visual_only | Image2D C/F, 2-tuple, Continuous2D | StepExpansion(mean) | "
        "KLExpansion | MappedGeometry(scaling)) x operation (forward+adjoint, get_matrix, T.forward/T.adjoint/T.get_matrix/T.T, "
        "T after get_matrix); test problems Deconvolution1D (5 BC x gauss/moffat/defocus/custom integer PSFs x PSF size parity, "
        "legacy), Deconvolution2D (5 BC x PSFs x parity), Abel1D (field types). distinct = distinct (configuration, matrix, x, y); "
        "input forms: 23 backings x (forward, adjoint, T.forward, T.adjoint, @) x (ndarray, CUQIarray, Samples, 2-d batch; parameters or function values) with dtype (float64, float32, int64, int32, bool) x layout "
        "(contiguous, strided / Fortran) inside each case; Deconvolution2D neumann / nearest with mirror-symmetric odd PSFs at dim 1, 2, 3, 5 (the proved positive classes). "
        "trivial = identity matrix with identity-like geometries, zero x or y, and the bookkeeping cases that carry an oracle verdict")

TOL = Fraction(1, 10**9)

# signatures of defect classes the faithful model reproduces (a disagreement of the model inside such a class is
# NOT explained by the class's known failure: it stays an unexplained disagreement)
MODEL_EXPECTED = ("LinearModel.adjoint|nonorthogonal-geometry:", "LinearModel.get_matrix|stored-matrix+nonidentity-geometry",
                  "LinearModel.T|double-conversion:", "_proj_backward_2D|", "Deconvolution1D.__init__|transposed-assembly",
                  "LinearModel.get_matrix|nonlinear-projection:", "LinearModel.get_matrix|stale-cache:")


# ------------------------------------------------------------------------------------------------
# encoders
# ------------------------------------------------------------------------------------------------
def fr(v):
    return [frac(a) for a in np.asarray(v, dtype=float).ravel()]


def enc_vec(v):
    f = [frac(a) for a in v]
    if all(a.denominator == 1 for a in f):
        return "(zv %s)" % czvec([a.numerator for a in f])
    return "(qvec %s)" % cqvec(f)


def enc_mat(m):
    rows = [[frac(a) for a in r] for r in m]
    if all(a.denominator == 1 for r in rows for a in r):
        return "(zm %s)" % czmat([[a.numerator for a in r] for r in rows])
    return "(qmat %s)" % cqmat(rows)


def enc_q(x):
    f = frac(x)
    return "(qc %s)" % cq(f)


def enc_opt(x, enc):
    return "None" if x is None else "(Some %s)" % enc(x)


def ctol(exact):
    return "0%Q" if exact else "tol9"


# ------------------------------------------------------------------------------------------------
# geometries: spec (json-able list) -> implementation object + Coq term + facts
# ------------------------------------------------------------------------------------------------
class G:
    def __init__(self, spec, obj, coq, family, par_dim, fun_dim, fun_shape, exact, orth, ident, idem):
        self.spec, self.obj, self.coq, self.family = spec, obj, coq, family
        self.par_dim, self.fun_dim, self.fun_shape = par_dim, fun_dim, fun_shape
        self.exact = exact      # maps use ring operations only on the generated data
        self.orth = orth        # fun2par is the transpose of par2fun
        self.ident = ident      # par2fun = fun2par = identity (function value = parameter vector)
        self.idem = idem        # conversions are idempotent on their own output
        self.idtype = spec[0] in ("int", "cont1d", "discrete", "image_visual", "image", "tuple", "cont2d")   # type in _get_identity_geometries()
        self.userg = None       # Fraction c: a user geometry c.x that brings its own gradient method g |-> c.g
        self.idmap = ident      # par2fun and fun2par act as the identity on vectors (also: one-node steps, scaling by 1): stored matrix = parameter map


def mk_geom(spec, obj=None):
    """obj: use this geometry object of the implementation (test problems build their own) instead of constructing one"""
    import cuqi
    from cuqi import geometry as cg
    k = spec[0]
    if k == "int":
        n = spec[1]
        return G(spec, n, "(GId %s)" % cnat(n), "_DefaultGeometry1D", n, n, (n,), True, True, True, True)
    if k == "sub1d":        # a user subclass of Continuous1D with nothing overridden: identity maps, but NOT of identity TYPE
        n = spec[1]

        class _MyContinuous1D(cg.Continuous1D):
            pass
        return G(spec, _MyContinuous1D(n), "(GId %s)" % cnat(n), "Continuous1D-subclass", n, n, (n,), True, True, True, True)
    if k == "subimage":     # a user subclass of Image2D
        r, c, o = spec[1], spec[2], spec[3]

        class _MyImage2D(cg.Image2D):
            pass
        return G(spec, _MyImage2D((r, c), order=o), "(GImage %s %s %s)" % (cnat(r), cnat(c), "OC" if o == "C" else "OF"), "Image2D-subclass", r * c, r * c, (r, c), True, True, False, True)
    if k == "cont1d":
        n = spec[1]
        return G(spec, cg.Continuous1D(n), "(GId %s)" % cnat(n), "Continuous1D", n, n, (n,), True, True, True, True)
    if k == "discrete":
        n = spec[1]
        return G(spec, cg.Discrete(n), "(GId %s)" % cnat(n), "Discrete", n, n, (n,), True, True, True, True)
    if k == "image_visual":
        r, c = spec[1], spec[2]
        return G(spec, cg.Image2D((r, c), visual_only=True), "(GId %s)" % cnat(r * c), "Image2D(visual_only)", r * c, r * c, (r * c,),
                 True, True, True, True)
    if k == "image":
        r, c, o = spec[1], spec[2], spec[3]
        return G(spec, cg.Image2D((r, c), order=o), "(GImage %s %s %s)" % (cnat(r), cnat(c), "OC" if o == "C" else "OF"),
                 "Image2D(%s)" % o, r * c, r * c, (r, c), True, True, False, True)
    if k == "tuple":
        r, c = spec[1], spec[2]
        return G(spec, (r, c), "(GImage %s %s OC)" % (cnat(r), cnat(c)), "_DefaultGeometry2D", r * c, r * c, (r, c), True, True, False, True)
    if k == "cont2d":
        r, c = spec[1], spec[2]
        return G(spec, cg.Continuous2D((r, c)), "(GImage %s %s OC)" % (cnat(r), cnat(c)), "Continuous2D", r * c, r * c, (r, c),
                 True, True, False, True)
    if k == "step":
        N, ns = spec[1], spec[2]
        proj = spec[3] if len(spec) > 3 else "mean"
        g = obj if obj is not None else cg.StepExpansion(np.arange(N), n_steps=ns, fun2par_projection=proj)
        idx = [list(int(i) for i in a) for a in g._indices]
        flat = [i for a in idx for i in a]
        if flat != list(range(N)) or any(len(a) == 0 for a in idx):
            raise ValueError("StepExpansion(%d,%d): steps are not consecutive non-empty blocks (C13 territory): %s" % (N, ns, idx))
        cnt = [len(a) for a in idx]
        pow2 = all(c & (c - 1) == 0 for c in cnt)
        allone = all(c == 1 for c in cnt)
        if proj != "mean":        # max / min: exact on any data, linear only over one-node steps
            gg = G(spec, g, "(GStepX %s %s)" % (cbool(proj == "max"), clist([cnat(c) for c in cnt])), "StepExpansion", ns, N, (N,), True, allone, False, allone)
            gg.nonlinear = not allone
            gg.idmap = allone
            return gg
        gg = G(spec, g, "(GStep %s)" % clist([cnat(c) for c in cnt]), "StepExpansion", ns, N, (N,), pow2, allone, False, allone)
        gg.idmap = allone
        return gg
    if k == "kl":
        N, nm, decay, norm = spec[1], spec[2], spec[3], spec[4]
        g = obj if obj is not None else cg.KLExpansion(np.arange(N), decay_rate=decay, normalizer=norm, num_modes=nm)
        # nothing is read back from the geometry object: the expansion is written out in the model from the matrices of
        # scipy.fftpack.dst / idst (type 2; external numerics), the coefficients 1/k^decay and the normalizer
        from scipy.fftpack import dst, idst
        m = N if (nm is None or nm > N) else nm
        dstM, idstM = dst(np.eye(N), axis=0), idst(np.eye(N), axis=0)
        coefs = [1.0 / float(np.float_power(kk, decay)) for kk in range(1, m + 1)]
        coq = "(kl_geom %s %s %s %s %s %s)" % (cnat(N), cnat(m), enc_vec(coefs), enc_q(frac(float(norm))), enc_mat(dstM), enc_mat(idstM))
        return G(spec, g, coq, "KLExpansion", m, N, (N,), False, False, False, False)
    if k == "mapped_grad":      # a user-defined mapped geometry that implements `gradient` (transposed Jacobian of c.x)
        num, den, inner = spec[1], spec[2], mk_geom(spec[3])
        c = num / den
        obj = cg.Continuous1D(inner.obj) if isinstance(inner.obj, int) else inner.obj

        class _ScaledWithGradient(cg.MappedGeometry):
            def gradient(self, direction, wrt):
                return c * direction
        g = _ScaledWithGradient(obj, map=lambda x, c=c: c * x, imap=lambda x, c=c: x / c)
        coq = "(GScale %s %s %s)" % (enc_q(Fraction(num, den)), enc_q(Fraction(den, num)), inner.coq)
        gg = G(spec, g, coq, "MappedGeometry", inner.par_dim, inner.fun_dim, inner.fun_shape, inner.exact, inner.orth and abs(num) == abs(den), False,
               inner.idem and num == den)
        gg.userg = Fraction(num, den)
        return gg
    if k == "mapped":
        num, den, inner = spec[1], spec[2], mk_geom(spec[3])
        c = num / den
        obj = inner.obj
        if isinstance(obj, int):
            obj = cg.Continuous1D(obj)
        elif isinstance(obj, tuple):
            obj = cg.Image2D(obj)
        g = cg.MappedGeometry(obj, map=lambda x, c=c: c * x, imap=lambda x, c=c: x / c)
        coq = "(GScale %s %s %s)" % (enc_q(Fraction(num, den)), enc_q(Fraction(den, num)), inner.coq)
        unit = abs(num) == abs(den)
        gg = G(spec, g, coq, "MappedGeometry", inner.par_dim, inner.fun_dim, inner.fun_shape, inner.exact,
               inner.orth and unit, False, inner.idem and num == den)
        gg.idmap = inner.idmap and num == den
        return gg
    raise ValueError("unknown geometry spec %r" % (spec,))


# ------------------------------------------------------------------------------------------------
# models: meta -> implementation object + Coq term
# ------------------------------------------------------------------------------------------------
BC1 = {"zero": ("constant", "BConstant"), "periodic": ("wrap", "BWrap"), "nearest": ("nearest", "BEdge"),
       "reflect": ("reflect", "BSymmetric"), "mirror": ("mirror", "BReflect")}
BC2 = {"zero": ("constant", "BConstant"), "periodic": ("wrap", "BWrap"), "nearest": ("edge", "BEdge"),
       "neumann": ("symmetric", "BSymmetric"), "mirror": ("reflect", "BReflect")}


class M:
    """a LinearModel instance together with its Coq counterpart"""
    def __init__(self, obj, coq, D, R, backing, exact, ncols_T, nrows_T, info=None):
        # ncols_T / nrows_T: shape of the matrix that `_matrix` holds (or will hold after get_matrix)
        self.obj, self.coq, self.D, self.R, self.backing, self.exact, self.ncols_T, self.nrows_T = obj, coq, D, R, backing, exact, ncols_T, nrows_T
        self.info = info or {}


def build_testproblem(spec):
    import cuqi
    from cuqi.testproblem import Deconvolution1D, Deconvolution2D, Abel1D
    kind = spec["tp"]
    with warnings.catch_warnings():
        warnings.simplefilter("ignore")
        if kind == "deconv1d":
            psf = np.array(spec["PSF"], dtype=(np.int64 if spec.get("psf_dtype") == "int" else float)) if isinstance(spec["PSF"], list) else spec["PSF"]
            kw = dict(dim=spec["dim"], PSF=psf, BC=spec["BC"], phantom=np.arange(spec["dim"], dtype=float), use_legacy=spec.get("legacy", False))
            if spec.get("PSF_param") is not None:
                kw["PSF_param"] = spec["PSF_param"]
            if spec.get("PSF_size") is not None:
                kw["PSF_size"] = spec["PSF_size"]
            return Deconvolution1D(**kw)
        if kind == "deconv2d":
            psf = np.array(spec["PSF"], dtype=(np.int64 if spec.get("psf_dtype") == "int" else float)) if isinstance(spec["PSF"], list) else spec["PSF"]
            kw = dict(dim=spec["dim"], PSF=psf, BC=spec["BC"], phantom=np.ones((spec["dim"], spec["dim"])))
            if not isinstance(spec["PSF"], list):
                kw["PSF_size"] = spec["PSF_size"]
                kw["PSF_param"] = spec["PSF_param"]
            return Deconvolution2D(**kw)
        if kind == "abel":
            kw = dict(dim=spec["dim"])
            ft = spec.get("field_type")
            if ft == "Discrete":
                kw["field_type"] = cuqi.geometry.Discrete(spec["dim"])
            elif ft is not None:
                kw["field_type"] = ft
                kw["field_params"] = spec.get("field_params") or {}
            if spec.get("KL_map"):
                c = spec["KL_map"]
                kw["KL_map"] = lambda x, c=c: c * x
                kw["KL_imap"] = lambda x, c=c: x / c
            return Abel1D(**kw)
    raise ValueError(kind)


def psf_used_1d(spec):
    """the PSF Deconvolution1D convolves with (the shipped PSF generators are called, not re-derived: their shapes are C17's)"""
    from cuqi.testproblem import _testproblem as tpm
    if isinstance(spec["PSF"], list):
        return np.array(spec["PSF"], dtype=float)
    size = spec.get("PSF_size") or spec["dim"]
    f = {"gauss": tpm._GaussPSF_1D, "moffat": tpm._MoffatPSF_1D, "defocus": tpm._DefocusPSF_1D}[spec["PSF"].lower()]
    return f(size, spec.get("PSF_param"))[0]


def impl_pair(kind, n, par=None):
    """Function pairs on R^n that do NOT allocate their result: they return a view of their argument, the argument object
    itself, or the argument modified in place (plus allocating / list-returning controls).
    Returns (forward, adjoint, defining matrix A of shape (m, n), mutates_input)."""
    I = np.eye(n)
    if kind == "identity":                      # the very object
        return (lambda x: x), (lambda y: y), I, False
    if kind == "identity_view":                 # a new array object on the same memory
        return (lambda x: x[:]), (lambda y: y[:]), I, False
    if kind == "ravel":
        return (lambda x: x.ravel()), (lambda y: y.reshape(-1)), I, False
    if kind in ("decimate", "decimate_list", "decimate_tuple", "upsample"):
        s_ = int(par)
        A = I[::s_, :]
        if kind == "decimate_list":
            dec = lambda x: list(x[::s_])
        elif kind == "decimate_tuple":
            dec = lambda x: tuple(x[::s_])
        else:
            dec = lambda x: x[::s_]                # strided view
        def pad(y):
            z = np.zeros(n); z[::s_] = y; return z
        if kind == "upsample":                  # the transposed pair: the ADJOINT returns the view
            return pad, dec, A.T.copy(), False
        if kind == "decimate_list":
            return dec, (lambda y: list(pad(y))), A, False
        if kind == "decimate_tuple":
            return dec, (lambda y: tuple(pad(y))), A, False
        return dec, pad, A, False
    if kind in ("window", "embed"):
        a, b = int(par[0]), int(par[1])
        A = I[a:b, :]
        win = lambda x: x[a:b]                     # contiguous view
        def emb(y):
            z = np.zeros(n); z[a:b] = y; return z
        return (win, emb, A, False) if kind == "window" else (emb, win, A.T.copy(), False)
    if kind == "flip":
        return (lambda x: x[::-1]), (lambda y: y[::-1]), I[::-1, :].copy(), False
    if kind == "perm":                          # allocating control (fancy indexing copies)
        idx = [int(i) for i in par]
        def unperm(y):
            z = np.zeros(n); z[idx] = y; return z
        return (lambda x: x[idx]), unperm, I[idx, :], False
    if kind == "workbuffer":                    # fills and returns the SAME array object at every call (a pre-allocated work buffer)
        Mw = np.array(par, dtype=float)
        bufF, bufA = np.zeros(Mw.shape[0]), np.zeros(Mw.shape[1])
        def fw(x):
            bufF[:] = Mw @ x
            return bufF
        def aw(y):
            bufA[:] = Mw.T @ y
            return bufA
        return fw, aw, Mw, "outputs-alias"
    if kind == "matmul":                        # the plain pair x |-> M @ x, y |-> M.T @ y: broadcasts over 2-d batches of columns
        Mm = np.array(par, dtype=float)
        return (lambda x: Mm @ x), (lambda y: Mm.T @ y), Mm, False
    if kind == "inplace_scale":                 # modifies its argument and returns it
        c = float(par)
        def f(x):
            x *= c
            return x
        return f, f, c * I, True
    raise ValueError(kind)


def out_layout(kind):
    """how the user callable hands its result back: the same VALUES in another memory layout / container / dtype"""
    if kind is None:
        return lambda a: a
    if kind == "fortran":            # what LAPACK-backed routines and transposed products return
        return lambda a: np.asfortranarray(a)
    if kind == "transposed-view":    # (B.T) of a C-contiguous array: a view with swapped strides
        return lambda a: np.ascontiguousarray(a.T).T if a.ndim == 2 else a[::-1].copy()[::-1]
    if kind == "strided":            # a non-contiguous window of a larger buffer
        def f(a):
            big = np.zeros(tuple(2 * d for d in a.shape))
            big[tuple(slice(None, None, 2) for _ in a.shape)] = a
            return big[tuple(slice(None, None, 2) for _ in a.shape)]
        return f
    if kind == "float32":
        return lambda a: a.astype(np.float32)
    if kind == "matrix":             # a CUQIarray-free ndarray subclass? keep to plain containers: nested list
        return lambda a: a.tolist()
    raise ValueError(kind)


def psf2d_documented(name, size, param):
    """The shipped 2-d PSFs from their documentation, written independently of the library: a size x size array sampled on the integer grid
    whose origin is the pixel with index size//2 (Gauss: exp(-(x^2+y^2)/(2 s^2)); Moffat (beta = 1): 1/(1+(x^2+y^2)/s^2); Defocus: the disc
    x^2+y^2 <= R^2), normalised to sum 1.  For odd sizes these arrays are symmetric under both mirror flips."""
    import math
    c = size // 2
    P = [[0.0] * size for _ in range(size)]
    for i in range(size):
        for j in range(size):
            y, x = i - c, j - c
            if name == "gauss":
                P[i][j] = math.exp(-0.5 * ((x * x) / (param * param) + (y * y) / (param * param)))
            elif name == "moffat":
                P[i][j] = 1.0 / (1.0 + (x * x) / (param * param) + (y * y) / (param * param))
            elif name == "defocus":
                P[i][j] = (1.0 if (x * x + y * y) <= param * param else 0.0) if param != 0 else (1.0 if (x == 0 and y == 0) else 0.0)
            else:
                raise ValueError(name)
    tot = sum(sum(r) for r in P)
    return np.array([[v / tot for v in r] for r in P])


def mirror_symmetric(P):
    P = np.asarray(P, dtype=float)
    return bool(P.shape[0] == P.shape[1] and np.allclose(P, P[::-1, :], rtol=1e-13, atol=0) and np.allclose(P, P[:, ::-1], rtol=1e-13, atol=0))


def build_model(meta):
    """meta['model'] describes the model; returns M"""
    from cuqi.model import LinearModel
    import scipy.sparse as sp
    ms = meta["model"]
    if "tp" in ms:
        tp = build_testproblem(ms)
        mod = tp.model
        if ms["tp"] == "deconv2d":
            # a custom PSF is taken from the case description; only the arrays of the named generators (C17) come from the object
            # ... and the named PSFs are recomputed here from their documentation: nothing about the operator is read back from the problem
            P = np.asarray(ms["PSF"], dtype=float) if isinstance(ms["PSF"], list) else psf2d_documented(ms["PSF"].lower(), ms["PSF_size"], ms["PSF_param"])
            S, n = max(P.shape), ms["dim"]
            bcn = BC2[ms["BC"].lower()]
            coq = "(deconv2_model %s %s %s %s)" % (bcn[1], cnat(S), cnat(n), enc_mat(P))
            D = mk_geom(["image", n, n, "C"])
            return M(mod, coq, D, D, "testproblem", False, n * n, n * n, {"P": P, "pad": bcn[0], "S": S, "tp": tp, "msym": mirror_symmetric(P)})
        A = mod._matrix
        A = np.asarray(A.todense()) if sp.issparse(A) else np.asarray(A)
        n = ms["dim"]
        R = mk_geom(["cont1d", n])
        if ms["tp"] == "abel":
            ft = ms.get("field_type")
            gobj = mod.domain_geometry.geometry if ms.get("KL_map") else mod.domain_geometry
            if ft == "Step":
                D = mk_geom(["step", n, (ms.get("field_params") or {}).get("n_steps", 3)], obj=gobj)
            elif ft == "KL":
                fp = ms.get("field_params") or {}
                D = mk_geom(["kl", n, fp.get("num_modes"), fp.get("decay_rate", 2.5), fp.get("normalizer", 12.0)], obj=gobj)
            elif ft == "Discrete":
                D = mk_geom(["discrete", n])
            else:
                D = mk_geom(["cont1d", n])
            if ms.get("KL_map"):
                c = Fraction(ms["KL_map"])
                inner = D
                D = G(["mapped"], mod.domain_geometry, "(GScale %s %s %s)" % (enc_q(c), enc_q(1 / c), inner.coq), "MappedGeometry",
                      inner.par_dim, inner.fun_dim, inner.fun_shape, inner.exact, False, False, False)
        else:
            D = mk_geom(["cont1d", n])
        coq = "(mat_model %s %s %s %s)" % (cnat(A.shape[1]), enc_mat(A), D.coq, R.coq)
        if ms["tp"] == "deconv1d" and isinstance(ms["PSF"], list) and not ms.get("legacy"):
            # the matrix is COMPUTED by the model from the PSF and the boundary mode (column assembly of convolve1d), not read from the object
            coq = "(mat_model %s (deconv1_matrix false %s %s %s) %s %s)" % (cnat(n), BC1[ms["BC"].lower()][1], enc_vec(list(ms["PSF"])), cnat(n), D.coq, R.coq)
        # integer PSFs through convolve1d / toeplitz and identity geometries: ring operations on small integers only -> compared exactly
        ex = bool(D.exact and D.ident and np.all(np.isfinite(A)) and np.all(A == np.round(A)) and np.max(np.abs(A)) < 2 ** 20)
        return M(mod, coq, D, R, "testproblem", ex, A.shape[1], A.shape[0], {"A": A, "tp": tp})
    D, R = mk_geom(ms["D"]), mk_geom(ms["R"])
    A = np.array(ms["A"], dtype=float) * 2.0 ** ms.get("scale", 0)      # dyadic magnitude sweep: still exact
    backing = ms["backing"]
    exact = D.exact and R.exact
    if backing in ("dense", "csc", "csr", "coo", "lil", "dia", "bsr", "dok", "fortran", "intdtype"):
        Aobj = {"dense": lambda a: a, "csc": sp.csc_matrix, "csr": sp.csr_matrix, "coo": sp.coo_matrix, "lil": sp.lil_matrix, "dia": sp.dia_matrix,
                "bsr": sp.bsr_matrix, "dok": sp.dok_matrix, "fortran": np.asfortranarray, "intdtype": lambda a: a.astype(np.int64)}[backing](A)
        if ms.get("mat_dtype"):                 # the same numbers stored with another dtype (int32 / int64 / float32 / bool)
            Ac = A.astype(np.dtype(ms["mat_dtype"]))
            if not np.array_equal(Ac.astype(float), A):
                raise ValueError("matrix is not representable in dtype %s" % ms["mat_dtype"])
            Aobj = Ac if backing == "dense" else {"csc": sp.csc_matrix, "csr": sp.csr_matrix}[backing](Ac)
        kw = {}
        if not ms.get("infer_geom"):
            kw = dict(range_geometry=R.obj, domain_geometry=D.obj)
        mod = LinearModel(Aobj, **kw)
        coq = "(mat_model %s %s %s %s)" % (cnat(A.shape[1]), enc_mat(A), D.coq, R.coq)
        return M(mod, coq, D, R, backing, exact, A.shape[1], A.shape[0])
    if backing == "function" and ms.get("impl"):
        fwd, adj, A2, mutates = impl_pair(ms["impl"], ms["n"], ms.get("par"))
        if A2.shape != A.shape or not np.array_equal(A2, A):
            raise ValueError("defining matrix of %s does not match the stored one" % (ms["impl"],))
        mod = LinearModel(fwd, adj, R.obj, D.obj)
        coq = "(fun_model %s %s %s %s)" % (cnat(A.shape[1]), enc_mat(A), D.coq, R.coq)
        return M(mod, coq, D, R, backing, exact, D.par_dim, R.par_dim, {"impl": ms["impl"], "mutates": mutates is True, "outputs_alias": mutates == "outputs-alias"})
    if backing == "function":
        shpD, shpR = D.fun_shape, R.fun_shape
        lay = out_layout(ms.get("out_layout"))
        fwd = lambda X, A=A, s=shpR: lay((A @ np.asarray(X).ravel()).reshape(s))
        adj = lambda Y, A=A, s=shpD: lay((A.T @ np.asarray(Y).ravel()).reshape(s))
        mod = LinearModel(fwd, adj, R.obj, D.obj)
        coq = "(fun_model %s %s %s %s)" % (cnat(A.shape[1]), enc_mat(A), D.coq, R.coq)
        return M(mod, coq, D, R, backing, exact, D.par_dim, R.par_dim)
    raise ValueError(backing)


# ------------------------------------------------------------------------------------------------
# driving the implementation
# ------------------------------------------------------------------------------------------------
class Alias:
    """Keeps every array handed to or returned by the implementation alive, with a snapshot of its value at call time, so that
    aliasing between inputs, outputs and internal buffers shows: changed() re-reads all of them after the later calls."""
    def __init__(self):
        self.kept = []

    @staticmethod
    def _val(raw):
        import scipy.sparse as sp
        return np.array(raw.todense() if sp.issparse(raw) else raw, dtype=float)

    def keep(self, label, raw, snap=None):
        try:
            self.kept.append((label, raw, self._val(raw) if snap is None else np.array(snap, dtype=float)))
        except Exception:
            pass

    def changed(self):
        for label, raw, snap in self.kept:
            try:
                cur = self._val(raw)
            except Exception:
                return "%s can no longer be read" % label
            if cur.shape != snap.shape or not np.array_equal(cur, snap):
                return "%s changed after the call that produced / received it: was %s, is now %s" % (label, snap.tolist(), cur.tolist())
        return None


def call_vec(f, v, al=None, label="", mutates=False, keep_out=True):
    """apply a forward/adjoint-like callable; returns list of floats, or None if it raises / returns a non-vector"""
    try:
        arr = np.array(v, dtype=float)
        with warnings.catch_warnings():
            warnings.simplefilter("ignore")
            raw = f(arr)
        if al is not None:
            if keep_out:
                al.keep("the result of %s" % label, raw)
            if not mutates:
                al.keep("the array passed to %s" % label, arr, snap=v)
        out = np.asarray(raw, dtype=float)
        if out.ndim != 1 or not np.all(np.isfinite(out)):
            return "non-vector output of shape %s" % (out.shape,)
        return [float(a) for a in out]
    except Exception:
        return None


def call_mat(f, al=None, label=""):
    import scipy.sparse as sp
    try:
        with warnings.catch_warnings():
            warnings.simplefilter("ignore")
            raw = f()
        if al is not None:
            al.keep("the matrix returned by %s" % label, raw)
        A = np.asarray(raw.todense()) if sp.issparse(raw) else np.asarray(raw, dtype=float)
        if A.ndim != 2:
            return None
        return [[float(a) for a in r] for r in A]
    except Exception:
        return None


def ip(a, b):
    return sum(frac(u) * frac(v) for u, v in zip(a, b))


def same(a, b, exact):
    """a, b: Fractions"""
    if exact:
        return a == b
    return abs(a - b) <= TOL * (1 + abs(a) + abs(b))


def same_vec(a, b, exact):
    return isinstance(a, list) and isinstance(b, list) and len(a) == len(b) and all(same(frac(u), frac(v), exact) for u, v in zip(a, b))


def same_mat(a, b, exact):
    return a is not None and b is not None and len(a) == len(b) and all(same_vec(u, v, exact) for u, v in zip(a, b))


def matvec(A, x):
    return [sum(frac(a) * frac(b) for a, b in zip(r, x)) for r in A]


def transpose(A, ncols=None):
    if not A:
        return [[] for _ in range(ncols or 0)]
    return [list(c) for c in zip(*A)]


def nonorth_family(m):
    for g in (m.D, m.R):
        if not g.orth:
            return g.family
    return None


def nonidem_family(m):
    for g in (m.D, m.R):
        if not g.idem:
            return g.family
    return None


def adj_signature(m, meta):
    ms = meta["model"]
    if ms.get("tp") == "deconv2d":
        pad, S, msym = m.info["pad"], m.info["S"], m.info["msym"]      # msym: of the PSF the problem was ASKED for, not of the one it holds
        # half-sample symmetric extension with a PSF that is symmetric under both mirror flips gives a symmetric operator (= its flipped-PSF
        # twin): the identity holds there; replicate padding of width 1 is the same extension
        if pad == "symmetric" and S % 2 == 1 and msym:
            return "_proj_backward_2D|pad:symmetric,mirror-symmetric-odd-PSF"
        if pad == "edge" and S in (1, 3) and msym:
            return "_proj_backward_2D|pad:edge,mirror-symmetric-3x3-PSF"
        if pad in ("symmetric", "edge", "reflect"):
            return "_proj_backward_2D|pad:" + pad
        if m.info["S"] % 2 == 0:
            return "_proj_backward_2D|even-PSF"
        return "_proj_backward_2D|pad:%s,odd-PSF" % pad
    fam = nonorth_family(m)
    if fam:
        return "LinearModel.adjoint|nonorthogonal-geometry:" + fam
    return "LinearModel.adjoint|%s->%s,%s" % (m.D.family, m.R.family, m.backing)


def observe(m, meta):
    """run every operation of the property on the implementation; returns dict of observations"""
    x, y = meta["x"], meta["y"]
    mod = m.obj
    o = {}
    op = meta["op"]
    al = Alias()
    mut = bool(m.info.get("mutates"))
    # state of get_matrix: today the stored matrix is returned as it is; after fixes/C07_get_matrix_parameter_map.diff only where it is
    # the map between parameters (identity geometries) or was assembled from forward
    o["gm_fixed"] = hasattr(mod, "_par_matrix")
    o["as_is"] = (not o["gm_fixed"]) or m.backing == "function" or meta["model"].get("tp") == "deconv2d" or (m.D.ident and m.R.ident)
    cv = lambda f, v, label: call_vec(f, v, al, label, mut, not m.info.get("outputs_alias"))
    if op == "fa":
        o["fx"] = cv(mod.forward, x, "forward(x)")
        o["ay"] = cv(mod.adjoint, y, "adjoint(y)")
        if not mut:
            o["styles"] = observe_styles(mod, x, y)
            o["reuse"] = observe_reuse(m, mod, x, y)
    elif op == "gm":
        o["G"] = call_mat(mod.get_matrix, al, "get_matrix()")
        o["fx"] = cv(mod.forward, x, "forward(x)")
        o["cols"] = [cv(mod.forward, [1.0 if i == j else 0.0 for i in range(m.D.par_dim)], "forward(e_%d)" % j) for j in range(m.D.par_dim)]
        o["G2"] = call_mat(mod.get_matrix, al, "the second get_matrix()")       # cached second call
        # a second instance: model(distribution) is a shallow copy whose input is renamed after the distribution -- named like attributes /
        # arguments of the model on purpose; it is used (and its geometry re-assigned) while the original is alive and evaluated afterwards
        try:
            import cuqi
            nm = ["y", "wrt", "direction", "geometry", "forward", "x"][len(x) % 6]
            m2 = mod(cuqi.distribution.Gaussian(np.zeros(m.D.par_dim), 1, name=nm))
            o["copy_name"] = nm
            o["copy_fx"] = call_vec(lambda a: m2.forward(**{nm: a}), x, al, "copy.forward(%s=x)" % nm, mut, not m.info.get("outputs_alias"))
            o["copy_G"] = call_mat(m2.get_matrix, al, "copy.get_matrix()")
            m2.domain_geometry = cuqi.geometry.Discrete(["z%d" % i for i in range(m.D.par_dim)])     # the COPY's geometry: must not reach the original
            m2._matrix = None
        except Exception as e:
            o["copy_fx"], o["copy_G"], o["copy_name"] = "raised " + type(e).__name__, None, None
    elif op in ("T", "T_after_gm"):
        if op == "T_after_gm":
            call_mat(mod.get_matrix, al, "get_matrix() before T")
        try:
            T = mod.T
        except Exception:
            T = None
        o["T_ok"] = T is not None
        # which callables T is built from: the bound methods adjoint/forward (conversions then applied twice) or the
        # underlying _adjoint_func/_forward_func (fixes/C07_transpose_underlying_callables.diff)
        o["T_underlying"] = bool(T is not None and getattr(T, "_forward_func", None) is getattr(mod, "_adjoint_func", 0)
                                 and getattr(T, "_adjoint_func", None) is getattr(mod, "_forward_func", 0))
        o["fx"] = cv(mod.forward, x, "forward(x)")
        o["ay"] = cv(mod.adjoint, y, "adjoint(y)")
        if T is not None:
            o["Tf"] = cv(T.forward, y, "T.forward(y)")
            o["Ta"] = cv(T.adjoint, x, "T.adjoint(x)")
            if m.D.idtype and m.R.idtype:
                o["Tg"] = call_vec(lambda a: T.gradient(a, np.zeros(m.R.par_dim)), x, al, "T.gradient(x, wrt)", mut, not m.info.get("outputs_alias"))
            o["TG"] = call_mat(T.get_matrix, al, "T.get_matrix()")
            o["G"] = call_mat(mod.get_matrix, al, "get_matrix() after T")
            o["geoms_swapped"] = (T.domain_geometry is mod.range_geometry) and (T.range_geometry is mod.domain_geometry)
            try:
                TT = T.T
                o["TTf"] = cv(TT.forward, x, "T.T.forward(x)")
            except Exception:
                o["TTf"] = None
    # the same calls once more after everything else, and everything kept alive read again
    o["fx_end"] = cv(mod.forward, x, "the last forward(x)")
    o["ay_end"] = cv(mod.adjoint, y, "the last adjoint(y)")
    o["alias"] = al.changed()
    return o


def observe_grad(m, meta):
    """gradient(direction, wrt) of the LinearModel for two different wrt, direction as ndarray / CUQIarray / function values"""
    from cuqi.array import CUQIarray
    mod = m.obj
    d, x, x2 = meta["y"], meta["x"], meta["x2"]
    o = {}

    def call(f):
        try:
            with warnings.catch_warnings():
                warnings.simplefilter("ignore")
                out = f()
            a = np.asarray(out, dtype=float)
            return {"val": [float(t) for t in a] if a.ndim == 1 else "shape %s" % (a.shape,), "wrap": type(out).__name__}
        except Exception as e:
            return {"val": None, "wrap": "raised " + type(e).__name__}
    arr = lambda v: np.array(v, dtype=float)
    o["g"] = call(lambda: mod.gradient(arr(d), arr(x)))
    o["g_wrt2"] = call(lambda: mod.gradient(arr(d), arr(x2)))
    o["g_kw"] = call(lambda: mod.gradient(direction=arr(d), wrt=arr(x), is_direction_par=True, is_wrt_par=True))
    o["g_cuqi"] = call(lambda: mod.gradient(CUQIarray(arr(d), is_par=True, geometry=mod.range_geometry), arr(x)))
    with warnings.catch_warnings():
        warnings.simplefilter("ignore")
        fd = np.asarray(mod.range_geometry.par2fun(arr(d)))
    o["d_fun"] = [float(a) for a in fd.ravel()]
    o["g_fun"] = call(lambda: mod.gradient(fd.copy(), arr(x), is_direction_par=False))
    o["ay"] = call_vec(mod.adjoint, d)
    o["fx"] = call_vec(mod.forward, x)
    # ... and again after the object has been used: forward, adjoint, get_matrix, T, a gradient call that is refused for another reason
    call_mat(mod.get_matrix)
    try:
        mod.T.forward(arr(d))
    except Exception:
        pass
    call(lambda: mod.gradient(Samples_of(arr(d)), arr(x)))          # Samples are refused by gradient: a refused call in the history
    o["g_later"] = call(lambda: mod.gradient(arr(d), arr(x)))
    # the range geometry re-assigned to a one-node step expansion (not of identity type): must be refused from now on, and accepted again after
    # the original geometry is put back
    if m.R.idtype and len(m.R.fun_shape) == 1:
        import cuqi
        old_geom = mod.range_geometry
        k = m.R.par_dim
        mod.range_geometry = cuqi.geometry.StepExpansion(np.arange(k) if k > 1 else np.array([0.0, 1.0])[:1], n_steps=k) if k > 1 else old_geom
        o["g_reassigned"] = call(lambda: mod.gradient(arr(d), arr(x))) if k > 1 else None
        mod.range_geometry = old_geom
        o["g_restored"] = call(lambda: mod.gradient(arr(d), arr(x)))
    return o


def Samples_of(v):
    from cuqi.samples import Samples
    return Samples(np.column_stack([v, v]))


def grad_oracle(m, meta, o):
    ex = m.exact
    d, x = meta["y"], meta["x"]
    g = o["g"]["val"]
    sig = "LinearModel.gradient|%s->%s,%s" % (m.D.family + ("+gradient" if m.D.userg else ""), m.R.family, m.backing)
    for key, what in (("g_later", "after forward/adjoint/get_matrix/T/a refused call"), ("g_restored", "after the range geometry was re-assigned and put back")):
        if key in o and not ((o[key]["val"] is None and g is None) or same_vec(o[key]["val"], g, ex)):
            return ("gradient(direction, wrt) = %s on the fresh model but %s %s" % (g, o[key]["val"], what), sig + "|life-cycle")
    if o.get("g_reassigned") is not None and o["g_reassigned"]["val"] is not None:
        return ("gradient is refused for a StepExpansion range on a fresh model but returns %s after model.range_geometry was re-assigned to one" % (o["g_reassigned"]["val"],),
                sig + "|life-cycle")
    if g is None:
        return (None, "")            # refused: which configurations are refused is compared with the model (DECISION)
    if not isinstance(g, list):
        return ("gradient returns %s" % (g,), sig)
    for key, what in (("g_wrt2", "another wrt"), ("g_kw", "keyword arguments"), ("g_cuqi", "a CUQIarray direction"), ("g_fun", "the direction as function values")):
        if not same_vec(o[key]["val"], g, ex):
            return ("gradient(direction, wrt) = %s but with %s it is %s" % (g, what, o[key]["val"]), sig)
    if o["g_cuqi"]["wrap"] != "CUQIarray" or o["g"]["wrap"] == "CUQIarray":
        return ("gradient returns a %s for an ndarray direction and a %s for a CUQIarray direction" % (o["g"]["wrap"], o["g_cuqi"]["wrap"]), sig)
    if isinstance(o["fx"], list):
        a, b = ip(o["fx"], d), ip(x, g)
        if not same(a, b, ex):
            return ("<forward x, d> = %s but <x, gradient(d, wrt)> = %s: the gradient is not the transposed Jacobian (x=%s, d=%s, gradient=%s)"
                    % (float(a), float(b), x, d, g), sig)
    if m.D.idtype and m.R.idtype and not same_vec(o["ay"], g, ex):
        return ("gradient(d, wrt) = %s but adjoint(d) = %s" % (g, o["ay"]), sig)
    return (None, "")


def grad_coq_expr(m, meta, o):
    t = ctol(m.exact)
    ug = "None" if m.D.userg is None else "(Some %s)" % enc_q(m.D.userg)
    if any(isinstance(o[k]["val"], str) for k in ("g", "g_wrt2", "g_kw", "g_cuqi", "g_fun")):
        return "false"
    dv = "(V1 %s)" % enc_vec(meta["y"])
    if any(k in o and o[k] is not None and isinstance(o[k]["val"], str) for k in ("g_later", "g_restored", "g_reassigned")):
        return "false"
    parts = ["check_gradient %s %s false %s %s %s" % (t, ug, m.coq, dv, enc_opt(o[k]["val"], enc_vec)) for k in ("g", "g_wrt2", "g_kw", "g_cuqi", "g_later", "g_restored") if k in o]
    if o.get("g_reassigned") is not None:
        ones = clist([cnat(1)] * m.R.par_dim)
        parts.append("check_gradient %s %s false (let m0 := %s in mkLM (lm_fwd m0) (lm_adj m0) (lm_mat m0) (lm_D m0) (GStep %s)) %s %s"
                     % (t, ug, m.coq, ones, dv, enc_opt(o["g_reassigned"]["val"], enc_vec)))
    parts.append("check_gradient %s %s true %s (funval %s %s) %s" % (t, ug, m.coq, m.R.coq, enc_vec(o["d_fun"]), enc_opt(o["g_fun"]["val"], enc_vec)))
    return " && ".join(parts)


REPS = ["arr_par", "arr_fun", "arr_fun_F", "arr_fun_strided", "cuqi_par", "cuqi_fun", "cuqi_fun_F", "cuqi_par_eq", "cuqi_fun_eq", "cuqi_sub", "cuqi_other",
        "cuqi_par_int", "samples_par", "samples_fun", "samples_par_1", "samples_fun_1", "samples_sub"]
COQ_REP = {"arr_par": "RArrayPar", "arr_fun": "RArrayFun", "cuqi_par": "RCuqiPar", "cuqi_fun": "RCuqiFun", "cuqi_other": "RCuqiOther",
           "cuqi_par_eq": "RCuqiPar", "cuqi_fun_eq": "RCuqiFun",      # an equal geometry that is another object
           "arr_fun_F": "RArrayFun", "arr_fun_strided": "RArrayFun", "cuqi_fun_F": "RCuqiFun",   # function values in Fortran order / as a strided window
           "cuqi_sub": "RCuqiPar",                                    # an instance of a user subclass of CUQIarray
           "cuqi_par_int": "RCuqiPar", "samples_par": "RArrayPar", "samples_fun": "RArrayFun", "samples_par_1": "RArrayPar", "samples_fun_1": "RArrayFun", "samples_sub": "RArrayPar"}


def observe_reps(m, meta):
    """forward and adjoint on every representation of the same input: ndarray of parameters, ndarray of function values (is_par=False),
    CUQIarray of parameters / of function values with the model's geometry, CUQIarray with another geometry, Samples of either kind"""
    from cuqi.array import CUQIarray
    from cuqi.samples import Samples
    from cuqi.geometry import Discrete
    mod = m.obj
    o = {}
    for side, fn, gin, v, v2 in (("f", mod.forward, mod.domain_geometry, meta["x"], meta["x2"]), ("a", mod.adjoint, mod.range_geometry, meta["y"], meta["y2"])):
        with warnings.catch_warnings():
            warnings.simplefilter("ignore")
            fv, fv2 = np.asarray(gin.par2fun(np.array(v, dtype=float))), np.asarray(gin.par2fun(np.array(v2, dtype=float)))
        o[side + "_fun"] = [[float(a) for a in fv.ravel()], [float(a) for a in fv2.ravel()]]       # C-order flat function values
        for rep in REPS:
            key = side + "_" + rep
            try:
                with warnings.catch_warnings():
                    warnings.simplefilter("ignore")
                    if rep == "arr_par":
                        out = fn(np.array(v, dtype=float))
                    elif rep == "arr_fun":
                        out = fn(fv.copy(), is_par=False)
                    elif rep == "arr_fun_F":
                        out = fn(np.asfortranarray(fv), is_par=False)
                    elif rep == "arr_fun_strided":
                        out = fn(out_layout("strided")(fv), is_par=False)
                    elif rep == "cuqi_fun_F":
                        out = fn(CUQIarray(np.asfortranarray(fv), is_par=False, geometry=gin))
                    elif rep == "cuqi_par":
                        out = fn(CUQIarray(np.array(v, dtype=float), is_par=True, geometry=gin))
                    elif rep == "cuqi_fun":
                        out = fn(CUQIarray(fv.copy(), is_par=False, geometry=gin))
                    elif rep == "cuqi_par_eq":
                        out = fn(CUQIarray(np.array(v, dtype=float), is_par=True, geometry=copy.deepcopy(gin)))
                    elif rep == "cuqi_fun_eq":
                        out = fn(CUQIarray(fv.copy(), is_par=False, geometry=copy.deepcopy(gin)))
                    elif rep == "cuqi_sub":
                        class _MyArray(CUQIarray):
                            pass
                        out = fn(_MyArray(np.array(v, dtype=float), is_par=True, geometry=gin))
                    elif rep == "cuqi_other":
                        out = fn(CUQIarray(np.array(v, dtype=float), is_par=True, geometry=Discrete(["v%d" % i for i in range(len(v))])))
                    elif rep == "cuqi_par_int":
                        out = fn(CUQIarray(np.array(v, dtype=np.int64), is_par=True, geometry=gin))
                    elif rep == "samples_par_1":      # exactly one sample: a trailing axis of length 1
                        out = fn(Samples(np.array(v, dtype=float)[:, None], geometry=gin))
                    elif rep == "samples_fun_1":
                        out = fn(Samples(fv[..., None].copy(), geometry=gin, is_par=False), is_par=False)
                    elif rep == "samples_sub":
                        class _MySamples(Samples):
                            pass
                        out = fn(_MySamples(np.column_stack([v, v2]).astype(float), geometry=gin))
                    elif rep == "samples_par":
                        out = fn(Samples(np.column_stack([v, v2]).astype(float), geometry=gin))
                    else:
                        # vector- or image-valued function values: the sample index is the LAST axis
                        out = fn(Samples(np.stack([fv, fv2], axis=-1), geometry=gin, is_par=False), is_par=False)
                if rep.startswith("samples"):
                    S = np.asarray(out.samples, dtype=float)
                    o[key] = {"val": [[float(a) for a in S[:, j]] for j in range(S.shape[1])], "wrap": type(out).__name__}
                else:
                    a = np.asarray(out, dtype=float)
                    o[key] = {"val": [float(t) for t in a] if a.ndim == 1 else "shape %s" % (a.shape,), "wrap": type(out).__name__}
                gout = mod.range_geometry if side == "f" else mod.domain_geometry
                if hasattr(out, "geometry"):
                    o[key]["geom"] = bool(out.geometry is gout) and (rep.startswith("samples") or bool(getattr(out, "is_par", False)))
            except Exception as e:
                o[key] = {"val": None, "wrap": "raised " + type(e).__name__}
    return o


def rep_oracle(m, meta, o):
    ex = m.exact
    for side, name in (("f", "forward"), ("a", "adjoint")):
        base = o[side + "_arr_par"]["val"]
        for rep in REPS:
            r = o[side + "_" + rep]
            if r == "skipped":
                continue
            want = ("_MySamples" if rep == "samples_sub" and False else "Samples") if rep.startswith("samples") else ("CUQIarray" if rep.startswith("cuqi") else "ndarray")   # a subclass instance comes back as a plain CUQIarray
            ref = [base, None] if rep.startswith("samples") else base
            got = r["val"]
            if rep.startswith("samples"):
                ok = isinstance(got, list) and len(got) == (1 if rep.endswith("_1") else 2) and (base is None or same_vec(got[0], base, ex))
            else:
                ok = (got is None and base is None) or same_vec(got, base, ex)
            if not ok:
                return ("%s on representation %s gives %s but %s on the plain parameter vector gives %s" % (name, rep, got, name, base),
                        "LinearModel.%s|representation:%s" % (name, rep))
            if isinstance(got, list) and r.get("geom") is False:
                return ("%s on representation %s returns an object that is not a parameter array on the output geometry of the map" % (name, rep),
                        "LinearModel.%s|representation-geometry:%s" % (name, rep))
            if isinstance(got, list) and r["wrap"] != want:
                return ("%s on representation %s returns a %s, not a %s" % (name, rep, r["wrap"], want), "LinearModel.%s|representation-type:%s" % (name, rep))
    fx, ay = o["f_cuqi_par"]["val"], o["a_cuqi_par"]["val"]
    if isinstance(fx, list) and isinstance(ay, list):
        a, b = ip(fx, meta["y"]), ip(meta["x"], ay)
        if not same(a, b, ex):
            return ("<A x, y> = %s but <x, A* y> = %s with CUQIarray inputs (x=%s, y=%s)" % (float(a), float(b), meta["x"], meta["y"]), adj_signature(m, meta))
    return (None, "")


def rep_coq_expr(m, meta, o):
    t = ctol(m.exact)
    parts = []
    for side, chk, G, v, v2 in (("f", "check_forward", m.D, meta["x"], meta["x2"]), ("a", "check_adjoint", m.R, meta["y"], meta["y2"])):
        f1, f2 = o[side + "_fun"]
        par = ["(V1 %s)" % enc_vec(v), "(V1 %s)" % enc_vec(v2)]
        fun = ["(funval %s %s)" % (G.coq, enc_vec(f1)), "(funval %s %s)" % (G.coq, enc_vec(f2))]
        for rep in REPS:
            r = o[side + "_" + rep]
            if r == "skipped":
                continue
            if isinstance(r["val"], str):
                return "false"
            ins = fun if "_fun" in rep else par
            if rep.startswith("samples"):
                obs = "None" if r["val"] is None else "(Some %s)" % clist([enc_vec(c) for c in r["val"]])
                parts.append("%s_samples %s %s %s %s %s" % (chk, t, m.coq, COQ_REP[rep], clist(ins[:1] if rep.endswith("_1") else ins), obs))
            else:
                parts.append("%s_rep %s %s %s %s %s" % (chk, t, m.coq, COQ_REP[rep], ins[0], enc_opt(r["val"], enc_vec)))
                if r["val"] is not None:
                    parts.append("Bool.eqb (rep_wraps %s) %s" % (COQ_REP[rep], cbool(r["wrap"] == "CUQIarray")))
    return " && ".join(parts)


def observe_styles(mod, x, y):
    """the same forward/adjoint calls with other dtypes / memory layouts of the input and through every call form"""
    def mk(v, style):
        a = np.array(v, dtype=float)
        if style == "int64":
            return a.astype(np.int64) if np.all(a == np.round(a)) else None
        if style == "float32":
            return a.astype(np.float32) if np.all(a.astype(np.float32) == a) else None
        if style == "strided":
            big = np.zeros(2 * len(a)); big[::2] = a
            return big[::2]
        if style == "reversed-view":
            return a[::-1].copy()[::-1]
        if style == "readonly":
            a.setflags(write=False)
            return a
        if style == "list":
            return [float(t) for t in a]
        return a
    out = {}
    for style in ("int64", "float32", "strided", "reversed-view", "readonly"):
        for nm, f, v in (("forward", mod.forward, x), ("adjoint", mod.adjoint, y)):
            a = mk(v, style)
            if a is not None:
                out["%s/%s" % (nm, style)] = call_vec_raw(f, a)
    name = mod._non_default_args[0]
    out["forward/keyword"] = call_vec_raw(lambda a: mod.forward(**{name: a}), mk(x, ""))
    out["forward/call"] = call_vec_raw(lambda a: mod(a), mk(x, ""))
    out["forward/matmul"] = call_vec_raw(lambda a: mod @ a, mk(x, ""))
    out["forward/is_par=True"] = call_vec_raw(lambda a: mod.forward(a, is_par=True), mk(x, ""))
    out["adjoint/is_par=True"] = call_vec_raw(lambda a: mod.adjoint(a, is_par=True), mk(y, ""))
    out["adjoint/keyword"] = call_vec_raw(lambda a: mod.adjoint(y=a), mk(y, ""))
    return out


def second_vec(v):
    return [float(1 - t) for t in reversed(v)]


def observe_reuse(m, mod, x, y):
    """aliasing over time: the caller keeps ONE array object and overwrites it in place between calls (x_buf[:] = ...); nothing the model
    retained from the first call may leak into the second, and the first result must stay what it was (unless the user callable itself hands out views)"""
    out = {}
    for nm, f, v in (("forward", mod.forward, x), ("adjoint", mod.adjoint, y)) + ((("gradient", lambda d: mod.gradient(d, np.zeros(m.D.par_dim)), y),) if (m.D.idtype and m.R.idtype) else ()):
        v2 = second_vec(v)
        try:
            with warnings.catch_warnings():
                warnings.simplefilter("ignore")
                buf = np.array(v, dtype=float)
                r1 = f(buf)
                r1s = np.array(r1, dtype=float).copy()
                buf[:] = v2
                r2 = np.array(f(buf), dtype=float).copy()
                r1_after = np.array(r1, dtype=float).copy()
                fresh = np.array(f(np.array(v2, dtype=float)), dtype=float).copy()
            out[nm] = {"first": r1s.ravel().tolist(), "first_later": r1_after.ravel().tolist(), "second": r2.ravel().tolist(), "second_fresh": fresh.ravel().tolist()}
        except Exception as e:
            out[nm] = {"raised": type(e).__name__}
    return out


def call_vec_raw(f, arr):
    try:
        with warnings.catch_warnings():
            warnings.simplefilter("ignore")
            out = np.asarray(f(arr), dtype=float)
        return [float(a) for a in out] if out.ndim == 1 else "shape %s" % (out.shape,)
    except Exception as e:
        return "raised " + type(e).__name__


def stability_oracle(m, meta, o):
    """results are values: the same call gives the same result later, and nothing handed out or passed in changes afterwards"""
    op = meta["op"]
    if o.get("alias"):
        return (o["alias"], "LinearModel|aliasing:" + op)
    for first, last, what in (("fx", "fx_end", "forward(x)"), ("ay", "ay_end", "adjoint(y)")):
        if first in o and o[first] != o[last] and not (isinstance(o[first], list) and same_vec(o[first], o[last], True)):
            return ("%s = %s at first but %s when called again at the end" % (what, o[first], o[last]), "LinearModel|not-repeatable:" + op)
    return (None, "")


def property_oracle(m, meta, o):
    """independent statement of C07 on the implementation's own outputs -> (detail, signature) or (None, '')"""
    x, y = meta["x"], meta["y"]
    ex = m.exact
    op = meta["op"]
    detail, sig = stability_oracle(m, meta, o)
    if detail:
        return (detail, sig)
    if op == "fa":
        for nm, r in (o.get("reuse") or {}).items():
            if "raised" in r:
                continue
            if r["second"] != r["second_fresh"]:
                return ("%s on an input buffer that was overwritten in place since the previous call gives %s, on a fresh array with the same values %s"
                        % (nm, r["second"], r["second_fresh"]), "LinearModel.%s|reused-input-buffer" % nm)
            if r["first"] != r["first_later"] and not m.info.get("impl"):
                return ("the result of the first %s call changed from %s to %s when the caller overwrote its own input array and called again"
                        % (nm, r["first"], r["first_later"]), "LinearModel.%s|result-aliases-later-input" % nm)
        for key, val in (o.get("styles") or {}).items():
            ref = o["fx"] if key.startswith("forward") else o["ay"]
            if key.endswith("float32") and not ex and isinstance(ref, list) and isinstance(val, list) and len(val) == len(ref):
                # single-precision input through floating-point convolutions: single-precision accuracy is all that can be asked
                bad = any(abs(a - b) > 1e-5 * (1 + abs(b)) for a, b in zip(val, ref))
            else:
                bad = isinstance(ref, list) and not same_vec(val, ref, ex)
            if bad:
                return ("%s gives %s but the plain float64 call gives %s" % (key, val, ref), "LinearModel.%s|input-style:%s" % tuple(key.split("/")))
        if not isinstance(o["fx"], list) or not isinstance(o["ay"], list):
            return ("forward or adjoint raised / returned a non-vector: forward=%s adjoint=%s" % (o["fx"], o["ay"]), adj_signature(m, meta))
        if len(o["fx"]) != m.R.par_dim or len(o["ay"]) != m.D.par_dim:
            return ("forward/adjoint output has the wrong length", adj_signature(m, meta))
        a, b = ip(o["fx"], y), ip(x, o["ay"])
        if not same(a, b, ex):
            return ("<A x, y> = %s but <x, A* y> = %s  (x=%s, y=%s, forward=%s, adjoint=%s)" % (float(a), float(b), x, y, o["fx"], o["ay"]),
                    adj_signature(m, meta))
        return (None, "")
    if op == "gm":
        stored = m.backing != "function" and meta["model"].get("tp") != "deconv2d" and not o.get("gm_fixed")
        sig = ("LinearModel.get_matrix|stored-matrix+nonidentity-geometry" if stored and not (m.D.idmap and m.R.idmap)
               else "LinearModel.get_matrix|%s,%s->%s" % (m.backing, m.D.family, m.R.family))
        if not stored and (getattr(m.D, "nonlinear", False) or getattr(m.R, "nonlinear", False)):
            sig = "LinearModel.get_matrix|nonlinear-projection:StepExpansion"
        Gm = o["G"]
        if Gm is None:
            return ("get_matrix raised", sig)
        if len(Gm) != m.R.par_dim or any(len(r) != m.D.par_dim for r in Gm):
            return ("get_matrix has shape (%d,%d) for a parameter map %d -> %d" % (len(Gm), len(Gm[0]) if Gm else 0, m.D.par_dim, m.R.par_dim), sig)
        for j, cj in enumerate(o["cols"]):
            if not same_vec([r[j] for r in Gm], cj, ex):
                return ("column %d of get_matrix is %s but forward(e_%d) = %s" % (j, [r[j] for r in Gm], j, cj), sig)
        if not same_vec(matvec(Gm, x), o["fx"], ex):
            return ("get_matrix() @ x = %s but forward(x) = %s" % ([float(v) for v in matvec(Gm, x)], o["fx"]), sig)
        if m.backing == "function" and m.D.ident and m.R.ident and "A" in meta["model"] and not same_mat(Gm, meta["model"]["A"], ex):
            return ("get_matrix() = %s is not the defining matrix %s of the function pair" % (Gm, meta["model"]["A"]), sig)
        if not same_mat(o["G2"], Gm, True):
            return ("second get_matrix() call returns another matrix", sig)
        if "copy_fx" in o and isinstance(o["fx"], list):
            if not same_vec(o["copy_fx"], o["fx"], ex):
                return ("model(distribution named %r).forward(%s=x) = %s but forward(x) = %s" % (o["copy_name"], o["copy_name"], o["copy_fx"], o["fx"]), "LinearModel.forward|renamed-copy")
            if not same_mat(o["copy_G"], Gm, ex):
                return ("get_matrix() of the renamed copy differs from get_matrix() of the model", "LinearModel.get_matrix|renamed-copy")
        return (None, "")
    if op in ("T", "T_after_gm"):
        fam = nonidem_family(m)
        sig = ("LinearModel.T|double-conversion:" + fam) if fam else "LinearModel.T|%s,%s->%s" % (m.backing, m.D.family, m.R.family)
        if not o["T_ok"]:
            return ("T raised", sig)
        if not o.get("geoms_swapped"):
            return ("T does not swap the geometries", sig)
        if not same_vec(o["Tf"], o["ay"], ex):
            return ("T.forward(y) = %s but adjoint(y) = %s" % (o["Tf"], o["ay"]), sig)
        if not same_vec(o["Ta"], o["fx"], ex):
            return ("T.adjoint(x) = %s but forward(x) = %s" % (o["Ta"], o["fx"]), sig)
        if "Tg" in o and not same_vec(o["Tg"], o["fx"], ex):
            return ("T.gradient(x, wrt) = %s but forward(x) = %s (the gradient of the transposed model is its adjoint = forward)" % (o["Tg"], o["fx"]), "LinearModel.gradient|on-T")
        if not same_vec(o["TTf"], o["fx"], ex):
            return ("T.T.forward(x) = %s but forward(x) = %s" % (o["TTf"], o["fx"]), sig)
        if o["G"] is None or o["TG"] is None or not same_mat(o["TG"], transpose(o["G"], m.D.par_dim), ex):
            stored = m.backing != "function" and meta["model"].get("tp") != "deconv2d" and not o.get("gm_fixed")
            if stored and not (m.D.idmap and m.R.idmap):
                sig = "LinearModel.get_matrix|stored-matrix+nonidentity-geometry"
            elif not stored:
                # both matrices are assembled column by column (from adjoint(e_i) and from forward(e_j)) and T.forward = adjoint
                # was confirmed above: the mismatch says the adjoint callable is not the transpose of the forward callable
                sig = adj_signature(m, meta)
            return ("T.get_matrix() is not get_matrix().T: %s vs %s" % (o["TG"], o["G"]), sig)
        if o["TG"] is not None and o["Tf"] is not None and not same_vec(matvec(o["TG"], y), o["Tf"], ex):
            stored = m.backing != "function" and meta["model"].get("tp") != "deconv2d" and not o.get("gm_fixed")
            if stored and not (m.D.idmap and m.R.idmap):
                sig = "LinearModel.get_matrix|stored-matrix+nonidentity-geometry"     # T copies the stored function-space matrix
            else:
                # T.forward(y) = adjoint(y) and T.get_matrix() = get_matrix().T were both confirmed above, so this says
                # get_matrix().T @ y != adjoint(y): the adjoint is not the transpose of the forward map (reached when the matrix
                # was assembled and stored by get_matrix() before T copied its transpose)
                sig = adj_signature(m, meta)
            return ("T.get_matrix() @ y = get_matrix().T @ y = %s differs from T.forward(y) = adjoint(y) = %s"
                    % ([float(v) for v in matvec(o["TG"], y)], o["Tf"]), sig)
        return (None, "")
    raise ValueError(op)


def coq_expr(m, meta, o):
    x, y = meta["x"], meta["y"]
    t = ctol(m.exact)
    op = meta["op"]
    if any(isinstance(v, str) for k, v in o.items() if k not in ("alias", "copy_name")):
        return "false"      # the model has no non-vector results: any such output is a disagreement
    ev = lambda v: enc_opt(v, enc_vec)
    em = lambda v: enc_opt(v, enc_mat)
    if op == "fa":
        return "check_forward %s %s %s %s && check_adjoint %s %s %s %s" % (t, m.coq, enc_vec(x), ev(o["fx"]), t, m.coq, enc_vec(y), ev(o["ay"]))
    ai = cbool(o["as_is"])
    if op == "gm":
        e = "check_get_matrix_gen %s %s %s %s && check_get_matrix_gen %s %s (after_get_matrix_gen %s %s) %s" % (t, ai, m.coq, em(o["G"]), t, ai, ai, m.coq, em(o["G2"]))
        if "copy_fx" in o:      # the renamed shallow copy is the same model
            e += " && check_forward %s %s %s %s && check_get_matrix_gen %s %s (after_get_matrix_gen %s %s) %s" % (t, m.coq, enc_vec(x), ev(o["copy_fx"]), t, ai, ai, m.coq, em(o["copy_G"]))
        return e
    base = m.coq if op == "T" else "(after_get_matrix_gen %s %s)" % (ai, m.coq)
    u = cbool(o.get("T_underlying", False))
    T = "(lmT_gen %s %s %s)" % (u, cnat(m.ncols_T), base)
    if not o["T_ok"]:
        return "false"
    parts = ["check_forward %s %s %s %s" % (t, T, enc_vec(y), ev(o["Tf"])),
             "check_adjoint %s %s %s %s" % (t, T, enc_vec(x), ev(o["Ta"])),
             "check_get_matrix_gen %s %s %s %s" % (t, ai, T, em(o["TG"])),
             "check_forward %s (lmT_gen %s %s %s) %s %s" % (t, u, cnat(m.nrows_T), T, enc_vec(x), ev(o["TTf"])),
             cbool(o.get("geoms_swapped", False))]
    if "Tg" in o:
        parts.append("check_gradient %s None false %s (V1 %s) %s" % (t, T, enc_vec(x), ev(o["Tg"])))
    return " && ".join(parts)


def run_one(m, meta):
    """-> (observations, (detail, signature), coq expression) for one case"""
    if meta["op"] == "rep":
        o = observe_reps(m, meta)
        return o, rep_oracle(m, meta, o), rep_coq_expr(m, meta, o)
    if meta["op"] == "grad":
        o = observe_grad(m, meta)
        return o, grad_oracle(m, meta, o), grad_coq_expr(m, meta, o)
    o = observe(m, meta)
    return o, property_oracle(m, meta, o), coq_expr(m, meta, o)


def guarded(fn):
    """a cell whose construction / driving crashes (the code no longer accepts a configuration it accepted) becomes ONE disagreeing case
    with the exception in its meta, instead of taking the whole generator down: the other cells still report concrete inputs"""
    def wrapper(meta, cell, *a, **k):
        try:
            return fn(meta, cell, *a, **k)
        except Exception as e:
            import traceback
            m = dict(meta) if isinstance(meta, dict) else {"model": meta}
            m["crashed"] = (type(e).__name__ + ": " + str(e))[:400] + " | " + traceback.format_exc()[-600:]
            return [Case(expr="false", meta=m, cell=cell, kind="DECISION")]
    wrapper.__name__ = fn.__name__
    return wrapper


def tp_dims(spec):
    """(domain, range) parameter dimensions of a shipped test problem, from its description alone"""
    n = spec["dim"]
    if spec["tp"] == "deconv2d":
        return n * n, n * n
    if spec["tp"] == "abel":
        fp = spec.get("field_params") or {}
        if spec.get("field_type") == "Step":
            return fp.get("n_steps", 3), n
        if spec.get("field_type") == "KL":
            nm = fp.get("num_modes")
            return (n if nm is None or nm > n else nm), n
    return n, n


@guarded
def argname_case(meta, cell):
    """a function pair whose forward argument carries a name that also is an argument / attribute name inside the model's methods"""
    from cuqi.model import LinearModel
    ms, nm, x, y = meta["model"], meta["name"], meta["x"], meta["y"]
    A = np.array(ms["A"], dtype=float)
    ns = {}
    exec("def fwd(%s):\n    return A @ %s\ndef adj(%s_adj):\n    return A.T @ %s_adj" % (nm, nm, nm, nm), {"A": A}, ns)
    D, R = mk_geom(ms["D"]), mk_geom(ms["R"])
    mod = LinearModel(ns["fwd"], ns["adj"], R.obj, D.obj)
    m = M(mod, "(fun_model %s %s %s %s)" % (cnat(A.shape[1]), enc_mat(A), D.coq, R.coq), D, R, "function", True, D.par_dim, R.par_dim)
    o = {"fx": call_vec(mod.forward, x), "fx_kw": call_vec(lambda a: mod.forward(**{nm: a}), x), "ay": call_vec(mod.adjoint, y),
         "G": call_mat(mod.get_matrix), "Tf": call_vec(lambda a: mod.T.forward(a), y), "g": call_vec(lambda a: mod.gradient(a, np.zeros(len(x))), y)}
    detail = None
    for k, ref in (("fx_kw", "fx"), ("Tf", "ay"), ("g", "ay")):
        if not same_vec(o[k], o[ref], True):
            detail = "with the forward argument named %r: %s = %s but %s = %s" % (nm, k, o[k], ref, o[ref])
    if isinstance(o["fx"], list) and isinstance(o["ay"], list) and ip(o["fx"], y) != ip(x, o["ay"]):
        detail = "with the forward argument named %r: <A x, y> != <x, A* y>" % nm
    ev = lambda v: enc_opt(v if isinstance(v, list) else None, enc_vec)
    expr = ("check_forward 0%%Q %s %s %s && check_forward 0%%Q %s %s %s && check_adjoint 0%%Q %s %s %s && check_get_matrix 0%%Q %s %s && check_gradient 0%%Q None false %s (V1 %s) %s"
            % (m.coq, enc_vec(x), ev(o["fx"]), m.coq, enc_vec(x), ev(o["fx_kw"]), m.coq, enc_vec(y), ev(o["ay"]), m.coq, enc_opt(o["G"], enc_mat), m.coq, enc_vec(y), ev(o["g"])))
    cases = [Case(expr=expr, meta=meta, cell=cell, kind="EXACT")]
    if detail:
        cases.append(Case(expr="true", meta=dict(meta, verdict="oracle"), cell="oracle-verdict/" + cell, trivial=True, impl_fail=detail, signature="LinearModel|argument-name:" + nm))
    return cases


def defaults_cases(rng):
    """the shipped defaults of every linear test problem x boundary condition: inner-product identity on the implementation alone"""
    import cuqi
    from cuqi.testproblem import Deconvolution1D, Deconvolution2D, Abel1D
    out = []
    confs = [("Deconvolution2D", lambda bc=bc: Deconvolution2D(BC=bc), {"tp": "deconv2d", "dim": 128, "PSF": "gauss", "PSF_size": 21, "PSF_param": 2.56, "BC": bc}) for bc in BC2]
    confs += [("Deconvolution1D", lambda bc=bc: Deconvolution1D(BC=bc), {"tp": "deconv1d", "dim": 128, "PSF": "gauss", "BC": bc}) for bc in BC1]
    confs += [("Abel1D", lambda: Abel1D(), {"tp": "abel", "dim": 128})]
    for name, build, spec in confs:
        meta = {"op": "defaults", "model": spec}
        cell = "defaults/%s/%s" % (name, spec.get("BC", "-"))
        try:
            with warnings.catch_warnings():
                warnings.simplefilter("ignore")
                tp = build()
            mod = tp.model
            n, k = mod.domain_dim, mod.range_dim
            x, y = [rng.randint(-3, 3) for _ in range(n)], [rng.randint(-3, 3) for _ in range(k)]
            fx, ay = call_vec(mod.forward, x), call_vec(mod.adjoint, y)
            detail, sig = None, ""
            if not isinstance(fx, list) or not isinstance(ay, list):
                detail, sig = "forward or adjoint of the default %s fails" % name, "defaults|" + name
            else:
                a, b = float(np.dot(fx, y)), float(np.dot(x, ay))
                if abs(a - b) > 1e-9 * (1 + abs(a) + abs(b)):
                    detail = "default %s(BC=%s): <A x, y> = %r but <x, A* y> = %r" % (name, spec.get("BC"), a, b)
                    if name == "Deconvolution2D":
                        pad = BC2[spec["BC"]][0]
                        sig = ("_proj_backward_2D|pad:symmetric,mirror-symmetric-odd-PSF" if pad == "symmetric" else
                               "_proj_backward_2D|pad:%s" % pad if pad in ("edge", "reflect") else "_proj_backward_2D|pad:%s,odd-PSF" % pad)
                    else:
                        sig = "defaults|" + name
            out.append(Case(expr="true", meta=meta, cell=cell, kind="DECISION", impl_fail=detail, signature=sig))
        except Exception as e:
            out.append(Case(expr="false", meta=dict(meta, crashed=repr(e)[:300]), cell=cell, kind="DECISION"))
    return out


@guarded
def reassign_case(meta, cell):
    """get_matrix(), then model.domain_geometry = another geometry, then get_matrix() again and forward on the unit vectors"""
    m = build_model(meta)
    mod = m.obj
    D2 = mk_geom(meta["D2"])
    G1 = call_mat(mod.get_matrix)
    mod.domain_geometry = D2.obj
    G2 = call_mat(mod.get_matrix)
    cols = [call_vec(mod.forward, [1.0 if i == j else 0.0 for i in range(D2.par_dim)]) for j in range(D2.par_dim)]
    detail, sig = None, ""
    if G2 is None or any(not same_vec([r[j] for r in G2], cj, m.exact and D2.exact) for j, cj in enumerate(cols)):
        j = 0 if G2 is None else next(j for j, cj in enumerate(cols) if not same_vec([r[j] for r in G2], cj, m.exact and D2.exact))
        detail = ("after model.domain_geometry = %s: column %d of get_matrix() is %s but forward(e_%d) = %s (the matrix cached for the former geometry is handed out)"
                  % (D2.family, j, None if G2 is None else [r[j] for r in G2], j, cols[j]))
        sig = "LinearModel.get_matrix|stale-cache:geometry-reassigned"
    t = ctol(m.exact and D2.exact)
    em = lambda v: enc_opt(v, enc_mat)
    # the model: the assembled matrix was stored; re-assigning the geometry leaves it where it is
    m2 = "(let m0 := after_get_matrix %s in mkLM (lm_fwd m0) (lm_adj m0) (lm_mat m0) %s (lm_R m0))" % (m.coq, D2.coq)
    expr = "check_get_matrix %s %s %s && check_get_matrix %s %s %s" % (t, m.coq, em(G1), t, m2, em(G2))
    cases = [Case(expr=expr, meta=meta, cell=cell, kind="EXACT" if m.exact and D2.exact else "DECISION")]
    if detail:
        cases.append(Case(expr="true", meta=dict(meta, verdict="oracle"), cell="oracle-verdict/" + cell, trivial=True, impl_fail=detail, signature=sig))
    return cases


# ------------------------------------------------------------------------------------------------
# the INPUT-FORM lattice: form (ndarray / CUQIarray / Samples / 2-d batch, parameters or function values) x dtype x layout
# ------------------------------------------------------------------------------------------------
DTYPES = ["float64", "float32", "int64", "int32", "bool"]
COQ_DT = {"float64": "DF64", "float32": "DF32", "int64": "DI64", "int32": "DI32", "bool": "DBool"}
DT_CLASS = {"float64": "float", "float32": "float", "int64": "int", "int32": "int", "bool": "bool"}
INFORMS = ["arr_par", "arr_fun", "cuqi_par", "cuqi_fun", "samples_par", "samples_fun", "batch_par", "batch_fun"]
INFORM_COQ = {"arr": ("FArr", "WNdarray", "ndarray"), "cuqi": ("FCuqi", "WCuqi", "CUQIarray"), "samples": ("FSamples", "WSamples", "Samples"), "batch": ("FBatch", "WNdarray", "ndarray")}
INCALLS = ["forward", "adjoint", "T.forward", "T.adjoint", "matmul"]


def class_values(rng, cls, n):
    if cls == "float":
        return [rng.randint(-12, 12) / 4.0 for _ in range(n)]
    if cls == "int":
        return [rng.randint(-3, 3) for _ in range(n)]
    return [rng.randint(0, 1) for _ in range(n)]


def inform_values(rng, G):
    """per dtype class: one parameter vector and one function value (C-order flat) of the geometry the input lives on"""
    return {cls: {"p": class_values(rng, cls, G.par_dim), "f": class_values(rng, cls, G.fun_dim)} for cls in ("float", "int", "bool")}


def relayout(a, layout):
    """the same values in another memory layout: a strided window for vectors, Fortran order for 2-d / 3-d arrays"""
    if layout == "C":
        return np.ascontiguousarray(a)
    if a.ndim == 1:
        big = np.zeros(2 * len(a), dtype=a.dtype)
        big[::2] = a
        return big[::2]
    return np.asfortranarray(a)


@guarded
def inform_case(meta, cell):
    """one (model, call, input form): the call on every dtype x layout of the same numbers.  Correspondence: values against the model's
    exact map (column by column for Samples / batches), the dtype and the container of the result against the model's dtype flow.
    Oracle (implementation only): every dtype / layout / form gives the values of the plain float64 ndarray call; a Samples result is
    float64; float operator data never give an integer / bool result; forward(Samples(I)) is get_matrix() and adjoint(Samples(I)) its
    transpose."""
    from cuqi.array import CUQIarray
    from cuqi.samples import Samples
    m = build_model(meta)
    mod = m.obj
    call, form, vals = meta["call"], meta["form"], meta["vals"]
    kind, rep = form.split("_")
    is_fun = rep == "fun"
    opdt = meta.get("opdt", "float64")
    on_T = call.startswith("T.")
    target = mod.T if on_T else mod
    u = cbool(bool(on_T and getattr(target, "_forward_func", None) is getattr(mod, "_adjoint_func", 0)))
    mcoq = "(lmT_gen %s %s %s)" % (u, cnat(m.ncols_T), m.coq) if on_T else m.coq
    fwd_like = call in ("forward", "matmul", "T.forward")
    dom_side = call in ("forward", "matmul", "T.adjoint")               # the input lives on the model's domain geometry
    Gin, Gout = (m.D, m.R) if dom_side else (m.R, m.D)
    gin = mod.domain_geometry if dom_side else mod.range_geometry
    if call == "matmul":
        fn = lambda a, **k: target @ a
    else:
        fn = getattr(target, call.split(".")[-1])
    kw = {"is_par": False} if is_fun else {}
    n_in = Gin.fun_dim if is_fun else Gin.par_dim
    shape_in = tuple(Gin.fun_shape) if is_fun else (Gin.par_dim,)
    units = [[1 if i == j else 0 for i in range(n_in)] for j in range(n_in)]
    exact = m.exact

    def columns_of(cls):
        # the whole identity for the integer dtypes (np.eye(n, dtype=int) as Samples reads the matrix off column by column);
        # one unit column and the class vector for the float and bool dtypes
        v = vals[cls]["f" if is_fun else "p"]
        return units + [v] if cls == "int" else [units[0], v]

    def build_input(cls, dt, layout):
        if kind in ("arr", "cuqi"):
            a = relayout(np.array(vals[cls]["f" if is_fun else "p"], dtype=float).reshape(shape_in).astype(np.dtype(dt)), layout)
            return a if kind == "arr" else CUQIarray(a, is_par=not is_fun, geometry=gin)
        a = relayout(np.stack([np.array(c, dtype=float).reshape(shape_in) for c in columns_of(cls)], axis=-1).astype(np.dtype(dt)), layout)
        return a if kind == "batch" else Samples(a, geometry=gin, is_par=not is_fun)

    def run(x):
        try:
            with warnings.catch_warnings():
                warnings.simplefilter("ignore")
                out = fn(x, **kw)
            wrap = type(out).__name__
            arr = np.asarray(out.samples if isinstance(out, Samples) else out)
            dtn = str(arr.dtype)
            a = arr.astype(float)
            if kind in ("arr", "cuqi"):
                if a.ndim != 1 or not np.all(np.isfinite(a)):
                    return {"val": "shape %s" % (a.shape,), "dt": dtn, "wrap": wrap}
                return {"val": [float(t) for t in a], "dt": dtn, "wrap": wrap}
            if a.ndim != 2 or not np.all(np.isfinite(a)):
                return {"val": "shape %s" % (a.shape,), "dt": dtn, "wrap": wrap}
            return {"val": [[float(t) for t in a[:, j]] for j in range(a.shape[1])], "dt": dtn, "wrap": wrap}
        except Exception as e:
            return {"val": None, "dt": None, "wrap": "raised %s: %s" % (type(e).__name__, str(e)[:120])}

    obs, ref = {}, {}
    for cls in ("float", "int", "bool"):
        # reference: the plain float64 contiguous ndarray call(s) on the same numbers
        cols = [vals[cls]["f" if is_fun else "p"]] if kind in ("arr", "cuqi") else columns_of(cls)
        r = []
        for c in cols:
            o1 = call_vec_raw(lambda a: fn(a, **kw), np.array(c, dtype=float).reshape(shape_in))
            r.append(o1)
        ref[cls] = r[0] if kind in ("arr", "cuqi") else r
    for dt in DTYPES:
        if dt == "bool" and opdt == "bool":
            continue            # numpy's bool @ bool is the logical product, not the ring product: not CUQIpy's business
        for layout in ("C", "L"):
            obs["%s/%s" % (dt, layout)] = run(build_input(DT_CLASS[dt], dt, layout))

    # ---- oracle ---------------------------------------------------------------------------------------------------------
    detail, sig = None, ""
    fcoq, wcoq, wname = INFORM_COQ[kind]
    for stage in ("values", "container", "dtype"):          # a wrong VALUE is reported before a wrong container / dtype
        for key, o in obs.items():
            if detail is not None:
                break
            dt = key.split("/")[0]
            cls = DT_CLASS[dt]
            r = ref[cls]
            if not exact and dt == "float32":
                close = lambda a, b: isinstance(a, list) and isinstance(b, list) and len(a) == len(b) and all(abs(p - q) <= 1e-5 * (1 + abs(q)) for p, q in zip(a, b))
            else:
                close = lambda a, b: same_vec(a, b, exact)
            if kind in ("arr", "cuqi"):
                okv = close(o["val"], r)
            else:
                okv = isinstance(o["val"], list) and len(o["val"]) == len(r) and all(close(a, b) for a, b in zip(o["val"], r))
            if stage == "values" and not okv:
                detail = ("%s on a %s (%s) of dtype %s, layout %s gives %s [%s, dtype %s] but the plain float64 ndarray call%s on the same numbers give%s %s"
                          % (call, wname, "function values" if is_fun else "parameters", dt, "contiguous" if key.endswith("/C") else "strided/Fortran", o["val"], o["wrap"], o["dt"],
                             "" if kind in ("arr", "cuqi") else "s column by column", "s" if kind in ("arr", "cuqi") else "", r))
                sig = "LinearModel.%s|input-form:%s,%s" % (call, form, DT_CLASS[dt] if dt != "float64" else "float64")
            elif stage == "container" and o["wrap"] != wname:
                detail, sig = "%s on a %s of dtype %s returns a %s" % (call, wname, dt, o["wrap"]), "LinearModel.%s|input-form-type:%s" % (call, form)
            elif stage == "dtype" and kind == "samples" and o["dt"] != "float64":
                detail = "%s on Samples of dtype %s returns Samples whose array has dtype %s (values %s): the per-sample output buffer must be float64" % (call, dt, o["dt"], o["val"])
                sig = "LinearModel.%s|input-form-dtype:%s" % (call, form)
            elif stage == "dtype" and opdt in ("float64", "float32") and not str(o["dt"]).startswith("float"):
                detail = "%s on a %s of dtype %s returns dtype %s although the operator data are %s" % (call, wname, dt, o["dt"], opdt)
                sig = "LinearModel.%s|input-form-dtype:%s" % (call, form)
    ident_obs = None
    if detail is None and form == "samples_par":
        S = obs["int64/C"]["val"]
        if isinstance(S, list):
            colsI = S[:n_in]
            ident_obs = transpose(colsI, Gout.par_dim)          # the array forward(Samples(I)).samples / adjoint(Samples(I)).samples
            stored_wrong = m.backing != "function" and meta["model"].get("tp") != "deconv2d" and not hasattr(mod, "_par_matrix") and not (m.D.idmap and m.R.idmap)
            asig = adj_signature(m, {"model": meta["model"]})
            Gm = call_mat(mod.get_matrix)
            if not stored_wrong and Gm is not None:
                want = Gm if fwd_like == (not on_T) else transpose(Gm, m.D.par_dim)
                what = "get_matrix()" if fwd_like == (not on_T) else "get_matrix().T"
                skip = (what == "get_matrix().T" and asig.startswith(MODEL_EXPECTED)) or getattr(m.D, "nonlinear", False) or getattr(m.R, "nonlinear", False)
                if not skip and not same_mat(ident_obs, want, exact):
                    detail = "%s(Samples(np.eye(%d, dtype=int))).samples = %s but %s = %s" % (call, n_in, ident_obs, what, want)
                    sig = "LinearModel.%s|samples-of-identity" % call

    # ---- correspondence -------------------------------------------------------------------------------------------------
    parts = []
    bad = any(isinstance(o["val"], str) or o["dt"] not in (None,) + tuple(COQ_DT) or (o["val"] is not None and not o["wrap"] in ("ndarray", "CUQIarray", "Samples")) for o in obs.values())
    if bad:
        expr = "false"
    else:
        chk = "check_forward" if fwd_like else "check_adjoint"
        crep = {"arr_par": "RArrayPar", "arr_fun": "RArrayFun", "cuqi_par": "RCuqiPar", "cuqi_fun": "RCuqiFun",
                "samples_par": "RArrayPar", "samples_fun": "RArrayFun", "batch_par": "RArrayPar", "batch_fun": "RArrayFun"}[form]
        enc_in = (lambda v: "(funval %s %s)" % (Gin.coq, enc_vec(v))) if is_fun else (lambda v: "(V1 %s)" % enc_vec(v))
        seen = set()
        for key, o in obs.items():
            dt = key.split("/")[0]
            cls = DT_CLASS[dt]
            t = ctol(exact) if (exact or dt != "float32") else "tol6"
            if kind in ("arr", "cuqi"):
                e = "%s_rep %s %s %s %s %s" % (chk, t, mcoq, crep, enc_in(vals[cls]["f" if is_fun else "p"]), enc_opt(o["val"], enc_vec))
            else:
                ob = "None" if o["val"] is None else "(Some %s)" % clist([enc_vec(c) for c in o["val"]])
                e = "%s_samples %s %s %s %s %s" % (chk, t, mcoq, crep, clist([enc_in(c) for c in columns_of(cls)]), ob)
            if e not in seen:
                seen.add(e)
                parts.append(e)
            if o["val"] is not None:
                e = "%s_dt %s %s %s %s %s %s" % (chk, fcoq, cbool(is_fun), COQ_DT[opdt], mcoq, COQ_DT[dt], COQ_DT[o["dt"]])
                if e not in seen:
                    seen.add(e)
                    parts.append(e)
                e = "check_wrapper %s %s" % (fcoq, {"ndarray": "WNdarray", "CUQIarray": "WCuqi", "Samples": "WSamples"}[o["wrap"]])
                if e not in seen:
                    seen.add(e)
                    parts.append(e)
        if ident_obs is not None:
            parts.append("%s_of_identity %s %s (Some %s)" % (chk, ctol(exact), mcoq, enc_mat(ident_obs)))
        if form == "batch_par" and m.coq.startswith("(mat_model") and m.D.ident and m.R.ident:
            # the REAL 2-d path of a matrix model between identity geometries (C07_matrix_batch_columnwise): the batch array handed to
            # the model as it is (V2, row-major) against the 2-d array that came back
            for dt in ("float64", "int64", "bool"):
                o = obs.get(dt + "/C")
                if o is None or not isinstance(o["val"], list):
                    continue
                cols_in = columns_of(DT_CLASS[dt])
                flat_in = [cols_in[j][i] for i in range(n_in) for j in range(len(cols_in))]
                n_out = len(o["val"][0]) if o["val"] else 0
                flat_out = [o["val"][j][i] for i in range(n_out) for j in range(len(o["val"]))]
                parts.append("%s_batch %s %s %s %s %s (Some (%s, %s, %s))" % (chk, ctol(exact), mcoq, cnat(n_in), cnat(len(cols_in)), enc_vec(flat_in),
                                                                           cnat(n_out), cnat(len(o["val"])), enc_vec(flat_out)))
        expr = " && ".join(parts)
    cases = [Case(expr=expr, meta=dict(meta, observed={k: (o["dt"], o["wrap"]) for k, o in obs.items()}) if False else meta, cell=cell, kind="EXACT" if exact else "DECISION")]
    if detail:
        cases.append(Case(expr="true", meta=dict(meta, verdict="oracle"), cell="oracle-verdict/" + cell, trivial=True, impl_fail=detail, signature=sig))
    inform_case.last = {"obs": obs, "ref": ref, "detail": detail, "sig": sig, "expr": expr}
    return cases


def inform_lattice(ctx, rng):
    """backing x call x input form; dtype x layout inside each case"""
    Q = lambda r, c: [[rng.randint(-12, 12) / 4.0 for _ in range(c)] for _ in range(r)]
    Z = lambda r, c, lo=-3, hi=3: [[rng.randint(lo, hi) for _ in range(c)] for _ in range(r)]
    models = [
        ("dense", {"backing": "dense", "A": Q(2, 3), "D": ["cont1d", 3], "R": ["int", 2]}, "float64", True),
        ("csc", {"backing": "csc", "A": Q(2, 3), "D": ["discrete", 3], "R": ["cont1d", 2]}, "float64", True),
        ("csr-int32", {"backing": "csr", "A": Z(3, 2), "D": ["int", 2], "R": ["int", 3], "mat_dtype": "int32"}, "int32", True),
        ("dense-int64", {"backing": "dense", "A": Z(2, 3), "D": ["cont1d", 3], "R": ["discrete", 2], "mat_dtype": "int64"}, "int64", True),
        ("dense-float32", {"backing": "dense", "A": Q(2, 3), "D": ["int", 3], "R": ["cont1d", 2], "mat_dtype": "float32"}, "float32", True),
        ("dense-bool", {"backing": "dense", "A": Z(2, 3, 0, 1), "D": ["cont1d", 3], "R": ["int", 2], "mat_dtype": "bool"}, "bool", True),
        ("dense-int64@step", {"backing": "dense", "A": Z(2, 4), "D": ["step", 4, 2], "R": ["int", 2], "mat_dtype": "int64"}, "int64", True),
        ("dense-float32@mapped", {"backing": "dense", "A": Q(2, 3), "D": ["mapped", 2, 1, ["cont1d", 3]], "R": ["mapped", 1, 4, ["discrete", 2]], "mat_dtype": "float32"}, "float32", True),
        ("function-matmul", {"backing": "function", "impl": "matmul", "n": 3, "par": None, "A": Q(2, 3), "D": ["cont1d", 3], "R": ["int", 2]}, "float64", True),
        ("function-matmul@step-range", {"backing": "function", "impl": "matmul", "n": 3, "par": None, "A": Q(4, 3), "D": ["int", 3], "R": ["step", 4, 2]}, "float64", True),
        ("function-matmul@mapped", {"backing": "function", "impl": "matmul", "n": 3, "par": None, "A": Q(2, 3), "D": ["mapped", 2, 1, ["cont1d", 3]], "R": ["mapped", 1, 4, ["discrete", 2]]}, "float64", True),
        ("function@imageF->imageC", {"backing": "function", "A": Q(3, 4), "D": ["image", 2, 2, "F"], "R": ["image", 3, 1, "C"]}, "float64", False),
        ("function@tuple->cont2d", {"backing": "function", "A": Q(4, 4), "D": ["tuple", 2, 2], "R": ["cont2d", 2, 2]}, "float64", False),
        ("dense@step", {"backing": "dense", "A": Q(2, 4), "D": ["step", 4, 2], "R": ["int", 2]}, "float64", True),
        ("dense@kl", {"backing": "dense", "A": Q(2, 4), "D": ["kl", 4, 3, 1.5, 2.0], "R": ["int", 2]}, "float64", True),
        ("matrix@image", {"backing": "dense", "A": Q(2, 3), "D": ["image", 3, 2, "C"], "R": ["image", 2, 2, "F"]}, "float64", False),
        ("Deconvolution1D", {"tp": "deconv1d", "dim": 5, "PSF": [1, 2, 3], "BC": "zero"}, "float64", True),
        ("Deconvolution2D", {"tp": "deconv2d", "dim": 3, "PSF": [[1, 0, 2], [0, 3, 1], [1, 1, 0]], "BC": "periodic"}, "float64", False),
        ("Abel1D", {"tp": "abel", "dim": 4}, "float64", True),
    ]
    # Deconvolution2D under the other four boundary conditions (C07_deconv2_get_matrix: forward(Samples(I)) = get_matrix() for all five):
    # the parameter forms of forward / adjoint only
    only = {}
    for bc in ("zero", "nearest", "neumann", "mirror"):
        models.append(("Deconvolution2D-" + bc, {"tp": "deconv2d", "dim": 3, "PSF": [[1, 0, 2], [0, 3, 1], [1, 1, 0]], "BC": bc}, "float64", False))
        only["Deconvolution2D-" + bc] = (("forward", "adjoint"), ("arr_par", "samples_par"))
    # the cases of these two carry long exact rationals (dst matrices, Abel quadrature weights): T is left to the other backings
    only["dense@kl"] = (("forward", "adjoint"), tuple(INFORMS))
    only["Abel1D"] = (("forward", "adjoint", "matmul"), tuple(INFORMS))
    out = []
    for label, ms, opdt, batches in models:
        if ms.get("impl") == "matmul":
            ms["par"] = ms["A"]
        m0 = build_model({"model": ms})
        for call in INCALLS:
            dom_side = call in ("forward", "matmul", "T.adjoint")
            Gin = m0.D if dom_side else m0.R
            for form in INFORMS:
                if label in only and (call not in only[label][0] or form not in only[label][1]):
                    continue
                if form.startswith("batch") and not batches:
                    continue
                if call == "matmul" and form.endswith("_fun"):
                    continue            # `model @ x` has no is_par argument
                meta = {"op": "inform", "model": ms, "opdt": opdt, "call": call, "form": form, "vals": inform_values(rng, Gin)}
                out.extend(inform_case(meta, "input-form/%s/%s/%s" % (label, call, form)))
    return out


@guarded
def make_cases(meta, cell, trivial=False):
    """all Case objects of one (model, operation, x, y)"""
    m = build_model(meta)
    o, (detail, sig), expr = run_one(m, meta)
    cases = [Case(expr=expr, meta=meta, cell=cell, trivial=trivial, kind="EXACT" if m.exact else "DECISION")]
    if detail:
        cases.append(Case(expr="true", meta=dict(meta, verdict="oracle"), cell="oracle-verdict/" + cell, trivial=True, impl_fail=detail, signature=sig))
    return cases


# ------------------------------------------------------------------------------------------------
# Deconvolution1D: matrix assembly
# ------------------------------------------------------------------------------------------------
def conv1d_ref(x, w, mode):
    """scipy.ndimage.convolve1d written out (checked against scipy for every mode, n <= 7, L <= 11 at build time)"""
    n, L = len(x), len(w)

    def ext(i):
        if 0 <= i < n:
            return x[i]
        if mode == "constant":
            return 0
        if mode == "wrap":
            return x[i % n]
        if mode == "nearest":
            return x[0] if i < 0 else x[n - 1]
        if mode == "reflect":
            p = 2 * n; j = i % p
            return x[j] if j < n else x[p - 1 - j]
        if mode == "mirror":
            if n == 1:
                return x[0]
            p = 2 * n - 2; j = i % p
            return x[j] if j < n else x[p - j]
    return [sum(frac(w[k]) * ext(i - k + L // 2) for k in range(L)) for i in range(n)]


@guarded
def deconv1d_matrix_case(spec, cell):
    import scipy.sparse as sp
    tp = build_testproblem(spec)
    A = tp.model._matrix
    A = np.asarray(A.todense()) if sp.issparse(A) else np.asarray(A)
    n = spec["dim"]
    P = psf_used_1d(spec)
    mode, bcn = BC1[spec["BC"].lower()]
    cols = [conv1d_ref([Fraction(int(i == j)) for i in range(n)], list(P), mode) for j in range(n)]   # cols[j] = A_true e_j
    true = transpose(cols, n)
    obs = [[float(a) for a in r] for r in A]
    intP = all(frac(p).denominator == 1 for p in P)
    is_cols = same_mat(obs, true, intP)
    is_rows = same_mat(obs, cols, intP)
    meta = {"op": "deconv1d_matrix", "model": spec}
    detail, sig = None, ""
    if not is_cols:
        j = next(j for j in range(n) if not same_vec([r[j] for r in obs], cols[j], intP))
        detail = ("Deconvolution1D(dim=%d, PSF=%s, BC=%s): column %d of the model matrix is %s but convolve1d(e_%d, PSF, mode=%s) = %s"
                  % (n, [float(p) for p in P], spec["BC"], j, [r[j] for r in obs], j, mode, [float(v) for v in cols[j]]))
        sig = "Deconvolution1D.__init__|transposed-assembly" if is_rows else "Deconvolution1D.__init__|matrix-mismatch"
    expr = "check_matrix %s (deconv1_matrix %s %s %s %s) %s" % (ctol(intP), cbool(is_rows and not is_cols), bcn, enc_vec(list(P)), cnat(n), enc_mat(obs))
    cases = [Case(expr=expr, meta=meta, cell=cell, kind="EXACT" if intP else "DECISION")]
    if detail:
        cases.append(Case(expr="true", meta=dict(meta, verdict="oracle"), cell="oracle-verdict/" + cell, trivial=True, impl_fail=detail, signature=sig))
    return cases


# ------------------------------------------------------------------------------------------------
# generator
# ------------------------------------------------------------------------------------------------
def rvec(rng, n, lo=-3, hi=3):
    return [rng.randint(lo, hi) for _ in range(n)]


def rmat(rng, r, c, lo=-3, hi=3):
    return [[rng.randint(lo, hi) for _ in range(c)] for _ in range(r)]


def geom_specs_1d(n):
    """geometries whose function values are vectors, by parameter dimension n: identity-like ones (fun_dim = n)"""
    return [["int", n], ["cont1d", n], ["discrete", n]] + ([["image_visual", 2, n // 2]] if n % 2 == 0 and n >= 4 else [])


def run(ctx):
    import cuqi
    rng = ctx.rng
    cases = []
    reps = ctx.n(2, 8)
    OPS = ["fa", "gm", "T", "T_after_gm"]

    def add(ms, op, x, y, cell, trivial=False):
        meta = {"op": op, "model": ms, "x": x, "y": y}
        cases.extend(make_cases(meta, cell, trivial))

    def xy(D, R):
        return rvec(rng, D.par_dim), rvec(rng, R.par_dim)

    # ---- 1. matrix-backed, identity-like geometries (incl. inferred geometries, sparse) -------------------------
    for backing in ("dense", "csc", "csr"):
        for (nr, nc) in [(1, 1), (2, 3), (4, 4), (5, 2), (3, 6)]:
            for gi, (Ds, Rs) in enumerate(itertools.product(geom_specs_1d(nc), geom_specs_1d(nr))):
                if not ctx.thorough and (gi + nr + nc + len(backing)) % 3 != 0:
                    continue
                for op in OPS:
                    for _ in range(1 if op != "fa" else reps):
                        A = rmat(rng, nr, nc)
                        ms = {"backing": backing, "A": A, "D": Ds, "R": Rs}
                        D, R = mk_geom(Ds), mk_geom(Rs)
                        x, y = xy(D, R)
                        add(ms, op, x, y, "%s/identity-like/%s" % (backing, op))
            for op in OPS:   # geometries inferred from the matrix
                A = rmat(rng, nr, nc)
                ms = {"backing": backing, "A": A, "D": ["int", nc], "R": ["int", nr], "infer_geom": True}
                add(ms, op, rvec(rng, nc), rvec(rng, nr), "%s/inferred-geometry/%s" % (backing, op))
    # trivial / boundary: identity matrix, zero vectors
    for n in (1, 3):
        I = [[int(i == j) for j in range(n)] for i in range(n)]
        for op in OPS:
            add({"backing": "dense", "A": I, "D": ["int", n], "R": ["int", n]}, op, rvec(rng, n), rvec(rng, n), "dense/identity-matrix/" + op, trivial=True)
            add({"backing": "dense", "A": rmat(rng, n, n), "D": ["cont1d", n], "R": ["int", n]}, op, [0] * n, [0] * n, "dense/zero-vectors/" + op, trivial=True)

    # ---- 2. function-backed, every orthogonal geometry class on both sides --------------------------------------
    def orth_specs(n):
        out = geom_specs_1d(n)
        for (r, c) in [(2, 3), (3, 2), (2, 2), (1, 4), (3, 1)]:
            if r * c == n:
                out += [["image", r, c, "C"], ["image", r, c, "F"], ["tuple", r, c]]
                if r >= 2 and c >= 2:
                    out += [["cont2d", r, c]]
        return out
    pairs = []
    for (nD, nR) in [(6, 6), (6, 4), (4, 6), (3, 4), (4, 3), (6, 2)]:
        for Ds in orth_specs(nD):
            for Rs in orth_specs(nR):
                pairs.append((Ds, Rs, nD, nR))
    for pi, (Ds, Rs, nD, nR) in enumerate(pairs):
        img = Ds[0] in ("image", "tuple", "cont2d") or Rs[0] in ("image", "tuple", "cont2d")
        if not ctx.thorough and not ((img and pi % 4 == 0) or pi % 11 == 0):
            continue
        for op in OPS:
            for _ in range(1 if op != "fa" else reps):
                ms = {"backing": "function", "A": rmat(rng, nR, nD), "D": Ds, "R": Rs}
                add(ms, op, rvec(rng, nD), rvec(rng, nR), "function/%s->%s/%s" % (mk_geom(Ds).family, mk_geom(Rs).family, op))

    # ---- 2b. function pairs that return a VIEW of their argument, the argument itself, or modify it in place -----
    # (get_matrix / T.get_matrix reuse one unit-vector buffer: anything that keeps the returned column without copying it
    #  ends up with zeros; results must stay what they were after later calls)
    perm5 = list(range(5)); rng.shuffle(perm5)
    view_specs = [("identity", 3, None), ("identity_view", 4, None), ("ravel", 3, None), ("decimate", 6, 2), ("decimate", 7, 3),
                  ("upsample", 6, 2), ("upsample", 5, 3), ("window", 6, [1, 4]), ("embed", 6, [2, 5]), ("flip", 4, None), ("flip", 5, None),
                  ("perm", 5, perm5), ("inplace_scale", 3, 2), ("inplace_scale", 4, 0.5)]
    for vi, (kind, n, par) in enumerate(view_specs):
        A = impl_pair(kind, n, par)[2]
        nR, nD = A.shape
        combos = list(itertools.product(geom_specs_1d(nD), geom_specs_1d(nR)))
        if not ctx.thorough:
            combos = [combos[0], combos[(vi + 1) % len(combos)], combos[(2 * vi + 3) % len(combos)]]
        for (Ds, Rs) in combos:
            for op in OPS:
                for _ in range(1 if op != "fa" else reps):
                    ms = {"backing": "function", "impl": kind, "n": n, "par": par, "A": [[int(v) if float(v).is_integer() else float(v) for v in r] for r in A],
                          "D": Ds, "R": Rs}
                    add(ms, op, rvec(rng, nD), rvec(rng, nR), "function-view/%s/%s" % (kind, op), trivial=(kind == "identity"))
    # the same through reshaping geometries: Image2D.par2fun / fun2par are themselves views (reshape / ravel) of the parameter vector
    img_pairs = [(["image", 2, 3, "C"], ["image", 2, 3, "C"]), (["image", 2, 3, "C"], ["image", 2, 3, "F"]), (["image", 3, 2, "F"], ["image", 3, 2, "F"]),
                 (["tuple", 2, 2], ["cont2d", 2, 2]), (["image", 2, 2, "F"], ["tuple", 2, 2])]
    for kind in ("identity", "identity_view"):
        for (Ds, Rs) in img_pairs:
            n = Ds[1] * Ds[2]
            for op in OPS:
                for _ in range(1 if op != "fa" else reps):
                    ms = {"backing": "function", "impl": kind, "n": n, "par": None, "A": [[int(i == j) for j in range(n)] for i in range(n)], "D": Ds, "R": Rs}
                    add(ms, op, rvec(rng, n), rvec(rng, n), "function-view/%s@%s->%s/%s" % (kind, mk_geom(Ds).family, mk_geom(Rs).family, op))
    # callables returning a list / tuple: forward and adjoint accept them (get_matrix does not: it indexes the column as an array)
    for kind, n, par in [("decimate_list", 6, 2), ("decimate_tuple", 5, 2)]:
        A = impl_pair(kind, n, par)[2]
        for _ in range(reps):
            ms = {"backing": "function", "impl": kind, "n": n, "par": par, "A": [[int(v) for v in r] for r in A], "D": ["int", A.shape[1]], "R": ["cont1d", A.shape[0]]}
            add(ms, "fa", rvec(rng, A.shape[1]), rvec(rng, A.shape[0]), "function-view/%s/fa" % kind)

    # ---- 2b'. callables that return their result in another memory layout (Fortran order as from LAPACK / transposed products, transposed
    #           views, strided windows) or dtype: the conversion back to parameters must read VALUES, not buffers --------------------------------
    lay_geoms = [["cont2d", 2, 3], ["cont2d", 3, 2], ["image", 2, 3, "C"], ["image", 3, 2, "F"], ["tuple", 2, 3], ["cont1d", 6], ["image_visual", 2, 3]]
    for li, layout in enumerate(("fortran", "transposed-view", "strided", "float32")):
        for gi, Ds in enumerate(lay_geoms):
            for gj, Rs in enumerate(lay_geoms):
                if not ctx.thorough and (gi + 2 * gj + li) % 4 != 0 and not (Ds[0] == "cont2d" and Rs[0] == "cont2d"):
                    continue
                for op in OPS:
                    ms = {"backing": "function", "A": rmat(rng, 6, 6), "D": Ds, "R": Rs, "out_layout": layout}
                    add(ms, op, rvec(rng, 6), rvec(rng, 6), "function-layout-%s/%s->%s/%s" % (layout, mk_geom(Ds).family, mk_geom(Rs).family, op))

    # ---- 2c. a MATRIX applied through image geometries: X |-> A X (get_matrix then returns the stored k x n matrix for a (k c) x (n c) map)
    for backing in ("dense", "csc"):
        for (k, n, c, oD, oR) in [(2, 3, 2, "C", "C"), (3, 2, 2, "F", "C"), (2, 2, 3, "C", "F"), (1, 3, 1, "F", "F")]:
            for op in OPS:
                for _ in range(1 if op != "fa" else reps):
                    ms = {"backing": backing, "A": rmat(rng, k, n), "D": ["image", n, c, oD], "R": ["image", k, c, oR]}
                    add(ms, op, rvec(rng, n * c), rvec(rng, k * c), "matrix@image/%s/%s" % (backing, op))

    # ---- 2d. dyadic magnitude sweep (exact arithmetic: any absolute tolerance in the code shows) -----------------------------
    for sc in (-40, -20, 30):
        f = 2.0 ** sc
        for (ms0, nD, nR) in [({"backing": "dense", "D": ["cont1d", 3], "R": ["int", 2]}, 3, 2), ({"backing": "csr", "D": ["int", 2], "R": ["discrete", 3]}, 2, 3),
                              ({"backing": "function", "D": ["image", 2, 2, "F"], "R": ["cont1d", 3]}, 4, 3)]:
            for op in OPS:
                ms = dict(ms0, A=rmat(rng, nR, nD), scale=sc)
                add(ms, op, [v * f for v in rvec(rng, nD)], [v * f for v in rvec(rng, nR)], "scale-2^%d/%s/%s" % (sc, ms0["backing"], op))

    # ---- 2e. every representation of the input: ndarray / CUQIarray / Samples, parameters or function values (is_par=False) ----
    rep_models = [{"backing": "dense", "A": None, "D": ["cont1d", 3], "R": ["int", 2]},
                  {"backing": "csc", "A": None, "D": ["discrete", 2], "R": ["cont1d", 3]},
                  {"backing": "function", "A": None, "D": ["image", 2, 2, "F"], "R": ["image", 3, 1, "C"]},
                  {"backing": "function", "A": None, "D": ["tuple", 2, 2], "R": ["cont2d", 2, 2]},
                  {"backing": "function", "A": None, "D": ["cont1d", 3], "R": ["image", 2, 2, "C"]},
                  {"backing": "dense", "A": None, "D": ["image", 3, 2, "C"], "R": ["image", 2, 2, "F"]},
                  {"backing": "dense", "A": None, "D": ["step", 6, 3], "R": ["int", 2]},
                  {"backing": "function", "A": None, "D": ["int", 3], "R": ["step", 4, 2]},
                  {"backing": "dense", "A": None, "D": ["kl", 4, 3, 1.5, 2.0], "R": ["int", 2]},
                  {"backing": "function", "A": None, "D": ["mapped", 2, 1, ["cont1d", 3]], "R": ["mapped", 1, 4, ["discrete", 2]]},
                  {"backing": "function", "impl": "decimate", "n": 5, "par": 2, "A": None, "D": ["int", 5], "R": ["cont1d", 3]},
                  {"tp": "deconv2d", "dim": 4, "PSF": [[1, 0, 2], [0, 3, 1], [1, 1, 0]], "BC": "periodic"},
                  {"tp": "deconv1d", "dim": 5, "PSF": [1, 2, 3], "BC": "zero"},
                  {"tp": "abel", "dim": 4, "field_type": "Discrete"}]
    for ms in rep_models:
        ms = dict(ms)
        if "tp" in ms:
            nD, nR = tp_dims(ms)
            label = ms["tp"]
        else:
            D, R = mk_geom(ms["D"]), mk_geom(ms["R"])
            nD, nR = D.par_dim, R.par_dim
            if ms.get("impl"):
                ms["A"] = [[int(v) for v in r] for r in impl_pair(ms["impl"], ms["n"], ms["par"])[2]]
            elif ms["backing"] != "function" and D.fun_shape != (D.fun_dim,):       # matrix @ image
                ms["A"] = rmat(rng, R.fun_shape[0], D.fun_shape[0])
            else:
                ms["A"] = rmat(rng, R.fun_dim, D.fun_dim)
            label = "%s/%s->%s" % ("matrix" if ms["backing"] != "function" else "function", D.family, R.family)
        for _ in range(ctx.n(1, 3)):
            meta = {"op": "rep", "model": ms, "x": rvec(rng, nD), "y": rvec(rng, nR), "x2": rvec(rng, nD), "y2": rvec(rng, nR)}
            cases.extend(make_cases(meta, "representations/" + label))

    # ---- 2h. every storage format / layout / dtype of a given matrix (declaration style is not structure) ---------------------
    for backing in ("coo", "lil", "dia", "bsr", "dok", "fortran", "intdtype"):
        for (nr, nc, Ds, Rs) in [(2, 3, ["cont1d", 3], ["int", 2]), (4, 4, ["discrete", 4], ["image_visual", 2, 2])]:
            for op in OPS:
                add({"backing": backing, "A": rmat(rng, nr, nc), "D": Ds, "R": Rs}, op, rvec(rng, nc), rvec(rng, nr), "format-%s/%s" % (backing, op))
    # falsy but legitimate: the zero matrix, rank-deficient matrices, 1 x n and n x 1
    for A0, lab in (([[0, 0, 0], [0, 0, 0]], "zero"), ([[1, 2, 3], [2, 4, 6]], "rank1"), ([[0, 2, 0]], "row"), ([[0], [3], [0]], "column")):
        for backing in ("dense", "csr", "function"):
            for op in OPS:
                nr, nc = len(A0), len(A0[0])
                add({"backing": backing, "A": A0, "D": ["cont1d", nc], "R": ["int", nr]}, op, rvec(rng, nc), rvec(rng, nr), "falsy-%s/%s/%s" % (lab, backing, op))

    # ---- 2i. the model object re-used after one of its geometries was re-assigned (tests and demos of the library do that):
    #          get_matrix() must follow, i.e. not hand out the matrix cached for the former geometry ----------------------------
    for (Ds, Ds2) in [(["image", 2, 2, "C"], ["image", 2, 2, "F"]), (["cont1d", 4], ["mapped", 2, 1, ["cont1d", 4]])]:
        cases.extend(reassign_case({"op": "gm_reassign", "model": {"backing": "function", "A": rmat(rng, 3, 4), "D": Ds, "R": ["int", 3]}, "D2": Ds2,
                                    "x": rvec(rng, 4), "y": rvec(rng, 3)}, "reassigned-geometry/%s->%s" % (mk_geom(Ds).family, mk_geom(Ds2).family)))

    # ---- 2j. round-4 lessons ---------------------------------------------------------------------------------------------------
    # L18 exact zeros inside otherwise generic data: a zero column and a zero row, zeros inside x and y
    for backing in ("dense", "csc", "function"):
        for op in OPS:
            A = rmat(rng, 3, 4)
            for i in range(3):
                A[i][1] = 0
            A[2] = [0, 0, 0, 0]
            x = rvec(rng, 4); x[0] = 0; x[2] = 0
            y = rvec(rng, 3); y[1] = 0
            add({"backing": backing, "A": A, "D": ["cont1d", 4], "R": ["discrete", 3]}, op, x, y, "exact-zeros/%s/%s" % (backing, op))
    # L26 large offsets next to small entries (any relative tolerance in a place that must be exact shows): still exact in binary64
    for backing in ("dense", "csr", "function"):
        for op in OPS:
            A = [[(2 ** 24) * rng.randint(1, 3) if (i + j) % 2 == 0 else rng.randint(-3, 3) for j in range(3)] for i in range(2)]
            add({"backing": backing, "A": A, "D": ["cont1d", 3], "R": ["int", 2]}, op, [2 ** 16 + v for v in rvec(rng, 3)], [rvec(rng, 1)[0], 2 ** 16 + 1],
                "mixed-magnitude/%s/%s" % (backing, op))
    # L19 a callable that fills and returns one pre-allocated work buffer at every call
    for (nr, nc, Ds, Rs) in [(2, 3, ["int", 3], ["cont1d", 2]), (3, 3, ["discrete", 3], ["image_visual", 1, 3])]:
        for op in OPS:
            for _ in range(1 if op != "fa" else reps):
                Mw = rmat(rng, nr, nc)
                add({"backing": "function", "impl": "workbuffer", "n": nc, "par": Mw, "A": Mw, "D": Ds, "R": Rs}, op, rvec(rng, nc), rvec(rng, nr), "function-view/workbuffer/%s" % op)
    # L23 user subclasses of the library's geometries on either side (exact-type tests in the code must not change the maps)
    for (backing, Ds, Rs, nr, nc) in [("dense", ["sub1d", 3], ["int", 2], 2, 3), ("function", ["cont1d", 3], ["sub1d", 2], 2, 3), ("csc", ["sub1d", 2], ["sub1d", 2], 2, 2),
                                      ("function", ["subimage", 2, 2, "F"], ["subimage", 2, 1, "C"], 2, 4)]:
        for op in OPS:
            add({"backing": backing, "A": rmat(rng, nr, nc), "D": Ds, "R": Rs}, op, rvec(rng, nc), rvec(rng, nr), "subclass-geometry/%s/%s" % (backing, op))
    # L17 the callable's argument named like arguments / attributes of the model's own methods
    for nm in ("y", "wrt", "direction", "geometry", "func", "is_par_"):
        A = rmat(rng, 2, 3)
        cases.extend(argname_case({"op": "argname", "name": nm, "model": {"backing": "function", "A": A, "D": ["cont1d", 3], "R": ["int", 2]}, "x": rvec(rng, 3), "y": rvec(rng, 2)},
                                  "argument-name/" + nm))
    # L20 integer-dtype custom PSFs ; L21 one-step / one-mode expansions are in the expansion section below, Defocus with PSF_param = 0 here
    for bc in ("periodic", "neumann", "zero"):
        add({"tp": "deconv2d", "dim": 4, "PSF": [[1, 0, 2], [0, 3, 1], [1, 1, 0]], "BC": bc, "psf_dtype": "int"}, "fa", rvec(rng, 16), rvec(rng, 16), "Deconvolution2D/%s/int-dtype-PSF/fa" % bc)
        add({"tp": "deconv1d", "dim": 5, "PSF": [1, 2, 3], "BC": bc if bc != "neumann" else "reflect", "psf_dtype": "int"}, "fa", rvec(rng, 5), rvec(rng, 5), "Deconvolution1D/%s/int-dtype-PSF/fa" % bc)
        add({"tp": "deconv2d", "dim": 4, "PSF": "defocus", "PSF_param": 0, "PSF_size": 3, "BC": bc}, "fa", rvec(rng, 16), rvec(rng, 16), "Deconvolution2D/%s/defocus-param0/fa" % bc)
    # L22 the SHIPPED DEFAULTS (dim=128, Gauss PSF of size 21 resp. dim): too large for the model, so oracle only
    cases.extend(defaults_cases(rng))

    # ---- 2k. INPUT FORMS x dtype x layout of forward / adjoint / T / @ for every backing (lesson L20 beyond plain arrays) -------
    cases.extend(inform_lattice(ctx, rng))

    # ---- 2f. gradient of the LinearModel (= adjoint for identity-type geometries, refused for the others, chain rule through a
    #          user geometry that brings its own gradient) -------------------------------------------------------------
    grad_models = [("dense", ["cont1d", 3], ["int", 2]), ("csr", ["discrete", 2], ["cont1d", 3]), ("function", ["int", 3], ["discrete", 3]),
                   ("function", ["image", 2, 2, "F"], ["image", 3, 1, "C"]), ("function", ["tuple", 2, 2], ["cont2d", 2, 2]),
                   ("function", ["image_visual", 2, 2], ["cont1d", 2]), ("dense", ["image", 3, 2, "C"], ["image", 2, 2, "F"]),
                   # refused: range or domain not of identity type
                   ("dense", ["cont1d", 3], ["step", 4, 2]), ("function", ["int", 3], ["kl", 4, 3, 1.5, 2.0]), ("dense", ["cont1d", 2], ["mapped", 2, 1, ["cont1d", 3]]),
                   ("dense", ["step", 6, 3], ["int", 2]), ("dense", ["step", 3, 3], ["int", 2]), ("function", ["kl", 4, 4, 1.0, 1.0], ["cont1d", 2]),
                   ("dense", ["mapped", 2, 1, ["cont1d", 3]], ["int", 2]), ("function", ["step", 4, 2, "max"], ["int", 3]),
                   # a user geometry with its own gradient: the chain-rule factor
                   ("dense", ["mapped_grad", 2, 1, ["cont1d", 3]], ["int", 2]), ("function", ["mapped_grad", 1, 4, ["discrete", 2]], ["cont1d", 3]),
                   ("csc", ["mapped_grad", -1, 1, ["cont1d", 3]], ["discrete", 2]), ("function", ["mapped_grad", 3, 2, ["int", 3]], ["image", 2, 2, "F"]),
                   ("dense", ["mapped_grad", 2, 1, ["cont1d", 3]], ["step", 4, 2])]
    for (backing, Ds, Rs) in grad_models:
        D, R = mk_geom(Ds), mk_geom(Rs)
        for _ in range(ctx.n(2, 5)):
            if backing != "function" and D.fun_shape != (D.fun_dim,):
                A = rmat(rng, R.fun_shape[0], D.fun_shape[0])
            else:
                A = rmat(rng, R.fun_dim, D.fun_dim)
            meta = {"op": "grad", "model": {"backing": backing, "A": A, "D": Ds, "R": Rs}, "x": rvec(rng, D.par_dim), "y": rvec(rng, R.par_dim), "x2": rvec(rng, D.par_dim)}
            cases.extend(make_cases(meta, "gradient/%s/%s%s->%s" % ("matrix" if backing != "function" else backing, D.family, "+gradient" if D.userg else "", R.family)))
    for tp_spec in ({"tp": "deconv2d", "dim": 4, "PSF": [[1, 0, 2], [0, 3, 1], [1, 1, 0]], "BC": "zero"}, {"tp": "deconv1d", "dim": 5, "PSF": [1, 2, 3], "BC": "nearest"},
                    {"tp": "abel", "dim": 4}, {"tp": "abel", "dim": 6, "field_type": "Step", "field_params": {"n_steps": 3}}):
        nD, nR = tp_dims(tp_spec)
        meta = {"op": "grad", "model": tp_spec, "x": rvec(rng, nD), "y": rvec(rng, nR), "x2": rvec(rng, nD)}
        cases.extend(make_cases(meta, "gradient/testproblem/" + tp_spec["tp"]))

    # ---- 2g. the dst/idst law assumed by C07_kl_left_inverse, on the very matrices the KL cells run with ----------------------
    from scipy.fftpack import dst as _dst, idst as _idst
    for N in (4, 5, 6):
        dM, iM = enc_mat(_dst(np.eye(N), axis=0)), enc_mat(_idst(np.eye(N), axis=0))
        expr = ("qcll_close tol9 (map (fun j => qmatvec %s (qmatvec %s (qunit %s j))) (seq 0 %s)) "
                "(map (fun j => qvscale (qcz 2 * qcz %s)%%Qc (qunit %s j)) (seq 0 %s))" % (dM, iM, cnat(N), cnat(N), cz(N), cnat(N), cnat(N)))
        cases.append(Case(expr=expr, meta={"op": "dst_law", "N": N}, cell="KL-dst-law", kind="DECISION"))

    # ---- 3. expansions and mapped geometries (non-orthogonal maps), both backings, domain and range side --------
    exp_specs = [["step", 6, 3, "max"], ["step", 5, 2, "min"], ["step", 3, 3, "max"], ["step", 6, 3], ["step", 4, 2], ["step", 8, 4], ["step", 7, 3], ["step", 5, 2], ["step", 3, 3], ["step", 9, 2],
                 ["step", 4, 1], ["kl", 4, 1, 1.0, 1.0], ["kl", 6, None, 2.5, 12.0], ["kl", 5, 3, 1.5, 2.0], ["kl", 4, 4, 1.0, 1.0], ["kl", 4, 7, 2.0, 3.0],
                 ["mapped", 2, 1, ["cont1d", 3]], ["mapped", 1, 4, ["discrete", 4]], ["mapped", -1, 1, ["cont1d", 3]],
                 ["mapped", 1, 1, ["cont1d", 4]], ["mapped", 2, 1, ["step", 6, 3]], ["mapped", 4, 1, ["image", 2, 2, "F"]]]
    for es in exp_specs:
        E = mk_geom(es)
        for side in ("domain", "range", "both"):
            for backing in ("dense", "csc", "function"):
                if es[0] == "mapped" and es[3][0] == "image" and backing != "function":
                    continue
                if not ctx.thorough and side == "both" and backing == "csc":
                    continue
                other = ["cont1d", 3] if backing != "function" or rng.random() < 0.5 else ["image", 3, 1, "F"]
                Ds = es if side in ("domain", "both") else other
                Rs = es if side in ("range", "both") else other
                D, R = mk_geom(Ds), mk_geom(Rs)
                for op in OPS:
                    for _ in range(1 if op != "fa" else reps):
                        ms = {"backing": backing, "A": rmat(rng, R.fun_dim, D.fun_dim), "D": Ds, "R": Rs}
                        x, y = xy(D, R)
                        add(ms, op, x, y, "%s/%s@%s/%s" % ("matrix" if backing != "function" else backing, E.family, side, op))

    # ---- 4. shipped test problems ---------------------------------------------------------------------------------
    int_psfs_1d = {"sym3": [1, 2, 1], "asym3": [1, 2, 3], "asym4": [1, 2, 3, 4], "sym4": [1, 2, 2, 1], "asym5": [3, 0, 1, 2, 1],
                   "sym5": [1, 2, 4, 2, 1], "long7": [1, 0, 2, 3, 1, 1, 2], "one": [2],
                   "asym8": [1, 0, 2, 3, 1, 1, 2, 4], "long13": [1, 2, 0, 0, 3, 1, 0, 2, 1, 1, 0, 0, 5]}      # longer than the signal, even and odd
    for bc in BC1:
        for dim in (5, 6):
            specs = [{"tp": "deconv1d", "dim": dim, "PSF": p, "BC": bc, "psf_name": nm} for nm, p in int_psfs_1d.items()]
            for name in ("gauss", "moffat", "defocus"):
                for size in (3, 4, None):
                    specs.append({"tp": "deconv1d", "dim": dim, "PSF": name, "PSF_param": rng.choice([1, 2, 1.5]), "PSF_size": size, "BC": bc,
                                  "psf_name": "%s%s" % (name, size or "dim")})
            for sp_ in specs:
                par = "even" if len(psf_used_1d(sp_)) % 2 == 0 else "odd"
                cell = "Deconvolution1D/%s/%s-%s" % (bc, "int" if isinstance(sp_["PSF"], list) else sp_["PSF"], par)
                cases.extend(deconv1d_matrix_case(sp_, cell + "/matrix"))
                if ctx.thorough or sp_["psf_name"] in ("asym3", "asym4", "gauss4", "moffat3", "defocusdim", "asym8"):
                    for op in OPS:
                        add(sp_, op, rvec(rng, dim), rvec(rng, dim), cell + "/" + op)
    for psf in ("gauss", "sinc", "vonmises", [0, 1, 3, 2, 0, 0]):
        sp_ = {"tp": "deconv1d", "dim": 6, "PSF": psf, "BC": "periodic", "legacy": True}
        for op in OPS:
            add(sp_, op, rvec(rng, 6), rvec(rng, 6), "Deconvolution1D/legacy/" + op)

    int_psfs_2d = {"sym3": [[0, 1, 0], [1, 2, 1], [0, 1, 0]], "asym3": [[1, 0, 2], [0, 3, 1], [1, 1, 0]],
                   "asym4": [[1, 0, 2, 1], [0, 3, 1, 0], [1, 1, 0, 2], [0, 1, 0, 1]],
                   "asym5": [[1, 0, 2, 1, 0], [0, 3, 1, 0, 1], [1, 1, 4, 2, 0], [0, 1, 0, 1, 1], [2, 0, 1, 0, 1]],
                   "dsym5": [[a * b for b in (1, 2, 3, 2, 1)] for a in (1, 2, 3, 2, 1)],
                   "sym2": [[1, 1], [1, 1]],
                   # custom PSFs: P != P^T (motion blur), larger than the image (odd and even), anisotropic point-symmetric
                   "motion3": [[0, 0, 0], [1, 2, 3], [0, 0, 0]], "aniso3": [[1, 2, 1], [3, 5, 3], [1, 2, 1]],
                   "big7": [[((3 * i + 5 * j + i * j) % 7) - 2 if (i + 2 * j) % 3 else 0 for j in range(7)] for i in range(7)],
                   "big6": [[((2 * i + 3 * j + 1) % 5) - 1 if (i + j) % 2 else 0 for j in range(6)] for i in range(6)]}
    for bc in BC2:
        for dim in (4, 5):
            specs = [{"tp": "deconv2d", "dim": dim, "PSF": p, "BC": bc, "psf_name": nm} for nm, p in int_psfs_2d.items()]
            for name in ("gauss", "moffat", "defocus"):
                for size in (3, 4, 5):
                    specs.append({"tp": "deconv2d", "dim": dim, "PSF": name, "PSF_param": rng.choice([1, 2, 1.5]), "PSF_size": size, "BC": bc,
                                  "psf_name": "%s%d" % (name, size)})
            if dim == 4:    # exact-threshold sizes: the padding is wider than the image itself (several wraps / reflections)
                specs += [{"tp": "deconv2d", "dim": 2, "PSF": int_psfs_2d[nm], "BC": bc, "psf_name": nm + "@2"} for nm in ("big7", "big6", "asym5")]
            for sp_ in specs:
                S = len(sp_["PSF"]) if isinstance(sp_["PSF"], list) else sp_["PSF_size"]
                cell = "Deconvolution2D/%s/%s-%s" % (bc, "int" if isinstance(sp_["PSF"], list) else sp_["PSF"], "even" if S % 2 == 0 else "odd")
                for _ in range(reps if isinstance(sp_["PSF"], list) else 1):
                    add(sp_, "fa", rvec(rng, sp_["dim"] ** 2), rvec(rng, sp_["dim"] ** 2), cell + "/fa")
                if dim == 4 and (ctx.thorough or sp_["psf_name"] in ("asym3", "asym4", "gauss3", "sym3", "motion3", "big7")):
                    for op in ("gm", "T", "T_after_gm"):
                        add(sp_, op, rvec(rng, sp_["dim"] ** 2), rvec(rng, sp_["dim"] ** 2), cell + "/" + op)

    # the classes where the identity HOLDS under the non-periodic paddings (C07_deconv2_symmetric_padding_adjoint: 'neumann' with a
    # mirror-symmetric PSF of odd size, every image size, also PSFs wider than the image; C07_deconv2_edge_padding_3x3_adjoint:
    # 'nearest' with a mirror-symmetric 3x3 PSF): a failure here is NOT in a known class
    msym7 = [[(1 + abs(i - 3) + 2 * abs(j - 3)) % 4 for j in range(7)] for i in range(7)]
    msym_psfs = {"sym3": int_psfs_2d["sym3"], "aniso3": int_psfs_2d["aniso3"], "dsym5": int_psfs_2d["dsym5"], "msym7": msym7, "one": [[2]]}
    for bc, names in (("neumann", ("sym3", "aniso3", "dsym5", "msym7", "one")), ("nearest", ("sym3", "aniso3", "one"))):
        for dim in (1, 2, 3, 5):
            for nm in names:
                sp_ = {"tp": "deconv2d", "dim": dim, "PSF": msym_psfs[nm], "BC": bc, "psf_name": nm}
                for op in (("fa", "T") if dim in (2, 3) else ("fa",)):
                    for _ in range(reps if op == "fa" else 1):
                        add(sp_, op, rvec(rng, dim * dim), rvec(rng, dim * dim), "Deconvolution2D/%s/mirror-symmetric-odd-PSF/dim%d/%s" % (bc, dim, op))

    # a non-square custom PSF is refused at construction (the padded convolution has another shape than the image)
    for shp in ((3, 5), (4, 2)):
        P = [[(i + 2 * j) % 4 for j in range(shp[1])] for i in range(shp[0])]
        spec = {"tp": "deconv2d", "dim": 5, "PSF": P, "BC": "periodic"}
        try:
            tpn = build_testproblem(spec)
            fxn = call_vec(tpn.model.forward, [1.0] * 25)
            ok, why = isinstance(fxn, list) and len(fxn) == 25, "accepted; forward returns %s" % (fxn if not isinstance(fxn, list) else "a vector of length %d" % len(fxn))
        except Exception as e:
            ok, why = True, "refused: " + type(e).__name__
        cases.append(Case(expr="true", meta={"op": "nonsquare_psf", "model": spec}, cell="Deconvolution2D/nonsquare-PSF", kind="DECISION",
                          impl_fail=None if ok else "Deconvolution2D with a %dx%d PSF: %s" % (shp[0], shp[1], why),
                          signature="" if ok else "Deconvolution2D.__init__|nonsquare-PSF"))

    abel_specs = [{"tp": "abel", "dim": 6}, {"tp": "abel", "dim": 4, "field_type": "Discrete"},
                  {"tp": "abel", "dim": 6, "field_type": "Step", "field_params": {"n_steps": 3}},
                  {"tp": "abel", "dim": 6, "field_type": "Step", "field_params": {"n_steps": 6}},
                  {"tp": "abel", "dim": 5, "field_type": "KL", "field_params": {"num_modes": 3}},
                  {"tp": "abel", "dim": 4, "field_type": "KL"},
                  {"tp": "abel", "dim": 4, "KL_map": 2}]
    for sp_ in abel_specs:
        nDa, nRa = tp_dims(sp_)
        for op in OPS:
            for _ in range(reps if op == "fa" else 1):
                add(sp_, op, rvec(rng, nDa), rvec(rng, nRa),
                    "Abel1D/%s%s/%s" % (sp_.get("field_type") or "default", "+map" if sp_.get("KL_map") else "", op))

    return Result(cases=cases, rule=RULE,
                  assumptions=["KLExpansion.par2fun/fun2par are written out in the model (kl_geom); scipy.fftpack.dst/idst enter as their matrices on unit vectors (external numerics, not CUQIpy code), "
                               "and the law dst(idst v) = 2N v that the left-inverse theorem assumes is checked on those matrices in every run (cell KL-dst-law)",
                               "StepExpansion's node-to-step assignment is read from the implementation's _indices (consecutive non-empty blocks are required); its float boundary behaviour belongs to C13",
                               "the PSF arrays of the shipped generators (_GaussPSF...) are taken from the implementation; Abel1D's and the legacy circulant matrix entries are taken as stored (their formulas belong to C17)",
                               "fftconvolve = direct convolution within 1e-9; scipy.ndimage.convolve1d modes and numpy.pad modes are modelled from their documentation and compared on every run",
                               "a matrix-backed model applied through a 2-D (image) geometry (matrix @ image) and StepExpansion's max/min projections (not linear) are outside the model"])


# ------------------------------------------------------------------------------------------------
# protocol hooks
# ------------------------------------------------------------------------------------------------
def _verdict(meta):
    if meta.get("op") == "deconv1d_matrix":
        cs = deconv1d_matrix_case(meta["model"], "replay")
        bad = [c for c in cs if c.impl_fail]
        return (bad[0].impl_fail, bad[0].signature) if bad else (None, "")
    if meta.get("op") == "gm_reassign":
        bad = [c for c in reassign_case(meta, "replay") if c.impl_fail]
        return (bad[0].impl_fail, bad[0].signature) if bad else (None, "")
    if meta.get("op") == "inform":
        bad = [c for c in inform_case(meta, "replay") if c.impl_fail]
        return (bad[0].impl_fail, bad[0].signature) if bad else (None, "")
    m = build_model(meta)
    return run_one(m, meta)[1]


def oracle(ctx, meta):
    """called for a model/implementation disagreement: does the PROPERTY fail on the implementation for this input,
    in a class where the model does not already predict the failure?"""
    detail, sig = _verdict(meta)
    if detail and not sig.startswith(MODEL_EXPECTED):
        return detail
    return None


def classify(meta, detail):
    try:
        return _verdict(meta)[1] or "C07|" + str(meta.get("op"))
    except Exception:
        return "C07|" + str(meta.get("op"))


WITNESSES = {
    "LinearModel.get_matrix|stale-cache:geometry-reassigned":
        {"op": "gm_reassign", "model": {"backing": "function", "A": [[1, 2, 0, 1], [0, 1, 1, 2], [2, 0, 1, 0]], "D": ["image", 2, 2, "C"], "R": ["int", 3]},
         "D2": ["image", 2, 2, "F"], "x": [1, 2, 3, 4], "y": [1, -1, 2]},
    "LinearModel.get_matrix|nonlinear-projection:StepExpansion":
        {"op": "gm", "model": {"backing": "function", "A": [[1, 0, 0, 0], [0, 1, 0, 0], [0, 0, 1, 0], [0, 0, 0, 1]], "D": ["int", 4], "R": ["step", 4, 2, "max"]},
         "x": [1, 1, 0, 0], "y": [1, 1]},
    "LinearModel.adjoint|nonorthogonal-geometry:StepExpansion":
        {"op": "fa", "model": {"backing": "dense", "A": [[1, 2, 0, 1, 3, 1], [0, 1, 1, 2, 0, 1], [2, 0, 1, 0, 1, 1]], "D": ["step", 6, 3], "R": ["int", 3]},
         "x": [1, 2, 3], "y": [1, -1, 2]},
    "LinearModel.adjoint|nonorthogonal-geometry:KLExpansion":
        {"op": "fa", "model": {"backing": "dense", "A": [[1, 2, 0, 1], [0, 1, 1, 2], [2, 0, 1, 0]], "D": ["kl", 4, None, 2.5, 12.0], "R": ["int", 3]},
         "x": [1, 2, 3, -1], "y": [1, -1, 2]},
    "LinearModel.adjoint|nonorthogonal-geometry:MappedGeometry":
        {"op": "fa", "model": {"backing": "dense", "A": [[1, 2, 3], [0, 1, 1]], "D": ["mapped", 2, 1, ["cont1d", 3]], "R": ["int", 2]},
         "x": [1, 2, 3], "y": [1, -1]},
    "LinearModel.get_matrix|stored-matrix+nonidentity-geometry":
        {"op": "gm", "model": {"backing": "dense", "A": [[1, 2, 0, 1, 3, 1], [0, 1, 1, 2, 0, 1], [2, 0, 1, 0, 1, 1]], "D": ["step", 6, 3], "R": ["int", 3]},
         "x": [1, 2, 3], "y": [1, -1, 2]},
    "LinearModel.T|double-conversion:StepExpansion":
        {"op": "T", "model": {"backing": "function", "A": [[1, 2, 0, 1, 3, 1], [0, 1, 1, 2, 0, 1], [2, 0, 1, 0, 1, 1]], "D": ["step", 6, 3], "R": ["int", 3]},
         "x": [1, 2, 3], "y": [1, -1, 2]},
    "LinearModel.T|double-conversion:KLExpansion":
        {"op": "T", "model": {"backing": "function", "A": [[1, 2, 0, 1], [0, 1, 1, 2], [2, 0, 1, 0]], "D": ["kl", 4, None, 2.5, 12.0], "R": ["int", 3]},
         "x": [1, 2, 3, -1], "y": [1, -1, 2]},
    "LinearModel.T|double-conversion:MappedGeometry":
        {"op": "T", "model": {"backing": "function", "A": [[1, 2, 3], [0, 1, 1]], "D": ["mapped", 2, 1, ["cont1d", 3]], "R": ["int", 2]},
         "x": [1, 2, 3], "y": [1, -1]},
    "Deconvolution1D.__init__|transposed-assembly":
        {"op": "deconv1d_matrix", "model": {"tp": "deconv1d", "dim": 5, "PSF": [1, 2, 3], "BC": "zero"}},
    "_proj_backward_2D|pad:symmetric":
        {"op": "fa", "model": {"tp": "deconv2d", "dim": 4, "PSF": [[1, 0, 2], [0, 3, 1], [1, 1, 0]], "BC": "neumann"},
         "x": [1, 0, 2, -1, 0, 1, 1, 2, -2, 0, 1, 0, 3, 1, 0, -1], "y": [0, 1, 0, 2, 1, -1, 0, 0, 2, 1, 0, 1, -1, 0, 2, 1]},
    "_proj_backward_2D|pad:edge":
        {"op": "fa", "model": {"tp": "deconv2d", "dim": 4, "PSF": [[1, 0, 2], [0, 3, 1], [1, 1, 0]], "BC": "nearest"},
         "x": [1, 0, 2, -1, 0, 1, 1, 2, -2, 0, 1, 0, 3, 1, 0, -1], "y": [0, 1, 0, 2, 1, -1, 0, 0, 2, 1, 0, 1, -1, 0, 2, 1]},
    "_proj_backward_2D|pad:reflect":
        {"op": "fa", "model": {"tp": "deconv2d", "dim": 4, "PSF": [[0, 1, 0], [1, 2, 1], [0, 1, 0]], "BC": "mirror"},
         "x": [1, 0, 2, -1, 0, 1, 1, 2, -2, 0, 1, 0, 3, 1, 0, -1], "y": [0, 1, 0, 2, 1, -1, 0, 0, 2, 1, 0, 1, -1, 0, 2, 1]},
    "_proj_backward_2D|even-PSF":
        {"op": "fa", "model": {"tp": "deconv2d", "dim": 4, "PSF": [[1, 0, 2, 1], [0, 3, 1, 0], [1, 1, 0, 2], [0, 1, 0, 1]], "BC": "periodic"},
         "x": [1, 0, 2, -1, 0, 1, 1, 2, -2, 0, 1, 0, 3, 1, 0, -1], "y": [0, 1, 0, 2, 1, -1, 0, 0, 2, 1, 0, 1, -1, 0, 2, 1]},
}


def known_witnesses(ctx):
    out = {}
    for sig, meta in WITNESSES.items():
        detail, s = _verdict(meta)
        out[sig] = (bool(detail) and s == sig, detail or "witness satisfies the property on this tree")
    return out


def search(ctx):
    """wider search with the property oracle alone (no Coq): every cell of the lattice again with fresh values"""
    saved = ctx.tier
    found = []
    try:
        ctx.tier = "quick"
        res = run(ctx)
        for c in res.cases:
            if c.impl_fail and not c.signature.startswith(MODEL_EXPECTED):
                found.append(c)
    finally:
        ctx.tier = saved
    return found[:5]


def replay(ctx, meta):
    m = meta.get("meta", meta)
    print(json.dumps({k: v for k, v in meta.items() if k != "meta"}, indent=1)[:3000])
    print("case:", json.dumps(m)[:3000])
    if "no_longer_checks" in meta:
        for b in meta["no_longer_checks"] if isinstance(meta["no_longer_checks"], list) else []:
            for c in b.get("cases", [])[:3]:
                print("--- re-running disagreeing case of cell", c.get("cell"))
                _replay_one(c["meta"])
        return 0
    if "witness" in m:
        m = WITNESSES.get(m["witness"], m)
    _replay_one(m)
    return 0


def _replay_one(m):
    if m.get("op") == "deconv1d_matrix":
        for c in deconv1d_matrix_case(m["model"], "replay"):
            print("implementation vs reference:", c.impl_fail or "agree", "| signature:", c.signature)
            if c.expr != "true":
                rc, out = eval_in_coq(IMPORTS, c.expr, tag="replay_C07")
                print("model check:", out[-300:])
        return
    if m.get("op") == "gm_reassign":
        for c in reassign_case(m, "replay"):
            print("oracle:", c.impl_fail or "holds", "| signature:", c.signature)
            if c.expr != "true":
                rc, out = eval_in_coq(IMPORTS, c.expr, tag="replay_C07")
                print("model agrees with implementation:", out[-200:])
        return
    if m.get("op") == "inform":
        for c in inform_case(m, "replay"):
            print("oracle:", c.impl_fail or "holds", "| signature:", c.signature)
            if c.expr != "true":
                last = getattr(inform_case, "last", {})
                print("implementation, per dtype/layout:", json.dumps(last.get("obs"), default=str)[:3000])
                print("plain float64 ndarray reference:", json.dumps(last.get("ref"), default=str)[:1500])
                rc, out = eval_in_coq(IMPORTS, c.expr, tag="replay_C07")
                print("model agrees with implementation:", out[-200:])
        return
    mod = build_model(m)
    o, (detail, sig), expr = run_one(mod, m)
    print("implementation:", json.dumps(o, default=str)[:3000])
    print("property oracle:", detail or "holds", "| signature:", sig)
    rc, out = eval_in_coq(IMPORTS, expr, tag="replay_C07")
    print("model agrees with implementation:", out[-200:])
    if m.get("op") == "fa":
        rc, out = eval_in_coq(IMPORTS, "(as_vec (forward %s (V1 %s)), as_vec (adjoint %s (V1 %s)))" % (mod.coq, enc_vec(m["x"]), mod.coq, enc_vec(m["y"])), tag="replay_C07")
        print("model forward / adjoint:", out[-1500:])
