(* C20 -- two dimensions: the operator vstack[kron(I,D); kron(D,I)] differentiates the rows and the
   columns of the C-order image; null spaces and the rank rule of the 2-d Gaussian field. *)
From CV Require Import Base.Tac Base.Cmp Base.LinAlg Base.QcLin Model.C20_Diff Model.C20_Spec
  Proofs.C20_Lin Proofs.C20_Stencil Proofs.C20_Null Proofs.C20_Gmrf.
From Coq Require Import QArith.
Local Open Scope Z_scope.

(* ---------------- reshape ---------------- *)
Lemma chunks_concat n : forall k x, length x = (k * n)%nat -> concat (chunks n k x) = x.
Proof.
  induction k as [|k IH]; intros x Hx; cbn [chunks concat].
  - destruct x; [reflexivity | discriminate].
  - rewrite IH by (rewrite skipn_length; lia). apply firstn_skipn.
Qed.

Lemma chunks_image n : forall k x, length x = (k * n)%nat ->
  length (chunks n k x) = k /\ wf_mat n (chunks n k x).
Proof.
  induction k as [|k IH]; intros x Hx; cbn [chunks].
  - split; [reflexivity | constructor].
  - destruct (IH (skipn n x)) as [H1 H2]; [rewrite skipn_length; lia|]. split; [cbn [length]; lia|].
    constructor; [rewrite firstn_length; lia | exact H2].
Qed.

Lemma concat_repeat (c : Z) n k : concat (repeat (repeat c n) k) = repeat c (k * n).
Proof.
  induction k as [|k IH]; [reflexivity|]. cbn [repeat concat]. rewrite IH, <- repeat_app. reflexivity.
Qed.

(* ---------------- zero blocks ---------------- *)
Lemma app_zeros a b la lb : length a = la ->
  (a ++ b = zeros (la + lb) <-> a = zeros la /\ b = zeros lb).
Proof.
  intros <-. unfold zeros. rewrite repeat_app. split.
  - revert b. induction a as [|u a IH]; intros b H; cbn [length repeat app] in *; [split; [reflexivity | exact H]|].
    injection H as Hu H. destruct (IH b H) as [Ha Hb]. split; [f_equal; assumption | exact Hb].
  - intros [-> ->]. rewrite repeat_length. reflexivity.
Qed.

Lemma concat_zeros m (L : list (list Z)) : Forall (fun v => length v = m) L ->
  (concat L = zeros (length L * m) <-> Forall (fun v => v = zeros m) L).
Proof.
  intros H. induction H as [|v L Hv HL IH]; cbn [concat length].
  - split; [constructor | reflexivity].
  - replace (S (length L) * m)%nat with (m + length L * m)%nat by lia.
    rewrite (app_zeros v (concat L) m (length L * m) Hv). split.
    + intros [H1 H2]. constructor; [exact H1 | apply IH; exact H2].
    + intros H. inversion H; subst. split; [assumption | apply IH; assumption].
Qed.

Lemma length_concat_const m (L : list (list Z)) : Forall (fun v => length v = m) L ->
  length (concat L) = (length L * m)%nat.
Proof.
  intros H. induction H as [|v L Hv HL IH]; [reflexivity|]. cbn [concat length]. rewrite app_length, IH, Hv. reflexivity.
Qed.

Lemma map_eq_zeros {A} (f : A -> Z) L : map f L = zeros (length L) <-> Forall (fun a => f a = 0) L.
Proof.
  induction L as [|a L IH]; cbn [map length zeros repeat].
  - split; [constructor | reflexivity].
  - split.
    + intros H. injection H as H1 H2. constructor; [exact H1 | apply IH; exact H2].
    + intros H. inversion H; subst. f_equal; [assumption | apply IH; assumption].
Qed.

Lemma kron_length A B : length (kron A B) = (length A * length B)%nat.
Proof.
  unfold kron. induction A as [|a A IH]; [reflexivity|]. cbn [map concat length].
  rewrite app_length, map_length, IH. reflexivity.
Qed.

Lemma zmatvec_app A B x : zmatvec (A ++ B) x = zmatvec A x ++ zmatvec B x.
Proof. apply map_app. Qed.

Lemma zmatvec_zeros M n : zmatvec M (zeros n) = zeros (length M).
Proof.
  unfold zmatvec, matvec, zeros. induction M as [|r M IH]; [reflexivity|]. cbn [map length repeat].
  rewrite IH. f_equal. apply (dot_vzero_r Z 0 1 Z.add Z.mul Z.sub Z.opp Zth).
Qed.

Lemma col_len (X : list (list Z)) c : length (col 0 X c) = length X.
Proof. apply map_length. Qed.

(* ---------------- the 2-d operator differentiates rows and columns ---------------- *)
Theorem stack2d_matvec N D X : wf_mat N D -> image N X ->
  zmatvec (stack2d N D) (concat X) =
  concat (map (fun row => zmatvec D row) X) ++
  concat (map (fun drow => map (fun c => zdot drow (col 0 X c)) (seq 0 N)) D).
Proof.
  intros HD HX. unfold stack2d. rewrite zmatvec_app, kron_eye_l, kron_eye_r by assumption. reflexivity.
Qed.

Lemma stack2d_length N D : length (stack2d N D) = (N * length D + length D * N)%nat.
Proof. unfold stack2d. rewrite app_length, !kron_length, eye_length. reflexivity. Qed.

Lemma concat_zeros' m k (L : list (list Z)) : length L = k -> Forall (fun v => length v = m) L ->
  (concat L = zeros (k * m) <-> Forall (fun v => v = zeros m) L).
Proof. intros <-. apply concat_zeros. Qed.

Theorem stack2d_null N D X : wf_mat N D -> image N X ->
  (zmatvec (stack2d N D) (concat X) = zeros (length (stack2d N D)) <->
   Forall (fun r => zmatvec D r = zeros (length D)) X /\
   (forall c, (c < N)%nat -> zmatvec D (col 0 X c) = zeros (length D))).
Proof.
  intros HD HX. rewrite stack2d_matvec, stack2d_length by assumption. destruct HX as [HL HX].
  set (A := concat (map (fun row => zmatvec D row) X)).
  set (B := concat (map (fun drow => map (fun c => zdot drow (col 0 X c)) (seq 0 N)) D)).
  assert (FA : Forall (fun v => length v = length D) (map (fun row => zmatvec D row) X)).
  { apply Forall_forall. intros v Hv. apply in_map_iff in Hv. destruct Hv as [r [<- _]]. apply zmatvec_length. }
  assert (FB : Forall (fun v => length v = N) (map (fun drow => map (fun c => zdot drow (col 0 X c)) (seq 0 N)) D)).
  { apply Forall_forall. intros v Hv. apply in_map_iff in Hv. destruct Hv as [r [<- _]]. rewrite map_length. apply seq_length. }
  assert (LA : length (map (fun row => zmatvec D row) X) = N) by (rewrite map_length; exact HL).
  assert (LB : length (map (fun drow => map (fun c => zdot drow (col 0 X c)) (seq 0 N)) D) = length D) by apply map_length.
  assert (HlenA : length A = (N * length D)%nat).
  { subst A. etransitivity; [exact (length_concat_const _ _ FA)|]. f_equal. exact LA. }
  etransitivity; [exact (app_zeros A B _ _ HlenA)|].
  assert (H1 : A = zeros (N * length D) <-> Forall (fun r => zmatvec D r = zeros (length D)) X).
  { subst A. etransitivity; [exact (concat_zeros' _ _ _ LA FA)|]. rewrite Forall_map. reflexivity. }
  assert (H2 : B = zeros (length D * N) <->
               (forall c, (c < N)%nat -> zmatvec D (col 0 X c) = zeros (length D))).
  { subst B. etransitivity; [exact (concat_zeros' _ _ _ LB FB)|]. rewrite Forall_map. split.
    - intros H c Hc. unfold zmatvec, matvec. apply map_eq_zeros. eapply Forall_impl; [|exact H].
      cbn beta. intros drow Hrow. pose proof (f_equal (fun v => nth c v 0) Hrow) as E. cbn beta in E.
      rewrite nth_map_seq, nth_zeros in E by exact Hc. exact E.
    - intros H. apply Forall_forall. intros drow Hin.
      unfold zeros. rewrite repeat_as_map. apply map_seq_ext. intros c Hc.
      specialize (H c Hc). unfold zmatvec, matvec in H. apply map_eq_zeros in H.
      rewrite Forall_forall in H. apply H. exact Hin. }
  tauto.
Qed.

(* ---------------- null spaces in two dimensions ---------------- *)
Lemma reshape N x : length x = (N * N)%nat -> exists X, image N X /\ x = concat X.
Proof.
  intros H. exists (chunks N N x). split; [apply chunks_image; exact H | symmetry; apply chunks_concat; exact H].
Qed.

Lemma image_rows N X r : image N X -> In r X -> length r = N.
Proof. intros [_ H] Hr. unfold wf_mat in H. rewrite Forall_forall in H. apply H. exact Hr. Qed.

Lemma stack2d_null_zero N D : wf_mat N D ->
  (forall r, length r = N -> (zmatvec D r = zeros (length D) <-> r = zeros (length r))) ->
  forall x, length x = (N * N)%nat ->
    (zmatvec (stack2d N D) x = zeros (length (stack2d N D)) <-> x = zeros (length x)).
Proof.
  intros HD Hc x Hx. split.
  - intros H. destruct (reshape N x Hx) as [X [HX ->]].
    apply (stack2d_null N D X HD HX) in H. destruct H as [H _]. rewrite Hx.
    destruct HX as [HL HW]. apply (concat_zeros' N N X HL HW).
    apply Forall_forall. intros r Hr. rewrite Forall_forall in H. specialize (H r Hr).
    assert (Lr : length r = N) by (apply (image_rows N X r); [split; assumption | exact Hr]).
    pose proof (proj1 (Hc r Lr) H) as E. rewrite Lr in E. exact E.
  - intros ->. apply zmatvec_zeros.
Qed.

Lemma map_repeat' {A B} (f : A -> B) a n : map f (repeat a n) = repeat (f a) n.
Proof. induction n as [|n IH]; [reflexivity|]. cbn [repeat map]. rewrite IH. reflexivity. Qed.

Lemma stack2d_null_const N D : (1 <= N)%nat -> wf_mat N D ->
  (forall r, length r = N -> (zmatvec D r = zeros (length D) <-> is_const r)) ->
  forall x, length x = (N * N)%nat ->
    (zmatvec (stack2d N D) x = zeros (length (stack2d N D)) <-> is_const x).
Proof.
  intros HN HD Hc x Hx. split.
  - intros H. destruct (reshape N x Hx) as [X [HX ->]].
    apply (stack2d_null N D X HD HX) in H. destruct H as [Hrow Hcol].
    destruct HX as [HL HW].
    set (v := nth 0 (nth 0 X []) 0).
    assert (HXv : X = repeat (repeat v N) N).
    { rewrite (list_as_map_nth X []), HL, repeat_as_map. apply map_seq_ext. intros i Hi.
      assert (Hin : In (nth i X []) X) by (apply nth_In; rewrite HL; exact Hi).
      assert (Lr : length (nth i X []) = N) by (apply (image_rows N X); [split; assumption | exact Hin]).
      rewrite Forall_forall in Hrow. pose proof (proj1 (Hc _ Lr) (Hrow _ Hin)) as Cr.
      rewrite (const_is_repeat _ N Lr Cr). f_equal.
      (* first entry of row i = entry i of column 0 = entry 0 of column 0 = v *)
      assert (Lc : length (col 0 X 0) = N) by (rewrite col_len; exact HL).
      pose proof (proj1 (Hc _ Lc) (Hcol 0%nat ltac:(lia))) as Cc.
      assert (E : forall k, (k < N)%nat -> nth k (col 0 X 0) 0 = nth 0 (nth k X []) 0).
      { intros k Hk. unfold col. rewrite (nth_indep _ 0 ((fun row : list Z => nth 0 row 0) [])) by (rewrite map_length, HL; exact Hk).
        apply (map_nth (fun row : list Z => nth 0 row 0)). }
      rewrite <- (E i Hi), (Cc i) by (rewrite Lc; exact Hi). rewrite (E 0%nat) by lia. reflexivity. }
    rewrite HXv, concat_repeat. apply is_const_repeat.
  - intros Cx. pose proof (const_is_repeat x _ Hx Cx) as Ex. set (v := nth 0 x 0) in *.
    assert (HX' : image N (repeat (repeat v N) N)).
    { split; [apply repeat_length|]. apply Forall_forall. intros r Hr. apply repeat_spec in Hr. subst r. apply repeat_length. }
    rewrite Ex, <- concat_repeat. apply (stack2d_null N D _ HD HX'). split.
    + apply Forall_forall. intros r Hr. apply repeat_spec in Hr. subst r.
      apply (Hc _ (repeat_length v N)). apply is_const_repeat.
    + intros c Hc'. unfold col. rewrite map_repeat'.
      apply (Hc _ (repeat_length _ N)). apply is_const_repeat.
Qed.

(* ---------------- GMRF.__init__ in two dimensions ---------------- *)
Lemma isqrt_sq N : Z.to_nat (Z.sqrt (Z.of_nat (N * N))) = N.
Proof. rewrite Nat2Z.inj_mul, Z.sqrt_square by lia. apply Nat2Z.id. Qed.

Lemma fd_op_2d order N b :
  option_map fst (fd_op order (NTup2 N N) b None) = option_map (stack2d N) (fd_matrix order b N).
Proof.
  unfold fd_op, fd_op_gen. rewrite Nat.eqb_refl. cbn [negb]. destruct (fd_matrix order b N); reflexivity.
Qed.

Lemma diff_of_order_2d order N b : (order <= 2)%nat ->
  diff_of_order order (NTup2 N N) b = option_map (stack2d N) (fd_matrix (eff_order order) (eff_bc order b) N).
Proof.
  intros H. destruct order as [|[|[|o]]]; [| | |lia]; unfold diff_of_order; cbn [diff_of_order_gen eff_order eff_bc]; apply fd_op_2d.
Qed.

Lemma gmrf_init_2d_inv N b order g : gmrf_init 2 (N * N) b order = Some g ->
  exists D, (order <= 2)%nat /\ (N * N)%nat <> 1%nat /\
    fd_matrix (eff_order order) (eff_bc order b) N = Some D /\
    g_prec g = gram (N * N) (stack2d N D) /\ g_diff g = stack2d N D /\
    ((b = Zero /\ g_rank g = (N * N)%nat) \/ ((b = Periodic \/ b = Neumann) /\ g_rank g = (N * N - 1)%nat)).
Proof.
  unfold gmrf_init, gmrf_init_gen, prec_op_gen. fold diff_of_order. cbn [mrf_nodes]. rewrite isqrt_sq. cbn [nodes_dim].
  destruct (N * N =? 1)%nat eqn:E1; [discriminate|].
  destruct (le_lt_dec order 2) as [Ho|Ho].
  - rewrite diff_of_order_2d by exact Ho.
    destruct (fd_matrix (eff_order order) (eff_bc order b) N) as [D|] eqn:ED; [|discriminate].
    cbn [option_map]. intros H. exists D.
    destruct b; try discriminate; injection H as <-; cbn [g_prec g_diff g_rank];
      repeat split; try lia; auto.
  - destruct order as [|[|[|o]]]; try lia. unfold diff_of_order. cbn [diff_of_order_gen]. discriminate.
Qed.

Lemma eye_wf N : wf_mat N (eye N).
Proof.
  apply Forall_forall. intros r Hr. unfold eye in Hr. apply in_map_iff in Hr. destruct Hr as [i [<- _]]. apply zunit_length.
Qed.

Lemma stack2d_wf N D : wf_mat N D -> wf_mat (N * N) (stack2d N D).
Proof.
  intros H. unfold stack2d, wf_mat. apply Forall_app. split; apply kron_wf_cols; try exact H; apply eye_wf.
Qed.

(* the null space of the precision of a 2-d field is the set of images whose rows and columns
   all lie in the 1-d null space *)
Theorem gmrf_null_2d N b order g X :
  gmrf_init 2 (N * N) b order = Some g ->
  periodic_too_small (eff_order order) (eff_bc order b) N = false -> image N X ->
  (zmatvec (g_prec g) (concat X) = zeros (length (g_prec g)) <->
   Forall (null_cond (eff_order order) (eff_bc order b)) X /\
   (forall c, (c < N)%nat -> null_cond (eff_order order) (eff_bc order b) (col 0 X c))).
Proof.
  intros Hg Hs HX. destruct (gmrf_init_2d_inv N b order g Hg) as [D [Ho [H1 [HD [HP _]]]]].
  pose proof (fd_matrix_wf _ _ _ _ HD) as Hwf.
  assert (Lx : length (concat X) = (N * N)%nat).
  { destruct HX as [HL HW]. rewrite (length_concat_const N X HW), HL. reflexivity. }
  rewrite HP, gram_null_iff by (try exact Lx; apply stack2d_wf; exact Hwf).
  rewrite (stack2d_null N D X Hwf HX).
  assert (R : forall r, length r = N ->
            (zmatvec D r = zeros (length D) <-> null_cond (eff_order order) (eff_bc order b) r)).
  { intros r Hr. apply (fd_null_1d _ _ _ r D HD Hs Hr). }
  split; intros [Ha Hb]; split.
  - apply Forall_forall. intros r Hr. rewrite Forall_forall in Ha. apply R; [eapply image_rows; eassumption | apply Ha; exact Hr].
  - intros c Hc. apply R; [rewrite col_len; apply HX | apply Hb; exact Hc].
  - apply Forall_forall. intros r Hr. rewrite Forall_forall in Ha. apply R; [eapply image_rows; eassumption | apply Ha; exact Hr].
  - intros c Hc. apply R; [rewrite col_len; apply HX | apply Hb; exact Hc].
Qed.

Theorem gmrf_rank_2d N b order g :
  gmrf_init 2 (N * N) b order = Some g -> gmrf_rank_defect order b N = false ->
  null_basis (g_prec g) (N * N) (null_basis_2d order b N) /\
  (g_rank g + length (null_basis_2d order b N) = N * N)%nat.
Proof.
  intros Hg Hd. destruct (gmrf_init_2d_inv N b order g Hg) as [D [Ho [H1 [HD [HP [_ HR]]]]]].
  pose proof (fd_matrix_wf _ _ _ _ HD) as Hwf. rewrite HP.
  assert (HN1 : N <> 1%nat) by (intros ->; apply H1; reflexivity).
  assert (Hsmall : periodic_too_small (eff_order order) (eff_bc order b) N = false).
  { destruct order as [|[|[|o]]]; [reflexivity| | |lia]; destruct b; try reflexivity; cbn in Hd |- *; try discriminate.
    - destruct N as [|[|N]]; [discriminate | lia | reflexivity].
    - destruct (N <=? 2)%nat eqn:E; [discriminate | reflexivity]. }
  assert (Hb : b = Zero \/ b = Periodic \/ b = Neumann) by (destruct HR as [[-> _] | [[-> | ->] _]]; auto).
  assert (R : forall r, length r = N ->
            (zmatvec D r = zeros (length D) <-> null_cond (eff_order order) (eff_bc order b) r)).
  { intros r Hr. apply (fd_null_1d _ _ _ r D HD Hsmall Hr). }
  assert (HG : forall x, length x = (N * N)%nat ->
            (zmatvec (gram (N * N) (stack2d N D)) x = zeros (length (gram (N * N) (stack2d N D))) <->
             zmatvec (stack2d N D) x = zeros (length (stack2d N D)))).
  { intros x Hx. apply gram_null_iff; [apply stack2d_wf; exact Hwf | exact Hx]. }
  assert (Hdim1 : forall D', fd_matrix 1 Periodic N = Some D' \/ fd_matrix 1 Neumann N = Some D' \/
                             fd_matrix 2 Periodic N = Some D' -> (1 <= N)%nat).
  { intros D' H. destruct N; [|lia]. destruct H as [H|[H|H]]; discriminate. }
  destruct order as [|[|[|o]]]; [| | |lia]; destruct Hb as [-> | [-> | ->]]; cbn in Hd; try discriminate;
    cbn [null_basis_2d length] in *; cbn [eff_order eff_bc] in HD, R;
    destruct HR as [[Hb HR]|[[Hb|Hb] HR]]; try discriminate; rewrite HR; cbn [null_cond] in R.
  all: try (split; [apply nb_zero; intros x Hx; rewrite (HG x Hx); apply stack2d_null_zero; assumption | lia]).
  all: assert (1 <= N)%nat by (apply (Hdim1 D); auto);
    (split; [apply nb_const; [nia|]; intros x Hx; rewrite (HG x Hx); apply stack2d_null_const; assumption | nia]).
Qed.
