(* C10 -- Conjugate and direct samplers draw from the exact conditional.
   Property theorems only: each is closed by `exact <lemma>` and followed by Print Assumptions.

   Reading guide.  `proportional_on_pos logf logg` = "f/g does not depend on s on s > 0" (densities proportional
   as functions of the hyper-parameter).  `post_logd lnG lik alpha beta` = Posterior.logd = likelihood + Gamma prior.
   `sampler_logpdf lnG m L1 Ax b alpha beta` = log-density of the Gamma the code constructs:
        Gamma(shape = m/2 + alpha, rate = .5*||L1 @ (Ax - b)||^2 + beta),   L1 = distribution(1).sqrtprec.
   lnG (scipy's gammaln) is universally quantified: no law of it is used.
   What is NOT proved here: that numpy.random.gamma(shape, scale) has the Gamma density (law of the generator,
   DESIGN section 1), and that a callable which passes the three-point probe IS the identity/reciprocal
   (it need not be: C10_probe_refuted). *)
From CV Require Import Base.Tac Base.LinAlg Base.Cmp Model.C10_Conj Model.C10_ConjR
                       Proofs.C10_Kernel Proofs.C10_Exact Proofs.C10_Valid Proofs.C10_Carrier
                       Proofs.C10_Approx Proofs.C10_Probe2 Proofs.C10_Vec Proofs.C10_Full Proofs.C10_Checks Proofs.C10_Life.
From Coq Require Import Reals QArith Qabs Qreals.

(* ------------------------------------------------------------------------------------------------- *)
(* 1. the Gamma kernel identity and its converse                                                      *)
(* ------------------------------------------------------------------------------------------------- *)

(* any likelihood of the form (rank/2) ln s - s q/2 + c, times a Gamma(alpha,beta) prior, is proportional to
   Gamma(rank/2 + alpha, q/2 + beta) -- for all rank, q, c, alpha, beta *)
Theorem C10_gamma_kernel :
  forall (lnG : R -> R) (lik : R -> R) (rank q c alpha beta shape rate : R),
    (forall s, 0 < s -> lik s = rank / 2 * ln s - s * (q / 2) + c)%R ->
    shape = (rank / 2 + alpha)%R -> rate = (q / 2 + beta)%R ->
    proportional_on_pos (post_logd lnG lik alpha beta) (gamma_logpdf lnG shape rate).
Proof. exact prop_from_core. Qed.
Print Assumptions C10_gamma_kernel.

(* ... and no other Gamma is: shape and rate are determined by the target *)
Theorem C10_gamma_kernel_unique :
  forall (lnG : R -> R) (lik : R -> R) (rank q c alpha beta shape rate : R),
    (forall s, 0 < s -> lik s = rank / 2 * ln s - s * (q / 2) + c)%R ->
    proportional_on_pos (post_logd lnG lik alpha beta) (gamma_logpdf lnG shape rate) ->
    shape = (rank / 2 + alpha)%R /\ rate = (q / 2 + beta)%R.
Proof. exact core_unique. Qed.
Print Assumptions C10_gamma_kernel_unique.

(* ------------------------------------------------------------------------------------------------- *)
(* 2. the supported pairs: every dimension, data vector b, forward-model output Ax, alpha, beta        *)
(* ------------------------------------------------------------------------------------------------- *)

(* Gaussian(mean = Ax, cov = f(s)) with f the reciprocal *)
Theorem C10_gaussian_cov_exact :
  forall (lnG : R -> R) (cov_fun : R -> R) (Ax b : Rvec) (alpha beta : R),
    (forall s, 0 < s -> cov_fun s = 1 / s)%R -> length Ax = length b ->
    proportional_on_pos (post_logd lnG (lik_gauss_cov cov_fun Ax b) alpha beta)
      (sampler_logpdf lnG (length b) (sqrtprec_of (from_cov_scalar (length b) (cov_fun 1%R))) Ax b alpha beta).
Proof. exact gauss_cov_exact. Qed.
Print Assumptions C10_gaussian_cov_exact.

(* Gaussian(mean = Ax, prec = f(s)) with f the identity *)
Theorem C10_gaussian_prec_exact :
  forall (lnG : R -> R) (prec_fun : R -> R) (Ax b : Rvec) (alpha beta : R),
    (forall s, 0 < s -> prec_fun s = s)%R -> length Ax = length b ->
    proportional_on_pos (post_logd lnG (lik_gauss_prec prec_fun Ax b) alpha beta)
      (sampler_logpdf lnG (length b) (sqrtprec_of (from_prec_scalar (length b) (prec_fun 1%R))) Ax b alpha beta).
Proof. exact gauss_prec_exact. Qed.
Print Assumptions C10_gaussian_prec_exact.

(* any Gaussian whose precision is s * L1^T L1 (rank `rank`): the Gamma with m is the exact conditional
   iff m = rank.  (This is the class on which the legacy sampler, which validates nothing, is exact.) *)
Theorem C10_gaussian_homogeneous_exact_iff :
  forall (lnG : R -> R) (rank : nat) (logdet1 : R) (L1 : Rmat) (Ax b : Rvec) (alpha beta : R) (m : nat),
    proportional_on_pos (post_logd lnG (lik_gauss_homog rank logdet1 L1 Ax b) alpha beta)
      (sampler_logpdf lnG m (Rmscale (sqrt 1) L1) Ax b alpha beta)
    <-> m = rank.
Proof. exact gauss_homog_exact_iff. Qed.
Print Assumptions C10_gaussian_homogeneous_exact_iff.

(* GMRF(mean = Ax, prec = f(s)), f the identity; `rank`, `logdet` are what the GMRF object stores and uses in
   its own logpdf; cholT is the factor the code keeps, with the law  cholT^T cholT = P  of the Cholesky oracle.
   The sampler (m = len(b)) draws from the exact conditional IFF the stored rank equals len(b). *)
Theorem C10_gmrf_exact_iff :
  forall (lnG : R -> R) (prec_fun : R -> R) (rank : nat) (logdet : R) (cholT P : Rmat) (Ax b : Rvec) (alpha beta : R),
    (forall s, 0 < s -> prec_fun s = s)%R ->
    chol_law (length b) cholT P -> length Ax = length b ->
    (proportional_on_pos (post_logd lnG (lik_gmrf prec_fun rank logdet P Ax b) alpha beta)
       (sampler_logpdf lnG (length b) (gmrf_sqrtprec cholT (prec_fun 1%R)) Ax b alpha beta)
     <-> rank = length b).
Proof. exact gmrf_exact_iff. Qed.
Print Assumptions C10_gmrf_exact_iff.

(* zero boundary conditions (the code stores rank = dim under either rank rule): m = len(b) = rank, exact *)
Theorem C10_gmrf_zero_bc_exact :
  forall (lnG : R -> R) (rule : rank_rule) (order pd : nat) (prec_fun : R -> R) (logdet : R) (cholT P : Rmat) (Ax b : Rvec) (alpha beta : R),
    (forall s, 0 < s -> prec_fun s = s)%R ->
    chol_law (length b) cholT P -> length Ax = length b ->
    proportional_on_pos (post_logd lnG (lik_gmrf prec_fun (gmrf_code_rank rule BZero order pd (length b)) logdet P Ax b) alpha beta)
       (sampler_logpdf lnG (length b) (gmrf_sqrtprec cholT (prec_fun 1%R)) Ax b alpha beta).
Proof.
  exact (fun lnG rule order pd pf ld cT P Ax b al be H1 H2 H3 =>
           proj2 (gmrf_exact_iff lnG pf (gmrf_code_rank rule BZero order pd (length b)) ld cT P Ax b al be H1 H2 H3)
                 (gmrf_code_rank_zero rule order pd (length b))).
Qed.
Print Assumptions C10_gmrf_zero_bc_exact.

(* FIXED DEFECT (commit 2db3e3f; known_findings.tsv: exp./legacy.Conjugate|GMRF:bc=periodic,neumann|shape:m/2-vs-rank/2).
   Before the repair the samplers used m = len(b).  For every field that is rank-deficient under the rank rule in
   force (gmrf_nullity > 0: every periodic/neumann field under today's rule; every periodic/neumann field of order
   1 or 2 under the rule of fixes/C20_gmrf_rank_rule.diff), every dimension > 0, data, prior and factor, that
   Gamma(len(b)/2 + alpha, .) is NOT proportional to the target's own density.  If the witness of this class fails
   again the check reports "fixed defect has returned". *)
Theorem C10_gmrf_rank_deficient_refuted :
  forall (lnG : R -> R) (rule : rank_rule) (bc : bc_type) (order pd : nat) (prec_fun : R -> R) (logdet : R) (cholT P : Rmat)
         (Ax b : Rvec) (alpha beta : R),
    (0 < gmrf_nullity rule bc order pd)%nat -> (0 < length b)%nat ->
    (forall s, 0 < s -> prec_fun s = s)%R ->
    chol_law (length b) cholT P -> length Ax = length b ->
    ~ proportional_on_pos (post_logd lnG (lik_gmrf prec_fun (gmrf_code_rank rule bc order pd (length b)) logdet P Ax b) alpha beta)
        (sampler_logpdf lnG (length b) (gmrf_sqrtprec cholT (prec_fun 1%R)) Ax b alpha beta).
Proof.
  exact (fun lnG rule bc order pd pf ld cT P Ax b al be Hnul Hn H1 H2 H3 Hprop =>
           gmrf_code_rank_deficient rule bc order pd (length b) Hnul Hn
             (proj1 (gmrf_exact_iff lnG pf (gmrf_code_rank rule bc order pd (length b)) ld cT P Ax b al be H1 H2 H3) Hprop)).
Qed.
Print Assumptions C10_gmrf_rank_deficient_refuted.

(* which fields are rank-deficient: today's rule -- all periodic/neumann; the proposed rule -- those of order >= 1 *)
Theorem C10_gmrf_nullity_rules :
  (forall bc order pd, bc <> BZero -> gmrf_nullity RuleDimMinus1 bc order pd = 1%nat)
  /\ (forall bc order pd, (0 < gmrf_nullity RuleNullity bc order pd)%nat <-> bc <> BZero /\ order <> 0%nat).
Proof. exact (conj gmrf_nullity_legacy gmrf_nullity_new_pos). Qed.
Print Assumptions C10_gmrf_nullity_rules.

(* a concrete witness inside the class (neumann, order 1, dim 2: P = [[1,-1],[-1,1]], stored rank 1, m = 2) *)
Theorem C10_gmrf_exact_refuted :
  exists (bc : bc_type) (cholT P : Rmat) (Ax b : Rvec),
    chol_law (length b) cholT P /\ length Ax = length b /\
    forall (lnG : R -> R) (logdet alpha beta : R),
    ~ proportional_on_pos (post_logd lnG (lik_gmrf (fun s => s) (gmrf_code_rank RuleDimMinus1 bc 1 1 (length b)) logdet P Ax b) alpha beta)
        (sampler_logpdf lnG (length b) (gmrf_sqrtprec cholT 1%R) Ax b alpha beta).
Proof. exact gmrf_refuted_witness. Qed.
Print Assumptions C10_gmrf_exact_refuted.

(* THE CODE AS IT IS NOW (after 2db3e3f: m = the distribution's own rank): exact for every stored rank, hence for every
   boundary condition, order, physical dimension and either rank rule (the periodic/neumann rate is a separate matter:
   C10_gmrf_regularised_rate) *)
Theorem C10_gmrf_rank_shape_exact :
  forall (lnG : R -> R) (prec_fun : R -> R) (rank : nat) (logdet : R) (cholT P : Rmat) (Ax b : Rvec) (alpha beta : R),
    (forall s, 0 < s -> prec_fun s = s)%R ->
    chol_law (length b) cholT P -> length Ax = length b ->
    proportional_on_pos (post_logd lnG (lik_gmrf prec_fun rank logdet P Ax b) alpha beta)
       (sampler_logpdf lnG rank (gmrf_sqrtprec cholT (prec_fun 1%R)) Ax b alpha beta).
Proof. exact gmrf_rank_shape_exact. Qed.
Print Assumptions C10_gmrf_rank_shape_exact.

(* the same with the model's own bookkeeping spelled out: the m the executable model uses for a GMRF
   (sampler_m KGMRF (gmrf_code_rank ...)) is the rank in the target's density *)
Theorem C10_gmrf_exact :
  forall (lnG : R -> R) (rule : rank_rule) (bc : bc_type) (order pd : nat) (prec_fun : R -> R) (logdet : R) (cholT P : Rmat)
         (Ax b : Rvec) (bq : list Q) (alpha beta : R),
    (forall s, 0 < s -> prec_fun s = s)%R -> length bq = length b ->
    chol_law (length b) cholT P -> length Ax = length b ->
    let rk := gmrf_code_rank rule bc order pd (length b) in
    proportional_on_pos (post_logd lnG (lik_gmrf prec_fun rk logdet P Ax b) alpha beta)
       (sampler_logpdf lnG (sampler_m KGMRF rk bq) (gmrf_sqrtprec cholT (prec_fun 1%R)) Ax b alpha beta).
Proof.
  exact (fun lnG rule bc order pd pf ld cT P Ax b bq al be H1 _ H2 H3 =>
           gmrf_rank_shape_exact lnG pf (gmrf_code_rank rule bc order pd (length b)) ld cT P Ax b al be H1 H2 H3).
Qed.
Print Assumptions C10_gmrf_exact.

(* FINDING (known_findings.tsv: Conjugate|GMRF:bc=periodic,neumann|rate:sqrt-eps-regularisation).
   periodic / neumann: the factor is taken of P + eps I (eps = sqrt(machine eps) = 2^-26); the rate the sampler
   uses then exceeds the rate implied by the target's density by exactly eps ||Ax - b||^2 / 2 ... *)
Theorem C10_gmrf_regularised_rate :
  forall (n : nat) (cholT P : Rmat) (eps : R) (Ax b : Rvec) (beta : R),
    chol_law_reg n cholT P eps -> length Ax = n -> length b = n ->
    r_rate (gmrf_sqrtprec cholT 1%R) Ax b beta
    = ((Rdot (Rvsub b Ax) (Rmatvec P (Rvsub b Ax)) / 2 + beta) + eps * Rnormsq (Rvsub b Ax) / 2)%R.
Proof. exact (gmrf_regularised_rate (fun x => x)). Qed.
Print Assumptions C10_gmrf_regularised_rate.

(* ... so whatever m is used, the draw is not from the exact conditional unless eps ||Ax - b||^2 = 0 *)
Theorem C10_gmrf_regularised_refuted :
  forall (lnG : R -> R) (prec_fun : R -> R) (rank : nat) (logdet : R) (cholT P : Rmat) (eps : R) (Ax b : Rvec)
         (alpha beta : R) (m : nat),
    (forall s, 0 < s -> prec_fun s = s)%R ->
    chol_law_reg (length b) cholT P eps -> length Ax = length b ->
    (eps * Rnormsq (Rvsub b Ax) <> 0)%R ->
    ~ proportional_on_pos (post_logd lnG (lik_gmrf prec_fun rank logdet P Ax b) alpha beta)
        (sampler_logpdf lnG m (gmrf_sqrtprec cholT (prec_fun 1%R)) Ax b alpha beta).
Proof. exact gmrf_regularised_never_exact. Qed.
Print Assumptions C10_gmrf_regularised_refuted.

(* ------------------------------------------------------------------------------------------------- *)
(* 3. structural validation                                                                           *)
(* ------------------------------------------------------------------------------------------------- *)

(* acceptance by the experimental Conjugate implies: Posterior, Gamma prior of dimension 1, (regularized)
   Gaussian/GMRF likelihood, EXACTLY ONE mutable variable whose callable mentions the parameter, that variable is
   cov (and passes the reciprocal probe) or prec (and passes the identity probe) *)
Theorem C10_structure_checked :
  forall (t : target) (key : string), validate_exp t = Accept key -> accepted_structure t key.
Proof. exact validate_exp_accept. Qed.
Print Assumptions C10_structure_checked.

Theorem C10_approx_structure_checked :
  forall (t : target) (key : string), validate_approx t = Accept key ->
    t_lik t = KLMRF /\ t_prior t = KGamma /\ t_prior_dim t = 1%nat /\ t_location_sum_zero t = true
    /\ exists f, refs (t_par_name t) (t_mutable t) = [(s_scale, f)] /\ probe_reciprocal f = PTrue.
Proof. exact validate_approx_accept. Qed.
Print Assumptions C10_approx_structure_checked.

(* the refusals named by the property *)
Theorem C10_rejects_several_occurrences :
  forall t : target, (length (refs (t_par_name t) (t_mutable t)) <> 1)%nat -> forall key, validate_exp t <> Accept key.
Proof. exact exp_rejects_multiple. Qed.
Print Assumptions C10_rejects_several_occurrences.

Theorem C10_rejects_nonscalar_gamma :
  forall t : target, t_prior_dim t <> 1%nat -> forall key, validate_exp t <> Accept key.
Proof. exact exp_rejects_nonscalar_gamma. Qed.
Print Assumptions C10_rejects_nonscalar_gamma.

Theorem C10_rejects_other_variables :
  forall (t : target) (k : string) (f : fval), refs (t_par_name t) (t_mutable t) = [(k, f)] ->
    k <> s_cov -> k <> s_prec -> forall key, validate_exp t <> Accept key.
Proof. exact exp_rejects_other_keys. Qed.
Print Assumptions C10_rejects_other_variables.

Theorem C10_rejects_other_pairs :
  forall t : target, t_prior t = KOtherPrior \/ t_lik t = KLMRF \/ t_lik t = KOtherLik ->
    forall key, validate_exp t <> Accept key.
Proof. exact exp_rejects_other_pairs. Qed.
Print Assumptions C10_rejects_other_pairs.

(* the three-point probes: sound only up to an explicit neighbourhood (partial: NOT a decision procedure).
   Missing for the full statement "accepted => the callable is the identity": nothing finite can give it. *)
Theorem C10_probe_sound_partial :
  (forall n, probe_identity (repeat DVar n) = true)
  /\ probe_reciprocal [DInv DVar] = PTrue
  /\ (forall c p, probe_identity [DMul (DConst c) (dpow p)] = true ->
        p = 1%nat /\ (Qabs (c - 1) <= 100001 # 10000000000)%Q)
  /\ (forall a b, probe_identity [DAdd (DMul (DConst a) DVar) (DConst b)] = true ->
        (Qabs (a - 1) <= 103 # 10000000)%Q /\ (Qabs b <= 205 # 10000000)%Q)
  /\ (forall a b, (Qabs (a - 1) <= 5 # 1000000)%Q -> (Qabs b <= 5 # 1000000)%Q ->
        probe_identity [DAdd (DMul (DConst a) DVar) (DConst b)] = true).
Proof.
  exact (conj probe_identity_accepts_identity (conj probe_reciprocal_accepts_reciprocal
        (conj probe_identity_monomial (conj probe_identity_affine_outer probe_identity_affine_inner)))).
Qed.
Print Assumptions C10_probe_sound_partial.

(* FINDING (low severity; known_findings.tsv: Conjugate|probe:three-point|non-identity-accepted) *)
Theorem C10_probe_refuted :
  exists f s, validate_exp (witness_target [f]) = Accept s_prec /\ ~ (deval f s == s)%Q.
Proof. exact exp_accepts_non_identity. Qed.
Print Assumptions C10_probe_refuted.

(* FINDING (known_findings.tsv: legacy.Conjugate|no-structural-validation): the legacy sampler's acceptance does
   not depend on the mutable variables at all ... *)
Theorem C10_legacy_ignores_dependence :
  forall (t : target) (vars : list (string * attr)) (par : string),
    validate_legacy (with_mutable t vars par) = validate_legacy t.
Proof. exact legacy_ignores_dependence. Qed.
Print Assumptions C10_legacy_ignores_dependence.

(* ... it accepts a target the experimental sampler refuses ... *)
Theorem C10_legacy_structure_refuted :
  exists t, validate_legacy t = Accept s_empty /\ validate_exp t = Reject RWrongFun.
Proof. exact legacy_accepts_unsupported. Qed.
Print Assumptions C10_legacy_structure_refuted.

(* ... and then draws from a Gamma that is not proportional to the target (prec = lambda s: s**2, dim 1) *)
Theorem C10_legacy_exact_refuted :
  forall lnG : R -> R,
  let prec_fun := fun s : R => (s * s)%R in
  prec_fun 1%R = 1%R /\
  ~ proportional_on_pos (post_logd lnG (lik_gauss_prec prec_fun [0%R] [1%R]) 1 1)
      (sampler_logpdf lnG 1 (sqrtprec_of (from_prec_scalar 1 (prec_fun 1%R))) [0%R] [1%R] 1 1).
Proof. exact legacy_refuted_witness. Qed.
Print Assumptions C10_legacy_exact_refuted.

(* ------------------------------------------------------------------------------------------------- *)
(* 4. Direct                                                                                          *)
(* ------------------------------------------------------------------------------------------------- *)

(* the chain Direct produces is, draw by draw, what target.sample() returns on the randomness consumed; the
   current point is the last draw; every step reports acceptance 1 *)
Theorem C10_direct :
  forall (Rnd Pt : Type) (target_sample : Rnd -> Pt) (st : dstate Pt) (rs : list Rnd),
    snd (direct_run target_sample st rs) = map target_sample rs
    /\ n_steps (fst (direct_run target_sample st rs)) = (n_steps st + length rs)%nat
    /\ current_point (fst (direct_run target_sample st rs))
       = match rev rs with [] => current_point st | r :: _ => Some (target_sample r) end.
Proof.
  exact (fun Rnd Pt ts st rs => conj (direct_run_is_target_sample Rnd Pt ts st rs) (direct_run_state Rnd Pt ts st rs)).
Qed.
Print Assumptions C10_direct.


(* ------------------------------------------------------------------------------------------------- *)
(* 5. one formula, two carriers                                                                       *)
(* ------------------------------------------------------------------------------------------------- *)

(* the executable parameters over Q that every run compares with the code are the real-valued parameters of
   the exactness theorems: Q2R commutes with shape and rate (all sizes) *)
Theorem C10_model_carriers_agree :
  forall (m : nat) (alpha beta : Q) (L : list (list Q)) (Ax b : list Q),
    Q2R (q_shape m alpha) = r_shape m (Q2R alpha)
    /\ Q2R (q_rate L Ax b beta) = r_rate (Q2Rm L) (Q2Rv Ax) (Q2Rv b) (Q2R beta).
Proof. exact (fun m alpha beta L Ax b => conj (shape_carriers_agree m alpha) (rate_carriers_agree L Ax b beta)). Qed.
Print Assumptions C10_model_carriers_agree.

(* ------------------------------------------------------------------------------------------------- *)
(* 6. the other Gaussian branches: vector / diagonal-matrix covariance and precision                   *)
(* ------------------------------------------------------------------------------------------------- *)

(* prec = s * c for any positive weight vector c (prec = lambda s: s*np.ones(m) is c = 1): vector branch of
   get_sqrtprec_from_prec -- logdet = sum(-log(prec)), sqrtprec = diag(sqrt(prec)) *)
Theorem C10_gaussian_precvec_exact :
  forall (lnG : R -> R) (prec_fun : R -> Rvec) (c0 Ax b : Rvec) (alpha beta : R),
    (forall s, 0 < s -> prec_fun s = map (fun a => s * a) c0)%R -> Forall (fun a => 0 < a)%R c0 ->
    length c0 = length b -> length Ax = length b ->
    proportional_on_pos (post_logd lnG (lik_gauss_precvec prec_fun Ax b) alpha beta)
      (sampler_logpdf lnG (length b) (sqrtprec_of (from_prec_vector (prec_fun 1%R))) Ax b alpha beta).
Proof. exact gauss_precvec_exact. Qed.
Print Assumptions C10_gaussian_precvec_exact.

(* cov = c / s, vector branch of get_sqrtprec_from_cov *)
Theorem C10_gaussian_covvec_exact :
  forall (lnG : R -> R) (cov_fun : R -> Rvec) (c0 Ax b : Rvec) (alpha beta : R),
    (forall s, 0 < s -> cov_fun s = map (fun a => a / s) c0)%R -> Forall (fun a => 0 < a)%R c0 ->
    length c0 = length b -> length Ax = length b ->
    proportional_on_pos (post_logd lnG (lik_gauss_covvec cov_fun Ax b) alpha beta)
      (sampler_logpdf lnG (length b) (sqrtprec_of (from_cov_vector (cov_fun 1%R))) Ax b alpha beta).
Proof. exact gauss_covvec_exact. Qed.
Print Assumptions C10_gaussian_covvec_exact.

(* cov = C / s with C a diagonal matrix (diagonal branch: var = cov.diagonal()) -- reached through the legacy sampler *)
Theorem C10_gaussian_covdiag_exact :
  forall (lnG : R -> R) (cov_fun : R -> Rmat) (c0 Ax b : Rvec) (alpha beta : R),
    (forall s, 0 < s -> diag_of (cov_fun s) = map (fun a => a / s) c0)%R -> Forall (fun a => 0 < a)%R c0 ->
    length c0 = length b -> length Ax = length b ->
    proportional_on_pos (post_logd lnG (lik_gauss_covdiag cov_fun Ax b) alpha beta)
      (sampler_logpdf lnG (length b) (sqrtprec_of (from_cov_vector (diag_of (cov_fun 1%R)))) Ax b alpha beta).
Proof. exact gauss_covdiag_exact. Qed.
Print Assumptions C10_gaussian_covdiag_exact.

(* ------------------------------------------------------------------------------------------------- *)
(* 7. ConjugateApprox: what exactly it is                                                             *)
(* ------------------------------------------------------------------------------------------------- *)

(* The Gamma(len(x) + alpha, ||W^(1/2) D x||^2 + beta) it draws from is the EXACT conditional of the density that
   has the LMRF's formula with len(x) factors (instead of len(Dx)) and the smoothed penalty
   sum_i t_i^2 / sqrt(t_i^2 + delta), t = Dx, (instead of ||Dx||_1) -- for every delta, D, x, alpha, beta *)
Theorem C10_approx_exact_for_smoothed :
  forall (lnG : R -> R) (scale_fun : R -> R) (delta : R) (D : Rmat) (x : Rvec) (alpha beta : R),
    (forall s, 0 < s -> scale_fun s = 1 / s)%R ->
    proportional_on_pos
      (post_logd lnG (fun s => lmrf_like_logpdf (length x) (approx_penalty delta (Rmatvec D x)) (scale_fun s)) alpha beta)
      (gamma_logpdf lnG (approx_shape_R (length x) alpha) (approx_rate_R delta D x beta)).
Proof. exact approx_exact_for_smoothed. Qed.
Print Assumptions C10_approx_exact_for_smoothed.

(* against the LMRF's own density (LMRF.logpdf): exact iff D x has as many entries as x and the smoothed penalty
   equals the l1 norm ... *)
Theorem C10_approx_vs_lmrf_iff :
  forall (lnG : R -> R) (scale_fun : R -> R) (delta : R) (D : Rmat) (x : Rvec) (alpha beta : R),
    (forall s, 0 < s -> scale_fun s = 1 / s)%R ->
    (proportional_on_pos (post_logd lnG (lik_lmrf scale_fun D x) alpha beta)
       (gamma_logpdf lnG (approx_shape_R (length x) alpha) (approx_rate_R delta D x beta))
     <-> length (Rmatvec D x) = length x /\ approx_penalty delta (Rmatvec D x) = norm1 (Rmatvec D x)).
Proof. exact approx_vs_lmrf_iff. Qed.
Print Assumptions C10_approx_vs_lmrf_iff.

(* ... which for a positive delta (the code uses 1e-5) happens only when D x = 0: the sampler is approximate, never
   exact, on every non-constant signal *)
Theorem C10_approx_exact_iff_trivial :
  forall (lnG : R -> R) (scale_fun : R -> R) (delta : R) (D : Rmat) (x : Rvec) (alpha beta : R),
    (0 < delta)%R -> (forall s, 0 < s -> scale_fun s = 1 / s)%R ->
    (proportional_on_pos (post_logd lnG (lik_lmrf scale_fun D x) alpha beta)
       (gamma_logpdf lnG (approx_shape_R (length x) alpha) (approx_rate_R delta D x beta))
     <-> length (Rmatvec D x) = length x /\ Forall (fun t => t = 0%R) (Rmatvec D x)).
Proof. exact approx_exact_iff_trivial. Qed.
Print Assumptions C10_approx_exact_iff_trivial.

(* the size of the approximation in the rate: 0 <= ||v||_1 - penalty <= len(v) * sqrt(delta) *)
Theorem C10_approx_penalty_bounds :
  forall (delta : R) (v : Rvec), (0 < delta)%R ->
    (0 <= approx_penalty delta v)%R /\ (approx_penalty delta v <= norm1 v)%R
    /\ (norm1 v - approx_penalty delta v <= INR (length v) * sqrt delta)%R
    /\ (approx_penalty delta v = norm1 v -> Forall (fun t => t = 0%R) v).
Proof. exact approx_penalty_bounds. Qed.
Print Assumptions C10_approx_penalty_bounds.

(* ------------------------------------------------------------------------------------------------- *)
(* 8. the reciprocal probe: mirror of C10_probe_sound_partial                                          *)
(* ------------------------------------------------------------------------------------------------- *)

Theorem C10_probe_reciprocal_sound_partial :
  (forall c p, probe_reciprocal [DMul (DConst c) (DInv (dpow p))] = PTrue ->
        p = 1%nat /\ (Qabs (c - 1) <= 1000000002 # 1000000000000000000)%Q)
  /\ (forall a b, probe_reciprocal [DAdd (DMul (DConst a) (DInv DVar)) (DConst b)] = PTrue ->
        (Qabs (a - 1) <= 103 # 100000000000)%Q /\ (Qabs b <= 205 # 100000000000)%Q)
  /\ (forall a b, (Qabs (a - 1) <= 4 # 10000000000)%Q -> (Qabs b <= 4 # 1000000000000)%Q ->
        probe_reciprocal [DAdd (DMul (DConst a) (DInv DVar)) (DConst b)] = PTrue).
Proof. exact (conj probe_reciprocal_monomial (conj probe_reciprocal_affine_outer probe_reciprocal_affine_inner)). Qed.
Print Assumptions C10_probe_reciprocal_sound_partial.

Theorem C10_probe_reciprocal_refuted :
  exists f s, probe_reciprocal [f] = PTrue /\ ~ (deval f s == 1 / s)%Q.
Proof. exact probe_reciprocal_refuted. Qed.
Print Assumptions C10_probe_reciprocal_refuted.

(* ------------------------------------------------------------------------------------------------- *)
(* 9. dense full matrices from the laws of the numpy oracles; the regularized pairs                     *)
(* ------------------------------------------------------------------------------------------------- *)

(* prec = s * P1 with a full (non-diagonal) matrix: rank_fn / logdet_fn / cholT_fn stand for numpy's matrix_rank, slogdet and
   cholesky; hypotheses are their laws on the family s*P1 (cholesky: L^T L = P; det(sP) = s^n det P; P1 invertible).
   m = the distribution's rank at unit hyper-parameter, L = its sqrtprec there -- as in the code *)
Theorem C10_gaussian_full_prec_exact :
  forall (lnG : R -> R) (rank_fn : Rmat -> nat) (logdet_fn : Rmat -> R) (cholT_fn : Rmat -> Rmat)
         (prec_fun : R -> Rmat) (P1 : Rmat) (Ax b : Rvec) (alpha beta : R),
    let n := length b in
    (forall s, 0 < s -> prec_fun s = Rmscale s P1)%R ->
    (forall s, 0 < s -> chol_law n (cholT_fn (Rmscale s P1)) (Rmscale s P1))%R ->
    (forall s, 0 < s -> logdet_fn (Rmscale s P1) = INR n * ln s + logdet_fn P1)%R ->
    (forall s, 0 < s -> rank_fn (Rmscale s P1) = n)%R ->
    length Ax = n ->
    proportional_on_pos (post_logd lnG (lik_gauss_precfull rank_fn logdet_fn cholT_fn prec_fun Ax b) alpha beta)
      (sampler_logpdf lnG (fst (fst (from_prec_full rank_fn logdet_fn cholT_fn (prec_fun 1%R))))
                      (sqrtprec_of (from_prec_full rank_fn logdet_fn cholT_fn (prec_fun 1%R))) Ax b alpha beta).
Proof. exact (fun lnG rk ld ch => gauss_precfull_exact lnG rk ld (fun M => M) ch). Qed.
Print Assumptions C10_gaussian_full_prec_exact.

(* cov = C1 / s with a full matrix: additionally numpy's inv with inv(C/s) = s inv(C), det(C/s) = det C / s^n *)
Theorem C10_gaussian_full_cov_exact :
  forall (lnG : R -> R) (rank_fn : Rmat -> nat) (logdet_fn : Rmat -> R) (inv_fn cholT_fn : Rmat -> Rmat)
         (cov_fun : R -> Rmat) (C1 : Rmat) (Ax b : Rvec) (alpha beta : R),
    let n := length b in
    (forall s, 0 < s -> cov_fun s = Rmscale (1 / s) C1)%R ->
    (forall s, 0 < s -> chol_law n (cholT_fn (inv_fn (Rmscale (1 / s) C1))) (inv_fn (Rmscale (1 / s) C1)))%R ->
    (forall s v, (0 < s)%R -> length v = n ->
        Rmatvec (inv_fn (Rmscale (1 / s) C1)) v = Rvscale s (Rmatvec (inv_fn C1) v)) ->
    (forall s, 0 < s -> logdet_fn (Rmscale (1 / s) C1) = logdet_fn C1 - INR n * ln s)%R ->
    (forall s, 0 < s -> rank_fn (Rmscale (1 / s) C1) = n)%R ->
    length Ax = n ->
    proportional_on_pos (post_logd lnG (lik_gauss_covfull rank_fn logdet_fn inv_fn cholT_fn cov_fun Ax b) alpha beta)
      (sampler_logpdf lnG (fst (fst (from_cov_full rank_fn logdet_fn inv_fn cholT_fn (cov_fun 1%R))))
                      (sqrtprec_of (from_cov_full rank_fn logdet_fn inv_fn cholT_fn (cov_fun 1%R))) Ax b alpha beta).
Proof. exact gauss_covfull_exact. Qed.
Print Assumptions C10_gaussian_full_cov_exact.

(* regularized pairs: the Gamma with m = count_nonzero(b) is the exact conditional of the density given by the documented
   support rule (exponent count_nonzero(b)/2, unchanged quadratic term) *)
Theorem C10_regularized_support_rule_exact :
  forall (lnG : R -> R) (k : lik_kind) (bq : list Q) (gmrf_rank : nat) (lik : R -> R) (q c : R) (L1 : Rmat) (Ax b : Rvec) (alpha beta : R),
    is_reg k = true ->
    (forall s, 0 < s -> lik s = INR (count_nonzero bq) / 2 * ln s - s * (q / 2) + c)%R ->
    Rnormsq (Rmatvec L1 (Rvsub Ax b)) = q ->
    proportional_on_pos (post_logd lnG lik alpha beta) (sampler_logpdf lnG (sampler_m k gmrf_rank bq) L1 Ax b alpha beta).
Proof. exact regularized_support_rule_exact. Qed.
Print Assumptions C10_regularized_support_rule_exact.

Example C10_oracle_laws_satisfiable :
  let P1 := [[2%R]] in let n := 1%nat in
  (forall s, 0 < s -> chol_law n (ex_cholT (Rmscale s P1)) (Rmscale s P1))%R
  /\ (forall s, 0 < s -> ex_logdet (Rmscale s P1) = INR n * ln s + ex_logdet P1)%R
  /\ (forall s, 0 < s -> ex_rank (Rmscale s P1) = n)%R.
Proof. exact ex_laws. Qed.

(* ------------------------------------------------------------------------------------------------- *)
(* 10. what a passing correspondence case means for the theorems                                       *)
(* ------------------------------------------------------------------------------------------------- *)

(* `check_shape ... = true` (evaluated by vm_compute in every shard) says the observed shape argument of
   numpy.random.gamma IS the shape of the exactness theorems; `check_rate ... = true` says the observed rate is within
   relative 1e-9 of the theorems' rate for the implementation's own factor L *)
Theorem C10_checks_sound :
  (forall k rk bq alpha obs, check_shape k rk bq alpha obs = true -> Q2R obs = r_shape (sampler_m k rk bq) (Q2R alpha))
  /\ (forall n P reg L Ax b beta obs_rate obs_scale, check_rate n P reg L Ax b beta obs_rate obs_scale = true ->
        (Rabs (Q2R obs_rate - r_rate (Q2Rm L) (Q2Rv Ax) (Q2Rv b) (Q2R beta))
         <= Q2R tol9 * Rabs (r_rate (Q2Rm L) (Q2Rv Ax) (Q2Rv b) (Q2R beta)))%R).
Proof. exact (conj check_shape_sound check_rate_sound). Qed.
Print Assumptions C10_checks_sound.

(* ------------------------------------------------------------------------------------------------- *)
(* 11. the refusals hold in every state of a sampler object                                            *)
(* ------------------------------------------------------------------------------------------------- *)

(* `sampler.target = value` on a sampler that is un-initialised, initialised, has stepped / warmed up / sampled, with or
   without an earlier target: along ANY history of assignments every target gets exactly the verdict a fresh sampler gives
   it -- in particular an accepted one has the supported structure -- and initialisation is not touched *)
Theorem C10_retarget_validates_in_every_state :
  forall (k : bool) (i : iface) (smp : exp_sampler) (ts : list target),
    snd (assign_all k i smp ts) = map (validate i) ts
    /\ (forall t key, snd (set_target k IExp smp t) = Accept key -> accepted_structure t key)
    /\ (forall t, es_initialized (fst (set_target k i smp t)) = es_initialized smp).
Proof.
  exact (fun k i smp ts => conj (assign_all_verdicts k i smp ts)
                                (conj (fun t key => retarget_accept_structure k smp t key) (set_target_keeps_initialized k i smp))).
Qed.
Print Assumptions C10_retarget_validates_in_every_state.

(* FINDING (known_findings.tsv: exp.Conjugate|refused-target-retained): the setter assigns before it validates, so a refused
   target stays in the object (and a later step() samples it) *)
Theorem C10_refused_target_retained_refuted :
  exists smp t r, snd (set_target true IExp smp t) = Reject r /\ es_target (fst (set_target true IExp smp t)) = Some t
                  /\ es_target smp <> Some t.
Proof. exact refused_target_retained. Qed.
Print Assumptions C10_refused_target_retained_refuted.

(* with the repaired setter (fixes/C10_retarget_restore.diff) the object always holds the last accepted target *)
Theorem C10_retarget_restoring_holds_last_accepted :
  forall (i : iface) (smp : exp_sampler) (ts : list target),
    es_target (fst (assign_all false i smp ts)) = last_accepted i (es_target smp) ts.
Proof. exact assign_all_restoring_holds_last_accepted. Qed.
Print Assumptions C10_retarget_restoring_holds_last_accepted.

(* ------------------------------------------------------------------------------------------------- *)
(* non-vacuity: the hypotheses of the exactness theorems are satisfiable                              *)
(* ------------------------------------------------------------------------------------------------- *)
Example C10_nonvacuous :
  (exists (cov_fun : R -> R) (Ax b : Rvec), (forall s, 0 < s -> cov_fun s = 1 / s)%R /\ length Ax = length b /\ (0 < length b)%nat)
  /\ (exists (cholT P : Rmat) (b : Rvec), chol_law (length b) cholT P /\ (0 < length b)%nat)
  /\ (exists t key, validate_exp t = Accept key).
Proof. exact nonvacuous. Qed.

Example C10_nonvacuous_more :
  (exists (c0 Ax b : Rvec), Forall (fun a => 0 < a)%R c0 /\ length c0 = length b /\ length Ax = length b /\ (0 < length b)%nat)
  /\ (exists (delta : R) (v : Rvec), (0 < delta)%R /\ (approx_penalty delta v < norm1 v)%R)
  /\ (exists a b, ~ (a == 1)%Q /\ ~ (b == 0)%Q /\ probe_reciprocal [DAdd (DMul (DConst a) (DInv DVar)) (DConst b)] = PTrue).
Proof. exact nonvacuous_more. Qed.
