(* C09 -- the perturbed least-squares draw (LinearRTO / UGLA) has the conditional's mean and precision. *)
From CV Require Import Base.Tac Base.Cmp Base.LinAlg Base.QcLin Model.C09_Rto.
From Coq Require Import QArith Qcanon.
Local Open Scope Qc_scope.

Lemma rsum_ext f g re : (forall p, f p = g p) -> rsum f re = rsum g re.
Proof. intros H. unfold rsum. induction re as [|p re IH]; cbn [fold_right]; [reflexivity | rewrite H, IH; reflexivity]. Qed.

Lemma rsum_map f (h : lsrow * Qc -> lsrow * Qc) re : rsum f (map h re) = rsum (fun p => f (h p)) re.
Proof. unfold rsum. induction re as [|p re IH]; cbn [fold_right map]; [reflexivity | rewrite IH; reflexivity]. Qed.

Lemma rsum_add f g re : rsum (fun p => f p + g p) re = rsum f re + rsum g re.
Proof. unfold rsum. induction re as [|p re IH]; cbn [fold_right]; [ring | rewrite IH; ring]. Qed.

Lemma qdot_map2 (f g : lsrow * Qc -> Qc) re : qdot (map f re) (map g re) = rsum (fun p => f p * g p) re.
Proof. unfold rsum, qdot. induction re as [|p re IH]; cbn [fold_right map dot]; [reflexivity | rewrite IH; reflexivity]. Qed.

Lemma rows_wf_mat n re : rows_wf n re -> wf_mat n (A_of re).
Proof.
  unfold rows_wf, wf_mat, A_of. intros H. apply Forall_forall. intros r Hr.
  apply in_map_iff in Hr. destruct Hr as (p & <- & Hp). exact (proj1 (Forall_forall _ _) H p Hp).
Qed.

Lemma matvec_A_of re v : qmatvec (A_of re) v = map (fun p => qdot (ls_a (fst p)) v) re.
Proof. unfold qmatvec, matvec, A_of. rewrite map_map. reflexivity. Qed.

(* right-hand side functional without noise:  v^T A^T W c *)
Definition F0form (re : noisy) (v : list Qc) : Qc := rsum (fun p => ls_w (fst p) * ls_c (fst p) * qdot (ls_a (fst p)) v) re.

(* weak forms of the two sides of the normal equations *)
Lemma weak_lhs n re x v : rows_wf n re -> length v = n -> qdot v (nrm_lhs n re x) = Bform re x v.
Proof.
  intros Hwf Hv. unfold nrm_lhs. rewrite <- (qc_adjoint n (A_of re) v _ (rows_wf_mat n re Hwf) Hv).
  rewrite matvec_A_of. unfold wAx. rewrite qdot_map2. unfold Bform. apply rsum_ext. intros p. ring.
Qed.

Lemma weak_rhs n re v : rows_wf n re -> length v = n -> qdot v (nrm_rhs n re) = F0form re v + Nform re v.
Proof.
  intros Hwf Hv. unfold nrm_rhs. rewrite <- (qc_adjoint n (A_of re) v _ (rows_wf_mat n re Hwf) Hv).
  rewrite matvec_A_of. unfold wc_se. rewrite qdot_map2. unfold F0form, Nform. rewrite <- rsum_add. apply rsum_ext. intros p. ring.
Qed.

Lemma qcl_eqb_eq x y : qcl_eqb x y = true <-> x = y.
Proof. apply list_eqb_spec. apply qc_eqb_eq. Qed.

(* what a successful draw satisfies: the normal equations, in weak form against every test vector *)
Lemma rto_draw_sound n re x : rows_wf n re -> rto_draw n re = Some x ->
  length x = n /\ nrm_lhs n re x = nrm_rhs n re /\ forall v, length v = n -> Bform re x v = F0form re v + Nform re v.
Proof.
  intros Hwf. unfold rto_draw.
  set (x0 := csolve n _).
  destruct (Nat.eqb (length x0) n) eqn:Hl; cbn [andb]; [ | discriminate].
  destruct (qcl_eqb (nrm_lhs n re x0) (nrm_rhs n re)) eqn:He; [ | discriminate].
  intros Hx; injection Hx as <-.
  apply Nat.eqb_eq in Hl. apply qcl_eqb_eq in He. split; [exact Hl | split; [exact He | ]].
  intros v Hv. rewrite <- (weak_lhs n re x0 v Hwf Hv), He. apply weak_rhs; assumption.
Qed.

Lemma quiet_wf n re : rows_wf n re -> rows_wf n (quiet re).
Proof.
  unfold rows_wf, quiet. intros H. apply Forall_forall. intros p Hp. apply in_map_iff in Hp.
  destruct Hp as (p0 & <- & Hp0). cbn. exact (proj1 (Forall_forall _ _) H p0 Hp0).
Qed.
Lemma quiet_B re x v : Bform (quiet re) x v = Bform re x v.
Proof. unfold Bform, quiet. rewrite rsum_map. reflexivity. Qed.
Lemma quiet_F0 re v : F0form (quiet re) v = F0form re v.
Proof. unfold F0form, quiet. rewrite rsum_map. reflexivity. Qed.
Lemma quiet_N re v : Nform (quiet re) v = 0.
Proof. unfold Nform, quiet, rsum. induction re as [|p re IH]; cbn [map fold_right fst snd]; [reflexivity | rewrite IH; ring]. Qed.
Lemma quiet_qcond re y : qcond (quiet re) y = qcond re y.
Proof. unfold qcond, quiet. rewrite rsum_map. reflexivity. Qed.

(* completing the square, for arbitrary rows and vectors (pure algebra, row by row) *)
Lemma square_identity re y m :
  rsum (fun p => ls_w (fst p) * ((ls_c (fst p) - qdot (ls_a (fst p)) y) * (ls_c (fst p) - qdot (ls_a (fst p)) y))) re
  = rsum (fun p => ls_w (fst p) * ((ls_c (fst p) - qdot (ls_a (fst p)) m) * (ls_c (fst p) - qdot (ls_a (fst p)) m))) re
    + rsum (fun p => ls_w (fst p) * ((qdot (ls_a (fst p)) y - qdot (ls_a (fst p)) m) * (qdot (ls_a (fst p)) y - qdot (ls_a (fst p)) m))) re
    - (1 + 1) * (F0form re y - F0form re m - Bform re m y + Bform re m m).
Proof.
  unfold F0form, Bform, rsum. induction re as [|p re IH]; cbn [fold_right].
  - ring.
  - rewrite IH. ring.
Qed.

(* (i) the conditional is the Gaussian with mean m = the zero-noise draw and precision form Bform *)
Theorem rto_mean_precision n re m : rows_wf n re -> rto_draw n (quiet re) = Some m ->
  forall y, length y = n ->
    qcond re y = qcond re m
                 - (Q2Qc (1 # 2)) * rsum (fun p => ls_w (fst p) * ((qdot (ls_a (fst p)) y - qdot (ls_a (fst p)) m) * (qdot (ls_a (fst p)) y - qdot (ls_a (fst p)) m))) re.
Proof.
  intros Hwf Hm y Hy.
  destruct (rto_draw_sound n (quiet re) m (quiet_wf n re Hwf) Hm) as (Hlm & _ & Hweak).
  pose proof (Hweak y Hy) as H1. pose proof (Hweak m Hlm) as H2.
  rewrite quiet_B, quiet_F0, quiet_N in H1, H2.
  unfold qcond. rewrite (square_identity re y m). rewrite H1, H2.
  generalize (Q2Qc (1 # 2)). intros h. ring.
Qed.

(* (ii) draw - mean is the linear image of the noise:  A^T W A (x_e - m) = A^T S e  (weak form) *)
Theorem rto_draw_minus_mean n re x m : rows_wf n re -> rto_draw n re = Some x -> rto_draw n (quiet re) = Some m ->
  forall v, length v = n -> Bform re x v - Bform re m v = Nform re v.
Proof.
  intros Hwf Hx Hm v Hv.
  destruct (rto_draw_sound n re x Hwf Hx) as (_ & _ & Hwx).
  destruct (rto_draw_sound n (quiet re) m (quiet_wf n re Hwf) Hm) as (_ & _ & Hwm).
  pose proof (Hwm v Hv) as H2. rewrite quiet_B, quiet_F0, quiet_N in H2.
  rewrite (Hwx v Hv), H2. ring.
Qed.

(* (iii) with s_r^2 = w_r the noise functional has the precision form as its covariance form: for independent unit-variance
   e_r, Cov(N(v), N(v')) = sum_r (s_r <a_r,v>) (s_r <a_r,v'>) = v^T A^T W A v' *)
Theorem rto_noise_covariance re v v' : Forall (fun p => ls_s (fst p) * ls_s (fst p) = ls_w (fst p)) re ->
  rsum (fun p => (ls_s (fst p) * qdot (ls_a (fst p)) v) * (ls_s (fst p) * qdot (ls_a (fst p)) v')) re = Bform re v v'.
Proof.
  unfold Bform. induction 1 as [|p re Hp _ IH]; cbn [rsum fold_right]; [reflexivity | ].
  unfold rsum in IH. rewrite IH, <- Hp. ring.
Qed.

(* (iv) with non-negative weights the zero-noise draw maximises the conditional density *)
Lemma rsum_nonneg f re : (forall p, In p re -> 0 <= f p) -> 0 <= rsum f re.
Proof.
  induction re as [|p re IH]; intros H; cbn; [apply Qcle_refl | ].
  replace 0 with (0 + 0) by ring. apply Qcplus_le_compat; [apply H; left; reflexivity | apply IH; intros q Hq; apply H; right; exact Hq].
Qed.

Lemma Qcmult_le_0_compat (a b : Qc) : 0 <= a -> 0 <= b -> 0 <= a * b.
Proof. intros Ha Hb. replace 0 with (0 * b) by ring. apply Qcmult_le_compat_r; assumption. Qed.

Lemma Qc_sq_nonneg (a : Qc) : 0 <= a * a.
Proof.
  destruct (Qclt_le_dec a 0) as [Hn | Hp].
  - replace (a * a) with ((- a) * (- a)) by ring.
    assert (0 <= - a). { apply Qclt_le_weak in Hn. apply Qcopp_le_compat in Hn. replace (- 0) with 0 in Hn by ring. exact Hn. }
    apply Qcmult_le_0_compat; assumption.
  - apply Qcmult_le_0_compat; assumption.
Qed.

Theorem rto_mean_is_mode n re m : rows_wf n re -> Forall (fun p => 0 <= ls_w (fst p)) re -> rto_draw n (quiet re) = Some m ->
  forall y, length y = n -> qcond re y <= qcond re m.
Proof.
  intros Hwf Hw Hm y Hy. rewrite (rto_mean_precision n re m Hwf Hm y Hy).
  set (S := rsum _ re).
  assert (HS : 0 <= S).
  { apply rsum_nonneg. intros p Hp. apply Qcmult_le_0_compat; [exact (proj1 (Forall_forall _ _) Hw p Hp) | apply Qc_sq_nonneg]. }
  assert (Hh : 0 <= Q2Qc (1 # 2)) by (unfold Qcle; cbn; discriminate).
  pose proof (Qcmult_le_0_compat _ _ Hh HS) as H.
  apply Qcopp_le_compat in H. replace (- 0) with 0 in H by ring.
  replace (qcond re m) with (qcond re m + 0) at 2 by ring.
  unfold Qcminus. apply Qcplus_le_compat; [apply Qcle_refl | exact H].
Qed.
