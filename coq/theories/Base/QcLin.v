(* Instances of the generic linear algebra at Z and at Qc (canonical rationals, Leibniz equality),
   with the literals and boolean comparisons used by generated case files. *)
From CV Require Import Base.Tac Base.LinAlg Base.Cmp.
From Coq Require Import QArith Qcanon Qabs.

(* ---- Z ---- *)
Definition zdot := dot 0%Z Z.add Z.mul.
Definition zvadd := vadd Z.add.
Definition zvsub := vsub Z.sub.
Definition zvscale := vscale Z.mul.
Definition zmatvec := matvec 0%Z Z.add Z.mul.
Definition zmattvec := mattvec 0%Z Z.add Z.mul.
Definition znormsq := normsq 0%Z Z.add Z.mul.
Definition zunit := unit_vec 0%Z 1%Z.
Definition ztranspose := transpose 0%Z.

Theorem z_adjoint n A x y : wf_mat n A -> length x = n -> zdot (zmatvec A x) y = zdot x (zmattvec n A y).
Proof. apply (adjoint_identity Z 0%Z 1%Z Z.add Z.mul Z.sub Z.opp Zth). Qed.

(* ---- Qc ---- *)
Definition qc (q : Q) : Qc := Q2Qc q.
Definition qcz (z : Z) : Qc := Q2Qc (inject_Z z).
Definition qdot := dot 0%Qc Qcplus Qcmult.
Definition qvadd := vadd Qcplus.
Definition qvsub := vsub Qcminus.
Definition qvscale := vscale Qcmult.
Definition qvneg := vneg Qcopp.
Definition qmatvec := matvec 0%Qc Qcplus Qcmult.
Definition qmattvec := mattvec 0%Qc Qcplus Qcmult.
Definition qnormsq := normsq 0%Qc Qcplus Qcmult.
Definition qunit := unit_vec 0%Qc 1%Qc.
Definition qtranspose := transpose 0%Qc.
Definition qmatmul := matmul 0%Qc Qcplus Qcmult.
Definition qvzero := vzero 0%Qc.
Definition qvec (l : list Q) : list Qc := map qc l.
Definition qmat (m : list (list Q)) : list (list Qc) := map qvec m.

Theorem qc_adjoint n A x y : wf_mat n A -> length x = n -> qdot (qmatvec A x) y = qdot x (qmattvec n A y).
Proof. apply (adjoint_identity Qc 0%Qc 1%Qc Qcplus Qcmult Qcminus Qcopp Qcrt). Qed.

Definition qc_eqb (a b : Qc) : bool := Qeq_bool (this a) (this b).
Definition qcl_eqb := list_eqb qc_eqb.
Definition qcll_eqb := list_eqb qcl_eqb.

Lemma qc_eqb_eq a b : qc_eqb a b = true <-> a = b.
Proof.
  unfold qc_eqb. rewrite Qeq_bool_iff. split; [apply Qc_is_canon | intros ->; reflexivity].
Qed.

(* observed float (exact rational a) vs model value b *)
Definition qc_close (tol : Q) (a b : Qc) : bool := q_close tol (this a) (this b).
Definition qcl_close (tol : Q) := list_eqb (qc_close tol).
Definition qcll_close (tol : Q) := list_eqb (qcl_close tol).
