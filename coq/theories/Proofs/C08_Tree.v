(* C08 -- the tree doubling of NUTS (Model/C08_NUTS.v, Section Tree) over an abstract state type:
   the deterministic skeleton of BuildTree, what n' counts, where the candidate comes from,
   stopping, invariants, and the exact law of the sub-sampling. *)
From CV Require Import Base.Tac Base.Ext Model.C08_NUTS Proofs.C08_Prog.
From Coq Require Import QArith Qabs Qminmax Lqa Qfield.

Section TreeProofs.
Variable S : Type.
Variable leap : bool -> S -> S.
Variable ham : S -> ext.
Variable uturn_ok : S -> S -> bool.
Variable alpha : S -> Q.
Variable logu : ext.

Notation build := (build S leap ham uturn_ok alpha logu).
Notation in_slice := (in_slice S ham logu).
Notation not_diverged := (not_diverged S ham logu).
Notation tree := (tree S).

(* ---------------- the deterministic part of BuildTree ---------------- *)
(* everything BuildTree returns except the sub-sampled candidate is a function of the start,
   the direction and the depth *)
Record skel := mkSk {
  k_minus : S; k_plus : S; k_n : Z; k_ok : bool; k_asum : Q; k_an : Z;
  k_leaves : list S; k_tests : list (S * S) }.

Definition skel_of (t : tree) : skel :=
  mkSk (t_minus t) (t_plus t) (t_n t) (t_ok t) (t_asum t) (t_an t) (t_leaves t) (t_tests t).

Fixpoint dbuild (s : S) (v : bool) (j : nat) : skel :=
  match j with
  | O => let s' := leap v s in
         mkSk s' s' (if in_slice s' then 1 else 0) (not_diverged s') (alpha s') 1 [s'] []
  | Datatypes.S j' =>
      let d1 := dbuild s v j' in
      if k_ok d1 then
        let d2 := dbuild (if v then k_plus d1 else k_minus d1) v j' in
        let mn := if v then k_minus d1 else k_minus d2 in
        let pl := if v then k_plus d2 else k_plus d1 in
        mkSk mn pl (k_n d1 + k_n d2) (k_ok d2 && uturn_ok mn pl) (k_asum d1 + k_asum d2) (k_an d1 + k_an d2)
             (k_leaves d1 ++ k_leaves d2) (k_tests d1 ++ k_tests d2 ++ [(mn, pl)])
      else d1
  end.

Lemma build_skel : forall j s v, all_out (fun t => skel_of t = dbuild s v j) (build s v j).
Proof.
  induction j as [|j IH]; intros s v.
  - simpl. reflexivity.
  - cbn [C08_NUTS.build]. rewrite all_out_bind.
    eapply all_out_impl; [| apply (IH s v)]. intros t1 H1.
    cbn [dbuild]. rewrite <- H1. cbn [k_ok skel_of k_plus k_minus].
    destruct (t_ok t1) eqn:Hok.
    + rewrite all_out_bind.
      eapply all_out_impl; [| apply (IH (if v then t_plus t1 else t_minus t1) v)]. intros t2 H2.
      rewrite <- H2. cbn [all_out]. split; reflexivity.
    + cbn [all_out]. reflexivity.
Qed.

Lemma skel_fields (t : tree) d : skel_of t = d ->
  t_minus t = k_minus d /\ t_plus t = k_plus d /\ t_n t = k_n d /\ t_ok t = k_ok d /\
  t_asum t = k_asum d /\ t_an t = k_an d /\ t_leaves t = k_leaves d /\ t_tests t = k_tests d.
Proof. intros <-. repeat split. Qed.

(* stop at the first sub-tree that says stop: the second half is not built *)
Lemma dbuild_stop s v j : k_ok (dbuild s v j) = false -> dbuild s v (Datatypes.S j) = dbuild s v j.
Proof. intros H. cbn [dbuild]. rewrite H. reflexivity. Qed.

Lemma dbuild_go s v j : k_ok (dbuild s v j) = true ->
  let d1 := dbuild s v j in
  let d2 := dbuild (if v then k_plus d1 else k_minus d1) v j in
  k_leaves (dbuild s v (Datatypes.S j)) = k_leaves d1 ++ k_leaves d2 /\
  k_n (dbuild s v (Datatypes.S j)) = (k_n d1 + k_n d2)%Z /\
  k_ok (dbuild s v (Datatypes.S j)) = k_ok d2 && uturn_ok (if v then k_minus d1 else k_minus d2) (if v then k_plus d2 else k_plus d1).
Proof. intros H. cbn [dbuild]. rewrite H. cbn. repeat split. Qed.

(* ---------------- what n' counts ---------------- *)
Definition cnt_slice (l : list S) : Z := Z.of_nat (length (filter in_slice l)).

Lemma cnt_slice_app l1 l2 : cnt_slice (l1 ++ l2) = (cnt_slice l1 + cnt_slice l2)%Z.
Proof. unfold cnt_slice. rewrite filter_app, app_length. lia. Qed.

Lemma cnt_slice_nonneg l : (0 <= cnt_slice l)%Z.
Proof. unfold cnt_slice. lia. Qed.

Lemma dbuild_counts : forall j s v, k_n (dbuild s v j) = cnt_slice (k_leaves (dbuild s v j)).
Proof.
  induction j as [|j IH]; intros s v.
  - cbn. unfold cnt_slice. cbn. destruct (in_slice (leap v s)); reflexivity.
  - cbn [dbuild]. destruct (k_ok (dbuild s v j)) eqn:Hok; [|apply IH].
    cbn [k_n k_leaves]. rewrite cnt_slice_app, <- !IH. reflexivity.
Qed.

Lemma dbuild_an : forall j s v, k_an (dbuild s v j) = Z.of_nat (length (k_leaves (dbuild s v j))).
Proof.
  induction j as [|j IH]; intros s v.
  - reflexivity.
  - cbn [dbuild]. destruct (k_ok (dbuild s v j)) eqn:Hok; [|apply IH].
    cbn [k_an k_leaves]. rewrite app_length, !IH. lia.
Qed.

Definition qsum (l : list Q) : Q := fold_right Qplus 0 l.
Lemma qsum_app l1 l2 : qsum (l1 ++ l2) == qsum l1 + qsum l2.
Proof. induction l1 as [|a l IH]; simpl; [ring | rewrite IH; ring]. Qed.

Lemma dbuild_asum : forall j s v, k_asum (dbuild s v j) == qsum (map alpha (k_leaves (dbuild s v j))).
Proof.
  induction j as [|j IH]; intros s v.
  - cbn. ring.
  - cbn [dbuild]. destruct (k_ok (dbuild s v j)) eqn:Hok; [|apply IH].
    cbn [k_asum k_leaves]. rewrite map_app, qsum_app, <- !IH. reflexivity.
Qed.

Lemma dbuild_leaves_nonempty : forall j s v, k_leaves (dbuild s v j) <> [].
Proof.
  induction j as [|j IH]; intros s v.
  - cbn. discriminate.
  - cbn [dbuild]. destruct (k_ok (dbuild s v j)); [|apply IH].
    cbn [k_leaves]. intros E. apply app_eq_nil in E as [E _]. exact (IH s v E).
Qed.

(* a sub-tree that says continue contains no divergent leaf *)
Lemma dbuild_ok_nodiv : forall j s v, k_ok (dbuild s v j) = true ->
  forallb not_diverged (k_leaves (dbuild s v j)) = true.
Proof.
  induction j as [|j IH]; intros s v.
  - cbn. intros ->. reflexivity.
  - cbn [dbuild]. destruct (k_ok (dbuild s v j)) eqn:Hok; [|intros H; congruence].
    cbn [k_ok k_leaves]. intros H. apply andb_true_iff in H as [H2 _].
    rewrite forallb_app, (IH _ _ Hok), (IH _ _ H2). reflexivity.
Qed.

(* invariants of the states: anything preserved by a leapfrog step holds of every leaf, both
   ends and the candidate *)
Section Inv.
Variable I : S -> Prop.
Hypothesis I_leap : forall v s, I s -> I (leap v s).

Lemma dbuild_inv : forall j s v, I s ->
  Forall I (k_leaves (dbuild s v j)) /\ I (k_minus (dbuild s v j)) /\ I (k_plus (dbuild s v j)).
Proof.
  induction j as [|j IH]; intros s v Hs.
  - cbn. repeat split; try (apply I_leap; exact Hs). constructor; [apply I_leap; exact Hs | constructor].
  - cbn [dbuild]. destruct (IH s v Hs) as (L1 & M1 & P1).
    destruct (k_ok (dbuild s v j)) eqn:Hok; [|auto].
    assert (He : I (if v then k_plus (dbuild s v j) else k_minus (dbuild s v j))) by (destruct v; assumption).
    destruct (IH _ v He) as (L2 & M2 & P2).
    cbn [k_leaves k_minus k_plus]. repeat split.
    + apply Forall_app; split; assumption.
    + destruct v; assumption.
    + destruct v; assumption.
Qed.
End Inv.

(* the candidate is always one of the leaves of the sub-tree *)
Lemma build_sel_leaf : forall j s v, all_out (fun t => In (t_sel t) (t_leaves t)) (build s v j).
Proof.
  induction j as [|j IH]; intros s v.
  - cbn. left. reflexivity.
  - cbn [C08_NUTS.build]. rewrite all_out_bind.
    eapply all_out_impl; [| apply (IH s v)]. intros t1 H1.
    destruct (t_ok t1).
    + rewrite all_out_bind. eapply all_out_impl; [| apply (IH (if v then t_plus t1 else t_minus t1) v)].
      intros t2 H2. cbn. split; apply in_or_app; [right | left]; assumption.
    + exact H1.
Qed.

(* every Flip of BuildTree has a probability in [0,1] *)
Lemma swap_prob_range n1 n2 : (0 <= n1)%Z -> (0 <= n2)%Z -> 0 <= swap_prob n1 n2 <= 1.
Proof.
  intros H1 H2. unfold swap_prob.
  assert (Hm : (0 < Z.max 1 (n1 + n2))%Z) by lia.
  assert (Hq : 0 < inject_Z (Z.max 1 (n1 + n2))) by (rewrite <- (Zlt_Qlt 0); exact Hm).
  split.
  - apply Qle_shift_div_l; [exact Hq|]. rewrite Qmult_0_l. rewrite <- (Zle_Qle 0). exact H2.
  - apply Qle_shift_div_r; [exact Hq|]. rewrite Qmult_1_l. rewrite <- Zle_Qle. lia.
Qed.

Lemma build_wf : forall j s v, wf_prog (build s v j).
Proof.
  induction j as [|j IH]; intros s v.
  - exact I.
  - cbn [C08_NUTS.build]. apply wf_bind; [apply IH|].
    eapply all_out_impl; [| apply (build_skel j s v)]. intros t1 H1.
    destruct (t_ok t1); [|exact I].
    apply wf_bind; [apply IH|].
    eapply all_out_impl; [| apply (build_skel j (if v then t_plus t1 else t_minus t1) v)]. intros t2 H2.
    cbn. split; [|split; exact I].
    apply skel_fields in H1. apply skel_fields in H2.
    destruct H1 as (_ & _ & N1 & _). destruct H2 as (_ & _ & N2 & _).
    rewrite N1, N2, !dbuild_counts. apply swap_prob_range; apply cnt_slice_nonneg.
Qed.

(* a candidate of positive probability lies in the slice whenever n' > 0 *)
Lemma build_sel_in_slice : forall j s v,
  all_pos (fun t => (0 < t_n t)%Z -> in_slice (t_sel t) = true) (build s v j).
Proof.
  induction j as [|j IH]; intros s v.
  - cbn. destruct (in_slice (leap v s)); [reflexivity | lia].
  - cbn [C08_NUTS.build]. rewrite all_pos_bind.
    eapply all_pos_impl_out; [apply (build_skel j s v) | | apply (IH s v)].
    intros t1 K1 H1. cbn beta.
    destruct (t_ok t1); [|exact H1].
    rewrite all_pos_bind.
    eapply all_pos_impl_out; [apply (build_skel j (if v then t_plus t1 else t_minus t1) v) | | apply IH].
    intros t2 K2 H2. cbn beta.
    apply skel_fields in K1. apply skel_fields in K2.
    destruct K1 as (_ & _ & N1 & _). destruct K2 as (_ & _ & N2 & _).
    assert (P1 : (0 <= t_n t1)%Z) by (rewrite N1, dbuild_counts; apply cnt_slice_nonneg).
    assert (P2 : (0 <= t_n t2)%Z) by (rewrite N2, dbuild_counts; apply cnt_slice_nonneg).
    cbn [all_pos t_n t_sel]. unfold swap_prob. split; intros Hp Hn.
    + (* swapped to the second half: needs n'' > 0 *)
      apply H2. destruct (Z.eq_dec (t_n t2) 0) as [E|E]; [|lia].
      rewrite E in Hp. unfold Qdiv in Hp. rewrite Qmult_0_l in Hp. exfalso. apply (Qlt_irrefl 0). exact Hp.
    + (* kept the first half: needs n' > 0 *)
      apply H1. destruct (Z.eq_dec (t_n t1) 0) as [E|E]; [|lia].
      exfalso. rewrite E, Z.add_0_l in Hp, Hn. rewrite Z.max_r in Hp by lia.
      assert (Hq : ~ inject_Z (t_n t2) == 0).
      { intros Q0. unfold Qeq, inject_Z in Q0. simpl in Q0. lia. }
      assert (E1 : inject_Z (t_n t2) / inject_Z (t_n t2) == 1) by (field; exact Hq).
      rewrite E1 in Hp. apply (Qlt_irrefl 1). exact Hp.
Qed.

(* ---------------- the exact law of the sub-sampling ---------------- *)
Section Uniform.
Variable eqb : S -> S -> bool.

Definition ind (k : S) (t : tree) : Q := if eqb (t_sel t) k then 1 else 0.
(* probability that BuildTree hands state k upwards *)
Definition selp (s : S) (v : bool) (j : nat) (k : S) : Q := dist (build s v j) (ind k).
(* number of occurrences of k among the in-slice leaves *)
Definition occ (k : S) (l : list S) : Z := Z.of_nat (length (filter (fun x => eqb x k) (filter in_slice l))).

Lemma occ_app k l1 l2 : occ k (l1 ++ l2) = (occ k l1 + occ k l2)%Z.
Proof. unfold occ. rewrite !filter_app, app_length. lia. Qed.

Lemma selp_stop s v j k : k_ok (dbuild s v j) = false -> selp s v (Datatypes.S j) k == selp s v j k.
Proof.
  intros Hstop. unfold selp. cbn [C08_NUTS.build]. rewrite dist_bind.
  apply (dist_ext_out _ _ _ _ (build_skel j s v)). intros t1 K1.
  apply skel_fields in K1. destruct K1 as (_ & _ & _ & O1 & _). rewrite O1, Hstop. reflexivity.
Qed.

Lemma selp_go s v j k : k_ok (dbuild s v j) = true ->
  let d1 := dbuild s v j in
  let e := if v then k_plus d1 else k_minus d1 in
  let p := swap_prob (k_n d1) (k_n (dbuild e v j)) in
  selp s v (Datatypes.S j) k == p * selp e v j k + (1 - p) * selp s v j k.
Proof.
  intros Hgo d1 e p. unfold selp. cbn [C08_NUTS.build]. rewrite dist_bind.
  transitivity (dist (build s v j) (fun t1 => p * dist (build e v j) (ind k) + (1 - p) * ind k t1));
    [| rewrite dist_affine; reflexivity].
  apply (dist_ext_out _ _ _ _ (build_skel j s v)). intros t1 K1.
  apply skel_fields in K1. destruct K1 as (M1 & P1 & N1 & O1 & _).
  rewrite O1, Hgo.
  assert (Ee : (if v then t_plus t1 else t_minus t1) = e) by (unfold e, d1; destruct v; congruence).
  rewrite Ee. rewrite dist_bind.
  transitivity (dist (build e v j) (fun t2 => (1 - p) * ind k t1 + p * ind k t2));
    [| rewrite dist_affine; ring].
  apply (dist_ext_out _ _ _ _ (build_skel j e v)). intros t2 K2.
  apply skel_fields in K2. destruct K2 as (_ & _ & N2 & _).
  cbn [dist]. unfold ind at 1 2. cbn [t_sel]. fold (ind k t2). fold (ind k t1).
  rewrite N1, N2. fold d1. fold e. fold p. ring.
Qed.

Theorem selp_uniform : forall j s v k,
  selp s v j k * inject_Z (k_n (dbuild s v j)) == inject_Z (occ k (k_leaves (dbuild s v j))).
Proof.
  induction j as [|j IH]; intros s v k.
  - unfold selp, occ, ind. cbn. destruct (in_slice (leap v s)); cbn; destruct (eqb (leap v s) k); cbn; reflexivity.
  - destruct (k_ok (dbuild s v j)) eqn:Hok.
    + rewrite (selp_go s v j k Hok). cbn zeta.
      destruct (dbuild_go s v j Hok) as (EL & EN & _). rewrite EL, EN, occ_app.
      set (d1 := dbuild s v j) in *. set (e := if v then k_plus d1 else k_minus d1) in *.
      set (d2 := dbuild e v j) in *.
      pose proof (IH s v k) as I1. pose proof (IH e v k) as I2. fold d1 in I1. fold d2 in I2.
      assert (P1 : (0 <= k_n d1)%Z) by (unfold d1; rewrite dbuild_counts; apply cnt_slice_nonneg).
      assert (P2 : (0 <= k_n d2)%Z) by (unfold d2; rewrite dbuild_counts; apply cnt_slice_nonneg).
      rewrite !inject_Z_plus, <- I1, <- I2.
      unfold swap_prob.
      destruct (Z.eq_dec (k_n d1 + k_n d2) 0) as [E0 | E0].
      * assert (E1 : k_n d1 = 0%Z) by lia. assert (E2 : k_n d2 = 0%Z) by lia.
        rewrite E1, E2. cbn. ring.
      * rewrite Z.max_r by lia. rewrite inject_Z_plus.
        assert (Hq : ~ inject_Z (k_n d1) + inject_Z (k_n d2) == 0).
        { rewrite <- inject_Z_plus. intros Q0. unfold Qeq, inject_Z in Q0. simpl in Q0. lia. }
        field. exact Hq.
    + rewrite (selp_stop s v j k Hok), (dbuild_stop s v j Hok). apply IH.
Qed.

End Uniform.

End TreeProofs.
