(* C15 -- round 5: the optimiser route one layer deeper (cuqi/solver/_solver.py: which SciPy routine is run, with which
   gradient mode and start point, and what the entry point makes of SciPy's result), the stopping test of that routine on
   the instance that runs, and sample_posterior as ONE function (selection of the sampler + law of the direct route).
   Executable model only; proofs in Proofs/C15_Opt.v. *)
From CV Require Import Base.Tac Base.LinAlg Base.Cmp Base.QcLin Model.C15_MAP.
From Coq Require Import QArith Qabs Qcanon.
Local Open Scope Qc_scope.

(* ------------------------------------------------------------------------------------------------
   1. _solve_max_point -> cuqi.solver.{minimize, L_BFGS_B} -> scipy.optimize.{minimize, fmin_l_bfgs_b}
   ------------------------------------------------------------------------------------------------ *)
(* method argument of scipy.optimize.minimize: None (SciPy then picks BFGS: cuqi passes neither bounds nor constraints),
   or the derivative-free methods the proposed repair fixes/C15_nonsmooth_polish.diff adds *)
Inductive sc_method := MNone | MNelderMead | MPowell.
Inductive sc_call :=
  | CMinimize (meth : sc_method) (jac_given : bool) (start : qv)          (* opt.minimize(func, x0, jac=gradfunc, method=..) *)
  | CLbfgsb (fprime_given approx_grad : bool) (start : qv).               (* fmin_l_bfgs_b(func, x0, fprime=.., approx_grad=..) *)

(* a scripted SciPy answer: the point and a status (minimize: success = (status = 0); fmin_l_bfgs_b: warnflag = status) *)
Definition sc_answer := (qv * nat)%type.
Definition answer_success (a : sc_answer) : bool := Nat.eqb (snd a) 0.

Definition first_call (P : pinfo) (density_has_grad : bool) (x0 : option qv) : sc_call :=
  let '(s, g, st) := solve_max_point_setup P density_has_grad x0 in
  match s with
  | SMinimize => CMinimize MNone g st
  | SLBFGSB => CLbfgsb g (negb g) st
  end.

(* the calls made and the (point, success) _solve_max_point hands back.  polish = state of fixes/C15_nonsmooth_polish.diff
   on the tree (without it exactly one call is made).  answers: what SciPy returns, call by call; a missing answer cannot
   happen in a run (None). *)
Definition solve_max_point_run (polish : bool) (P : pinfo) (density_has_grad : bool) (x0 : option qv) (answers : list sc_answer)
  : option (list sc_call * qv * bool) :=
  match answers with
  | [] => None
  | a1 :: rest =>
    let c1 := first_call P density_has_grad x0 in
    if polish && negb density_has_grad && negb (answer_success a1) then
      match rest with
      | a2 :: a3 :: _ => Some ([c1; CMinimize MNelderMead false (fst a1); CMinimize MPowell false (fst a2)], fst a3, answer_success a3)
      | _ => None
      end
    else Some ([c1], fst a1, answer_success a1)
  end.

(* what MAP()/ML() return on the optimiser route: ALWAYS the solver's last point as a value -- the success flag only travels
   in .info; the code has no branch that raises (this is the faithful model; see C15_unconverged_point_returned_refuted) *)
Definition opt_entry (polish : bool) (P : pinfo) (density_has_grad : bool) (x0 : option qv) (answers : list sc_answer)
  : option (outcome * bool) :=
  match solve_max_point_run polish P density_has_grad x0 answers with
  | Some (_, x, ok) => Some (Val x, ok)
  | None => None
  end.

(* the gradient probe `density.gradient(x0)` at the top of _solve_max_point: it may succeed, raise NotImplementedError /
   AttributeError (caught: finite differences), or raise something else (a Cauchy likelihood: TypeError) -- that exception is
   not caught, the entry point FAILS before any solver is built (the same exception would escape once more from the second probe,
   `_check_posterior(self, CMRF, must_have_gradient=True)`, which catches the same two classes only) *)
Inductive grad_probe := GOk | GNotAvailable | GRaises.
Definition probe_has_grad (p : grad_probe) : bool := match p with GOk => true | _ => false end.
Inductive entry_result := ERet (x : qv) (ok : bool) | ERaised.
Definition opt_entry_x (polish : bool) (P : pinfo) (probe : grad_probe) (x0 : option qv) (answers : list sc_answer)
  : option (list sc_call * entry_result) :=
  match probe with
  | GRaises => Some ([], ERaised)
  | _ => match solve_max_point_run polish P (probe_has_grad probe) x0 answers with
         | Some (cs, x, ok) => Some (cs, ERet x ok)
         | None => None
         end
  end.

(* MAP as a whole: the closed form for linear-Gaussian problems within MAX_DIM_INV, else the optimiser on the posterior;
   ML: always the optimiser on the likelihood.  (route, SciPy calls) *)
Definition entry_calls (is_ml polish : bool) (P : pinfo) (max_dim_inv : nat) (density_has_grad : bool) (x0 : option qv)
           (answers : list sc_answer) : option (route * list sc_call) :=
  match (if is_ml then ml_route P max_dim_inv else map_route P max_dim_inv) with
  | RDirect => Some (RDirect, [])
  | ROptimiser => match solve_max_point_run polish P density_has_grad x0 answers with
                  | Some (cs, _, _) => Some (ROptimiser, cs)
                  | None => None
                  end
  end.

(* ---- comparison with the observation (recorded at the SciPy boundary) ---- *)
Definition sc_method_eqb (a b : sc_method) : bool :=
  match a, b with MNone, MNone | MNelderMead, MNelderMead | MPowell, MPowell => true | _, _ => false end.
Definition sc_call_eqb (a b : sc_call) : bool :=
  match a, b with
  | CMinimize m1 j1 s1, CMinimize m2 j2 s2 => sc_method_eqb m1 m2 && Bool.eqb j1 j2 && qcl_eqb s1 s2
  | CLbfgsb f1 a1 s1, CLbfgsb f2 a2 s2 => Bool.eqb f1 f2 && Bool.eqb a1 a2 && qcl_eqb s1 s2
  | _, _ => false
  end.
(* observed call: routine (0 minimize / 1 fmin_l_bfgs_b), method (0 None / 1 Nelder-Mead / 2 Powell), gradient given,
   approx_grad, start point *)
Definition mk_call (c : nat * nat * bool * bool * list Q) : sc_call :=
  let '(routine, meth, g, ag, st) := c in
  match routine with
  | O => CMinimize (match meth with 0%nat => MNone | 1%nat => MNelderMead | _ => MPowell end) g (qvec st)
  | _ => CLbfgsb g ag (qvec st)
  end.
Definition mk_answers (l : list (list Q * nat)) : list sc_answer := map (fun p => (qvec (fst p), snd p)) l.

(* observed: the calls at the SciPy boundary, whether the entry point returned a value (else it raised), the returned point,
   info["success"] as a truth value, label (0 direct / 1 "L-BFGS-B" / 2 other) *)
Definition mk_probe (k : nat) : grad_probe := match k with 0%nat => GOk | 1%nat => GNotAvailable | _ => GRaises end.
Definition check_dispatch (is_ml polish : bool) (P : pinfo) (max_dim_inv : nat) (probe : nat) (x0 : option (list Q))
           (answers : list (list Q * nat)) (calls : list (nat * nat * bool * bool * list Q))
           (returned_value : bool) (point : list Q) (success : bool) (label : nat) : bool :=
  let x0' := match x0 with Some v => Some (qvec v) | None => None end in
  let g := probe_has_grad (mk_probe probe) in
  match entry_calls is_ml polish P max_dim_inv g x0' (mk_answers answers) with
  | Some (RDirect, _) => match calls with [] => Nat.eqb label 0 && returned_value | _ => false end
  | Some (ROptimiser, _) =>
      match opt_entry_x polish P (mk_probe probe) x0' (mk_answers answers) with
      | Some (cs, ERet x ok) =>
          list_eqb sc_call_eqb cs (map mk_call calls) && Nat.eqb label 1
          && returned_value && qcl_eqb x (qvec point) && Bool.eqb ok success
          && match opt_entry polish P g x0' (mk_answers answers) with Some (Val x', ok') => qcl_eqb x x' && Bool.eqb ok ok' | _ => false end
      | Some (cs, ERaised) => match calls with [] => negb returned_value | _ => false end
      | None => false
      end
  | None => false
  end.

(* ------------------------------------------------------------------------------------------------
   2. SciPy's stopping test at the returned point, with the exact gradient, on a linear-Gaussian instance:
      BFGS (and L-BFGS-B's pgtol) stop where max_i |grad_i| <= gtol.  The curvature bound H >= mu I of the negative Hessian
      H = A^T Pe A + Px is a checked certificate (psd_cert of H - mu I).  cx = None: no prior term (ML).
   ------------------------------------------------------------------------------------------------ *)
Definition shift_mat (n : nat) (H : qm) (mu : Qc) : qm := qmadd H (qscalar_mat n (- mu)).
Definition qzero_mat (n : nat) : qm := qscalar_mat n 0.
Definition maxnorm_le (g : qv) (tol : Q) : bool := forallb (fun gi => Qle_bool (Qabs (this gi)) tol) g.

Definition opt_stop_ok (m n : nat) (A : qm) (b x0 : qv) (ce : covform) (cx : option covform) (mu : Qc) (gtol : Q) (x : qv) : bool :=
  let Ce := dense_of true m ce in
  shape_ok m n A && shape_ok m m Ce && Nat.eqb (length b) m && Nat.eqb (length x0) n && Nat.eqb (length x) n
  && negb (Qle_bool (this mu) 0) &&
  match qinv Ce, (match cx with Some c => if shape_ok n n (dense_of true n c) then qinv (dense_of true n c) else None
                              | None => Some (qzero_mat n) end) with
  | Some Pe, Some Px =>
      qcll_eqb (qtranspose m Pe) Pe
      && psd_cert n (shift_mat n (post_prec n A Pe Px) mu)
      && maxnorm_le (post_grad n A Pe Px b x0 x) gtol
  | _, _ => false
  end.

(* the distance bound the theorem gives, also evaluated: mu^2 |x - xs|^2 <= n gtol^2 for the exact maximiser xs *)
Definition dist_within (n : nat) (mu : Qc) (gtol : Q) (x xs : qv) : bool :=
  let d := qvsub xs x in
  Qle_bool (this (mu * mu * qdot d d)) (inject_Z (Z.of_nat n) * gtol * gtol).

Definition gtol_bfgs : Q := 101 # 10000000.      (* SciPy's default gtol = pgtol = 1e-5, one per cent slack for the rounding of the float gradient *)

(* observed: the point MAP (is_ml = false) / ML (is_ml = true) returned through the optimiser with exact gradients *)
Definition check_opt_stop (is_ml : bool) (m n : nat) (A : list (list Q)) (b x0 : list Q) (ge gx : gdesc) (mu : Q) (x : list Q) : bool :=
  let ce := mk_cov (gd_kind ge) (gd_s ge) (gd_v ge) (gd_M ge) in
  let cx := mk_cov (gd_kind gx) (gd_s gx) (gd_v gx) (gd_M gx) in
  opt_stop_ok m n (qmat A) (qvec b) (qvec x0) ce (if is_ml then None else Some cx) (Q2Qc mu) gtol_bfgs (qvec x)
  && match (if is_ml then ml_exact m n (qmat A) (qvec b) ce else post_mean_exact m n (qmat A) (qvec b) (qvec x0) ce cx) with
     | Some xs => dist_within n (Q2Qc mu) gtol_bfgs (qvec x) xs
     | None => false
     end.

(* ------------------------------------------------------------------------------------------------
   4. the curvature hypothesis of C15_gauss_plus_concave_maximiser decided on the instance that runs:
      A^T Pe A - mu I has a positive-semidefiniteness certificate (Pe the checked, symmetric inverse of the noise covariance)
   ------------------------------------------------------------------------------------------------ *)
Definition curvature_ok (m n : nat) (A : qm) (ce : covform) (mu : Qc) : bool :=
  let Ce := dense_of true m ce in
  shape_ok m n A && shape_ok m m Ce && negb (Qle_bool (this mu) 0) &&
  match qinv Ce with
  | Some Pe => qcll_eqb (qtranspose m Pe) Pe && psd_cert n (shift_mat n (atpa n A Pe) mu)
  | None => false
  end.
Definition check_curvature (m n : nat) (A : list (list Q)) (ge : gdesc) (mu : Q) : bool :=
  curvature_ok m n (qmat A) (mk_cov (gd_kind ge) (gd_s ge) (gd_v ge) (gd_M ge)) (Q2Qc mu).

(* ------------------------------------------------------------------------------------------------
   3. sample_posterior as one function: the cascade's choice and, on the direct route, the law of the draws
   ------------------------------------------------------------------------------------------------ *)
Inductive sample_entry_result :=
  | SEDirect (law : sample_law)            (* _sampleMapCholesky: no burn-in, no experimental variant *)
  | SEOther (c : sampler_choice).          (* handed to another sampler (C15_handover_protocol) or refused *)

Definition sample_posterior_entry (fixed joint : bool) (P : pinfo) (prior_sptm lik_sqrtprec : bool) (max_dim_inv : nat)
           (experimental : bool) (nb : option nat)
           (A : qm) (b x0 : qv) (ce cx : option covform) : sample_entry_result :=
  match sample_route joint P prior_sptm lik_sqrtprec max_dim_inv with
  | SMapCholesky => SEDirect (sample_direct fixed (p_m P) (p_n P) A b x0 ce cx)
  | c => SEOther c
  end.

(* linear-Gaussian structure as a decidable predicate on the class information *)
Definition is_linear_gaussian (P : pinfo) : bool :=
  dcls_eqb (p_prior P) DGaussian && dcls_eqb (p_lik P) DGaussian && match p_model P with MLinear => true | MGeneral => false end.
Definition within_dims (P : pinfo) (d : nat) : bool := Nat.leb (p_n P) d && Nat.leb (p_m P) d.

(* observed: index of the _sample* method that ran (sampler_index), and for _sampleMapCholesky the affine map read off from
   scripted normals: offset mu and factor L (draw = mu + L z), compared through L L^T *)
Definition check_sample_entry (fixed joint : bool) (P : pinfo) (prior_sptm lik_sqrtprec : bool) (max_dim_inv : nat)
           (experimental : bool) (nb : option nat)
           (A : list (list Q)) (b x0 : list Q) (ge gx : gdesc) (observed_index : nat) (mu : list Q) (L : list (list Q)) : bool :=
  match sample_posterior_entry fixed joint P prior_sptm lik_sqrtprec max_dim_inv experimental nb
          (qmat A) (qvec b) (qvec x0) (gd_cov (p_m P) ge) (gd_cov (p_n P) gx) with
  | SEDirect (SLaw mu' C) =>
      Nat.eqb observed_index 1 && is_linear_gaussian P && within_dims P max_dim_inv && negb joint
      && qcl_close tol8 (qvec mu) mu'
      && let Lq := qmat L in
         is_lower Lq && diag_pos Lq && Nat.eqb (length Lq) (p_n P)
         && qcll_close tol8 (qmatmul (p_n P) Lq (qtranspose (p_n P) Lq)) C
  | SEDirect (SErr _) => false
  | SEOther c => Nat.eqb (sampler_index c) observed_index && negb (Nat.eqb observed_index 1)
                 && negb (is_linear_gaussian P && within_dims P max_dim_inv && negb joint)
  end.
