(* C08 -- The No-U-Turn sampler leaves its target invariant: FINITE STATE SPACES.  The lift from one orbit to a whole
   state space, and the step over the slice variable as far as it is a finite sum.  Property theorems only. *)
From CV Require Import Base.Tac Base.Cmp Base.Ext Model.C08_NUTS.
From CV Require Import Proofs.C08_Prog Proofs.C08_Tree Proofs.C08_Top Proofs.C08_Block Proofs.C08_Sim Proofs.C08_Cycle Proofs.C08_SliceTop
                       Proofs.C08_Closed Proofs.C08_Finite.
From Coq Require Import QArith.
Local Open Scope Q_scope.

(* ---- one slice level: the uniform distribution on the slice of the WHOLE state space is invariant --------------- *)
(* S any type with a duplicate-free list `states` of all its elements and a decidable equality; leap any map whose two
   directions undo each other (a discrete integrator that is time-reversible and volume preserving: a bijection preserves
   the counting measure).  Then every orbit closes (pigeonhole) and for EVERY Hamiltonian, log-density, U-turn predicate,
   slice level log u (in-slice states not divergent: every finite log u), max_depth, both samplers when the log-density is
   finite: for every in-slice state k the sum over ALL in-slice states s of P(s -> k) is 1 -- trajectories that wrap
   around a short orbit included. *)
Theorem C08_finite_space_slice_stationary :
  forall (S : Type) (leap : bool -> S -> S), (forall v s, leap (negb v) (leap v s) = s) ->
  forall (eqb : S -> S -> bool), (forall a b, eqb a b = true <-> a = b) ->
  forall (states : list S), NoDup states -> (forall s, In s states) ->
  forall (ham lgd : S -> ext) (uturn : S -> S -> bool) (alpha : S -> Q) (guard : bool),
  guard = false \/ (forall s, finite_logd S lgd s = true) ->
  forall (logu : ext), (forall s, in_slice S ham logu s = true -> not_diverged S ham logu s = true) ->
  forall (max_depth : nat) (k : S), in_slice S ham logu k = true ->
  (forall s0, exists N : nat, (0 < N)%nat /\ Nat.iter N (leap true) s0 = s0 /\
                              (forall n, (0 < n < N)%nat -> Nat.iter n (leap true) s0 <> s0)) /\
  ssum (fun s => if in_slice S ham logu s
                 then dist (transition S leap ham lgd uturn alpha logu guard max_depth s) (fun tp => if eqb (p_cur tp) k then 1 else 0)
                 else 0) states == 1.
Proof.
  intros S leap Hb eqb Heq states ND Hall ham lgd uturn alpha guard Hf logu Hs md k Hk. split.
  - intros s0. exact (orbit_closes S leap Hb eqb Heq states Hall s0).
  - exact (finite_stationary S leap Hb eqb Heq states ND Hall ham lgd uturn alpha guard Hf logu Hs md k Hk).
Qed.
Print Assumptions C08_finite_space_slice_stationary.

(* ---- the transition sees the slice variable only through its two tests ------------------------------------------ *)
(* two slice levels that put the same states in the slice and declare the same states divergent give the same
   probabilistic program (same scripted runs, same law): on a finite state space the continuum of slice levels reduces to
   finitely many classes *)
Theorem C08_slice_level_classes :
  forall (S : Type) (leap : bool -> S -> S) (ham lgd : S -> ext) (uturn : S -> S -> bool) (alpha : S -> Q) (logu logu' : ext),
  (forall s, in_slice S ham logu' s = in_slice S ham logu s) ->
  (forall s, not_diverged S ham logu' s = not_diverged S ham logu s) ->
  forall guard max_depth s0,
  (forall us log, run (transition S leap ham lgd uturn alpha logu' guard max_depth s0) us log
                  = run (transition S leap ham lgd uturn alpha logu guard max_depth s0) us log) /\
  (forall f, dist (transition S leap ham lgd uturn alpha logu' guard max_depth s0) f
             == dist (transition S leap ham lgd uturn alpha logu guard max_depth s0) f).
Proof.
  intros S leap ham lgd uturn alpha logu logu' E1 E2 guard md s0. split.
  - intros us log. apply peq_run. exact (transition_level S leap ham lgd uturn alpha logu logu' E1 E2 guard md s0).
  - intros f. apply peq_dist. exact (transition_level S leap ham lgd uturn alpha logu logu' E1 E2 guard md s0).
Qed.
Print Assumptions C08_slice_level_classes.

(* ---- the target is invariant: finite state space, layer-cake slice variable ------------------------------------- *)
(* levels = (log u_j, lambda_j): representatives of the classes of slice levels with the masses of the classes;
   pi(s) = sum_j lambda_j [s in slice_j] (for the real sampler lambda_j is the integral of e^t over class j and pi = e^H).
   One NUTS step from s: refresh with a kernel R that preserves pi (momentum resampling is such a kernel), draw level j
   with probability lambda_j [s in slice_j] / pi(s), run the transition at that level:
     T(s,k) = sum_j lambda_j [s in slice_j] P_j(s -> k) / pi(s).
   Then T is a Markov kernel (rows sum to 1), pi T = pi, and started from pi the law after ANY number of steps (R then T)
   is pi -- every max_depth, every U-turn predicate, every Hamiltonian.
   _partial with respect to the property text: what is NOT formalised is (i) that for the real slice variable
   log u = H0 - Exp(1) the class masses are the integrals of e^t (real analysis; the reduction to finitely many classes is
   C08_slice_level_classes), (ii) that momentum resampling preserves pi is a hypothesis on R here (discharged for product state spaces by
   C08_momentum_refresh_preserves below), (iii) the passage from a
   finite state space to R^2d (integration over orbits in place of the sum over states; the per-orbit statement is
   C08_orbit_stationary_alldepth, volume preservation C08_leapfrog_volume). *)
Theorem C08_finite_space_target_invariant_partial :
  forall (S : Type) (leap : bool -> S -> S), (forall v s, leap (negb v) (leap v s) = s) ->
  forall (eqb : S -> S -> bool), (forall a b, eqb a b = true <-> a = b) ->
  forall (states : list S), NoDup states -> (forall s, In s states) ->
  forall (ham lgd : S -> ext) (uturn : S -> S -> bool) (alpha : S -> Q) (guard : bool),
  guard = false \/ (forall s, finite_logd S lgd s = true) ->
  forall (levels : list (ext * Q)),
  (forall lv, In lv levels -> forall s, in_slice S ham (fst lv) s = true -> not_diverged S ham (fst lv) s = true) ->
  let pi := pi_of S ham levels in
  (forall s, ~ pi s == 0) ->
  forall (max_depth : nat),
  let T := T_of S leap eqb ham lgd uturn alpha guard levels max_depth in
  (forall s k, T s k == ssum (fun lv => snd lv * (if in_slice S ham (fst lv) s
                                                    then dist (transition S leap ham lgd uturn alpha (fst lv) guard max_depth s)
                                                              (fun tp => if eqb (p_cur tp) k then 1 else 0)
                                                    else 0)) levels / pi s) /\
  (forall s, ssum (fun k => T s k) states == 1) /\
  (forall k, ssum (fun s => pi s * T s k) states == pi k) /\
  (forall R : S -> S -> Q, (forall s', ssum (fun s => pi s * R s s') states == pi s') ->
     forall n k, push S states R T pi n k == pi k).
Proof.
  intros S leap Hb eqb Heq states ND Hall ham lgd uturn alpha guard Hf levels Hlv pi Hpi md T. split; [|split; [|split]].
  - intros s k. reflexivity.
  - intros s. exact (T_stochastic S leap eqb Heq states ND Hall ham lgd uturn alpha guard levels md s (Hpi s)).
  - intros k. exact (T_invariant S leap Hb eqb Heq states ND Hall ham lgd uturn alpha guard Hf levels md Hlv Hpi k).
  - intros R HR n k. exact (chain_invariant S leap Hb eqb Heq states ND Hall ham lgd uturn alpha guard Hf levels md R Hlv Hpi HR n k).
Qed.
Print Assumptions C08_finite_space_target_invariant_partial.

(* ---- momentum refreshment preserves the target ---------------------------------------------------------------- *)
(* states = positions x momenta; redrawing the momentum from its conditional law given the position,
   R((x,m),(x',m')) = [x = x'] pi(x',m') / sum_m'' pi(x',m''), preserves EVERY pi (for pi = e^logd(x) e^(-K(m)) the
   conditional is the law N(0, I) of the momentum whatever x: what NUTS.step draws first).  This is the hypothesis on R in
   C08_finite_space_target_invariant_partial for state spaces of product form. *)
Theorem C08_momentum_refresh_preserves :
  forall (X M : Type) (eqbX : X -> X -> bool), (forall a b, eqbX a b = true <-> a = b) ->
  forall (xs : list X) (ms : list M), NoDup xs ->
  forall (pi : X * M -> Q) (s' : X * M), In (fst s') xs -> ~ Zx X M ms pi (fst s') == 0 ->
  (Zx X M ms pi (fst s') == ssum (fun m => pi (fst s', m)) ms) /\
  ssum (fun s => pi s * gibbs X M eqbX ms pi s s') (list_prod xs ms) == pi s'.
Proof.
  intros X M eqbX Heq xs ms ND pi s' Hin Hz. split; [reflexivity|].
  exact (gibbs_preserves X M eqbX Heq xs ms ND pi s' Hin Hz).
Qed.
Print Assumptions C08_momentum_refresh_preserves.

(* ---- non-vacuity ------------------------------------------------------------------------------------------------ *)
(* three states on one orbit (None -> Some true -> Some false -> None), Hamiltonians 0, -1, -3, two slice levels
   three slice levels (-4, -2, -1/2 with masses 1, 1, 2): pi = (4, 2, 1) -- all hypotheses hold, and pi T = pi is also
   computed for max_depth 1 (trajectories of up to 4 states on the 3-state orbit: they wrap around) *)
Example C08_finite_space_example :
  let rot := fun s : option bool => match s with None => Some true | Some true => Some false | Some false => None end in
  let rot' := fun s : option bool => match s with None => Some false | Some true => None | Some false => Some true end in
  let leap := fun (v : bool) s => if v then rot s else rot' s in
  let eqb := fun a b : option bool => match a, b with None, None => true | Some x, Some y => Bool.eqb x y | _, _ => false end in
  let states := [None; Some true; Some false] in
  let ham := fun s : option bool => match s with None => Fin 0 | Some true => Fin (-1 # 1) | Some false => Fin (-3 # 1) end in
  let levels := [(Fin (-4 # 1), 1); (Fin (-2 # 1), 1); (Fin (-1 # 2), 2)] in
  (forall v s, leap (negb v) (leap v s) = s) /\ (forall a b, eqb a b = true <-> a = b) /\ NoDup states /\ (forall s, In s states) /\
  (forall s, finite_logd (option bool) ham s = true) /\
  (forall lv, In lv levels -> forall s, in_slice (option bool) ham (fst lv) s = true -> not_diverged (option bool) ham (fst lv) s = true) /\
  map (pi_of (option bool) ham levels) states = [4; 2; 1] /\
  (forall s, ~ pi_of (option bool) ham levels s == 0) /\
  Forall (fun k => ssum (fun s => pi_of (option bool) ham levels s
                                   * T_of (option bool) leap eqb ham ham (fun _ _ => true) (fun _ => 0) true levels 1 s k) states
                   == pi_of (option bool) ham levels k) states.
Proof.
  cbv zeta. split; [|split; [|split; [|split; [|split; [|split; [|split; [|split]]]]]]].
  - intros [] [[]|]; reflexivity.
  - intros [[]|] [[]|]; cbn; split; intros E; try reflexivity; try discriminate; try congruence.
  - repeat constructor; cbn; intuition discriminate.
  - intros [[]|]; cbn; auto.
  - intros [[]|]; reflexivity.
  - intros lv [<- | [<- | [<- | []]]] [[]|]; vm_compute; congruence.
  - vm_compute. reflexivity.
  - intros [[]|]; vm_compute; discriminate.
  - repeat constructor; vm_compute; reflexivity.
Qed.
