(* C06 -- over the reals: the weight certificate of the UGLA model is the DOCUMENTED weight, and the prior block of
   UGLA's normal operator is D^T diag(1/sqrt((D (x_k - loc))^2 + beta)) D for every difference operator D (1-d and 2-d
   LMRF alike).  (Coq's classical reals: the standard axioms of the Reals library appear under Print Assumptions.) *)
From Coq Require Import Reals Lra.
From CV Require Import Base.Tac Base.LinAlg Model.C06_RTO Model.C06_FD Proofs.C06_Weights Proofs.C06_WeightsR.
Local Open Scope R_scope.

(* s >= 0 and s^4 (d^2 + beta) = 1  iff  s^2 = 1/sqrt(d^2 + beta): W.sqrt() = diag(s), W = diag(1/sqrt((D z)^2 + beta)) *)
Theorem C06_weight_certificate : forall d beta s : R, 0 < beta -> 0 <= s ->
  ((s * s) * (s * s) * (d * d + beta) = 1 <-> s * s = 1 / sqrt (d * d + beta)).
Proof.
  intros d beta s Hb Hs. split; [apply weight_certificate_real; assumption | apply weight_certificate_real_conv; assumption].
Qed.
Print Assumptions C06_weight_certificate.

Theorem C06_ugla_documented_weights :
  forall (c : ugla_cfg R) (z : list R) (beta : R) (sw x : list R),
  0 < beta -> Forall (fun s => 0 <= s) sw -> length sw = length (g_D c) ->
  weight_law R 0 1 Rplus Rmult (g_D c) z beta sw ->
  Forall2 (fun d s => s * s = 1 / sqrt (d * d + beta)) (matvec 0 Rplus Rmult (g_D c) z) sw /\
  DtWD R 0 Rplus Rmult c sw x
  = mattvec 0 Rplus Rmult (g_n c) (g_D c)
      (pmul R Rmult (map (fun d => 1 / sqrt (d * d + beta)) (matvec 0 Rplus Rmult (g_D c) z))
                    (matvec 0 Rplus Rmult (g_D c) x)).
Proof.
  intros c z beta sw x Hb Hpos Hlen HW. split.
  - apply weight_law_documented; assumption.
  - apply ugla_prior_block_documented; assumption.
Qed.
Print Assumptions C06_ugla_documented_weights.

(* non-vacuity: beta = 15, (D z)_i = 1: s = 1/2 *)
Example C06_weight_example : (1 / 2 * (1 / 2)) * (1 / 2 * (1 / 2)) * (1 * 1 + 15) = 1 /\ 1 / 2 * (1 / 2) = 1 / sqrt (1 * 1 + 15).
Proof.
  split; [lra|].
  apply (proj1 (C06_weight_certificate 1 15 (1 / 2) ltac:(lra) ltac:(lra))). lra.
Qed.
