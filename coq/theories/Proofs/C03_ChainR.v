(* C03 -- the transcendental-geometry likelihood model (Model/C03_ChainR.v) satisfies the property: instance of the
   general chain rule (Proofs/C03_Chain.v) with g = elementwise exp / sin and F = the polynomial family. *)
From CV Require Import Base.Tac Base.LinAlg Model.C03_GradR Model.C03_ChainR Proofs.C03_GradR Proofs.C03_Quad Proofs.C03_QuadR Proofs.C03_LikGen Proofs.C03_Lik Proofs.C03_Sym Proofs.C03_SymR Proofs.C03_Chain.
From Coq Require Import Reals Lra RealField.
From Coquelicot Require Import Coquelicot.
Open Scope R_scope.

Lemma rvmulM_eq : forall x y, rvmulM x y = rvmul x y.
Proof. reflexivity. Qed.

Lemma tfwd_eq A B u : tfwd A B u = rfwd A B u.
Proof. unfold tfwd, rfwd, gfwd. rewrite rvmulM_eq. reflexivity. Qed.

Lemma tjact_eq n A B u y : tjact n A B u y = rjact n A B u y.
Proof. unfold tjact, rjact, gjact. rewrite rvmulM_eq. reflexivity. Qed.

Lemma tphi_derive m th : List.Forall (fun a => is_derive (tphi m) a (tphi' m a)) th.
Proof. apply Forall_forall. intros a _. destruct m; unfold tphi, tphi'; auto_derive; try exact I; ring. Qed.

Theorem tlik_derive (m : tmap) (n k : nat) (A B P : list (list R)) (data th d : list R) :
  wf_mat n A -> wf_mat n B -> length A = k -> length B = k ->
  wf_mat k P -> length P = k -> rtranspose k P = P ->
  length data = k -> length th = n -> length d = n ->
  is_derive (fun t => tlik_logk m A B P data (rvadd th (rvscale t d))) 0 (rdot (tlik_grad m A B P data th) d).
Proof.
  intros HA HB HAk HBk HP HPk HT Hdat Hth Hd. subst k n.
  assert (HAB : length A = length B) by lia.
  pose proof (likelihood_chain_general (length th) (length th) (length A) (rfwd A B) (emap (tphi m))
           (rfwd_d A B (emap (tphi m) th)) (rjact (length th) A B (emap (tphi m) th))
           (emap_d (tphi' m) th) (emap_d (tphi' m) th) P data th d HP HPk HT Hdat eq_refl Hd
           (curve_diff_emap _ _ th (tphi_derive m th)) (curve_diff_poly A B _ HAB) (adjoint_emap _ th)) as H.
  specialize (H ltac:(apply adjoint_poly; try assumption; unfold emap; apply map_length)).
  exact H.
Qed.
