(* C20 -- log det (L L^T) = 2 sum_i log l_ii for a positive diagonal (reals; stdlib real axioms only) *)
From CV Require Import Proofs.C20_LogDet.
From Coq Require Import Reals List.
Local Open Scope R_scope.

Theorem C20_logdet_sum : forall l : list R, Forall (fun a => 0 < a) l ->
  ln ((rprod l) ^ 2) = 2 * rsum (map ln l).
Proof. exact logdet_from_diag. Qed.
Print Assumptions C20_logdet_sum.

(* the repaired branch above MAX_DIM_INV reports sum_i ln(l_i + e) over the non-zero eigenvalues (e = sqrt(eps)):
   between the pseudo-log-determinant and pseudo-log-determinant + e * trace(P^+) -- the tolerance of the harness oracle *)
Theorem C20_logdet_regularised_bound : forall (l : list R) (e : R), Forall (fun a => 0 < a) l -> 0 < e ->
  0 <= rsum (map (fun a => ln (a + e)) l) - rsum (map ln l) <= e * rsum (map Rinv l).
Proof. exact logdet_regularised_bound. Qed.
Print Assumptions C20_logdet_regularised_bound.
