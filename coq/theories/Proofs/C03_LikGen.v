(* C03 -- the likelihood part of the executable model (Model/C03_GradQ.v: forward-model family F(u) = A (u.u) + B u,
   elementwise quadratic domain geometry, lik_logk / lik_grad) written once over an arbitrary commutative ring, and the
   proof that the Qc model IS this generic definition at Qc.  Proofs/C03_Lik.v instantiates it at R and proves the
   derivative statement, so the chain-rule theorem speaks about the very formulas the generated cases evaluate. *)
From CV Require Import Base.Tac Base.LinAlg Base.QcLin Model.C03_GradQ.
From Coq Require Import QArith Qcanon.

Section GLik.
Variable R : Type.
Variables (r0 : R) (radd rmul rsub : R -> R -> R) (ropp : R -> R) (two half : R).
Notation "x + y" := (radd x y).
Notation "x * y" := (rmul x y).

Fixpoint gvmul (x y : list R) : list R :=
  match x, y with a :: x', b :: y' => (a * b) :: gvmul x' y' | _, _ => [] end.
Definition gfwd (A B : list (list R)) (u : list R) : list R :=
  vadd radd (matvec r0 radd rmul A (gvmul u u)) (matvec r0 radd rmul B u).
Definition gjact (n : nat) (A B : list (list R)) (u d : list R) : list R :=
  vadd radd (gvmul (vscale rmul two u) (mattvec r0 radd rmul n A d)) (mattvec r0 radd rmul n B d).
Definition ggeo_fun (ga gb gc : R) (th : list R) : list R := map (fun t => ga * t * t + gb * t + gc) th.
Definition ggeo_dfun (ga gb : R) (th : list R) : list R := map (fun t => two * ga * t + gb) th.
Definition glik_grad (A B : list (list R)) (ga gb gc : R) (P : list (list R)) (data th : list R) : list R :=
  let n := length th in
  let u := ggeo_fun ga gb gc th in
  gvmul (ggeo_dfun ga gb th) (gjact n A B u (matvec r0 radd rmul P (vsub rsub data (gfwd A B u)))).
Definition glik_logk (A B : list (list R)) (ga gb gc : R) (P : list (list R)) (data th : list R) : R :=
  let r := vsub rsub data (gfwd A B (ggeo_fun ga gb gc th)) in
  ropp (half * dot r0 radd rmul r (matvec r0 radd rmul P r)).
End GLik.

Open Scope Qc_scope.
Lemma vmul_generic : forall x y, vmul x y = gvmul Qc Qcmult x y.
Proof. induction x as [|a x IH]; intros [|b y]; cbn; first [reflexivity | f_equal; apply IH]. Qed.

Theorem lik_grad_generic A B ga gb gc P data th :
  lik_grad A B ga gb gc P data th = glik_grad Qc 0 Qcplus Qcmult Qcminus C03_GradQ.two A B ga gb gc P data th.
Proof.
  unfold lik_grad, glik_grad, jact, gjact, fwd, gfwd, geo_fun, ggeo_fun, geo_dfun, ggeo_dfun.
  rewrite !vmul_generic. reflexivity.
Qed.

Theorem lik_logk_generic A B ga gb gc P data th :
  lik_logk A B ga gb gc P data th = glik_logk Qc 0 Qcplus Qcmult Qcminus Qcopp C03_GradQ.half A B ga gb gc P data th.
Proof. unfold lik_logk, glik_logk, fwd, gfwd, geo_fun, ggeo_fun. rewrite !vmul_generic. reflexivity. Qed.

Lemma two_qc : C03_GradQ.two = 1 + 1.
Proof. apply Qc_is_canon. reflexivity. Qed.
