(* C05 -- ModifiedHalfNormal._sample after the repair (one row per component, one column per draw): shape of the returned
   array and provenance of every entry, for every dimension, every N and every stream of kernel results. *)
From CV Require Import Base.Tac Base.Cmp Model.C05_Sample Model.C05_EpsLaw.
From Coq Require Import QArith.

Lemma nth_firstn_lt {A} (d : A) N : forall (l : list A) j, (j < N)%nat -> nth j (firstn N l) d = nth j l d.
Proof.
  induction N as [|N IH]; intros l j Hj; [lia|].
  destruct l as [|a l]; [destruct j; reflexivity|]. destruct j as [|j]; [reflexivity|]. cbn. apply IH. lia.
Qed.

Lemma nth_skipn_add {A} (d : A) k : forall (l : list A) j, nth j (skipn k l) d = nth (k + j) l d.
Proof.
  induction k as [|k IH]; intros l j; [reflexivity|]. destruct l as [|a l]; [destruct j; reflexivity|]. cbn. apply IH.
Qed.

Lemma skipn_add {A} b : forall (l : list A) a, skipn a (skipn b l) = skipn (b + a) l.
Proof.
  induction b as [|b IH]; intros l a; [reflexivity|]. destruct l as [|x l]; [cbn; destruct a; reflexivity|]. cbn. apply IH.
Qed.

Lemma chunks_length N r : forall l, length (chunks N r l) = r.
Proof. induction r as [|r IH]; intros l; [reflexivity|]. cbn. rewrite IH. reflexivity. Qed.

Lemma chunks_nth N r : forall l i, (i < r)%nat -> nth i (chunks N r l) [] = firstn N (skipn (i * N) l).
Proof.
  induction r as [|r IH]; intros l i Hi; [lia|]. destruct i as [|i]; [reflexivity|].
  cbn [chunks nth]. rewrite IH by lia. f_equal. rewrite skipn_add. f_equal; lia.
Qed.

Lemma chunks_row_length N r : forall l, length l = (r * N)%nat -> forall row, In row (chunks N r l) -> length row = N.
Proof.
  induction r as [|r IH]; intros l Hl row Hin; [destruct Hin|]. cbn in Hin. destruct Hin as [E|Hin].
  - subst row. rewrite firstn_length. lia.
  - apply (IH (skipn N l)); [rewrite skipn_length; lia | exact Hin].
Qed.

Lemma nth_repeat_lt {A} (p d : A) N j : (j < N)%nat -> nth j (repeat p N) d = p.
Proof. revert j. induction N as [|N IH]; intros j Hj; [lia|]. destruct j; [reflexivity|]. cbn. apply IH. lia. Qed.

Lemma mhn_calls_nth N (d : triple) : forall comps i j, (i < length comps)%nat -> (j < N)%nat ->
  nth (i * N + j) (mhn_calls N comps) d = nth i comps d.
Proof.
  unfold mhn_calls. induction comps as [|p comps IH]; intros i j Hi Hj; [cbn in Hi; lia|].
  cbn [flat_map]. destruct i as [|i].
  - cbn [Nat.mul Nat.add nth]. rewrite app_nth1 by (rewrite repeat_length; exact Hj). apply nth_repeat_lt. exact Hj.
  - rewrite app_nth2 by (rewrite repeat_length; lia). rewrite repeat_length.
    replace (S i * N + j - N)%nat with (i * N + j)%nat by lia. cbn [nth]. apply IH; [cbn in Hi; lia | exact Hj].
Qed.

Lemma mhn_calls_length N comps : length (mhn_calls N comps) = (length comps * N)%nat.
Proof.
  unfold mhn_calls. induction comps as [|p comps IH]; [reflexivity|]. cbn [flat_map length].
  rewrite app_length, repeat_length, IH. lia.
Qed.

Lemma mhn_component_params_length (vector : bool) (dim : nat) (ps : list triple) : (if vector then length ps = dim else ps <> []) ->
  length (mhn_component_params vector dim ps) = dim.
Proof.
  unfold mhn_component_params. destruct vector; intros H; [exact H|]. destruct ps as [|p ps]; [congruence|]. apply repeat_length.
Qed.

(* the repaired _sample: dim rows, N columns; entry (i, j) is the (i N + j)-th kernel result, and that kernel call was made
   with the parameters of component i *)
Theorem mhn_layout_spec (vector : bool) (dim N : nat) (ps : list triple) (vals : list Q) (d : triple) :
  (if vector then length ps = dim else ps <> []) -> length vals = (dim * N)%nat ->
  let comps := mhn_component_params vector dim ps in
  let out := mhn_layout N comps vals in
  length out = dim /\ (forall row, In row out -> length row = N) /\
  length (mhn_calls N comps) = (dim * N)%nat /\
  forall i j, (i < dim)%nat -> (j < N)%nat ->
    nth j (nth i out []) 0 = nth (i * N + j) vals 0 /\
    nth (i * N + j) (mhn_calls N comps) d = nth i comps d /\
    (vector = false -> nth i comps d = hd d ps).
Proof.
  intros Hps Hv comps out. pose proof (mhn_component_params_length vector dim ps Hps) as Hc. fold comps in Hc.
  unfold out, mhn_layout. rewrite Hc. split; [apply chunks_length|]. split; [apply chunks_row_length; exact Hv|].
  split; [rewrite mhn_calls_length, Hc; reflexivity|].
  intros i j Hi Hj. split; [|split].
  - rewrite chunks_nth by exact Hi. rewrite nth_firstn_lt by exact Hj. apply nth_skipn_add.
  - apply mhn_calls_nth; [rewrite Hc; exact Hi | exact Hj].
  - intros ->. unfold comps, mhn_component_params. destruct ps as [|p ps]; [congruence|]. cbn [hd].
    apply nth_repeat_lt. exact Hi.
Qed.

(* an accepted check_mhn_layout cell establishes: the observed array IS the layout of the model (Qeq entrywise) *)
Lemma check_mhn_layout_sound vector dim N ps vals calls obs :
  check_mhn_layout vector dim N ps vals calls obs = true ->
  qll_eqb obs (mhn_layout N (mhn_component_params vector dim ps) vals) = true.
Proof. unfold check_mhn_layout. intros H. apply andb_true_iff in H. apply H. Qed.
