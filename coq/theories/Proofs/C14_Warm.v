(* C14 -- resuming between warm-up calls; batches. *)
From CV Require Import Base.Tac Base.Cmp Model.C14_Chain Model.C14_Warm Proofs.C14_Chain.
From Coq Require String.
Import String.StringSyntax.

Section Mixed.
Variables V Rnd Tn : Type.
Variable stepS : store V -> Rnd -> store V.
Variable tuneS : store V -> Tn -> store V.

(* one operation of a run that mixes transitions and tune calls (what warmup performs) *)
Definition opS (s : store V) (o : Rnd + Tn) : store V :=
  match o with inl r => stepS s r | inr t => tuneS s t end.

Lemma resume_warmup ex scr f :
  warm_resume_ok ex scr f = true ->
  (forall s r a, ~ In a (run_writes (with_tune scr f)) -> stepS s r a = s a) ->
  (forall s t a, ~ In a (run_writes (with_tune scr f)) -> tuneS s t a = s a) ->
  (forall s1 s2 r, agree (sem_reads (with_tune scr f)) s1 s2 -> agree (f_state f) (stepS s1 r) (stepS s2 r)) ->
  (forall s1 s2 t, agree (sem_reads (with_tune scr f)) s1 s2 -> agree (f_state f) (tuneS s1 t) (tuneS s2 t)) ->
  forall orig fresh (ops1 ops2 : list (Rnd + Tn)) a,
    (forall b, ~ In b (run_writes (with_tune scr f)) -> fresh b = orig b) -> In a (f_state f) ->
    runS V (Rnd + Tn) opS (load_store (f_state f) (runS V (Rnd + Tn) opS orig ops1) fresh) ops2 a =
    runS V (Rnd + Tn) opS (runS V (Rnd + Tn) opS orig ops1) ops2 a.
Proof.
  intros Hok F1 F2 D1 D2 orig fresh ops1 ops2 a Hcfg Ha.
  change (f_state f) with (f_state (with_tune scr f)).
  apply (resume_from_facts V (Rnd + Tn) ex (with_tune scr f) opS Hok).
  - intros s [r|t] b Hb; cbn [opS]; [apply F1 | apply F2]; exact Hb.
  - intros s1 s2 [r|t] H; cbn [opS]; [apply D1 | apply D2]; exact H.
  - exact Hcfg.
  - exact Ha.
Qed.
End Mixed.

(* a tune that reads the acceptance history (MH, CWMH, PCN): resumable in the sampling phase, not between warm-up calls *)
Local Open Scope string_scope.
Definition mh_like : facts :=
  mkFacts ["current_point"; "scale"] ["_acc"] ["current_point"; "scale"] ["current_point"] [] ["_acc"] [] []
          ["_acc"] ["scale"] ["initial_point"] ["current_point"; "scale"; "_acc"] [].
Definition mh_like_step (s : store Z) (r : Z) : store Z :=
  fun a => if String.eqb a "current_point" then (s "current_point" + r * s "scale")%Z
           else if String.eqb a "_acc" then (s "_acc" + 1)%Z else s a.
Definition mh_like_tune (s : store Z) (_ : unit) : store Z :=
  fun a => if String.eqb a "scale" then s "_acc" else s a.

Lemma warm_refuted :
  footprint_ok [] mh_like = true /\ warm_resume_ok [] [] mh_like = false /\
  (forall s r a, ~ In a (run_writes (with_tune [] mh_like)) -> mh_like_step s r a = s a) /\
  (forall s t a, ~ In a (run_writes (with_tune [] mh_like)) -> mh_like_tune s t a = s a) /\
  exists orig : store Z,
    let fresh := orig in
    let ops1 := [inl 1%Z; inl 1%Z] in
    let ops2 := [inr tt; inl 1%Z] in
    runS Z (Z + unit) (opS Z Z unit mh_like_step mh_like_tune)
         (load_store (f_state mh_like) (runS Z (Z + unit) (opS Z Z unit mh_like_step mh_like_tune) orig ops1) fresh) ops2 "current_point"
    <> runS Z (Z + unit) (opS Z Z unit mh_like_step mh_like_tune)
         (runS Z (Z + unit) (opS Z Z unit mh_like_step mh_like_tune) orig ops1) ops2 "current_point".
Proof.
  split; [vm_compute; reflexivity|]. split; [vm_compute; reflexivity|]. split; [|split].
  - intros s r a Ha. unfold mh_like_step.
    destruct (String.eqb a "current_point") eqn:E1; [apply String.eqb_eq in E1; subst a; elim Ha; vm_compute; tauto|].
    destruct (String.eqb a "_acc") eqn:E2; [apply String.eqb_eq in E2; subst a; elim Ha; vm_compute; tauto|]. reflexivity.
  - intros s t a Ha. unfold mh_like_tune.
    destruct (String.eqb a "scale") eqn:E1; [apply String.eqb_eq in E1; subst a; elim Ha; vm_compute; tauto|]. reflexivity.
  - exists (fun a => if String.eqb a "scale" then 1%Z else 0%Z). vm_compute. discriminate.
Qed.

(* ------------------------------- batches ------------------------------- *)
Lemma concat_chunks_aux {A} (k : nat) : (1 <= k)%nat -> forall fuel (l : list A), (length l <= fuel)%nat ->
  concat (chunks_aux fuel k l) = l.
Proof.
  intros Hk fuel. induction fuel as [|f IH]; intros l Hl.
  - destruct l; [reflexivity | cbn in Hl; lia].
  - destruct l as [|x l]; [reflexivity|].
    cbn [chunks_aux concat]. rewrite IH.
    + apply firstn_skipn.
    + rewrite skipn_length. cbn [length] in *. lia.
Qed.

(* with finalize: the files, read in order, are the recorded chain *)
Lemma concat_chunks {A} (k : nat) (l : list A) : (1 <= k)%nat -> concat (batches true k l) = l.
Proof. intros Hk. apply concat_chunks_aux; [exact Hk | lia]. Qed.

Lemma filter_concat_length {A} (k : nat) (L : list (list A)) :
  length (concat (filter (fun b => (length b =? k)%nat) L)) = (k * length (filter (fun b => (length b =? k)%nat) L))%nat.
Proof.
  induction L as [|b L IH]; [cbn; lia|]. cbn [filter].
  destruct (length b =? k)%nat eqn:E; [|exact IH].
  apply Nat.eqb_eq in E. cbn [concat length]. rewrite app_length, IH, E. lia.
Qed.

(* without finalize every file holds exactly k samples, so the files hold a multiple of k samples *)
Lemma batches_unfinalized {A} (k : nat) (l : list A) :
  Forall (fun b => length b = k) (batches false k l) /\
  length (concat (batches false k l)) = (k * length (batches false k l))%nat.
Proof.
  split; [|apply filter_concat_length].
  unfold batches. apply Forall_forall. intros b Hb. apply filter_In in Hb as [_ Hb]. apply Nat.eqb_eq. exact Hb.
Qed.

Lemma batches_refuted : concat (batches false 3 [1; 2; 3; 4; 5; 6; 7]%Z) = [1; 2; 3; 4; 5; 6]%Z.
Proof. vm_compute. reflexivity. Qed.

Lemma adapt_defined_iff n : adapt_defined n = true <-> (10 <= n)%nat.
Proof.
  unfold adapt_defined, adapt_interval. rewrite negb_true_iff, Nat.eqb_neq. split.
  - intros H. destruct (Nat.lt_ge_cases n 10) as [L|L]; [|exact L]. elim H. apply Nat.div_small. exact L.
  - intros H E. apply Nat.div_small_iff in E; lia.
Qed.

(* one call: the files are the batches of that call *)
Lemma batch_files_one {A} fin k (c : list A) : batch_files fin k [c] [] = batches fin k c.
Proof. cbn. unfold overlay. rewrite skipn_nil. apply app_nil_r. Qed.

Lemma overlay_length {A} (a b : list A) : length (overlay a b) = Nat.max (length a) (length b).
Proof. unfold overlay. rewrite app_length, skipn_length. lia. Qed.

(* two calls into one directory: the first file of the first call is gone -- the files are not a record of the chain *)
Lemma batch_files_refuted :
  batch_files true 2 [[1; 2; 3; 4; 5]%Z; [6; 7]%Z] [] = [[6; 7]; [3; 4]; [5]]%Z /\
  concat (batch_files true 2 [[1; 2; 3; 4; 5]%Z; [6; 7]%Z] []) <> [1; 2; 3; 4; 5; 6; 7]%Z.
Proof. split; [vm_compute; reflexivity | vm_compute; discriminate]. Qed.
