(* C20 -- the three Markov-random-field priors evaluate the shifted variable through exactly the
   documented operators; square-root precision and log-determinant. *)
From CV Require Import Base.Tac Base.Cmp Base.LinAlg Base.QcLin Model.C20_Diff Model.C20_Spec
  Proofs.C20_Lin Proofs.C20_Stencil Proofs.C20_Null Proofs.C20_Gmrf Proofs.C20_Gmrf2d.
From Coq Require Import QArith Qcanon.
Local Open Scope Z_scope.

(* ---------------- x - location ---------------- *)
Lemma nth_zvsub u v j : length u = length v -> nth j (zvsub u v) 0 = nth j u 0 - nth j v 0.
Proof.
  revert v j; induction u as [|a u IH]; intros [|b v] j H; cbn in H; try discriminate.
  - destruct j; reflexivity.
  - destruct j as [|j]; cbn [zvsub vsub nth]; [reflexivity|]. apply IH. lia.
Qed.

Lemma zvsub_length u v : length u = length v -> length (zvsub u v) = length u.
Proof. apply (vsub_length Z Z.sub). Qed.

(* a vector location is subtracted entry by entry, a single number is broadcast *)
Theorem shift_spec x loc k : (k < length x)%nat ->
  (length loc = length x \/ length loc = 1%nat) ->
  length (shift x loc) = length x /\
  nth k (shift x loc) 0 = nth k x 0 - (match loc with [c] => c | _ => nth k loc 0 end).
Proof.
  intros Hk HL. unfold shift. destruct loc as [|c [|c' loc]].
  - cbn in HL. lia.
  - rewrite map_length. split; [reflexivity|].
    rewrite (nth_indep _ 0 ((fun a => a - c) 0)) by (rewrite map_length; exact Hk).
    apply (map_nth (fun a => a - c)).
  - destruct HL as [HL|HL]; [|cbn in HL; lia]. split; [apply zvsub_length; lia | apply nth_zvsub; lia].
Qed.

(* ---------------- LMRF / CMRF ---------------- *)
(* one dimension: the vector both priors take norms of is the documented first difference of x - location *)
Theorem mrf_dx_1d dim b x loc d :
  mrf_dx 1 dim b x loc = Some d -> length (shift x loc) = dim -> periodic_too_small 1 b dim = false ->
  dim <> 1%nat /\ stencil_spec 1 b (shift x loc) = Some d.
Proof.
  unfold mrf_dx, mrf_diff, mrf_diff_gen. fold fd_op. destruct (dim =? 1)%nat eqn:E1; [discriminate|]. cbn [mrf_nodes].
  rewrite fd_op_1d. destruct (fd_matrix 1 b dim) as [D|] eqn:HD; [|discriminate]. cbn [option_map].
  intros H Hx Hs. injection H as <-. split; [lia|]. apply (stencil_all 1 b dim _ D HD Hs Hx).
Qed.

(* two dimensions: first differences along every image row, then along every image column *)
Theorem mrf_dx_2d N b x loc d X :
  mrf_dx 2 (N * N) b x loc = Some d -> image N X -> shift x loc = concat X ->
  exists D, fd_matrix 1 b N = Some D /\
    d = concat (map (fun row => zmatvec D row) X) ++
        concat (map (fun drow => map (fun c => zdot drow (col 0 X c)) (seq 0 N)) D).
Proof.
  unfold mrf_dx, mrf_diff, mrf_diff_gen. fold fd_op. destruct (N * N =? 1)%nat eqn:E1; [discriminate|]. cbn [mrf_nodes].
  rewrite isqrt_sq, fd_op_2d. destruct (fd_matrix 1 b N) as [D|] eqn:HD; [|discriminate]. cbn [option_map].
  intros H HX Hx. injection H as <-. exists D. split; [reflexivity|]. rewrite Hx.
  apply stack2d_matvec; [eapply fd_matrix_wf; exact HD | exact HX].
Qed.

Theorem lmrf_uses_dx pd dim b x loc : lmrf_l1 pd dim b x loc = option_map zabs_sum (mrf_dx pd dim b x loc).
Proof. reflexivity. Qed.

Theorem mrf_refuses_dim1 pd b x loc : mrf_dx pd 1 b x loc = None.
Proof. reflexivity. Qed.

(* ---------------- GMRF ---------------- *)
(* logpdf's quadratic form is |D (x - mean)|^2 with D the field's difference operator *)
Theorem gmrf_quad_1d dim b order g v :
  gmrf_init 1 dim b order = Some g -> length v = dim ->
  g_prec g = gram dim (g_diff g) /\
  fd_matrix (eff_order order) (eff_bc order b) dim = Some (g_diff g) /\
  quad (g_prec g) v = znormsq (zmatvec (g_diff g) v) /\ 0 <= quad (g_prec g) v /\
  ztranspose dim (g_prec g) = g_prec g.
Proof.
  intros Hg Hv. destruct (gmrf_init_1d_inv dim b order g Hg) as [D [Ho [H1 [HD [HP [HDf _]]]]]].
  pose proof (fd_matrix_wf _ _ _ _ HD) as Hwf. rewrite HP, HDf.
  repeat split; try assumption.
  - apply zgram_quad; assumption.
  - apply zgram_psd; assumption.
  - apply zgram_symmetric; assumption.
Qed.

Theorem gmrf_quad_2d N b order g v :
  gmrf_init 2 (N * N) b order = Some g -> length v = (N * N)%nat ->
  exists D, fd_matrix (eff_order order) (eff_bc order b) N = Some D /\ g_diff g = stack2d N D /\
  g_prec g = gram (N * N) (g_diff g) /\
  quad (g_prec g) v = znormsq (zmatvec (g_diff g) v) /\ 0 <= quad (g_prec g) v /\
  ztranspose (N * N) (g_prec g) = g_prec g.
Proof.
  intros Hg Hv. destruct (gmrf_init_2d_inv N b order g Hg) as [D [Ho [H1 [HD [HP [HDf _]]]]]].
  pose proof (stack2d_wf N D (fd_matrix_wf _ _ _ _ HD)) as Hwf. exists D. rewrite HP, HDf.
  repeat split; try assumption.
  - apply zgram_quad; assumption.
  - apply zgram_psd; assumption.
  - apply zgram_symmetric; assumption.
Qed.

(* refusals of GMRF.__init__ *)
Theorem gmrf_defined_1d dim b order :
  (exists g, gmrf_init 1 dim b order = Some g) <->
  (dim <> 1%nat /\ (order <= 2)%nat /\ (b = Zero \/ b = Periodic \/ b = Neumann) /\
   exists D, fd_matrix (eff_order order) (eff_bc order b) dim = Some D).
Proof.
  split.
  - intros [g Hg]. destruct (gmrf_init_1d_inv dim b order g Hg) as [D [Ho [H1 [HD [_ [_ HR]]]]]].
    repeat split; try assumption; [|exists D; exact HD].
    destruct HR as [[-> _] | [[-> | ->] _]]; auto.
  - intros [H1 [Ho [Hb [D HD]]]]. eexists. apply (gmrf_init_1d_fwd dim b order D Ho H1 HD Hb).
Qed.

(* ---------------- square-root precision (certificate R): R^T R is symmetric and
   x^T (R^T R) x = |R x|^2, over the rationals ---------------- *)
Theorem sqrtprec_factor n (R : list (list Qc)) (x : list Qc) : wf_mat n R -> length x = n ->
  qdot x (qmatvec (qmatmul n (qtranspose n R) R) x) = qnormsq (qmatvec R x) /\
  qtranspose n (qmatmul n (qtranspose n R) R) = qmatmul n (qtranspose n R) R.
Proof.
  intros H Hx. split.
  - apply (gram_quad Qc 0%Qc 1%Qc Qcplus Qcmult Qcminus Qcopp Qcrt); assumption.
  - apply (gram_symmetric Qc 0%Qc 1%Qc Qcplus Qcmult Qcminus Qcopp Qcrt); assumption.
Qed.
