(* C20 -- the finite-difference matrices of the code model act as the documented stencils,
   for every size n (boundary rows included). *)
From CV Require Import Base.Tac Base.Cmp Base.LinAlg Base.QcLin Model.C20_Diff Model.C20_Spec Proofs.C20_Lin.
Local Open Scope Z_scope.

(* zero-extended access *)
Definition zx (x : list Z) (k : Z) : Z := if k <? 0 then 0 else nth (Z.to_nat k) x 0.

Lemma zx_out x k : k < 0 \/ Z.of_nat (length x) <= k -> zx x k = 0.
Proof. intros H. unfold zx. destruct (k <? 0) eqn:E; [reflexivity|]. apply nth_overflow. lia. Qed.

Lemma nth_zx x c : nth c x 0 = zx x (Z.of_nat c).
Proof. unfold zx. destruct (Z.of_nat c <? 0) eqn:E; [lia|]. rewrite Nat2Z.id. reflexivity. Qed.

(* ---------------- banded (spdiags) rows ---------------- *)
Lemma diag_val_notin dl k : ~ In k (map fst dl) -> diag_val dl k = 0.
Proof.
  induction dl as [|[loc v] r IH]; cbn [diag_val map fst In]; [reflexivity|]. intros H.
  destruct (k =? loc) eqn:E; [exfalso; apply H; left; lia|]. apply IH. tauto.
Qed.

Fixpoint toep (dl : list (Z * Z)) (x : list Z) (i : Z) : Z :=
  match dl with
  | [] => 0
  | (loc, v) :: r => v * zx x (i + loc) + toep r x i
  end.

Lemma zdot_zdelta i loc v n x : length x = n ->
  zdot (map (fun j => if (Z.of_nat j - Z.of_nat i =? loc) then v else 0) (seq 0 n)) x
  = v * zx x (Z.of_nat i + loc).
Proof.
  intros Hx. destruct (Z.of_nat i + loc <? 0) eqn:E.
  - rewrite (map_seq_ext _ (fun _ => 0)).
    + rewrite zdot_map_zero. rewrite zx_out by lia. lia.
    + intros j Hj. destruct (_ =? loc) eqn:E2; [lia | reflexivity].
  - rewrite (map_seq_ext _ (fun j => if (j =? Z.to_nat (Z.of_nat i + loc))%nat then v else 0)).
    + rewrite zdot_delta by exact Hx. unfold zx. rewrite E. reflexivity.
    + intros j Hj. destruct (_ =? loc) eqn:E2; destruct (j =? _)%nat eqn:E3; try reflexivity; lia.
Qed.

(* a row of a banded matrix with constant diagonals is a convolution of the zero-extended signal *)
Lemma toeplitz_row dl i n x : length x = n -> NoDup (map fst dl) ->
  zdot (map (spd dl i) (seq 0 n)) x = toep dl x (Z.of_nat i).
Proof.
  intros Hx. induction dl as [|[loc v] r IH]; intros ND.
  - cbn [toep]. unfold spd. cbn [diag_val]. apply zdot_map_zero.
  - cbn [map fst] in ND. apply NoDup_cons_iff in ND. destruct ND as [Hnot ND'].
    cbn [toep]. rewrite <- IH by exact ND'. rewrite <- (zdot_zdelta i loc v n x Hx). rewrite <- zdot_map_add.
    f_equal. apply map_ext. intros j. unfold spd. cbn [diag_val].
    destruct (_ =? loc) eqn:E; [|lia].
    apply Z.eqb_eq in E. rewrite E. rewrite diag_val_notin by exact Hnot. lia.
Qed.

Lemma patched_row (f g : nat -> Z) ps n x : length x = n ->
  (forall j, (j < n)%nat -> f j = g j + sp_entry ps j) ->
  zdot (map f (seq 0 n)) x = zdot (map g (seq 0 n)) x + sp_apply ps x.
Proof.
  intros Hx H. rewrite (map_seq_ext f (fun j => g j + sp_entry ps j) n H).
  rewrite zdot_map_add, zdot_sparse by exact Hx. reflexivity.
Qed.

(* ---------------- the documented difference lists ---------------- *)
Lemma diffs_length l : length (diffs l) = (length l - 1)%nat.
Proof.
  induction l as [|a l IH]; [reflexivity|]. destruct l as [|b l]; [reflexivity|].
  cbn [diffs length] in *. rewrite IH. lia.
Qed.

Lemma diffs_nth l : forall i, (S i < length l)%nat -> nth i (diffs l) 0 = nth (S i) l 0 - nth i l 0.
Proof.
  induction l as [|a l IH]; intros i H; [cbn in H; lia|].
  destruct l as [|b l]; [cbn in H; lia|].
  destruct i as [|i]; [reflexivity|]. cbn [diffs nth]. apply IH. cbn [length] in *. lia.
Qed.

Lemma diffs_as_map l : diffs l = map (fun i => nth (S i) l 0 - nth i l 0) (seq 0 (length l - 1)).
Proof.
  rewrite (list_as_map_nth (diffs l) 0), diffs_length. apply map_seq_ext. intros i Hi.
  apply diffs_nth. lia.
Qed.

Lemma ndiffs2_as_map l :
  ndiffs2 l = map (fun i => - ((nth (S (S i)) l 0 - nth (S i) l 0) - (nth (S i) l 0 - nth i l 0)))
                  (seq 0 (length l - 2)).
Proof.
  unfold ndiffs2. rewrite (diffs_as_map (diffs l)), map_map, diffs_length.
  replace (length l - 1 - 1)%nat with (length l - 2)%nat by lia.
  apply map_seq_ext. intros i Hi. rewrite !diffs_nth by lia. reflexivity.
Qed.

Lemma nth_app_zeros x k j : nth j (x ++ repeat 0 k) 0 = nth j x 0.
Proof.
  destruct (j <? length x)%nat eqn:E.
  - apply app_nth1. lia.
  - rewrite app_nth2 by lia. rewrite nth_repeat'. symmetry. apply nth_overflow. lia.
Qed.

Lemma nth_pad0_1 x k : nth k (0 :: x ++ [0]) 0 = zx x (Z.of_nat k - 1).
Proof.
  destruct k as [|k]; [reflexivity|]. cbn [nth]. change [0] with (repeat 0 1).
  rewrite nth_app_zeros, nth_zx. f_equal. lia.
Qed.

Lemma nth_pad0_2 x k : nth k (0 :: 0 :: x ++ [0; 0]) 0 = zx x (Z.of_nat k - 2).
Proof.
  destruct k as [|[|k]]; [reflexivity|reflexivity|]. cbn [nth]. change [0; 0] with (repeat 0 2).
  rewrite nth_app_zeros, nth_zx. f_equal. lia.
Qed.

(* wrap-around index, valid for -n <= k < 2n *)
Definition widx (n : nat) (k : Z) : Z :=
  if k <? 0 then k + Z.of_nat n else if k <? Z.of_nat n then k else k - Z.of_nat n.

Lemma nth_skipn0 (x : list Z) : forall m j, nth j (skipn m x) 0 = nth (m + j) x 0.
Proof.
  induction x as [|a x IH]; intros m j.
  - rewrite skipn_nil. destruct j; destruct (m + _)%nat; reflexivity.
  - destruct m as [|m]; [reflexivity|]. cbn [skipn]. rewrite IH. reflexivity.
Qed.

Lemma nth_firstn0 (x : list Z) : forall c j, (j < c)%nat -> nth j (firstn c x) 0 = nth j x 0.
Proof.
  induction x as [|a x IH]; intros c j H.
  - rewrite firstn_nil. reflexivity.
  - destruct c as [|c]; [lia|]. destruct j as [|j]; [reflexivity|]. cbn [firstn nth]. apply IH. lia.
Qed.

Lemma wrap_pad_length c x : (c <= length x)%nat -> length (wrap_pad c x) = (length x + 2 * c)%nat.
Proof.
  intros H. unfold wrap_pad, lastn. rewrite !app_length, skipn_length, firstn_length. lia.
Qed.

Lemma nth_wrap_pad c x k : (c <= length x)%nat -> (k < length x + 2 * c)%nat ->
  nth k (wrap_pad c x) 0 = zx x (widx (length x) (Z.of_nat k - Z.of_nat c)).
Proof.
  intros Hc Hk. unfold wrap_pad, lastn, widx.
  assert (HL : length (skipn (length x - c) x) = c) by (rewrite skipn_length; lia).
  destruct (Z.of_nat k - Z.of_nat c <? 0) eqn:E1.
  - rewrite app_nth1 by lia. rewrite nth_skipn0, nth_zx. f_equal. lia.
  - rewrite app_nth2 by lia. rewrite HL. destruct (_ <? Z.of_nat (length x)) eqn:E2.
    + rewrite app_nth1 by lia. rewrite nth_zx. f_equal. lia.
    + rewrite app_nth2 by lia. rewrite nth_firstn0 by lia. rewrite nth_zx. f_equal. lia.
Qed.

(* ---------------- Python index normalisation on symbolic sizes ---------------- *)
Lemma norm_idx_nonneg dim k : (k < dim)%nat -> norm_idx dim (Z.of_nat k) = Some k.
Proof.
  intros H. unfold norm_idx. destruct (Z.of_nat k <? 0) eqn:E; [lia|].
  destruct ((0 <=? Z.of_nat k) && (Z.of_nat k <? Z.of_nat dim)) eqn:E2; [|lia].
  rewrite Nat2Z.id. reflexivity.
Qed.

Lemma norm_idx_neg dim k : (0 < k <= dim)%nat -> norm_idx dim (- Z.of_nat k) = Some (dim - k)%nat.
Proof.
  intros H. unfold norm_idx. destruct (- Z.of_nat k <? 0) eqn:E; [|lia].
  destruct ((0 <=? - Z.of_nat k + Z.of_nat dim) && (- Z.of_nat k + Z.of_nat dim <? Z.of_nat dim)) eqn:E2; [|lia].
  f_equal. lia.
Qed.

Lemma norm_idx_m1 dim : (1 <= dim)%nat -> norm_idx dim (-1) = Some (dim - 1)%nat.
Proof. intros H. exact (norm_idx_neg dim 1 ltac:(lia)). Qed.
Lemma norm_idx_m2 dim : (2 <= dim)%nat -> norm_idx dim (-2) = Some (dim - 2)%nat.
Proof. intros H. exact (norm_idx_neg dim 2 ltac:(lia)). Qed.
Lemma norm_idx_z0 dim : (1 <= dim)%nat -> norm_idx dim 0 = Some 0%nat.
Proof. intros H. exact (norm_idx_nonneg dim 0 ltac:(lia)). Qed.
Lemma norm_idx_z1 dim : (2 <= dim)%nat -> norm_idx dim 1 = Some 1%nat.
Proof. intros H. exact (norm_idx_nonneg dim 1 ltac:(lia)). Qed.

(* ---------------- tactics ---------------- *)
Ltac split_ifs :=
  repeat match goal with
  | |- context [if ?b then _ else _] => let E := fresh "E" in destruct b eqn:E
  end.

Ltac zx_zero :=
  repeat match goal with
  | |- context [zx ?x ?k] => rewrite (zx_out x k) by lia
  end.

Ltac zx_merge :=
  repeat match goal with
  | |- context [zx ?x ?a] =>
      match goal with
      | |- context [zx x ?b] =>
          tryif constr_eq a b then fail else (replace a with b by lia)
      end
  end.

Ltac zx_solve := split_ifs; try (exfalso; lia); zx_zero; zx_merge; lia.

Ltac nodup_z := cbn; repeat constructor; cbn; intuition discriminate.

(* ---------------- first order ---------------- *)
Theorem stencil_zero_1 n x : length x = n ->
  exists D, fd_matrix 1 Zero n = Some D /\ zmatvec D x = diffs (0 :: x ++ [0]).
Proof.
  intros Hx. eexists. split; [reflexivity|].
  rewrite mk_mat_matvec, diffs_as_map. cbn [length]. rewrite app_length, Hx. cbn [length].
  replace (S (n + 1) - 1)%nat with (n + 1)%nat by lia.
  apply map_seq_ext. intros i Hi.
  rewrite toeplitz_row by (try exact Hx; nodup_z). rewrite !nth_pad0_1.
  cbn [toep d1_zero]. zx_solve.
Qed.

Ltac split_ifs_lia :=
  repeat (match goal with
          | |- context [if ?b then _ else _] => let E := fresh "E" in destruct b eqn:E
          end; try lia).

Ltac zx_solve2 := split_ifs_lia; zx_zero; zx_merge; lia.

Theorem stencil_neumann_1 n x : length x = n -> (1 <= n)%nat ->
  exists D, fd_matrix 1 Neumann n = Some D /\ zmatvec D x = diffs x.
Proof.
  intros Hx Hn. unfold fd_matrix, fd_parts, fd1_parts. destruct (n =? 0)%nat eqn:E; [lia|].
  eexists. split; [reflexivity|].
  rewrite mk_mat_matvec, diffs_as_map, Hx. apply map_seq_ext. intros i Hi.
  rewrite toeplitz_row by (try exact Hx; nodup_z). rewrite !nth_zx. cbn [toep d1_neumann]. zx_solve.
Qed.

Theorem stencil_none_1 n x : length x = n ->
  exists D, fd_matrix 1 NoBC n = Some D /\ zmatvec D x = x.
Proof.
  intros Hx. eexists. split; [reflexivity|].
  transitivity (map (fun i => nth i x 0) (seq 0 n)); [| rewrite <- Hx; symmetry; apply list_as_map_nth].
  rewrite mk_mat_matvec. apply map_seq_ext. intros i Hi.
  rewrite toeplitz_row by (try exact Hx; nodup_z). rewrite !nth_zx. cbn [toep d1_eye]. zx_solve.
Qed.

Lemma fd1_backward_parts n : (1 <= n)%nat ->
  exists f, fd1_parts Backward n = Some (n, f) /\
    forall i j, f i j = if ((i =? 0)%nat && (j =? 0)%nat) then 1 else spd d1_backward i j.
Proof.
  intros Hn. unfold fd1_parts, apply_patches, p1_backward. cbn [fold_left]. unfold set1.
  rewrite !norm_idx_z0 by lia. eexists. split; reflexivity.
Qed.

Lemma backward_spec_as_map a x' :
  a :: map Z.opp (diffs (a :: x')) =
  map (fun i => if (i =? 0)%nat then nth 0 (a :: x') 0 else - (nth i (a :: x') 0 - nth (i - 1) (a :: x') 0))
      (seq 0 (length (a :: x'))).
Proof.
  cbn [length seq map]. f_equal.
  rewrite diffs_as_map, map_map. cbn [length].
  replace (S (length x') - 1)%nat with (length x') by lia.
  rewrite <- seq_shift, map_map. apply map_ext. intros i. cbn [Nat.eqb].
  replace (S i - 1)%nat with i by lia. reflexivity.
Qed.

Theorem stencil_backward_1 n x : length x = n -> (1 <= n)%nat ->
  exists D, fd_matrix 1 Backward n = Some D /\
            zmatvec D x = match x with [] => [] | a :: _ => a :: map Z.opp (diffs x) end.
Proof.
  intros Hx Hn. destruct (fd1_backward_parts n Hn) as [f [Hf Hfe]].
  unfold fd_matrix, fd_parts. rewrite Hf. eexists. split; [reflexivity|].
  destruct x as [|a x']; [cbn in Hx; lia|]. rewrite backward_spec_as_map, Hx.
  rewrite mk_mat_matvec. apply map_seq_ext. intros i Hi.
  rewrite (patched_row (f i) (spd d1_backward i) (if (i =? 0)%nat then [(0%nat, 2)] else []) n) by
    (try exact Hx; intros j Hj; rewrite Hfe; unfold spd; cbn [diag_val d1_backward];
     destruct (i =? 0)%nat eqn:E0; cbn [sp_entry]; split_ifs_lia).
  rewrite toeplitz_row by (try exact Hx; nodup_z). cbn [toep d1_backward].
  destruct (i =? 0)%nat eqn:E0; cbn [sp_apply]; rewrite !nth_zx; zx_solve2.
Qed.

Lemma fd1_periodic_parts n : (1 <= n)%nat ->
  exists f, fd1_parts Periodic n = Some ((n + 1)%nat, f) /\
    forall i j, f i j = if ((i =? 0)%nat && (j =? n - 1)%nat) then -1
                        else if ((i =? n)%nat && (j =? 0)%nat) then 1 else spd d1_zero i j.
Proof.
  intros Hn. unfold fd1_parts, apply_patches, p1_periodic. cbn [fold_left]. unfold set1.
  rewrite !norm_idx_m1, !norm_idx_z0 by lia.
  eexists. split; [reflexivity|]. intros i j. cbn beta.
  replace (n + 1 - 1)%nat with n by lia. reflexivity.
Qed.

Theorem stencil_periodic_1 n x : length x = n -> (2 <= n)%nat ->
  exists D, fd_matrix 1 Periodic n = Some D /\ zmatvec D x = diffs (wrap_pad 1 x).
Proof.
  intros Hx Hn. destruct (fd1_periodic_parts n ltac:(lia)) as [f [Hf Hfe]].
  unfold fd_matrix, fd_parts. rewrite Hf. eexists. split; [reflexivity|].
  rewrite mk_mat_matvec, diffs_as_map, wrap_pad_length, Hx by lia.
  replace (n + 2 * 1 - 1)%nat with (n + 1)%nat by lia.
  apply map_seq_ext. intros i Hi.
  rewrite (patched_row (f i) (spd d1_zero i)
             ((if (i =? 0)%nat then [((n - 1)%nat, -1)] else []) ++ (if (i =? n)%nat then [(0%nat, 1)] else [])) n) by
    (try exact Hx; intros j Hj; rewrite Hfe; unfold spd; cbn [diag_val d1_zero];
     destruct (i =? 0)%nat eqn:E0; destruct (i =? n)%nat eqn:En; try lia; cbn [app sp_entry]; split_ifs_lia).
  rewrite toeplitz_row by (try exact Hx; nodup_z). cbn [toep d1_zero].
  rewrite !nth_wrap_pad by lia. rewrite Hx. unfold widx.
  destruct (i =? 0)%nat eqn:E0; destruct (i =? n)%nat eqn:En; try lia; cbn [app sp_apply]; rewrite ?nth_zx; zx_solve2.
Qed.

(* ---------------- second order ---------------- *)
Theorem stencil_zero_2 n x : length x = n ->
  exists D, fd_matrix 2 Zero n = Some D /\ zmatvec D x = ndiffs2 (0 :: 0 :: x ++ [0; 0]).
Proof.
  intros Hx. eexists. split; [reflexivity|].
  rewrite mk_mat_matvec, ndiffs2_as_map. cbn [length]. rewrite app_length, Hx. cbn [length].
  replace (S (S (n + 2)) - 2)%nat with (n + 2)%nat by lia.
  apply map_seq_ext. intros i Hi.
  rewrite toeplitz_row by (try exact Hx; nodup_z). rewrite !nth_pad0_2.
  cbn [toep d2_zero]. zx_solve.
Qed.

Theorem stencil_neumann_2 n x : length x = n -> (2 <= n)%nat ->
  exists D, fd_matrix 2 Neumann n = Some D /\ zmatvec D x = ndiffs2 x.
Proof.
  intros Hx Hn. unfold fd_matrix, fd_parts, fd2_parts. destruct (n <? 2)%nat eqn:E; [lia|].
  eexists. split; [reflexivity|].
  rewrite mk_mat_matvec, ndiffs2_as_map, Hx. apply map_seq_ext. intros i Hi.
  rewrite toeplitz_row by (try exact Hx; nodup_z). rewrite !nth_zx. cbn [toep d2_neumann]. zx_solve.
Qed.

Lemma fd2_periodic_parts n : (2 <= n)%nat ->
  exists f, fd2_parts Periodic n = Some ((n + 2)%nat, f) /\
    forall i j, f i j =
      if ((i =? n + 1)%nat && (j =? 1)%nat) then -1
      else if ((i =? n + 1)%nat && (j =? 0)%nat) then 2
      else if ((i =? n)%nat && (j =? 0)%nat) then -1
      else if ((i =? 1)%nat && (j =? n - 1)%nat) then -1
      else if ((i =? 0)%nat && (j =? n - 1)%nat) then 2
      else if ((i =? 0)%nat && (j =? n - 2)%nat) then -1
      else spd d2_zero i j.
Proof.
  intros Hn. unfold fd2_parts, apply_patches, p2_periodic. cbn [fold_left]. unfold set1.
  rewrite !norm_idx_m1, !norm_idx_m2, !norm_idx_z0, !norm_idx_z1 by lia.
  eexists. split; [reflexivity|]. intros i j. cbn beta.
  replace (n + 2 - 1)%nat with (n + 1)%nat by lia. replace (n + 2 - 2)%nat with n by lia. reflexivity.
Qed.

Theorem stencil_periodic_2 n x : length x = n -> (3 <= n)%nat ->
  exists D, fd_matrix 2 Periodic n = Some D /\ zmatvec D x = ndiffs2 (wrap_pad 2 x).
Proof.
  intros Hx Hn. destruct (fd2_periodic_parts n ltac:(lia)) as [f [Hf Hfe]].
  unfold fd_matrix, fd_parts. rewrite Hf. eexists. split; [reflexivity|].
  rewrite mk_mat_matvec, ndiffs2_as_map, wrap_pad_length, Hx by lia.
  replace (n + 2 * 2 - 2)%nat with (n + 2)%nat by lia.
  apply map_seq_ext. intros i Hi.
  rewrite (patched_row (f i) (spd d2_zero i)
             ((if (i =? 0)%nat then [((n - 2)%nat, -1); ((n - 1)%nat, 2)] else []) ++
              (if (i =? 1)%nat then [((n - 1)%nat, -1)] else []) ++
              (if (i =? n)%nat then [(0%nat, -1)] else []) ++
              (if (i =? n + 1)%nat then [(0%nat, 2); (1%nat, -1)] else [])) n) by
    (try exact Hx; intros j Hj; rewrite Hfe; unfold spd; cbn [diag_val d2_zero];
     destruct (i =? 0)%nat eqn:E0; destruct (i =? 1)%nat eqn:E1; destruct (i =? n)%nat eqn:En;
     destruct (i =? n + 1)%nat eqn:En1; try lia; cbn [app sp_entry]; split_ifs_lia).
  rewrite toeplitz_row by (try exact Hx; nodup_z). cbn [toep d2_zero].
  rewrite !nth_wrap_pad by lia. rewrite Hx. unfold widx.
  destruct (i =? 0)%nat eqn:E0; destruct (i =? 1)%nat eqn:E1; destruct (i =? n)%nat eqn:En;
    destruct (i =? n + 1)%nat eqn:En1; try lia; cbn [app sp_apply]; rewrite ?nth_zx; zx_solve2.
Qed.

(* ---------------- all boundary conditions and orders at once ---------------- *)
Theorem stencil_all order b n x D :
  fd_matrix order b n = Some D -> periodic_too_small order b n = false -> length x = n ->
  stencil_spec order b x = Some (zmatvec D x).
Proof.
  intros HD Hs Hx.
  destruct order as [|[|[|o]]]; [discriminate| | |discriminate]; destruct b; try discriminate;
    cbn [stencil_spec]; unfold periodic_too_small in Hs.
  - destruct (stencil_zero_1 n x Hx) as [D' [H1 H2]]. rewrite H1 in HD. injection HD as <-. rewrite H2. reflexivity.
  - destruct (stencil_periodic_1 n x Hx ltac:(lia)) as [D' [H1 H2]]. rewrite H1 in HD. injection HD as <-. rewrite H2. reflexivity.
  - destruct n as [|n']; [discriminate|].
    destruct (stencil_neumann_1 (S n') x Hx ltac:(lia)) as [D' [H1 H2]]. rewrite H1 in HD. injection HD as <-. rewrite H2. reflexivity.
  - destruct n as [|n']; [discriminate|].
    destruct (stencil_backward_1 (S n') x Hx ltac:(lia)) as [D' [H1 H2]]. rewrite H1 in HD. injection HD as <-. rewrite H2. reflexivity.
  - destruct (stencil_none_1 n x Hx) as [D' [H1 H2]]. rewrite H1 in HD. injection HD as <-. rewrite H2. reflexivity.
  - destruct (stencil_zero_2 n x Hx) as [D' [H1 H2]]. rewrite H1 in HD. injection HD as <-. rewrite H2. reflexivity.
  - destruct (stencil_periodic_2 n x Hx ltac:(lia)) as [D' [H1 H2]]. rewrite H1 in HD. injection HD as <-. rewrite H2. reflexivity.
  - destruct n as [|[|n']]; [discriminate|discriminate|].
    destruct (stencil_neumann_2 (S (S n')) x Hx ltac:(lia)) as [D' [H1 H2]]. rewrite H1 in HD. injection HD as <-. rewrite H2. reflexivity.
Qed.

(* which operators exist *)
Theorem fd_matrix_defined order b n :
  (exists D, fd_matrix order b n = Some D) <->
  match order, b with
  | 1%nat, Zero | 1%nat, NoBC | 2%nat, Zero => True
  | 1%nat, Periodic | 1%nat, Neumann | 1%nat, Backward => (1 <= n)%nat
  | 2%nat, Periodic | 2%nat, Neumann => (2 <= n)%nat
  | _, _ => False
  end.
Proof.
  destruct order as [|[|[|o]]]; destruct b; unfold fd_matrix, fd_parts; cbn [fd1_parts fd2_parts];
    try (split; [intros [D H]; discriminate | intros []]);
    try (split; [intros _; exact I | intros _; eexists; reflexivity]).
  - split.
    + intros [D H]. destruct n; [discriminate | lia].
    + intros H. destruct (fd1_periodic_parts n H) as [f [Hf _]]. unfold fd1_parts in Hf. rewrite Hf. eexists; reflexivity.
  - destruct (n =? 0)%nat eqn:E; split; try (intros [D H]; discriminate); try lia; intros _; eexists; reflexivity.
  - split.
    + intros [D H]. destruct n; [discriminate | lia].
    + intros H. destruct (fd1_backward_parts n H) as [f [Hf _]]. unfold fd1_parts in Hf. rewrite Hf. eexists; reflexivity.
  - split.
    + intros [D H]. destruct n as [|[|n]]; [discriminate | discriminate | lia].
    + intros H. destruct (fd2_periodic_parts n H) as [f [Hf _]]. unfold fd2_parts in Hf. rewrite Hf. eexists; reflexivity.
  - destruct (n <? 2)%nat eqn:E; split; try (intros [D H]; discriminate); try lia; intros _; eexists; reflexivity.
Qed.

(* below the stencil width the periodic patches overwrite the band instead of accumulating *)
Theorem stencil_periodic_small_refuted :
  exists order n x D, periodic_too_small order Periodic n = true /\ length x = n /\
    fd_matrix order Periodic n = Some D /\ stencil_spec order Periodic x <> Some (zmatvec D x).
Proof.
  exists 2%nat, 2%nat, [1; 0], [[-1; 2]; [2; -1]; [-1; 2]; [2; -1]].
  repeat split; try reflexivity. vm_compute. discriminate.
Qed.

Theorem stencil_periodic_small_refuted_1 :
  exists x D, periodic_too_small 1 Periodic 1 = true /\ length x = 1%nat /\
    fd_matrix 1 Periodic 1 = Some D /\ stencil_spec 1 Periodic x <> Some (zmatvec D x).
Proof.
  exists [1], [[-1]; [1]]. repeat split; try reflexivity. vm_compute. discriminate.
Qed.
