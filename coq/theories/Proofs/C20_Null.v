(* C20 -- null spaces of the difference operators and of the precision D^T D, per boundary
   condition and order, for every size; two dimensions through the Kronecker structure. *)
From CV Require Import Base.Tac Base.Cmp Base.LinAlg Base.QcLin Model.C20_Diff Model.C20_Spec
  Proofs.C20_Lin Proofs.C20_Stencil.
Local Open Scope Z_scope.

(* ---------------- constant / affine lists ---------------- *)
Definition is_const (x : list Z) : Prop := forall k, (k < length x)%nat -> nth k x 0 = nth 0 x 0.
Definition is_affine (x : list Z) : Prop :=
  forall k, (k < length x)%nat -> nth k x 0 = nth 0 x 0 + Z.of_nat k * (nth 1 x 0 - nth 0 x 0).

Lemma all_nth_eq (x : list Z) n c : length x = n -> (forall j, (j < n)%nat -> nth j x 0 = c) -> x = repeat c n.
Proof.
  intros Hx H. rewrite (list_as_map_nth x 0), Hx, repeat_as_map. apply map_seq_ext. exact H.
Qed.

Lemma nth_zeros n k : nth k (zeros n) 0 = 0.
Proof. apply nth_repeat'. Qed.

Lemma zeros_length n : length (zeros n) = n.
Proof. apply repeat_length. Qed.

Lemma const_of_diffs l : diffs l = zeros (length l - 1) -> is_const l.
Proof.
  intros H k. induction k as [|k IH]; intros Hk; [reflexivity|]. rewrite <- IH by lia.
  pose proof (diffs_nth l k Hk) as E. rewrite H, nth_zeros in E. lia.
Qed.

Lemma diffs_of_const l : is_const l -> diffs l = zeros (length l - 1).
Proof.
  intros H. rewrite diffs_as_map. unfold zeros. rewrite repeat_as_map. apply map_seq_ext.
  intros i Hi. rewrite (H (S i)), (H i) by lia. lia.
Qed.

Lemma map_opp_zeros v m : map Z.opp v = zeros m -> v = zeros m.
Proof.
  revert m; induction v as [|a v IH]; intros [|m] H; cbn in H; try discriminate; [reflexivity|].
  injection H as Ha Hv. unfold zeros. cbn [repeat]. f_equal; [lia | apply IH; exact Hv].
Qed.

Lemma affine_of_ndiffs2 l : ndiffs2 l = zeros (length l - 2) -> is_affine l.
Proof.
  intros H.
  assert (R : forall i, (S (S i) < length l)%nat ->
                nth (S (S i)) l 0 = 2 * nth (S i) l 0 - nth i l 0).
  { intros i Hi. pose proof (f_equal (fun v => nth i v 0) H) as E. cbn beta in E.
    rewrite ndiffs2_as_map, nth_zeros, nth_map_seq in E by lia. lia. }
  assert (P : forall k, ((k < length l)%nat -> nth k l 0 = nth 0 l 0 + Z.of_nat k * (nth 1 l 0 - nth 0 l 0)) /\
                        ((S k < length l)%nat -> nth (S k) l 0 = nth 0 l 0 + Z.of_nat (S k) * (nth 1 l 0 - nth 0 l 0))).
  { induction k as [|k [IH1 IH2]].
    - split; intros _; [cbn; lia|]. change (Z.of_nat 1) with 1. lia.
    - split; [exact IH2|]. intros Hk. rewrite (R k Hk), IH1, IH2 by lia.
      rewrite !Nat2Z.inj_succ. lia. }
  intros k Hk. apply (P k). exact Hk.
Qed.

Lemma ndiffs2_of_affine l : is_affine l -> ndiffs2 l = zeros (length l - 2).
Proof.
  intros H. rewrite ndiffs2_as_map. unfold zeros. rewrite repeat_as_map. apply map_seq_ext.
  intros i Hi. rewrite (H (S (S i))), (H (S i)), (H i) by lia. rewrite !Nat2Z.inj_succ. lia.
Qed.

Lemma is_const_repeat c n : is_const (repeat c n).
Proof.
  intros k Hk. rewrite repeat_length in Hk. destruct n; [lia|].
  rewrite !(nth_indep _ 0 c) by (rewrite repeat_length; lia). rewrite !nth_repeat'. reflexivity.
Qed.

Lemma const_is_repeat x n : length x = n -> is_const x -> x = repeat (nth 0 x 0) n.
Proof. intros Hx H. apply all_nth_eq; [exact Hx|]. intros j Hj. apply H. lia. Qed.

(* zx on padded lists *)
Lemma zx_in x k : (k < length x)%nat -> zx x (Z.of_nat k) = nth k x 0.
Proof. intros _. symmetry. apply nth_zx. Qed.

(* ---------------- one dimension: D x = 0 <-> x in the documented null space ---------------- *)
Definition null_cond (order : nat) (b : bc) (x : list Z) : Prop :=
  match order, b with
  | 1%nat, Periodic | 1%nat, Neumann | 2%nat, Periodic => is_const x
  | 2%nat, Neumann => is_affine x
  | _, _ => x = zeros (length x)
  end.

Lemma diffs_repeat c m : diffs (repeat c m) = zeros (m - 1).
Proof. rewrite diffs_of_const by apply is_const_repeat. rewrite repeat_length. reflexivity. Qed.

Lemma map_opp_of_zeros m : map Z.opp (zeros m) = zeros m.
Proof. unfold zeros. induction m as [|m IH]; [reflexivity|]. cbn [repeat map]. rewrite IH. reflexivity. Qed.

Lemma ndiffs2_repeat c m : ndiffs2 (repeat c m) = zeros (m - 2).
Proof.
  unfold ndiffs2. rewrite diffs_repeat. unfold zeros at 1. rewrite diffs_repeat, map_opp_of_zeros.
  f_equal. lia.
Qed.

Lemma diffs_pad_zeros n : diffs (0 :: zeros n ++ [0]) = zeros (n + 1).
Proof.
  change (0 :: zeros n ++ [0]) with (repeat 0 1 ++ repeat 0 n ++ repeat 0 1).
  rewrite <- !repeat_app, diffs_repeat. f_equal. lia.
Qed.

Lemma ndiffs2_pad_zeros n : ndiffs2 (0 :: 0 :: zeros n ++ [0; 0]) = zeros (n + 2).
Proof.
  change (0 :: 0 :: zeros n ++ [0; 0]) with (repeat 0 2 ++ repeat 0 n ++ repeat 0 2).
  rewrite <- !repeat_app, ndiffs2_repeat. f_equal. lia.
Qed.

Lemma null_zero_1 x : diffs (0 :: x ++ [0]) = zeros (length x + 1) <-> x = zeros (length x).
Proof.
  split; intros H.
  - apply all_nth_eq; [reflexivity|]. intros j Hj.
    assert (HL : length (0 :: x ++ [0]) = (length x + 2)%nat) by (cbn [length]; rewrite app_length; cbn; lia).
    assert (C : is_const (0 :: x ++ [0])) by (apply const_of_diffs; rewrite HL; replace (length x + 2 - 1)%nat with (length x + 1)%nat by lia; exact H).
    specialize (C (S j) ltac:(lia)). cbn [nth] in C. rewrite app_nth1 in C by lia. exact C.
  - rewrite H, zeros_length. apply diffs_pad_zeros.
Qed.

Lemma null_zero_2 x : ndiffs2 (0 :: 0 :: x ++ [0; 0]) = zeros (length x + 2) <-> x = zeros (length x).
Proof.
  split; intros H.
  - apply all_nth_eq; [reflexivity|]. intros j Hj.
    assert (HL : length (0 :: 0 :: x ++ [0; 0]) = (length x + 4)%nat) by (cbn [length]; rewrite app_length; cbn; lia).
    assert (C : is_affine (0 :: 0 :: x ++ [0; 0])) by (apply affine_of_ndiffs2; rewrite HL; replace (length x + 4 - 2)%nat with (length x + 2)%nat by lia; exact H).
    specialize (C (S (S j)) ltac:(lia)). cbn [nth] in C. rewrite app_nth1 in C by lia. lia.
  - rewrite H, zeros_length. apply ndiffs2_pad_zeros.
Qed.

Lemma null_neumann_1 x : diffs x = zeros (length x - 1) <-> is_const x.
Proof. split; [apply const_of_diffs | apply diffs_of_const]. Qed.

Lemma null_neumann_2 x : ndiffs2 x = zeros (length x - 2) <-> is_affine x.
Proof. split; [apply affine_of_ndiffs2 | apply ndiffs2_of_affine]. Qed.

Lemma backward_zeros m : 0 :: map Z.opp (diffs (0 :: repeat 0 m)) = zeros (length (0 :: repeat 0 m)).
Proof.
  change (0 :: repeat 0 m) with (repeat 0 (S m)). rewrite diffs_repeat, repeat_length.
  rewrite Nat.sub_succ, Nat.sub_0_r, map_opp_of_zeros. reflexivity.
Qed.

Lemma null_backward_1 a x' : let x := a :: x' in
  a :: map Z.opp (diffs x) = zeros (length x) <-> x = zeros (length x).
Proof.
  intros x. subst x. split; intros H.
  - cbn [length zeros repeat] in H. injection H as Ha Hd. fold (zeros (length x')) in Hd.
    apply map_opp_zeros in Hd.
    assert (C : is_const (a :: x')) by (apply const_of_diffs; cbn [length]; rewrite Nat.sub_succ, Nat.sub_0_r; exact Hd).
    transitivity (repeat (nth 0 (a :: x') 0) (length (a :: x')));
      [apply const_is_repeat; [reflexivity | exact C] | cbn [nth]; rewrite Ha; reflexivity].
  - cbn [length zeros repeat] in H. injection H as Ha Hx'. subst a. rewrite Hx'.
    apply backward_zeros.
Qed.

Lemma const_of_pad_const c x : (c <= length x)%nat -> (1 <= c)%nat ->
  is_const (wrap_pad c x) -> is_const x.
Proof.
  intros Hc H1 H k Hk.
  pose proof (H (k + c)%nat ltac:(rewrite wrap_pad_length; lia)) as E1.
  pose proof (H (0 + c)%nat ltac:(rewrite wrap_pad_length; lia)) as E0.
  rewrite nth_wrap_pad in E1, E0 by lia. unfold widx in E1, E0.
  replace (Z.of_nat (k + c) - Z.of_nat c) with (Z.of_nat k) in E1 by lia.
  replace (Z.of_nat (0 + c) - Z.of_nat c) with (Z.of_nat 0) in E0 by lia.
  destruct (Z.of_nat k <? 0) eqn:A1; [lia|]. destruct (Z.of_nat k <? Z.of_nat (length x)) eqn:A2; [|lia].
  destruct (Z.of_nat 0 <? 0) eqn:A3; [lia|]. destruct (Z.of_nat 0 <? Z.of_nat (length x)) eqn:A4; [|lia].
  rewrite <- !nth_zx in E1, E0. lia.
Qed.

Lemma pad_const_of_const c x : (c <= length x)%nat -> (1 <= length x)%nat ->
  is_const x -> is_const (wrap_pad c x).
Proof.
  intros Hc H1 H.
  assert (G : forall k, (k < length (wrap_pad c x))%nat -> nth k (wrap_pad c x) 0 = nth 0 x 0).
  { intros k Hk. rewrite wrap_pad_length in Hk by lia. rewrite nth_wrap_pad by lia. unfold widx.
    destruct (_ <? 0) eqn:A1; [| destruct (_ <? Z.of_nat (length x)) eqn:A2].
    - replace (Z.of_nat k - Z.of_nat c + Z.of_nat (length x)) with (Z.of_nat (k + length x - c)) by lia.
      rewrite <- nth_zx. apply H. lia.
    - replace (Z.of_nat k - Z.of_nat c) with (Z.of_nat (k - c)) by lia. rewrite <- nth_zx. apply H. lia.
    - replace (Z.of_nat k - Z.of_nat c - Z.of_nat (length x)) with (Z.of_nat (k - c - length x)) by lia.
      rewrite <- nth_zx. apply H. lia. }
  intros k Hk. rewrite G by exact Hk. symmetry. apply G. lia.
Qed.

Lemma null_periodic_1 x : (1 <= length x)%nat ->
  diffs (wrap_pad 1 x) = zeros (length x + 1) <-> is_const x.
Proof.
  intros Hn. split; intros H.
  - apply (const_of_pad_const 1); try lia. apply const_of_diffs. rewrite wrap_pad_length by lia.
    replace (length x + 2 * 1 - 1)%nat with (length x + 1)%nat by lia. exact H.
  - replace (length x + 1)%nat with (length (wrap_pad 1 x) - 1)%nat by (rewrite wrap_pad_length; lia).
    apply diffs_of_const. apply pad_const_of_const; try lia. exact H.
Qed.

Lemma null_periodic_2 x : (2 <= length x)%nat ->
  ndiffs2 (wrap_pad 2 x) = zeros (length x + 2) <-> is_const x.
Proof.
  intros Hn. split; intros H.
  - apply (const_of_pad_const 2); try lia.
    assert (A : is_affine (wrap_pad 2 x)).
    { apply affine_of_ndiffs2. rewrite wrap_pad_length by lia.
      replace (length x + 2 * 2 - 2)%nat with (length x + 2)%nat by lia. exact H. }
    (* pad[0] = x[n-2] = pad[n]  =>  slope 0 *)
    pose proof (A (length x) ltac:(rewrite wrap_pad_length; lia)) as En.
    assert (E0 : nth (length x) (wrap_pad 2 x) 0 = nth 0 (wrap_pad 2 x) 0).
    { rewrite !nth_wrap_pad by lia. unfold widx.
      destruct (Z.of_nat (length x) - Z.of_nat 2 <? 0) eqn:A1; [lia|].
      destruct (Z.of_nat (length x) - Z.of_nat 2 <? Z.of_nat (length x)) eqn:A2; [|lia].
      destruct (Z.of_nat 0 - Z.of_nat 2 <? 0) eqn:A3; [|lia]. f_equal. lia. }
    assert (S0 : nth 1 (wrap_pad 2 x) 0 - nth 0 (wrap_pad 2 x) 0 = 0) by nia.
    intros k Hk. rewrite (A k Hk), S0. lia.
  - replace (length x + 2)%nat with (length (wrap_pad 2 x) - 2)%nat by (rewrite wrap_pad_length; lia).
    apply ndiffs2_of_affine.
    pose proof (pad_const_of_const 2 x ltac:(lia) ltac:(lia) H) as C.
    intros k Hk. rewrite (C k Hk). rewrite (C 1%nat) by (rewrite wrap_pad_length; lia). lia.
Qed.

Lemma Some_inj {A} (a b : A) : Some a = Some b -> a = b.
Proof. intros H. injection H as H. exact H. Qed.

(* the operator of the model annihilates exactly the documented null space *)
Theorem fd_null_1d order b n x D :
  fd_matrix order b n = Some D -> periodic_too_small order b n = false -> length x = n ->
  (zmatvec D x = zeros (length D) <-> null_cond order b x).
Proof.
  intros HD Hs Hx.
  pose proof (stencil_all order b n x D HD Hs Hx) as HS.
  assert (HL : length (zmatvec D x) = length D) by apply zmatvec_length.
  destruct order as [|[|[|o]]]; [discriminate| | |discriminate]; destruct b; try discriminate;
    cbn [stencil_spec] in HS; apply Some_inj in HS; unfold null_cond, periodic_too_small in *;
    rewrite <- HS in *.
  - rewrite diffs_length in HL. cbn [length] in HL. rewrite app_length in HL. cbn [length] in HL.
    rewrite <- HL. replace (S (length x + 1) - 1)%nat with (length x + 1)%nat by lia. apply null_zero_1.
  - rewrite diffs_length, wrap_pad_length in HL by lia. rewrite <- HL.
    replace (length x + 2 * 1 - 1)%nat with (length x + 1)%nat by lia. apply null_periodic_1. lia.
  - rewrite diffs_length in HL. rewrite <- HL. apply null_neumann_1.
  - destruct x as [|a x']; [subst n; discriminate|]. cbn [length] in HL. rewrite map_length, diffs_length in HL.
    cbn [length] in HL. rewrite <- HL. replace (S (S (length x') - 1)) with (length (a :: x')) by (cbn [length]; lia).
    apply (null_backward_1 a x').
  - rewrite <- HL. reflexivity.
  - unfold ndiffs2 in HL. rewrite map_length, !diffs_length in HL. cbn [length] in HL. rewrite app_length in HL. cbn [length] in HL.
    rewrite <- HL. replace (S (S (length x + 2)) - 1 - 1)%nat with (length x + 2)%nat by lia. apply null_zero_2.
  - unfold ndiffs2 in HL. rewrite map_length, !diffs_length, wrap_pad_length in HL by lia. rewrite <- HL.
    replace (length x + 2 * 2 - 1 - 1)%nat with (length x + 2)%nat by lia. apply null_periodic_2. lia.
  - unfold ndiffs2 in HL. rewrite map_length, !diffs_length in HL. rewrite <- HL.
    replace (length x - 1 - 1)%nat with (length x - 2)%nat by lia. apply null_neumann_2.
Qed.
