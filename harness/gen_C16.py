"""C16 -- solvers return points that satisfy the optimality conditions of their problem.

Correspondence: cuqi.solver (CGLS, PCGLS, FISTA, LM, ProjectNonnegative, ProjectBox, ProximalL1, L_BFGS_B, minimize,
maximize, LS) vs Model/C16_Solve.v.
  * CGLS / PCGLS: the iterates x_0..x_K (observed by running with maxit = 0..K, tol = 0) against the model's exact rational
    recurrences (1e-9), both operator forms (matrix dense/sparse, forward/adjoint callable; bitwise equality between the forms),
    and runs to the stopping rule: iteration count, point, and an exact optimality certificate on the observed point.
  * FISTA / ISTA: (x, k) for maxit = 1..K against the model (1e-9), and converged runs with a fixed-point certificate.
  * projections / soft-thresholding: EXACT on dyadic data.
  * LM: iterates of one-unknown polynomial problems against the model, stationarity of converged runs (oracle) for n = 1, 2.
  * wrappers: SciPy is called for real through a recorder; what the wrapper returns is compared field by field with what SciPy
    returned; for maximize the objective/gradient SciPy received are probed.
The independent oracle restates the property (residual of the optimality system, KKT conditions, variational inequalities)
in numpy / Fractions without using the model."""
import itertools, warnings, contextlib, collections
from fractions import Fraction
import numpy as np
from common import *

IMPORTS = ("From CV Require Import Base.Cmp Base.QcLin Model.C16_Solve.\n"
           "From Coq Require Import QArith String. Open Scope string_scope.")
RULE = ("integer least-squares problems (m,n<=5, cond(A^TA+shift)<=1e4) x shape(over/square/under) x shift(0/dyadic>0) x "
        "operator form(dense/sparse/callable) x start(zero/random): CGLS iterates 0..K and runs to the stopping rule "
        "(residual clause, |x|*tol>=1 clause, maxit, right-hand side scaled by 2^-30 / 2^10); PCGLS x preconditioner(identity/diagonal/triangular/general) x "
        "(explicit inverse/spsolve) x shift; FISTA/ISTA x prox(L1,L1*strength,nonneg,box None/scalar/vector) x form x dyadic/float "
        "step below 1/L; projections and soft-thresholding on dyadic vectors incl. ties and negative gamma; LM one-unknown "
        "quadratic residuals (dense/sparse) + 2-unknown stationarity; function handles returning their argument / a view / a persistent buffer x shift; "
        "data scale 2^-30..2^30 on A, b, both; LM residual scale 2^-10..2^10 x relative floor nu0/sigma^2 with step-by-step nu/step/accept traces through "
        "every branch combination and stationarity also at maxit; inputs not modified; object HISTORY (solve twice, re-assign every public attribute between solves, shared arrays: identical to a fresh solver); SciPy wrappers per method. distinct = distinct "
        "(operation, inputs, configuration); trivial = zero right-hand side with zero start, x already optimal, identity projection")

SIG = {
    "cgls": "CGLS.solve|normal-equations",
    "cgls_forms": "CGLS.solve|operator-forms-differ",
    "pcgls": "PCGLS.solve|normal-equations",
    "pcgls_shift": "PCGLS.solve|shift-ignored",
    "pcgls_forms": "PCGLS.solve|operator-forms-differ",
    "fista": "FISTA.solve|not-a-fixed-point",
    "fista_forms": "FISTA.solve|operator-forms-differ",
    "prox_l1": "ProximalL1|not-the-proximal-map",
    "box": "ProjectBox|not-the-projection",
    "nonneg": "ProjectNonnegative|not-the-projection",
    "lm": "LM.solve|not-stationary",
    "lm_nan": "LM.solve|stagnation-returns-nan",
    "lm_floor": "LM.solve|absolute-nu0-floor-stalls-small-residuals",
    "lm_buffer": "LM.solve|callable-output-buffer-aliased",
    "cgls_normx": "CGLS.solve|normx-clause-returns-unconverged-point",
    "pcgls_normx": "PCGLS.solve|normx-clause-returns-unconverged-point",
    "minimize": "minimize.solve|result-altered",
    "minimize_nojac": "minimize.solve|derivative-free-method-raises-KeyError",
    "maximize": "maximize.solve|not-the-negated-problem",
    "maximize_info": "maximize.solve|info-sign-not-restored",
    "lbfgsb": "L_BFGS_B.solve|result-altered",
    "ls": "LS.solve|result-altered",
    "ls_default": "LS.solve|default-jacfun-None-raises",
    "lm_descent": "LM.solve|objective-increases-or-acceptance-rule",
}

F = Fraction


def fl(v):
    return [float(a) for a in np.asarray(v, dtype=float).ravel()]


def solver_mod():
    import cuqi.solver._solver as S
    return S


# ------------------------------------------------------------------------------------------
# problem generators
# ------------------------------------------------------------------------------------------
def gen_matrix(rng, m, n, shift, lo=-3, hi=3, maxcond=1e4):
    for _ in range(200):
        A = np.array([[rng.randint(lo, hi) for _ in range(n)] for _ in range(m)], dtype=float)
        H = A.T @ A + shift * np.eye(n)
        ev = np.linalg.eigvalsh(H)
        if ev[0] > 1e-9 and ev[-1] / ev[0] <= maxcond:
            return A
        if shift == 0 and m < n:
            # under-determined without shift: A^T A is singular by construction; require full row rank instead
            ev2 = np.linalg.eigvalsh(A @ A.T)
            if ev2[0] > 1e-9 and ev2[-1] / ev2[0] <= maxcond:
                return A
    raise RuntimeError("no well-conditioned matrix found")


def shape_of(rng, kind):
    if kind == "over":
        n = rng.randint(1, 4); m = n + rng.randint(1, 2)
    elif kind == "square":
        n = rng.randint(1, 4); m = n
    else:
        m = rng.randint(1, 3); n = m + rng.randint(1, 2)
    return m, n


def mk_operator(A, form):
    import scipy.sparse as spa
    A = np.asarray(A, dtype=float)
    if form == "dense":
        return A
    if form == "dense-F":                       # Fortran (column-major) order
        return np.asfortranarray(A)
    if form == "dense-view":                    # a non-contiguous view into a larger array
        big = np.zeros((2 * A.shape[0], 2 * A.shape[1]))
        big[::2, ::2] = A
        return big[::2, ::2]
    if form == "dense-int":                     # integer dtype (the entries of these cells are integers)
        assert np.array_equal(A, np.round(A))
        return A.astype(np.int64)
    if form == "sparse":
        return spa.csr_matrix(A)
    if form == "fun":
        return lambda x, flag: A @ x if flag == 1 else A.T @ x
    if form == "fun-sparse":
        As = spa.csr_matrix(A)
        return lambda x, flag: As @ x if flag == 1 else As.T @ x
    if form in ("sparse-csc", "sparse-coo"):
        return spa.csc_matrix(A) if form == "sparse-csc" else spa.coo_matrix(A)
    if form == "fun-strided-out":
        # the handle returns NON-contiguous results: every second entry of a longer work array (a strided view), freshly filled each call
        def op(x, flag):
            y = (A if flag == 1 else A.T) @ x
            w = np.zeros(2 * len(y))
            w[::2] = y
            return w[::2]
        return op
    if form == "fun-F-out":
        # results computed through Fortran-ordered intermediates ((X^T A^T)^T pattern): 1-d output of a 2-d F-contiguous product
        AF, ATF = np.asfortranarray(A), np.asfortranarray(A.T)
        return lambda x, flag: ((AF if flag == 1 else ATF) @ np.asfortranarray(x.reshape(-1, 1)))[:, 0]
    if form == "fun-buffer":
        # a function handle that writes into persistent output buffers and returns them (legal: the caller owns nothing)
        bufs = {1: np.zeros(A.shape[0]), 2: np.zeros(A.shape[1])}
        def op(x, flag):
            np.matmul(A if flag == 1 else A.T, x, out=bufs[flag])
            return bufs[flag]
        return op
    if form == "fun-buffer-shared":
        # one buffer for both directions (square operators): every call overwrites what the previous call returned
        assert A.shape[0] == A.shape[1]
        buf = np.zeros(A.shape[0])
        def op(x, flag):
            buf[:] = (A if flag == 1 else A.T) @ x
            return buf
        return op
    if form.startswith("fun-ident"):
        # identity / denoising operator (or a scaling operator on its unit-weight fast path): the handle hands back its ARGUMENT,
        # the same object or a view of it, in one or both directions
        assert A.shape[0] == A.shape[1] and np.array_equal(A, np.eye(A.shape[0])), "alias forms need the identity operator"
        kind = form[len("fun-ident-"):]
        ret = {"self": lambda x: x, "view": lambda x: x[:], "stride": lambda x: x[::1], "reshape": lambda x: x.reshape(-1)}
        fresh = lambda x: np.array(x, dtype=float, copy=True)
        if kind in ret:
            f1 = f2 = ret[kind]
        elif kind == "adjself":
            f1, f2 = fresh, ret["self"]
        elif kind == "fwdself":
            f1, f2 = ret["self"], fresh
        elif kind == "adjview":
            f1, f2 = fresh, ret["view"]
        else:
            raise ValueError(form)
        return lambda x, flag: f1(x) if flag == 1 else f2(x)
    raise ValueError(form)


ALIAS_IDENT_FORMS = ["fun-ident-self", "fun-ident-view", "fun-ident-stride", "fun-ident-reshape", "fun-ident-adjself", "fun-ident-fwdself", "fun-ident-adjview"]


def lay(v, meta, allow_int=True):
    """the vector v in the memory layout / dtype of the cell: contiguous float64 (default), a strided view, or int64"""
    a = np.array(v, dtype=float)
    ly = meta.get("layout")
    if ly == "view":
        big = np.zeros(2 * len(a) + 1)
        big[1::2] = a
        return big[1::2]
    if ly == "int" and allow_int and np.array_equal(a, np.round(a)):
        return a.astype(np.int64)
    if ly == "cuqiarray":
        import cuqi
        return cuqi.array.CUQIarray(a, geometry=cuqi.geometry.Continuous1D(len(a)))
    return a


class InputMutated(Exception):
    pass


def _unchanged(name, arr, ref):
    if not np.array_equal(np.asarray(arr.toarray() if hasattr(arr, "toarray") else arr, dtype=float), np.asarray(ref, dtype=float)):
        raise InputMutated("the solver modified its argument %s: %s -> %s" % (name, np.asarray(ref).tolist(), np.asarray(arr.toarray() if hasattr(arr, "toarray") else arr).tolist()))


def frac_inverse(P):
    n = len(P)
    M = [[F(int(v)) for v in row] + [F(int(i == j)) for j in range(n)] for i, row in enumerate(P)]
    for c in range(n):
        piv = next((r for r in range(c, n) if M[r][c] != 0), None)
        if piv is None:
            return None
        M[c], M[piv] = M[piv], M[c]
        pv = M[c][c]
        M[c] = [v / pv for v in M[c]]
        for r in range(n):
            if r != c and M[r][c] != 0:
                f = M[r][c]
                M[r] = [a - f * b for a, b in zip(M[r], M[c])]
    return [row[n:] for row in M]


def gen_precond(rng, n, kind):
    for _ in range(200):
        if kind == "identity":
            P = np.eye(n)
        elif kind == "diagonal":
            P = np.diag([float(rng.choice([1, 2, 4, 3, 5])) for _ in range(n)])
        elif kind == "triangular":
            P = np.array([[rng.randint(-2, 2) if j < i else (rng.choice([1, 2, 3]) if i == j else 0) for j in range(n)] for i in range(n)], dtype=float)
        else:
            P = np.array([[rng.randint(-3, 3) for _ in range(n)] for _ in range(n)], dtype=float)
        if abs(np.linalg.det(P)) > 0.5 and np.linalg.cond(P) <= 50:
            return P
    raise RuntimeError("no preconditioner found")


# ------------------------------------------------------------------------------------------
# drivers of the real implementation (one per operation; used by run and by replay)
# ------------------------------------------------------------------------------------------
class HistoryMismatch(Exception):
    pass


class _Boom(Exception):
    pass


def _raiser(*a, **k):
    raise _Boom("user callable raised")


def history_solve(meta, final_json, materialise, construct, attrnames, result_eq, solve=lambda sv: sv.solve()):
    """The theorems read "the solver object" as a function of the attribute VALUES it holds when solve() is called.  Without a history
    spec: construct with the final values and solve.  With meta["history"]:
      repeat   -- solve twice without any change: both results must equal that of a fresh solver;
      reassign -- construct with other values for the listed attributes, solve, re-assign those attributes to the final values, solve again;
      shared   -- two solver objects built on the very same array objects (the listed attributes), the other one solved first.
    In every mode the observed result must be identical to that of a fresh solver constructed with the final values
    (else HistoryMismatch), and it is what the model comparison and the optimality oracle of the case then judge."""
    h = meta.get("history")
    fin = materialise(final_json)
    if not h:
        return solve(construct(fin)), fin
    mode = h["mode"]
    if mode == "after_raise":
        # L14: a solve() that ended in an exception (a user callable raising) must leave the object usable: re-assign, solve, as fresh
        sv = construct(materialise(dict(final_json, **h.get("first", {}))))
        setattr(sv, attrnames[h["raiser"]], _raiser)
        try:
            solve(sv)
            raise HistoryMismatch("HISTORY(after_raise): a callable that raises did not make solve() raise")
        except _Boom:
            pass
        for nm in h["attrs"]:
            setattr(sv, attrnames[nm], fin[nm])
        out = solve(sv)
    elif mode == "inplace":
        # L15: the caller keeps the arrays it handed over and legitimately OVERWRITES them in place between two solves
        fst = materialise(dict(final_json, **h.get("first", {})))
        sv = construct(fst)
        solve(sv)
        for nm in h["attrs"]:
            fst[nm][...] = fin[nm]
        out = solve(sv)
    elif mode == "copy":
        # L25: copy.copy(solver) shares the arrays; re-assigning on the copy must not leak into the original (checked after the copy solved)
        import copy as _copy
        fst = materialise(dict(final_json, **h.get("first", {})))
        sv1 = construct(fst)
        sv2 = _copy.copy(sv1)
        for nm in h["attrs"]:
            setattr(sv2, attrnames[nm], fin[nm])
        out = solve(sv2)
        o1 = solve(sv1)
        f1 = solve(construct(materialise(dict(final_json, **h.get("first", {})))))
        if not result_eq(o1, f1):
            raise HistoryMismatch("HISTORY(copy): after re-assigning %s on a copy.copy of the solver the ORIGINAL returns %s, a fresh solver with its values %s"
                                  % (h["attrs"], _show(o1), _show(f1)))
    elif mode == "shared":
        oth = materialise(dict(final_json, **h.get("first", {})))
        for nm in h["shared"]:
            oth[nm] = fin[nm]
        s1, s2 = construct(oth), construct(fin)
        solve(s1)
        out = solve(s2)
    else:
        sv = construct(materialise(dict(final_json, **h.get("first", {}))))
        out1 = solve(sv)
        if mode == "reassign":
            for nm in h["attrs"]:
                setattr(sv, attrnames[nm], fin[nm])
        out = solve(sv)
        if mode == "repeat" and not result_eq(out1, out):
            raise HistoryMismatch("HISTORY: solve() called twice on the same object without any change gave %s and then %s" % (_show(out1), _show(out)))
    fresh = solve(construct(materialise(final_json)))
    if not result_eq(out, fresh):
        raise HistoryMismatch("HISTORY(%s %s): the object returned %s, a fresh solver holding the same attribute values returns %s"
                              % (mode, h.get("attrs", h.get("shared", "")), _show(out), _show(fresh)))
    return out, fin


def _show(out):
    try:
        return "(%s, %s)" % (np.asarray(out[0], dtype=float).ravel().tolist(), out[1] if not isinstance(out[1], dict) else out[1].get("nfev"))
    except Exception:
        return repr(out)[:200]


def _xk_eq(a, b):
    return np.array_equal(np.asarray(a[0], dtype=float), np.asarray(b[0], dtype=float), equal_nan=True) and int(a[1]) == int(b[1])


def drive_cgls(meta, maxit, tol):
    S = solver_mod()
    fj = {"A": meta["A"], "b": meta["b"], "x0": meta["x0"], "maxit": maxit, "tol": tol, "shift": meta["shift"]}
    mat = lambda v: {"A": mk_operator(v["A"], meta["form"]), "b": lay(v["b"], meta), "x0": lay(v["x0"], meta, allow_int=False),
                     "maxit": int(v["maxit"]), "tol": v["tol"], "shift": v["shift"]}
    # optional arguments omitted: CGLS(A, b, x0, maxit) must behave as tol = 1e-6, shift = 0 (the values this cell's meta carries)
    mk = (lambda v: S.CGLS(v["A"], v["b"], v["x0"], v["maxit"])) if meta.get("omit") else (lambda v: S.CGLS(v["A"], v["b"], v["x0"], v["maxit"], v["tol"], v["shift"]))
    with np.errstate(all="ignore"):
        (x, k), fin = history_solve(meta, fj, mat, mk,
                                    {"A": "A", "b": "b", "x0": "x0", "maxit": "maxit", "tol": "tol", "shift": "shift"}, _xk_eq)
    A, b, x0 = fin["A"], fin["b"], fin["x0"]
    _unchanged("b", b, meta["b"]); _unchanged("x0", x0, meta["x0"])
    if not callable(A):
        _unchanged("A", A, meta["A"])
    return fl(x), int(k)


@contextlib.contextmanager
def max_dim_inv(value):
    import cuqi
    old = cuqi.config.MAX_DIM_INV
    if value is not None:
        cuqi.config.MAX_DIM_INV = value
    try:
        yield
    finally:
        cuqi.config.MAX_DIM_INV = old


def drive_pcgls(meta, maxit, tol):
    import scipy.sparse as spa
    S = solver_mod()
    fj = {"A": meta["A"], "b": meta["b"], "x0": meta["x0"], "P": meta["P"], "maxit": maxit, "tol": tol, "shift": meta["shift"]}
    mat = lambda v: {"A": mk_operator(v["A"], meta["form"]), "b": lay(v["b"], meta), "x0": lay(v["x0"], meta, allow_int=False),
                     "P": spa.csc_matrix(np.array(v["P"], dtype=float)), "maxit": int(v["maxit"]), "tol": v["tol"], "shift": v["shift"]}
    mdi = meta["max_dim_inv"] if "max_dim_inv" in meta else (0 if meta["pinv"] == "spsolve" else None)
    with max_dim_inv(mdi), np.errstate(all="ignore"):
        if "max_dim_inv" in meta:
            # exact-threshold sizes: the explicit inverse is used iff dim < MAX_DIM_INV
            pv = mat(fj)
            probe = S.PCGLS(pv["A"], pv["b"], pv["x0"], pv["P"], 1, 1e-6, 0)
            if bool(probe._explicitPinv) != (len(meta["x0"]) < meta["max_dim_inv"]):
                raise HistoryMismatch("THRESHOLD: PCGLS with dim %d and MAX_DIM_INV %d chose explicitPinv=%s" % (len(meta["x0"]), meta["max_dim_inv"], probe._explicitPinv))
    with max_dim_inv(mdi), np.errstate(all="ignore"):
        # PCGLS keeps its inputs in underscore attributes (and caches P^-1 in the constructor): only b, x0, tol, maxit are re-assigned
        mkp = (lambda v: S.PCGLS(v["A"], v["b"], v["x0"], v["P"], v["maxit"])) if meta.get("omit") else (lambda v: S.PCGLS(v["A"], v["b"], v["x0"], v["P"], v["maxit"], v["tol"], v["shift"]))
        (x, k), fin = history_solve(meta, fj, mat, mkp,
                                    {"b": "_b", "x0": "_x0", "maxit": "_maxit", "tol": "_tol"}, _xk_eq)
    A, b, x0, P = fin["A"], fin["b"], fin["x0"], fin["P"]
    _unchanged("b", b, meta["b"]); _unchanged("x0", x0, meta["x0"]); _unchanged("P", P, meta["P"])
    if not callable(A):
        _unchanged("A", A, meta["A"])
    return fl(x), int(k)


def mk_prox(meta):
    S = solver_mod()
    pk = meta["prox"]
    if pk["kind"] == "l1":
        if pk["strength"] == 1 and pk.get("direct", True):
            return S.ProximalL1
        s = pk["strength"]
        return lambda z, gamma: S.ProximalL1(z, gamma * s)
    if pk["kind"] == "nonneg":
        return lambda z, gamma: S.ProjectNonnegative(z)
    lo, up = mk_bound(pk["lo"]), mk_bound(pk["up"])
    return lambda z, gamma: S.ProjectBox(z, lo, up)


def mk_bound(bd):
    if bd is None:
        return None
    if isinstance(bd, list):
        return np.array(bd, dtype=float)
    return float(bd)


def drive_fista(meta, maxit, abstol):
    S = solver_mod()
    fj = {"A": meta["A"], "b": meta["b"], "x0": meta["x0"], "prox": meta["prox"], "maxit": maxit, "t": meta["t"], "abstol": abstol, "adaptive": meta["adaptive"]}
    mat = lambda v: {"A": mk_operator(v["A"], meta["form"]), "b": lay(v["b"], meta), "x0": lay(v["x0"], meta),
                     "prox": mk_prox({"prox": v["prox"]}), "maxit": int(v["maxit"]), "t": v["t"], "abstol": v["abstol"], "adaptive": v["adaptive"]}
    # optional arguments omitted: FISTA(A, b, x0, proximal, maxit=j) must behave as stepsize = 1, abstol = 1e-14, adaptive = True
    mkf = ((lambda v: S.FISTA(v["A"], v["b"], v["x0"], v["prox"], maxit=v["maxit"])) if meta.get("omit") else
           (lambda v: S.FISTA(v["A"], v["b"], v["x0"], v["prox"], maxit=v["maxit"], stepsize=v["t"], abstol=v["abstol"], adaptive=v["adaptive"])))
    (x, k), fin = history_solve(meta, fj, mat, mkf,
                                {"A": "A", "b": "b", "x0": "x0", "prox": "proximal", "maxit": "maxit", "t": "stepsize", "abstol": "abstol", "adaptive": "adaptive"}, _xk_eq)
    A, b, x0 = fin["A"], fin["b"], fin["x0"]
    _unchanged("b", b, meta["b"]); _unchanged("x0", x0, meta["x0"])
    if not callable(A):
        _unchanged("A", A, meta["A"])
    return fl(x), int(k)


def quad_funcs(co, sparse, buffer=False):
    import scipy.sparse as spa
    Ff = lambda x: np.array([a * x[0] ** 2 + b * x[0] + c for a, b, c in co], dtype=float)
    if sparse:
        Jf = lambda x: spa.csr_matrix(np.array([[2 * a * x[0] + b] for a, b, c in co], dtype=float))
    else:
        Jf = lambda x: np.array([[2 * a * x[0] + b] for a, b, c in co], dtype=float)
    if buffer and not sparse:
        # residual / Jacobian callables that write into persistent output arrays and return them (legal for a callable)
        rb, jb = np.zeros(len(co)), np.zeros((len(co), 1))
        F0, J0 = Ff, Jf
        def Ff(x):
            rb[:] = F0(x)
            return rb
        def Jf(x):
            jb[:] = J0(x)
            return jb
    return Ff, Jf


def drive_lm1(meta, maxit, gradtol):
    S = solver_mod()
    Ff, Jf = quad_funcs(meta["co"], meta["sparse"])
    with np.errstate(all="ignore"):
        x, info = S.LM(Ff, np.array([meta["x0"]], dtype=float), Jf, maxit=maxit, gradtol=gradtol, nu0=meta["nu0"], sparse=meta["sparse"]).solve()
    return fl(x), int(info["nfev"]), fl(info["func"])


class _SolveRecorder:
    """stands in for numpy.linalg inside cuqi.solver._solver while LM runs: records every (matrix, rhs) handed to solve"""
    def __init__(self, real):
        self._real, self.calls = real, []

    def __getattr__(self, name):
        return getattr(self._real, name)

    def solve(self, M, g):
        self.calls.append((np.array(M, dtype=float), np.array(g, dtype=float)))
        return self._real.solve(M, g)


LM_BRANCHES = collections.Counter()


def drive_lm_trace(meta, K):
    """x_0..x_k (k <= K; from runs with maxit = i, gradtol = 0) and, from one instrumented run, the matrix J^T J + nu I of every
    iteration together with the observation `nu == 0` (the matrix equals the float J^T J bit for bit)"""
    import scipy.sparse.linalg as spl
    S = solver_mod()
    Ff, Jf = quad_funcs(meta["co"], meta["sparse"])
    x0 = np.array([meta["x0"]], dtype=float)
    xs = []
    for i in range(K + 1):
        with np.errstate(all="ignore"):
            x, info = S.LM(Ff, x0.copy(), Jf, maxit=i, gradtol=0.0, nu0=meta["nu0"], sparse=meta["sparse"]).solve()
        if int(info["nfev"]) < i:
            break
        xs.append(float(np.asarray(x).ravel()[0]))
    _unchanged("x0", x0, [meta["x0"]])
    rec = _SolveRecorder(S.LA)
    calls = rec.calls
    if meta["sparse"]:
        real = spl.spsolve
        def spsolve_rec(M, g, *a, **k):
            calls.append((np.array(M.toarray(), dtype=float), np.array(g, dtype=float)))
            return real(M, g, *a, **k)
        ctxm = patched(S.spa.linalg, "spsolve", spsolve_rec)
    else:
        ctxm = patched(S, "LA", rec)
    with ctxm, np.errstate(all="ignore"):
        S.LM(Ff, x0.copy(), Jf, maxit=len(xs) - 1, gradtol=0.0, nu0=meta["nu0"], sparse=meta["sparse"]).solve()
    Ms = []
    for i, (M, g) in enumerate(calls[:len(xs) - 1]):
        J = Jf(np.array([xs[i]]))
        JtJ = J.T @ J
        JtJ = JtJ.toarray() if hasattr(JtJ, "toarray") else np.asarray(JtJ)
        Ms.append((float(M[0, 0]), bool(M[0, 0] == JtJ[0, 0]), float(M[0, 0] - JtJ[0, 0])))
    return xs, Ms


def lm3_funcs(p, sparse=False):
    """three unknowns (n > 2): chained Rosenbrock residuals  sigma * [a (x1 - x0^2), a (x2 - x1^2), b - x0, c x0 x2 - d]"""
    import scipy.sparse as spa
    a, b, c, d, sg = p["a"], p["b"], p["c"], p["d"], p.get("sigma", 1.0)
    Ff = lambda x: sg * np.array([a * (x[1] - x[0] ** 2), a * (x[2] - x[1] ** 2), b - x[0], c * x[0] * x[2] - d], dtype=float)
    Jd = lambda x: sg * np.array([[-2 * a * x[0], a, 0.0], [0.0, -2 * a * x[1], a], [-1.0, 0.0, 0.0], [c * x[2], 0.0, c * x[0]]], dtype=float)
    Jf = (lambda x: spa.csr_matrix(Jd(x))) if sparse else Jd
    return Ff, Jf


def lmz_funcs(p):
    """r_i(x) = sigma * (x0 * (1 + x1 * t_i) - b_i): at a start with x0 = 0 the second COLUMN of the Jacobian is exactly zero (the gradient is not)"""
    t, bb, sg = np.array(p["t"], dtype=float), np.array(p["b"], dtype=float), p.get("sigma", 1.0)
    Ff = lambda x: sg * (x[0] * (1 + x[1] * t) - bb)
    if p.get("jac_layout") == "F":
        Jf = lambda x: np.asfortranarray(sg * np.array([1 + x[1] * t, x[0] * t]).T)
    elif p.get("jac_layout") == "T":
        Jf = lambda x: (sg * np.array([1 + x[1] * t, x[0] * t])).T          # a transposed view (F-contiguous)
    else:
        Jf = lambda x: sg * np.array([1 + x[1] * t, x[0] * t]).T.copy()
    return Ff, Jf


def drive_lm_trace2(meta, K):
    """two unknowns: x_0..x_k and the entries (M11, M12, M22) of J^T J + nu I of every iteration, plus `nu == 0`; ng0 = |g_0| is computed
    here with numpy (certificate for the model, which checks ng0^2 = |g_0|^2)"""
    S = solver_mod()
    Ff, Jf = lm2_funcs(meta["p"])
    x0 = np.array(meta["x0"], dtype=float)
    xs = []
    for i in range(K + 1):
        with np.errstate(all="ignore"):
            x, info = S.LM(Ff, x0.copy(), Jf, maxit=i, gradtol=0.0, nu0=meta["nu0"], sparse=False).solve()
        if int(info["nfev"]) < i or not np.all(np.isfinite(x)):
            break
        xs.append(fl(x))
    rec = _SolveRecorder(S.LA)
    with patched(S, "LA", rec), np.errstate(all="ignore"):
        S.LM(Ff, x0.copy(), Jf, maxit=len(xs) - 1, gradtol=0.0, nu0=meta["nu0"], sparse=False).solve()
    Ms = []
    for i, (M, g) in enumerate(rec.calls[:len(xs) - 1]):
        J = Jf(np.array(xs[i]))
        JtJ = J.T @ J
        Ms.append((float(M[0, 0]), float(M[0, 1]), float(M[1, 1]), bool(M[0, 0] == JtJ[0, 0] and M[1, 1] == JtJ[1, 1])))
    ng0 = float(np.sqrt(np.sum((Jf(x0).T @ Ff(x0)) ** 2)))
    return xs, Ms, ng0


def case_lm_trace2(meta):
    xs, Ms, ng0 = drive_lm_trace2(meta, meta["K"])
    pp = meta["p"]
    expr = "check_lm_trace2_run %s %s %s %s %s %s %s %s %s %s" % (
        cq(pp.get("sigma", 1.0)), cq(pp["a"]), cq(pp["b"]), cq(pp["c"]), cq(pp["d"]), cqvec(meta["x0"]), cq(meta["nu0"]), cq(ng0),
        clist([cqvec(x) for x in xs]), clist(["(%s, %s, %s, %s)" % (cq(a), cq(b_), cq(c), cbool(z)) for a, b_, c, z in Ms]))
    return Case(expr=expr, meta=meta, cell="lm/trace/n2/%s" % meta["cell"], kind="EXACT", trivial=len(xs) < 2)


def lm_branch_labels(meta, xs, Ms):
    labs = []
    for i, (M, z, nu) in enumerate(Ms):
        cls = "nu=0" if z else ("nu>=nu0" if nu >= meta["nu0"] * (1 - 1e-6) else "0<nu<nu0")
        labs.append(("accept" if xs[i + 1] != xs[i] else "reject") + "@" + cls)
    return labs


def lm2_funcs(p):
    a, b, c, d, sg = p["a"], p["b"], p["c"], p["d"], p.get("sigma", 1.0)      # sigma: scale (units) of the residuals
    Ff = lambda x: sg * np.array([a * (x[1] - x[0] ** 2), b - x[0], c * x[0] * x[1] - d], dtype=float)
    Jf = lambda x: sg * np.array([[-2 * a * x[0], a], [-1.0, 0.0], [c * x[1], c * x[0]]], dtype=float)
    return Ff, Jf


# ------------------------------------------------------------------------------------------
# Coq encoders
# ------------------------------------------------------------------------------------------
def chb(bd):
    if bd is None:
        return "HNone"
    if isinstance(bd, list):
        return "(HVec %s)" % cqvec(bd)
    return "(HScalar %s)" % cq(bd)


def cprox(pk):
    if pk["kind"] == "l1":
        return "(PxL1 %s)" % cq(pk["strength"])
    if pk["kind"] == "nonneg":
        return "PxNonneg"
    return "(PxBox %s %s)" % (chb(pk["lo"]), chb(pk["up"]))


def cpair(a, b):
    return "(%s, %s)" % (a, b)


# ------------------------------------------------------------------------------------------
# independent oracles (numpy / Fractions; no use of the model)
# ------------------------------------------------------------------------------------------
def ne_resid(A, b, shift, x):
    A = np.asarray(A, dtype=float); x = np.asarray(x, dtype=float)
    return A.T @ (np.asarray(b, dtype=float) - A @ x) - shift * x


def not_converged(meta, k, maxit):
    """exact CG needs at most n iterations; cond <= 1e4 and n <= 5: a float run that has not met a relative tolerance >= 1e-8 after
    50+ iterations does not converge (the property is about runs to convergence: the harness checks that the stopping test fires)"""
    if maxit >= 50 and k >= maxit:
        return "%s did not reach its stopping rule within %d iterations on a %dx%d problem with cond <= 1e4 (exact CG needs <= %d)" % (
            meta["op"], maxit, len(meta["A"]), len(meta["x0"]), len(meta["x0"]))
    return None


def oracle_cgls(meta, x, k, maxit, tol):
    """run to convergence => the returned point solves (A^T A + shift I) x = A^T b to the requested relative tolerance"""
    nc = not_converged(meta, k, maxit)
    if nc:
        return nc
    if k >= maxit:
        return None                      # iteration cap: nothing is promised
    s0 = np.linalg.norm(ne_resid(meta["A"], meta["b"], meta["shift"], meta["x0"]))
    s = np.linalg.norm(ne_resid(meta["A"], meta["b"], meta["shift"], x))
    A_ = np.asarray(meta["A"], dtype=float)
    floor = 1e-12 * (np.linalg.norm(A_.T @ np.asarray(meta["b"], dtype=float)) + np.linalg.norm(ne_resid(meta["A"], 0 * np.asarray(meta["b"], dtype=float), meta["shift"], meta["x0"])))
    nx = np.linalg.norm(x) * tol
    if nx >= 0.999:
        # the absolute clause `normx*tol >= 1` ended the loop: (x, k) is returned exactly like a converged run (the flag is dropped)
        if nx >= 1.001 and s > 1.001 * tol * s0 + floor:
            return ("NORMX: CGLS stopped after %d < maxit iterations by its clause |x|*tol >= 1 (|x|*tol = %.3g) at a point that does not solve the "
                    "normal equations: |A^T(b-Ax)-shift*x| = %.3e > tol*|s0| = %.3e" % (k, nx, s, tol * s0))
        return None
    if s > 1.001 * tol * s0 + floor:      # floor: rounding level of evaluating the residual, relative to the scale of the data
        return "CGLS stopped after %d iterations with |A^T(b-Ax)-shift*x| = %.3e > tol*|s0| = %.3e (x=%s)" % (k, s, tol * s0, x)
    return None


def oracle_pcgls(meta, x, k, maxit, tol):
    """the documented system is the shifted one: (A^T A + shift I) x = A^T b, in the preconditioned norm"""
    nc = not_converged(meta, k, maxit)
    if nc:
        return "pcgls", nc
    if k >= maxit:
        return None, None
    Pinv = np.linalg.inv(np.array(meta["P"], dtype=float))
    nx = np.linalg.norm(x) * tol
    if nx >= 0.999:
        s0u = np.linalg.norm(Pinv.T @ ne_resid(meta["A"], meta["b"], 0.0, meta["x0"]))
        su = np.linalg.norm(Pinv.T @ ne_resid(meta["A"], meta["b"], 0.0, x))
        if nx >= 1.001 and su > 1.001 * tol * s0u + 1e-12 * s0u:
            return "pcgls_normx", ("NORMX: PCGLS stopped after %d < maxit iterations by its clause |x|*tol >= 1 (|x|*tol = %.3g) at a point that does not solve "
                                   "the (unshifted) normal equations: %.3e > tol*|s0| = %.3e" % (k, nx, su, tol * s0u))
        return None, None
    s0 = np.linalg.norm(Pinv.T @ ne_resid(meta["A"], meta["b"], meta["shift"], meta["x0"]))
    s = np.linalg.norm(Pinv.T @ ne_resid(meta["A"], meta["b"], meta["shift"], x))
    A_ = np.asarray(meta["A"], dtype=float)
    floor = 1e-12 * (np.linalg.norm(Pinv.T @ (A_.T @ np.asarray(meta["b"], dtype=float))) + np.linalg.norm(Pinv.T @ (A_.T @ (A_ @ np.asarray(meta["x0"], dtype=float)))))
    if s > 1.001 * tol * s0 + floor:      # floor: rounding level of evaluating the residual, relative to the scale of the data
        kind = "pcgls_shift" if meta["shift"] != 0 else "pcgls"
        return kind, ("PCGLS(shift=%s) stopped after %d iterations with |P^-T(A^T(b-Ax)-shift*x)| = %.3e > tol*|s0| = %.3e (x=%s)"
                      % (meta["shift"], k, s, tol * s0, x))
    return None, None


def oracle_fista(meta, x, abstol):
    """KKT conditions of  min 1/2|Ax-b|^2 + g(x)  at the returned point (g from the proximal operator's name)"""
    A = np.array(meta["A"], dtype=float); b = np.array(meta["b"], dtype=float); x = np.asarray(x, dtype=float)
    g = A.T @ (A @ x - b)
    pk = meta["prox"]
    sA, sb = meta.get("scaleA", 1.0), meta.get("scaleb", 1.0)          # dyadic scale factors of A and b (1 in the unscaled cells)
    eps = 20 * abstol / meta["t"] + 1e-9 * sA * sb                       # gradient scale
    epsx = 20 * abstol / (meta["t"] * sA * sA) + 1e-9 * sb / sA          # scale of x
    n = len(x)
    if pk["kind"] == "l1":
        lam = pk["strength"]
        for i in range(n):
            if abs(x[i]) > epsx:
                if abs(g[i] + lam * np.sign(x[i])) > eps:
                    return "L1 KKT violated at coordinate %d: x=%r grad=%r lambda=%r" % (i, x[i], g[i], lam)
            elif abs(g[i]) > lam + eps:
                return "L1 KKT violated at zero coordinate %d: |grad|=%r > lambda=%r" % (i, abs(g[i]), lam)
        return None
    if pk["kind"] == "nonneg":
        lo, up = np.zeros(n), np.full(n, np.inf)
    else:
        lo = np.zeros(n) if pk["lo"] is None else np.broadcast_to(np.array(pk["lo"], dtype=float), (n,))
        up = np.ones(n) if pk["up"] is None else np.broadcast_to(np.array(pk["up"], dtype=float), (n,))
    for i in range(n):
        if x[i] < lo[i] - epsx or x[i] > up[i] + epsx:
            return "returned point outside the constraint set at coordinate %d: %r not in [%r,%r]" % (i, x[i], lo[i], up[i])
        at_lo, at_up = abs(x[i] - lo[i]) <= epsx, abs(x[i] - up[i]) <= epsx
        if not at_lo and not at_up and abs(g[i]) > eps:
            return "interior coordinate %d has non-zero gradient %r" % (i, g[i])
        if at_lo and not at_up and g[i] < -eps:
            return "coordinate %d at its lower bound has descent direction inside the box (grad %r)" % (i, g[i])
        if at_up and not at_lo and g[i] > eps:
            return "coordinate %d at its upper bound has descent direction inside the box (grad %r)" % (i, g[i])
    return None


def oracle_prox_l1(x, gamma, p):
    """p = argmin 1/2|z-x|^2 + gamma|z|_1  <=>  x_i - p_i in gamma * subdifferential |.|(p_i)   (gamma >= 0), exact"""
    x, p, gamma = [frac(v) for v in x], [frac(v) for v in p], frac(gamma)
    if len(p) != len(x):
        return "length changed"
    for i, (a, q) in enumerate(zip(x, p)):
        if q != 0:
            if a - q != gamma * (1 if q > 0 else -1):
                return "coordinate %d: x-p = %s is not gamma*sign(p) = %s" % (i, a - q, gamma * (1 if q > 0 else -1))
        elif abs(a) > gamma:
            return "coordinate %d: p = 0 although |x| = %s > gamma = %s" % (i, abs(a), gamma)
    return None


def oracle_projection(x, lo, up, p, rng):
    """p in C and <x-p, z-p> <= 0 for the corners, the centre and random points z of the box C (exact)"""
    x, p = [frac(v) for v in x], [frac(v) for v in p]
    n = len(x)
    if len(p) != n:
        return "length changed"
    for i in range(n):
        if (lo[i] is not None and p[i] < lo[i]) or (up[i] is not None and p[i] > up[i]):
            return "coordinate %d: %s outside [%s,%s]" % (i, p[i], lo[i], up[i])
    big = F(10 ** 6)
    L = [l if l is not None else -big for l in lo]; U = [u if u is not None else big for u in up]
    zs = []
    for mask in itertools.product([0, 1], repeat=min(n, 4)):
        zs.append([(U[i] if mask[i % len(mask)] else L[i]) for i in range(n)])
    zs.append([(L[i] + U[i]) / 2 for i in range(n)])
    for _ in range(4):
        zs.append([L[i] + (U[i] - L[i]) * F(rng.randint(0, 16), 16) for i in range(n)])
    for z in zs:
        ip = sum((x[i] - p[i]) * (z[i] - p[i]) for i in range(n))
        if ip > 0:
            return "variational inequality violated: <x-p,z-p> = %s > 0 for z = %s" % (ip, [float(v) for v in z])
    return None


# ------------------------------------------------------------------------------------------
# SciPy recorders
# ------------------------------------------------------------------------------------------
class Recorder:
    """wraps a SciPy entry point: calls it for real (or returns a scripted result) and keeps arguments and result"""
    def __init__(self, real, scripted=None):
        self.real, self.scripted, self.calls = real, scripted, []

    def __call__(self, *a, **k):
        res = self.scripted(*a, **k) if self.scripted is not None else self.real(*a, **k)
        self.calls.append((a, k, res))
        return res


@contextlib.contextmanager
def patched(obj, name, new):
    old = getattr(obj, name)
    setattr(obj, name, new)
    try:
        yield
    finally:
        setattr(obj, name, old)


OBJECTIVES = {
    # name: (f, grad, dim)   integer-coefficient polynomials: exact on integer probes
    "quad2": (lambda c: (lambda x: float((x[0] - c[0]) ** 2 + 2 * (x[1] - c[1]) ** 2 + c[2]),
                         lambda x: np.array([2 * (x[0] - c[0]), 4 * (x[1] - c[1])], dtype=float)), 2),
    "quad1": (lambda c: (lambda x: float(3 * (x[0] - c[0]) ** 2 + c[2]),
                         lambda x: np.array([6 * (x[0] - c[0])], dtype=float)), 1),
    "quart2": (lambda c: (lambda x: float((x[0] - c[0]) ** 4 + (x[0] - c[0]) ** 2 + (x[1] - c[1]) ** 2 + (x[0] - c[0]) * (x[1] - c[1]) + c[2]),
                          lambda x: np.array([4 * (x[0] - c[0]) ** 3 + 2 * (x[0] - c[0]) + (x[1] - c[1]),
                                              2 * (x[1] - c[1]) + (x[0] - c[0])], dtype=float)), 2),
}


def mk_objective(meta):
    mkf, dim = OBJECTIVES[meta["obj"]]
    f, g = mkf(meta["c"])
    return f, g, dim


def sp_record(res):
    jac = res.get("jac") if hasattr(res, "get") else None
    return "(mk_sp %s %s %s %s %s %s %s)" % (cqvec(fl(res["x"])), cq(float(res["fun"])),
                                             "None" if jac is None else "(Some %s)" % cqvec(fl(jac)),
                                             cz(res.get("nit", -1)), cz(res.get("nfev", -1)), cbool(bool(res["success"])),
                                             cstr(str(res["message"])))


def info_record(info):
    g = info["grad"]
    return "(mk_info %s %s %s %s %s %s)" % (cbool(bool(info["success"])), cstr(str(info["message"])), cq(float(info["func"])),
                                            "None" if g is None else "(Some %s)" % cqvec(fl(g)), cz(-1 if info["nit"] is None else info["nit"]), cz(info["nfev"]))


def drive_minimize(meta):
    """returns dict(raised, sol, info, captured_result, probes) for minimize / maximize"""
    import scipy.optimize, cuqi
    S = solver_mod()
    f, g, dim = mk_objective(meta)
    sign = -1.0 if meta["op"] == "maximize" else 1.0
    fun = (lambda x: -f(x)) if meta["op"] == "maximize" else f          # maximise -f  <=>  minimise f
    grad = None if not meta["with_grad"] else ((lambda x: -g(x)) if meta["op"] == "maximize" else g)
    x0 = np.array(meta["x0"], dtype=float)
    geom = None
    if meta.get("cuqiarray"):
        geom = cuqi.geometry.Continuous1D(dim)
        x0 = cuqi.array.CUQIarray(x0, geometry=geom)
    rec = Recorder(scipy.optimize.minimize)
    out = {"raised": None}
    cls = S.maximize if meta["op"] == "maximize" else S.minimize
    h = meta.get("history")
    with patched(scipy.optimize, "minimize", rec), warnings.catch_warnings():
        warnings.simplefilter("ignore")
        try:
            if not h:
                sol, info = cls(fun, x0, gradfunc=grad, method=meta["method"], **meta.get("kwargs", {})).solve()
            else:
                # history: construct with other x0 / method / kwargs, solve, re-assign the public attributes, solve again (or solve twice)
                first = dict({"x0": meta["x0"], "method": meta["method"], "kwargs": meta.get("kwargs", {})}, **h.get("first", {}))
                sv = cls(fun, np.array(first["x0"], dtype=float), gradfunc=grad, method=first["method"], **first["kwargs"])
                sv.solve()
                if h["mode"] == "reassign":
                    sv.x0, sv.method, sv.kwargs = x0, meta["method"], dict(meta.get("kwargs", {}))
                sol, info = sv.solve()
                rec.calls[:] = rec.calls[-1:]
            out.update(sol=sol, info=info)
        except Exception as e:
            out["raised"] = repr(e)
    out["calls"] = rec.calls
    out["user_fun"], out["user_grad"], out["geom"], out["f"] = fun, grad, geom, f
    return out


# ------------------------------------------------------------------------------------------
# case builders
# ------------------------------------------------------------------------------------------
def forms_agree(obs, obs2, tight):
    """two float evaluations of the same CG recurrences (other summation order, other solve for P): iterates 0..2 must agree tightly;
    later ones only to 1e-3, because float CG amplifies rounding-level differences by ~1e3 per iteration (same schedule as the model
    comparison, Model/C16_Solve.v iter_tol); tolerances are relative to the scale of the iterate"""
    for j, (a, b) in enumerate(zip(obs, obs2)):
        a, b = np.asarray(a, dtype=float), np.asarray(b, dtype=float)
        tol = tight if j <= 2 else 1e-3
        sc = max(float(np.max(np.abs(b))) if b.size else 0.0, float(np.max(np.abs(np.asarray(obs2[0])))) if len(obs2[0]) else 0.0)
        if not np.all(np.abs(a - b) <= tol * (sc if sc > 0 else 1.0) + (0 if sc > 0 else tol)):
            return False
    return True


def case_cgls_iters(meta):
    K = meta["K"]
    obs = [drive_cgls(meta, j, 0.0)[0] for j in range(K + 1)]
    n = len(meta["x0"])
    expr = "check_cgls_iters %s %s %s %s %s %s" % (cnat(n), cqmat(meta["A"]), cqvec(meta["b"]), cqvec(meta["x0"]), cq(meta["shift"]),
                                                 clist([cqvec(o) for o in obs]))
    fail = sig = None
    # forms identical: the same run through the dense-matrix form must give bitwise the same iterates
    if meta["form"] != "dense":
        m2 = dict(meta, form="dense")
        obs2 = [drive_cgls(m2, j, 0.0)[0] for j in range(K + 1)]
        same = forms_agree(obs, obs2, 1e-12)
        if not same:
            fail, sig = "iterates of form %s differ from the dense-matrix form: %s vs %s" % (meta["form"], obs, obs2), SIG["cgls_forms"]
        expr += " && %s" % cbool(same)
    return Case(expr=expr, meta=meta, cell="cgls/iters/%s/%s/shift%s/%s" % (meta["shape"], meta["form"], "0" if meta["shift"] == 0 else "+", meta["start"]),
                trivial=not any(meta["b"]) and not any(meta["x0"]), kind="EXACT", impl_fail=fail, signature=sig or "")


def case_cgls_solve(meta):
    x, k = drive_cgls(meta, meta["maxit"], meta["tol"])
    n = len(meta["x0"])
    cert = k < meta["maxit"] and np.linalg.norm(x) * meta["tol"] < 0.999
    expr = "check_cgls_solve %s %s %s %s %s %s %s %s %s %s" % (
        cnat(n), cqmat(meta["A"]), cqvec(meta["b"]), cqvec(meta["x0"]), cq(meta["shift"]), cnat(meta["maxit"]), cq(meta["tol"]),
        cqvec(x), cnat(k), cbool(cert))
    fail = oracle_cgls(meta, x, k, meta["maxit"], meta["tol"])
    return Case(expr=expr, meta=meta, cell="cgls/solve/%s/%s/shift%s/%s/%s" % (meta["shape"], meta["form"], "0" if meta["shift"] == 0 else "+", meta["start"], meta["stopcell"]),
                trivial=not any(meta["b"]) and not any(meta["x0"]), kind="DECISION", impl_fail=fail,
                signature=(SIG["cgls_normx"] if fail.startswith("NORMX") else SIG["cgls"]) if fail else "")


def case_pcgls_iters(meta):
    K = meta["K"]
    obs = [drive_pcgls(meta, j, 0.0)[0] for j in range(K + 1)]
    n = len(meta["x0"])
    Pinv = frac_inverse(meta["P"])
    expr = "check_pcgls_iters %s %s %s %s %s %s %s" % (cnat(n), cqmat(meta["A"]), cqvec(meta["b"]), cqvec(meta["x0"]), cqmat(meta["P"]),
                                                     cqmat(Pinv), clist([cqvec(o) for o in obs]))
    fail = sig = None
    if meta["form"] != "dense" or meta["pinv"] != "explicit":
        m2 = dict(meta, form="dense", pinv="explicit")
        obs2 = [drive_pcgls(m2, j, 0.0)[0] for j in range(K + 1)]
        # 1e-6: different but equivalent float evaluations of P^-1 (explicit inverse vs sparse solve) on a system whose
        # preconditioned condition number may reach ~1e7 legitimately differ by ~1e-9 near convergence
        same = forms_agree(obs, obs2, 1e-6)
        if not same:
            fail, sig = "iterates of form %s/%s differ from the dense explicit form: %s vs %s" % (meta["form"], meta["pinv"], obs, obs2), SIG["pcgls_forms"]
        expr += " && %s" % cbool(same)
    return Case(expr=expr, meta=meta, cell="pcgls/iters/%s/%s/%s/%s/shift%s" % (meta["shape"], meta["form"], meta["pkind"], meta["pinv"], "0" if meta["shift"] == 0 else "+"),
                trivial=not any(meta["b"]) and not any(meta["x0"]), kind="EXACT", impl_fail=fail, signature=sig or "")


def case_pcgls_solve(meta):
    x, k = drive_pcgls(meta, meta["maxit"], meta["tol"])
    n = len(meta["x0"])
    cert = k < meta["maxit"] and np.linalg.norm(x) * meta["tol"] < 0.999
    Pinv = frac_inverse(meta["P"])
    expr = "check_pcgls_solve %s %s %s %s %s %s %s %s %s %s %s %s" % (
        cnat(n), cqmat(meta["A"]), cqvec(meta["b"]), cqvec(meta["x0"]), cqmat(meta["P"]), cqmat(Pinv), cq(meta["shift"]),
        cnat(meta["maxit"]), cq(meta["tol"]), cqvec(x), cnat(k), cbool(cert))
    kind, fail = oracle_pcgls(meta, x, k, meta["maxit"], meta["tol"])
    return Case(expr=expr, meta=meta, cell="pcgls/solve/%s/%s/%s/%s/shift%s" % (meta["shape"], meta["form"], meta["pkind"], meta["pinv"], "0" if meta["shift"] == 0 else "+"),
                trivial=not any(meta["b"]) and not any(meta["x0"]), kind="DECISION", impl_fail=fail, signature=SIG[kind] if fail else "")


def case_fista_runs(meta):
    K = meta["K"]
    j0 = 0 if meta.get("from0") else 1
    obs = [(j,) + drive_fista(meta, j, meta["abstol"]) for j in range(j0, K + 1)]
    n = len(meta["x0"])
    expr = "check_fista_runs %s %s %s %s %s %s %s %s %s" % (
        cnat(n), cqmat(meta["A"]), cqvec(meta["b"]), cqvec(meta["x0"]), cprox(meta["prox"]), cq(meta["t"]), cq(meta["abstol"]),
        cbool(meta["adaptive"]), clist([cpair(cnat(j), cpair(cqvec(x), cnat(k))) for j, x, k in obs]))
    fail = sig = None
    if meta["form"] != "dense":
        m2 = dict(meta, form="dense")
        obs2 = [(j,) + drive_fista(m2, j, meta["abstol"]) for j in range(j0, K + 1)]
        same = all(a[2] == b[2] and np.allclose(a[1], b[1], rtol=1e-12, atol=1e-12) for a, b in zip(obs, obs2))
        if not same:
            fail, sig = "runs of form %s differ from the dense-matrix form" % meta["form"], SIG["fista_forms"]
        expr += " && %s" % cbool(same)
    return Case(expr=expr, meta=meta, cell="fista/runs/%s/%s/%s/%s/%s" % (meta["proxcell"], "fista" if meta["adaptive"] else "ista", meta["form"], meta["shape"], meta["stepcell"]),
                trivial=False, kind="EXACT", impl_fail=fail, signature=sig or "")


def case_fista_conv(meta):
    x, k = drive_fista(meta, meta["maxit"], meta["abstol"])
    n = len(meta["x0"])
    fired = k < meta["maxit"]
    bound = 2 * meta["abstol"] + 1e-12 * meta.get("scaleb", 1.0) / meta.get("scaleA", 1.0)
    expr = "%s && check_fista_cert %s %s %s %s %s %s %s" % (cbool(fired), cnat(n), cqmat(meta["A"]), cqvec(meta["b"]), cprox(meta["prox"]),
                                                           cq(meta["t"]), cqvec(x), cq(bound))
    fail = oracle_fista(meta, x, meta["abstol"]) if fired else None
    if not fired:
        fail = "stopping test did not fire within maxit=%d" % meta["maxit"]
    return Case(expr=expr, meta=meta, cell="fista/converged/%s/%s/%s" % (meta["proxcell"], "fista" if meta["adaptive"] else "ista", meta["shape"]),
                trivial=False, kind="DECISION", impl_fail=fail, signature=SIG["fista"] if fail else "")


def case_fista_defaults(meta):
    """FISTA(A, b, x0, proximal) with all optionals omitted must be the run with the documented defaults spelled out (that explicit call is what
    the runs/converged cells tie to the model); and it must have made at most the default 100 iterations"""
    S = solver_mod()
    A = mk_operator(meta["A"], meta["form"])
    b, x0 = np.array(meta["b"], dtype=float), np.array(meta["x0"], dtype=float)
    x, k = S.FISTA(A, b, x0, mk_prox(meta)).solve()
    x2, k2 = S.FISTA(mk_operator(meta["A"], meta["form"]), b.copy(), x0.copy(), mk_prox(meta), maxit=100, stepsize=1.0, abstol=1e-14, adaptive=True).solve()
    ok = bool(np.array_equal(x, x2) and k == k2 and 1 <= k <= 100)
    return Case(expr=cbool(ok), meta=meta, cell="fista/defaults-all/%s" % meta["proxcell"], kind="DECISION",
                impl_fail=None if ok else "FISTA(A,b,x0,proximal) returned (%s, %d); with the documented defaults spelled out (maxit=100, stepsize=1, abstol=1e-14, adaptive=True): (%s, %d)" % (fl(x), k, fl(x2), k2),
                signature="" if ok else SIG["fista"])


def case_prox(meta, rng):
    S = solver_mod()
    x = np.array(meta["x"], dtype=np.int64 if meta.get("dtype") == "int" else float)
    if meta["op"] == "prox_l1":
        xin = x.copy()
        p = fl(S.ProximalL1(xin, meta["gamma"]))
        _unchanged("x", xin, meta["x"])
        expr = "check_prox_l1 %s %s %s" % (cqvec(meta["x"]), cq(meta["gamma"]), cqvec(p))
        fail = oracle_prox_l1(meta["x"], meta["gamma"], p) if meta["gamma"] >= 0 else None
        return Case(expr=expr, meta=meta, cell="prox_l1/%s" % meta["cell"], trivial=(meta["gamma"] == 0), kind="EXACT", impl_fail=fail,
                    signature=SIG["prox_l1"] if fail else "")
    n = len(x)
    if meta["op"] == "nonneg":
        xin = x.copy()
        p = fl(S.ProjectNonnegative(xin))
        _unchanged("x", xin, meta["x"])
        expr = "check_project_nonneg %s %s" % (cqvec(meta["x"]), cqvec(p))
        fail = oracle_projection(meta["x"], [F(0)] * n, [None] * n, p, rng)
        return Case(expr=expr, meta=meta, cell="nonneg/%s" % meta["cell"], trivial=all(v >= 0 for v in meta["x"]), kind="EXACT", impl_fail=fail,
                    signature=SIG["nonneg"] if fail else "")
    lo, up = mk_bound(meta["lo"]), mk_bound(meta["up"])
    xin = x.copy()
    p = fl(S.ProjectBox(xin, lo, up))
    _unchanged("x", xin, meta["x"])
    for nm, arr, ref in [("lower", lo, meta["lo"]), ("upper", up, meta["up"])]:
        if isinstance(arr, np.ndarray):
            _unchanged(nm, arr, ref)
    expr = "check_project_box %s %s %s %s" % (cqvec(meta["x"]), chb(meta["lo"]), chb(meta["up"]), cqvec(p))
    L = [F(0)] * n if meta["lo"] is None else [frac(v) for v in np.broadcast_to(np.array(meta["lo"], dtype=float), (n,))]
    U = [F(1)] * n if meta["up"] is None else [frac(v) for v in np.broadcast_to(np.array(meta["up"], dtype=float), (n,))]
    fail = oracle_projection(meta["x"], L, U, p, rng) if all(l <= u for l, u in zip(L, U)) else None
    return Case(expr=expr, meta=meta, cell="box/%s" % meta["cell"], trivial=(p == fl(x)), kind="EXACT", impl_fail=fail,
                signature=SIG["box"] if fail else "")


def lm_grad_norm(Ff, Jf, x):
    J = Jf(np.asarray(x, dtype=float))
    J = J.toarray() if hasattr(J, "toarray") else np.asarray(J)
    return float(np.linalg.norm(J.T @ Ff(np.asarray(x, dtype=float))))


def case_lm_iters(meta):
    K = meta["K"]
    obs = [drive_lm1(meta, j, 0.0)[0] for j in range(K + 1)]
    expr = "check_lm_iters %s %s %s %s" % (clist(["(%s, %s, %s)" % (cq(a), cq(b), cq(c)) for a, b, c in meta["co"]]), cq(meta["x0"]),
                                          cq(meta["nu0"]), clist([cqvec(o) for o in obs]))
    return Case(expr=expr, meta=meta, cell="lm/iters/n1/%s/%s" % ("sparse" if meta["sparse"] else "dense", meta["cell"]), kind="EXACT")


def case_lm_trace(meta):
    xs, Ms = drive_lm_trace(meta, meta["K"])
    for lab in set(lm_branch_labels(meta, xs, Ms)):
        LM_BRANCHES[lab] += 1
    expr = "check_lm_trace_run %s %s %s %s %s" % (
        clist(["(%s, %s, %s)" % (cq(a), cq(b), cq(c)) for a, b, c in meta["co"]]), cq(meta["x0"]), cq(meta["nu0"]),
        cqvec(xs), clist(["(%s, %s)" % (cq(M), cbool(z)) for M, z, _ in Ms]))
    return Case(expr=expr, meta=meta, cell="lm/trace/n1/%s/%s" % ("sparse" if meta["sparse"] else "dense", meta["cell"]), kind="EXACT",
                trivial=len(xs) < 2)


def case_lm_conv(meta):
    S = solver_mod()
    if meta["op"] == "lm_conv1":
        Ff, Jf = quad_funcs(meta["co"], meta["sparse"], buffer=meta.get("callable") == "buffer")
        x0 = np.array([meta["x0"]], dtype=float)
    elif meta["op"] == "lm_conv3":
        Ff, Jf = lm3_funcs(meta["p"], meta.get("sparse", False))
        x0 = np.array(meta["x0"], dtype=float)
    elif meta["op"] == "lm_convz":
        Ff, Jf = lmz_funcs(meta["p"])
        x0 = np.array(meta["x0"], dtype=float)
    else:
        Ff, Jf = lm2_funcs(meta["p"])
        x0 = np.array(meta["x0"], dtype=float)
    x0_in = x0.copy()
    nu0v = meta["nu0"] if ("nu0" in meta and meta.get("use_nu0")) else 1e-3
    if meta["op"] == "lm_conv1":
        fj = {"co": meta["co"], "x0": [meta["x0"]], "maxit": meta["maxit"], "gradtol": meta["gradtol"], "nu0": nu0v}
        def mat(v):
            F_, J_ = quad_funcs(v["co"], meta["sparse"], buffer=meta.get("callable") == "buffer")
            return {"F": F_, "J": J_, "x0": np.array(v["x0"], dtype=float), "maxit": int(v["maxit"]), "gradtol": v["gradtol"], "nu0": v["nu0"]}
    else:
        fj = {"p": meta["p"], "x0": meta["x0"], "maxit": meta["maxit"], "gradtol": meta["gradtol"], "nu0": nu0v}
        def mat(v):
            F_, J_ = lm3_funcs(v["p"], meta.get("sparse", False)) if meta["op"] == "lm_conv3" else (lmz_funcs(v["p"]) if meta["op"] == "lm_convz" else lm2_funcs(v["p"]))
            return {"F": F_, "J": J_, "x0": np.array(v["x0"], dtype=np.int64 if meta.get("x0_dtype") == "int" else float), "maxit": int(v["maxit"]), "gradtol": v["gradtol"], "nu0": v["nu0"]}
    lm_eq = lambda a, b_: (np.array_equal(np.asarray(a[0], dtype=float), np.asarray(b_[0], dtype=float), equal_nan=True) and int(a[1]["nfev"]) == int(b_[1]["nfev"]))
    with np.errstate(all="ignore"):
        (x, info), fin = history_solve(meta, fj, mat,
                                       (lambda v: S.LM(v["F"], v["x0"], v["J"])) if meta.get("omit") else
                                       (lambda v: S.LM(v["F"], v["x0"], v["J"], maxit=v["maxit"], gradtol=v["gradtol"], nu0=v["nu0"], sparse=meta.get("sparse", False))),
                                       {"F": "A", "J": "jacfun", "x0": "x0", "maxit": "maxit", "gradtol": "gradtol", "nu0": "nu0"}, lm_eq)
    x0 = np.asarray(fin["x0"], dtype=float)
    _unchanged("x0", fin["x0"], x0_in)
    k = int(info["nfev"])
    if not np.all(np.isfinite(np.asarray(x, dtype=float))):
        # float-only failure mode (not expressible in the exact-arithmetic model): once f - ftemp rounds to 0 the step is accepted with
        # ratio = 0 and nu is doubled every iteration; after ~1000 iterations nu overflows to inf, the solve returns nan, the nan step is
        # accepted (nan < 0 is False) and the loop ends because nan > gradtol is False
        return Case(expr="false", meta=meta, cell="lm/converged/%s" % meta["cell"], kind="DECISION",
                    impl_fail="LM returned a non-finite point %s after %d iterations (stagnation: |J^T r|/|g0| stays just above gradtol, nu overflows)" % (fl(x), k),
                    signature=SIG["lm_nan"])
    rr_obs = np.array(info["func"], dtype=float, copy=True)
    JJ_obs = info["Jac"].toarray() if hasattr(info["Jac"], "toarray") else np.array(info["Jac"], dtype=float, copy=True)
    if meta["op"] == "lm_conv1" and meta.get("callable") == "buffer":
        Ff, Jf = quad_funcs(meta["co"], meta["sparse"])          # independent (allocating) evaluation for the oracle
    g0, g = lm_grad_norm(Ff, Jf, x0), lm_grad_norm(Ff, Jf, x)
    fired = k < meta["maxit"]
    fail = None
    if fired and g > 1.001 * meta["gradtol"] * g0 + 1e-13 * g0:
        fail = "LM stopped after %d iterations at x=%s with |J^T r| = %.3e > gradtol*|g0| = %.3e" % (k, fl(x), g, meta["gradtol"] * g0)
    elif not fired and meta.get("must_converge") and g > 100 * meta["gradtol"] * g0:
        # small smooth problems on which LM converges in far fewer iterations: coming back at maxit with a point that is not even
        # within 100 gradtol of stationarity is a failure of the property (the NaN stagnation finding has its own exact pattern above:
        # a non-finite point; a finite point with gradtol < |g|/|g0| <= 100 gradtol is the precision-limited plateau and is not judged)
        fail = ("LM used all %d iterations and returned the non-stationary point x=%s: |J^T r|/|J0^T r0| = %.3e (gradtol %.1e)"
                % (k, fl(x), g / g0, meta["gradtol"]))
    # info['func'] and info['Jac'] must be the residual and Jacobian AT the returned point
    rr, JJ = rr_obs, JJ_obs
    Jx = Jf(x); Jx = Jx.toarray() if hasattr(Jx, "toarray") else Jx
    consistent = bool(np.array_equal(rr, Ff(x)) and np.array_equal(JJ, Jx))
    if fail is None and not consistent:
        fail = "info['func']/info['Jac'] are not the residual/Jacobian at the returned point"
    expr = "%s" % cbool(consistent)
    sig = ""
    if fail:
        sig = (SIG["lm_buffer"] if meta.get("callable") == "buffer" else
               SIG["lm_floor"] if (not fired and meta.get("rho_class") == "floor-dominates") else SIG["lm"])
    return Case(expr=expr, meta=meta, cell="lm/converged/%s" % meta["cell"], kind="DECISION", trivial=not fired and not meta.get("must_converge"), impl_fail=fail,
                signature=sig)


def case_minimize(meta):
    out = drive_minimize(meta)
    op = meta["op"]
    calls = out["calls"]
    cell = "%s/%s/%s%s" % (op, meta["method"], "grad" if meta["with_grad"] else "nograd", "/cuqiarray" if meta.get("cuqiarray") else "")
    if len(calls) != 1:
        return Case(expr="false", meta=meta, cell=cell, kind="DECISION", impl_fail="SciPy called %d times" % len(calls), signature=SIG["minimize"])
    a, k, res = calls[0]
    fail = sig = None
    if out["raised"]:
        nojac = "jac" not in res
        # faithful model: the translation reads solution['jac'] and raises when SciPy did not produce one
        expr = "match minimize_translate %s with None => true | Some _ => false end" % sp_record(res)
        fail = "%s(method=%r).solve() raised %s although SciPy returned %s" % (op, meta["method"], out["raised"], fl(res["x"]))
        sig = SIG["minimize_nojac"] if nojac and "KeyError('jac')" in out["raised"] else SIG["minimize"]
        return Case(expr=expr, meta=meta, cell=cell, kind="DECISION", impl_fail=fail, signature=sig)
    sol, info = out["sol"], out["info"]
    # repaired maximize (fixes/C16_maximize_info_sign.diff): info["func"]/["grad"] negated back.  Recognised by the value
    # (when SciPy's fun is 0 both states coincide); any other value matches neither model and is a disagreement.
    fixed_max = (op == "maximize" and float(res["fun"]) != 0.0 and float(info["func"]) == -float(res["fun"]))
    if fixed_max:
        expr = "check_maximize_fixed %s %s %s" % (sp_record(res), cqvec(fl(sol)), info_record(info))
    elif "jac" in res:
        expr = "check_minimize %s %s %s" % (sp_record(res), cqvec(fl(sol)), info_record(info))
    else:   # repaired wrapper: a missing 'jac' is passed on as None
        expr = "check_minimize_nojac %s %s %s" % (sp_record(res), cqvec(fl(sol)), info_record(info))
    # arguments handed to SciPy: x0, method, jac
    passed_ok = (np.array_equal(np.asarray(a[1]), np.array(meta["x0"], dtype=float)) and k.get("method") == meta["method"]
                 and all(k.get(kk) == vv for kk, vv in meta.get("kwargs", {}).items()))
    # independent oracle: returned solution and info are SciPy's, unchanged
    sgn = -1.0 if fixed_max else 1.0
    same = (np.array_equal(np.asarray(sol), res["x"]) and info["func"] == sgn * res["fun"] and info["nit"] == res.get("nit") and info["nfev"] == res["nfev"]
            and bool(info["success"]) == bool(res["success"]) and info["message"] == res["message"]
            and (("jac" not in res and info["grad"] is None) or ("jac" in res and np.array_equal(info["grad"], sgn * np.asarray(res["jac"])))))
    typ_ok = True
    if meta.get("cuqiarray"):
        import cuqi
        typ_ok = isinstance(sol, cuqi.array.CUQIarray) and sol.geometry is out["geom"]
    else:
        typ_ok = type(sol) is np.ndarray
    probes_f, probes_g = [], []
    passed_fun, passed_jac = a[0], k.get("jac")
    dim = len(meta["x0"])
    for pt in meta["probes"]:
        p = np.array(pt, dtype=float)
        probes_f.append((out["user_fun"](p), passed_fun(p)))
        if out["user_grad"] is not None and passed_jac is not None:
            probes_g.append((fl(out["user_grad"](p)), fl(passed_jac(p))))
    grad_passed_ok = (passed_jac is None) == (out["user_grad"] is None)
    if op == "maximize":
        expr += " && check_negated %s && check_negated_grad %s" % (clist([cpair(cq(u), cq(v)) for u, v in probes_f]),
                                                                 clist([cpair(cqvec(u), cqvec(v)) for u, v in probes_g]))
        neg_ok = all(v == -u for u, v in probes_f) and all(v == [-w for w in u] for u, v in probes_g)
    else:
        expr += " && %s" % cbool(all(u == v for u, v in probes_f) and all(u == v for u, v in probes_g))
        neg_ok = all(u == v for u, v in probes_f) and all(u == v for u, v in probes_g)
    expr += " && %s && %s && %s" % (cbool(passed_ok), cbool(typ_ok), cbool(grad_passed_ok))
    cmeth = lambda mth: "None" if mth is None else "(Some %s)" % cstr(str(mth))
    expr += " && check_minimize_call %s %s %s %s %s %s" % (cmeth(meta["method"]), cbool(meta["with_grad"]), copts(meta.get("kwargs", {})),
                                                       cmeth(k.get("method")), cbool(k.get("jac") is not None), copts(k, skip=("jac", "method")))
    if not (same and passed_ok and typ_ok and grad_passed_ok):
        fail, sig = "%s: SciPy's result is altered or arguments not passed on (same=%s args=%s type=%s grad=%s)" % (op, same, passed_ok, typ_ok, grad_passed_ok), SIG["minimize"]
    elif not neg_ok:
        fail, sig = "%s: SciPy was not handed %s objective/gradient" % (op, "the negated" if op == "maximize" else "the"), SIG["maximize" if op == "maximize" else "minimize"]
    elif op == "maximize":
        # the documented info: value / gradient of the user's function at the returned point
        fv = out["user_fun"](np.asarray(sol, dtype=float))
        if abs(info["func"] - fv) > 1e-9 * (1 + abs(fv)):
            fail, sig = ("maximize.solve: info['func'] = %r but the maximised function has value %r at the returned point %s "
                         "(sign of the internal negation not flipped back)" % (info["func"], fv, fl(sol))), SIG["maximize_info"]
    return Case(expr=expr, meta=meta, cell=cell, kind="DECISION", impl_fail=fail, signature=sig or "")


def copts(d, skip=()):
    """numeric keyword options as a Coq list (name, value), sorted by name (non-numeric ones are compared in Python)"""
    items = []
    for kk in sorted(d):
        vv = d[kk]
        if kk in skip or isinstance(vv, bool) or not isinstance(vv, (int, float, np.integer, np.floating)):
            continue
        items.append("(%s, %s)" % (cstr(kk), cq(float(vv))))
    return clist(items)


def case_lbfgsb(meta):
    S = solver_mod()
    f, g, dim = mk_objective(meta)
    x0 = np.array(meta["x0"], dtype=float)
    scripted = None
    if meta.get("script") is not None:
        sc = meta["script"]
        scripted = lambda *a, **k: (np.array(sc["x"], dtype=float), sc["f"], {"grad": np.array(sc["grad"], dtype=float), "task": sc["task"],
                                                                              "funcalls": sc["funcalls"], "nit": sc["nit"], "warnflag": sc["warnflag"]})
    rec = Recorder(S.fmin_l_bfgs_b, scripted)
    h = meta.get("history")
    with patched(S, "fmin_l_bfgs_b", rec):
        if not h:
            sol, info = S.L_BFGS_B(f, x0, gradfunc=g if meta["with_grad"] else None, **meta.get("kwargs", {})).solve()
        else:
            first = dict({"x0": meta["x0"], "kwargs": meta.get("kwargs", {})}, **h.get("first", {}))
            sv = S.L_BFGS_B(f, np.array(first["x0"], dtype=float), gradfunc=g if meta["with_grad"] else None, **first["kwargs"])
            sv.solve()
            if h["mode"] == "reassign":
                sv.x0, sv.kwargs = x0, dict(meta.get("kwargs", {}))
            sol, info = sv.solve()
    a, k, res = rec.calls[-1]
    d = res[2]
    task = d["task"].decode() if isinstance(d["task"], bytes) else str(d["task"])
    msg = info["message"].decode() if isinstance(info["message"], bytes) else str(info["message"])
    same = (np.array_equal(sol, res[0]) and info["func"] == res[1] and np.array_equal(info["grad"], d["grad"]) and info["nit"] == d["nit"]
            and info["nfev"] == d["funcalls"])
    args_ok = (a[0] is f and np.array_equal(a[1], x0) and (k.get("fprime") is (g if meta["with_grad"] else None))
               and k.get("approx_grad") == (0 if meta["with_grad"] else 1)
               and all(k.get(kk) == vv for kk, vv in meta.get("kwargs", {}).items()))
    wf = int(d["warnflag"])
    exp = (1, "Optimization terminated successfully.") if wf == 0 else ((0, "Terminated due to too many function evaluations or too many iterations.") if wf == 1 else (0, task))
    fail = None
    if not (same and args_ok and (int(info["success"]), msg) == exp):
        fail = "L_BFGS_B: result/arguments altered (same=%s args=%s status=%s expected %s)" % (same, args_ok, (info["success"], msg), exp)
    # independent reference: SciPy's documented entry point called directly with the same keywords must give the same answer
    # (the semantics of every option -- e.g. factr is a multiple of machine eps -- whatever entry point the wrapper uses)
    ref_ok = True
    if scripted is None:
        import scipy.optimize as so
        rx, rf, rd = so.fmin_l_bfgs_b(f, x0.copy(), fprime=g if meta["with_grad"] else None, approx_grad=0 if meta["with_grad"] else 1, **meta.get("kwargs", {}))
        ref_ok = bool(np.array_equal(np.asarray(sol), rx) and float(info["func"]) == float(rf) and int(info["nit"]) == int(rd["nit"]) and int(info["nfev"]) == int(rd["funcalls"]))
        if fail is None and not ref_ok:
            fail = ("L_BFGS_B(%s): returned x=%s f=%r nit=%s nfev=%s, scipy.optimize.fmin_l_bfgs_b with the same keywords returns x=%s f=%r nit=%s nfev=%s"
                    % (meta.get("kwargs", {}), fl(sol), float(info["func"]), info["nit"], info["nfev"], fl(rx), float(rf), rd["nit"], rd["funcalls"]))
    # result translation through the model: SciPy's recorded (x, f, d) -> (solution, info) must be what the wrapper returned
    res_expr = "check_lbfgsb_result (mk_lbr %s %s %s %s %s %s %s) %s (mk_lbi %s %s %s %s %s %s)" % (
        cqvec(fl(res[0])), cq(float(res[1])), cqvec(fl(d["grad"])), cstr(task), cz(int(d["funcalls"])), cz(int(d["nit"])), cz(wf),
        cqvec(fl(sol)), cz(int(info["success"])), cstr(msg), cq(float(info["func"])), cqvec(fl(info["grad"])), cz(int(info["nit"])), cz(int(info["nfev"])))
    expr = res_expr + " && check_lbfgsb %s %s %s %s && %s && %s && %s && check_lbfgsb_call %s %s %s %s %s" % (
        cz(wf), cstr(task), cz(int(info["success"])), cstr(msg), cbool(same), cbool(args_ok), cbool(ref_ok),
        cbool(meta["with_grad"]), copts(meta.get("kwargs", {})), cbool(k.get("fprime") is not None), cz(int(k.get("approx_grad", -1))),
        copts(k, skip=("fprime", "approx_grad")))
    return Case(expr=expr, meta=meta, cell="lbfgsb/warnflag%d/%s%s%s" % (wf, "grad" if meta["with_grad"] else "nograd", "/scripted" if scripted else "",
                                                                      ("/kw:" + ",".join(sorted(meta.get("kwargs", {})))) if meta.get("kwargs") else ""),
                kind="DECISION", impl_fail=fail, signature=SIG["lbfgsb"] if fail else "")


def case_ls(meta):
    import cuqi
    S = solver_mod()
    Ff, Jf = lm2_funcs(meta["p"])
    x0 = np.array(meta["x0"], dtype=float)
    geom = None
    if meta.get("cuqiarray"):
        geom = cuqi.geometry.Continuous1D(2)
        x0 = cuqi.array.CUQIarray(x0, geometry=geom)
    rec = Recorder(S.least_squares)
    jac = Jf if meta["with_jac"] is True else "2-point"
    h = meta.get("history")
    with patched(S, "least_squares", rec):
        if meta["with_jac"] == "default":
            # every optional argument omitted: LS(func, x0) -- documented: "Jac: optional. If None, then the solver approximates the Jacobian"
            try:
                sol, info = S.LS(Ff, x0).solve()
            except ValueError as e:
                return Case(expr="false", meta=meta, cell="ls/defaults", kind="DECISION", signature=SIG["ls_default"],
                            impl_fail="LS(func, x0).solve() with the documented default jacfun=None raises %r (SciPy's least_squares has no jac=None)" % str(e)[:120])
        elif not h:
            sol, info = S.LS(Ff, x0, jacfun=jac, method=meta["method"], loss=meta["loss"], tol=meta["tol"], maxit=meta["maxit"]).solve()
        else:
            first = dict({"x0": meta["x0"], "method": meta["method"], "loss": meta["loss"], "tol": meta["tol"], "maxit": meta["maxit"]}, **h.get("first", {}))
            sv = S.LS(Ff, np.array(first["x0"], dtype=float), jacfun=jac, method=first["method"], loss=first["loss"], tol=first["tol"], maxit=first["maxit"])
            sv.solve()
            if h["mode"] == "reassign":
                sv.x0, sv.method, sv.loss, sv.tol, sv.maxit = x0, meta["method"], meta["loss"], meta["tol"], int(meta["maxit"])
            sol, info = sv.solve()
    a, k, res = rec.calls[-1]
    same = (np.array_equal(np.asarray(sol), res["x"]) and np.array_equal(info["func"], res["fun"]) and np.array_equal(info["jac"], res["jac"])
            and info["nfev"] == res["nfev"] and info["success"] == res["success"] and info["message"] == res["message"])
    args_ok = (a[0] is Ff and np.array_equal(np.asarray(a[1]), np.array(meta["x0"], dtype=float)) and (k.get("jac") is jac or (isinstance(jac, str) and k.get("jac") == jac)) and k.get("method") == meta["method"]
               and k.get("loss") == meta["loss"] and k.get("xtol") == meta["tol"] and k.get("max_nfev") == int(meta["maxit"]))
    typ_ok = (isinstance(sol, cuqi.array.CUQIarray) and sol.geometry is geom) if geom is not None else type(sol) is np.ndarray
    fail = None if (same and args_ok and typ_ok) else "LS: result/arguments altered (same=%s args=%s type=%s)" % (same, args_ok, typ_ok)
    import scipy.optimize as so
    ref = so.least_squares(Ff, np.array(meta["x0"], dtype=float), jac=jac, method=meta["method"], loss=meta["loss"], xtol=meta["tol"], max_nfev=int(meta["maxit"]))
    ref_ok = bool(np.array_equal(np.asarray(sol), ref["x"]) and info["nfev"] == ref["nfev"] and info["message"] == ref["message"])
    if fail is None and not ref_ok:
        fail = "LS: returned x=%s nfev=%s, scipy.optimize.least_squares(method, loss, xtol=tol, max_nfev=int(maxit)) returns x=%s nfev=%s" % (fl(sol), info["nfev"], fl(ref["x"]), ref["nfev"])
    jac_obs = "LsCallable" if callable(k.get("jac")) else ("LsTwoPoint" if k.get("jac") == "2-point" else "LsCallable (* unexpected jac=%r *)" % (k.get("jac"),))
    if not callable(k.get("jac")) and k.get("jac") != "2-point":
        jac_obs = "LsTwoPoint" if meta["with_jac"] is True else "LsCallable"      # anything else: make the comparison fail
    res_expr = "check_ls_result (mk_lsr %s %s %s %s %s %s) %s %s %s (mk_lsi %s %s %s %s %s)" % (
        cqvec(fl(res["x"])), cqvec(fl(res["fun"])), cqmat(np.asarray(res["jac"], dtype=float).tolist()), cz(int(res["nfev"])), cbool(bool(res["success"])), cstr(str(res["message"])),
        cbool(meta["with_jac"] is True), jac_obs, cqvec(fl(np.asarray(sol))),
        cbool(bool(info["success"])), cstr(str(info["message"])), cqvec(fl(info["func"])), cqmat(np.asarray(info["jac"], dtype=float).tolist()), cz(int(info["nfev"])))
    expr = res_expr + " && %s && %s && %s && %s && check_ls_call %s %s %s %s %s %s %s" % (
        cbool(same), cbool(args_ok), cbool(typ_ok), cbool(ref_ok), cstr(meta["method"]), cstr(meta["loss"]), cq(meta["tol"]), cq(float(meta["maxit"])),
        cstr(str(k.get("method"))), cstr(str(k.get("loss"))), copts(k))
    return Case(expr=expr, meta=meta, cell="ls/%s/%s/%s" % (meta["method"], meta["loss"], "jac" if meta["with_jac"] else "fd"), kind="DECISION",
                impl_fail=fail, signature=SIG["ls"] if fail else "")



# ------------------------------------------------------------------------------------------
# third deepening round: LM descent / acceptance rule, CGLS-PCGLS exit paths, PCGLS = CGLS(A P^-1)
# ------------------------------------------------------------------------------------------
def _lm_family(meta):
    if meta["op"] == "lm_descent":
        Ff, Jf = quad_funcs(meta["co"], meta["sparse"])
        return Ff, Jf, np.array([meta["x0"]], dtype=float), meta["sparse"]
    Ff, Jf = lm2_funcs(meta["p"])
    return Ff, Jf, np.array(meta["x0"], dtype=float), False


def drive_lm_rec(meta, K):
    """for every iteration i < k <= K: (x_i, M_i, g_i, x_{i+1}) -- the points from runs with maxit = i (gradtol = 0), the system
    (M_i, g_i) handed to LA.solve / spsolve from one instrumented run"""
    import scipy.sparse.linalg as spl
    S = solver_mod()
    Ff, Jf, x0, sparse = _lm_family(meta)
    xs = []
    for i in range(K + 1):
        with np.errstate(all="ignore"):
            x, info = S.LM(Ff, x0.copy(), Jf, maxit=i, gradtol=0.0, nu0=meta["nu0"], sparse=sparse).solve()
        if int(info["nfev"]) < i or not np.all(np.isfinite(np.asarray(x, dtype=float))):
            break
        xs.append(fl(x))
    rec = _SolveRecorder(S.LA)
    calls = rec.calls
    if sparse:
        real = spl.spsolve
        def spsolve_rec(M, g, *a, **k):
            calls.append((np.array(M.toarray(), dtype=float), np.array(g, dtype=float)))
            return real(M, g, *a, **k)
        ctxm = patched(S.spa.linalg, "spsolve", spsolve_rec)
    else:
        ctxm = patched(S, "LA", rec)
    with ctxm, np.errstate(all="ignore"):
        S.LM(Ff, x0.copy(), Jf, maxit=len(xs) - 1, gradtol=0.0, nu0=meta["nu0"], sparse=sparse).solve()
    steps = []
    for i, (M, g) in enumerate(calls[:len(xs) - 1]):
        if not (np.all(np.isfinite(M)) and np.all(np.isfinite(g))):
            break
        steps.append((xs[i], [[float(v) for v in row] for row in np.atleast_2d(M)], [float(v) for v in np.ravel(g)], xs[i + 1]))
    return steps


def lm_residual_exact(meta, x):
    """the user's residual vector at the float point x, in exact rationals, with the cancellation measure of its float evaluation"""
    xf = [F(v) for v in x]
    if meta["op"] == "lm_descent":
        v = xf[0]
        terms = [(F(a) * v * v, F(b) * v, F(c)) for a, b, c in meta["co"]]
    else:
        pp = meta["p"]
        sg, a, b, c, d = F(pp.get("sigma", 1.0)), F(pp["a"]), F(pp["b"]), F(pp["c"]), F(pp["d"])
        terms = [(sg * a * xf[1], -sg * a * xf[0] * xf[0]), (sg * b, -sg * xf[0]), (sg * c * xf[0] * xf[1], -sg * d)]
    r = [sum(t) for t in terms]
    cancels = any(sum(abs(u) for u in t) > 0 and abs(sum(t)) <= F(1, 10 ** 6) * sum(abs(u) for u in t) for t in terms)
    return r, cancels


def oracle_lm_descent(meta, steps):
    """the property clause itself, on the implementation, in exact rationals: the objective 1/2|F|^2 never increases from one iterate to
    the next; <s, g> > 0 for the step s of the recorded system; the step is taken iff the trial objective does not exceed the current one"""
    for i, (x, M, g, x1) in enumerate(steps):
        r, c0 = lm_residual_exact(meta, x)
        r1, c1 = lm_residual_exact(meta, x1)
        f, f1 = sum(t * t for t in r) / 2, sum(t * t for t in r1) / 2
        if not (c0 or c1) and f1 > f * (1 + F(2, 10 ** 9)):
            return "LM iteration %d INCREASED the objective: 1/2|F(x_%d)|^2 = %.17g -> %.17g (x = %s -> %s)" % (i + 1, i, float(f), float(f1), x, x1)
        try:
            s = np.linalg.solve(np.array(M, dtype=float), np.array(g, dtype=float))
        except np.linalg.LinAlgError:
            continue
        if not np.all(np.isfinite(s)) or np.linalg.cond(np.array(M, dtype=float)) > 1e6:
            continue
        xt = fl(np.array(x, dtype=float) - s)
        rt, ct = lm_residual_exact(meta, xt)
        ft = sum(t * t for t in rt) / 2
        sg_ = float(np.dot(s, np.array(g, dtype=float)))
        if any(g) and sg_ <= 0:
            return "LM iteration %d: the step s of the recorded system has <s, g> = %.3e <= 0 (not a descent direction)" % (i + 1, sg_)
        if c0 or ct or abs(f - ft) <= F(1, 10 ** 9) * abs(f) or float(np.linalg.norm(s)) <= 1e-12 * float(np.linalg.norm(x)):
            continue
        moved = list(x1) != list(x)
        if moved != (ft <= f):
            return ("LM iteration %d %s a trial point with objective %.17g (current %.17g): the acceptance rule is not 'accept iff the objective does not increase'"
                    % (i + 1, "ACCEPTED" if moved else "REJECTED", float(ft), float(f)))
    return None


def case_lm_descent(meta):
    steps = drive_lm_rec(meta, meta["K"])
    obs = clist(["(%s, %s, %s, %s)" % (cqvec(x), cqmat(M), cqvec(g), cqvec(x1)) for x, M, g, x1 in steps])
    if meta["op"] == "lm_descent":
        expr = "check_lm_descent1 %s %s" % (clist(["(%s, %s, %s)" % (cq(a), cq(b), cq(c)) for a, b, c in meta["co"]]), obs)
        cell = "lm/descent/n1/%s/%s" % ("sparse" if meta["sparse"] else "dense", meta["cell"])
    else:
        pp = meta["p"]
        expr = "check_lm_descent2 %s %s %s %s %s %s" % (cq(pp.get("sigma", 1.0)), cq(pp["a"]), cq(pp["b"]), cq(pp["c"]), cq(pp["d"]), obs)
        cell = "lm/descent/n2/%s" % meta["cell"]
    fail = oracle_lm_descent(meta, steps)
    return Case(expr=expr, meta=meta, cell=cell, kind="EXACT", trivial=len(steps) < 1, impl_fail=fail, signature=SIG["lm_descent"] if fail else "")


EXIT_CLASSES = collections.Counter()


def case_exit(meta):
    """which of the three exits (residual clause / |x| tol >= 1 clause / iteration cap) the run took: class computed here from the OBSERVED
    point with numpy, compared with the class of the model's run; plus the postcondition of that exit on the observed point"""
    pc = meta["op"] == "pcgls_exit"
    x, k = (drive_pcgls if pc else drive_cgls)(meta, meta["maxit"], meta["tol"])
    tol, n = meta["tol"], len(meta["x0"])
    if pc:
        PinvT = np.linalg.inv(np.array(meta["P"], dtype=float)).T
        res = lambda v: PinvT @ ne_resid(meta["A"], meta["b"], 0.0, v)
    else:
        res = lambda v: ne_resid(meta["A"], meta["b"], meta["shift"], v)
    s0, sx, nx = float(np.linalg.norm(res(meta["x0"]))), float(np.linalg.norm(res(x))), float(np.linalg.norm(x))
    # 0.1% slack on the residual clause: the implementation tests the RECURRENCE residual, which differs from the residual recomputed at the
    # returned point by rounding (same slack as the certificate of check_cgls_solve); no additive floor (tol = 0 must stay 'never')
    res_ok, normx = bool(sx <= 1.001 * tol * s0), bool(nx * tol >= 1)
    cls = "R" if (k > 0 and res_ok) else ("X" if (k > 0 and normx) else "M")
    EXIT_CLASSES[("pcgls/" if pc else "cgls/") + cls] += 1
    fail = None
    if cls == "M" and k != meta["maxit"]:
        # a float run that stopped by a clause which then evaluates false on the returned rationals: only within rounding of the threshold
        if not (sx <= 1.001 * tol * s0 + 1e-12 * s0 or nx * tol >= 0.999):
            fail = "%s returned after k = %d < maxit = %d iterations although neither stopping clause holds at the returned point (|res| = %.3e, tol*|res0| = %.3e, |x|*tol = %.3g)" % (
                "PCGLS" if pc else "CGLS", k, meta["maxit"], sx, tol * s0, nx * tol)
    # first exit: the run cut after j < k iterations returns after exactly j iterations
    if fail is None and 1 < k <= 6:
        for j in range(1, k):
            kj = (drive_pcgls if pc else drive_cgls)(dict(meta, history=None), j, tol)[1]
            if kj != j:
                fail = "run with maxit = %d returned after %d iterations, the full run after %d" % (j, kj, k)
    if pc:
        expr = "check_pcgls_exit %s %s %s %s %s %s %s %s %s %s %s %s" % (
            cnat(n), cqmat(meta["A"]), cqvec(meta["b"]), cqvec(meta["x0"]), cqmat(meta["P"]), cqmat(frac_inverse(meta["P"])), cq(meta["shift"]),
            cnat(meta["maxit"]), cq(tol), cnat(k), cbool(res_ok), cbool(normx))
    else:
        expr = "check_cgls_exit %s %s %s %s %s %s %s %s %s %s" % (
            cnat(n), cqmat(meta["A"]), cqvec(meta["b"]), cqvec(meta["x0"]), cq(meta["shift"]), cnat(meta["maxit"]), cq(tol), cnat(k), cbool(res_ok), cbool(normx))
    return Case(expr=expr, meta=meta, cell="%s/exit/%s/%s" % ("pcgls" if pc else "cgls", meta.get("form", "dense"), meta.get("exitcell", meta.get("stopcell", "tol"))),
                trivial=not any(meta["b"]) and not any(meta["x0"]), kind="DECISION", impl_fail=fail,
                signature=(SIG["pcgls"] if pc else SIG["cgls"]) if fail else "")


def case_pcgls_as_cgls(meta):
    """PCGLS started at x0 = z0 against CGLS of the preconditioned operator A P^-1 (shift 0) started at y0 = P z0: x_k = P^-1 y_k.
    Model side: the model's CGLS on the composed operator; implementation side (metamorphic, no model): cuqi's own CGLS with callables"""
    S = solver_mod()
    K, n = meta["K"], len(meta["x0"])
    obs = [drive_pcgls(meta, j, 0.0)[0] for j in range(K + 1)]
    P = np.array(meta["P"], dtype=float); A = np.array(meta["A"], dtype=float)
    y0 = [int(v) for v in (np.array(meta["P"], dtype=int) @ np.array(meta["x0"], dtype=int))]
    Pinv = frac_inverse(meta["P"])
    Pi = np.array([[float(v) for v in row] for row in Pinv])
    op = lambda v, flag: (A @ (Pi @ v)) if flag == 1 else (Pi.T @ (A.T @ v))
    fail = None
    for j in range(min(K, 2) + 1):
        with np.errstate(all="ignore"):
            y, kj = S.CGLS(op, np.array(meta["b"], dtype=float), np.array(y0, dtype=float), j, 0.0, 0).solve()
        xj = Pi @ np.asarray(y, dtype=float)
        if not np.allclose(xj, np.array(obs[j], dtype=float), rtol=1e-6, atol=1e-6 * (1 + float(np.max(np.abs(obs[j]))))):
            fail = "PCGLS iterate %d = %s differs from P^-1 * (CGLS iterate of the operator A P^-1 from y0 = P x0) = %s" % (j, obs[j], fl(xj))
            break
    expr = "check_pcgls_as_cgls %s %s %s %s %s %s %s" % (cnat(n), cqmat(meta["A"]), cqvec(meta["b"]), cqvec(y0), cqmat(meta["P"]), cqmat(Pinv),
                                                         clist([cqvec(o) for o in obs]))
    return Case(expr=expr, meta=meta, cell="pcgls/as-cgls/%s/%s/%s/%s" % (meta["shape"], meta["form"], meta["pkind"], meta["pinv"]),
                trivial=not any(meta["b"]) and not any(meta["x0"]), kind="EXACT", impl_fail=fail, signature=SIG["pcgls"] if fail else "")


BUILDERS = {
    "cgls_iters": case_cgls_iters, "cgls_solve": case_cgls_solve, "pcgls_iters": case_pcgls_iters, "pcgls_solve": case_pcgls_solve,
    "fista_runs": case_fista_runs, "fista_defaults": case_fista_defaults, "fista_conv": case_fista_conv, "lm_iters": case_lm_iters, "lm_trace": case_lm_trace, "lm_trace2": case_lm_trace2, "lm_conv1": case_lm_conv, "lm_conv2": case_lm_conv, "lm_conv3": case_lm_conv, "lm_convz": case_lm_conv,
    "minimize": case_minimize, "maximize": case_minimize, "lbfgsb": case_lbfgsb, "ls": case_ls,
    "lm_descent": case_lm_descent, "lm_descent2": case_lm_descent, "cgls_exit": case_exit, "pcgls_exit": case_exit, "pcgls_as_cgls": case_pcgls_as_cgls,
}


def _build_case(meta, rng):
    if meta["op"] in ("prox_l1", "nonneg", "box"):
        return case_prox(meta, rng)
    return BUILDERS[meta["op"]](meta)


HIST_CLASS = {"cgls": "CGLS", "pcgls": "PCGLS", "fista": "FISTA", "lm": "LM", "minimize": "minimize", "maximize": "maximize", "lbfgsb": "L_BFGS_B", "ls": "LS"}


def hist_label(meta):
    h = meta.get("history")
    if not h:
        return ""
    return "/history:%s%s" % (h["mode"], ("(" + ",".join(h.get("attrs", h.get("shared", []))) + ")") if h["mode"] != "repeat" else "")


def build_case(meta, rng):
    c = build_case0(meta, rng)
    if meta.get("history"):
        c.cell = c.cell + hist_label(meta)
    return c


def build_case0(meta, rng):
    """a non-finite result or an exception escaping the implementation on a generated (well-conditioned, finite) problem is a
    failure of the property with this input as the concrete witness -- not a crash of the generator"""
    try:
        return _build_case(meta, rng)
    except HistoryMismatch as e:
        return Case(expr="false", meta=meta, cell="history-mismatch/%s" % meta.get("op", "?"), kind="DECISION", impl_fail=str(e)[:600],
                    signature=classify(meta, str(e)))
    except Exception as e:
        what = ("returned a non-finite value" if "non-finite" in str(e) else "raised %s" % type(e).__name__)
        return Case(expr="false", meta=meta, cell="abnormal/%s" % meta.get("op", "?"), kind="DECISION",
                    impl_fail="%s %s on a finite well-conditioned input: %r" % (meta.get("op"), what, str(e)[:300]),
                    signature=classify(meta, str(e)))


# ------------------------------------------------------------------------------------------
# the generator: explicit enumeration of the configuration lattice
# ------------------------------------------------------------------------------------------
SHIFTS_POS = [0.5, 1.0, 2.0, 0.25]
DY = [F(k, 8) for k in range(-24, 25)]


def gen_lsq_meta(rng, shape, shiftcell, start, form):
    m, n = shape_of(rng, shape)
    shift = 0.0 if shiftcell == "0" else rng.choice(SHIFTS_POS)
    A = gen_matrix(rng, m, n, shift)
    b = [rng.randint(-5, 5) for _ in range(m)]
    if not any(b):
        b[0] = 1
    x0 = [0] * n if start == "zero" else [rng.randint(-4, 4) for _ in range(n)]
    return {"A": A.astype(int).tolist(), "b": b, "x0": x0, "shift": shift, "form": form, "shape": shape, "start": start}


def scale_lsq(me, sA, sb):
    """A * sA, b * sb, shift * sA^2 (dyadic: exact); the solution scales by sb/sA, the conditioning is unchanged"""
    me = dict(me)
    me["A"] = [[v * sA for v in row] for row in me["A"]]
    me["b"] = [v * sb for v in me["b"]]
    if "shift" in me:
        me["shift"] = me["shift"] * sA * sA
    me["scaleA"], me["scaleb"] = sA, sb
    return me


def metas(ctx):
    rng = ctx.rng
    out = []
    reps = ctx.n(1, 5)
    # ---- CGLS ----
    for shape, shiftcell, start, form in itertools.product(["over", "square", "under"], ["0", "+"], ["zero", "random"],
                                                           ["dense", "sparse", "fun", "fun-sparse"]):
        for _ in range(reps):
            me = gen_lsq_meta(rng, shape, shiftcell, start, form)
            m, n = len(me["A"]), len(me["x0"])
            out.append(dict(me, op="cgls_iters", K=min(m, n) + 1))
            for stopcell in ["tol1e-6", "tol2^-10", "maxit", "normx"]:
                if stopcell in ("maxit", "normx") and form in ("sparse", "fun-sparse") and not ctx.thorough:
                    continue
                me2 = gen_lsq_meta(rng, shape, shiftcell, start, form)
                if stopcell == "tol1e-6":
                    me2.update(tol=1e-6, maxit=100)
                elif stopcell == "tol2^-10":
                    me2.update(tol=2.0 ** -10, maxit=100)
                elif stopcell == "maxit":
                    me2.update(tol=2.0 ** -30, maxit=rng.randint(0, 2))
                else:
                    me2.update(tol=0.25, maxit=100)
                    me2["x0"] = [rng.choice([-1, 1]) * rng.randint(3, 9) for _ in me2["x0"]]
                    me2["start"] = "random"
                out.append(dict(me2, op="cgls_solve", stopcell=stopcell))
            # data SCALE (dyadic factors keep the data exact): the stopping rule is RELATIVE to |s_0| and the recurrences are homogeneous;
            # b * s, A * s (shift * s^2 so that the conditioning is that of the unscaled problem), both
            if form in ("dense", "fun") or ctx.thorough:
                for sc_name, sA, sb in [("rhs*2^-30", 1.0, 2.0 ** -30), ("rhs*2^10", 1.0, 2.0 ** 10), ("A*2^-15", 2.0 ** -15, 1.0), ("A*2^15", 2.0 ** 15, 1.0),
                                        ("both*2^-30", 2.0 ** -30, 2.0 ** -30), ("both*2^30", 2.0 ** 30, 2.0 ** 30)]:
                    me3 = scale_lsq(gen_lsq_meta(rng, shape, shiftcell, "zero", form), sA, sb)
                    me3.update(tol=1e-6, maxit=100, start="zero")
                    out.append(dict(me3, op="cgls_solve", stopcell="tol1e-6/" + sc_name))
                    if sA != 1.0 and form == "dense":
                        me4 = scale_lsq(gen_lsq_meta(rng, shape, shiftcell, start, form), sA, sb)
                        me4["x0"] = [v * sb / sA for v in me4["x0"]]
                        out.append(dict(me4, op="cgls_iters", K=min(len(me4["A"]), len(me4["x0"])) + 1, start=start + "/" + sc_name))
    # degenerate starts: x0 already the solution (gamma_0 = 0), zero right-hand side
    for form in ["dense", "fun"]:
        A = [[1, 0], [0, 2], [0, 0]]
        out.append({"op": "cgls_solve", "A": A, "b": [3, 4, 5], "x0": [3, 2], "shift": 0.0, "form": form, "shape": "over", "start": "solution",
                    "tol": 1e-6, "maxit": 10, "stopcell": "gamma0=0"})
        out.append({"op": "cgls_solve", "A": A, "b": [0, 0, 0], "x0": [0, 0], "shift": 1.0, "form": form, "shape": "over", "start": "zero",
                    "tol": 1e-6, "maxit": 10, "stopcell": "gamma0=0"})
    # ---- function handles that hand back their argument / a view of it / a persistent buffer (CGLS, PCGLS, FISTA, ISTA) ----
    def alias_meta(form, shiftcell, start):
        n = rng.randint(2, 4)
        shift = 0.0 if shiftcell == "0" else rng.choice(SHIFTS_POS)
        if form.startswith("fun-ident"):
            A, shape = np.eye(n, dtype=int), "square"
        else:
            shape = "square" if form == "fun-buffer-shared" else rng.choice(["over", "square", "under"])
            m_, n = shape_of(rng, shape)
            if shape == "square":
                n = m_ = max(n, 2)
            A = gen_matrix(rng, m_, n, shift).astype(int)
        m_ = len(A)
        b = [rng.randint(-5, 5) for _ in range(m_)]
        if not any(b):
            b[0] = 1
        x0 = [0] * n if start == "zero" else [rng.randint(-4, 4) for _ in range(n)]
        return {"A": np.asarray(A).tolist(), "b": b, "x0": x0, "shift": shift, "form": form, "shape": shape, "start": start}
    for form, shiftcell in itertools.product(ALIAS_IDENT_FORMS + ["fun-buffer", "fun-buffer-shared"], ["0", "+"]):
        for _ in range(reps):
            me = alias_meta(form, shiftcell, "random")
            out.append(dict(me, op="cgls_iters", K=min(len(me["A"]), len(me["x0"])) + 1))
            out.append(dict(alias_meta(form, shiftcell, rng.choice(["zero", "random"])), op="cgls_solve", tol=1e-6, maxit=100, stopcell="tol1e-6"))
            mp = alias_meta(form, "0", "random")
            n = len(mp["x0"])
            mp.update(P=gen_precond(rng, n, "general").astype(int).tolist(), pkind="general", pinv=rng.choice(["explicit", "spsolve"]),
                      shift=0.0 if shiftcell == "0" else rng.choice(SHIFTS_POS))
            if shiftcell == "0":
                out.append(dict(mp, op="pcgls_iters", K=min(len(mp["A"]), n) + 1))
            out.append(dict(mp, op="pcgls_solve", tol=1e-6, maxit=100))
            if shiftcell == "0":
                for adaptive in [True, False]:
                    mf = alias_meta(form, "0", "random")
                    Af = np.array(mf["A"], dtype=float)
                    pc, pk = rng.choice([("l1", {"kind": "l1", "strength": 1, "direct": True}), ("nonneg", {"kind": "nonneg"}),
                                         ("box-none", {"kind": "box", "lo": None, "up": None})])
                    mf.update(prox=pk, proxcell=pc, adaptive=adaptive, t=2.0 ** -int(np.ceil(np.log2(float(np.sum(Af * Af))))), stepcell="dyadic")
                    del mf["shift"]
                    out.append(dict(mf, op="fista_runs", K=6, abstol=0.0))
                    out.append(dict(mf, op="fista_conv", maxit=200000, abstol=1e-8))
    # ---- PCGLS ----
    for shape, pkind, (form, pinv), shiftcell in itertools.product(["over", "square"], ["identity", "diagonal", "triangular", "general"],
                                                                   [("dense", "explicit"), ("fun", "explicit"), ("sparse", "spsolve"), ("dense", "spsolve")],
                                                                   ["0", "+"]):
        for _ in range(reps):
            me = gen_lsq_meta(rng, shape, "0", rng.choice(["zero", "random"]), form)
            if len(me["x0"]) < 2:
                me = gen_lsq_meta(rng, shape, "0", "random", form)
            tries = 0
            while len(me["x0"]) < 2 and tries < 50:
                me = gen_lsq_meta(rng, shape, "0", "random", form); tries += 1
            n = len(me["x0"])
            P = gen_precond(rng, n, pkind)
            me.update(P=P.astype(int).tolist(), pkind=pkind, pinv=pinv, shift=0.0 if shiftcell == "0" else rng.choice(SHIFTS_POS))
            if shiftcell == "0":
                out.append(dict(me, op="pcgls_iters", K=min(len(me["A"]), n) + 1))
            out.append(dict(me, op="pcgls_solve", tol=1e-6, maxit=100))
            if (form, pinv) in [("dense", "explicit"), ("fun", "explicit")] and pkind in ("identity", "general"):
                # the clause |x|*tol >= 1 is about the CURRENT iterate: a large start (|x0|*tol >= 1) with a small solution must not stop the run
                mn = dict(me, b=[rng.randint(-1, 1) for _ in me["b"]], x0=[rng.choice([-1, 1]) * rng.randint(9, 15) for _ in me["x0"]], start="large")
                if not any(mn["b"]):
                    mn["b"][0] = 1
                mn["pkind"] = pkind + "/normx-shrinking"
                out.append(dict(mn, op="pcgls_solve", tol=2.0 ** -4, maxit=100))
                if shiftcell == "0":
                    mc = {k_: v_ for k_, v_ in mn.items() if k_ not in ("P", "pkind", "pinv")}
                    out.append(dict(mc, op="cgls_solve", tol=2.0 ** -4, maxit=100, stopcell="normx-shrinking"))
            if shiftcell == "0" and (form, pinv) in [("dense", "explicit"), ("sparse", "spsolve")] and (pkind in ("diagonal", "general") or ctx.thorough):
                sc_name, sA, sb = rng.choice([("rhs*2^-30", 1.0, 2.0 ** -30), ("rhs*2^30", 1.0, 2.0 ** 30), ("A*2^-15", 2.0 ** -15, 1.0), ("A*2^15", 2.0 ** 15, 1.0),
                                              ("both*2^30", 2.0 ** 30, 2.0 ** 30)])
                mes = scale_lsq(me, sA, sb)
                mes["x0"] = [v * sb / sA for v in mes["x0"]]
                mes["pkind"] = pkind + "/" + sc_name
                out.append(dict(mes, op="pcgls_iters", K=min(len(mes["A"]), n) + 1))
                out.append(dict(mes, op="pcgls_solve", tol=1e-6, maxit=100))
    # ---- FISTA / ISTA ----
    proxcells = [("l1", lambda: {"kind": "l1", "strength": 1, "direct": True}),
                 ("l1*s", lambda: {"kind": "l1", "strength": rng.choice([0.5, 2, 0.25, 4])}),
                 ("nonneg", lambda: {"kind": "nonneg"}),
                 ("box-none", lambda: {"kind": "box", "lo": None, "up": None}),
                 ("box-scalar", lambda: {"kind": "box", "lo": rng.choice([-1.0, -0.5, 0.0]), "up": rng.choice([0.5, 1.0, 2.0])}),
                 ("box-vector", None)]
    for (pc, mk), adaptive, form, shape, stepcell in itertools.product(proxcells, [True, False], ["dense", "fun", "sparse"], ["over", "under"], ["dyadic", "float"]):
        if not ctx.thorough and ((form == "sparse" and stepcell == "float") or (form == "fun" and shape == "under" and stepcell == "float")):
            continue
        for _ in range(reps):
            me = gen_lsq_meta(rng, shape, "0", rng.choice(["zero", "random"]), form)
            n = len(me["x0"])
            A = np.array(me["A"], dtype=float)
            fro2 = float(np.sum(A * A))
            L = float(np.linalg.norm(A, 2) ** 2)
            t = 2.0 ** -int(np.ceil(np.log2(fro2))) if stepcell == "dyadic" else rng.choice([0.99, 0.5, 0.9]) / L
            if pc == "box-vector":
                lo = [rng.randint(-3, 0) / 2 for _ in range(n)]
                pk = {"kind": "box", "lo": lo, "up": [l + rng.randint(0, 4) / 2 for l in lo]}
            else:
                pk = mk()
            me.update(prox=pk, proxcell=pc, adaptive=adaptive, t=t, stepcell=stepcell)
            del me["shift"]
            out.append(dict(me, op="fista_runs", K=6, abstol=0.0))
            if form == "dense" and stepcell == "dyadic":
                out.append(dict(me, op="fista_conv", maxit=200000, abstol=1e-8))
                if pc in ("l1", "nonneg") and shape == "over":
                    # abstol is an ABSOLUTE tolerance on |x_new - x_old|: a large right-hand side (|x| ~ 2^12) separates it from a relative one
                    me4 = dict(me, b=[v * 2.0 ** 12 for v in me["b"]], x0=[0] * n, start="zero")
                    out.append(dict(me4, op="fista_conv", maxit=400000, abstol=1e-6, proxcell=pc + "/rhs*2^12"))
    # data scale: A * sA, b * sb; step, regularisation strength, box and abstol follow the scale (t ~ 1/sA^2, lambda ~ sA sb, x ~ sb/sA)
    for (pc, adaptive), (sc_name, sA, sb) in zip(itertools.product(["l1*s", "nonneg", "box-scalar"], [True, False]),
                                                 [("A*2^-10", 2.0 ** -10, 1.0), ("A*2^10", 2.0 ** 10, 1.0), ("rhs*2^-20", 1.0, 2.0 ** -20), ("rhs*2^20", 1.0, 2.0 ** 20),
                                                  ("both*2^15", 2.0 ** 15, 2.0 ** 15), ("A*2^8,rhs*2^-8", 2.0 ** 8, 2.0 ** -8)]):
        for _ in range(reps):
            me = scale_lsq(gen_lsq_meta(rng, "over", "0", "zero", "dense"), sA, sb)
            n = len(me["x0"])
            A = np.array(me["A"], dtype=float)
            xs_ = sb / sA
            pk = ({"kind": "l1", "strength": rng.choice([0.5, 2, 1]) * sA * sb} if pc == "l1*s" else {"kind": "nonneg"} if pc == "nonneg"
                  else {"kind": "box", "lo": rng.choice([-1.0, -0.5, 0.0]) * xs_, "up": rng.choice([0.5, 1.0, 2.0]) * xs_})
            me.update(prox=pk, proxcell=pc + "/" + sc_name, adaptive=adaptive, t=2.0 ** -int(np.ceil(np.log2(float(np.sum(A * A))))), stepcell="dyadic")
            del me["shift"]
            out.append(dict(me, op="fista_runs", K=6, abstol=0.0))
            out.append(dict(me, op="fista_conv", maxit=400000, abstol=1e-8 * xs_))
    # abstol that fires early, maxit <= 1
    for adaptive in [True, False]:
        me = gen_lsq_meta(rng, "over", "0", "random", "dense")
        A = np.array(me["A"], dtype=float)
        me.update(prox={"kind": "l1", "strength": 1, "direct": True}, proxcell="l1", adaptive=adaptive, t=2.0 ** -int(np.ceil(np.log2(np.sum(A * A)))), stepcell="dyadic")
        del me["shift"]
        out.append(dict(me, op="fista_runs", K=5, abstol=0.125))
        out.append(dict(me, op="fista_runs", K=3, abstol=64.0))
    # ---- projections and soft-thresholding ----
    for _ in range(ctx.n(60, 300)):
        n = rng.randint(1, 6)
        x = [float(rng.choice(DY)) for _ in range(n)]
        gcell = rng.choice(["pos", "pos", "pos", "zero", "tie", "neg"])
        gamma = {"pos": float(rng.choice(DY[25:])), "zero": 0.0, "tie": abs(x[0]), "neg": -float(rng.choice(DY[25:]))}[gcell]
        out.append({"op": "prox_l1", "x": x, "gamma": gamma, "cell": gcell})
        out.append({"op": "nonneg", "x": x, "cell": "vec"})
        for bc in ["none-none", "none-scalar", "scalar-none", "scalar-scalar", "vector-vector", "vector-none", "scalar-vector", "lo>up"]:
            if rng.random() < (0.35 if not ctx.thorough else 1):
                lo_k, up_k = (bc.split("-") if bc != "lo>up" else ("vector", "vector"))
                lo = None if lo_k == "none" else (float(rng.choice(DY[:30])) if lo_k == "scalar" else [float(rng.choice(DY[:30])) for _ in range(n)])
                base = lo if isinstance(lo, list) else [0.0 if lo is None else lo] * n
                up = None if up_k == "none" else (float(max(base)) + float(rng.choice(DY[24:])) if up_k == "scalar" else [bb + float(rng.choice(DY[24:])) for bb in base])
                if bc == "lo>up":
                    up = [bb - 0.5 for bb in base]
                out.append({"op": "box", "x": x, "lo": lo, "up": up, "cell": bc})
    # permanent cells: ProjectBox x every combination lower in {None, scalar, vector} x upper in {None, scalar, vector} (+ given by keyword / position is
    # the same call); ProximalL1 x gamma {0, tie, positive}; ProjectNonnegative
    for lo_k, up_k in itertools.product(["none", "scalar", "vector"], repeat=2):
        for _ in range(2):
            n = rng.randint(2, 5)
            x = [float(rng.choice(DY)) for _ in range(n)]
            x[0], x[1] = -2.5, 2.5                                   # both sides are exercised: below every lower bound used here, above every upper one
            lo = None if lo_k == "none" else (-0.5 if lo_k == "scalar" else [float(rng.choice([-1.0, -0.5, 0.25])) for _ in range(n)])
            base = lo if isinstance(lo, list) else [0.0 if lo is None else lo] * n
            up = None if up_k == "none" else (float(max(base)) + 0.75 if up_k == "scalar" else [bb + float(rng.choice([0.25, 0.5, 1.5])) for bb in base])
            out.append({"op": "box", "x": x, "lo": lo, "up": up, "cell": "permanent/%s-%s" % (lo_k, up_k)})
    for gcell, gamma in [("zero", 0.0), ("tie", 2.5), ("pos", 0.75)]:
        out.append({"op": "prox_l1", "x": [-2.5, 2.5, 0.0, 0.5, -0.75], "gamma": gamma, "cell": "permanent/" + gcell})
    out.append({"op": "nonneg", "x": [-2.5, 2.5, 0.0, -0.0, 0.5], "cell": "permanent"})
    # ---- LM ----
    for sparse, cell in itertools.product([False, True], ["mild", "strong", "nu0-large"]):
        for _ in range(ctx.n(3, 30)):
            co = [(rng.randint(0, 1) if cell == "mild" else rng.randint(1, 3), rng.randint(1, 4) * rng.choice([-1, 1]), rng.randint(-5, 5)) for _ in range(rng.randint(1, 3))]
            x0 = float(rng.randint(-4, 4)) / 2
            nu0 = 4.0 if cell == "nu0-large" else 2.0 ** -10
            me = {"co": co, "x0": x0, "nu0": nu0, "sparse": sparse, "cell": cell}
            out.append(dict(me, op="lm_iters", K=ctx.n(3, 4)))
            out.append(dict(me, op="lm_conv1", maxit=10000, gradtol=1e-8, cell="n1/" + cell))
    for _ in range(ctx.n(6, 60)):
        p = {"a": rng.randint(1, 10), "b": rng.randint(-2, 2), "c": rng.randint(0, 2), "d": rng.randint(-2, 2)}
        out.append({"op": "lm_conv2", "p": p, "x0": [rng.randint(-2, 2), rng.randint(-2, 2)], "maxit": 10000, "gradtol": 1e-8, "cell": "n2"})
    # ---- LM: residual SCALE x relative floor rho = nu0/sigma^2, step-by-step nu/step/accept traces, stationarity also AT maxit ----
    # engineered one-unknown problems (found by a search over traces of the unchanged implementation) that between them visit
    # every combination accept/reject x (nu >= nu0 | 0 < nu < nu0 | nu == 0); label = the rarest branch they were picked for
    for sparse in [False, True]:
        for lab, k, co, x0, nu0 in LM_CORPUS:
            rho = nu0 / 4.0 ** k
            me = {"co": [list(c) for c in co], "x0": x0, "nu0": nu0, "sparse": sparse, "sigma": 2.0 ** k, "cell": "engineered/%s/sigma2^%d" % (lab, k)}
            if sparse and not ctx.thorough and not lab.startswith("reject@nu=0"):
                continue
            out.append(dict(me, op="lm_trace", K=ctx.n(16, 40)))
            if rho <= 16:
                out.append(dict(me, op="lm_conv1", maxit=5000, gradtol=1e-6, must_converge=True, use_nu0=True, rho_class="harmless",
                                cell="n1/engineered/%s/sigma2^%d" % (lab, k)))
                if not sparse:
                    # the same problems through residual/Jacobian callables that return persistent buffers
                    out.append(dict(me, op="lm_conv1", maxit=5000, gradtol=1e-6, must_converge=True, use_nu0=True, rho_class="harmless", callable="buffer",
                                    cell="n1/buffer-callables/%s/sigma2^%d" % (lab, k)))
    LM_SCALES = [-10, -5, 0, 5, 10]
    LM_RHOS = [-20, -10, -3, 3]            # log2(nu0 / sigma^2): the floor is harmless (the unchanged code converges on all of these)
    for k, lr, sparse in itertools.product(LM_SCALES, LM_RHOS, [False, True]):
        if not ctx.thorough and sparse and (k, lr) not in [(-10, -3), (0, 3), (10, -10)]:
            continue
        sg = 2.0 ** k
        for _ in range(ctx.n(1, 4)):
            co = [[rng.randint(0, 3) * sg, rng.randint(-4, 4) * sg, rng.randint(-6, 6) * sg] for _ in range(rng.randint(1, 3))]
            if not any(c[0] or c[1] for c in co):
                co[0][1] = sg
            me = {"co": co, "x0": rng.randint(-8, 8) / 2, "nu0": 2.0 ** lr * sg * sg, "sparse": sparse, "sigma": sg,
                  "cell": "sigma2^%d/rho2^%d" % (k, lr)}
            out.append(dict(me, op="lm_trace", K=ctx.n(12, 30)))
            out.append(dict(me, op="lm_conv1", maxit=5000, gradtol=1e-6, must_converge=True, use_nu0=True, rho_class="harmless", cell="n1/sigma2^%d/rho2^%d" % (k, lr)))
    # two unknowns (Rosenbrock residuals and the random family) x residual scale x relative floor; oracle: stationarity before OR at maxit
    for k, lr in itertools.product(LM_SCALES + [None], LM_RHOS):
        sg = 0.03 if k is None else 2.0 ** k
        for which in ["rosenbrock", "random"]:
            if which == "rosenbrock":
                pp, x0 = {"a": 10, "b": 1, "c": 0, "d": 0, "sigma": sg}, rng.choice([[-1.2, 1.0], [0.0, 0.0], [2.0, -1.0]])
            else:
                pp = {"a": rng.randint(1, 10), "b": rng.randint(-2, 2), "c": rng.randint(0, 2), "d": rng.randint(-2, 2), "sigma": sg}
                x0 = [rng.randint(-2, 2), rng.randint(-2, 2)]
            out.append({"op": "lm_conv2", "p": pp, "x0": x0, "nu0": 2.0 ** lr * sg * sg, "use_nu0": True, "maxit": 5000, "gradtol": 1e-6,
                        "must_converge": True, "rho_class": "harmless", "cell": "n2/%s/sigma%s/rho2^%d" % (which, "0.03" if k is None else "2^%d" % k, lr)})
    # the library's default floor nu0 = 1e-3 with residuals in small units: rho >= 2^10, the floor dominates J^T J (known finding class)
    for k in [-10, -7]:
        sg = 2.0 ** k
        out.append({"op": "lm_conv2", "p": {"a": 10, "b": 1, "c": 0, "d": 0, "sigma": sg}, "x0": [-1.2, 1.0], "maxit": 5000, "gradtol": 1e-6,
                    "must_converge": True, "rho_class": "floor-dominates", "cell": "n2/rosenbrock/sigma2^%d/default-nu0" % k})
    # ---- HISTORY: the solver object is a function of the attribute values it holds when solve() is called ----
    def alt_matrix(A):
        """another matrix of the same shape and the same Frobenius norm (rows reversed, alternating signs): step sizes stay valid"""
        A = [list(r) for r in A][::-1]
        return [[(-v if i % 2 == 0 else v) for v in r] for i, r in enumerate(A)] if len(A) > 1 else [[-v for v in r] for r in A]
    def alt_vec(v, lo=-5, hi=5):
        w = [rng.randint(lo, hi) for _ in v]
        if w == list(v):
            w[0] += 1
        return w
    for form, shape in [("dense", "over"), ("sparse", "over"), ("fun", "over"), ("dense", "under")]:
        me = gen_lsq_meta(rng, shape, "+", "random", form)
        firsts = {"A": alt_matrix(me["A"]), "b": alt_vec(me["b"]), "x0": alt_vec(me["x0"], -4, 4), "shift": me["shift"] * 4 + 0.5, "tol": 2.0 ** -3, "maxit": 2}
        hmodes = ([{"mode": "repeat"}] + [{"mode": "reassign", "attrs": at, "first": {k_: firsts[k_] for k_ in at}}
                                          for at in (["b"], ["A"], ["x0"], ["shift"], ["tol", "maxit"], ["A", "b", "x0", "shift", "tol", "maxit"])]
                  + [{"mode": "shared", "shared": ["A", "b"], "first": {"x0": firsts["x0"], "shift": firsts["shift"]}}]
                  # round-4 lessons: arrays overwritten IN PLACE by the caller between solves; copy.copy of the solver; reuse after an exception
                  + [{"mode": "inplace", "attrs": ["b", "x0"] + (["A"] if form == "dense" else []), "first": {k_: firsts[k_] for k_ in ["b", "x0"] + (["A"] if form == "dense" else [])}},
                     {"mode": "copy", "attrs": ["b", "shift"], "first": {"b": firsts["b"], "shift": firsts["shift"]}}]
                  + ([{"mode": "after_raise", "raiser": "A", "attrs": ["A"], "first": {}}] if form == "fun" else []))
        for hm in hmodes:
            if form != "dense" and hm["mode"] == "reassign" and len(hm["attrs"]) == 1 and hm["attrs"][0] in ("shift", "x0") and not ctx.thorough:
                continue
            out.append(dict(me, op="cgls_solve", tol=1e-6, maxit=100, stopcell="tol1e-6", history=hm))
        out.append(dict(me, op="cgls_iters", K=min(len(me["A"]), len(me["x0"])) + 1,
                        history={"mode": "reassign", "attrs": ["A", "b", "maxit"], "first": {"A": firsts["A"], "b": firsts["b"], "maxit": 1}}))
        # PCGLS (underscore attributes; P^-1 is cached by the constructor, so P itself is never re-assigned)
        if shape == "over" and form in ("dense", "fun"):
            mp = gen_lsq_meta(rng, shape, "0", "random", form)
            while len(mp["x0"]) < 2:
                mp = gen_lsq_meta(rng, shape, "0", "random", form)
            mp.update(P=gen_precond(rng, len(mp["x0"]), "general").astype(int).tolist(), pkind="general", pinv="explicit")
            fp = {"b": alt_vec(mp["b"]), "x0": alt_vec(mp["x0"], -4, 4), "tol": 2.0 ** -3, "maxit": 2}
            for hm in [{"mode": "repeat"}, {"mode": "reassign", "attrs": ["b"], "first": {"b": fp["b"]}}, {"mode": "reassign", "attrs": ["x0"], "first": {"x0": fp["x0"]}},
                       {"mode": "reassign", "attrs": ["tol", "maxit"], "first": {"tol": fp["tol"], "maxit": fp["maxit"]}},
                       {"mode": "shared", "shared": ["A", "b", "P"], "first": {"x0": fp["x0"]}}]:
                out.append(dict(mp, op="pcgls_solve", tol=1e-6, maxit=100, history=hm))
        # FISTA / ISTA
        mf = gen_lsq_meta(rng, shape, "0", "random", form)
        Af = np.array(mf["A"], dtype=float)
        adaptive = rng.choice([True, False])
        pc, pk = rng.choice([("l1", {"kind": "l1", "strength": 1, "direct": True}), ("nonneg", {"kind": "nonneg"}), ("box-scalar", {"kind": "box", "lo": -0.5, "up": 1.0})])
        mf.update(prox=pk, proxcell=pc, adaptive=adaptive, t=2.0 ** -int(np.ceil(np.log2(float(np.sum(Af * Af))))), stepcell="dyadic")
        del mf["shift"]
        ff = {"A": alt_matrix(mf["A"]), "b": alt_vec(mf["b"]), "x0": alt_vec(mf["x0"], -4, 4), "prox": {"kind": "l1", "strength": 2} if pc != "l1" else {"kind": "nonneg"},
              "t": mf["t"] / 4, "abstol": 0.5, "adaptive": not adaptive, "maxit": 20}
        fmodes = ([{"mode": "repeat"}] + [{"mode": "reassign", "attrs": at + ["maxit"], "first": dict({k_: ff[k_] for k_ in at}, maxit=20)}
                                          for at in (["b"], ["A"], ["x0"], ["prox"], ["t"], ["abstol"], ["adaptive"], ["A", "b", "x0", "prox", "t", "abstol", "adaptive"])]
                  + [{"mode": "shared", "shared": ["A", "b"], "first": {"x0": ff["x0"]}}]
                  + [{"mode": "inplace", "attrs": ["b", "x0"] + (["A"] if form == "dense" else []), "first": {k_: ff[k_] for k_ in ["b", "x0"] + (["A"] if form == "dense" else [])}},
                     {"mode": "copy", "attrs": ["b"], "first": {"b": ff["b"]}},
                     {"mode": "after_raise", "raiser": "prox", "attrs": ["prox"], "first": {}}])
        for hm in fmodes:
            out.append(dict(mf, op="fista_conv", maxit=200000, abstol=1e-8, history=hm))
        out.append(dict(mf, op="fista_runs", K=4, abstol=0.0, history={"mode": "reassign", "attrs": ["A", "b", "maxit"], "first": {"A": ff["A"], "b": ff["b"], "maxit": 3}}))
    # LM
    for lab, k, co, x0_, nu0 in [LM_CORPUS[0], LM_CORPUS[4]]:
        me = {"co": [list(c) for c in co], "x0": x0_, "nu0": nu0, "sparse": False, "sigma": 2.0 ** k, "maxit": 5000, "gradtol": 1e-6, "must_converge": True,
              "use_nu0": True, "rho_class": "harmless", "cell": "n1/engineered/%s/sigma2^%d" % (lab, k)}
        fl_ = {"co": [[c[0], c[1] * 2, c[2] + 2.0 ** k] for c in co], "x0": [x0_ + 1.5], "nu0": nu0 * 4, "gradtol": 0.5, "maxit": 2}
        for hm in [{"mode": "repeat"}, {"mode": "reassign", "attrs": ["F", "J"], "first": {"co": fl_["co"]}}, {"mode": "reassign", "attrs": ["x0"], "first": {"x0": fl_["x0"]}},
                   {"mode": "reassign", "attrs": ["nu0"], "first": {"nu0": fl_["nu0"]}}, {"mode": "reassign", "attrs": ["gradtol", "maxit"], "first": {"gradtol": 0.5, "maxit": 2}},
                   {"mode": "reassign", "attrs": ["F", "J", "x0", "nu0", "gradtol", "maxit"], "first": fl_},
                   {"mode": "inplace", "attrs": ["x0"], "first": {"x0": fl_["x0"]}}, {"mode": "copy", "attrs": ["x0", "nu0"], "first": {"x0": fl_["x0"], "nu0": fl_["nu0"]}},
                   {"mode": "after_raise", "raiser": "F", "attrs": ["F"], "first": {}}]:
            out.append(dict(me, op="lm_conv1", history=hm))
    pr = {"a": 10, "b": 1, "c": 0, "d": 0, "sigma": 0.03}
    for hm in [{"mode": "repeat"}, {"mode": "reassign", "attrs": ["F", "J", "x0"], "first": {"p": {"a": 3, "b": -1, "c": 1, "d": 1, "sigma": 1.0}, "x0": [0.5, 0.5]}}]:
        out.append({"op": "lm_conv2", "p": pr, "x0": [-1.2, 1.0], "nu0": 2.0 ** -3 * 0.03 * 0.03, "use_nu0": True, "maxit": 5000, "gradtol": 1e-6,
                    "must_converge": True, "rho_class": "harmless", "cell": "n2/rosenbrock/sigma0.03", "history": hm})
    # wrappers
    for op in ["minimize", "maximize"]:
        for hm in [{"mode": "repeat"}, {"mode": "reassign", "attrs": ["x0", "method", "kwargs"], "first": {"x0": [2, -2], "method": "CG", "kwargs": {}}}]:
            out.append({"op": op, "method": "BFGS", "with_grad": True, "obj": "quad2", "c": [rng.randint(-3, 3), rng.randint(-3, 3), 1], "x0": [rng.randint(-1, 1), rng.randint(-1, 1)],
                        "cuqiarray": False, "probes": [[1, 2], [0, -1]], "kwargs": {"tol": 1e-3}, "history": hm})
    for hm in [{"mode": "repeat"}, {"mode": "reassign", "attrs": ["x0", "kwargs"], "first": {"x0": [2, -2], "kwargs": {"maxiter": 1}}}]:
        out.append({"op": "lbfgsb", "with_grad": True, "obj": "quart2", "c": [1, -1, 2], "x0": [rng.randint(-3, 3), rng.randint(-3, 3)], "kwargs": {}, "history": hm})
        out.append({"op": "ls", "p": {"a": 2, "b": 1, "c": 1, "d": -1}, "x0": [rng.randint(-2, 2), rng.randint(-2, 2)], "method": "trf", "loss": "linear", "with_jac": True,
                    "tol": 1e-8, "maxit": 200.0, "cuqiarray": False,
                    "history": hm if hm["mode"] == "repeat" else {"mode": "reassign", "attrs": ["x0", "method", "loss", "tol", "maxit"],
                                                                  "first": {"x0": [1, 1], "method": "dogbox", "loss": "soft_l1", "tol": 1e-3, "maxit": 5}}})
    # ---- LM, two unknowns: step-by-step trace against the model (Cramer solve; |g_0| certified) ----
    for k, lr in itertools.product([-5, 0, 5], [-3, 3] if not ctx.thorough else [-10, -3, 3]):
        sg = 2.0 ** k
        out.append({"op": "lm_trace2", "p": {"a": 10, "b": 1, "c": 0, "d": 0, "sigma": sg}, "x0": rng.choice([[-1.25, 1.0], [0.5, -0.5], [2.0, -1.0]]),
                    "nu0": 2.0 ** lr * sg * sg, "K": ctx.n(8, 20), "cell": "rosenbrock/sigma2^%d/rho2^%d" % (k, lr)})
    for _ in range(ctx.n(2, 12)):
        k = rng.choice([-5, 0, 5]); sg = 2.0 ** k; lr = rng.choice([-3, 3])
        out.append({"op": "lm_trace2", "p": {"a": rng.randint(1, 10), "b": rng.randint(-2, 2), "c": rng.randint(0, 2), "d": rng.randint(-2, 2), "sigma": sg},
                    "x0": [rng.randint(-4, 4) / 2, rng.randint(-4, 4) / 2], "nu0": 2.0 ** lr * sg * sg, "K": ctx.n(8, 20), "cell": "random/sigma2^%d/rho2^%d" % (k, lr)})
    # three unknowns (n > 2), dense and sparse Jacobian, residual scale x relative floor; oracle: stationarity before or at maxit
    for k, sparse in itertools.product([-5, 0, 5], [False, True]):
        sg = 2.0 ** k
        out.append({"op": "lm_conv3", "p": {"a": rng.randint(2, 10), "b": rng.randint(-1, 1), "c": rng.randint(0, 1), "d": rng.randint(-1, 1), "sigma": sg},
                    "x0": [rng.randint(-2, 2) / 2, rng.randint(-2, 2) / 2, rng.randint(-2, 2) / 2], "nu0": 2.0 ** rng.choice([-10, -3, 3]) * sg * sg, "use_nu0": True,
                    "sparse": sparse, "maxit": 5000, "gradtol": 1e-6, "must_converge": True, "rho_class": "harmless", "cell": "n3/%s/sigma2^%d" % ("sparse" if sparse else "dense", k)})
    # LM with nu0 = 0 (falsy but legitimate: no floor at all)
    out.append({"op": "lm_trace", "co": [[1.0, -1.0, 2.0], [0.0, 2.0, -1.0]], "x0": 1.5, "nu0": 0.0, "sparse": False, "sigma": 1.0, "K": ctx.n(10, 20), "cell": "nu0=0"})
    # ---- memory layout / dtype of the inputs (Fortran order, strided views, integer arrays) ----
    for form, layout in [("dense-F", None), ("dense-view", "view"), ("dense-int", "int")]:
        for shape, shiftcell in [("over", "+"), ("under", "0")]:
            me = gen_lsq_meta(rng, shape, shiftcell, "random", form)
            if layout:
                me["layout"] = layout
            out.append(dict(me, op="cgls_iters", K=min(len(me["A"]), len(me["x0"])) + 1))
            out.append(dict(me, op="cgls_solve", tol=1e-6, maxit=100, stopcell="tol1e-6"))
        mp = gen_lsq_meta(rng, "over", "0", "random", form)
        while len(mp["x0"]) < 2:
            mp = gen_lsq_meta(rng, "over", "0", "random", form)
        mp.update(P=gen_precond(rng, len(mp["x0"]), "general").astype(int).tolist(), pkind="general", pinv="explicit")
        if layout:
            mp["layout"] = layout
        out.append(dict(mp, op="pcgls_solve", tol=1e-6, maxit=100))
        mf = gen_lsq_meta(rng, "over", "0", "random", form)
        Af = np.array(mf["A"], dtype=float)
        mf.update(prox={"kind": "l1", "strength": 1, "direct": True}, proxcell="l1", adaptive=True, t=2.0 ** -int(np.ceil(np.log2(float(np.sum(Af * Af))))), stepcell="dyadic")
        if layout:
            mf["layout"] = layout
        del mf["shift"]
        out.append(dict(mf, op="fista_runs", K=5, abstol=0.0))
    for _ in range(3):
        xi = [float(rng.randint(-4, 4)) for _ in range(rng.randint(2, 5))]
        out.append({"op": "prox_l1", "x": xi, "gamma": float(rng.randint(0, 2)), "cell": "int-dtype", "dtype": "int"})
        out.append({"op": "nonneg", "x": xi, "cell": "int-dtype", "dtype": "int"})
        out.append({"op": "box", "x": xi, "lo": None, "up": None, "cell": "int-dtype/none-none", "dtype": "int"})
        out.append({"op": "box", "x": xi, "lo": -1.0, "up": 2.0, "cell": "int-dtype/scalar-scalar", "dtype": "int"})
    # falsy but legitimate bounds: 0.0 given explicitly on either side, zero vectors
    for lo, up, nm in [(0.0, None, "lower=0.0"), (None, 0.0, "upper=0.0"), (0.0, 0.0, "both=0.0"), ([0.0, 0.0, 0.0], None, "lower=zeros"), (-1.0, [0.0, 0.0, 0.0], "upper=zeros")]:
        out.append({"op": "box", "x": [-2.5, 0.5, 2.5], "lo": lo, "up": up, "cell": "falsy/" + nm})
    # ---- optional arguments omitted at every entry point (the documented defaults must be what the object then uses) ----
    for form in ["dense", "fun"]:
        me = gen_lsq_meta(rng, "over", "0", "random", form)
        out.append(dict(me, op="cgls_solve", tol=1e-6, maxit=100, stopcell="defaults-omitted", omit=True))
    mp = gen_lsq_meta(rng, "over", "0", "random", "dense")
    while len(mp["x0"]) < 2:
        mp = gen_lsq_meta(rng, "over", "0", "random", "dense")
    mp.update(P=gen_precond(rng, len(mp["x0"]), "general").astype(int).tolist(), pkind="general/defaults-omitted", pinv="explicit")
    out.append(dict(mp, op="pcgls_solve", tol=1e-6, maxit=100, omit=True))
    for pk, pc in [({"kind": "l1", "strength": 1, "direct": True}, "l1"), ({"kind": "nonneg"}, "nonneg")]:
        mf = gen_lsq_meta(rng, "over", "0", "random", "dense")
        Af = np.array(mf["A"], dtype=float)
        sA = 2.0 ** -int(np.ceil(np.log2(float(np.sum(Af * Af))) / 2))          # |A|_F <= 1 so that the default stepsize 1 is below 1/L
        mf = scale_lsq(mf, sA, 1.0)
        mf.update(prox=pk, proxcell=pc + "/defaults-omitted", adaptive=True, t=1.0, stepcell="default")
        del mf["shift"]
        out.append(dict(mf, op="fista_runs", K=5, abstol=1e-14, omit=True))
    out.append({"op": "lm_conv1", "co": [[1.0, -1.0, 2.0], [0.0, 2.0, -1.0]], "x0": 1.5, "sparse": True, "maxit": 10000, "gradtol": 1e-8, "must_converge": True,
                "rho_class": "harmless", "cell": "n1/defaults-omitted", "omit": True})
    out.append({"op": "ls", "p": {"a": 2, "b": 1, "c": 1, "d": -1}, "x0": [1, -1], "method": "trf", "loss": "linear", "with_jac": "default", "tol": 1e-6, "maxit": 1e4, "cuqiarray": False})
    # ---- exact-threshold sizes: PCGLS switches from the explicit inverse to sparse solves at dim == MAX_DIM_INV ----
    for off in [0, 1]:
        mp = gen_lsq_meta(rng, "over", "0", "random", "dense")
        while len(mp["x0"]) < 2:
            mp = gen_lsq_meta(rng, "over", "0", "random", "dense")
        n_ = len(mp["x0"])
        mp.update(P=gen_precond(rng, n_, "general").astype(int).tolist(), pkind="general/MAX_DIM_INV=dim%+d" % off, pinv="explicit" if off else "spsolve", max_dim_inv=n_ + off)
        out.append(dict(mp, op="pcgls_solve", tol=1e-6, maxit=100))
        out.append(dict(mp, op="pcgls_iters", K=n_ + 1))
    # ---- round-4 lessons ----
    # L19 / L23: callables whose RESULTS are strided or come from Fortran-ordered products; sparse formats csc / coo
    for form, shiftcell in itertools.product(["fun-strided-out", "fun-F-out", "sparse-csc", "sparse-coo"], ["0", "+"]):
        me = gen_lsq_meta(rng, rng.choice(["over", "under"]) if shiftcell == "+" else "over", shiftcell, "random", form)
        out.append(dict(me, op="cgls_iters", K=min(len(me["A"]), len(me["x0"])) + 1))
        out.append(dict(me, op="cgls_solve", tol=1e-6, maxit=100, stopcell="tol1e-6"))
        if shiftcell == "0":
            mp = gen_lsq_meta(rng, "over", "0", "random", form)
            while len(mp["x0"]) < 2:
                mp = gen_lsq_meta(rng, "over", "0", "random", form)
            mp.update(P=gen_precond(rng, len(mp["x0"]), "general").astype(int).tolist(), pkind="general", pinv="explicit")
            out.append(dict(mp, op="pcgls_solve", tol=1e-6, maxit=100))
            mf = gen_lsq_meta(rng, "over", "0", "random", form)
            Af = np.array(mf["A"], dtype=float)
            mf.update(prox={"kind": "nonneg"}, proxcell="nonneg", adaptive=rng.choice([True, False]), t=2.0 ** -int(np.ceil(np.log2(float(np.sum(Af * Af))))), stepcell="dyadic")
            del mf["shift"]
            out.append(dict(mf, op="fista_runs", K=5, abstol=0.0))
    # L23: b and x0 handed over as CUQIarray (an ndarray SUBCLASS)
    me = dict(gen_lsq_meta(rng, "over", "+", "random", "dense"), layout="cuqiarray")
    out.append(dict(me, op="cgls_solve", tol=1e-6, maxit=100, stopcell="tol1e-6"))
    out.append(dict(me, op="cgls_iters", K=3))
    mf = dict(gen_lsq_meta(rng, "over", "0", "random", "dense"), layout="cuqiarray")
    Af = np.array(mf["A"], dtype=float)
    mf.update(prox={"kind": "l1", "strength": 1, "direct": True}, proxcell="l1", adaptive=True, t=2.0 ** -int(np.ceil(np.log2(float(np.sum(Af * Af))))), stepcell="dyadic")
    del mf["shift"]
    out.append(dict(mf, op="fista_runs", K=5, abstol=0.0))
    # L18: EXACT ZEROS inside otherwise generic data: an all-zero row of A, an all-zero column (with shift > 0), block-decoupled A and P
    for zc in ["zero-row", "zero-column", "block-diagonal"]:
        for form in ["dense", "fun"]:
            if zc == "zero-row":
                me = gen_lsq_meta(rng, "over", rng.choice(["0", "+"]), "random", form)
                me["A"] = me["A"] + [[0] * len(me["x0"])]
                me["b"] = me["b"] + [rng.randint(1, 5)]
            elif zc == "zero-column":
                me = gen_lsq_meta(rng, "over", "+", "random", form)
                while len(me["x0"]) < 2:
                    me = gen_lsq_meta(rng, "over", "+", "random", form)
                me["A"] = [[0] + r[1:] for r in me["A"]]
            else:
                B1 = gen_matrix(rng, 2, 1, 0.0).astype(int).tolist()
                B2 = gen_matrix(rng, 3, 2, 0.0).astype(int).tolist()
                A_ = [r + [0, 0] for r in B1] + [[0] + r for r in B2]
                me = {"A": A_, "b": [rng.randint(-5, 5) or 1 for _ in A_], "x0": [rng.randint(-4, 4) for _ in range(3)], "shift": rng.choice([0.0, 0.5]),
                      "form": form, "shape": "over", "start": "random"}
            me["start"] = "random/" + zc
            out.append(dict(me, op="cgls_iters", K=min(len(me["A"]), len(me["x0"])) + 1))
            out.append(dict(me, op="cgls_solve", tol=1e-6, maxit=100, stopcell="tol1e-6"))
            if len(me["x0"]) >= 2 and zc != "zero-column":
                n_ = len(me["x0"])
                Pb = [[(rng.choice([1, 2, -3]) if i == j else (rng.randint(-2, 2) if (i < 1) == (j < 1) else 0)) for j in range(n_)] for i in range(n_)]
                if abs(np.linalg.det(np.array(Pb, dtype=float))) > 0.5:
                    mp = dict(me, shift=0.0, P=Pb, pkind="block-diagonal/" + zc, pinv=rng.choice(["explicit", "spsolve"]))
                    mp["A"] = [list(r) for r in me["A"]]
                    if zc == "block-diagonal" or True:
                        out.append(dict(mp, op="pcgls_solve", tol=1e-6, maxit=100))
    # L18 / L19: LM whose Jacobian has an exactly-zero COLUMN at the start point; Jacobian callables returning Fortran-ordered / transposed-view results
    for k, jl in itertools.product([-5, 0, 5], [None, "F", "T"]):
        sg = 2.0 ** k
        out.append({"op": "lm_convz", "p": {"t": [1, 2, 3, 4], "b": [rng.randint(1, 4), rng.randint(2, 6), rng.randint(3, 8), rng.randint(4, 10)], "sigma": sg, "jac_layout": jl},
                    "x0": [0.0, float(rng.randint(-1, 1))], "nu0": 2.0 ** -3 * sg * sg, "use_nu0": True, "maxit": 5000, "gradtol": 1e-6, "must_converge": True,
                    "rho_class": "harmless", "cell": "n2/zero-jacobian-column/sigma2^%d/jac-%s" % (k, jl or "C")})
    # L20: integer-dtype start vector for LM and the wrappers
    out.append({"op": "lm_conv2", "p": {"a": 10, "b": 1, "c": 0, "d": 0, "sigma": 1.0}, "x0": [2, -1], "x0_dtype": "int", "nu0": 2.0 ** -3, "use_nu0": True, "maxit": 5000,
                "gradtol": 1e-6, "must_converge": True, "rho_class": "harmless", "cell": "n2/rosenbrock/int-x0"})
    # L21 / L22: degenerate counts (maxit = 0 is falsy) and the shipped defaults run as shipped
    mf = gen_lsq_meta(rng, "over", "0", "random", "dense")
    Af = np.array(mf["A"], dtype=float)
    mf.update(prox={"kind": "l1", "strength": 1, "direct": True}, proxcell="l1/maxit0", adaptive=True, t=2.0 ** -int(np.ceil(np.log2(float(np.sum(Af * Af))))), stepcell="dyadic")
    del mf["shift"]
    out.append(dict(mf, op="fista_runs", K=2, abstol=0.0, from0=True))
    for pk, pc in [({"kind": "l1", "strength": 1, "direct": True}, "l1"), ({"kind": "box", "lo": None, "up": None}, "box-none")]:
        md = gen_lsq_meta(rng, "over", "0", "random", rng.choice(["dense", "fun"]))
        Ad = np.array(md["A"], dtype=float)
        md = scale_lsq(md, 2.0 ** -int(np.ceil(np.log2(float(np.sum(Ad * Ad))) / 2)), 1.0)
        md.update(prox=pk, proxcell=pc)
        out.append(dict(md, op="fista_defaults"))
    # L26: a huge start vector (large offset), small solution
    for form in ["dense", "fun"]:
        me = gen_lsq_meta(rng, "over", rng.choice(["0", "+"]), "random", form)
        me["x0"] = [rng.choice([-1, 1]) * rng.randint(1, 3) * 2.0 ** 15 for _ in me["x0"]]
        out.append(dict(me, op="cgls_solve", tol=1e-6, maxit=100, stopcell="huge-start", start="huge"))
    # ---- wrappers ----
    methods = [None, "BFGS", "L-BFGS-B", "CG", "SLSQP", "TNC", "Nelder-Mead", "Powell", "COBYLA"]
    for op, method, with_grad in itertools.product(["minimize", "maximize"], methods, [True, False]):
        if method in ("Nelder-Mead", "Powell", "COBYLA") and with_grad:
            continue
        for _ in range(ctx.n(1, 4)):
            obj = rng.choice(["quad2", "quad1", "quart2"])
            dim = OBJECTIVES[obj][1]
            c = [rng.randint(-3, 3), rng.randint(-3, 3), rng.randint(1, 4) * rng.choice([-1, 1])]
            out.append({"op": op, "method": method, "with_grad": with_grad, "obj": obj, "c": c, "x0": [rng.randint(-3, 3) for _ in range(dim)],
                        "cuqiarray": rng.random() < 0.3, "probes": [[rng.randint(-4, 4) for _ in range(dim)] for _ in range(3)]})
    for op, kwargs in itertools.product(["minimize", "maximize"], [{"tol": 1e-3}, {"options": {"maxiter": 2}}, {"bounds": [[-1, 1], [-1, 1]]}]):
        out.append({"op": op, "method": "L-BFGS-B" if "bounds" in kwargs else "BFGS", "with_grad": True, "obj": "quad2", "c": [rng.randint(-3, 3), rng.randint(-3, 3), 1],
                    "x0": [rng.randint(-1, 1), rng.randint(-1, 1)], "cuqiarray": False, "probes": [[1, 2], [0, -1]], "kwargs": kwargs})
    # every documented keyword of fmin_l_bfgs_b, one at a time and together, with values that change the run
    for kwargs in [{"m": 3}, {"factr": 1e12}, {"factr": 10.0}, {"pgtol": 1e-2}, {"epsilon": 1e-4}, {"maxfun": 7}, {"maxiter": 3}, {"maxls": 2}, {"iprint": -1}, {"disp": 0},
                   {"bounds": [[-1, 1], [0, 2]]}, {"m": 4, "factr": 1e10, "pgtol": 1e-6, "maxfun": 40, "maxiter": 20, "maxls": 10}]:
        for with_grad in ([True, False] if ("epsilon" in kwargs or len(kwargs) > 1) else [True]):
            out.append({"op": "lbfgsb", "with_grad": with_grad, "obj": "quart2", "c": [rng.randint(-3, 3), rng.randint(-3, 3), rng.randint(-3, 3)],
                        "x0": [rng.randint(-3, 3), rng.randint(-3, 3)], "kwargs": kwargs})
    for with_grad in [True, False]:
        for kwargs in [{}, {"maxiter": 1}, {"maxfun": 1}]:
            obj = "quart2"
            out.append({"op": "lbfgsb", "with_grad": with_grad, "obj": obj, "c": [rng.randint(-3, 3), rng.randint(-3, 3), rng.randint(-3, 3)],
                        "x0": [rng.randint(-3, 3), rng.randint(-3, 3)], "kwargs": kwargs})
        for wf, task in [(0, "CONVERGENCE: scripted"), (1, "STOP: scripted"), (2, "ABNORMAL_TERMINATION_IN_LNSRCH"), (3, "unknown flag")]:
            out.append({"op": "lbfgsb", "with_grad": with_grad, "obj": "quad2", "c": [1, 2, 3], "x0": [0, 0],
                        "script": {"x": [rng.randint(-3, 3), 0.5], "f": float(rng.randint(-5, 5)), "grad": [0.25, -1.0], "task": task,
                                   "funcalls": rng.randint(1, 50), "nit": rng.randint(0, 20), "warnflag": wf}})
    for method, loss, with_jac in itertools.product(["trf", "dogbox", "lm"], ["linear", "soft_l1"], [True, False]):
        if method == "lm" and loss != "linear":
            continue
        p = {"a": rng.randint(1, 5), "b": rng.randint(-2, 2), "c": rng.randint(0, 2), "d": rng.randint(-2, 2)}
        out.append({"op": "ls", "p": p, "x0": [rng.randint(-2, 2), rng.randint(-2, 2)], "method": method, "loss": loss, "with_jac": with_jac,
                    "tol": rng.choice([1e-6, 1e-8]), "maxit": rng.choice([1e4, 50, 200.0]), "cuqiarray": rng.random() < 0.3})
    # ---- third deepening round: cells DERIVED from the ones above (no new random draws, the stream above is unchanged) ----
    derived = []
    plain = lambda m: not m.get("history") and not m.get("omit") and "max_dim_inv" not in m
    for i, m in enumerate([m for m in out if m["op"] == "lm_trace"]):
        if ctx.thorough or i % 3 == 0:
            derived.append(dict(m, op="lm_descent", K=min(m["K"], ctx.n(6, 16))))
    for i, m in enumerate([m for m in out if m["op"] == "lm_trace2"]):
        if ctx.thorough or i % 2 == 0:
            derived.append(dict(m, op="lm_descent2", K=min(m["K"], ctx.n(5, 12))))
    for m in out:
        # the exit taken does not depend on the operator form: quick tier only the dense-matrix and function forms
        if m["op"] in ("cgls_solve", "pcgls_solve") and plain(m) and (ctx.thorough or m.get("form") in ("dense", "fun")):
            derived.append(dict(m, op=m["op"].replace("solve", "exit")))
        if (m["op"] == "pcgls_iters" and plain(m) and m["shift"] == 0 and all(float(v).is_integer() for v in m["x0"])
                and all(float(v).is_integer() for row in m["P"] for v in row)):
            derived.append(dict(m, op="pcgls_as_cgls", K=min(m["K"], 3)))
    # the three exits, fixed (the model realises them in C16_exit_paths_nonvacuous): residual clause / |x| tol >= 1 / iteration cap
    A3 = [[1, 0], [0, 2], [1, 1]]
    for lab, bb, tol_, mx in [("fixed-R", [1, 2, 3], 1e-6, 10), ("fixed-X", [2.0 ** 30, 2.0 ** 31, 3 * 2.0 ** 30], 1e-6, 10), ("fixed-M", [1, 2, 3], 0.0, 1),
                              ("fixed-M0", [1, 2, 3], 1e-6, 0)]:
        base = {"A": A3, "b": bb, "x0": [0, 0], "shift": 0.0, "form": "dense", "shape": "over", "start": "zero", "tol": tol_, "maxit": mx, "exitcell": lab}
        derived.append(dict(base, op="cgls_exit"))
        derived.append(dict(base, op="pcgls_exit", P=[[2, 0], [1, 1]], pkind="triangular", pinv="explicit"))
    return out + derived


# (label, log2 sigma, coefficients (a, b, c) of the residuals a x^2 + b x + c already multiplied by sigma, x0, nu0)
LM_CORPUS = [
    ("reject@nu>=nu0", 0, [(0.0, -1.0, 5.0), (0.0, 3.0, -5.0)], 2.5, 2.0 ** -10),
    ("reject@nu>=nu0", 6, [(192.0, 128.0, -320.0), (128.0, 0.0, 128.0), (192.0, 128.0, -384.0)], -1.0, 1.0),
    ("reject@nu>=nu0", 10, [(3072.0, 0.0, -5120.0), (3072.0, 2048.0, 1024.0)], -2.0, 4.0),
    ("reject@nu=0", -3, [(0.125, 0.5, -0.75)], -1.5, 1.0),
    ("reject@nu=0", -6, [(0.0, -0.015625, 0.015625), (0.03125, -0.0625, 0.046875)], 0.0, 2.0 ** -10),
    ("reject@nu=0", 0, [(0.0, -1.0, -6.0), (3.0, 0.0, -2.0), (2.0, 1.0, -2.0)], -0.5, 4.0),
    ("accept@0<nu<nu0", -6, [(0.0, 0.015625, 0.078125), (0.0, -0.0625, 0.015625)], -2.0, 1.0),
    ("accept@0<nu<nu0", 0, [(0.0, 1.0, -2.0), (0.0, -1.0, -6.0)], -0.5, 4.0),
    ("accept@nu=0", -3, [(0.0, 0.25, 0.5)], 2.5, 4.0),
    ("reject@0<nu<nu0", -3, [(0.25, -0.375, 0.375)], 0.5, 1.0),
    ("reject@0<nu<nu0", -6, [(0.03125, 0.015625, 0.046875)], -0.5, 2.0 ** -10),
    ("reject@0<nu<nu0", 0, [(2.0, -1.0, 2.0), (1.0, -2.0, 0.0)], 0.0, 4.0),
    # |g0| = 4 = 4 nu0 and a linear problem (gain ratio 1): nu = 4, 2, 1 -- lands EXACTLY on nu0, where `nu < nu0` is false and nu stays 1
    ("nu-halves-onto-nu0", 0, [(0.0, 1.0, -5.0), (0.0, 1.0, 1.0)], 4.0, 1.0),
    ("nu-halves-onto-nu0", -3, [(0.0, 0.125, -0.625), (0.0, 0.125, 0.125)], 4.0, 2.0 ** -6),
]

# witnesses of the known findings (fixed inputs)
W_PCGLS_SHIFT = {"op": "pcgls_solve", "A": [[1, 0], [0, 2], [1, 1]], "b": [1, 2, 3], "x0": [0, 0], "P": [[2, 0], [1, 1]], "pkind": "triangular",
                 "pinv": "explicit", "form": "dense", "shape": "over", "start": "zero", "shift": 1.0, "tol": 1e-6, "maxit": 100}
W_MAXIMIZE_INFO = {"op": "maximize", "method": None, "with_grad": True, "obj": "quad1", "c": [1, 0, 1], "x0": [3], "cuqiarray": False, "probes": [[0], [2]]}
W_MIN_NOJAC = {"op": "minimize", "method": "Nelder-Mead", "with_grad": False, "obj": "quad1", "c": [1, 0, 1], "x0": [3], "cuqiarray": False, "probes": [[0], [2]]}
W_LM_NAN = {"op": "lm_conv2", "p": {"a": 4, "b": -2, "c": 1, "d": 1}, "x0": [0, 0], "maxit": 10000, "gradtol": 1e-08, "cell": "n2"}
# LinearRTO-like use: default tol 1e-6 and a solution of size ~1e9 (data in small units): one iteration, (x, 1) returned as if converged
W_CGLS_NORMX = {"op": "cgls_solve", "A": [[1, 0], [0, 2], [1, 1]], "b": [2.0 ** 30, 2.0 ** 31, 3 * 2.0 ** 30], "x0": [0, 0], "shift": 0.0, "form": "dense",
                "shape": "over", "start": "zero", "tol": 1e-6, "maxit": 100, "stopcell": "normx/witness"}
W_PCGLS_NORMX = {"op": "pcgls_solve", "A": [[1, 0], [0, 2], [1, 1]], "b": [2.0 ** 30, 2.0 ** 31, 3 * 2.0 ** 30], "x0": [0, 0], "P": [[2, 0], [1, 1]],
                 "pkind": "triangular/normx-witness", "pinv": "explicit", "form": "dense", "shape": "over", "start": "zero", "shift": 0.0, "tol": 1e-6, "maxit": 100}
W_LS_DEFAULT = {"op": "ls", "p": {"a": 2, "b": 1, "c": 1, "d": -1}, "x0": [1, -1], "method": "trf", "loss": "linear", "with_jac": "default", "tol": 1e-6, "maxit": 1e4,
                "cuqiarray": False}
W_LM_FLOOR = {"op": "lm_conv2", "p": {"a": 10, "b": 1, "c": 0, "d": 0, "sigma": 2.0 ** -10}, "x0": [-1.2, 1.0], "maxit": 10000, "gradtol": 1e-08,
              "must_converge": True, "rho_class": "floor-dominates", "cell": "n2/rosenbrock/sigma2^-10/default-nu0"}
WITNESSES = {SIG["pcgls_shift"]: W_PCGLS_SHIFT, SIG["maximize_info"]: W_MAXIMIZE_INFO, SIG["minimize_nojac"]: W_MIN_NOJAC, SIG["lm_nan"]: W_LM_NAN,
             SIG["lm_floor"]: W_LM_FLOOR, SIG["cgls_normx"]: W_CGLS_NORMX, SIG["pcgls_normx"]: W_PCGLS_NORMX, SIG["ls_default"]: W_LS_DEFAULT}


def run(ctx):
    import random as _r
    cases = []
    LM_BRANCHES.clear()
    EXIT_CLASSES.clear()
    with warnings.catch_warnings():
        warnings.simplefilter("ignore")
        for me in [W_PCGLS_SHIFT, W_MAXIMIZE_INFO, W_MIN_NOJAC, W_LM_NAN, W_LM_FLOOR, W_CGLS_NORMX, W_PCGLS_NORMX] + metas(ctx):
            cases.append(build_case(me, _r.Random(int(hashlib.sha1(json.dumps(me, sort_keys=True, default=str).encode()).hexdigest()[:8], 16))))
    # the LM traces are the expensive terms (~0.3 s of rational arithmetic per LM step): spread them evenly over the shards
    HEAVY_OPS = ("lm_trace", "lm_trace2", "lm_descent", "lm_descent2")
    heavy = [c for c in cases if c.meta.get("op") in HEAVY_OPS]
    light = [c for c in cases if c.meta.get("op") not in HEAVY_OPS]
    if heavy:
        every = max(1, len(light) // len(heavy))
        cases = []
        for i, c in enumerate(light):
            cases.append(c)
            if i % every == every - 1 and heavy:
                cases.append(heavy.pop(0))
        cases += heavy
    ctx.note("LM trace branches visited (number of traces): %s" % dict(LM_BRANCHES))
    ctx.note("CGLS/PCGLS exits taken (R residual clause, X |x| tol >= 1, M iteration cap): %s" % dict(EXIT_CLASSES))
    return Result(cases=cases, rule=RULE, extra={"lm_trace_branches_visited": dict(LM_BRANCHES), "exit_classes": {k: v for k, v in EXIT_CLASSES.items()}},
                  assumptions=["float rounding is not modelled: CGLS/FISTA/LM iterates are compared with the model's exact rationals within 1e-9, PCGLS iterates within 1e-6 "
                               "(relative+absolute), converged points within 1e-6; projections and soft-thresholding are compared exactly on dyadic data",
                               "LA.norm(.)**2 is modelled as the exact sum of squares; tol/abstol/gradtol >= 0",
                               "iteration counts may differ from the exact-arithmetic count only when a stopping comparison is within 1e-6 relative of equality (cg_margin), or by one "
                               "iteration between two converged CG runs whose observed point passes the exact certificate (float CG loses orthogonality near convergence); "
                               "CG iterates beyond the second are compared only to 1e-3 for the same reason; FISTA's abstol test may fire by rounding up to 1e-9 early",
                               "spa.linalg.inv / spsolve / LA.solve are oracles: the harness supplies the exact rational inverse of P and the model checks P*Pinv = I",
                               "SciPy optimisers (fmin_l_bfgs_b, minimize, least_squares) are oracles: they are called for real through a recorder and only the translation is modelled",
                               "convergence of the iterations is not proved (property: 'run to convergence'); the harness checks that the stopping test fired"])


def known_witnesses(ctx):
    import random as _r
    res = {}
    with warnings.catch_warnings():
        warnings.simplefilter("ignore")
        for sig, me in WITNESSES.items():
            c = build_case(me, _r.Random(0))
            res[sig] = (bool(c.impl_fail) and c.signature == sig, c.impl_fail or "witness no longer fails")
    return res


def classify(meta, detail):
    m = meta.get("meta", meta)
    op = m.get("op", "")
    d = str(detail or "")
    if d.startswith("HISTORY"):
        for pre, cls in HIST_CLASS.items():
            if op.startswith(pre):
                return "%s.solve|result-depends-on-object-history" % cls
    if op.startswith("cgls"):
        if d.startswith("NORMX"):
            return SIG["cgls_normx"]
        return SIG["cgls_forms"] if "differ from the dense" in d else SIG["cgls"]
    if op.startswith("pcgls"):
        if d.startswith("NORMX"):
            return SIG["pcgls_normx"]
        if "differ from the dense" in d:
            return SIG["pcgls_forms"]
        return SIG["pcgls_shift"] if m.get("shift") else SIG["pcgls"]
    if op.startswith("fista"):
        return SIG["fista_forms"] if "differ from the dense" in d else SIG["fista"]
    if op in ("prox_l1", "box", "nonneg"):
        return SIG[op]
    if op.startswith("lm_descent"):
        return SIG["lm_descent"]
    if op.startswith("lm"):
        if "non-finite" in d:
            return SIG["lm_nan"]
        if m.get("callable") == "buffer":
            return SIG["lm_buffer"]
        return SIG["lm_floor"] if ("used all" in d and m.get("rho_class") == "floor-dominates") else SIG["lm"]
    if op in ("minimize", "maximize"):
        if "KeyError('jac')" in d:
            return SIG["minimize_nojac"]
        if "info['func']" in d:
            return SIG["maximize_info"]
        return SIG["maximize"] if op == "maximize" and "negated" in d else SIG["minimize"]
    return SIG.get(op, "C16")


def oracle(ctx, meta):
    """re-check the property itself on the implementation for one case (used when model and implementation disagree)"""
    import random as _r
    with warnings.catch_warnings():
        warnings.simplefilter("ignore")
        m = dict(meta)
        c = build_case(m, _r.Random(1))
        if c.impl_fail:
            return c.impl_fail
        # iterate-level disagreements: run the same problem to convergence and test the optimality system
        op = m["op"]
        if op == "cgls_iters":
            m.update(op="cgls_solve", tol=1e-8, maxit=200, stopcell="oracle")
            return build_case(m, _r.Random(1)).impl_fail
        if op == "pcgls_iters":
            m.update(op="pcgls_solve", tol=1e-8, maxit=200)
            return build_case(m, _r.Random(1)).impl_fail
        if op == "fista_runs":
            m.update(op="fista_conv", maxit=200000, abstol=1e-8, form="dense")
            m2 = build_case(m, _r.Random(1))
            return m2.impl_fail
        if op == "lm_iters":
            m.update(op="lm_conv1", maxit=10000, gradtol=1e-8)
            return build_case(m, _r.Random(1)).impl_fail
        if op == "lm_trace":
            m.update(op="lm_conv1", maxit=5000, gradtol=1e-6, must_converge=True, use_nu0=True)
            return build_case(m, _r.Random(1)).impl_fail
        if op == "lm_trace2":
            m.update(op="lm_conv2", maxit=5000, gradtol=1e-6, must_converge=True, use_nu0=True, rho_class="harmless")
            return build_case(m, _r.Random(1)).impl_fail
    return None


def replay(ctx, meta):
    import random as _r
    m = meta.get("meta", meta)
    print(json.dumps({k: v for k, v in meta.items() if k != "meta"}, indent=1)[:3000])
    print("input:", json.dumps(m)[:3000])
    with warnings.catch_warnings():
        warnings.simplefilter("ignore")
        if "op" not in m:
            if "witness" in m and m["witness"] in WITNESSES:
                m = WITNESSES[m["witness"]]
            else:
                print("nothing to re-run for this replay (static/generator breakage): see 'no_longer_checks'")
                return 0
        c = build_case(dict(m), _r.Random(1))
        print("implementation vs model term:\n ", c.expr[:3000])
        rc, out = eval_in_coq(IMPORTS, c.expr, tag="replay_C16") if c.kind != "ENCLOSURE" else (0, "")
        print("model agrees with implementation:", out.split("=")[-1].strip()[:200] if rc == 0 else "coqc failed: " + out[-500:])
        orc = c.impl_fail or oracle(ctx, dict(m))
        print("independent oracle on the implementation:", orc or "property holds on this input")
    return 0
