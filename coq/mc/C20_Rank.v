(* C20 -- rank-nullity for integer matrices: if B is a basis of the integer null space of P
   (members, spanning, independent -- Model/C20_Spec.null_basis), then the rank of P over the
   rationals is n - |B|.  First for mathcomp matrices over Z (Coq's Z is a mathcomp idomain through
   mathcomp.zify.ssrZ), then for the list matrices of the executable model (refinement). *)
From Coq Require Import ZArith.
From CV Require Import Base.LinAlg Base.QcLin Model.C20_Diff Model.C20_Spec Proofs.C20_Lin Proofs.C20_Stencil Proofs.C20_Null Proofs.C20_Gmrf.
From mathcomp Require Import all_ssreflect all_algebra.
From mathcomp Require Import ssrZ zify.
Set Implicit Arguments.
Unset Strict Implicit.
Unset Printing Implicit Defensive.
Import GRing.Theory.
Local Open Scope ring_scope.

(* ---------------- over a field: the kernel is the span of the basis ---------------- *)
Section Field.
Variable F : fieldType.

Lemma rank_from_null_basis n k (P : 'M[F]_n) (B : 'M[F]_(k, n)) :
  B *m P^T = 0 -> row_free B -> (forall u : 'rV[F]_n, u *m P^T = 0 -> (u <= B)%MS) ->
  \rank P = (n - k)%N.
Proof.
move=> BP freeB span.
have kerE : (kermx P^T :=: B)%MS.
  apply/eqmxP/andP; split; last by apply/sub_kermxP.
  by apply/row_subP => i; apply: span; rewrite -row_mul mulmx_ker row0.
have := mxrank_ker P^T; rewrite kerE mxrank_tr (eqP freeB) => ->.
by rewrite subKn // rank_leq_row.
Qed.

End Field.

(* ---------------- Z -> rat ---------------- *)
Definition zq (z : Z) : rat := (int_of_Z z)%:~R.

Lemma zq_is_rmorphism : rmorphism zq.
Proof.
split; first by move=> a b; rewrite /zq rmorphB /= rmorphB.
by split; [move=> a b; rewrite /zq rmorphM /= rmorphM | rewrite /zq rmorph1].
Qed.
Canonical zq_additive := Additive zq_is_rmorphism.
Canonical zq_rmorphism := RMorphism zq_is_rmorphism.

Lemma zq_eq0 z : (zq z == 0) = (z == 0).
Proof. by rewrite /zq intr_eq0 -(inj_eq (can_inj int_of_ZK)). Qed.

Lemma map_zq_eq0 m n (A : 'M[Z]_(m, n)) : map_mx zq A = 0 -> A = 0.
Proof.
move/matrixP => H; apply/matrixP => i j; move: (H i j); rewrite !mxE.
by move/eqP; rewrite zq_eq0 => /eqP.
Qed.

(* clearing denominators of a rational row vector *)
Lemma clear_den n (u : 'rV[rat]_n) :
  exists d : Z, d != 0 /\ exists x : 'rV[Z]_n, zq d *: u = map_mx zq x.
Proof.
pose di : int := \prod_j denq (u 0 j).
pose xi j : int := numq (u 0 j) * \prod_(k | k != j) denq (u 0 k).
exists (Z_of_int di); split.
  rewrite -(inj_eq (can_inj int_of_ZK)) Z_of_intK /=.
  by apply/prodf_neq0 => j _; rewrite denq_neq0.
exists (\row_j Z_of_int (xi j)); apply/rowP => j; rewrite !mxE /zq !Z_of_intK /di /xi.
rewrite (bigD1 j) //= !rmorphM /=.
set a := (numq _)%:~R; set b := (denq _)%:~R; set c := (\prod_(i < n | _) _)%:~R.
have b0 : b != 0 by rewrite intr_eq0 denq_neq0.
have -> : u 0 j = a / b by rewrite /a /b divq_num_den.
by rewrite mulrAC [b * _]mulrC divfK.
Qed.

(* ---------------- rank-nullity over Z ---------------- *)
Theorem rank_of_Z_null_basis n k (P : 'M[Z]_n) (B : 'M[Z]_(k, n)) :
  B *m P^T = 0 ->
  (forall x : 'rV[Z]_n, x *m P^T = 0 -> exists c : 'rV[Z]_k, x = c *m B) ->
  (forall c : 'rV[Z]_k, c *m B = 0 -> c = 0) ->
  \rank (map_mx zq P) = (n - k)%N.
Proof.
move=> BP span indep; apply: (@rank_from_null_basis _ n k _ (map_mx zq B)).
- by rewrite map_trmx -map_mxM BP map_mx0.
- rewrite -kermx_eq0; apply/rowV0P => v /sub_kermxP vB.
  have [d [d0 [c Ec]]] := clear_den v.
  have c0 : c = 0.
    apply: indep; apply: map_zq_eq0.
    by rewrite map_mxM -Ec -scalemxAl vB scaler0.
  move: Ec; rewrite c0 map_mx0 => /eqP; rewrite scaler_eq0 zq_eq0 (negPf d0) /=.
  by move/eqP.
- move=> u uP; have [d [d0 [x Ex]]] := clear_den u.
  have xP : x *m P^T = 0.
    by apply: map_zq_eq0; rewrite map_mxM -map_trmx -Ex -scalemxAl uP scaler0.
  have [c Ec] := span x xP.
  apply/submxP; exists ((zq d)^-1 *: map_mx zq c).
  rewrite -scalemxAl -map_mxM -Ec -Ex scalerA mulVf ?scale1r //.
  by rewrite zq_eq0.
Qed.

(* ---------------- refinement: the list matrices of the executable model ---------------- *)
Definition mxZ m n (M : list (list Z)) : 'M[Z]_(m, n) :=
  \matrix_(i, j) List.nth j (List.nth i M Datatypes.nil) Z0.
Definition rvZ n (x : list Z) : 'rV[Z]_n := \row_j List.nth j x Z0.
Definition lZ n (x : 'rV[Z]_n) : list Z := [seq x 0 j | j <- enum 'I_n].

Lemma List_nth_nth (s : list Z) i : List.nth i s Z0 = nth Z0 s i.
Proof. by elim: s i => [|a s IH] [|i] //=. Qed.

Lemma List_length_size (T : Type) (s : list T) : List.length s = size s.
Proof. by elim: s => //= a s ->. Qed.

Lemma rvZ_lZ n (x : 'rV[Z]_n) : rvZ n (lZ x) = x.
Proof.
apply/rowP => j; rewrite mxE List_nth_nth /lZ.
by rewrite (nth_map j) ?size_enum_ord // nth_ord_enum.
Qed.

Lemma lZ_length n (x : 'rV[Z]_n) : List.length (lZ x) = n.
Proof. by rewrite List_length_size size_map size_enum_ord. Qed.

Lemma zdot_sum n : forall r x : list Z, List.length r = n -> List.length x = n ->
  zdot r x = \sum_(j < n) (List.nth j r Z0 * List.nth j x Z0).
Proof.
rewrite /zdot; elim: n => [|n IH] [|a r] [|b x] //=; first by rewrite big_ord0.
move=> [Hr] [Hx]; rewrite big_ord_recl /= (IH r x Hr Hx).
by congr (_ + _).
Qed.

Lemma rvZ_zeros m : rvZ m (zeros m) = 0.
Proof. by apply/rowP => j; rewrite !mxE /zeros nth_repeat'. Qed.

Lemma rvZ_eq0 m (v : list Z) : List.length v = m -> rvZ m v = 0 -> v = zeros m.
Proof.
move=> Hv /rowP H; apply: (@List.nth_ext _ _ _ Z0 Z0); first by rewrite Hv /zeros List.repeat_length.
move=> j; rewrite Hv => /ssrnat.ltP jm.
by move: (H (Ordinal jm)); rewrite !mxE /= => ->; rewrite /zeros nth_repeat'.
Qed.

Lemma mxZ_row k n (B : list (list Z)) (i : 'I_k) : row i (mxZ k n B) = rvZ n (List.nth i B Datatypes.nil).
Proof. by apply/rowP => j; rewrite !mxE. Qed.

Lemma rvZ_matvec m n (M : list (list Z)) (x : list Z) :
  wf_mat n M -> List.length M = m -> List.length x = n ->
  rvZ n x *m (mxZ m n M)^T = rvZ m (zmatvec M x).
Proof.
move=> wfM HM Hx; apply/rowP => i; rewrite !mxE.
have im : (i < List.length M)%coq_nat by rewrite HM; apply/ssrnat.ltP.
have Hrow : List.length (List.nth i M Datatypes.nil) = n.
  by move/List.Forall_forall: wfM; apply; apply: List.nth_In.
rewrite /zmatvec /matvec.
have -> : List.nth i (List.map (fun row => dot Z0 Z.add Z.mul row x) M) Z0
          = zdot (List.nth i M Datatypes.nil) x.
  rewrite (List.nth_indep _ Z0 (dot Z0 Z.add Z.mul Datatypes.nil x)) ?List.map_length //.
  exact: (List.map_nth (fun row => dot Z0 Z.add Z.mul row x)).
rewrite (zdot_sum Hrow Hx); apply: eq_bigr => j _; rewrite !mxE.
exact: Z.mul_comm.
Qed.

Lemma zlincomb_length n : forall (cs : list Z) (B : list (list Z)),
  wf_mat n B -> List.length (zlincomb n cs B) = n.
Proof.
elim=> [|c cs IH] [|b B] wfB /=; rewrite /zeros ?List.repeat_length //.
have [Hb wfB'] : List.length b = n /\ wf_mat n B by inversion wfB.
by rewrite zvadd_length zvscale_length // IH.
Qed.

Lemma rvZ_lincomb k n : forall (cs : list Z) (B : list (list Z)),
  List.length cs = k -> List.length B = k -> wf_mat n B ->
  rvZ n (zlincomb n cs B) = rvZ k cs *m mxZ k n B.
Proof.
elim: k => [|k IH] [|c cs] [|b B] //= Hc HB wfB.
  by apply/rowP => j; rewrite !mxE big_ord0 nth_zeros.
case: Hc => Hc; case: HB => HB.
have [Hb wfB'] : List.length b = n /\ wf_mat n B by inversion wfB.
apply/rowP => j; rewrite !mxE big_ord_recl !mxE /=.
rewrite nth_zvadd ?zvscale_length ?zlincomb_length // nth_zvscale.
congr (_ + _).
have := IH cs B Hc HB wfB' => /rowP /(_ j); rewrite !mxE => ->.
by apply: eq_bigr => i _; rewrite !mxE.
Qed.

(* rank-nullity for the model's list matrices: a null-space basis in the sense of
   Model/C20_Spec.null_basis determines the rank over the rationals *)
Theorem rank_of_null_basis_lists n (P B : list (list Z)) :
  List.length P = n -> wf_mat n P -> null_basis P n B ->
  \rank (map_mx zq (mxZ n n P)) = (n - List.length B)%N.
Proof.
move=> HP wfP [mem [span indep]]; rewrite HP in mem span.
have wfB : wf_mat n B.
  by apply/List.Forall_forall => b Hb; move/List.Forall_forall: mem => /(_ b Hb) [].
apply: (@rank_of_Z_null_basis n (List.length B) _ (mxZ (List.length B) n B)).
- apply/row_matrixP => i; rewrite row_mul row0 mxZ_row.
  have ik : (i < List.length B)%coq_nat by apply/ssrnat.ltP.
  have := List.nth_In B Datatypes.nil ik; move/List.Forall_forall: mem => H /H [Hb Hz].
  by rewrite (rvZ_matvec wfP HP Hb) Hz rvZ_zeros.
- move=> x xP.
  have Hx := lZ_length x.
  have Hz : zmatvec P (lZ x) = zeros n.
    apply: rvZ_eq0; first by rewrite zmatvec_length.
    by rewrite -(rvZ_matvec wfP HP Hx) rvZ_lZ.
  have [cs [Hcs Ex]] := span _ Hx Hz.
  by exists (rvZ (List.length B) cs); rewrite -(rvZ_lincomb Hcs erefl wfB) -Ex rvZ_lZ.
- move=> c cB.
  have Hc := lZ_length c.
  have Hz : zlincomb n (lZ c) B = zeros n.
    apply: rvZ_eq0; first exact: zlincomb_length.
    by rewrite (rvZ_lincomb Hc erefl wfB) rvZ_lZ.
  by rewrite -(rvZ_lZ c) (indep _ Hc Hz) rvZ_zeros.
Qed.

(* ---------------- the rank of the precision of every Gaussian field ---------------- *)
From CV Require Import Proofs.C20_Gmrf2d Proofs.C20_Nullity.

(* the precision matrix of the field over the rationals *)
Definition precQ (dim : nat) (g : gmrf) : 'M[rat]_dim := map_mx zq (mxZ dim dim (g_prec g)).

(* one dimension: rank = dim - (0 | 1 | 2), whatever GMRF.__init__ reports *)
Theorem gmrf_true_rank_1d dim b order g :
  gmrf_init 1 dim b order = Some g ->
  periodic_too_small (eff_order order) (eff_bc order b) dim = false ->
  \rank (precQ dim g) = (dim - nullity_1d order b)%N.
Proof.
move=> Hg Hs; have [HL Hwf] := gmrf_prec_shape_1d _ _ _ _ Hg.
by rewrite /precQ (rank_of_null_basis_lists HL Hwf (gmrf_nullity_1d _ _ _ _ Hg Hs)) null_basis_1d_length.
Qed.

(* two dimensions: the nullities multiply (Kronecker structure) *)
Theorem gmrf_true_rank_2d N b order g :
  gmrf_init 2 (N * N) b order = Some g ->
  periodic_too_small (eff_order order) (eff_bc order b) N = false ->
  \rank (precQ (N * N) g) = (N * N - nullity_1d order b * nullity_1d order b)%N.
Proof.
move=> Hg Hs; have [HL Hwf] := gmrf_prec_shape_2d _ _ _ _ Hg.
by rewrite /precQ (rank_of_null_basis_lists HL Hwf (gmrf_nullity_2d _ _ _ _ Hg Hs)) null_basis_2d_length.
Qed.

(* the rank GMRF.__init__ reports IS the rank of its precision, outside the finding classes *)
Theorem gmrf_coded_rank_1d dim b order g :
  gmrf_init 1 dim b order = Some g -> gmrf_rank_defect order b dim = false ->
  \rank (precQ dim g) = g_rank g.
Proof.
move=> Hg Hd; have [HL Hwf] := gmrf_prec_shape_1d _ _ _ _ Hg.
have [HB Hr] := gmrf_rank_1d _ _ _ _ Hg Hd.
by rewrite /precQ (rank_of_null_basis_lists HL Hwf HB) -{1}Hr addnK.
Qed.

Theorem gmrf_coded_rank_2d N b order g :
  gmrf_init 2 (N * N) b order = Some g -> gmrf_rank_defect order b N = false ->
  \rank (precQ (N * N) g) = g_rank g.
Proof.
move=> Hg Hd; have [HL Hwf] := gmrf_prec_shape_2d _ _ _ _ Hg.
have [HB Hr] := gmrf_rank_2d _ _ _ _ Hg Hd.
by rewrite /precQ (rank_of_null_basis_lists HL Hwf HB) -{1}Hr addnK.
Qed.

(* and in the finding classes it is not, for every size *)
Theorem gmrf_coded_rank_order0_wrong dim b : (2 <= dim)%N -> b = Periodic \/ b = Neumann ->
  exists g, gmrf_init 1 dim b 0 = Some g /\ \rank (precQ dim g) = dim /\ g_rank g = dim.-1.
Proof.
move=> /ssrnat.leP Hd Hb; have [g [Hg [HB Hr]]] := gmrf_rank_order0_wrong _ _ Hd Hb.
exists g; split=> //; have [HL Hwf] := gmrf_prec_shape_1d _ _ _ _ Hg.
rewrite /precQ (rank_of_null_basis_lists HL Hwf HB) /= Hr; split; lia.
Qed.

Theorem gmrf_coded_rank_order2_neumann_wrong dim : (2 <= dim)%N ->
  exists g, gmrf_init 1 dim Neumann 2 = Some g /\ \rank (precQ dim g) = dim.-2 /\ g_rank g = dim.-1.
Proof.
move=> /ssrnat.leP Hd; have [g [Hg [HB Hr]]] := gmrf_rank_order2_neumann_wrong _ Hd.
exists g; split=> //; have [HL Hwf] := gmrf_prec_shape_1d _ _ _ _ Hg.
rewrite /precQ (rank_of_null_basis_lists HL Hwf HB) /= Hr; split; lia.
Qed.
