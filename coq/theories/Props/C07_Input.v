(* C07 -- property theorems about the INPUT FORMS of forward / adjoint / T / @ (Model/C07_Input.v): the identity matrix
   handed over as Samples reads off the matrix of the map ("the matrix representation reproduces the forward map column by
   column", and its transpose for adjoint), and the dtype of the result (the per-sample output buffer of the Samples branch
   is float64 whatever dtype the stored data have).  Each theorem is closed by `exact <lemma>` + Print Assumptions. *)
From CV Require Import Base.Tac Base.LinAlg Base.Cmp Base.QcLin Model.C07_Adj Model.C07_Input
  Proofs.C07_Lists Proofs.C07_Geom Proofs.C07_Model Proofs.C07_Conv Proofs.C07_Linear Proofs.C07_Deepen Proofs.C07_Input Proofs.C07_Conv2Lin.
From Coq Require Import QArith Qcanon.

Local Notation flip2 := C07_Adj.flip2.

(* forward(Samples(I)).samples is the column assembly of get_matrix -- for EVERY model: any backing, any geometry, also
   where a column raises (both sides None) *)
Theorem C07_forward_of_identity_columns : forall m : lmodel,
  forward_of_identity m = option_map (tr (par_dim (lm_R m))) (columns m).
Proof. exact forward_of_identity_columns. Qed.
Print Assumptions C07_forward_of_identity_columns.

(* ... hence for every function-backed model it IS get_matrix() *)
Theorem C07_forward_of_identity_get_matrix : forall m : lmodel, lm_mat m = None -> forward_of_identity m = get_matrix m.
Proof. exact forward_of_identity_get_matrix. Qed.
Print Assumptions C07_forward_of_identity_get_matrix.

(* adjoint(Samples(I)).samples is what the transposed model (built from the underlying callables) assembles *)
Theorem C07_adjoint_of_identity_get_matrix_T : forall (k : nat) (m : lmodel), lm_mat m = None ->
  adjoint_of_identity m = get_matrix (lmT2 k m).
Proof. exact adjoint_of_identity_get_matrix_T. Qed.
Print Assumptions C07_adjoint_of_identity_get_matrix_T.

(* whenever forward and adjoint are linear maps between parameter vectors satisfying <f x, y> = <x, g y> (no condition on
   geometries, backing, or T): adjoint(Samples(I)) is the structural transpose of forward(Samples(I)), which reproduces forward
   and is what get_matrix assembles *)
Theorem C07_samples_identity_transpose : forall (m : lmodel) (f g : list Qc -> list Qc),
  (forall x, length x = par_dim (lm_D m) -> forward m (V1 x) = Some (V1 (f x))) ->
  linear_map (par_dim (lm_D m)) (par_dim (lm_R m)) f ->
  (forall y, length y = par_dim (lm_R m) -> adjoint m (V1 y) = Some (V1 (g y))) ->
  linear_map (par_dim (lm_R m)) (par_dim (lm_D m)) g ->
  (forall x y, length x = par_dim (lm_D m) -> length y = par_dim (lm_R m) -> qdot (f x) y = qdot x (g y)) ->
  exists G, forward_of_identity m = Some G /\ adjoint_of_identity m = Some (tr (par_dim (lm_D m)) G) /\
            wf_mat (par_dim (lm_D m)) G /\ length G = par_dim (lm_R m) /\
            (forall x, length x = par_dim (lm_D m) -> qmatvec G x = f x) /\
            (lm_mat m = None -> get_matrix m = Some G).
Proof. exact samples_identity_transpose. Qed.
Print Assumptions C07_samples_identity_transpose.

(* all hypotheses discharged: every function pair through orthogonal geometries on either side (images in C or F order
   included) *)
Theorem C07_function_model_samples_identity : forall (n : nat) (M : list (list Qc)) (D R : geom),
  wf_geom D -> wf_geom R -> wf_mat n M -> n = fun_dim D -> length M = fun_dim R -> orth_geom D -> orth_geom R ->
  exists G, get_matrix (fun_model n M D R) = Some G /\
            forward_of_identity (fun_model n M D R) = Some G /\
            adjoint_of_identity (fun_model n M D R) = Some (tr (par_dim D) G) /\
            (forall x, length x = par_dim D -> forward (fun_model n M D R) (V1 x) = Some (V1 (qmatvec G x))).
Proof. exact fun_model_samples_identity. Qed.
Print Assumptions C07_function_model_samples_identity.

(* ... and every stored matrix between identity geometries: forward(Samples(I)) hands back the very matrix *)
Theorem C07_matrix_model_samples_identity : forall (n : nat) (A : list (list Qc)) (k : nat),
  wf_mat n A -> length A = k ->
  forward_of_identity (mat_model n A (GId n) (GId k)) = Some A /\
  adjoint_of_identity (mat_model n A (GId n) (GId k)) = Some (tr n A) /\
  get_matrix (mat_model n A (GId n) (GId k)) = Some A.
Proof. exact mat_model_samples_identity. Qed.
Print Assumptions C07_matrix_model_samples_identity.

(* ... a stored matrix through vector-valued orthogonal geometries: forward(Samples(I)) is the matrix of the PARAMETER map
   (what the repaired get_matrix assembles -- not the stored function-space matrix), adjoint(Samples(I)) its transpose *)
Theorem C07_matrix_model_vec_samples_identity : forall (n : nat) (A : list (list Qc)) (D R : geom),
  wf_geom D -> wf_geom R -> vec_geom D -> vec_geom R -> wf_mat n A -> n = fun_dim D -> length A = fun_dim R ->
  orth_geom D -> orth_geom R ->
  exists G, forward_of_identity (mat_model n A D R) = Some G /\
            adjoint_of_identity (mat_model n A D R) = Some (tr (par_dim D) G) /\
            get_matrix_gen false (mat_model n A D R) = Some G /\
            (forall x, length x = par_dim D -> forward (mat_model n A D R) (V1 x) = Some (V1 (qmatvec G x))).
Proof. exact mat_model_vec_samples_identity. Qed.
Print Assumptions C07_matrix_model_vec_samples_identity.

(* ... and Deconvolution1D's model as the check runs it (all five boundary modes, every PSF and size): forward(Samples(I)) is
   the matrix whose action is the documented convolution, adjoint(Samples(I)) its transpose *)
Theorem C07_deconv1_samples_identity : forall (bcm : bc) (P : list Qc) (n : nat),
  forward_of_identity (mat_model n (deconv1_matrix false bcm P n) (GId n) (GId n)) = Some (deconv1_matrix false bcm P n) /\
  adjoint_of_identity (mat_model n (deconv1_matrix false bcm P n) (GId n) (GId n)) = Some (tr n (deconv1_matrix false bcm P n)) /\
  (forall x, length x = n -> qmatvec (deconv1_matrix false bcm P n) x = conv1 bcm P x).
Proof. exact deconv1_samples_identity. Qed.
Print Assumptions C07_deconv1_samples_identity.

(* "the transposed model swaps the two consistently": also on the identity handed over as Samples, and in the result dtype *)
Theorem C07_transpose_swaps_samples_identity : forall (k : nat) (m : lmodel),
  forward_of_identity (lmT2 k m) = adjoint_of_identity m /\ adjoint_of_identity (lmT2 k m) = forward_of_identity m /\
  (forall f is_fun opdt xdt, forward_dt f is_fun opdt (lmT2 k m) xdt = adjoint_dt f is_fun opdt m xdt) /\
  (forall f is_fun opdt xdt, adjoint_dt f is_fun opdt (lmT2 k m) xdt = forward_dt f is_fun opdt m xdt).
Proof. exact transpose_swaps_samples_identity. Qed.
Print Assumptions C07_transpose_swaps_samples_identity.

(* a 2-d batch of columns handed to a matrix model AS IT IS (identity geometries): the result is the matrix product A X, and
   its j-th column is A applied to the j-th column of the batch -- batches are mapped column by column *)
Theorem C07_matrix_batch_columnwise : forall (n : nat) (A : list (list Qc)) (k c : nat) (l : list Qc),
  wf_mat n A -> length l = (c * n)%nat ->
  let X := chunks c n l in
  forward (mat_model n A (GId n) (GId k)) (V2 n c l) = Some (V2 (length A) c (concat (mmul c A X))) /\
  wf_mat c (mmul c A X) /\ length (mmul c A X) = length A /\
  (forall e, length e = c -> qmatvec (mmul c A X) e = qmatvec A (qmatvec X e)) /\
  (forall j, (j < c)%nat -> col (Q2Qc 0) (mmul c A X) j = qmatvec A (col (Q2Qc 0) X j)).
Proof. exact matrix_batch_columnwise. Qed.
Print Assumptions C07_matrix_batch_columnwise.

(* ---- Deconvolution2D's model as a map between parameter vectors ------------------------------------------- *)

(* pad + valid convolution through Image2D (order C) is LINEAR: all five boundary conditions, every PSF and size *)
Theorem C07_deconv2_map_linear : forall (bcm : bc) (S n : nat) (P : list (list Qc)),
  linear_map (n * n) (n * n) (d2_map bcm S n P) /\
  (forall x, length x = (n * n)%nat -> forward (deconv2_model bcm S n P) (V1 x) = Some (V1 (d2_map bcm S n P x))) /\
  (forall y, length y = (n * n)%nat -> adjoint (deconv2_model bcm S n P) (V1 y) = Some (V1 (d2_map bcm S n (flip2 P) y))).
Proof.
  intros bcm S n P. split; [exact (d2_map_linear bcm S n P)|].
  split; [intros x; exact (deconv2_forward_map bcm S n P x) | intros y; exact (deconv2_adjoint_map bcm S n P y)].
Qed.
Print Assumptions C07_deconv2_map_linear.

(* hence get_matrix() of the shipped 2-d problem -- assembled from forward(e_i) -- reproduces forward column by column, and is
   what forward(Samples(I)) returns: ALL FIVE boundary conditions, every PSF size (even included), every image size *)
Theorem C07_deconv2_get_matrix : forall (bcm : bc) (S n : nat) (P : list (list Qc)),
  exists G, get_matrix (deconv2_model bcm S n P) = Some G /\ forward_of_identity (deconv2_model bcm S n P) = Some G /\
    wf_mat (n * n) G /\ length G = (n * n)%nat /\
    (forall x, length x = (n * n)%nat -> forward (deconv2_model bcm S n P) (V1 x) = Some (V1 (qmatvec G x))) /\
    (forall j, (j < n * n)%nat -> forward (deconv2_model bcm S n P) (V1 (qunit (n * n) j)) = Some (V1 (col (Q2Qc 0) G j))).
Proof. exact deconv2_get_matrix. Qed.
Print Assumptions C07_deconv2_get_matrix.

(* ... and for odd PSF sizes adjoint(Samples(I)) is its transpose *)
Theorem C07_deconv2_samples_identity : forall (bcm : bc) (h n : nat) (P : list (list Qc)),
  periodic_or_zero bcm -> wf_mat (2 * h + 1) P -> length P = (2 * h + 1)%nat ->
  exists G, get_matrix (deconv2_model bcm (2 * h + 1) n P) = Some G /\
            forward_of_identity (deconv2_model bcm (2 * h + 1) n P) = Some G /\
            adjoint_of_identity (deconv2_model bcm (2 * h + 1) n P) = Some (tr (n * n) G) /\
            (forall x, length x = (n * n)%nat -> forward (deconv2_model bcm (2 * h + 1) n P) (V1 x) = Some (V1 (qmatvec G x))).
Proof. exact deconv2_samples_identity. Qed.
Print Assumptions C07_deconv2_samples_identity.

(* ... and under symmetric padding (BC = 'neumann') with a mirror-symmetric PSF of odd size *)
Theorem C07_deconv2_symmetric_samples_identity : forall (h n : nat) (P : list (list Qc)),
  wf_mat (2 * h + 1) P -> length P = (2 * h + 1)%nat -> rev P = P -> map (@rev Qc) P = P ->
  exists G, get_matrix (deconv2_model BSymmetric (2 * h + 1) n P) = Some G /\
            forward_of_identity (deconv2_model BSymmetric (2 * h + 1) n P) = Some G /\
            adjoint_of_identity (deconv2_model BSymmetric (2 * h + 1) n P) = Some (tr (n * n) G) /\
            (forall x, length x = (n * n)%nat -> forward (deconv2_model BSymmetric (2 * h + 1) n P) (V1 x) = Some (V1 (qmatvec G x))).
Proof. exact deconv2_sym_samples_identity. Qed.
Print Assumptions C07_deconv2_symmetric_samples_identity.

(* ---- dtype of the result ---------------------------------------------------------------------------- *)

(* the Samples branch returns float64 whatever dtype the Samples hold and whatever the operator stores *)
Theorem C07_samples_result_float64 : forall (is_fun : bool) (opdt : dtype) (rg dg : geom) (xdt : dtype),
  apply_dt FSamples is_fun opdt rg dg xdt = DF64.
Proof. exact samples_result_float64. Qed.
Print Assumptions C07_samples_result_float64.

(* float64 operator data (float matrices, the shipped test problems): float64 for every form, input dtype and geometry *)
Theorem C07_float64_operator_result : forall (f : form) (is_fun : bool) (rg dg : geom) (xdt : dtype),
  apply_dt f is_fun DF64 rg dg xdt = DF64.
Proof. exact float64_operator_result. Qed.
Print Assumptions C07_float64_operator_result.

(* an integer / bool result needs integer / bool operator data AND an integer / bool input, and never comes out of the
   Samples branch *)
Theorem C07_integer_result_only_from_integers : forall (f : form) (is_fun : bool) (opdt : dtype) (rg dg : geom) (xdt : dtype),
  is_float (apply_dt f is_fun opdt rg dg xdt) = false -> f <> FSamples /\ is_float opdt = false /\ is_float xdt = false.
Proof. exact integer_result_only_from_integers. Qed.
Print Assumptions C07_integer_result_only_from_integers.

(* non-vacuity: a 2x3 function pair through an F-order image domain; the int64-matrix / int32-Samples dtype case *)
Example C07_example_input :
  wf_geom (GImage 3 1 OF) /\ orth_geom (GImage 3 1 OF) /\ wf_mat 3 (zm [[1; 2; 3]; [0; 1; 1]]%Z) /\
  forward_of_identity (fun_model 3 (zm [[1; 2; 3]; [0; 1; 1]]%Z) (GImage 3 1 OF) (GId 2)) = Some (zm [[1; 2; 3]; [0; 1; 1]]%Z) /\
  adjoint_of_identity (fun_model 3 (zm [[1; 2; 3]; [0; 1; 1]]%Z) (GImage 3 1 OF) (GId 2)) = Some (zm [[1; 0]; [2; 1]; [3; 1]]%Z) /\
  apply_dt FSamples false DI64 (GId 2) (GId 3) DI32 = DF64 /\ apply_dt FArr false DI64 (GId 2) (GId 3) DI32 = DI64 /\
  is_float (apply_dt FBatch false DI64 (GId 2) (GStep [2; 1]%nat) DBool) = true.
Proof. repeat split; try (vm_compute; reflexivity); try exact I; repeat constructor. Qed.
