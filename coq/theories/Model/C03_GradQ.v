(* C03 -- every gradient equals the derivative of the log-density, or is refused.
   Part Q: the quadratic families over exact rationals (Gaussian in every parameterisation, GMRF,
   Gaussian/Lognormal likelihoods through linear and non-linear forward models and through a domain
   geometry that supplies its own derivative), the sum rule (Posterior, multiple-likelihood
   posterior), the forward-difference quotient, and the DISPATCH logic (which call returns a
   vector, which refuses, which returns NaN / None / a wrongly shaped object).
   The model follows the code as it is, including its defects; flags select the repaired variants.
   NO proofs in this file. *)
From CV Require Import Base.Tac Base.LinAlg Base.Cmp Base.QcLin.
From Coq Require Import QArith Qcanon Qabs.
Open Scope Qc_scope.

Definition qmat_t := list (list Qc).

(* ------------------------------------------------------------------------------------------
   Gaussian parameterisations *)
Inductive gparam := PScalar (a : Qc) | PVector (v : list Qc) | PMatrix (M : qmat_t).
Inductive gform := FCov | FPrec | FSqrtCov | FSqrtPrec.

Definition qdiag (v : list Qc) : qmat_t :=
  map (fun ia => qvscale (snd ia) (qunit (length v) (fst ia))) (combine (seq 0 (length v)) v).
Definition qident (n : nat) : qmat_t := qdiag (repeat 1 n).
Definition as_matrix (n : nat) (p : gparam) : qmat_t :=
  match p with PScalar a => qdiag (repeat a n) | PVector v => qdiag v | PMatrix M => M end.
Definition qbcast (n : nat) (m : list Qc) : list Qc := match m with [a] => repeat a n | _ => m end.

(* P is the precision matrix the parameterisation stands for (conventions of the code:
   cov = sqrtcov sqrtcov^T, prec = sqrtprec^T sqrtprec) -- checked exactly, no division *)
Definition implied_prec_ok (n : nat) (form : gform) (p : gparam) (P : qmat_t) : bool :=
  let M := as_matrix n p in
  match form with
  | FCov      => qcll_eqb (qmatmul n M P) (qident n)
  | FPrec     => qcll_eqb P M
  | FSqrtCov  => qcll_eqb (qmatmul n (qmatmul n M (qtranspose n M)) P) (qident n)
  | FSqrtPrec => qcll_eqb P (qmatmul n (qtranspose n M) M)
  end.

Definition symb (n : nat) (P : qmat_t) : bool := qcll_eqb (qtranspose n P) P.

(* precondition on the user's PARAMETER: symmetric where the parameter is the covariance / precision matrix itself
   (a square root may be any matrix).  With it the symmetry of the certificate P is a theorem (Proofs/C03_Forms.v). *)
Definition param_symb (n : nat) (form : gform) (p : gparam) : bool :=
  match form with FCov | FPrec => symb n (as_matrix n p) | FSqrtCov | FSqrtPrec => true end.

(* log-kernel and gradient of the Gaussian with precision matrix P and mean m *)
Definition half : Qc := qc (1 # 2).
Definition quad_logk (P : qmat_t) (m x : list Qc) : Qc :=
  let d := qvsub x m in - (half * qdot d (qmatvec P d)).
Definition quad_grad (P : qmat_t) (m x : list Qc) : list Qc := qvneg (qmatvec P (qvsub x m)).

(* what `Gaussian._gradient` returns for a constant mean, by parameterisation.
   fix29 = false: the code as it is -- `self.prec @ (val - mean)` with the RAW `prec` argument:
     prec scalar: (1,1) @ (n,) raises unless n = 1; prec vector: a dot product, i.e. a SCALAR;
     sqrtprec in any form: `self.prec` does not exist -> NotImplementedError.
   fix29 = true: gradient computed from sqrtprec, every form returns the vector. *)
Inductive gkind := KGrad | KRefused | KScalarDot.
Definition gauss_prior_kind (fix29 : bool) (form : gform) (p : gparam) (n : nat) : gkind :=
  if fix29 then KGrad else
  match form, p with
  | FSqrtPrec, _ => KRefused
  | FPrec, PScalar _ => if Nat.eqb n 1 then KGrad else KRefused
  | FPrec, PVector _ => KScalarDot
  | _, _ => KGrad
  end.
Definition gauss_scalar_dot (v m x : list Qc) : Qc := - qdot v (qvsub x m).

(* observation of one gradient call *)
Inductive obs := ObsVec (g : list Q) | ObsScalar (s : Q) | ObsRaised | ObsNone | ObsNaN | ObsMatrix (M : list (list Q)).

Definition vec_close (tol : Q) (o : list Q) (g : list Qc) : bool := ql_close tol o (map this g).

Definition check_gauss_prior (fix29 : bool) (form : gform) (p : gparam) (P : qmat_t)
           (m x : list Qc) (o : obs) : bool :=
  let n := length x in
  let mm := qbcast n m in
  implied_prec_ok n form p P && symb n P && param_symb n form p &&
  match gauss_prior_kind fix29 form p n, o with
  | KGrad, ObsVec g => vec_close tol9 g (quad_grad P mm x)
  | KRefused, ObsRaised => true
  | KScalarDot, ObsScalar s =>
      match p with PVector v => q_close tol9 s (this (gauss_scalar_dot v mm x)) | _ => false end
  | _, _ => false
  end.

(* magnitude sweep: comparison RELATIVE to the size of the vector (no absolute floor): |o_i - g_i| <= tol * max_j |g_j|
   (entry-wise relative comparison would reject the rounding of entries that cancel to zero) *)
Definition qmax (a b : Q) : Q := if Qle_bool a b then b else a.
Definition qmaxabs (l : list Q) : Q := fold_right (fun a m => qmax (Qabs.Qabs a) m) 0%Q l.
Definition q_close_rel (tol s a b : Q) : bool := Qle_bool (Qabs.Qabs (a - b)%Q) (tol * s)%Q.
Definition vec_close_rel (tol : Q) (o : list Q) (g : list Qc) : bool :=
  let gq := map this g in list_eqb (q_close_rel tol (qmaxabs gq)) o gq.
Definition check_gauss_prior_rel (form : gform) (p : gparam) (P : qmat_t) (m x : list Qc) (g : list Q) : bool :=
  let n := length x in
  implied_prec_ok n form p P && symb n P && vec_close_rel tol9 g (quad_grad P (qbcast n m) x).

(* logd(x1) - logd(x0) of the same object (the additive constant cancels) *)
Definition check_quad_logd_diff (P : qmat_t) (m x0 x1 : list Qc) (dobs : Q) : bool :=
  let n := length x0 in
  q_close tol9 dobs (this (quad_logk P (qbcast n m) x1 - quad_logk P (qbcast n m) x0)).

(* Gaussian._apply_prec (repair 2cdaac7) as the code computes it: sqrtprec.T @ (sqrtprec @ dev) -- the precision matrix
   is never formed.  For the sqrtprec parameterisation `sqrtprec` is the user's own parameter (scalar / vector / any
   matrix with n columns, NOT necessarily symmetric or triangular) and logpdf = -1/2 |sqrtprec (x - mean)|^2 + const.
   No certificate and no symmetry test enter this part of the model. *)
Definition apply_prec (n : nat) (R : qmat_t) (dev : list Qc) : list Qc := qmattvec n R (qmatvec R dev).
Definition sqrtprec_grad (n : nat) (R : qmat_t) (m x : list Qc) : list Qc := qvneg (apply_prec n R (qvsub x m)).
Definition sqrtprec_logk (R : qmat_t) (m x : list Qc) : Qc := - (half * qnormsq (qmatvec R (qvsub x m))).
Definition check_gauss_sqrtprec (p : gparam) (m x x1 : list Qc) (g : list Q) (dobs : Q) : bool :=
  let n := length x in
  let R := as_matrix n p in
  let mm := qbcast n m in
  vec_close tol9 g (sqrtprec_grad n R mm x) &&
  q_close tol9 dobs (this (sqrtprec_logk R mm x1 - sqrtprec_logk R mm x)).

(* ------------------------------------------------------------------------------------------
   GMRF: gradient -(prec * P_op) (x - mean), log-kernel -(prec/2) (x-mean)^T P_op (x-mean);
   P_op is the structure matrix the object holds, D its difference operator (P_op = D^T D) *)
Definition gmrf_grad (delta : Qc) (Pop : qmat_t) (m x : list Qc) : list Qc :=
  qvneg (qvscale delta (qmatvec Pop (qvsub x m))).
Definition gmrf_logk (delta : Qc) (Pop : qmat_t) (m x : list Qc) : Qc :=
  let d := qvsub x m in - (half * delta * qdot d (qmatvec Pop d)).
Definition check_gmrf_grad (delta : Qc) (Pop D : qmat_t) (m x : list Qc) (g : list Q) : bool :=
  let n := length x in
  let mm := qbcast n m in
  qcll_eqb Pop (qmatmul n (qtranspose n D) D) && symb n Pop &&
  vec_close tol9 g (gmrf_grad delta Pop mm x).
Definition check_gmrf (delta : Qc) (Pop D : qmat_t) (m x x1 : list Qc) (g : list Q) (dobs : Q) : bool :=
  let n := length x in
  let mm := qbcast n m in
  check_gmrf_grad delta Pop D m x g &&
  q_close tol9 dobs (this (gmrf_logk delta Pop mm x1 - gmrf_logk delta Pop mm x)).

(* ------------------------------------------------------------------------------------------
   likelihoods: data ~ Gaussian(F(theta), precision P) evaluated as a function of theta.
   Forward-model family  F(u) = A (u.u) + B u  (A = 0: linear model), Jacobian J(u) = 2 A diag(u) + B.
   Domain geometry: par2fun(theta) = ga theta^2 + gb theta + gc elementwise ((0,1,0) = identity);
   a geometry that supplies its own derivative multiplies by 2 ga theta + gb. *)
Fixpoint vmul (x y : list Qc) : list Qc :=
  match x, y with a :: x', b :: y' => (a * b) :: vmul x' y' | _, _ => [] end.
Definition fwd (A B : qmat_t) (u : list Qc) : list Qc := qvadd (qmatvec A (vmul u u)) (qmatvec B u).
Definition two : Qc := qcz 2.
Definition jact (n : nat) (A B : qmat_t) (u d : list Qc) : list Qc :=      (* J(u)^T d *)
  qvadd (vmul (qvscale two u) (qmattvec n A d)) (qmattvec n B d).
Definition geo_fun (ga gb gc : Qc) (th : list Qc) : list Qc := map (fun t => ga * t * t + gb * t + gc) th.
Definition geo_dfun (ga gb : Qc) (th : list Qc) : list Qc := map (fun t => two * ga * t + gb) th.

(* Gaussian._gradient, callable-mean branch: model.gradient(prec @ (data - F(theta)), theta), with
   Model.gradient = domain_geometry.gradient( J(par2fun theta)^T direction, theta ) *)
Definition lik_grad (A B : qmat_t) (ga gb gc : Qc) (P : qmat_t) (data th : list Qc) : list Qc :=
  let n := length th in
  let u := geo_fun ga gb gc th in
  vmul (geo_dfun ga gb th) (jact n A B u (qmatvec P (qvsub data (fwd A B u)))).
Definition lik_logk (A B : qmat_t) (ga gb gc : Qc) (P : qmat_t) (data th : list Qc) : Qc :=
  let r := qvsub data (fwd A B (geo_fun ga gb gc th)) in - (half * qdot r (qmatvec P r)).

(* as a likelihood `self.prec @ dev` is handed to model.gradient: a scalar (prec vector) or a shape
   error (prec scalar, m > 1) both end in an exception; sqrtprec forms have no `prec`.
   fix29 = true: prec applied through sqrtprec, every form returns the vector. *)
Definition lik_kind (fix29 : bool) (form : gform) (p : gparam) (m : nat) : gkind :=
  if fix29 then KGrad else
  match form, p with
  | FSqrtPrec, _ => KRefused
  | FPrec, PScalar _ => if Nat.eqb m 1 then KGrad else KRefused
  | FPrec, PVector _ => KRefused
  | _, _ => KGrad
  end.

(* `data` is the observed data for a Gaussian data distribution and log(observed data) -- supplied
   by the harness as the float numpy computed, a certificate -- for a Lognormal one *)
Definition check_lik (fix29 : bool) (form : gform) (p : gparam) (P A B : qmat_t) (ga gb gc : Qc)
           (data th th1 : list Qc) (o : obs) (dobs : Q) : bool :=
  let m := length data in
  implied_prec_ok m form p P && symb m P && param_symb m form p &&
  q_close tol9 dobs (this (lik_logk A B ga gb gc P data th1 - lik_logk A B ga gb gc P data th)) &&
  match lik_kind fix29 form p m, o with
  | KGrad, ObsVec g => vec_close tol9 g (lik_grad A B ga gb gc P data th)
  | KRefused, ObsRaised => true
  | _, _ => false
  end.

(* ------------------------------------------------------------------------------------------
   Lognormal prior with a full covariance: logpdf(x) = -sum ln x_i - 1/2 (ln x - m)^T P (ln x - m) + const,
   Lognormal._gradient = diag(1/x) (-1 + normal.gradient(ln x)).  lx = ln x is supplied as a certificate
   (the floats numpy computed); the model is the rational function of (x, lx). *)
Definition qvinv (x : list Qc) : list Qc := map (fun a => / a) x.
Definition lognormal_grad (P : qmat_t) (m x lx : list Qc) : list Qc :=
  vmul (qvinv x) (map (fun g => g - 1) (quad_grad P m lx)).
Definition qsum (l : list Qc) : Qc := fold_right Qcplus 0 l.
Definition lognormal_logk (P : qmat_t) (m lx : list Qc) : Qc := quad_logk P m lx - qsum lx.
Definition check_lognormal_prior (P : qmat_t) (m x lx x1 lx1 : list Qc) (g : list Q) (dobs : Q) : bool :=
  let n := length x in
  let mm := qbcast n m in
  symb n P && vec_close tol9 g (lognormal_grad P mm x lx) &&
  q_close tol9 dobs (this (lognormal_logk P mm lx1 - lognormal_logk P mm lx)).

(* ------------------------------------------------------------------------------------------
   dimensions where an explicit inverse is out of reach (sparse-storage / eigen-decomposition paths, dim > 75):
   symmetric operators applied to a vector without forming products of matrices, and CERTIFICATES: with a
   covariance-type operator C (precision C^-1) the gradient g is certified by the linear system it solves,
   C g = -(x - m); the logd difference by  logd(x1) - logd(x0) = <g0, dx> - 1/2 <dx, g0 - g1>  (P dx = g0 - g1). *)
Inductive bigop := OMat (M : qmat_t) | OGram (n : nat) (R : qmat_t)      (* R^T R, R with n columns *)
                 | OGramT (n : nat) (R : qmat_t)                          (* R R^T *)
                 | ODiag (v : list Qc) | OScal (a : Qc) | OScaled (a : Qc) (o : bigop).
Fixpoint apply_op (o : bigop) (v : list Qc) : list Qc :=
  match o with
  | OMat M => qmatvec M v
  | OGram n R => qmattvec n R (qmatvec R v)
  | OGramT n R => qmatvec R (qmattvec n R v)
  | ODiag d => vmul d v
  | OScal a => qvscale a v
  | OScaled a o' => qvscale a (apply_op o' v)
  end.
(* inverse = false: the operator is the precision; inverse = true: it is the covariance *)
Definition check_big (inverse : bool) (o : bigop) (m x : list Qc) (g : list Q) : bool :=
  let e := qvsub x (qbcast (length x) m) in
  if inverse then ql_close tol9 (map this (apply_op o (qvec g))) (map this (qvneg e))
  else vec_close tol9 g (qvneg (apply_op o e)).
Definition check_big_logd (g0 g1 : list Q) (x0 x1 : list Qc) (dobs : Q) : bool :=
  let dx := qvsub x1 x0 in
  q_close tol9 dobs (this (qdot (qvec g0) dx - half * qdot dx (qvsub (qvec g0) (qvec g1)))).
(* likelihood through a linear model B (k x n): w certifies P (data - B theta) (checked through the operator), g = B^T w *)
Definition check_big_lik (inverse : bool) (o : bigop) (n : nat) (B : qmat_t) (data th : list Qc) (w g : list Q) : bool :=
  let r := qvsub data (qmatvec B th) in
  (if inverse then ql_close tol9 (map this (apply_op o (qvec w))) (map this r)
   else vec_close tol9 w (apply_op o r)) &&
  vec_close tol9 g (qmattvec n B (qvec w)).

(* ------------------------------------------------------------------------------------------
   sum rule: Posterior._gradient = likelihood.gradient + prior.gradient;
   MultipleLikelihoodPosterior.gradient = sum over all densities *)
Fixpoint qlvadd (x y : list Q) : list Q :=
  match x, y with a :: x', b :: y' => (a + b)%Q :: qlvadd x' y' | _, _ => [] end.
Definition sum_grads (parts : list (list Q)) : list Q :=
  match parts with [] => [] | p :: rest => fold_left qlvadd rest p end.
Definition check_sum (parts : list (list Q)) (total : list Q) : bool := ql_close tol9 total (sum_grads parts).
Definition check_sum_logd (dparts : list Q) (dtotal : Q) : bool :=
  q_close tol9 dtotal (fold_left Qplus dparts 0%Q).

(* factors of any kind (Likelihood, UserDefinedLikelihood, distribution, UserDefinedDistribution, EvaluatedDensity):
   the posterior's gradient is the sum over ALL factors its logd sums over; if any factor refuses (no user
   gradient function, an EvaluatedDensity) the sum refuses.  guard = the Posterior's own geometry guard passes
   (a multiple-likelihood posterior has none: guard = true). *)
Fixpoint all_vecs (os : list obs) : option (list (list Q)) :=
  match os with
  | [] => Some []
  | ObsVec g :: r => match all_vecs r with Some gs => Some (g :: gs) | None => None end
  | _ :: _ => None
  end.
(* a factor evaluated outside its support hands back a NaN vector: the sum is then NaN (numpy addition), unless some
   other factor refuses, which refuses the whole call *)
Definition is_vec_or_nan (o : obs) : bool := match o with ObsVec _ | ObsNaN => true | _ => false end.
Definition is_nan_obs (o : obs) : bool := match o with ObsNaN => true | _ => false end.
Definition check_sum_obs (guard : bool) (parts : list obs) (total : obs) : bool :=
  if negb guard || negb (forallb is_vec_or_nan parts) then match total with ObsRaised => true | _ => false end
  else if existsb is_nan_obs parts then is_nan_obs total
  else match all_vecs parts, total with Some gs, ObsVec t => check_sum gs t | _, _ => false end.

(* ------------------------------------------------------------------------------------------
   forward-difference fallback: entry i is (logd(x + eps e_i) - logd(x)) / eps of the SAME logd *)
Definition fd_quot (eps f0 fi : Q) : Q := ((fi - f0) / eps)%Q.
Definition check_fd (eps f0 : Q) (fis obsg : list Q) : bool := ql_close tol9 obsg (map (fd_quot eps f0) fis).

(* ------------------------------------------------------------------------------------------
   dispatch: which kind of object a gradient call produces *)
Inductive dfam := DGaussian | DGMRF | DCMRF | DCauchy | DBeta | DInvGamma | DLognormal | DSmoothedLaplace
                | DMHN | DUniform | DUserWithGrad | DUserNoGrad | DNoAnalytic.
Inductive geomk := GeoIdentity | GeoWithGradient | GeoOther.
(* the location-type parameter: a constant, a cuqi Model (has .gradient), or a plain callable *)
Inductive meank := MeanConst | MeanModel | MeanCallable.
Inductive outcome := OGrad | OFD | ORefused | ONone | ONaN.

Record fixes := { fix8_gmrf : bool;        (* GMRF: the NotImplementedError is actually raised *)
                  fix8_gauss : bool;       (* Gaussian: raise instead of warn + None *)
                  fix8_lognormal : bool;   (* Lognormal: raise instead of warn + None *)
                  fix8_cmrf : bool }.      (* CMRF: raise instead of warn + None *)
Definition all_fixed : fixes := {| fix8_gmrf := true; fix8_gauss := true; fix8_lognormal := true; fix8_cmrf := true |}.
Definition none_fixed : fixes := {| fix8_gmrf := false; fix8_gauss := false; fix8_lognormal := false; fix8_cmrf := false |}.

(* Cauchy, SmoothedLaplace and Uniform override `gradient` itself: the FD switch is not consulted *)
Definition overrides_gradient (f : dfam) : bool :=
  match f with DCauchy | DSmoothedLaplace | DUniform => true | _ => false end.
(* families whose support is a proper subset *)
Definition bounded_support (f : dfam) : bool :=
  match f with DCauchy | DBeta | DInvGamma | DLognormal | DMHN | DUniform => true | _ => false end.

Definition none_or_refuse (fixed : bool) : outcome := if fixed then ORefused else ONone.

(* route of the call.  RDirect: dist.gradient(x) on the distribution itself (for a callable location-type
   parameter the conditioning variable is NOT supplied).  RLik: dist.to_likelihood(data).gradient(theta)
   (positional), meaningful only for a callable location-type parameter. *)
Inductive route := RDirect | RLik.

(* cond = some parameter other than the location-type one is unspecified (None).
   insupp = evaluation point (data, for RLik) and parameters inside the support. *)
Definition analytic (fx : fixes) (f : dfam) (g : geomk) (m : meank) (r : route) (cond insupp : bool) : outcome :=
  let idgeo := match g with GeoIdentity => true | _ => false end in
  let okgeo := match g with GeoOther => false | _ => true end in
  match m with
  | MeanConst =>
      match f with
      | DGaussian => if negb okgeo then ORefused else if cond then ORefused else OGrad
      | DGMRF | DCMRF => if negb idgeo then ORefused else if cond then ORefused else OGrad
      | DCauchy | DBeta | DInvGamma | DLognormal =>
          if negb idgeo then ORefused else if cond then ORefused else if insupp then OGrad else ONaN
      | DSmoothedLaplace => if cond then ORefused else OGrad
      | DMHN | DUniform => if cond then ORefused else if insupp then OGrad else ONaN
      | DUserWithGrad => OGrad
      | DUserNoGrad | DNoAnalytic => ORefused
      end
  | _ =>
      match f, r with
      | DGaussian, RLik =>
          if negb okgeo then ORefused else
          match m with MeanModel => if cond then ORefused else OGrad | _ => none_or_refuse (fix8_gauss fx) end
      | DGaussian, RDirect =>
          if negb okgeo then ORefused else
          match m with MeanModel => ORefused | _ => none_or_refuse (fix8_gauss fx) end
      | DLognormal, RLik =>
          if negb idgeo then ORefused else
          match m with MeanModel => if cond then ORefused else if insupp then OGrad else ONaN
                     | _ => none_or_refuse (fix8_lognormal fx) end
      | DLognormal, RDirect =>
          if negb idgeo then ORefused else
          match m with MeanModel => ORefused | _ => none_or_refuse (fix8_lognormal fx) end
      | DGMRF, RDirect => if negb idgeo then ORefused else none_or_refuse (fix8_gmrf fx)
      | DCMRF, RDirect => if negb idgeo then ORefused else none_or_refuse (fix8_cmrf fx)
      | _, _ => ORefused       (* signature mismatch (GMRF/CMRF through a likelihood), is_cond guard, arithmetic on a callable *)
      end
  end.

Definition dispatch (fx : fixes) (f : dfam) (g : geomk) (m : meank) (r : route) (cond fd insupp : bool) : outcome :=
  let fdres := if cond then ORefused else if insupp || negb (bounded_support f) then OFD else ONaN in
  match m, r with
  | MeanConst, _ => if fd && negb (overrides_gradient f) then fdres else analytic fx f g m r cond insupp
  | _, RLik =>       (* Likelihood.gradient consults the switch itself: approx_gradient(likelihood.logd, theta) *)
      if fd then (match f with DMHN => ORefused | _ => fdres end) else analytic fx f g m r cond insupp
  | _, RDirect =>    (* approx_gradient(self.logd, x): the conditioning variable is missing *)
      if fd && negb (overrides_gradient f) then ORefused else analytic fx f g m r cond insupp
  end.

Definition outcome_eqb (a b : outcome) : bool :=
  match a, b with
  | OGrad, OGrad | OFD, OFD | ORefused, ORefused | ONone, ONone | ONaN, ONaN => true
  | _, _ => false
  end.
Definition check_dispatch (fx : fixes) (f : dfam) (g : geomk) (m : meank) (r : route) (cond fd insupp : bool) (o : outcome) : bool :=
  outcome_eqb (dispatch fx f g m r cond fd insupp) o.
