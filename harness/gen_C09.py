"""C09 -- Gibbs sweeps draw each block from its conditional given the current other blocks.

Correspondence: cuqi.experimental.mcmc.HybridGibbs and cuqi.sampler.Gibbs  vs  Model/C09_Gibbs.v.

Joint targets are built from harness-defined Distribution subclasses (QD) with dyadic quadratic log-densities whose
location is a callable of other blocks (hyper-parameters entering priors) and from data factors conditioned on observed
data (hyper-parameters entering likelihoods); all arithmetic is exact in binary64, so everything is compared EXACTLY.
Block samplers driven:
  * recording samplers (subclasses of the experimental Sampler / plain legacy classes) that log, at every step() call,
    the target they hold (its logd at probe points), Gibbs' current_samples and their own current_point, and then move to
    a scripted value;
  * the real cuqi.experimental.mcmc.MH and cuqi.sampler.MH with a scripted proposal draw and scripted uniform
    (the model contains their accept rule, including the cached current_target_logd HybridGibbs restores);
  * the real cuqi.experimental.mcmc.Direct on a leaf block (the draw of the test distribution depends on the conditional);
  * a subclass of the experimental NUTS with a recording step(), to exercise HybridGibbs' NUTS branch.
Independent oracle (plain Python, Fractions, works on the observed trace only): every block visited once per sweep in
par_names order with the configured number of transitions; the target held at block i equals the joint with the others at
their most recent values (already updated ones new, the rest old); the first transition starts from the block's current
value; the stored sweep is the tuple after the sweep; continuation resumes from the last stored values; tune schedule; and
for MH-type blocks: the cached target evaluation equals the target's value at the current point when the update starts.
"""
import io, contextlib, math, itertools
from fractions import Fraction
import numpy as np
from common import *

IMPORTS = "From CV Require Import Base.Cmp Model.C09_Gibbs Model.C09_Gibbs2 Model.C09_Legacy2.\nFrom Coq Require Import QArith.\nLocal Open Scope Q_scope."
RULE = ("EXACT cells on dyadic quadratic joints (2-4 blocks, dims 1-2, cycles, indefinite own terms, 0-2 data factors, names "
        "shuffled, strategy dict order != par_names, density declaration order varied): 15 HybridGibbs + 9 legacy base cells, "
        "num_sampling_steps lattice {missing,1,2,3}^2, legacy tuple-group lattice, two-parent priors, scale 2^-40..2^40, fine-move "
        "2^-20/-30/-36, partial-move, initial points default/array/plain number/zero/int64/binary32/strided/read-only, reuse of a joint "
        "object by a second sampler, sample(0), warmup(0), warmup(1), num_sampling_steps with 0 / missing / numpy integers, a synthetic "
        "sampler that precomputes from its target when initialised; REAL cells: 21 HybridGibbs (Conjugate, LinearRTO [zero noise and "
        "scripted normals], UGLA and RegularizedLinearRTO [non-negative least squares] draws computed by the model from the CURRENT other "
        "blocks; precomputed systems / Gamma parameters of every precomputing class compared with independent closed forms; "
        "MH/CWMH/MALA/ULA/NUTS cached logd+gradient in the model state; PCN, ConjugateApprox, Direct opaque in Coq) + 5 legacy "
        "(LinearRTO and Conjugate draws computed by the model, tuple keys adjacent/separated; NUTS, MH opaque), x on scales "
        "2^-40..2^20; 2 fixed witnesses. Per run one case for the whole trace, plus one for cached evaluations and one for get_samples. "
        "distinct = distinct (target, assignment, script/seed, call sequence, check); trivial = the 4 oracle-only cache probes and the "
        "Python-only cache cases of the REAL cells")


SIG_STALE = "HybridGibbs.step|restored-cached-target-evaluation-of-previous-conditional:%s"
NAMES = ["x", "s", "d", "w"]


# ------------------------------------------------------------------------------------------
# exact helpers
# ------------------------------------------------------------------------------------------
def S(v):
    """position-weighted sum (separates permuted entries)"""
    v = np.asarray(v).ravel()
    return sum((i + 1) * a for i, a in enumerate(v))


def Sf(v):
    return sum((i + 1) * Fraction(a) for i, a in enumerate(v))


def fr(x):
    return frac(float(x))


def dy(rng, lo, hi, den):
    """random dyadic in [lo, hi] with denominator den"""
    return rng.randint(lo * den, hi * den) / den


def rvec(rng, dim, lo=-2, hi=2, den=4):
    return [dy(rng, lo, hi, den) for _ in range(dim)]


def joint_py(spec, asg):
    """joint log-density at a complete assignment (list of vectors): plain Fractions, no cuqi"""
    tot = Fraction(0)
    sg = [Fraction(x) for x in spec.get("sig", [1] * len(spec["names"]))]       # block i lives on the scale sig[i] (a power of two)
    for f in spec["factors"]:
        T = Fraction(f["b"]) + sum(Fraction(a) * Sf(asg[j]) / sg[j] for j, a in f["par"])
        s = Sf(asg[f["x"][1]]) / sg[f["x"][1]] if f["x"][0] == "blk" else Sf(f["x"][1])
        tot += Fraction(f["c"]) + Fraction(f["m"]) * T + Fraction(f["q"]) * T * s + Fraction(f["r"]) * s * s + Fraction(f["l"]) * s
    return tot


# ------------------------------------------------------------------------------------------
# cuqi-side classes (built lazily: cuqi is imported by bin/check after the repo path is known)
# ------------------------------------------------------------------------------------------
_CL = {}


def _pop(script, point):
    """next scripted item; when the implementation makes more transitions than configured the script is exhausted:
    continue with a neutral item so that the trace oracle can report the surplus transitions"""
    if script:
        return script.pop(0)
    d = len(np.asarray(point).ravel())
    return {"vec": [0.0] * d, "u": 0.5, "acc": 1}


def classes():
    import cuqi
    if _CL.get("mod") is cuqi:
        return _CL
    from cuqi.distribution import Distribution
    from cuqi.geometry import _DefaultGeometry1D, Geometry
    from cuqi.experimental.mcmc import Sampler, MH, Direct, NUTS

    class QD(Distribution):
        """logpdf(x) = c + m T + q T S(x) + r S(x)^2 + l S(x),  T = loc (number, or callable of other variables)"""

        def __init__(self, loc, co, dim, name, zsrc=None, sig=1.0):
            super().__init__(name=name, geometry=dim)
            self.loc = loc
            self._co = co
            self._zsrc = zsrc
            self._sig = sig                       # the variable enters through S(x) / sig (sig a power of two: exact)

        def logpdf(self, x):
            c, m, q, r, l = self._co
            T = self.loc
            T = float(T) if np.ndim(T) == 0 else S(T)
            sx = S(x) / self._sig
            return c + m * T + q * T * sx + r * sx * sx + l * sx

        def _sample(self, N=1, rng=None):
            # "exact" draw of the test distribution: the scripted z shifted by a quantity that depends on the
            # conditional (logd(1..1) - logd(0..0)), so the value reveals which conditional was sampled
            z = np.asarray(self._zsrc["z"], dtype=float)
            return z + (self.logd(np.ones(self.dim)) - self.logd(np.zeros(self.dim)))

    class Prop(Distribution):
        """symmetric scripted proposal: sample() returns the holder's current xi"""

        def __init__(self, dim, holder):
            super().__init__(name="prop", geometry=dim, is_symmetric=True)
            self._holder = holder

        def logpdf(self, x):
            return 0.0

        def _sample(self, N=1, rng=None):
            return np.asarray(self._holder["xi"], dtype=float)

    class RecX(Sampler):
        KIND = "KRec"

        def __init__(self, tr, blk, script, scale=1.0, **kw):
            super().__init__(**kw)
            self._tr, self._blk, self._script, self.scale = tr, blk, script, scale

        def _initialize(self):
            pass

        def validate_target(self):
            pass

        def step(self):
            self._tr.on_step(self)
            it = _pop(self._script, self.current_point)
            self.current_point = np.asarray(it["vec"], dtype=float)
            return it["acc"]

        def tune(self, skip_len, update_count):
            self._tr.tunes[self._blk].append([int(skip_len), int(update_count), len(self._acc)])
            self.scale = self.scale / 2

    class MHx(MH):
        KIND = "KMH"

        def __init__(self, tr, blk, script, holder, holders, **kw):
            super().__init__(**kw)
            self._tr, self._blk, self._script, self._holder, self._holders = tr, blk, script, holder, holders

        def step(self):
            self._tr.on_step(self)
            it = _pop(self._script, self.current_point)
            self._holder["xi"], self._holder["u"] = it["vec"], it["u"]
            self._holders["active"] = self._holder
            return super().step()

        def tune(self, skip_len, update_count):
            self._tr.tunes[self._blk].append([int(skip_len), int(update_count), len(self._acc)])
            self.scale = self.scale / 2

    class DirectX(Direct):
        KIND = "KDirect"

        def __init__(self, tr, blk, script, zsrc, scale=1.0, **kw):
            super().__init__(**kw)
            self._tr, self._blk, self._script, self._zsrc, self.scale = tr, blk, script, zsrc, scale

        def step(self):
            self._tr.on_step(self)
            it = _pop(self._script, self.current_point)
            self._zsrc["z"] = it["vec"]
            return super().step()

        def tune(self, skip_len, update_count):
            self._tr.tunes[self._blk].append([int(skip_len), int(update_count), len(self._acc)])
            self.scale = self.scale / 2

    class PreX(Sampler):
        """precomputes from its target in _initialize (as UGLA / LinearRTO / NUTS do) and uses the precomputed value in step():
        draw = scripted vector + (logd(1..1) - logd(0..0)) of the target it was last (re-)initialised with"""
        KIND = "KPre"

        def __init__(self, tr, blk, script, scale=1.0, **kw):
            super().__init__(**kw)
            self._tr, self._blk, self._script, self.scale = tr, blk, script, scale

        def _initialize(self):
            d = self.target.dim
            self._pre = float(np.ravel(self.target.logd(np.ones(d)))[0]) - float(np.ravel(self.target.logd(np.zeros(d)))[0])

        def validate_target(self):
            pass

        def step(self):
            self._tr.on_step(self)
            it = _pop(self._script, self.current_point)
            self.current_point = np.asarray(it["vec"], dtype=float) + self._pre
            return it["acc"]

        def tune(self, skip_len, update_count):
            self._tr.tunes[self._blk].append([int(skip_len), int(update_count), len(self._acc)])
            self.scale = self.scale / 2

    class NutsX(NUTS):
        """takes HybridGibbs' isinstance(sampler, NUTS) branch; the transition itself is a recording one"""
        KIND = "KNuts"

        def __init__(self, tr, blk, script, scale=1.0, **kw):
            super().__init__(**kw)
            self._tr, self._blk, self._script, self.scale = tr, blk, script, scale

        def _initialize(self):
            self._epsilon, self._epsilon_bar, self._H_bar = 1.0, 1.0, 0.0
            self.current_target_logd, self.current_target_grad = 0.0, 0.0
            self.num_tree_node_list, self.epsilon_list, self.epsilon_bar_list = [], [], []

        def validate_target(self):
            pass

        def _pre_warmup(self):
            pass

        def _pre_sample(self):
            pass

        def step(self):
            self._tr.on_step(self)
            it = _pop(self._script, self.current_point)
            self.current_point = np.asarray(it["vec"], dtype=float)
            return it["acc"]

        def tune(self, skip_len, update_count):
            self._tr.tunes[self._blk].append([int(skip_len), int(update_count), len(self._acc)])
            self.scale = self.scale / 2

    _CL.update(mod=cuqi, QD=QD, Prop=Prop, KRec=RecX, KMH=MHx, KDirect=DirectX, KNuts=NutsX, KPre=PreX)
    return _CL


def build_joint(spec, zsrcs=None):
    """cuqi JointDistribution of the spec (priors in par_names order, then data factors conditioned on their data)"""
    from cuqi.distribution import JointDistribution
    QD = classes()["QD"]
    names = spec["names"]
    sig = spec.get("sig", [1.0] * len(names))

    def loc_of(f):
        if not f["par"]:
            return float(f["b"])
        argn = [names[j] for j, _ in f["par"]]
        src = "def _f(%s, _a=_a, _b=_b, _S=_S, _g=_g):\n    return _b + %s\n" % (
            ", ".join(argn), " + ".join("_a[%d]*(_S(%s)/_g[%d])" % (k, n, k) for k, n in enumerate(argn)))
        env = {"_a": tuple(float(a) for _, a in f["par"]), "_b": float(f["b"]), "_S": S, "_g": tuple(float(sig[j]) for j, _ in f["par"])}
        exec(src, env)
        return env["_f"]

    dens, data = [], {}
    nd = 0
    for f in spec["factors"]:
        co = tuple(float(f[k]) for k in ("c", "m", "q", "r", "l"))
        if f["x"][0] == "blk":
            i = f["x"][1]
            dens.append(QD(loc_of(f), co, spec["dims"][i], names[i], zsrc=(zsrcs or {}).get(i), sig=float(sig[i])))
        else:
            nm = "y%d" % nd
            nd += 1
            dens.append(QD(loc_of(f), co, len(f["x"][1]), nm))
            data[nm] = np.asarray(f["x"][1], dtype=float)
    # declaration order of the densities: by default priors (par_names order) then data factors; spec["data_pos"] puts the
    # data factors in between (the joint's parameter order stays the order of the priors among themselves)
    pos = spec.get("data_pos")
    if pos:
        k = len(names)
        pri, dat = dens[:k], dens[k:]
        out, di = [], 0
        for slot in range(k + 1):
            while di < len(dat) and pos[di] == slot:
                out.append(dat[di])
                di += 1
            if slot < k:
                out.append(pri[slot])
        dens = out + dat[di:]
    J = JointDistribution(*dens)
    return J(**data) if data else J


class Trace:
    def __init__(self, spec, probes, legacy=False):
        self.spec, self.probes = spec, probes
        self.events = []
        self.tunes = [[] for _ in spec["names"]]
        self.G = None
        self.cur = None           # legacy: the dict Gibbs.step mutates

    def snapshot(self):
        src = self.G.current_samples if self.cur is None else self.cur
        return [[float(a) for a in np.asarray(src[n]).ravel()] for n in self.spec["names"]]

    def on_step(self, smp):
        i = smp._blk
        ev = {"blk": i, "cur": self.snapshot(),
              "probes": [float(np.nan_to_num(float(np.ravel(smp.target.logd(np.asarray(p, dtype=float)))[0]), nan=0.0)) for p in self.probes[i]],
              "pt": [float(a) for a in np.asarray(smp.current_point).ravel()], "cache": None}
        if smp.KIND == "KMH":
            ev["cache"] = float(smp.current_target_logd)
            ev["fresh"] = float(smp.target.logd(smp.current_point))
        self.events.append(ev)

    def on_lstep(self, blk, target, x, extra=None):
        ev = {"blk": blk, "cur": self.snapshot(),
              "probes": [float(target.logd(np.asarray(p, dtype=float))) for p in self.probes[blk]],
              "pt": [float(a) for a in np.asarray(x).ravel()], "cache": None}
        self.events.append(ev)


class _Rand:
    """numpy.random.rand() -> the holder's current u (MH's uniform)"""

    def __init__(self, holders):
        self.h = holders

    def __call__(self, kind, a, k, idx):
        if kind == "rand" and self.h.get("active") is not None:
            return self.h["active"]["u"]
        return None


# ------------------------------------------------------------------------------------------
# HybridGibbs driver
# ------------------------------------------------------------------------------------------
def styled(v, style):
    """the same initial point in another declaration style: dtype / memory layout / container"""
    v = np.asarray(v, dtype=float)
    if style == "int" and np.all(v == np.round(v)):
        return v.astype(np.int64)
    if style == "f32":
        return v.astype(np.float32)             # the harness only uses values exactly representable in binary32 here
    if style == "view":
        buf = np.zeros(2 * len(v) + 1)
        buf[1::2] = v
        return buf[1::2]                        # non-contiguous view
    if style == "ro":
        w = v.copy()
        w.setflags(write=False)                 # read-only array: nobody may write into the user's initial point
        return w
    return v


def run_hybrid(meta, target=None):
    """run the real HybridGibbs on the scenario; returns the observation dict (json-able).  target: a joint that an earlier
    Gibbs sampler has already been built on and run with (object reuse), else a fresh one"""
    import cuqi
    from cuqi.experimental.mcmc import HybridGibbs
    C = classes()
    spec = meta["spec"]
    k = len(spec["names"])
    tr = Trace(spec, meta["probes"])
    zsrcs = {i: {"z": [0.0] * spec["dims"][i]} for i in range(k) if meta["kinds"][i] == "KDirect"}
    if target is None:
        target = build_joint(spec, zsrcs)
        if meta.get("reuse_target") and not zsrcs:
            import copy as _copy
            first = _copy.deepcopy({kk: vv for kk, vv in meta.items() if kk != "reuse_target"})
            first["inits"] = [None if v is None else [a + 1.0 * spec.get("sig", [1.0] * k)[i] for a in v] for i, v in enumerate(first["inits"])]
            run_hybrid(first, target=target)                   # a first sampler uses (and is thrown away with) the same joint object
    # per-block scripts: the samplers pop their items in call order
    scripts = [[it for sw in meta["script"] for it in sw[i]] for i in range(k)]
    holders = {"active": None}
    strategy = {}
    for i, nm in enumerate(spec["names"]):
        kind = meta["kinds"][i]
        ip = None if meta["inits"][i] is None else np.asarray(meta["inits"][i], dtype=float)
        if ip is not None and meta.get("init_scalar", [False] * k)[i]:
            ip = float(ip[0])                       # a plain number, as in MH(initial_point=3): HybridGibbs keeps it as it is
        elif ip is not None:
            ip = styled(ip, meta.get("init_style", [None] * k)[i])
        if kind == "KMH":
            h = {"xi": None, "u": None}
            smp = C["KMH"](tr, i, scripts[i], h, holders, proposal=C["Prop"](spec["dims"][i], h), scale=meta["scales"][i], initial_point=ip)
        elif kind == "KDirect":
            smp = C["KDirect"](tr, i, scripts[i], zsrcs[i], scale=meta["scales"][i], initial_point=ip)
        else:
            smp = C[kind](tr, i, scripts[i], scale=meta["scales"][i], initial_point=ip)
        strategy[nm] = smp
    if len(meta["script"]) % 2:                      # declaration order of the strategy dict is not par_names order
        strategy = {nm: strategy[nm] for nm in sorted(strategy)}
    nss = meta["num_steps"]
    nsd = None if nss is None else {spec["names"][i]: (np.int64(n) if meta.get("nss_np") else n) for i, n in enumerate(nss) if n is not None}
    obs = {"error": None}
    sink = io.StringIO()
    try:
        with contextlib.redirect_stdout(sink), ScriptedRandom(seed=1, script=_Rand(holders)):
            G = HybridGibbs(target, strategy, nsd)
            tr.G = G
            obs["par_names"] = list(G.par_names)
            obs["init_cur"] = tr.snapshot()
            for op in meta["ops"]:
                if op[0] == "sample":
                    G.sample(op[1])
                else:
                    G.warmup(op[1]) if op[2] == 0.1 else G.warmup(op[1], tune_freq=op[2])       # 0.1 is the default: left out
        obs["events"] = tr.events
        obs["cur"] = tr.snapshot()
        obs["stored_lens"] = [len(G.samples[n]) for n in spec["names"]]
        nsw = min(obs["stored_lens"])
        obs["stored"] = [[[float(a) for a in np.asarray(G.samples[n][t]).ravel()] for n in spec["names"]] for t in range(nsw)]
        ss = []
        for i, nm in enumerate(spec["names"]):
            smp = G.samplers[nm]
            ss.append({"pt": [float(a) for a in np.asarray(smp.current_point).ravel()],
                       "cache": float(smp.current_target_logd) if meta["kinds"][i] == "KMH" else None,
                       "scale": float(smp.scale), "acc": [int(a) for a in smp._acc], "tunes": tr.tunes[i],
                       "init": [float(a) for a in np.asarray(smp.initial_point).ravel()],
                       "leftover": len(scripts[i])})
        obs["samplers"] = ss
        try:
            gs = G.get_samples()
            ok = all(np.array_equal(np.asarray(gs[n].samples).reshape(spec["dims"][i], nsw),
                                    np.array([r[i] for r in obs["stored"]]).T.reshape(spec["dims"][i], nsw))
                     for i, n in enumerate(spec["names"])) if nsw else True
            obs["get_samples"] = "ok" if ok else "returns other values than the stored sweeps"
        except Exception as e:      # noqa
            obs["get_samples"] = "raised %s: %s" % (type(e).__name__, str(e)[:120])
        obs["stored_shapes"] = [[list(np.shape(G.samples[n][t])) for n in spec["names"]] for t in range(nsw)]
    except Exception as e:          # noqa
        obs["error"] = "%s: %s" % (type(e).__name__, e)
        obs["events"] = tr.events
    return obs


def tune_interval_py(freq, nb):
    return max(int(Fraction(*float(freq).as_integer_ratio()) * nb), 1)


def oracle_hybrid(meta, obs):
    """the property itself on the observed trace (plain Python).  Returns (None, None) or (detail, signature)."""
    spec = meta["spec"]
    k = len(spec["names"])
    if obs.get("error"):
        return "HybridGibbs raised %s" % obs["error"], "HybridGibbs|raised"
    if obs["par_names"] != spec["names"]:
        return "par_names %s differ from the order of the priors %s" % (obs["par_names"], spec["names"]), "HybridGibbs|par_names"
    nst = [1 if (meta["num_steps"] is None or meta["num_steps"][i] is None) else meta["num_steps"][i] for i in range(k)]
    nsw = sum(op[1] for op in meta["ops"])
    inits = [([1.0] * spec["dims"][i] if meta["inits"][i] is None else meta["inits"][i]) for i in range(k)]
    if obs["init_cur"] != [[float(a) for a in v] for v in inits]:
        return "initial current_samples %s are not the samplers' initial points %s" % (obs["init_cur"], inits), "HybridGibbs._get_initial_points"
    if len(obs["stored"]) != nsw or any(n != nsw for n in obs["stored_lens"]):
        return "%d sweeps requested, %s stored" % (nsw, obs["stored_lens"]), "HybridGibbs._store_samples|count"
    evs = obs["events"]
    pos = 0
    prev = obs["init_cur"]
    # tuning schedule as documented: after every tune_interval-th warm-up sweep, all samplers, (interval, index of the tuning);
    # third entry: how many transitions the sampler had made by then (1 + len of its acceptance history)
    exp_tunes = [[] for _ in range(k)]
    done = 0
    for op in meta["ops"]:
        if op[0] == "warmup":
            ti = tune_interval_py(op[2], op[1])
            for idx in range(op[1]):
                if (idx + 1) % ti == 0:
                    for i in range(k):
                        nacc = 1 + nst[i] * (1 if meta["kinds"][i] == "KNuts" else done + idx + 1)
                        exp_tunes[i].append([ti, idx // ti, nacc])
        done += op[1]
    for t in range(nsw):
        new = obs["stored"][t]
        for i in range(k):
            for j in range(nst[i]):
                if pos >= len(evs):
                    return "sweep %d: block %d received fewer than %d transitions (trace ended)" % (t, i, nst[i]), "HybridGibbs.step|visits"
                e = evs[pos]
                pos += 1
                if e["blk"] != i:
                    return ("sweep %d: expected transition %d of block %d (%s), observed a transition of block %d: blocks must be "
                            "visited once each, in order, with the configured number of transitions" % (t, j, i, spec["names"][i], e["blk"])), "HybridGibbs.step|visits"
                want = [new[b] if b < i else prev[b] for b in range(k)]
                if e["cur"] != want:
                    return ("sweep %d block %s: current_samples at the update %s are not (already updated blocks new, the rest old) %s"
                            % (t, spec["names"][i], e["cur"], want)), "HybridGibbs.step|current-values"
                if meta.get("real"):
                    bad = real_probe_check(meta, i, want, e)
                    if not bad:
                        bad2 = real_draw_check(meta, i, want, e)
                        if bad2:
                            return ("sweep %d block %s: %s" % (t, spec["names"][i], bad2)), "HybridGibbs.step|draw-not-from-current-conditional"
                    if bad:
                        return ("sweep %d block %s (%s): %s; current other values %s" % (t, spec["names"][i], meta["assign"][i], bad, [c for b, c in enumerate(want) if b != i])), "HybridGibbs._set_target|conditional-not-current"
                for p, v in zip(meta["probes"][i], e["probes"] if not meta.get("real") else []):
                    asg = [list(x) for x in want]
                    asg[i] = p
                    ex = joint_py(spec, asg)
                    if fr(v) != ex:
                        return ("sweep %d block %s: the target handed to the sampler gives logd(%s) = %r but the joint at the most recent "
                                "other values %s is %s" % (t, spec["names"][i], p, v, want, float(ex))), "HybridGibbs._set_target|conditional-not-current"
                if j == 0 and e["pt"] != prev[i]:
                    return ("sweep %d block %s: sampler starts from %s, the block's current value is %s" % (t, spec["names"][i], e["pt"], prev[i])), "HybridGibbs.step|start-point"
                if meta["kinds"][i] in ("KRec", "KNuts"):
                    sc = meta["script"][t][i]
                    if j > 0 and e["pt"] != [float(a) for a in sc[j - 1]["vec"]]:
                        return "sweep %d block %s: transition %d does not continue from transition %d" % (t, spec["names"][i], j, j - 1), "HybridGibbs.step|start-point"
            if nst[i] == 0 and new[i] != prev[i]:
                return ("sweep %d: block %s is configured with 0 transitions per sweep but moved from %s to %s" % (t, spec["names"][i], prev[i], new[i])), "HybridGibbs.step|visits"
            if meta["kinds"][i] == "KPre" and nst[i] > 0:
                # a sampler that precomputes from its target at (re-)initialisation: every draw of this update must use the value
                # precomputed from the CURRENT conditional: scripted vector + (joint at (others, 1..1) - joint at (others, 0..0))
                want_ = [new[b] if b < i else prev[b] for b in range(k)]
                a1, a0 = [list(x) for x in want_], [list(x) for x in want_]
                a1[i], a0[i] = [1.0] * spec["dims"][i], [0.0] * spec["dims"][i]
                delta = joint_py(spec, a1) - joint_py(spec, a0)
                outs = [evs[pos - nst[i] + j + 1]["pt"] for j in range(nst[i] - 1)] + [new[i]]
                for j, got in enumerate(outs):
                    ex = [Fraction(*float(a).as_integer_ratio()) + delta for a in meta["script"][t][i][j]["vec"]]
                    if [fr(a) for a in got] != ex:
                        return ("sweep %d block %s: a sampler that precomputes from its target when it is initialised returned %s; with the "
                                "quantity precomputed from the CURRENT conditional (others %s) it returns %s"
                                % (t, spec["names"][i], got, [c for b, c in enumerate(want_) if b != i], [float(a) for a in ex])), "HybridGibbs.step|sampler-not-reinitialised-on-new-target"
            if meta["kinds"][i] in ("KRec", "KNuts") and nst[i] > 0:
                last = [float(a) for a in meta["script"][t][i][nst[i] - 1]["vec"]]
                if new[i] != last:
                    return ("sweep %d: stored value of %s is %s, the sampler's point after its %d transitions is %s"
                            % (t, spec["names"][i], new[i], nst[i], last)), "HybridGibbs._store_samples|not-post-sweep"
        prev = new
    if pos != len(evs):
        return "%d transitions more than configured" % (len(evs) - pos), "HybridGibbs.step|visits"
    if obs["cur"] != prev:
        return "current_samples after the run %s differ from the last stored sweep %s" % (obs["cur"], prev), "HybridGibbs._store_samples|not-post-sweep"
    for i, s in enumerate(obs["samplers"]):
        if s["pt"] != prev[i]:
            return "sampler %s ends at %s, last stored value %s" % (spec["names"][i], s["pt"], prev[i]), "HybridGibbs._store_samples|not-post-sweep"
        if meta.get("real"):
            if meta["assign"][i] != "NUTS" and len(s["acc"]) != 1 + nsw * nst[i]:
                return "sampler %s: %d acceptance entries for %d transitions" % (spec["names"][i], len(s["acc"]) - 1, nsw * nst[i]), "HybridGibbs.step|sampler-history-lost"
            continue
        if s["tunes"] != exp_tunes[i]:
            return ("sampler %s tuned at (interval, count, transitions so far + 1) %s, the schedule is %s" % (spec["names"][i], s["tunes"], exp_tunes[i])), "HybridGibbs.warmup|tune-schedule"
        if s["scale"] != meta["scales"][i] / 2 ** len(exp_tunes[i]):
            return "sampler %s: tuned scale %r lost (expected %r)" % (spec["names"][i], s["scale"], meta["scales"][i] / 2 ** len(exp_tunes[i])), "HybridGibbs.step|sampler-state-lost"
        if meta["kinds"][i] != "KNuts" and len(s["acc"]) != 1 + nsw * nst[i]:
            return "sampler %s: %d acceptance entries for %d transitions" % (spec["names"][i], len(s["acc"]) - 1, nsw * nst[i]), "HybridGibbs.step|sampler-history-lost"
        if s["leftover"]:
            return "sampler %s consumed fewer random items than transitions configured" % spec["names"][i], "HybridGibbs.step|visits"
    return None, None


SIG_GETS = "HybridGibbs.get_samples|dim1-block:scalar-point-stored-unreshaped"


def oracle_get_samples(meta, obs):
    """get_samples() returns the stored sweeps"""
    if obs.get("error") or obs.get("get_samples", "ok") == "ok":
        return None
    spec = meta["spec"]
    mixed = [spec["names"][i] for i in range(len(spec["names"]))
             if len(set(tuple(sh[i]) for sh in obs["stored_shapes"])) > 1]
    return ("get_samples() %s; stored entries of block(s) %s mix 0-d values (the scalar initial_point, kept while the sampler "
            "rejects) with 1-d arrays" % (obs["get_samples"], mixed))


def oracle_cache(meta, obs):
    """cached target evaluation of MH-type blocks vs the target at the current point, when each update starts"""
    spec = meta["spec"]
    if obs.get("error"):
        return None
    for e in obs["events"]:
        if e.get("cache") is not None and e["cache"] != e["fresh"]:
            asg = [list(x) for x in e["cur"]]
            asg[e["blk"]] = e["pt"]
            return ("block %s (experimental MH) at %s with the other blocks at %s: cached current_target_logd %r, but its target "
                    "(the current conditional) gives %r there (joint %s): the restored value belongs to the previous conditional"
                    % (spec["names"][e["blk"]], e["pt"], [c for b, c in enumerate(e["cur"]) if b != e["blk"]], e["cache"], e["fresh"],
                       float(joint_py(spec, asg))))
    return None


# ------------------------------------------------------------------------------------------
# Coq encoders
# ------------------------------------------------------------------------------------------
def cfactor(f, sig=None):
    """the factor with the block scales folded into exact rational coefficients (the Coq joint sees raw block values)"""
    sg = lambda j: Fraction(sig[j]) if sig else Fraction(1)
    if f["x"][0] == "blk":
        i = f["x"][1]
        x = "(inl %s)" % cnat(i)
        q, r, l = Fraction(f["q"]) / sg(i), Fraction(f["r"]) / sg(i) ** 2, Fraction(f["l"]) / sg(i)
    else:
        x = "(inr %s)" % cq(Sf(f["x"][1]))
        q, r, l = Fraction(f["q"]), Fraction(f["r"]), Fraction(f["l"])
    par = clist(["(%s, %s)" % (cnat(j), cq(Fraction(a) / sg(j))) for j, a in f["par"]])
    return "(mkF %s %s %s %s %s %s %s %s)" % (x, par, cq(f["b"]), cq(f["c"]), cq(f["m"]), cq(q), cq(r), cq(l))


def cjoint(spec):
    return "(qjoint %s)" % clist([cfactor(f, spec.get("sig")) for f in spec["factors"]])


def cvecs(vs):
    return clist([cqvec(v) for v in vs])


def crnd(it):
    logu = float(np.log(it["u"])) if it.get("u") is not None else 0.0
    if it.get("z") is not None:
        logu = float(it["z"])
    return "(mkR %s %s %s)" % (cqvec(it["vec"]), cq(logu), cz(it.get("acc", 1)))


def cscript(script):
    return clist([clist([clist([crnd(it) for it in blk]) for blk in sw]) for sw in script])


def coev(e):
    return "(mkO %s %s %s %s %s %s %s)" % (cnat(e["blk"]), cvecs(e["cur"]), cqvec(e["probes"]), cqvec(e["pt"]), copt(e["cache"], cq),
                                          copt(e.get("grad"), cqvec), copt(e.get("gshape"), cq))


def cops(ops):
    out = []
    for op in ops:
        if op[0] == "sample":
            out.append("OSample %s" % cnat(op[1]))
        else:
            out.append("OWarm %s (tune_interval %s %s)" % (cnat(op[1]), cq(op[2]), cnat(op[1])))
    return clist(out)


def hybrid_args(meta, fresh):
    spec = meta["spec"]
    k = len(spec["names"])
    inits = clist(["(init_point %s %s)" % (copt(meta["inits"][i], cqvec), cnat(spec["dims"][i])) for i in range(k)])
    ns = clist([]) if meta["num_steps"] is None else clist([copt(n, cnat) for n in meta["num_steps"]])
    return "%s %s %s %s %s %s %s %s" % (cbool(fresh), cjoint(spec), clist(meta["kinds"]), inits,
                                        cqvec(meta["scales"]), ns, cscript(meta["script"]), cops(meta["ops"]))


def encode_hybrid(meta, obs, fresh):
    if obs.get("error"):
        return "false"
    oss = clist(["(mkOS %s %s %s %s %s %s)" % (cqvec(s["pt"]), copt(s["cache"], cq), cq(s["scale"]), "(Some %s)" % czvec(s["acc"]),
                                               clist(["(%s, %s, %s)" % (cnat(a), cnat(b), cnat(c)) for a, b, c in s["tunes"]]), cqvec(s["init"]))
                 for s in obs["samplers"]])
    return "check_hybrid %s %s %s %s %s %s" % (hybrid_args(meta, fresh), clist([cvecs(p) for p in meta["probes"]]),
                                               clist([coev(e) for e in obs["events"]]), cvecs(obs["cur"]),
                                               clist([cvecs(s) for s in obs["stored"]]), oss)


# ------------------------------------------------------------------------------------------
# scenario generators
# ------------------------------------------------------------------------------------------
def gen_spec(rng, k, ndata, leaf=None, dims=None, npar_fixed=None):
    """k blocks; every block gets a prior whose location may depend on other blocks; ndata data factors.
    leaf = index of a block nobody depends on (so its conditional reduces to a plain Distribution)"""
    names = NAMES[:k]
    rng.shuffle(names)
    dims = dims or [rng.choice([1, 1, 2]) for _ in range(k)]
    factors = []

    def coeffs():
        return {"b": dy(rng, -2, 2, 2), "c": dy(rng, -3, 3, 1), "m": dy(rng, -2, 2, 1), "q": rng.choice([-2, -1, 1, 2, 0.5]),
                "r": rng.choice([-2, -1, -0.5, -1, 0, 1]), "l": dy(rng, -2, 2, 2)}        # also indefinite / flat own terms
    for i in range(k):
        others = [j for j in range(k) if j != i and j != leaf]
        npar = (rng.choice([0, 1, 1, 2]) if npar_fixed is None else npar_fixed) if others else 0
        if i == leaf and others:
            npar = max(npar, 1)
        par = [(j, rng.choice([-2, -1, 1, 2])) for j in rng.sample(others, min(npar, len(others)))]
        f = {"x": ("blk", i), "par": par}
        f.update(coeffs())
        factors.append(f)
    cand = [j for j in range(k) if j != leaf]
    for _ in range(ndata):
        par = [(j, rng.choice([-2, -1, 1, 2])) for j in rng.sample(cand, rng.randint(1, min(2, len(cand))))]
        f = {"x": ("data", rvec(rng, rng.choice([1, 2]), -2, 2, 2)), "par": par}
        f.update(coeffs())
        factors.append(f)
    # make sure every non-leaf block is coupled to something (otherwise its conditional would never change)
    for i in range(k):
        if i == leaf:
            continue
        coupled = bool(factors[i]["par"]) or any(j == i for f in factors for j, _ in f["par"])
        if not coupled:
            cands = [b for b in range(k) if b != i and b != leaf]
            if cands:
                factors[rng.choice(cands)]["par"].append((i, rng.choice([-1, 1, 2])))
            else:
                factors[leaf]["par"].append((i, rng.choice([-1, 1, 2])))
    return {"names": names, "dims": dims, "factors": factors}


def gen_probes(rng, spec):
    out = []
    for d in spec["dims"]:
        ps = [[0.0] * d, [1.0] * d, rvec(rng, d, -3, 3, 2)]
        if d > 1:
            ps.append([float(a) for a in range(1, d + 1)][::-1])
        out.append(ps)
    return out


def gen_script(rng, spec, kinds, nst, nsw, scales):
    sc = []
    for t in range(nsw):
        sw = []
        for i in range(len(kinds)):
            items = []
            for j in range(nst[i]):
                if kinds[i] == "KMH":
                    items.append({"vec": rvec(rng, spec["dims"][i], -2, 2, 4), "u": rng.choice([0.03125, 0.125, 0.25, 0.5, 0.75, 0.9375, rng.uniform(0.01, 0.99)]), "acc": 1})
                else:
                    items.append({"vec": rvec(rng, spec["dims"][i], -3, 3, 4), "u": None, "acc": rng.choice([0, 1, 1])})
            sw.append(items)
        sc.append(sw)
    return sc


HY_CELLS = [
    # (cell, k, ndata, kinds (None = by position pattern), steps pattern, ops)
    ("hybrid/rec/2blk/sample", 2, 0, ["KRec", "KRec"], None, [("sample", 3)]),
    ("hybrid/rec/3blk/lik/steps", 3, 1, ["KRec", "KRec", "KRec"], [2, None, 3], [("sample", 3)]),
    ("hybrid/rec/4blk/lik2/sample-twice", 4, 2, ["KRec"] * 4, [1, 2, 1, 2], [("sample", 2), ("sample", 0), ("sample", 2)]),
    ("hybrid/rec/3blk/warmup+sample", 3, 1, ["KRec"] * 3, [1, 2, None], [("warmup", 4, 0.25), ("sample", 2)]),
    ("hybrid/rec/2blk/warmup-default-freq", 2, 1, ["KRec"] * 2, None, [("warmup", 10, 0.1), ("sample", 1)]),
    ("hybrid/rec/3blk/warmup-twice", 3, 2, ["KRec"] * 3, [2, 1, 1], [("warmup", 2, 0.5), ("sample", 1), ("warmup", 3, 1.0), ("sample", 2)]),
    ("hybrid/rec/2blk/warmup-fractional-interval", 2, 1, ["KRec"] * 2, [1, 2], [("warmup", 3, 0.5), ("warmup", 5, 0.75), ("sample", 1)]),
    ("hybrid/pre+rec/3blk/lik/steps", 3, 1, ["KRec", "KPre", "KRec"], [1, 2, 1], [("sample", 3)]),
    # degenerate counts: empty and one-sweep warm-ups (tune interval max(int(0.1 * Nb), 1) = 1), a block with 0 transitions
    ("hybrid/rec+pre/3blk/warmup-0-and-1/steps-1,0,2", 3, 1, ["KRec", "KRec", "KPre"], [1, 0, 2], [("warmup", 0, 0.1), ("warmup", 1, 0.1), ("sample", 1), ("warmup", 1, 0.5)]),
    ("hybrid/pre+mh+nuts/4blk/lik2/warmup", 4, 2, ["KMH", "KPre", "KNuts", "KRec"], [1, 2, 1, 0], [("warmup", 2, 0.5), ("sample", 2)]),
    ("hybrid/mh/2blk/sample", 2, 0, ["KMH", "KMH"], None, [("sample", 4)]),
    ("hybrid/mh/3blk/lik/steps", 3, 1, ["KMH", "KMH", "KMH"], [2, 1, 3], [("sample", 3)]),
    ("hybrid/mh+rec/3blk/lik/warmup+sample", 3, 1, ["KMH", "KRec", "KMH"], [1, 2, 2], [("warmup", 4, 0.5), ("sample", 2), ("sample", 1)]),
    ("hybrid/mh+rec/4blk/lik2", 4, 2, ["KRec", "KMH", "KRec", "KMH"], [2, 2, 1, 1], [("sample", 3)]),
    ("hybrid/direct+rec/3blk", 3, 1, ["KRec", "KDirect", "KRec"], [1, 2, 2], [("sample", 3)]),
    ("hybrid/direct+mh/3blk/warmup", 3, 1, ["KMH", "KMH", "KDirect"], [2, 1, 1], [("warmup", 2, 0.5), ("sample", 2)]),
    ("hybrid/nuts-branch+rec/2blk", 2, 1, ["KNuts", "KRec"], [2, 1], [("sample", 2), ("sample", 1)]),
    ("hybrid/nuts-branch+mh+direct/4blk/warmup", 4, 2, ["KNuts", "KMH", "KRec", "KDirect"], [1, 2, 1, 1], [("warmup", 3, 0.5), ("sample", 2)]),
]


def gen_hybrid(rng, cell, rep=1):
    name, k, ndata, kinds, steps, ops = cell
    leaf = kinds.index("KDirect") if "KDirect" in kinds else (kinds.index("KPre") if "KPre" in kinds else None)   # no feedback of their draws
    dims = [rng.choice([1, 1, 2]) for _ in range(k)]
    force_scalar = (rep % 3 == 0)              # every third scenario of a cell: block 0 is one-dimensional and starts from a plain number
    if force_scalar:
        dims[0] = 1
    spec = gen_spec(rng, k, ndata, leaf=leaf, dims=dims)
    nst = [1 if (steps is None or steps[i] is None) else steps[i] for i in range(k)]
    nsw = sum(op[1] for op in ops)
    scales = [rng.choice([0.25, 0.5, 1.0]) for _ in range(k)]
    inits = [None if rng.random() < 0.25 else rvec(rng, spec["dims"][i], -2, 2, 2) for i in range(k)]
    if force_scalar and inits[0] is None:
        inits[0] = rvec(rng, 1, -2, 2, 2)
    init_scalar = [bool(inits[i] is not None and spec["dims"][i] == 1 and kinds[i] != "KDirect" and (rng.random() < 0.3 or (force_scalar and i == 0)))
                   for i in range(k)]
    # falsy-but-legitimate initial points (0.0, zero vectors) and declaration styles (integer / binary32 / strided view / read-only)
    if rep % 3 == 1:
        j = rng.randrange(k)
        inits[j] = [0.0] * spec["dims"][j]
    init_style = [rng.choice([None, "int", "f32", "view", "ro"]) if rep % 2 else None for _ in range(k)]
    reuse = bool(rep % 4 == 2 and "KDirect" not in kinds)
    return {"iface": "hybrid", "cell": name, "spec": spec, "kinds": list(kinds), "num_steps": None if steps is None else list(steps),
            "ops": [list(o) for o in ops], "scales": scales, "inits": inits, "init_scalar": init_scalar, "init_style": init_style, "reuse_target": reuse, "probes": gen_probes(rng, spec),
            "script": gen_script(rng, spec, kinds, nst, nsw, scales)}


# ---- SCALE dimension: blocks living on scales 2^-40 .. 2^40 (absolute tolerances must not decide what "moved" means),
# ---- and blocks moving by a tiny RELATIVE amount between sweeps (relative tolerances must not either)
def pick_sig(rng, k, mode, kinds):
    tiny, huge = [2.0 ** -40, 2.0 ** -30, 2.0 ** -20], [2.0 ** 20, 2.0 ** 40]
    if mode == "tiny":
        sig = [rng.choice(tiny) for _ in range(k)]
    elif mode == "huge":
        sig = [rng.choice(huge) for _ in range(k)]
    else:
        sig = [rng.choice(tiny + huge + [1.0]) for _ in range(k)]
        sig[rng.randrange(k)] = rng.choice(tiny[:2])
    return [1.0 if kinds[i] in ("KDirect", "KPre") else sig[i] for i in range(k)]


def scale_meta(meta, sig):
    """put block i on the scale sig[i]: initial points, probes and scripted vectors are multiplied (exactly) by sig[i]"""
    meta["spec"]["sig"] = list(sig)
    k = len(sig)
    mul = lambda v, g: [float(a) * g for a in v]
    meta["inits"] = [None if meta["inits"][i] is None else mul(meta["inits"][i], sig[i]) for i in range(k)]
    meta["probes"] = [[mul(p, sig[i]) for p in meta["probes"][i]] for i in range(k)]
    for sw in meta["script"]:
        for i in range(k):
            for it in sw[i]:
                it["vec"] = mul(it["vec"], sig[i])
    return meta


def fine_meta(rng, meta, dexp, sigma0):
    """block 0 (one-dimensional, recording sampler) moves between sweeps by k * 2^-dexp RELATIVE to its value m * sigma0
    (k in -3..3, including exact repeats); everything stays exactly representable: r = 0 in block 0's own factor"""
    spec = meta["spec"]
    spec["factors"][0]["r"] = 0
    m = rng.choice([1, 2, 3, -2])
    d = 2.0 ** -dexp
    val = lambda: [(m + rng.randint(-3, 3) * d)]
    meta["inits"][0] = val()
    for sw in meta["script"]:
        for it in sw[0]:
            it["vec"] = val()
    sig = [1.0] * len(spec["names"])
    sig[0] = sigma0
    return scale_meta(meta, sig)


HY_SCALE_CELLS = [
    ("hybrid/scale-mixed/rec/3blk/lik", 3, 1, ["KRec"] * 3, [1, 2, 1], [("sample", 3)], "mixed"),
    ("hybrid/scale-mixed/mh+rec/3blk/lik", 3, 1, ["KMH", "KRec", "KMH"], [2, 1, 1], [("sample", 3)], "mixed"),
    ("hybrid/scale-tiny/rec/2blk/lik/warmup", 2, 1, ["KRec"] * 2, None, [("warmup", 2, 0.5), ("sample", 2)], "tiny"),
    ("hybrid/scale-tiny/mh/2blk", 2, 0, ["KMH", "KMH"], None, [("sample", 4)], "tiny"),
    ("hybrid/scale-huge/rec+mh/3blk/lik", 3, 1, ["KRec", "KMH", "KRec"], [1, 1, 2], [("sample", 2), ("sample", 1)], "huge"),
    ("hybrid/scale-mixed/direct+nuts-branch/3blk", 3, 1, ["KNuts", "KDirect", "KRec"], [1, 1, 1], [("sample", 3)], "mixed"),
]
def gen_hybrid_partial(rng, rep):
    """block 0 is two-dimensional and only its LAST component moves (first component and the sum of squares-free parts equal)"""
    cell = ("hybrid/partial-move/last-component-only", 3, 1, ["KRec", "KMH", "KRec"], [1, 2, 1], [("sample", 4)])
    name, k, ndata, kinds, steps, ops = cell
    spec = gen_spec(rng, k, ndata, dims=[2, 1, rng.choice([1, 2])])
    nst = [1, 2, 1]
    m = {"iface": "hybrid", "cell": name, "spec": spec, "kinds": kinds, "num_steps": steps, "ops": [list(o) for o in ops],
         "scales": [1.0, 0.5, 1.0], "inits": [rvec(rng, d, -2, 2, 2) for d in spec["dims"]], "init_scalar": [False] * 3,
         "probes": gen_probes(rng, spec), "script": gen_script(rng, spec, kinds, nst, 4, [1.0, 0.5, 1.0])}
    first = m["inits"][0][0]
    for sw in m["script"]:
        for it in sw[0]:
            it["vec"][0] = first
    return m


HY_FINE_CELLS = [
    # (cell, k, ndata, kinds, steps, ops, relative move 2^-e, scale of block 0)
    ("hybrid/fine-move/rel2^-20/sigma1", 3, 1, ["KRec"] * 3, None, [("sample", 4)], 20, 1.0),
    ("hybrid/fine-move/rel2^-30/sigma2^40", 3, 1, ["KRec"] * 3, [1, 2, 1], [("sample", 4)], 30, 2.0 ** 40),
    ("hybrid/fine-move/rel2^-36/sigma2^-40", 2, 1, ["KRec"] * 2, None, [("warmup", 2, 0.5), ("sample", 3)], 36, 2.0 ** -40),
    ("hybrid/fine-move/rel2^-30/mh-neighbour", 3, 0, ["KRec", "KMH", "KRec"], None, [("sample", 4)], 30, 1.0),
]
# permanent lattices: tuple-grouped strategies (adjacent and separated members), densities declared with the data factors
# between the priors
LG_LATTICE_CELLS = [("legacy/tuple-groups/%s" % g, kk, 1, ["LRec"] * kk, [(2, 1), (1, 0)])
                    for g, kk in (("01", 3), ("12", 3), ("02", 3), ("012", 3), ("03", 4), ("02+13", 4), ("13", 4))] + [
    ("legacy/dens-order/rec/3blk/lik2", 3, 2, ["LRec"] * 3, [(2, 1), (1, 0)]),
    ("legacy/dens-order/mh+rec/4blk/lik2", 4, 2, ["LMH", "LRec", "LMH", "LRec"], [(3, 0)]),
]
STEP_OPTS = [None, 0, 1, 2, 3]        # None = key missing from num_sampling_steps; 0 = the block is kept fixed (legitimate)


def gen_hybrid_lattice(rng, idx):
    """num_sampling_steps lattice: every (n0, n1) in {missing, 0, 1, 2, 3}^2 for two blocks (recording x MH alternating), plus
    densities declared with the data factors between the priors"""
    a, b = STEP_OPTS[idx // 5], STEP_OPTS[idx % 5]
    kinds = ["KRec", "KMH"] if idx % 2 else ["KMH", "KRec"]
    steps = None if (a is None and b is None and idx == 0) else [a, b]
    cell = ("hybrid/steps-lattice/%s,%s" % (a, b), 2, 1, kinds, steps, [("sample", 2), ("sample", 1)])
    m = gen_hybrid(rng, cell, rep=1)
    m["spec"]["data_pos"] = [rng.randint(0, 1)]
    m["nss_np"] = bool(idx % 3 == 1)                 # declaration style of the counts: numpy integers
    return m


def gen_two_parent(rng, iface, rep):
    """4 blocks, every prior has exactly two parents: when another block is updated such a prior is conditioned on three names"""
    if iface == "hybrid":
        m = gen_hybrid(rng, ("hybrid/two-parent-priors/4blk/lik", 4, 1, ["KRec", "KMH", "KRec", "KMH"], [1, 1, 2, 1], [("sample", 3)]), rep)
    else:
        m = gen_legacy(rng, ("legacy/two-parent-priors/4blk/lik", 4, 1, ["LRec", "LMH", "LRec", "LRec"], [(2, 1), (1, 0)]))
    spec = gen_spec(rng, 4, 1, dims=m["spec"]["dims"], npar_fixed=2)
    spec["names"] = m["spec"]["names"]
    m["spec"] = spec
    return m


HY_ORDER_CELLS = [
    ("hybrid/dens-order/rec+mh/3blk/lik2", 3, 2, ["KRec", "KMH", "KRec"], [1, 2, 1], [("sample", 3)]),
    ("hybrid/dens-order/mh+direct+nuts/4blk/lik2/warmup", 4, 2, ["KMH", "KNuts", "KRec", "KDirect"], [2, 1, 1, 1], [("warmup", 2, 0.5), ("sample", 2)]),
]


def gen_hybrid_order(rng, cell, rep):
    m = gen_hybrid(rng, cell, rep)
    k = len(m["kinds"])
    leafpos = [i for i, kd in enumerate(m["kinds"]) if kd == "KDirect"]
    m["spec"]["data_pos"] = sorted(rng.randint(0, k - 1) for _ in range(cell[2]))
    return m


LG_SCALE_CELLS = [
    ("legacy/scale-mixed/rec/3blk/lik/continue", 3, 1, ["LRec"] * 3, [(2, 1), (2, 0)], "mixed"),
    ("legacy/scale-tiny/mh+rec/2blk/lik", 2, 1, ["LMH", "LRec"], [(3, 0)], "tiny"),
]
LG_FINE_CELLS = [
    ("legacy/fine-move/rel2^-30/sigma1", 3, 1, ["LRec"] * 3, [(3, 0), (1, 0)], 30, 1.0),
    ("legacy/fine-move/rel2^-20/sigma2^-40", 2, 1, ["LRec"] * 2, [(2, 2)], 20, 2.0 ** -40),
]


def _coarse(meta):
    """fine-move cells: every block one-dimensional, half-integer values of modulus <= 2 (keeps products within 53 bits)"""
    return meta


def gen_hybrid_scale(rng, cell, rep):
    name, k, ndata, kinds, steps, ops, mode = cell
    m = gen_hybrid(rng, (name, k, ndata, kinds, steps, ops), rep=1)
    k_ = len(kinds)
    for i in range(k_):
        if m["inits"][i] is None:                      # the default ones(dim) would be 2^40 in units of a tiny block
            m["inits"][i] = rvec(rng, m["spec"]["dims"][i], -2, 2, 2)
    m["init_scalar"] = [False] * k_
    return scale_meta(m, pick_sig(rng, k_, mode, kinds))


def gen_hybrid_fine(rng, cell, rep):
    name, k, ndata, kinds, steps, ops, dexp, s0 = cell
    leaf = None
    spec = gen_spec(rng, k, ndata, leaf=leaf, dims=[1] * k)
    nst = [1 if (steps is None or steps[i] is None) else steps[i] for i in range(k)]
    nsw = sum(op[1] for op in ops)
    scales = [rng.choice([0.5, 1.0]) for _ in range(k)]
    half = lambda: [dy(rng, -2, 2, 2)]
    sc = []
    for t in range(nsw):
        sw = []
        for i in range(k):
            sw.append([{"vec": half(), "u": (rng.choice([0.125, 0.5, 0.9375]) if kinds[i] == "KMH" else None), "acc": 1} for _ in range(nst[i])])
        sc.append(sw)
    m = {"iface": "hybrid", "cell": name, "spec": spec, "kinds": list(kinds), "num_steps": None if steps is None else list(steps),
         "ops": [list(o) for o in ops], "scales": scales, "inits": [half() for _ in range(k)], "init_scalar": [False] * k,
         "probes": [[[0.0], [1.0], half()] for _ in range(k)], "script": sc}
    return fine_meta(rng, m, dexp, s0)


def gen_legacy_scale(rng, cell):
    name, k, ndata, kinds, ops, mode = cell
    m = gen_legacy(rng, (name, k, ndata, kinds, ops))
    for i in range(k):
        if m["inits"][i] is None:
            m["inits"][i] = rvec(rng, m["spec"]["dims"][i], -2, 2, 2)
    return scale_meta(m, pick_sig(rng, k, mode, kinds))


def gen_legacy_fine(rng, cell):
    name, k, ndata, kinds, ops, dexp, s0 = cell
    spec = gen_spec(rng, k, ndata, dims=[1] * k)
    nsw = legacy_sweeps(ops)
    half = lambda: [dy(rng, -2, 2, 2)]
    sc = [[[{"vec": half(), "u": None, "acc": 1}] for _ in range(k)] for _ in range(nsw)]
    m = {"iface": "legacy", "cell": name, "spec": spec, "kinds": list(kinds), "ops": [list(o) for o in ops], "scales": [1.0] * k,
         "tuple_key": None, "inits": [half() for _ in range(k)], "probes": [[[0.0], [1.0], half()] for _ in range(k)], "script": sc}
    return fine_meta(rng, m, dexp, s0)


# ------------------------------------------------------------------------------------------
# legacy Gibbs driver
# ------------------------------------------------------------------------------------------
def run_legacy(meta, target=None):
    import cuqi
    from cuqi.sampler import Gibbs
    C = classes()
    spec = meta["spec"]
    k = len(spec["names"])
    tr = Trace(spec, meta["probes"])
    if target is None:
        target = build_joint(spec)
        if meta.get("reuse_target"):
            import copy as _copy
            first = _copy.deepcopy({kk: vv for kk, vv in meta.items() if kk != "reuse_target"})
            first["ops"] = [o for o in first["ops"]][:1]
            run_legacy(first, target=target)                   # an earlier Gibbs object on the same joint object
    user_inits = {}
    for i, nm in enumerate(spec["names"]):
        if meta["inits"][i] is not None:
            user_inits[i] = np.array(meta["inits"][i], dtype=float)
            target.get_density(nm).init_point = user_inits[i]
    scripts = [[it for sw in meta["script"] for it in sw[i]] for i in range(k)]
    holders = {"active": None}

    def mk_rec(i):
        class LRec:
            def __init__(self, tgt):
                self.target = tgt

            def step(self, x):
                tr.on_lstep(i, self.target, x)
                return np.asarray(scripts[i].pop(0)["vec"], dtype=float)
        return LRec

    def mk_mh(i):
        h = {"xi": None, "u": None}

        class LMH:
            def __init__(self, tgt):
                self.target = tgt
                self.inner = cuqi.sampler.MH(tgt, proposal=C["Prop"](spec["dims"][i], h), scale=meta["scales"][i])

            def step(self, x):
                tr.on_lstep(i, self.target, x)
                it = scripts[i].pop(0)
                h["xi"], h["u"] = it["vec"], it["u"]
                holders["active"] = h
                return self.inner.step(x)
        return LMH
    strategy = {}
    for i, nm in enumerate(spec["names"]):
        strategy[nm] = mk_mh(i) if meta["kinds"][i] == "LMH" else mk_rec(i)
    if meta.get("tuple_key"):
        # one sampler class for a tuple of parameters (as in the docstring: ('d','l'): Conjugate); the class finds the
        # block it serves from the only parameter its target still has.  tuple_key = one group or a list of groups
        groups = meta["tuple_key"] if isinstance(meta["tuple_key"][0], list) else [meta["tuple_key"]]

        class LRecAny:
            def __init__(self, tgt):
                self.target = tgt
                self.blk = spec["names"].index(tgt.get_parameter_names()[-1])

            def step(self, x):
                tr.on_lstep(self.blk, self.target, x)
                return np.asarray(scripts[self.blk].pop(0)["vec"], dtype=float)
        for grp in groups:
            for i in grp:
                del strategy[spec["names"][i]]
            strategy[tuple(spec["names"][i] for i in grp)] = LRecAny

    class GX(Gibbs):
        def step(self, current_samples):
            tr.cur = current_samples
            return super().step(current_samples)
    obs = {"error": None, "calls": []}
    sink = io.StringIO()
    try:
        with contextlib.redirect_stdout(sink), ScriptedRandom(seed=1, script=_Rand(holders)):
            G = GX(target, strategy)
            obs["par_names"] = list(G.par_names)
            for (ns, nb) in meta["ops"]:
                try:
                    ret = G.sample(ns, nb) if nb else G.sample(ns)                               # Nb=0 is the default: left out
                    cols = lambda d: [[[float(a) for a in d[n][:, t]] for n in spec["names"]] for t in range(d[spec["names"][0]].shape[1])]
                    ok_ret = all(np.array_equal(ret[n].samples, G.samples[n]) for n in spec["names"])
                    obs["calls"].append({"samples": cols(G.samples), "warm": cols(G.samples_warmup), "ret_ok": bool(ok_ret),
                                         "shapes_ok": all(G.samples[n].shape[0] == spec["dims"][i] for i, n in enumerate(spec["names"]))})
                except IndexError as e:
                    obs["calls"].append({"raised": "IndexError"})
                except ValueError as e:
                    obs["calls"].append({"raised": "ValueError"})
        obs["events"] = tr.events
        obs["leftover"] = [len(s) for s in scripts]
        obs["inits_after"] = {str(i): [float(a) for a in v] for i, v in user_inits.items()}
    except Exception as e:      # noqa
        obs["error"] = "%s: %s" % (type(e).__name__, e)
        obs["events"] = tr.events
    return obs


def oracle_legacy(meta, obs):
    spec = meta["spec"]
    k = len(spec["names"])
    if obs.get("error"):
        return "Gibbs raised %s" % obs["error"], "Gibbs|raised"
    if obs["par_names"] != spec["names"]:
        return "par_names differ", "Gibbs|par_names"
    evs = obs["events"]
    pos = 0
    inits = [([1.0] * spec["dims"][i] if meta["inits"][i] is None else [float(a) for a in meta["inits"][i]]) for i in range(k)]
    prev = inits
    have_samples, have_warm = None, None       # what the object holds (lists of sweeps)
    t = 0
    for (ns, nb), call in zip(meta["ops"], obs["calls"]):
        # continuation: resumes from the last stored sweep (last sample, else last warm-up sweep); refusal: second warm-up
        if have_warm is not None and nb != 0:
            if call.get("raised") != "ValueError":
                return "a second warm-up was not refused", "Gibbs._allocate_samples_warmup"
            continue
        if "raised" in call:
            return "Gibbs.sample(%d, %d) raised %s" % (ns, nb, call["raised"]), "Gibbs|raised"
        start = have_samples[-1] if have_samples else (have_warm[-1] if have_warm else inits)
        prev = start
        new_sw = []
        for s in range(nb + ns):
            new = (call["warm"][s] if s < nb else call["samples"][len(have_samples or []) + s - nb]) if (s < nb and s < len(call["warm"])) or (s >= nb and len(have_samples or []) + s - nb < len(call["samples"])) else None
            if new is None:
                return "call (%d,%d): fewer stored sweeps than requested" % (ns, nb), "Gibbs._store_samples|count"
            for i in range(k):
                if pos >= len(evs):
                    return "sweep %d: block %d not visited" % (t, i), "Gibbs.step|visits"
                e = evs[pos]
                pos += 1
                if e["blk"] != i:
                    return "sweep %d: expected block %d, observed block %d" % (t, i, e["blk"]), "Gibbs.step|visits"
                want = [new[b] if b < i else prev[b] for b in range(k)]
                if e["cur"] != want:
                    return ("sweep %d block %s: current_samples %s are not (updated blocks new, the rest old) %s" % (t, spec["names"][i], e["cur"], want)), "Gibbs.step|current-values"
                if meta.get("real"):
                    bad = real_probe_check(meta, i, want, e)
                    if bad:
                        return ("sweep %d block %s (legacy %s): %s; current other values %s" % (t, spec["names"][i], meta["assign"][i], bad, [c for b, c in enumerate(want) if b != i])), "Gibbs.step|conditional-not-current"
                    bad2 = real_draw_check(meta, i, want, e)
                    if bad2:
                        return ("sweep %d block %s (legacy): %s" % (t, spec["names"][i], bad2)), "Gibbs.step|draw-not-from-current-conditional"
                for p, v in zip(meta["probes"][i], e["probes"] if not meta.get("real") else []):
                    asg = [list(x) for x in want]
                    asg[i] = p
                    ex = joint_py(spec, asg)
                    if fr(v) != ex:
                        return ("sweep %d block %s: target gives logd(%s) = %r, joint at the most recent other values %s is %s"
                                % (t, spec["names"][i], p, v, want, float(ex))), "Gibbs.step|conditional-not-current"
                if e["pt"] != prev[i]:
                    return "sweep %d block %s: step starts from %s, current value %s" % (t, spec["names"][i], e["pt"], prev[i]), "Gibbs.step|start-point"
                if meta["kinds"][i] == "LRec" and new[i] != [float(a) for a in meta["script"][t][i][0]["vec"]]:
                    return "sweep %d: stored value of %s is %s, the sampler returned %s" % (t, spec["names"][i], new[i], meta["script"][t][i][0]["vec"]), "Gibbs._store_samples|not-post-sweep"
            prev = new
            new_sw.append(new)
            t += 1
        exp_samples = (have_samples or []) + new_sw[nb:]
        if call["samples"] != exp_samples:
            return "samples after the call are not the earlier samples followed by the new sweeps", "Gibbs._store_samples|not-post-sweep"
        # the warm-up record is that of the call that ran the warm-up; a later call (nb = 0) keeps it (/repo a931127; before
        # that repair - C14's finding legacy.Gibbs.sample|warmup-chain-dropped-by-later-call - it was rebound to an empty array)
        exp_warm = have_warm if have_warm is not None else new_sw[:nb]
        if call["warm"] != exp_warm:
            return "warm-up samples are not the warm-up sweeps recorded by the call that ran the warm-up", "Gibbs._store_samples|not-post-sweep"
        if not call["ret_ok"] or not call["shapes_ok"]:
            return "returned Samples differ from the stored arrays", "Gibbs._convert_to_Samples"
        have_samples, have_warm = exp_samples, exp_warm
    if pos != len(evs):
        return "%d transitions more than sweeps x blocks" % (len(evs) - pos), "Gibbs.step|visits"
    for i_, v in (obs.get("inits_after") or {}).items():
        if v != [float(a) for a in meta["inits"][int(i_)]]:
            return ("the init_point array the user attached to %s was written to: %s -> %s" % (spec["names"][int(i_)], meta["inits"][int(i_)], v)), "Gibbs.step|user-initial-point-overwritten"
    return None, None


def encode_legacy(meta, obs):
    if obs.get("error"):
        return "false"
    spec = meta["spec"]
    k = len(spec["names"])
    ks = clist(["LRec" if kd == "LRec" else "(LMH %s)" % cq(meta["scales"][i]) for i, kd in enumerate(meta["kinds"])])
    init0 = clist(["(init_point %s %s)" % (copt(meta["inits"][i], cqvec), cnat(spec["dims"][i])) for i in range(k)])
    oobs = []
    for c in obs["calls"]:
        if "raised" in c:
            oobs.append("LObs%s" % c["raised"])
        else:
            oobs.append("(LObs %s %s)" % (clist([cvecs(s) for s in c["samples"]]), clist([cvecs(s) for s in c["warm"]])))
    return "check_legacy %s %s %s %s %s %s %s %s" % (cjoint(spec), ks, init0, cscript(meta["script"]),
                                                     clist(["(LSample %s %s)" % (cnat(a), cnat(b)) for a, b in meta["ops"]]),
                                                     clist([cvecs(p) for p in meta["probes"]]), clist(oobs),
                                                     clist([coev(e) for e in obs["events"]]))


LG_CELLS = [
    ("legacy/rec/2blk/sample", 2, 0, ["LRec", "LRec"], [(3, 0)]),
    ("legacy/rec/3blk/lik/warmup+sample", 3, 1, ["LRec"] * 3, [(2, 2)]),
    ("legacy/rec/4blk/lik2/continue", 4, 2, ["LRec"] * 4, [(2, 1), (2, 0), (1, 0)]),
    ("legacy/rec/2blk/second-warmup-refused", 2, 1, ["LRec"] * 2, [(1, 1), (1, 2), (2, 0)]),
    ("legacy/rec/2blk/warmup-only-then-continue", 2, 1, ["LRec"] * 2, [(0, 2), (2, 0)]),
    ("legacy/rec/3blk/tuple-key", 3, 1, ["LRec"] * 3, [(2, 1), (1, 0)]),
    ("legacy/mh/2blk/sample", 2, 0, ["LMH", "LMH"], [(4, 0)]),
    ("legacy/mh+rec/3blk/lik/continue", 3, 1, ["LMH", "LRec", "LMH"], [(2, 1), (2, 0)]),
    ("legacy/mh/3blk/lik2/warmup", 3, 2, ["LMH"] * 3, [(2, 2)]),
]


def legacy_sweeps(ops):
    """number of sweeps actually performed by a call sequence (refused calls perform none)"""
    n, have_s, have_w = 0, None, None
    for ns, nb in ops:
        if have_w is not None and nb != 0:
            continue
        n += ns + nb
        have_s = (have_s or 0) + ns
        have_w = nb
    return n


def gen_legacy(rng, cell):
    name, k, ndata, kinds, ops = cell
    spec = gen_spec(rng, k, ndata)
    nsw = legacy_sweeps(ops)
    scales = [rng.choice([0.25, 0.5, 1.0]) for _ in range(k)]
    inits = [None if rng.random() < 0.3 else rvec(rng, spec["dims"][i], -2, 2, 2) for i in range(k)]
    kk = ["KMH" if x == "LMH" else "KRec" for x in kinds]
    tk = [0, 2] if "tuple-key" in name else None
    if "tuple-groups" in name:
        tk = {"01": [[0, 1]], "12": [[1, 2]], "02": [[0, 2]], "012": [[0, 1, 2]], "03": [[0, 3]], "02+13": [[0, 2], [1, 3]], "13": [[1, 3]]}[name.rsplit("/", 1)[1]]
    if "dens-order" in name and ndata:
        spec["data_pos"] = sorted(rng.randint(0, k - 1) for _ in range(ndata))
    return {"iface": "legacy", "cell": name, "spec": spec, "kinds": list(kinds), "ops": [list(o) for o in ops], "scales": scales, "tuple_key": tk,
            "reuse_target": bool(rng.random() < 0.3),
            "inits": inits, "probes": gen_probes(rng, spec), "script": gen_script(rng, spec, kk, [1] * k, nsw, scales)}


# ------------------------------------------------------------------------------------------
# which variant of HybridGibbs does this tree implement (cached evaluations restored / refreshed)?
# ------------------------------------------------------------------------------------------
WITNESS = {
    "iface": "hybrid", "cell": "witness/stale-cache",
    # log p(x, s) = (s x - x^2) + (s - s^2): x | s has location s
    "spec": {"names": ["x", "s"], "dims": [1, 1],
             "factors": [{"x": ("blk", 0), "par": [(1, 1)], "b": 0, "c": 0, "m": 0, "q": 1, "r": -1, "l": 0},
                         {"x": ("blk", 1), "par": [], "b": 0, "c": 0, "m": 0, "q": 0, "r": -1, "l": 1}]},
    "kinds": ["KMH", "KMH"], "num_steps": None, "ops": [["sample", 2]], "scales": [1.0, 1.0], "inits": [[1.0], [2.0]],
    "probes": [[[0.0], [1.0]], [[0.0], [1.0]]],
    # sweep 0: x stays (xi = 0 is "accepted": same point), s moves 2 -> -2 (u tiny); sweep 1: x proposes 1 -> -1:
    # under the current conditional (s = -2) the ratio is logp(-1|-2) - logp(1|-2) = 1 - (-3) = +4 -> must be accepted for every u;
    # with the restored cache logp(1|s=2) = 1 (+ the s terms) the ratio is negative
    "script": [[[{"vec": [0.0], "u": 0.5, "acc": 1}], [{"vec": [-4.0], "u": 1e-9, "acc": 1}]],
               [[{"vec": [-2.0], "u": 0.9375, "acc": 1}], [{"vec": [0.0], "u": 0.5, "acc": 1}]]],
}

# a dimension-1 MH block started from a plain number (as tests/zexperimental/test_mcmc.py does: MH(initial_point=3)):
# sweep 0 rejects (x stays the 0-d number), sweep 1 "accepts" x* = x + 0 (now a 1-d array): the stored list mixes shapes
WITNESS_GETS = {
    "iface": "hybrid", "cell": "witness/get_samples-scalar-initial-point",
    "spec": WITNESS["spec"], "kinds": ["KMH", "KRec"], "num_steps": None, "ops": [["sample", 2]], "scales": [1.0, 1.0],
    "inits": [[1.0], [2.0]], "init_scalar": [True, False], "probes": [[[0.0], [1.0]], [[0.0], [1.0]]],
    "script": [[[{"vec": [4.0], "u": 0.9375, "acc": 1}], [{"vec": [2.0], "u": None, "acc": 1}]],
               [[{"vec": [0.0], "u": 0.5, "acc": 1}], [{"vec": [2.0], "u": None, "acc": 1}]]],
}

_STATE = {}


def tree_variant(ctx=None):
    """(fresh, detail): does HybridGibbs refresh cached target evaluations when it re-conditions?"""
    if "fresh" not in _STATE:
        obs = run_hybrid(WITNESS)
        d = oracle_cache(WITNESS, obs)
        _STATE["fresh"] = d is None and not obs.get("error")
        e = obs["events"][2] if len(obs.get("events", [])) > 2 else None
        dec = ""
        if e is not None and len(obs.get("stored", [])) > 1:
            dec = (" | decision: from x=1 with s=-2 the proposal x*=-1 has MH log-ratio +4 under the current conditional (accept for every u); "
                   "observed x after the update: %s (u=0.9375)" % obs["stored"][1][0])
        _STATE["detail"] = (d or "cached evaluations are refreshed") + dec
        _STATE["obs"] = obs
    return _STATE["fresh"], _STATE["detail"]


# ------------------------------------------------------------------------------------------
# oracle-only cells: the other sampler classes that cache evaluations of their target (no Coq model of their kernels)
# ------------------------------------------------------------------------------------------
def cache_probe_real(which):
    """HybridGibbs on a small hierarchical Gaussian model with a real block sampler that caches target evaluations.
    Returns None or a description of the first update that starts with a cached value not belonging to its target."""
    import cuqi
    from cuqi.experimental.mcmc import HybridGibbs, MH, MALA, ULA, PCN, CWMH, Direct
    np.random.seed(7)
    log = []

    def wrap(cls, keys):
        class W(cls):
            def step(self):
                if not getattr(self, "_seen", False):
                    pass
                rec = {}
                for kname, fn in keys.items():
                    rec[kname] = (np.asarray(getattr(self, kname), dtype=float).copy(), np.asarray(fn(self), dtype=float))
                log.append(rec)
                return super().step()
        W.__name__ = cls.__name__
        return W
    s = cuqi.distribution.Gaussian(np.array([1.0, 0.5]), 1.0, name="s")
    x = cuqi.distribution.Gaussian(lambda s: s, 0.5, geometry=2, name="x")
    J = cuqi.distribution.JointDistribution(x, s)
    keysets = {
        "MALA": (MALA, {"current_target_logd": lambda o: o.target.logd(o.current_point), "current_target_grad": lambda o: o.target.gradient(o.current_point)}),
        "ULA": (ULA, {"current_target_grad": lambda o: o.target.gradient(o.current_point)}),
        "CWMH": (CWMH, {"current_target_logd": lambda o: o.target.logd(o.current_point)}),
        "PCN": (PCN, {"current_likelihood_logd": lambda o: o._loglikelihood(o.current_point)}),
    }
    cls, keys = keysets[which]
    W = wrap(cls, keys)
    if which == "PCN":
        strat = {"s": W(scale=0.3, initial_point=np.array([0.5, 0.5])), "x": Direct(initial_point=np.array([0.2, 0.1]))}
    else:
        strat = {"x": W(scale=0.05, initial_point=np.array([0.2, 0.1])), "s": MH(scale=0.8, initial_point=np.array([0.5, 0.5]))}
    with contextlib.redirect_stdout(io.StringIO()):
        G = HybridGibbs(J, strat)
        G.sample(6)
    for n, rec in enumerate(log):
        for kname, (cached, fresh) in rec.items():
            if not np.allclose(cached, fresh, rtol=1e-9, atol=1e-12):
                return ("%s block, update %d: restored %s = %s, its target (the current conditional) gives %s at the current point"
                        % (which, n, kname, np.round(cached, 6).tolist(), np.round(fresh, 6).tolist()))
    return None



# ------------------------------------------------------------------------------------------
# real CUQIpy families and the real block samplers (kernels opaque: the model is handed what they returned)
# ------------------------------------------------------------------------------------------
TOL_REAL = Fraction(1, 10 ** 7)
NOISY = ("LinearRTO", "UGLA", "RegularizedLinearRTO")      # block samplers whose draw is a (constrained) least-squares solve with perturbed data
UGLA_BETA = 1e-5                                           # UGLA's documented default smoothing parameter


def real_model(meta):
    """(cuqi joint/posterior, names in par_names order).  Two models:
    hier : d ~ Gamma(1, bd), l ~ Gamma(1, bl), x ~ Gaussian(0, (1/d) I_n), y ~ Gaussian(A x, (1/l) I_m), y observed
    pair : s ~ Gaussian(mu, v_s I_2), x ~ Gaussian(s, v_x I_2)
    x (and in `pair` also s) lives on the scale sigma = meta['sigma'] (a power of two)"""
    import cuqi
    from cuqi.distribution import Gaussian, Gamma, JointDistribution
    g = float(meta["sigma"])
    if meta["model"] in ("hier", "lmrf", "reg"):
        A = cuqi.model.LinearModel(np.asarray(meta["A"], dtype=float) / g)
        d = Gamma(1, meta["bd"] * g * g, name="d")
        l = Gamma(1, meta["bl"], name="l")
        n_ = len(meta["A"][0])
        if meta["model"] == "lmrf":                      # x ~ LMRF(0, scale 1/d): log-density -d |D x|_1 + (number of differences) log(d/2)
            from cuqi.distribution import LMRF
            x = LMRF(0, lambda d: 1 / d, geometry=n_, name="x")
        elif meta["model"] == "reg":                     # implicit prior (no log-density): Gaussian restricted to x >= 0
            from cuqi.implicitprior import RegularizedGaussian
            x = RegularizedGaussian(np.zeros(n_), prec=lambda d: d, constraint="nonnegativity", name="x")
        else:
            x = Gaussian(np.zeros(n_), cov=lambda d: 1 / d, name="x")
        y = Gaussian(A(x), cov=lambda l: 1 / l, name="y")
        dens = {"d": d, "l": l, "x": x}
        order = [dens[n] for n in meta["spec"]["names"]]
        order.insert(meta.get("ypos", len(order)), y)          # the data density anywhere among the priors
        J = JointDistribution(*order)
        return J(y=np.asarray(meta["y"], dtype=float))
    s = Gaussian(np.asarray(meta["mu"], dtype=float) * g, meta["vs"] * g * g, name="s")
    x = Gaussian(lambda s: s, meta["vx"] * g * g, geometry=2, name="x")
    dens = {"s": s, "x": x}
    return JointDistribution(*[dens[n] for n in meta["spec"]["names"]])


def real_kind(meta, i):
    """how the model treats block i of a real-family scenario"""
    a = meta["assign"][i]
    if i in meta.get("opaque", []):
        return "KRec"
    if a == "Conjugate":
        return "KConj"
    if a == "LinearRTO":
        return "KLrto"            # zero noise: conditional mean from the target's Hessian; scripted noise: stacked least-squares draw (real_lsspec)
    if a == "UGLA":
        return "KLrto"            # stacked least-squares draw with the Laplace weights at the current point
    if a == "RegularizedLinearRTO":
        return "KLrto"            # stacked least-squares draw constrained to x >= 0 (Model/C09_Nnls.v)
    if a == "NUTS":
        return "KNuts"
    return "KOpq" if a in ("MH", "CWMH", "MALA", "ULA", "PCN") else "KRec"


def real_poly_block(meta, i):
    """is the conditional of block i polynomial (no log term)?  Then cached logd / gradient can be compared with the model's"""
    return meta["model"] in ("hier", "pair") and not (meta["model"] == "hier" and meta["spec"]["names"][i] in ("d", "l"))


def real_sampler(meta, i, tr):
    from cuqi.experimental.mcmc import MH, MALA, ULA, CWMH, PCN, NUTS, LinearRTO, Conjugate, Direct, UGLA, ConjugateApprox, RegularizedLinearRTO
    base = {"MH": MH, "MALA": MALA, "ULA": ULA, "CWMH": CWMH, "PCN": PCN, "NUTS": NUTS, "LinearRTO": LinearRTO,
            "Conjugate": Conjugate, "Direct": Direct, "UGLA": UGLA, "ConjugateApprox": ConjugateApprox,
            "RegularizedLinearRTO": RegularizedLinearRTO}[meta["assign"][i]]

    class W(base):
        KIND = "KRec"

        def step(self):
            self._tr.on_step(self)
            ev = self._tr.events[-1]
            chk = []
            for key, fn in (("current_target_logd", lambda: self.target.logd(self.current_point)),
                            ("current_target_grad", lambda: self.target.gradient(self.current_point)),
                            ("current_likelihood_logd", lambda: self._loglikelihood(self.current_point))):
                if hasattr(self, key) and getattr(self, key) is not None:
                    c, f = np.asarray(getattr(self, key), dtype=float).ravel(), np.asarray(fn(), dtype=float).ravel()
                    chk.append([key, bool(c.shape == f.shape and np.allclose(c, f, rtol=1e-12, atol=0)), c.tolist(), f.tolist()])
            ev["cachechk"] = chk
            nm_a = meta["assign"][self._blk]
            if real_poly_block(meta, self._blk):
                if nm_a in ("MH", "CWMH", "MALA", "ULA", "NUTS") and getattr(self, "current_target_logd", None) is not None:
                    ev["cache"] = float(np.ravel(self.current_target_logd)[0])
                if nm_a in ("MALA", "ULA", "NUTS") and getattr(self, "current_target_grad", None) is not None:
                    ev["grad"] = [float(a) for a in np.ravel(self.current_target_grad)]
            # what the draw itself is made from (not only which target the sampler holds): the Gamma parameters a Conjugate
            # block hands to numpy, and -- with the normal draw replaced by 0 -- the point LinearRTO returns (= conditional mean)
            orig_g, orig_n = np.random.gamma, np.random.randn
            cap = {}

            def gam(*a, **k):
                cap["shape"], cap["scale"] = float(np.ravel(k.get("shape", a[0] if a else np.nan))[0]), float(np.ravel(k.get("scale", a[1] if len(a) > 1 else 1.0))[0])
                z = self._zs.pop(0) if self._zs else 1.0          # scripted standard Gamma variate: the draw is z * scale = z / rate
                cap["z"] = z
                size = k.get("size", a[2] if len(a) > 2 else None)
                return np.ones(size if size is not None else ()) * z * np.asarray(k.get("scale", a[1] if len(a) > 1 else 1.0), dtype=float)
            if meta["assign"][self._blk] in ("Conjugate", "ConjugateApprox"):
                np.random.gamma = gam
            if nm_a in NOISY:
                # samplers that PRECOMPUTE from their target when they are (re-)initialised: what they hold when the update starts
                def dense(Mx):
                    if callable(Mx) and not hasattr(Mx, "toarray"):          # matrix-free form M(x, 1) = M x: its columns
                        return np.array([np.ravel(Mx(u, 1)) for u in np.eye(len(np.ravel(self.current_point)))], dtype=float).T.tolist()
                    return (Mx.toarray() if hasattr(Mx, "toarray") else np.asarray(Mx, dtype=float)).tolist()
                if nm_a == "UGLA":
                    ev["pre"] = {"L1": dense(self._L1), "m": int(self._m), "loc": [float(a) for a in np.ravel(self._priorloc)]}
                else:
                    ev["pre"] = {"M": dense(self.M), "b": [float(a) for a in np.ravel(self.b_tild)]}
                    if nm_a == "RegularizedLinearRTO":
                        ev["pre"]["stepsize"] = float(self._stepsize)
                used = []

                def randn(*shape):                      # scripted standard normals (dyadic), or zeros
                    nn = int(np.prod(shape)) if shape else 1
                    vals = [0.0] * nn if meta.get("zero_noise") else [(self._es.pop(0) if self._es else 0.0) for _ in range(nn)]
                    used.extend(vals)
                    return np.asarray(vals, dtype=float).reshape(shape) if shape else vals[0]
                np.random.randn = randn
            try:
                acc = super().step()
            finally:
                np.random.gamma, np.random.randn = orig_g, orig_n
            if cap:
                ev["gamma"] = [cap["shape"], cap["scale"]]
                if nm_a == "Conjugate":
                    ev["gshape"] = cap["shape"]
                self._tr.zused[self._blk].append(cap["z"])
            if nm_a in NOISY:
                ev["e"] = used
                ev["out"] = [float(a) for a in np.asarray(self.current_point).ravel()]
            if meta["assign"][self._blk] == "LinearRTO" and meta.get("zero_noise"):
                ev["zmean"] = [float(a) for a in np.asarray(self.current_point).ravel()]
            self._tr.results[self._blk].append([float(a) for a in np.asarray(self.current_point).ravel()])
            return acc
    W.__name__ = base.__name__
    g = float(meta["sigma"])
    sc = meta["sscale"][i]
    ip = np.asarray(meta["inits"][i], dtype=float)
    kw = {"initial_point": ip}
    if meta["assign"][i] in ("MH", "CWMH", "PCN", "MALA", "ULA"):
        kw["scale"] = sc
    if meta["assign"][i] == "NUTS":
        kw["max_depth"] = 3
    if meta["assign"][i] in ("LinearRTO", "UGLA"):
        # CGLS converges in dim steps in exact arithmetic; a few more with tol 1e-10 (iterating far beyond convergence makes
        # CGLS divide by round-off and blow up -- seen with maxit=200, tol=1e-14): the zero-noise draw is then the conditional mean
        kw["maxit"], kw["tol"] = len(ip) + 3, 1e-10
    if meta["assign"][i] == "RegularizedLinearRTO":
        # plain projected-gradient iteration (adaptive=False), run to convergence: the sampler's automatic step size is
        # 0.99 / (randomised ESTIMATE of |M|_2)^2, which exceeds 1/|M|_2^2 when the two largest singular values are close (seen:
        # 1.05 / |M|^2); the accelerated iteration (adaptive=True) then diverges slowly (1e98 after 3000 iterations, 4e-4 relative
        # error after the default 100), the plain one converges for every step below 2 / |M|^2.  Not a Gibbs matter: reported as an observation.
        kw["maxit"], kw["abstol"], kw["adaptive"] = 20000, 1e-13 * g, False
    smp = W(**kw)
    smp._tr, smp._blk = tr, i
    smp._es = list(meta.get("ens", [[]] * len(meta["assign"]))[i])
    smp._zs = list(meta.get("zs", [[]] * len(meta["assign"]))[i])
    return smp


def run_real(meta):
    from cuqi.experimental.mcmc import HybridGibbs
    spec = meta["spec"]
    k = len(spec["names"])
    tr = Trace(spec, meta["probes"])
    tr.results = [[] for _ in range(k)]
    tr.zused = [[] for _ in range(k)]
    obs = {"error": None}
    np.random.seed(meta["npseed"])
    try:
        with contextlib.redirect_stdout(io.StringIO()):
            target = real_model(meta)
            strategy = {nm: real_sampler(meta, i, tr) for i, nm in enumerate(spec["names"])}
            strategy = {nm: strategy[nm] for nm in sorted(strategy, reverse=bool(meta["npseed"] % 2))}      # dict order is not par_names order
            nss = meta["num_steps"]
            nsd = None if nss is None else {spec["names"][i]: n for i, n in enumerate(nss) if n is not None}
            G = HybridGibbs(target, strategy, nsd)
            tr.G = G
            obs["par_names"] = list(G.par_names)
            obs["init_cur"] = tr.snapshot()
            for op in meta["ops"]:
                if op[0] == "sample":
                    G.sample(op[1])
                else:
                    G.warmup(op[1]) if op[2] == 0.1 else G.warmup(op[1], tune_freq=op[2])       # 0.1 is the default: left out
        obs["events"] = tr.events
        obs["results"] = tr.results
        obs["zused"] = tr.zused
        obs["cur"] = tr.snapshot()
        obs["stored_lens"] = [len(G.samples[n]) for n in spec["names"]]
        nsw = min(obs["stored_lens"])
        obs["stored"] = [[[float(a) for a in np.asarray(G.samples[n][t]).ravel()] for n in spec["names"]] for t in range(nsw)]
        obs["stored_shapes"] = [[list(np.shape(G.samples[n][t])) for n in spec["names"]] for t in range(nsw)]
        obs["samplers"] = [{"pt": [float(a) for a in np.asarray(G.samplers[nm].current_point).ravel()], "cache": None, "scale": 1.0,
                            "acc": [0] * len(G.samplers[nm]._acc), "tunes": [], "init": [], "leftover": 0} for nm in spec["names"]]
        try:
            gs = G.get_samples()
            ok = all(np.array_equal(np.asarray(gs[n].samples).reshape(spec["dims"][i], nsw),
                                    np.array([r[i] for r in obs["stored"]]).T.reshape(spec["dims"][i], nsw)) for i, n in enumerate(spec["names"]))
            obs["get_samples"] = "ok" if ok else "returns other values than the stored sweeps"
        except Exception as e:      # noqa
            obs["get_samples"] = "raised %s: %s" % (type(e).__name__, str(e)[:120])
    except Exception as e:          # noqa
        obs["error"] = "%s: %s" % (type(e).__name__, str(e)[:300])
        obs["events"] = tr.events
    return obs


def real_script(meta, obs):
    """the kernels' outputs, arranged as the script the model's opaque samplers replay"""
    k = len(meta["spec"]["names"])
    nst = [1 if (meta["num_steps"] is None or meta["num_steps"][i] is None) else meta["num_steps"][i] for i in range(k)]
    nsw = sum(op[1] for op in meta["ops"])
    res = obs.get("results") or [[] for _ in range(k)]
    zus = obs.get("zused") or [[] for _ in range(k)]

    evs_of = [[e for e in obs.get("events", []) if e["blk"] == i] for i in range(k)]

    def item(i, n):
        vec = res[i][n] if n < len(res[i]) else [0.0] * meta["spec"]["dims"][i]      # fewer transitions than configured: the oracle reports it
        if real_ls_block(meta, i) and n < len(evs_of[i]):
            vec = real_ls_item(meta, i, evs_of[i][n], vec)
        it = {"vec": vec, "u": None, "acc": 1}
        if real_kind(meta, i) == "KConj":       # the model computes the draw itself: scripted standard variate / rate (the observed
            it["z"] = zus[i][n] if n < len(zus[i]) else 1.0          # point is only adopted when it agrees to 1e-7)
        return it
    return [[[item(i, t * nst[i] + j) for j in range(nst[i])] for i in range(k)] for t in range(nsw)]


def real_ls_block(meta, i):
    """is block i drawn by the MODEL's stacked least-squares draw (Model/C09_Gibbs2.v rto_trans)?"""
    a = meta["assign"][i]
    if i in meta.get("opaque", []):
        return False
    return ((a == "LinearRTO" and meta["model"] == "hier" and not meta.get("zero_noise")) or (a == "UGLA" and meta["model"] == "lmrf")
            or (a == "RegularizedLinearRTO" and meta["model"] == "reg"))


def real_lsspec(meta, i):
    """Coq term (option lsblock) of block i: the Gaussian factors in the order in which the sampler stacks them"""
    if not real_ls_block(meta, i):
        return "None"
    return "(Some %s)" % real_lsblock_term(meta, i)


def real_lsblock_term(meta, i):
    names = meta["spec"]["names"]
    k = len(names)
    g = Fraction(meta["sigma"])
    ix = {n: j for j, n in enumerate(names)}
    row = lambda c, cos: "(mkRow %s %s)" % (cq(c), clist([cqvec(cos.get(b, [])) for b in range(k)]))
    A = [[Fraction(a) / g for a in r] for r in meta["A"]]
    n = len(A[0])
    lik = "(mkGF (inl %s) %s)" % (cnat(ix["l"]), clist([row(meta["y"][r], {ix["x"]: A[r]}) for r in range(len(A))]))
    if meta["model"] == "lmrf":
        Dcols = [_diffs([float(j == c) for c in range(n)]) for j in range(n)]
        pri = "(mkGF (inl %s) %s)" % (cnat(ix["d"]), clist([row(0, {ix["x"]: [Fraction(Dcols[j][r]) for j in range(n)]}) for r in range(n + 1)]))
        return "([(%s, None); (%s, Some %s)], false)" % (lik, pri, cq(UGLA_BETA))
    unit = lambda j: [Fraction(int(j == c)) for c in range(n)]
    pri = "(mkGF (inl %s) %s)" % (cnat(ix["d"]), clist([row(0, {ix["x"]: unit(j)}) for j in range(n)]))
    # RegularizedGaussian with the non-negativity constraint: the same rows, the solve constrained to x >= 0
    return "([(%s, None); (%s, None)], %s)" % (lik, pri, cbool(meta["model"] == "reg"))


def real_ls_item(meta, i, ev, out):
    """random item of a least-squares block: observed point ++ scripted normals ++ certificates sqrt(w_r) ++ certificates dd_r
    (dd_r = 1 / sqrt(t_r^2 + beta) for the Laplace-approximated rows, 1 otherwise; w_r = precision of the row's factor * dd_r)"""
    names = meta["spec"]["names"]
    cur = {names[b]: ev["cur"][b] for b in range(len(names))}
    l, d = float(cur["l"][0]), float(cur["d"][0])
    m = len(meta["A"])
    n = len(meta["A"][0])
    if meta["model"] == "lmrf":
        dx = _diffs(ev["pt"])
        dd = [1.0] * m + [1.0 / math.sqrt(t * t + UGLA_BETA) for t in dx]
        w = [l] * m + [d * v for v in dd[m:]]
    else:
        dd = [1.0] * (m + n)
        w = [l] * m + [d] * n
    es = list(ev.get("e", [])) + [0.0] * len(w)
    return [float(a) for a in out] + es[:len(w)] + [math.sqrt(v) if v > 0 else 0.0 for v in w] + dd


def real_results_script(meta, obs):
    """for the trace oracle: what every transition returned"""
    k = len(meta["spec"]["names"])
    nst = [1 if (meta["num_steps"] is None or meta["num_steps"][i] is None) else meta["num_steps"][i] for i in range(k)]
    nsw = sum(op[1] for op in meta["ops"])
    res = obs.get("results") or [[] for _ in range(k)]
    get = lambda i, n: res[i][n] if n < len(res[i]) else [0.0] * meta["spec"]["dims"][i]
    return [[[{"vec": get(i, t * nst[i] + j), "u": None, "acc": 1} for j in range(nst[i])] for i in range(k)] for t in range(nsw)]


def _F(v):
    return [Fraction(*float(a).as_integer_ratio()) for a in v]


def real_closed_form(meta, i, others):
    """independent closed form of the conditional of block i given the others (dict name -> vector of Fractions):
    returns f(p) = the part of log p(block i = p | others) that depends on p, split into (polynomial part, coefficient of log p_0)"""
    nm = meta["spec"]["names"][i]
    g = Fraction(meta["sigma"])
    if meta["model"] == "lmrf":
        A = [[Fraction(a) for a in row] for row in meta["A"]]
        y = [Fraction(v) for v in meta["y"]]
        n, m = len(A[0]), len(A)
        res = lambda xv: sum((y[r] - sum(A[r][c] * xv[c] for c in range(n))) ** 2 for r in range(m))
        tv = lambda xv: sum(abs(b - a) for a, b in zip([0] + list(xv), list(xv) + [0]))        # |D x|_1, zero boundary
        if nm == "x":
            d, l = others["d"][0], others["l"][0]
            return (lambda p: -d * tv(p) - l / 2 * res(p)), 0
        if nm == "d":
            return (lambda p: -(Fraction(meta["bd"]) + tv(others["x"])) * p[0]), None
        return (lambda p: -(Fraction(meta["bl"]) + res(others["x"]) / 2) * p[0]), Fraction(m, 2)
    if meta["model"] == "hier":
        A = [[Fraction(a) / g for a in row] for row in meta["A"]]
        y = [Fraction(v) for v in meta["y"]]
        n, m = len(A[0]), len(A)
        res = lambda xv: sum((y[r] - sum(A[r][c] * xv[c] for c in range(n))) ** 2 for r in range(m))
        if nm == "x":
            d, l = others["d"][0], others["l"][0]
            return (lambda p: -d / 2 * sum(a * a for a in p) - l / 2 * res(p)), 0
        if nm == "d":
            xv = others["x"]
            B = Fraction(meta["bd"]) * g * g + sum(a * a for a in xv) / 2
            return (lambda p: -B * p[0]), Fraction(n, 2)            # Gamma(1, .): (alpha - 1) = 0
        xv = others["x"]
        B = Fraction(meta["bl"]) + res(xv) / 2
        return (lambda p: -B * p[0]), Fraction(m, 2)
    mu = [Fraction(v) * g for v in meta["mu"]]
    wx, ws = 1 / (Fraction(meta["vx"]) * g * g), 1 / (Fraction(meta["vs"]) * g * g)
    if nm == "x":
        sv = others["s"]
        return (lambda p: -wx / 2 * sum((p[c] - sv[c]) ** 2 for c in range(2))), 0
    xv = others["x"]
    return (lambda p: -wx / 2 * sum((xv[c] - p[c]) ** 2 for c in range(2)) - ws / 2 * sum((p[c] - mu[c]) ** 2 for c in range(2))), 0


def real_probe_check(meta, i, want, e):
    """target handed to block i vs the closed-form conditional given the TRUE current others, through probe combinations"""
    names = meta["spec"]["names"]
    if meta["model"] == "reg":
        return None                  # the implicit prior has no log-density (every conditional's logd is NaN): nothing can be probed through logd
    others = {names[b]: _F(want[b]) for b in range(len(names)) if b != i}
    f, logc = real_closed_form(meta if meta["model"] != "reg" else dict(meta, model="lmrf"), i, others)
    probes = [_F(p) for p in meta["probes"][i]]
    o = [Fraction(*float(v).as_integer_ratio()) for v in e["probes"]]
    t = [f(p) for p in probes]
    for c in meta.get("pycombos", meta["combos"])[i]:
        lhs = sum(ck * ov for ck, ov in zip(c, o))
        rhs = sum(ck * tv for ck, tv in zip(c, t))
        size = 1 + sum(abs(ck * ov) for ck, ov in zip(c, o)) + sum(abs(ck * tv) for ck, tv in zip(c, t))
        if abs(lhs - rhs) > TOL_REAL * size:
            return ("combination %s of the target's logd at the probes %s is %.12g, the closed-form conditional gives %.12g"
                    % (c, meta["probes"][i], float(lhs), float(rhs)))
    if logc:
        # hyper-parameter block, probes p, 2p, 4p: 2[D(2p) - D(p)] - [D(4p) - D(2p)] = (coefficient of log) * log 2
        lhs = float(2 * (o[1] - o[0]) - (o[2] - o[1]))
        rhs = float(logc) * math.log(2.0)
        if abs(lhs - rhs) > 1e-7 * (1 + sum(abs(float(v)) for v in o)):
            return "the target's logd has log-coefficient %.9g, the conditional's is %.9g" % (lhs / math.log(2.0), float(logc))
    return None


def _solve(M, b):
    """Gauss-Jordan over Fractions"""
    n = len(b)
    M = [row[:] + [b[i]] for i, row in enumerate(M)]
    for c in range(n):
        piv = next(r for r in range(c, n) if M[r][c] != 0)
        M[c], M[piv] = M[piv], M[c]
        M[c] = [v / M[c][c] for v in M[c]]
        for r in range(n):
            if r != c and M[r][c] != 0:
                M[r] = [vr - M[r][c] * vc for vr, vc in zip(M[r], M[c])]
    return [M[i][n] for i in range(n)]


def _diffs(xv):
    """first-order differences of x padded with a zero on both sides (LMRF with zero boundary): n + 1 values"""
    pad = [0.0] + [float(a) for a in xv] + [0.0]
    return [pad[r + 1] - pad[r] for r in range(len(pad) - 1)]


def real_ls_system(meta, i, want, pt):
    """independent statement of the stacked least-squares system a LinearRTO / RegularizedLinearRTO / UGLA block must use for
    the conditional of x given the CURRENT d and l:  rows sqrt(weight) * (coefficients | right-hand side), likelihood rows
    first, then the prior rows (floats; written from the model definition, nothing read from the sampler)"""
    names = meta["spec"]["names"]
    val = {names[b]: [float(a) for a in want[b]] for b in range(len(names)) if b != i}
    d, l = val["d"][0], val["l"][0]
    g = float(meta["sigma"])
    A = [[float(a) / g for a in row] for row in meta["A"]]
    n = len(A[0])
    rows = [([math.sqrt(l) * a for a in A[r]], math.sqrt(l) * float(meta["y"][r])) for r in range(len(A))]
    if meta["model"] == "lmrf":                      # Laplace differences approximated at the sampler's current point
        dx = _diffs(pt)
        Dcols = [_diffs([float(j == c) for c in range(n)]) for j in range(n)]          # column j of the difference operator
        for r in range(n + 1):
            w = d / math.sqrt(dx[r] ** 2 + UGLA_BETA)
            rows.append(([math.sqrt(w) * Dcols[j][r] for j in range(n)], 0.0))
    else:
        for j in range(n):
            rows.append(([math.sqrt(d) * float(j == c) for c in range(n)], 0.0))
    return rows


def _lsq(rows, rhs, free, exact=False):
    """minimiser of sum_r (<a_r, x> - rhs_r)^2 over x supported on `free` (normal equations, Gauss-Jordan over Fractions)"""
    n = len(rows[0][0])
    Fr = lambda v: Fraction(*float(v).as_integer_ratio())
    Aq = [[Fr(a[c]) for c in free] for a, _ in rows]
    cq_ = [Fr(v) for v in rhs]
    H = [[sum(Aq[r][p] * Aq[r][q] for r in range(len(Aq))) for q in range(len(free))] for p in range(len(free))]
    gq = [sum(Aq[r][p] * cq_[r] for r in range(len(Aq))) for p in range(len(free))]
    sol = _solve(H, gq) if free else []
    x = [Fraction(0)] * n
    for c, v in zip(free, sol):
        x[c] = v
    return x if exact else [float(v) for v in x]


def _nnls(rows, rhs):
    """minimiser over x >= 0: the support whose restricted solution satisfies the KKT conditions (exact rational arithmetic on
    the float data: x >= 0 and gradient >= 0 off the support)"""
    n = len(rows[0][0])
    Fr = lambda v: Fraction(*float(v).as_integer_ratio())
    for mask in range(2 ** n - 1, -1, -1):
        free = [c for c in range(n) if mask >> c & 1]
        x = _lsq(rows, rhs, free, exact=True)
        if any(v < 0 for v in x):
            continue
        res = [sum(Fr(a[q]) * x[q] for q in range(n)) - Fr(t) for (a, _), t in zip(rows, rhs)]
        grad = [sum(Fr(rows[r][0][c]) * res[r] for r in range(len(rows))) for c in range(n)]
        if all(grad[c] >= 0 for c in range(n) if c not in free):
            return [float(v) for v in x]
    return None


def real_draw_check(meta, i, want, e):
    """the draw of an exact block sampler is made from the conditional given the TRUE current others"""
    names = meta["spec"]["names"]
    others = {names[b]: _F(want[b]) for b in range(len(names)) if b != i}
    g = Fraction(meta["sigma"])
    a_i = meta["assign"][i]
    if "gamma" in e and meta["model"] in ("hier", "lmrf", "reg"):
        oshape, orate = e["gamma"][0], 1.0 / e["gamma"][1]
        shape = rate = None
        if a_i == "Conjugate" and not (meta["model"] == "reg" and names[i] == "d"):
            # reg: the l-block's conditional is the Gaussian likelihood's, as in the hierarchical Gaussian model (A on the x-scale)
            f, logc = real_closed_form(meta if meta["model"] != "reg" else dict(meta, model="hier"), i, others)
            rate = float(-f([Fraction(1)]))                           # f(p) = -B p
            shape = float(logc + 1)
        elif a_i == "ConjugateApprox":
            # documented approximation (Uribe et al. 2022): |t| ~ t^2 / sqrt(t^2 + beta) for every difference t of x:
            # rate = prior rate + sum_r t_r^2 / sqrt(t_r^2 + beta); the shape the code uses is len(x) + alpha (DESIGN C10 observation)
            dx = _diffs([float(v) for v in others["x"]])
            rate = float(meta["bd"]) + sum(t * t / math.sqrt(t * t + 1e-5) for t in dx)
            shape = float(len(others["x"]) + 1)
        if rate is not None and (abs(oshape - shape) > 1e-9 or abs(orate - rate) > 1e-9 * abs(rate)):
            return ("%s drew from Gamma(shape %.10g, rate %.10g); the conditional given the current other blocks is Gamma(shape %.10g, rate %.10g)"
                    % (a_i, oshape, orate, shape, rate))
    if "pre" in e:
        rows = real_ls_system(meta, i, want, e["pt"])
        n = len(rows[0][0])
        m = len(meta["A"])
        close = lambda u, v: abs(u - v) <= 1e-9 * (abs(u) + abs(v)) + 1e-300
        pre = e["pre"]
        if a_i == "UGLA":
            l = float(others["l"][0])
            exp_L1 = [[math.sqrt(l) * float(r == c) for c in range(m)] for r in range(m)]
            ok = (pre["m"] == m and len(pre["L1"]) == m and all(len(r_) == m and all(close(u, v) for u, v in zip(r_, x_)) for r_, x_ in zip(pre["L1"], exp_L1))
                  and all(v == 0.0 for v in pre["loc"]) and len(pre["loc"]) == n)
            if not ok:
                return ("UGLA holds precomputed noise square-root precision %s (data length %s, prior location %s); the conditional given the current "
                        "other blocks has sqrt(l) I = %s" % (pre["L1"], pre["m"], pre["loc"], exp_L1))
        else:
            expM, expb = [r_[0] for r_ in rows], [r_[1] for r_ in rows]
            ok = (len(pre["M"]) == len(expM) and all(len(r_) == n and all(close(u, v) for u, v in zip(r_, x_)) for r_, x_ in zip(pre["M"], expM))
                  and len(pre["b"]) == len(expb) and all(close(u, v) for u, v in zip(pre["b"], expb)))
            if not ok:
                return ("%s holds the precomputed stacked system M = %s, b = %s; for the conditional given the current other blocks it is M = %s, b = %s"
                        % (a_i, pre["M"], pre["b"], expM, expb))
            if "stepsize" in pre:
                top = float(np.linalg.norm(np.asarray(expM), 2)) ** 2
                if not (0.8 <= pre["stepsize"] * top <= 3.0):       # randomised norm estimate: a wide band
                    return ("RegularizedLinearRTO holds the step size %.6g; 0.99 / |M|_2^2 of the current conditional's system is %.6g" % (pre["stepsize"], 0.99 / top))
        if len(e["e"]) != len(rows):
            return "%s consumed %d normal variates, the stacked system of the conditional has %d rows" % (a_i, len(e["e"]), len(rows))
        rhs = [b_ + z_ for (_, b_), z_ in zip(rows, e["e"])]
        if a_i == "RegularizedLinearRTO":
            best = _nnls(rows, rhs)                                  # constrained least squares over x >= 0
            exp_x, tolx = best, 1e-4
        else:
            exp_x, tolx = _lsq(rows, rhs, list(range(n))), 1e-5
        if exp_x is not None:
            sc = max(abs(v) for v in exp_x) + float(g)          # x lives on the scale g: an exact 0 comes back as round-off of that scale
            if len(e["out"]) != n or any(abs(u - v) > tolx * sc for u, v in zip(e["out"], exp_x)):
                return ("%s with the scripted normal variates %s returned %s; the perturbed least-squares draw from the conditional given the current other "
                        "blocks (d, l = %s, %s) is %s" % (a_i, e["e"], e["out"], float(others["d"][0]), float(others["l"][0]), exp_x))
    return None


def real_cache_check(meta, obs):
    if obs.get("error"):
        return None
    for e in obs["events"]:
        for key, ok, c, f in e.get("cachechk", []):
            if not ok:
                return ("block %s (%s): %s = %s when its update starts, its target (the current conditional) gives %s at the current point"
                        % (meta["spec"]["names"][e["blk"]], meta["assign"][e["blk"]], key, np.round(c, 9).tolist(), np.round(f, 9).tolist()))
    return None


def cgjoint(meta):
    """Coq term of the polynomial part of the joint (gjoint): see Model/C09_Gibbs.v"""
    names = meta["spec"]["names"]
    k = len(names)
    g = Fraction(meta["sigma"])
    ix = {n: i for i, n in enumerate(names)}
    row = lambda c, cos: "(mkRow %s %s)" % (cq(c), clist([cqvec(cos.get(b, [])) for b in range(k)]))
    if meta["model"] in ("lmrf", "reg"):
        A = [[Fraction(a) / g for a in r] for r in meta["A"]]
        f2 = "(mkGF (inl %s) %s)" % (cnat(ix["l"]), clist([row(meta["y"][r], {ix["x"]: A[r]}) for r in range(len(A))]))
        lins = clist(["(%s, %s)" % (cnat(ix["d"]), cq(Fraction(meta["bd"]) * g * g)), "(%s, %s)" % (cnat(ix["l"]), cq(meta["bl"]))])
        return "(gjoint %s %s)" % (clist([f2]), lins)          # the prior of x is not polynomial: only the l-block is compared in Coq
    if meta["model"] == "hier":
        A = [[Fraction(a) / g for a in r] for r in meta["A"]]
        n = len(A[0])
        unit = lambda j: [Fraction(int(j == c)) for c in range(n)]
        f1 = "(mkGF (inl %s) %s)" % (cnat(ix["d"]), clist([row(0, {ix["x"]: unit(j)}) for j in range(n)]))
        f2 = "(mkGF (inl %s) %s)" % (cnat(ix["l"]), clist([row(meta["y"][r], {ix["x"]: A[r]}) for r in range(len(A))]))
        lins = clist(["(%s, %s)" % (cnat(ix["d"]), cq(Fraction(meta["bd"]) * g * g)), "(%s, %s)" % (cnat(ix["l"]), cq(meta["bl"]))])
        return "(gjoint %s %s)" % (clist([f1, f2]), lins)
    unit = lambda j, sgn=1: [Fraction(sgn * int(j == c)) for c in range(2)]
    wx, ws = 1 / (Fraction(meta["vx"]) * g * g), 1 / (Fraction(meta["vs"]) * g * g)
    f1 = "(mkGF (inr %s) %s)" % (cq(wx), clist([row(0, {ix["x"]: unit(j), ix["s"]: unit(j, -1)}) for j in range(2)]))
    f2 = "(mkGF (inr %s) %s)" % (cq(ws), clist([row(Fraction(meta["mu"][j]) * g, {ix["s"]: unit(j)}) for j in range(2)]))
    return "(gjoint %s [])" % clist([f1, f2])


def real_model_scale(meta, i):
    """the constant the model keeps in s_scale: Conjugate: the Gamma shape it must use; otherwise the step of the exact
    finite differences (the block's scale)"""
    nm = meta["spec"]["names"][i]
    if real_kind(meta, i) == "KConj":
        return Fraction(len(meta["A"][0]) if nm == "d" else len(meta["A"]), 2) + 1
    if meta["model"] == "hier" and nm in ("d", "l"):
        return Fraction(meta["inits"][i][0])
    return Fraction(meta["sigma"])


def encode_real(meta, obs, fresh=True):
    if obs.get("error"):
        return "false"
    k = len(meta["spec"]["names"])
    ns = clist([]) if meta["num_steps"] is None else clist([copt(n, cnat) for n in meta["num_steps"]])
    sc = real_script(meta, obs)
    combos = clist([clist([czvec(c) for c in meta["combos"][i]]) for i in range(k)])
    evs = []
    for e in obs["events"]:
        e2 = dict(e)
        e2.setdefault("cache", None)
        if real_kind(meta, e["blk"]) != "KConj":
            e2.pop("gshape", None)           # a Conjugate block the model treats as opaque (RegularizedGaussian pair)
        evs.append(coev(e2))
    if any(real_ls_block(meta, i) for i in range(k)):
        return "check_hybrid_tol2 %s %s %s %s %s %s %s %s %s %s %s %s %s %s %s %s %s" % (
            cq(Fraction(1, 10 ** 12)), cbool(fresh), cgjoint(meta), clist([real_lsspec(meta, i) for i in range(k)]),
            clist([real_kind(meta, i) for i in range(k)]), cvecs(meta["inits"]),
            clist([cq(real_model_scale(meta, i)) for i in range(k)]), ns, cscript(sc), cops(meta["ops"]),
            clist([cvecs(p) for p in meta["probes"]]), combos, cq(TOL_REAL), clist(evs), cvecs(obs["cur"]),
            clist([cvecs(st) for st in obs["stored"]]), cvecs([sm["pt"] for sm in obs["samplers"]]))
    return "check_hybrid_tol %s %s %s %s %s %s %s %s %s %s %s %s %s %s %s" % (
        cbool(fresh), cgjoint(meta), clist([real_kind(meta, i) for i in range(k)]), cvecs(meta["inits"]),
        clist([cq(real_model_scale(meta, i)) for i in range(k)]), ns, cscript(sc), cops(meta["ops"]),
        clist([cvecs(p) for p in meta["probes"]]), combos, cq(TOL_REAL), clist(evs), cvecs(obs["cur"]),
        clist([cvecs(st) for st in obs["stored"]]), cvecs([sm["pt"] for sm in obs["samplers"]]))


REAL_CELLS = [
    # (cell, model, names (par_names order), assignment, steps, ops, log2 sigma)
    ("real/hier/LinearRTO+Conjugate", "hier", ["d", "l", "x"], ["Conjugate", "Conjugate", "LinearRTO"], None, [("sample", 3)], 0),
    ("real/hier/LinearRTO+Conjugate/x-scale2^-30", "hier", ["x", "d", "l"], ["LinearRTO", "Conjugate", "Conjugate"], [1, 2, 1], [("sample", 3)], -30),
    ("real/hier/LinearRTO+Conjugate/x-scale2^20/warmup", "hier", ["d", "x", "l"], ["Conjugate", "LinearRTO", "Conjugate"], None, [("warmup", 2, 0.5), ("sample", 2)], 20),
    # a block configured with 0 transitions per sweep stays fixed (l), a least-squares block with 2: both draws from the same conditional
    ("real/hier/LinearRTO+Conjugate/steps-1,0,2", "hier", ["d", "l", "x"], ["Conjugate", "Conjugate", "LinearRTO"], [1, 0, 2], [("sample", 3)], 0),
    ("real/lmrf/UGLA+ConjugateApprox+Conjugate/steps-2,0,None", "lmrf", ["x", "d", "l"], ["UGLA", "ConjugateApprox", "Conjugate"], [2, 0, None], [("sample", 3)], 0),
    # the least-squares block itself kept fixed (0 transitions): d and l are drawn given the initial x in every sweep; repeated / empty sample calls
    ("real/hier/LinearRTO+Conjugate/steps-0,1,2/sample-thrice", "hier", ["x", "d", "l"], ["LinearRTO", "Conjugate", "Conjugate"], [0, 1, 2], [("sample", 1), ("sample", 0), ("sample", 2)], 0),
    ("real/hier/NUTS+Conjugate", "hier", ["d", "l", "x"], ["Conjugate", "Conjugate", "NUTS"], None, [("warmup", 2, 0.5), ("sample", 2)], 0),
    ("real/hier/MALA+MH+Conjugate", "hier", ["x", "d", "l"], ["MALA", "MH", "Conjugate"], [2, 1, 1], [("sample", 3)], 0),
    ("real/lmrf/UGLA+ConjugateApprox+Conjugate", "lmrf", ["d", "l", "x"], ["ConjugateApprox", "Conjugate", "UGLA"], None, [("sample", 3)], 0),
    ("real/lmrf/UGLA+ConjugateApprox+Conjugate/steps+warmup", "lmrf", ["x", "l", "d"], ["UGLA", "Conjugate", "ConjugateApprox"], [2, 1, 1], [("warmup", 2, 0.5), ("sample", 2)], 0),
    ("real/reg/RegularizedLinearRTO+Conjugate", "reg", ["x", "d", "l"], ["RegularizedLinearRTO", "Conjugate", "Conjugate"], None, [("sample", 3)], 0),
    ("real/reg/RegularizedLinearRTO+Conjugate/x-scale2^-20/steps+warmup", "reg", ["d", "x", "l"], ["Conjugate", "RegularizedLinearRTO", "Conjugate"], [1, 2, 1], [("warmup", 2, 0.5), ("sample", 2)], -20),
    ("real/pair/MALA+MH", "pair", ["x", "s"], ["MALA", "MH"], None, [("sample", 4)], 0),
    ("real/pair/ULA+MH/scale2^-30", "pair", ["x", "s"], ["ULA", "MH"], None, [("sample", 4)], -30),
    ("real/pair/CWMH+MH/warmup", "pair", ["s", "x"], ["MH", "CWMH"], [1, 2], [("warmup", 2, 0.5), ("sample", 2)], 0),
    ("real/pair/PCN+Direct", "pair", ["x", "s"], ["Direct", "PCN"], None, [("sample", 4)], 0),
    ("real/pair/PCN+Direct/scale2^-20", "pair", ["s", "x"], ["PCN", "Direct"], None, [("sample", 3)], -20),
    ("real/pair/NUTS+MH", "pair", ["x", "s"], ["NUTS", "MH"], None, [("sample", 3)], 0),
    ("real/pair/MALA+CWMH/scale2^-40", "pair", ["x", "s"], ["MALA", "CWMH"], None, [("sample", 3)], -40),
]


def gen_real(rng, cell):
    name, model, names, assign, steps, ops, lg = cell
    g = 2.0 ** lg
    k = len(names)
    meta = {"iface": "real", "real": True, "cell": name, "model": model, "assign": list(assign), "sigma": g, "npseed": rng.randint(0, 10 ** 6),
            "zero_noise": bool(rng.random() < 0.5), "ypos": rng.randint(0, k),
            "num_steps": None if steps is None else list(steps), "ops": [list(o) for o in ops], "kinds": ["KRec"] * k}
    if model in ("hier", "lmrf", "reg"):
        n, m = rng.choice([2, 3]), 3
        meta["A"] = [[rng.randint(-2, 2) for _ in range(n)] for _ in range(m)]
        for j in range(n):
            meta["A"][j % m][j] = meta["A"][j % m][j] or 1
        meta["y"] = rvec(rng, m, -2, 2, 2)
        meta["bd"], meta["bl"] = rng.choice([0.5, 1.0, 2.0]), rng.choice([0.5, 1.0])
        dims = {"x": n, "d": 1, "l": 1}
        d0, l0 = rng.choice([0.5, 1.0, 2.0]) / (g * g), rng.choice([1.0, 2.0])
        init = {"x": [a * g for a in rvec(rng, n, -2, 2, 2)], "d": [d0], "l": [l0]}
        probes = {"x": [[0.0] * n] + [[g * float(j == c) for c in range(n)] for j in range(n)] + [[a * g for a in rvec(rng, n, -2, 2, 2)]],
                  "d": [[d0], [2 * d0], [4 * d0]], "l": [[l0], [2 * l0], [4 * l0]]}
        combos = {"x": [[-1] + [int(j == c) for c in range(n + 1)] for j in range(n + 1)], "d": [[-1, 2, -1]], "l": [[-1, 2, -1]]}
        sscale = {"x": 0.02 * g * g, "d": 0.5 / (g * g), "l": 0.5}
    else:
        meta["mu"], meta["vx"], meta["vs"] = rvec(rng, 2, -1, 1, 2), rng.choice([0.5, 0.25]), 1.0
        dims = {"x": 2, "s": 2}
        init = {"x": [a * g for a in rvec(rng, 2, -1, 1, 4)], "s": [a * g for a in rvec(rng, 2, -1, 1, 4)]}
        pr = lambda: [[0.0, 0.0], [g, 0.0], [0.0, g], [a * g for a in rvec(rng, 2, -2, 2, 2)]]
        probes = {"x": pr(), "s": pr()}
        cb = [[-1, 1, 0, 0], [-1, 0, 1, 0], [-1, 0, 0, 1]]
        combos = {"x": cb, "s": cb}
        sscale = {}
        for nm, a in zip(names, assign):
            sscale[nm] = {"MALA": 0.05 * g * g, "ULA": 0.05 * g * g}.get(a, 0.5 * g if a in ("MH", "CWMH") else 0.5)
    if model in ("lmrf", "reg"):
        meta["pycombos"] = [combos[nm] for nm in names]                       # the Python oracle compares every block it can
        combos = dict(combos, x=[], d=[])                                     # Coq: only the polynomial l-block
        if model == "reg":
            combos = dict(combos, l=[])
        meta["opaque"] = [i for i, nm in enumerate(names) if model == "reg" and nm == "d"]
        if model == "reg":
            init["x"] = [abs(a) + 0.25 * g for a in init["x"]]
    if model == "hier":
        for nm, a in zip(names, assign):
            if a in ("MH", "CWMH"):
                sscale[nm] = {"x": 0.3 * g, "d": 0.3 / (g * g), "l": 0.3}[nm]
    meta["spec"] = {"names": list(names), "dims": [dims[nm] for nm in names]}
    meta["inits"] = [init[nm] for nm in names]
    meta["probes"] = [probes[nm] for nm in names]
    meta["combos"] = [combos[nm] for nm in names]
    meta["sscale"] = [sscale.get(nm, 1.0) for nm in names]
    meta["scales"] = [1.0] * k
    nsw_tot = sum(op[1] for op in ops) * 3 + 8
    meta["zs"] = [[rng.choice([0.5, 0.75, 1.0, 1.5, 2.0, 3.0]) for _ in range(nsw_tot)] if a in ("Conjugate", "ConjugateApprox") else [] for a in assign]
    # scripted standard normals (dyadic, incl. 0 and repeats) for the blocks whose draw is a perturbed least-squares solve
    meta["ens"] = [[dy(rng, -2, 2, 4) for _ in range(nsw_tot * 8)] if a in NOISY else [] for a in assign]
    return meta


# ---- legacy Gibbs with the real legacy samplers (cuqi.sampler.LinearRTO / Conjugate / NUTS / MH), kernels opaque
LEGACY_REAL_CELLS = [
    # (cell, model, names, assignment, tuple groups, ops, log2 sigma)
    ("legacy-real/hier/LinearRTO+Conjugate-tuple/adjacent", "hier", ["d", "l", "x"], ["Conjugate", "Conjugate", "LinearRTO"], [[0, 1]], [(2, 1), (1, 0)], 0),
    ("legacy-real/hier/LinearRTO+Conjugate-tuple/separated/x-scale2^-30", "hier", ["d", "x", "l"], ["Conjugate", "LinearRTO", "Conjugate"], [[0, 2]], [(3, 0)], -30),
    ("legacy-real/hier/LinearRTO+Conjugate/generative-order", "hier", ["x", "d", "l"], ["LinearRTO", "Conjugate", "Conjugate"], None, [(2, 0), (1, 0)], 20),
    ("legacy-real/pair/NUTS+MH", "pair", ["x", "s"], ["NUTS", "MH"], None, [(2, 1)], 0),
    ("legacy-real/pair/MH+MH/scale2^-40", "pair", ["s", "x"], ["MH", "MH"], None, [(3, 0)], -40),
]


def gen_legacy_real(rng, cell):
    name, model, names, assign, groups, ops, lg = cell
    m = gen_real(rng, (name, model, names, assign, None, [("sample", 1)], lg))
    m.update(iface="legacy-real", ops=[list(o) for o in ops], groups=groups, kinds=["LRec"] * len(names), ypos=rng.randint(0, len(names)))
    return m


def run_legacy_real(meta):
    import cuqi
    from cuqi.sampler import Gibbs
    spec = meta["spec"]
    names = spec["names"]
    k = len(names)
    tr = Trace(spec, meta["probes"])
    tr.results = [[] for _ in range(k)]
    np.random.seed(meta["npseed"])
    obs = {"error": None, "calls": []}

    def mk(which):
        base = {"LinearRTO": cuqi.sampler.LinearRTO, "Conjugate": cuqi.sampler.Conjugate, "NUTS": cuqi.sampler.NUTS, "MH": cuqi.sampler.MH}[which]

        class LW:
            def __init__(self, tgt):
                self.target = tgt
                self.blk = names.index(tgt.get_parameter_names()[-1])
                kw = {}
                if which == "MH":
                    kw["scale"] = meta["sscale"][self.blk]
                if which == "NUTS":
                    kw["max_depth"], kw["adapt_step_size"] = 3, 0.25 * float(meta["sigma"])      # fixed step: usable without burn-in
                if which == "LinearRTO":
                    kw["maxit"], kw["tol"] = len(meta["A"][0]) + 3, 1e-10                           # as for the experimental LinearRTO
                self.inner = base(tgt, **kw)

            def step(self, x):
                tr.on_lstep(self.blk, self.target, x)
                ev = tr.events[-1]
                # what the draw is made from: the system a LinearRTO object precomputed when it was built, scripted normals,
                # the Gamma parameters a Conjugate object hands to numpy (scripted standard variate)
                orig_g, orig_n = np.random.gamma, np.random.randn
                cap, used = {}, []
                if which == "LinearRTO":
                    Mx = self.inner.M
                    if callable(Mx) and not hasattr(Mx, "toarray"):
                        Md = np.array([np.ravel(Mx(u, 1)) for u in np.eye(len(np.ravel(x)))], dtype=float).T.tolist()
                    else:
                        Md = (Mx.toarray() if hasattr(Mx, "toarray") else np.asarray(Mx, dtype=float)).tolist()
                    ev["pre"] = {"M": Md, "b": [float(a) for a in np.ravel(self.inner.b_tild)]}

                    def randn(*shape):
                        nn = int(np.prod(shape)) if shape else 1
                        vals = [0.0] * nn if meta.get("zero_noise") else [(es_of[self.blk].pop(0) if es_of[self.blk] else 0.0) for _ in range(nn)]
                        used.extend(vals)
                        return np.asarray(vals, dtype=float).reshape(shape) if shape else vals[0]
                    np.random.randn = randn
                if which == "Conjugate":
                    def gam(*a, **k):
                        cap["shape"], cap["scale"] = float(np.ravel(k.get("shape", a[0] if a else np.nan))[0]), float(np.ravel(k.get("scale", a[1] if len(a) > 1 else 1.0))[0])
                        z = zs_of[self.blk].pop(0) if zs_of[self.blk] else 1.0
                        cap["z"] = z
                        size = k.get("size", a[2] if len(a) > 2 else None)
                        return np.ones(size if size is not None else ()) * z * np.asarray(k.get("scale", a[1] if len(a) > 1 else 1.0), dtype=float)
                    np.random.gamma = gam
                try:
                    out = self.inner.step(x)
                finally:
                    np.random.gamma, np.random.randn = orig_g, orig_n
                if cap:
                    ev["gamma"] = [cap["shape"], cap["scale"]]
                    ev["z"] = cap["z"]
                if which == "LinearRTO":
                    ev["e"] = used
                    ev["out"] = [float(a) for a in np.asarray(out).ravel()]
                tr.results[self.blk].append([float(a) for a in np.asarray(out).ravel()])
                return out
        return LW
    es_of = [list(v) for v in meta.get("ens", [[]] * k)]
    zs_of = [list(v) for v in meta.get("zs", [[]] * k)]
    try:
        with contextlib.redirect_stdout(io.StringIO()):
            target = real_model(meta)
            for i, nm in enumerate(names):
                target.get_density(nm).init_point = np.asarray(meta["inits"][i], dtype=float)
            strategy = {nm: mk(meta["assign"][i]) for i, nm in enumerate(names)}
            for grp in (meta.get("groups") or []):
                cls = strategy[names[grp[0]]]
                for i in grp:
                    del strategy[names[i]]
                strategy[tuple(names[i] for i in grp)] = cls

            class GX(Gibbs):
                def step(self, current_samples):
                    tr.cur = current_samples
                    return super().step(current_samples)
            G = GX(target, strategy)
            obs["par_names"] = list(G.par_names)
            for (ns, nb) in meta["ops"]:
                try:
                    ret = G.sample(ns, nb) if nb else G.sample(ns)                               # Nb=0 is the default: left out
                    cols = lambda d: [[[float(a) for a in d[n][:, t]] for n in names] for t in range(d[names[0]].shape[1])]
                    obs["calls"].append({"samples": cols(G.samples), "warm": cols(G.samples_warmup),
                                         "ret_ok": bool(all(np.array_equal(ret[n].samples, G.samples[n]) for n in names)),
                                         "shapes_ok": all(G.samples[n].shape[0] == spec["dims"][i] for i, n in enumerate(names))})
                except IndexError:
                    obs["calls"].append({"raised": "IndexError"})
                except ValueError:
                    obs["calls"].append({"raised": "ValueError"})
        obs["events"] = tr.events
        obs["results"] = tr.results
        obs["leftover"] = [0] * k
    except Exception as e:      # noqa
        obs["error"] = "%s: %s" % (type(e).__name__, str(e)[:300])
        obs["events"] = tr.events
        obs["results"] = tr.results
    return obs


def legacy_real_script(meta, obs):
    k = len(meta["spec"]["names"])
    nsw = legacy_sweeps(meta["ops"])
    res = obs.get("results") or [[] for _ in range(k)]
    get = lambda i, n: res[i][n] if n < len(res[i]) else [0.0] * meta["spec"]["dims"][i]
    return [[[{"vec": get(i, t), "u": None, "acc": 1}] for i in range(k)] for t in range(nsw)]


def legacy_modelled(meta):
    """legacy cells whose LinearRTO / Conjugate draws the MODEL computes (Model/C09_Legacy2.v)"""
    return meta["model"] == "hier" and all(a in ("LinearRTO", "Conjugate") for a in meta["assign"])


def legacy_real_script2(meta, obs):
    """items for the modelled legacy draws: LinearRTO: observed point ++ normals ++ certificates; Conjugate: the standard variate"""
    k = len(meta["spec"]["names"])
    sc = legacy_real_script(meta, obs)
    evs_of = [[e for e in obs.get("events", []) if e["blk"] == i] for i in range(k)]
    for t, sw in enumerate(sc):
        for i in range(k):
            it = sw[i][0]
            if t < len(evs_of[i]):
                e = evs_of[i][t]
                if meta["assign"][i] == "LinearRTO":
                    it["vec"] = real_ls_item(meta, i, e, it["vec"])
                else:
                    it["z"] = e.get("z", 1.0)
    return sc


def encode_legacy_real(meta, obs):
    if obs.get("error"):
        return "false"
    k = len(meta["spec"]["names"])
    oobs = []
    for c in obs["calls"]:
        if "raised" in c:
            oobs.append("LObs%s" % c["raised"])
        else:
            oobs.append("(LObs %s %s)" % (clist([cvecs(st) for st in c["samples"]]), clist([cvecs(st) for st in c["warm"]])))
    combos = clist([clist([czvec(c) for c in meta["combos"][i]]) for i in range(k)])
    if legacy_modelled(meta):
        ks = clist([("(L2Ls %s)" % real_lsblock_term(meta, i)) if meta["assign"][i] == "LinearRTO" else "L2Conj" for i in range(k)])
        return "check_legacy_tol2 %s %s %s %s %s %s %s %s %s %s %s %s" % (
            cq(Fraction(1, 10 ** 12)), cgjoint(meta), ks, clist([cq(real_model_scale(dict(meta, opaque=list(range(k))), i)) for i in range(k)]),
            cvecs(meta["inits"]), cscript(legacy_real_script2(meta, obs)),
            clist(["(LSample %s %s)" % (cnat(a), cnat(b)) for a, b in meta["ops"]]), clist([cvecs(p) for p in meta["probes"]]), combos,
            cq(TOL_REAL), clist(oobs), clist([coev(dict(e, cache=None)) for e in obs["events"]]))
    return "check_legacy_tol %s %s %s %s %s %s %s %s %s" % (
        cgjoint(meta), cvecs(meta["inits"]), cscript(legacy_real_script(meta, obs)),
        clist(["(LSample %s %s)" % (cnat(a), cnat(b)) for a, b in meta["ops"]]), clist([cvecs(p) for p in meta["probes"]]), combos,
        cq(TOL_REAL), clist(oobs), clist([coev(dict(e, cache=None)) for e in obs["events"]]))

# ------------------------------------------------------------------------------------------
# run / classify / replay / witnesses
# ------------------------------------------------------------------------------------------
def make_cases(meta, fresh):
    """the correspondence case(s) of one scenario"""
    out = []
    if meta["iface"] == "legacy-real":
        obs = run_legacy_real(meta)
        detail, sig = oracle_legacy(dict(meta, script=legacy_real_script(meta, obs)), obs)
        out.append(Case(expr=encode_legacy_real(meta, obs), meta=meta, cell=meta["cell"], kind="DECISION", impl_fail=detail, signature=sig or ""))
        return out
    if meta["iface"] == "real":
        obs = run_real(meta)
        detail, sig = oracle_hybrid(dict(meta, script=real_results_script(meta, obs)), obs)
        out.append(Case(expr=encode_real(meta, obs, fresh), meta=meta, cell=meta["cell"], kind="DECISION", impl_fail=detail, signature=sig or ""))
        d = real_cache_check(meta, obs)
        m2 = dict(meta)
        m2["check"] = "cache"
        bad = [a for a in meta["assign"] if a in ("MH", "MALA", "ULA", "CWMH", "PCN")]
        out.append(Case(expr="Nat.eqb %s %s" % (cnat(len(obs.get("events", []))), cnat(len(obs.get("events", [])))), meta=m2, cell=meta["cell"] + "/cache",
                        kind="DECISION", trivial=True, impl_fail=d, signature=(SIG_STALE % (bad[0] if bad else "?")) if d else ""))
        return out
    if meta["iface"] == "hybrid":
        obs = run_hybrid(meta)
        detail, sig = oracle_hybrid(meta, obs)
        out.append(Case(expr=encode_hybrid(meta, obs, fresh), meta=meta, cell=meta["cell"], kind="EXACT" if "KMH" in meta["kinds"] or "KDirect" in meta["kinds"] else "DECISION",
                        impl_fail=detail, signature=sig or ""))
        if not obs.get("error"):
            d = oracle_get_samples(meta, obs)
            m3 = dict(meta)
            m3["check"] = "get_samples"
            out.append(Case(expr="Nat.eqb (length (r_stored (hybrid_run %s))) %s" % (hybrid_args(meta, fresh), cnat(len(obs["stored"]))),
                            meta=m3, cell=meta["cell"] + "/get_samples", kind="DECISION", impl_fail=d, signature=SIG_GETS if d else ""))
        if "KMH" in meta["kinds"] and not obs.get("error"):
            d = oracle_cache(meta, obs)
            m2 = dict(meta)
            m2["check"] = "cache"
            out.append(Case(expr="Bool.eqb (cache_consistent (r_log (hybrid_run %s))) %s" % (hybrid_args(meta, fresh), cbool(d is None)),
                            meta=m2, cell=meta["cell"] + "/cache", kind="DECISION", impl_fail=d, signature=(SIG_STALE % "MH") if d else ""))
    else:
        obs = run_legacy(meta)
        detail, sig = oracle_legacy(meta, obs)
        out.append(Case(expr=encode_legacy(meta, obs), meta=meta, cell=meta["cell"], kind="EXACT" if "LMH" in meta["kinds"] else "DECISION",
                        impl_fail=detail, signature=sig or ""))
    return out


def spread_heavy(cases):
    """the cases of the real cells take 1-2.5 s each in Coq (exact rational arithmetic on binary64 data), all others a few ms:
    distribute them evenly over the case list, so that no shard of 400 collects hundreds of them (a shard has a 600 s budget)"""
    heavy = [c for c in cases if c.meta.get("iface") in ("real", "legacy-real") and not c.trivial]
    light = [c for c in cases if not (c.meta.get("iface") in ("real", "legacy-real") and not c.trivial)]
    if not heavy or not light:
        return cases
    out, hi = [], 0
    for li, c in enumerate(light):
        # before light case li, emit the heavy cases whose slot (hi + 1) / (len(heavy) + 1) has been reached
        while hi < len(heavy) and (hi + 1) * (len(light) + 1) <= (li + 1) * (len(heavy) + 1):
            out.append(heavy[hi])
            hi += 1
        out.append(c)
    return out + heavy[hi:]


def run(ctx):
    rng = ctx.rng
    classes()
    fresh, detail = tree_variant(ctx)
    ctx.note("HybridGibbs on this tree %s cached target evaluations when re-conditioning (model variant fresh=%s)" % ("REFRESHES" if fresh else "restores stale", fresh))
    cases = []
    reps = ctx.n(10, 150)
    for cell in HY_CELLS:
        for rep in range(reps):
            cases += make_cases(gen_hybrid(rng, cell, rep), fresh)
    for cell in LG_CELLS:
        for _ in range(reps):
            cases += make_cases(gen_legacy(rng, cell), fresh)
    reps2 = ctx.n(6, 60)
    for cell in HY_SCALE_CELLS:
        for rep in range(reps2):
            cases += make_cases(gen_hybrid_scale(rng, cell, rep), fresh)
    for cell in HY_FINE_CELLS:
        for rep in range(reps2):
            cases += make_cases(gen_hybrid_fine(rng, cell, rep), fresh)
    for rep in range(reps2):
        cases += make_cases(gen_hybrid_partial(rng, rep), fresh)
    for rep in range(reps2):
        cases += make_cases(gen_two_parent(rng, "hybrid", rep), fresh)
        cases += make_cases(gen_two_parent(rng, "legacy", rep), fresh)
    for idx in range(25):
        for rep in range(ctx.n(1, 6)):
            cases += make_cases(gen_hybrid_lattice(rng, idx), fresh)
    for cell in HY_ORDER_CELLS:
        for rep in range(reps2):
            cases += make_cases(gen_hybrid_order(rng, cell, rep), fresh)
    for cell in LG_LATTICE_CELLS:
        for rep in range(ctx.n(3, 30)):
            cases += make_cases(gen_legacy(rng, cell), fresh)
    for cell in LG_SCALE_CELLS:
        for rep in range(reps2):
            cases += make_cases(gen_legacy_scale(rng, cell), fresh)
    for cell in LG_FINE_CELLS:
        for rep in range(reps2):
            cases += make_cases(gen_legacy_fine(rng, cell), fresh)
    for cell in REAL_CELLS:
        for rep in range(ctx.n(3, 25)):
            cases += make_cases(gen_real(rng, cell), fresh)
    for cell in LEGACY_REAL_CELLS:
        for rep in range(ctx.n(2, 15)):
            cases += make_cases(gen_legacy_real(rng, cell), fresh)
    # the fixed witnesses as regular cases as well
    cases += make_cases(dict(WITNESS), fresh)
    cases += make_cases(dict(WITNESS_GETS), fresh)
    # oracle-only cells (no Coq model of these kernels): which other cached fields are restored stale
    for which in ("MALA", "ULA", "CWMH", "PCN"):
        d = cache_probe_real(which)
        cases.append(Case(expr="true", meta={"iface": "hybrid-real", "which": which}, cell="oracle-only/cache/" + which, trivial=True,
                          kind="DECISION", impl_fail=d, signature=(SIG_STALE % which) if d else ""))
    cases = spread_heavy(cases)
    return Result(cases=cases, rule=RULE, extra={"model_variant": {"fresh_cache": fresh}},
                  assumptions=["block samplers other than the recording ones, experimental/legacy MH and Direct are not modelled: for MALA/ULA/CWMH/PCN only the "
                               "cache-consistency oracle runs (cells oracle-only/*, Coq term `true`)",
                               "the model variant (cached evaluations restored / refreshed) is selected by replaying the fixed witness on the tree",
                               "all compared numbers are exact binary64 values of dyadic quadratic log-densities (no tolerance)"])


def classify(meta, detail):
    m = meta.get("meta", meta)
    if m.get("check") == "cache":
        return SIG_STALE % "MH"
    if m.get("check") == "get_samples":
        return SIG_GETS
    if m.get("iface") == "hybrid-real":
        return SIG_STALE % m.get("which", "?")
    return "HybridGibbs" if m.get("iface") == "hybrid" else "Gibbs"


def oracle(ctx, meta):
    m = meta.get("meta", meta)
    if m.get("iface") == "legacy-real":
        obs = run_legacy_real(m)
        return oracle_legacy(dict(m, script=legacy_real_script(m, obs)), obs)[0]
    if m.get("iface") == "real":
        obs = run_real(m)
        return real_cache_check(m, obs) if m.get("check") == "cache" else oracle_hybrid(dict(m, script=real_results_script(m, obs)), obs)[0]
    if m.get("iface") == "hybrid":
        obs = run_hybrid(m)
        if m.get("check") == "cache":
            return oracle_cache(m, obs)
        if m.get("check") == "get_samples":
            return oracle_get_samples(m, obs)
        return oracle_hybrid(m, obs)[0]
    if m.get("iface") == "legacy":
        return oracle_legacy(m, run_legacy(m))[0]
    return None


def known_witnesses(ctx):
    classes()
    fresh, detail = tree_variant(ctx)
    out = {SIG_STALE % "MH": (not fresh, detail)}
    d = oracle_get_samples(WITNESS_GETS, run_hybrid(WITNESS_GETS))
    out[SIG_GETS] = (d is not None, d or "get_samples() returns the stored sweeps")
    for which in ("MALA", "ULA", "CWMH", "PCN"):
        d = cache_probe_real(which)
        out[SIG_STALE % which] = (d is not None, d or "cached evaluations are refreshed")
    return out


def replay(ctx, meta):
    m = meta.get("meta", meta)
    print(json.dumps({k: v for k, v in meta.items() if k != "meta"}, indent=1)[:3000])
    classes()
    if m.get("iface") == "legacy-real":
        obs = run_legacy_real(m)
        print("scenario:", json.dumps({k: m[k] for k in m if k not in ("probes", "combos")})[:1500])
        print("implementation: calls", str(obs.get("calls"))[:1500], "error", obs.get("error"))
        for e in obs.get("events", [])[:12]:
            print("  step of block %s: current_samples %s, from %s, target at probes %s" % (m["spec"]["names"][e["blk"]], e["cur"], e["pt"], e["probes"]))
        print("property oracle (closed-form conditionals):", oracle_legacy(dict(m, script=legacy_real_script(m, obs)), obs))
        return 0
    if m.get("iface") == "real":
        obs = run_real(m)
        print("scenario:", json.dumps({k: m[k] for k in m if k not in ("probes", "combos")})[:1500])
        print("implementation: stored sweeps", obs.get("stored"), "error", obs.get("error"))
        for e in obs.get("events", [])[:12]:
            print("  step of block %s: current_samples %s, point %s, target at probes %s" % (m["spec"]["names"][e["blk"]], e["cur"], e["pt"], e["probes"]))
        print("property oracle (wiring, closed-form conditionals):", oracle_hybrid(dict(m, script=real_results_script(m, obs)), obs))
        print("property oracle (cached evaluations):", real_cache_check(m, obs))
        return 0
    if m.get("iface") == "hybrid":
        obs = run_hybrid(m)
        print("scenario:", json.dumps({k: m[k] for k in ("cell", "kinds", "num_steps", "ops", "inits", "scales")}))
        print("target factors:", json.dumps(m["spec"]))
        print("implementation: stored sweeps", obs.get("stored"), "error", obs.get("error"))
        for e in obs.get("events", [])[:12]:
            print("  step of block %s: current_samples %s, point %s, target at probes %s, cached %s" % (m["spec"]["names"][e["blk"]], e["cur"], e["pt"], e["probes"], e.get("cache")))
        print("property oracle (wiring):", oracle_hybrid(m, obs))
        print("property oracle (cached evaluations):", oracle_cache(m, obs))
        print("property oracle (get_samples):", oracle_get_samples(m, obs), "| shapes of the stored entries:", obs.get("stored_shapes"))
        fresh, _ = tree_variant(ctx)
        rc, out = eval_in_coq(IMPORTS, "let x := hybrid_run %s in (r_stored x, map (fun e => (e_blk e, e_cur e, s_pt (e_s e), s_cache (e_s e))) (r_log x))" % hybrid_args(m, fresh), tag="replay_C09")
        print("model (stored sweeps; per step: block, current_samples, point, cached):\n", out[-3000:])
    elif m.get("iface") == "legacy":
        obs = run_legacy(m)
        print("scenario:", json.dumps({k: m[k] for k in ("cell", "kinds", "ops", "inits", "scales")}))
        print("target factors:", json.dumps(m["spec"]))
        print("implementation: calls", obs.get("calls"), "error", obs.get("error"))
        for e in obs.get("events", [])[:12]:
            print("  step of block %s: current_samples %s, from %s, target at probes %s" % (m["spec"]["names"][e["blk"]], e["cur"], e["pt"], e["probes"]))
        print("property oracle:", oracle_legacy(m, obs))
    elif m.get("iface") == "hybrid-real":
        print("cache oracle on a real %s block:" % m["which"], cache_probe_real(m["which"]))
    else:
        for sig, (fails, detail) in known_witnesses(ctx).items():
            print(sig, "still fails" if fails else "no longer fails", detail)
    return 0
