(* C08 (tier 2) -- bounded exhaustive stationarity on one orbit.
   On a leapfrog orbit with a fixed slice variable the transition moves position i to position k
   with probability P(i -> k).  What Hoffman-Gelman's construction promises is that the counting
   measure on the in-slice positions is invariant:  sum over in-slice i of P(i -> k) = 1  for every
   in-slice k.  Here this is checked, by exhaustive computation inside Coq, for every labelling of
   the window of positions a transition towards k can see (in slice / outside the slice / divergent),
   with the bound written in each theorem.  By translation along the orbit it suffices to take k = 0. *)
From CV Require Import Base.Tac Base.Ext Model.C08_NUTS.
From Coq Require Import QArith.
Local Open Scope Z_scope.

Inductive lab := LIn | LOut | LDiv.
(* with log u = 0:  H = 0 is in the slice;  H = -1 is outside but not divergent;  H = -2000 is divergent *)
Definition lab_ham (l : lab) : ext :=
  match l with LIn => Fin 0 | LOut => Fin (-1 # 1) | LDiv => Fin (-2000 # 1) end.

(* a labelling of the window [-w, w] given as a list (position -w first); outside: divergent *)
Definition win_get (w : Z) (ls : list lab) (i : Z) : lab :=
  if (i <? - w) || (w <? i) then LDiv else nth (Z.to_nat (i + w)) ls LDiv.

(* P(i -> k) of the model: the orbit seen from position i *)
Definition kern (lb : Z -> lab) (Uf : Z -> Z -> bool) (guard : bool) (md : nat) (i k : Z) : Q :=
  dist (otransition (fun x => lab_ham (lb (x + i))) (fun x => lab_ham (lb (x + i)))
                    (fun a b => Uf (a + i) (b + i)) (fun _ => 0%Q) (Fin 0) guard md 0)
       (fun tp => if p_cur tp =? k - i then 1%Q else 0%Q).

Fixpoint zrange (lo : Z) (n : nat) : list Z := match n with O => [] | S n' => lo :: zrange (lo + 1) n' end.

(* sum over the in-slice sources i in [-s, s] of P(i -> 0) *)
Definition colsum (lb : Z -> lab) (Uf : Z -> Z -> bool) (guard : bool) (md : nat) (s : Z) : Q :=
  fold_right Qplus 0%Q
    (map (fun i => match lb i with LIn => kern lb Uf guard md i 0 | _ => 0%Q end) (zrange (- s) (Z.to_nat (2 * s + 1)))).

Definition stationary0 (lb : Z -> lab) (Uf : Z -> Z -> bool) (guard : bool) (md : nat) (s : Z) : bool :=
  Qeq_bool (colsum lb Uf guard md s) 1.

(* all lists of n labels, streamed *)
Fixpoint forall_labs (n : nat) (f : list lab -> bool) : bool :=
  match n with
  | O => f []
  | S n' => forall_labs n' (fun l => f (LIn :: l)) && forall_labs n' (fun l => f (LOut :: l)) && forall_labs n' (fun l => f (LDiv :: l))
  end.

Lemma forall_labs_sound : forall n f, forall_labs n f = true -> forall l, length l = n -> f l = true.
Proof.
  induction n as [|n IH]; intros f Hf l Hl.
  - destruct l; [exact Hf | discriminate].
  - destruct l as [|a l]; [discriminate|]. cbn in Hf.
    apply andb_true_iff in Hf as [Hf H3]. apply andb_true_iff in Hf as [H1 H2].
    injection Hl as Hl. destruct a; [apply (IH _ H1) | apply (IH _ H2) | apply (IH _ H3)]; exact Hl.
Qed.

(* only in / out labels *)
Fixpoint forall_labs2 (n : nat) (f : list lab -> bool) : bool :=
  match n with
  | O => f []
  | S n' => forall_labs2 n' (fun l => f (LIn :: l)) && forall_labs2 n' (fun l => f (LOut :: l))
  end.

Lemma forall_labs2_sound : forall n f, forall_labs2 n f = true ->
  forall l, length l = n -> Forall (fun a => a <> LDiv) l -> f l = true.
Proof.
  induction n as [|n IH]; intros f Hf l Hl Hd.
  - destruct l; [exact Hf | discriminate].
  - destruct l as [|a l]; [discriminate|]. cbn in Hf.
    apply andb_true_iff in Hf as [H1 H2]. injection Hl as Hl.
    apply Forall_cons_iff in Hd as [Ha Hd'].
    destruct a; [apply (IH _ H1); [exact Hl | exact Hd'] | apply (IH _ H2); [exact Hl | exact Hd'] | exfalso; apply Ha; reflexivity].
Qed.

(* every U-turn predicate on the pairs (a, a+1), a in [-2, 1], coded by 4 booleans *)
Definition upred (bs : list bool) (a b : Z) : bool := nth (Z.to_nat (a + 2)) bs true.
Fixpoint forall_bools (n : nat) (f : list bool -> bool) : bool :=
  match n with
  | O => f []
  | S n' => forall_bools n' (fun l => f (true :: l)) && forall_bools n' (fun l => f (false :: l))
  end.
Lemma forall_bools_sound : forall n f, forall_bools n f = true -> forall l, length l = n -> f l = true.
Proof.
  induction n as [|n IH]; intros f Hf l Hl.
  - destruct l; [exact Hf | discriminate].
  - destruct l as [|a l]; [discriminate|]. cbn in Hf. apply andb_true_iff in Hf as [H1 H2].
    injection Hl as Hl. destruct a; [apply (IH _ H1) | apply (IH _ H2)]; exact Hl.
Qed.

(* put the label In at the centre of a window given by its two halves *)
Definition centred (l : list lab) (h : nat) : list lab := firstn h l ++ LIn :: skipn h l.

(* (i) max_depth = 0: 5-position window, every labelling of the 4 positions around an in-slice 0,
   every U-turn predicate, both guards.
   (The checked predicates are named constants so that the soundness lemmas instantiate syntactically: the
   kernel -- and coqchk, which does not use the VM -- never has to convert the big computation again.) *)
Definition md0g (l : list lab) (bs : list bool) : bool :=
  stationary0 (win_get 2 (centred l 2)) (upred bs) true 0 1 && stationary0 (win_get 2 (centred l 2)) (upred bs) false 0 1.
Definition md0f (l : list lab) : bool := forall_bools 4 (md0g l).
Lemma check_md0_ok : forall_labs 4 md0f = true.
Proof. vm_compute. reflexivity. Qed.

Theorem stationary_md0 : forall (l : list lab) (bs : list bool) (guard : bool),
  length l = 4%nat -> length bs = 4%nat ->
  (colsum (win_get 2 (centred l 2)) (upred bs) guard 0 1 == 1)%Q.
Proof.
  intros l bs guard Hl Hb.
  pose proof (forall_labs_sound 4 md0f check_md0_ok l Hl) as H1. unfold md0f in H1.
  pose proof (forall_bools_sound 4 (md0g l) H1 bs Hb) as H2. unfold md0g in H2.
  apply andb_true_iff in H2 as [Ht Hf]. unfold stationary0 in Ht, Hf.
  destruct guard; apply Qeq_bool_iff; assumption.
Qed.

(* (ii) max_depth <= 1: trajectories of up to 4 states, 13-position window *)
Definition md1_check (guard : bool) (l : list lab) : bool :=
  stationary0 (win_get 6 (centred l 6)) (fun _ _ => true) guard 1 3.

(* (ii-a) every in/out labelling of the 12 positions around an in-slice 0 (no divergence), U-turn never firing *)
Definition md1f (l : list lab) : bool := md1_check false l.
Lemma check_md1_inout_ok : forall_labs2 12 md1f = true.
Proof. vm_compute. reflexivity. Qed.

Theorem stationary_md1_inout : forall l : list lab, length l = 12%nat -> Forall (fun a => a <> LDiv) l ->
  (colsum (win_get 6 (centred l 6)) (fun _ _ => true) false 1 3 == 1)%Q.
Proof.
  intros l Hl Hd. pose proof (forall_labs2_sound 12 md1f check_md1_inout_ok l Hl Hd) as H1.
  unfold md1f, md1_check, stationary0 in H1. apply Qeq_bool_iff. exact H1.
Qed.

(* (ii-a') every in/out/divergent labelling of the 6 positions -3..-1, 1..3 next to an in-slice 0, the outer
   positions -6..-4 and 4..6 in the slice, U-turn never firing *)
Definition inner3 (l : list lab) : list lab := [LIn; LIn; LIn] ++ l ++ [LIn; LIn; LIn].
Definition md1i (l : list lab) : bool := md1_check false (inner3 l).
Lemma check_md1_inner3_ok : forall_labs 6 md1i = true.
Proof. vm_compute. reflexivity. Qed.

Theorem stationary_md1_inner3 : forall l : list lab, length l = 6%nat ->
  (colsum (win_get 6 (centred (inner3 l) 6)) (fun _ _ => true) false 1 3 == 1)%Q.
Proof.
  intros l Hl. pose proof (forall_labs_sound 6 md1i check_md1_inner3_ok l Hl) as H1.
  unfold md1i, md1_check, stationary0 in H1. apply Qeq_bool_iff. exact H1.
Qed.

(* (ii-b) every position in the slice, every U-turn predicate on the adjacent end points (a, a+1) with -4 <= a <= 3
   (the U-turn tests of the first doubling and of the depth-1 sub-trees next to the start), 8 booleans *)
Definition upred4 (bs : list bool) (a b : Z) : bool :=
  if (b - a =? 1) && (-4 <=? a) && (a <=? 3) then nth (Z.to_nat (a + 4)) bs true else true.
Definition utf (bs : list bool) : bool := stationary0 (fun _ => LIn) (upred4 bs) false 1 3.
Lemma check_md1_uturn_ok : forall_bools 8 utf = true.
Proof. vm_compute. reflexivity. Qed.

Theorem stationary_md1_uturn : forall bs : list bool, length bs = 8%nat ->
  (colsum (fun _ => LIn) (upred4 bs) false 1 3 == 1)%Q.
Proof.
  intros bs Hb. pose proof (forall_bools_sound 8 utf check_md1_uturn_ok bs Hb) as H1.
  unfold utf, stationary0 in H1. apply Qeq_bool_iff. exact H1.
Qed.
