(* C15 -- theorems about the executable model of the closed-form MAP, the direct sampler and the route
   selection (lists over Qc, every size). *)
From CV Require Import Base.Tac Base.LinAlg Base.Cmp Base.QcLin Model.C15_MAP Proofs.C15_Lin.
From Coq Require Import QArith Qcanon.
Local Open Scope Qc_scope.

(* lia chokes on hypotheses that are equations between lists of Qc (zify looks into them): drop those first *)
Ltac ll :=
  unfold vec, mat, qv, qm in *;
  repeat match goal with
         | H : ?a = _ |- _ =>
             let T := type of a in
             lazymatch eval hnf in T with list _ => clear H | outcome => clear H | option _ => clear H end
         end; lia.

(* ---------------------------------------------------------------------------------------------
   the checked solver: whatever Gauss-Jordan produced, what is handed out satisfies the equations
   --------------------------------------------------------------------------------------------- *)
Lemma qcl_eqb_eq x y : qcl_eqb x y = true -> x = y.
Proof. apply list_eqb_spec. apply qc_eqb_eq. Qed.
Lemma qcll_eqb_eq x y : qcll_eqb x y = true -> x = y.
Proof. apply list_eqb_spec. apply list_eqb_spec. apply qc_eqb_eq. Qed.

Lemma qsolve_sound M b z : qsolve M b = Some z -> qmatvec M z = b /\ length z = length b.
Proof.
  unfold qsolve. destruct (solve_candidate M _) as [X|]; [|discriminate].
  destruct (Nat.eqb _ _ && qcl_eqb _ _) eqn:E; [|discriminate].
  intros H; injection H as <-. apply andb_true_iff in E as [E1 E2].
  split; [apply qcl_eqb_eq; exact E2 | apply Nat.eqb_eq; exact E1].
Qed.

Lemma qinv_sound M X : qinv M = Some X ->
  qmatmul (length M) M X = qident (length M) /\ qmatmul (length M) X M = qident (length M).
Proof.
  unfold qinv. destruct (solve_candidate M _) as [Y|]; [|discriminate].
  destruct (qcll_eqb _ _ && qcll_eqb _ _ && _ && _) eqn:E; [|discriminate].
  intros H; injection H as <-. apply andb_true_iff in E as [E E4]. apply andb_true_iff in E as [E E3].
  apply andb_true_iff in E as [E1 E2].
  split; apply qcll_eqb_eq; assumption.
Qed.

Lemma qinv_shape M X : qinv M = Some X -> wf_mat (length M) X /\ length X = length M.
Proof.
  unfold qinv. destruct (solve_candidate M _) as [Y|]; [|discriminate].
  destruct (qcll_eqb _ _ && qcll_eqb _ _ && _ && _) eqn:E; [|discriminate].
  intros H; injection H as <-. apply andb_true_iff in E as [E E4]. apply andb_true_iff in E as [E E3].
  split; [|apply Nat.eqb_eq; exact E3].
  unfold wf_mat. apply Forall_forall. intros r Hr. rewrite forallb_forall in E4. apply Nat.eqb_eq. exact (E4 r Hr).
Qed.

(* ---------------------------------------------------------------------------------------------
   two-dimensional covariances: the closed form is the stationary point
   --------------------------------------------------------------------------------------------- *)
Section Closed.
Variables (m n : nat) (A Ce Cx : list (list Qc)) (b x0 : list Qc).
Hypothesis HA : wf_mat n A.
Hypothesis HAm : length A = m.
Hypothesis HCe : wf_mat m Ce.
Hypothesis HCem : length Ce = m.
Hypothesis HCx : wf_mat n Cx.
Hypothesis HCxn : length Cx = n.
Hypothesis Hb : length b = m.

(* inverse-free statement of "the gradient vanishes": with z = Ce^-1 (b - A x) one has Cx^-1 (x - x0) = A^T z *)
Lemma map_core_balance x :
  map_core m n A b x0 (NMat Ce) (NMat Cx) = Val x ->
  length x0 = n /\ length x = n /\
  exists z, length z = m /\ qmatvec Ce z = qvsub b (qmatvec A x) /\ qmatvec Cx (qmattvec n A z) = qvsub x x0.
Proof.
  unfold map_core. destruct (Nat.eqb (length x0) n) eqn:E0; cbn [negb]; [|discriminate].
  apply Nat.eqb_eq in E0.
  destruct (forallb _ A) eqn:EA; cbn [negb]; [|discriminate].
  destruct (qsolve _ _) as [z|] eqn:ES; [|discriminate].
  intros H; injection H as <-.
  apply qsolve_sound in ES as [ES HLz].
  assert (Hrhs : length (qvsub b (qmatvec A x0)) = m).
  { rewrite q_vsub_length; rewrite ?q_matvec_length; ll. }
  rewrite Hrhs in HLz.
  set (w := qmatvec Cx (qmattvec n A z)).
  assert (Hw : length w = n) by (unfold w; rewrite q_matvec_length; exact HCxn).
  split; [exact E0|]. split; [rewrite q_vadd_length; ll|].
  exists z. split; [exact HLz|]. split.
  - rewrite (q_matvec_qmadd m (acat A Cx) Ce z) in ES.
    + rewrite (q_acat_matvec n A Cx z HA HCx HCxn) in ES. fold w in ES.
      rewrite (q_matvec_vadd A x0 w n HA E0 Hw).
      apply q_vec_rearrange; rewrite ?q_matvec_length; try ll. exact ES.
    + rewrite <- HAm. apply q_acat_wf.
    + exact HCe.
    + rewrite q_acat_length. ll.
  - fold w. apply eq_sym. apply q_vsub_vadd_cancel. ll.
Qed.

(* with precisions (left inverses of the covariances): gradient of the log-posterior is zero *)
Variables Pe Px : list (list Qc).
Hypothesis HPe : forall v, length v = m -> qmatvec Pe (qmatvec Ce v) = v.
Hypothesis HPx : forall v, length v = n -> qmatvec Px (qmatvec Cx v) = v.

Lemma map_core_gradient_zero x :
  map_core m n A b x0 (NMat Ce) (NMat Cx) = Val x -> post_grad n A Pe Px b x0 x = qvzero n.
Proof.
  intros H. destruct (map_core_balance x H) as [H0 [Hx [z [Hz [E1 E2]]]]].
  unfold post_grad. rewrite <- E1, <- E2.
  rewrite (HPe z Hz). rewrite HPx by (apply q_mattvec_length; exact HA).
  rewrite q_vsub_self. rewrite q_mattvec_length by exact HA. reflexivity.
Qed.

(* maximiser: -2 log posterior at any other point y exceeds the value at x by the quadratic form of y - x *)
Hypothesis HPewf : wf_mat m Pe.
Hypothesis HPem : length Pe = m.
Hypothesis HPxwf : wf_mat n Px.
Hypothesis HPxn : length Px = n.
Hypothesis HPes : q_sym m Pe.
Hypothesis HPxs : q_sym n Px.

Lemma map_core_quadratic x y :
  map_core m n A b x0 (NMat Ce) (NMat Cx) = Val x -> length y = n ->
  let h := qvsub y x in
  post_q A Pe Px b x0 y = post_q A Pe Px b x0 x + qdot (qmatvec A h) (qmatvec Pe (qmatvec A h)) + qdot h (qmatvec Px h).
Proof.
  intros H Hy h. destruct (map_core_balance x H) as [H0 [Hx [z [Hz [E1 E2]]]]].
  assert (Hh : length h = n) by (unfold h; rewrite q_vsub_length; ll).
  assert (Ey : y = qvadd x h) by (unfold h; symmetry; apply q_vadd_vsub_cancel; ll).
  unfold post_q. set (r := qvsub b (qmatvec A x)). set (d := qvsub x x0).
  assert (Hr : length r = m) by (unfold r; rewrite q_vsub_length; rewrite ?q_matvec_length; ll).
  assert (Hd : length d = n) by (unfold d; rewrite q_vsub_length; ll).
  assert (Er : qvsub b (qmatvec A y) = qvsub r (qmatvec A h)).
  { rewrite Ey. rewrite (q_matvec_vadd A x h n HA Hx Hh). unfold r.
    apply q_vsub_vadd_distr; rewrite ?q_matvec_length; ll. }
  assert (Ed : qvsub y x0 = qvadd d h).
  { rewrite Ey. unfold d. apply q_vadd_assoc_sub; ll. }
  rewrite Er, Ed.
  rewrite (q_quad_vsub m Pe r (qmatvec A h) HPewf HPem HPes Hr) by (rewrite q_matvec_length; exact HAm).
  rewrite (q_quad_vadd n Px d h HPxwf HPxn HPxs Hd Hh).
  (* Pe r = z and Px d = A^T z *)
  assert (Ez : qmatvec Pe r = z) by (unfold r; rewrite <- E1; apply HPe; exact Hz).
  assert (Ew : qmatvec Px d = qmattvec n A z).
  { unfold d. rewrite <- E2. apply HPx. apply q_mattvec_length. exact HA. }
  rewrite Ez, Ew.
  rewrite (q_adjoint n A h z HA Hh). ring.
Qed.

Hypothesis HPepsd : forall v, length v = m -> 0 <= qdot v (qmatvec Pe v).
Hypothesis HPxpsd : forall v, length v = n -> 0 <= qdot v (qmatvec Px v).

Lemma map_core_maximiser x y :
  map_core m n A b x0 (NMat Ce) (NMat Cx) = Val x -> length y = n ->
  post_q A Pe Px b x0 x <= post_q A Pe Px b x0 y.
Proof.
  intros H Hy. rewrite (map_core_quadratic x y H Hy). cbv zeta.
  destruct (map_core_balance x H) as [H0 [Hx _]].
  assert (Hh : length (qvsub y x) = n) by (rewrite q_vsub_length; ll).
  pose proof (HPepsd (qmatvec A (qvsub y x)) ltac:(rewrite q_matvec_length; exact HAm)) as P1.
  pose proof (HPxpsd (qvsub y x) Hh) as P2.
  set (q0 := post_q A Pe Px b x0 x) in *.
  replace q0 with (q0 + 0 + 0) at 1 by ring.
  apply Qcplus_le_compat; [apply Qcplus_le_compat; [apply Qcle_refl | exact P1] | exact P2].
Qed.

(* strict: with a positive definite prior precision the maximiser is unique *)
Hypothesis HPxpd : forall v, length v = n -> v <> qvzero n -> 0 < qdot v (qmatvec Px v).

Lemma map_core_unique_maximiser x y :
  map_core m n A b x0 (NMat Ce) (NMat Cx) = Val x -> length y = n -> y <> x ->
  post_q A Pe Px b x0 x < post_q A Pe Px b x0 y.
Proof.
  intros H Hy Hne. rewrite (map_core_quadratic x y H Hy). cbv zeta.
  destruct (map_core_balance x H) as [H0 [Hx _]].
  assert (Hh : length (qvsub y x) = n) by (rewrite q_vsub_length; ll).
  assert (Hnz : qvsub y x <> qvzero n).
  { intros E. apply Hne. rewrite <- (q_vadd_vsub_cancel x y) by ll. rewrite E.
    clear - Hx. revert n Hx. induction x as [|a x IH]; intros [|k] Hk; cbn [length] in Hk; try discriminate; [reflexivity|].
    cbn [qvzero vzero repeat qvadd vadd]. f_equal; [ring | apply IH; ll]. }
  pose proof (HPepsd (qmatvec A (qvsub y x)) ltac:(rewrite q_matvec_length; exact HAm)) as P1.
  pose proof (HPxpd (qvsub y x) Hh Hnz) as P2.
  set (q0 := post_q A Pe Px b x0 x) in *.
  replace q0 with (q0 + 0 + 0) at 1 by ring.
  apply Qclt_le_trans with (q0 + 0 + qdot (qvsub y x) (qmatvec Px (qvsub y x))).
  - unfold Qclt, Qcplus, Q2Qc. cbn [this]. rewrite !Qred_correct.
    apply Qplus_lt_r. exact P2.
  - apply Qcplus_le_compat; [apply Qcplus_le_compat; [apply Qcle_refl | exact P1] | apply Qcle_refl].
Qed.

End Closed.

(* ---------------------------------------------------------------------------------------------
   which covariance specifications reach the two-dimensional code path
   --------------------------------------------------------------------------------------------- *)
Definition is_plain_vector (c : covform) : bool :=
  match c with CVector v => negb (Nat.eqb (length v) 1) | _ => false end.

Lemma expand_cov_2d fixed dim c : fixed = true \/ is_plain_vector c = false ->
  exists M, expand_cov fixed dim c = NMat M.
Proof.
  intros H. unfold expand_cov. destruct (Nat.eqb (cov_size c) 1) eqn:E; [eexists; reflexivity|].
  destruct c as [a|v|M|M]; try (eexists; reflexivity).
  destruct fixed; [eexists; reflexivity|]. destruct H as [H|H]; [discriminate|].
  cbn [is_plain_vector cov_size] in *. rewrite E in H. discriminate.
Qed.

(* the repaired code treats a vector of variances exactly as the diagonal matrix *)
Lemma expand_cov_fixed_vector dim v : Nat.eqb (length v) 1 = false ->
  expand_cov true dim (CVector v) = NMat (qdiag v).
Proof. intros H. unfold expand_cov. cbn [cov_size]. rewrite H. reflexivity. Qed.

(* ---------------------------------------------------------------------------------------------
   refusals
   --------------------------------------------------------------------------------------------- *)
Lemma cov_getter_refuses p c : p <> PCov -> cov_getter p c None = None.
Proof. destruct p; [congruence | reflexivity..]. Qed.

Lemma map_direct_refuses_noise fixed m n A b x0 cx : map_direct fixed m n A b x0 None cx = ENotImpl.
Proof. reflexivity. Qed.
Lemma map_direct_refuses_prior fixed m n A b x0 ce : map_direct fixed m n A b x0 (Some ce) None = ENotImpl.
Proof. reflexivity. Qed.

Lemma map_core_scalar_mean_refused m n A b x0 Ce Cx : length x0 <> n -> map_core m n A b x0 Ce Cx = EValue.
Proof. intros H. unfold map_core. apply Nat.eqb_neq in H. rewrite H. reflexivity. Qed.

Lemma map_core_shape_refused m n A b x0 Ce Cx :
  (exists r, In r A /\ length r <> n) -> map_core m n A b x0 Ce Cx = EValue.
Proof.
  intros [r [Hin Hr]]. unfold map_core. destruct (Nat.eqb (length x0) n); cbn [negb]; [|reflexivity].
  destruct (forallb _ A) eqn:E; cbn [negb]; [|reflexivity].
  rewrite forallb_forall in E. specialize (E r Hin). apply Nat.eqb_eq in E. contradiction.
Qed.

(* a value is only returned for a stored matrix with n columns *)
Lemma map_core_value_shape m n A b x0 Ce Cx x : map_core m n A b x0 Ce Cx = Val x -> wf_mat n A /\ length x0 = n.
Proof.
  unfold map_core. destruct (Nat.eqb (length x0) n) eqn:E0; cbn [negb]; [|discriminate].
  destruct (forallb _ A) eqn:E; cbn [negb]; [|discriminate]. intros _.
  split; [|apply Nat.eqb_eq; exact E0].
  unfold wf_mat. apply Forall_forall. intros r Hr. rewrite forallb_forall in E. apply Nat.eqb_eq. exact (E r Hr).
Qed.

(* ---------------------------------------------------------------------------------------------
   direct sampler
   --------------------------------------------------------------------------------------------- *)
Lemma np_inv_sound c C P : np_inv c C = Some P -> exists M, C = NMat M /\ qinv M = Some P.
Proof.
  unfold np_inv. destruct c as [a|v|M0|M0].
  1-3: destruct C as [v'|M']; [discriminate | intros H; exists M'; split; [reflexivity | exact H]].
  destruct (Nat.eqb _ 1); [|discriminate].
  destruct C as [v'|M']; [discriminate | intros H; exists M'; split; [reflexivity | exact H]].
Qed.

Lemma sample_direct_law fixed m n A b x0 ce cx mu C :
  sample_direct fixed m n A b x0 (Some ce) (Some cx) = SLaw mu C ->
  map_direct fixed m n A b x0 (Some ce) (Some cx) = Val mu /\
  exists CeM CxM Pe Px,
    expand_cov fixed m ce = NMat CeM /\ expand_cov fixed n cx = NMat CxM /\
    qinv CeM = Some Pe /\ qinv CxM = Some Px /\ qinv (post_prec n A Pe Px) = Some C.
Proof.
  unfold sample_direct, map_direct.
  destruct (sparse_single ce || sparse_single cx); [discriminate|].
  destruct (map_core m n A b x0 (expand_cov fixed m ce) (expand_cov fixed n cx)) as [x| | | |] eqn:EM; try discriminate.
  destruct (np_inv ce _) as [Pe|] eqn:E1; [|discriminate].
  destruct (np_inv cx _) as [Px|] eqn:E2; [|discriminate].
  destruct (qinv (post_prec n A Pe Px)) as [C'|] eqn:E3; [|discriminate].
  intros H; injection H as <- <-. split; [reflexivity|].
  apply np_inv_sound in E1 as [CeM [Ee Ie]]. apply np_inv_sound in E2 as [CxM [Ex Ix]].
  exists CeM, CxM, Pe, Px. repeat split; assumption.
Qed.

(* ---------------------------------------------------------------------------------------------
   route selection
   --------------------------------------------------------------------------------------------- *)
Lemma map_route_direct_iff P d :
  map_route P d = RDirect <->
  p_prior P = DGaussian /\ p_lik P = DGaussian /\ p_model P = MLinear /\ (p_n P <= d)%nat /\ (p_m P <= d)%nat.
Proof.
  unfold map_route, check_posterior. cbn [existsb]. rewrite !orb_false_r.
  destruct (p_prior P), (p_lik P), (p_model P); cbn [dcls_eqb andb];
    try (split; [discriminate | intros (H1 & H2 & H3 & _); discriminate]).
  destruct (Nat.leb (p_n P) d) eqn:E1, (Nat.leb (p_m P) d) eqn:E2; cbn [andb];
    try apply Nat.leb_le in E1; try apply Nat.leb_le in E2;
    try apply Nat.leb_gt in E1; try apply Nat.leb_gt in E2;
    (split; [try discriminate; intros _; repeat split; assumption | intros (_ & _ & _ & H4 & H5); try reflexivity; ll]).
Qed.

Lemma sample_route_eq_map_route P d :
  sample_route_direct P d = match map_route P d with RDirect => true | ROptimiser => false end.
Proof.
  unfold sample_route_direct, map_route.
  destruct (check_posterior P (Some [DGaussian]) (Some [DGaussian]) (Some MLinear) (Some d) false) eqn:E; [|reflexivity].
  unfold check_posterior in *. cbn [existsb] in *. rewrite !orb_false_r in *.
  destruct (p_prior P); cbn [dcls_eqb andb] in *; try discriminate; try reflexivity.
  destruct (p_lik P); discriminate.
Qed.

Lemma solver_choice P g x0 :
  fst (fst (solve_max_point_setup P g x0)) = SLBFGSB <-> p_prior P = DCMRF /\ p_has_grad P = true.
Proof.
  unfold solve_max_point_setup, check_posterior. cbn [fst existsb]. rewrite orb_false_r.
  destruct (p_prior P), (p_has_grad P); cbn [dcls_eqb andb]; split; try discriminate; try tauto;
    try (intros [H1 H2]; discriminate).
Qed.

(* ---------------------------------------------------------------------------------------------
   refutation witnesses: a vector (1-d) covariance in the unrepaired code
   --------------------------------------------------------------------------------------------- *)
Definition wA : list (list Qc) := qmat [[1; 2; 0]; [0; 1; 1]]%Q.
Definition wb : list Qc := qvec [1; -1]%Q.
Definition wx0 : list Qc := qvec [0; 0; 0]%Q.
Definition wCe : covform := CVector (qvec [1 # 2; 2]%Q).
Definition wCx : covform := CMatrix (qmat [[1; 0; 0]; [0; 2; 0]; [0; 0; 4]]%Q).

Ltac qcl_neq := let E := fresh in intros E; apply (f_equal (map this)) in E; vm_compute in E; discriminate.
Ltac qcl_eq := apply qcl_eqb_eq; vm_compute; reflexivity.

Lemma vector_noise_witness :
  exists x y, map_direct false 2 3 wA wb wx0 (Some wCe) (Some wCx) = Val x /\
              post_mean_exact 2 3 wA wb wx0 wCe wCx = Some y /\ x <> y /\
              map_direct true 2 3 wA wb wx0 (Some wCe) (Some wCx) = Val y.
Proof.
  eexists. eexists. split; [vm_compute; reflexivity|]. split; [vm_compute; reflexivity|]. split; [qcl_neq|].
  vm_compute. f_equal. qcl_eq.
Qed.

Definition vA : list (list Qc) := qmat [[1; 2]; [0; 1]]%Q.
Definition vCe : covform := CMatrix (qmat [[1 # 2; 0]; [0; 2]]%Q).
Definition vCx : covform := CVector (qvec [1; 2]%Q).

Lemma vector_prior_witness :
  exists x y, map_direct false 2 2 vA wb (qvec [0; 0]%Q) (Some vCe) (Some vCx) = Val x /\
              post_mean_exact 2 2 vA wb (qvec [0; 0]%Q) vCe vCx = Some y /\ x <> y /\
              map_direct true 2 2 vA wb (qvec [0; 0]%Q) (Some vCe) (Some vCx) = Val y.
Proof.
  eexists. eexists. split; [vm_compute; reflexivity|]. split; [vm_compute; reflexivity|]. split; [qcl_neq|].
  vm_compute. f_equal. qcl_eq.
Qed.

(* non-vacuity of the hypotheses of the Closed section on a concrete problem *)
Definition eCe : list (list Qc) := qmat [[2; 1]; [1; 3 # 2]]%Q.
Definition eCx : list (list Qc) := qmat [[1; 0; 0]; [0; 2; 0]; [0; 0; 4]]%Q.
Lemma closed_example :
  exists x Pe Px, map_core 2 3 wA wb (qvec [1; 0; -1]%Q) (NMat eCe) (NMat eCx) = Val x /\
    qinv eCe = Some Pe /\ qinv eCx = Some Px /\
    post_grad 3 wA Pe Px wb (qvec [1; 0; -1]%Q) x = qvzero 3.
Proof.
  eexists. eexists. eexists. split; [vm_compute; reflexivity|]. split; [vm_compute; reflexivity|].
  split; [vm_compute; reflexivity|]. qcl_eq.
Qed.

(* ---------------------------------------------------------------------------------------------
   the whole sampler cascade of sample_posterior
   --------------------------------------------------------------------------------------------- *)
Definition is_nuts_excluded (c : dcls) : bool := match c with DBeta | DInvGamma | DLognormal => true | _ => false end.

(* which tests fired, for each outcome (the cascade is a chain of if-then-else) *)
Lemma cascade_inv joint P s q d :
  let c1 := sample_route_direct P d in
  let c2 := s && q && (match p_model P with MLinear => true | MGeneral => false end) in
  let c3 := check_posterior P (Some [DLMRF]) (Some [DGaussian]) None None false in
  let c4 := check_posterior P None None None None true
            && negb (check_posterior P (Some [DBeta; DInvGamma; DLognormal]) None None None false) in
  let c5 := check_posterior P (Some [DGaussian; DGMRF]) (Some [DGaussian]) None None false in
  let c6 := check_posterior P (Some [DRegGaussian; DRegGMRF]) (Some [DGaussian]) (Some MLinear) None false in
  match sample_route joint P s q d with
  | SGibbs => joint = true
  | SMapCholesky => joint = false /\ c1 = true
  | SLinearRTO => joint = false /\ c1 = false /\ c2 = true
  | SUGLA => joint = false /\ c1 = false /\ c2 = false /\ c3 = true
  | SNUTS => joint = false /\ c1 = false /\ c2 = false /\ c3 = false /\ c4 = true
  | SpCN => joint = false /\ c1 = false /\ c2 = false /\ c3 = false /\ c4 = false /\ c5 = true
  | SRegLinearRTO => joint = false /\ c1 = false /\ c2 = false /\ c3 = false /\ c4 = false /\ c5 = false /\ c6 = true
  | SNotImplemented => joint = false /\ c1 = false /\ c2 = false /\ c3 = false /\ c4 = false /\ c5 = false /\ c6 = false
  | SProbeRaises => False
  end.
Proof.
  intros c1 c2 c3 c4 c5 c6. unfold sample_route. fold c1 c2 c3 c4 c5 c6.
  destruct joint, c1, c2, c3, c4, c5, c6; repeat split; reflexivity.
Qed.

Lemma cp_classes P pl ll mo :
  check_posterior P (Some pl) (Some ll) mo None false = true ->
  existsb (dcls_isa (p_prior P)) pl = true /\ existsb (dcls_isa (p_lik P)) ll = true /\
  match mo with Some MLinear => p_model P = MLinear | _ => True end.
Proof.
  unfold check_posterior. intros H. rewrite !andb_true_r in H.
  apply andb_true_iff in H as [H H3]. apply andb_true_iff in H as [H1 H2].
  repeat split; try assumption. destruct mo as [[|]|]; try exact I. destruct (p_model P); [reflexivity | discriminate].
Qed.

Lemma isa_in_two a b c : existsb (dcls_isa a) [b; c] = true -> dcls_isa a b = true \/ dcls_isa a c = true.
Proof. cbn [existsb]. rewrite orb_false_r. apply orb_true_iff. Qed.

Lemma isa_gaussian a : dcls_isa a DGaussian = true -> a = DGaussian.
Proof. destruct a; cbn; congruence. Qed.
Lemma isa_gmrf a : dcls_isa a DGMRF = true -> a = DGMRF.
Proof. destruct a; cbn; congruence. Qed.
Lemma isa_lmrf a : dcls_isa a DLMRF = true -> a = DLMRF.
Proof. destruct a; cbn; congruence. Qed.
Lemma isa_reg a : dcls_isa a DRegGaussian = true -> a = DRegGaussian \/ a = DRegGMRF.
Proof. destruct a; cbn; intros; try discriminate; auto. Qed.
Lemma isa_reggmrf a : dcls_isa a DRegGMRF = true -> a = DRegGMRF.
Proof. destruct a; cbn; congruence. Qed.

Lemma cascade_spec joint P s q d :
  let r := sample_route joint P s q d in
  (r = SGibbs <-> joint = true) /\
  (r = SMapCholesky <-> joint = false /\ map_route P d = RDirect) /\
  (r = SLinearRTO -> joint = false /\ p_model P = MLinear /\ s = true /\ q = true /\ map_route P d = ROptimiser) /\
  (r = SUGLA -> p_prior P = DLMRF /\ p_lik P = DGaussian) /\
  (r = SNUTS -> p_has_grad P = true /\ is_nuts_excluded (p_prior P) = false) /\
  (r = SpCN -> (p_prior P = DGaussian \/ p_prior P = DGMRF) /\ p_lik P = DGaussian) /\
  (r = SRegLinearRTO -> (p_prior P = DRegGaussian \/ p_prior P = DRegGMRF) /\ p_lik P = DGaussian /\ p_model P = MLinear).
Proof.
  intros r. pose proof (cascade_inv joint P s q d) as I. fold r in I. cbv zeta in I.
  pose proof (sample_route_eq_map_route P d) as E.
  split. { split; [intros H; rewrite H in I; exact I | intros ->; reflexivity]. }
  split. { split.
    - intros H. rewrite H in I. destruct I as [I0 I]. split; [exact I0|]. rewrite E in I. destruct (map_route P d); [reflexivity | discriminate].
    - intros [-> H]. unfold r, sample_route. rewrite E, H. reflexivity. }
  split. { intros H. rewrite H in I. destruct I as (I0 & I1 & I2). rewrite E in I1.
    split; [exact I0|]. destruct (p_model P); [|rewrite andb_false_r in I2; discriminate].
    destruct s; [|discriminate]. destruct q; [|discriminate].
    repeat split. destruct (map_route P d); [discriminate | reflexivity]. }
  split. { intros H. rewrite H in I. destruct I as (_ & _ & _ & I). apply cp_classes in I as (I1 & I2 & _).
    cbn [existsb] in I1, I2. rewrite orb_false_r in I1, I2. split; [apply isa_lmrf; exact I1 | apply isa_gaussian; exact I2]. }
  split. { intros H. rewrite H in I. destruct I as (_ & _ & _ & _ & I). apply andb_true_iff in I as [I1 I2]. split.
    - unfold check_posterior in I1. cbn in I1. exact I1.
    - apply negb_true_iff in I2. unfold check_posterior in I2. rewrite !andb_true_r in I2. cbn [andb] in I2.
      destruct (p_prior P); cbn in I2 |- *; congruence. }
  split. { intros H. rewrite H in I. destruct I as (_ & _ & _ & _ & _ & I). apply cp_classes in I as (I1 & I2 & _). split.
    - apply isa_in_two in I1 as [I1|I1]; [left; apply isa_gaussian | right; apply isa_gmrf]; exact I1.
    - cbn [existsb] in I2. rewrite orb_false_r in I2. apply isa_gaussian. exact I2. }
  intros H. rewrite H in I. destruct I as (_ & _ & _ & _ & _ & _ & I). apply cp_classes in I as (I1 & I2 & I3). split; [|split].
  - apply isa_in_two in I1 as [I1|I1]; [apply isa_reg; exact I1 | right; apply isa_reggmrf; exact I1].
  - cbn [existsb] in I2. rewrite orb_false_r in I2. apply isa_gaussian. exact I2.
  - exact I3.
Qed.
