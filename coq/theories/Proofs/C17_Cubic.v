(* C17 -- WangCubic over the reals: the Jacobian handed to the model is the derivative of the forward map. *)
From Coq Require Import Reals Lra.
From Coquelicot Require Import Coquelicot.
From CV Require Import Model.C17_TPR.
Local Open Scope R_scope.

Theorem cubic_d0 x0 x1 : is_derive (fun t => cubic_forward_R t x1) x0 (fst (cubic_jacobian_R x0 x1)).
Proof. unfold cubic_forward_R, cubic_jacobian_R; simpl. auto_derive; [exact I | ring]. Qed.

Theorem cubic_d1 x0 x1 : is_derive (fun t => cubic_forward_R x0 t) x1 (snd (cubic_jacobian_R x0 x1)).
Proof. unfold cubic_forward_R, cubic_jacobian_R; simpl. auto_derive; [exact I | ring]. Qed.
