(* C16 -- what "stationary point of the sum of squares" means: for residuals F : R^n -> R^m that are
   differentiable along every line with Jacobian J, the function f(x) = 1/2 |F(x)|^2 has, in every direction d,
   the derivative <d, J(x)^T F(x)>.  So the vector J^T F that LM forms IS the gradient of f, J^T F = 0 iff all
   directional derivatives vanish, and LM's stopping rule bounds the norm of that gradient.
   Reals + Coquelicot; vectors are lists (Base/LinAlg.v at the ring R). *)
From CV Require Import Base.Tac Base.LinAlg.
From Coq Require Import Reals Lra.
From Coquelicot Require Import Coquelicot.
Local Open Scope R_scope.

Notation Rdot := (dot 0 Rplus Rmult).
Notation Rnormsq := (normsq 0 Rplus Rmult).
Notation Rmatvec := (matvec 0 Rplus Rmult).
Notation Rmattvec := (mattvec 0 Rplus Rmult).
Notation Rvadd := (vadd Rplus).
Notation Rvscale := (vscale Rmult).

(* the point x + t d *)
Definition line (x d : list R) (t : R) : list R := Rvadd x (Rvscale t d).

Lemma line_0 x d : length x = length d -> line x d 0 = x.
Proof.
  unfold line, vscale. revert d; induction x as [|a x IH]; intros [|b d] H; cbn in *; try discriminate; try reflexivity.
  rewrite (IH d) by lia. f_equal. ring.
Qed.

(* sum of squares of a list of scalar functions *)
Definition sumsq (fs : list (R -> R)) (t : R) : R := Rnormsq (map (fun f => f t) fs).

Lemma sumsq_derive fs ls t0 : Forall2 (fun f l => is_derive f t0 l) fs ls ->
  is_derive (sumsq fs) t0 (2 * Rdot (map (fun f => f t0) fs) ls).
Proof.
  induction 1 as [|f l fs ls Hf Hrest IH].
  - unfold sumsq; cbn. replace (2 * 0) with 0 by ring. apply (is_derive_const 0 t0).
  - assert (H1 : is_derive (fun t => f t * f t) t0 (l * f t0 + f t0 * l)).
    { apply (is_derive_mult f f t0 l l Hf Hf). intros; apply Rmult_comm. }
    pose proof (is_derive_plus _ _ _ _ _ H1 IH) as H2.
    unfold sumsq in *. cbn [map normsq dot] in *.
    eapply is_derive_ext; [ | replace (2 * (f t0 * l + Rdot (map (fun f0 => f0 t0) fs) ls))
                                with (plus (l * f t0 + f t0 * l) (2 * Rdot (map (fun f0 => f0 t0) fs) ls))
                                by (unfold plus; cbn; ring); exact H2].
    intros t. unfold plus; cbn. unfold normsq. reflexivity.
Qed.

Lemma map_nth_seq (v : list R) m : length v = m -> map (fun i => nth i v 0) (seq 0 m) = v.
Proof.
  intros H. apply (nth_ext _ _ 0 0).
  - rewrite map_length, seq_length. lia.
  - intros k Hk. rewrite map_length, seq_length in Hk.
    rewrite (nth_indep _ 0 (nth 0%nat v 0)) by (rewrite map_length, seq_length; lia).
    rewrite (map_nth (fun i => nth i v 0) (seq 0 m) 0%nat k). rewrite seq_nth by lia. reflexivity.
Qed.

Lemma Forall2_map_seq {A B} (P : A -> B -> Prop) (f : nat -> A) (g : nat -> B) s m :
  (forall i, (s <= i < s + m)%nat -> P (f i) (g i)) -> Forall2 P (map f (seq s m)) (map g (seq s m)).
Proof.
  revert s; induction m as [|m IH]; intros s H; cbn; constructor.
  - apply H; lia.
  - apply IH. intros i Hi. apply H; lia.
Qed.

Section Gradient.
Variables (n m : nat).
Variable F : list R -> list R.           (* the residuals *)

(* The directional derivative of 1/2 |F|^2 at x along d is <d, J^T F(x)>, for ANY matrix J that is the
   Jacobian of F at x along d (each component of t |-> F(x + t d) has derivative (J d)_i at t = 0). *)
Theorem sos_directional_derivative (J : list (list R)) (x d : list R) :
  wf_mat n J -> length J = m -> length x = n -> length d = n ->
  (forall t, length (F (line x d t)) = m) ->
  (forall i, (i < m)%nat -> is_derive (fun t => nth i (F (line x d t)) 0) 0 (nth i (Rmatvec J d) 0)) ->
  is_derive (fun t => / 2 * Rnormsq (F (line x d t))) 0 (Rdot d (Rmattvec n J (F x))).
Proof.
  intros HJ HJm Hx Hd HF Hder.
  set (fs := map (fun i => fun t => nth i (F (line x d t)) 0) (seq 0 m)).
  set (ls := map (fun i => nth i (Rmatvec J d) 0) (seq 0 m)).
  assert (Hfs : forall t, sumsq fs t = Rnormsq (F (line x d t))).
  { intros t. unfold sumsq, fs. rewrite map_map. rewrite (map_nth_seq (F (line x d t)) m (HF t)). reflexivity. }
  assert (Hls : ls = Rmatvec J d).
  { unfold ls. apply map_nth_seq. rewrite matvec_length. exact HJm. }
  assert (H2 : Forall2 (fun f l => is_derive f 0 l) fs ls).
  { unfold fs, ls. apply Forall2_map_seq. intros i Hi. apply Hder. lia. }
  pose proof (sumsq_derive fs ls 0 H2) as H3.
  assert (Hval : map (fun f => f 0) fs = F x).
  { unfold fs. rewrite map_map. rewrite (map_nth_seq (F (line x d 0)) m (HF 0)). rewrite line_0 by lia. reflexivity. }
  assert (H3' : is_derive (sumsq fs) 0 (2 * Rdot (F x) (Rmatvec J d))).
  { rewrite <- Hval, <- Hls. exact H3. }
  eapply is_derive_ext; [intros t; rewrite <- (Hfs t); reflexivity|].
  replace (Rdot d (Rmattvec n J (F x))) with (/ 2 * (2 * Rdot (F x) (Rmatvec J d))).
  - apply (is_derive_scal (sumsq fs) 0 (/ 2) _ H3').
  - rewrite <- (adjoint_identity R 0 1 Rplus Rmult Rminus Ropp RTheory n J d (F x) HJ Hd).
    rewrite (dot_comm R 0 1 Rplus Rmult Rminus Ropp RTheory (F x) (Rmatvec J d)). field.
Qed.
End Gradient.

(* <d, g> = 0 for every direction d  iff  g = 0 *)
Lemma Rnormsq_zero (g : list R) : Rnormsq g = 0 -> g = vzero 0 (length g).
Proof.
  unfold normsq. induction g as [|a g IH]; cbn; [reflexivity|]. intros H.
  assert (Hg : 0 <= Rdot g g). { clear. induction g as [|b g IH]; cbn; [lra|]. nra. }
  assert (Ha : a = 0) by nra. subst a.
  cbn. f_equal. apply IH. nra.
Qed.

Theorem gradient_zero_iff (n : nat) (g : list R) : length g = n ->
  ((forall d, length d = n -> Rdot d g = 0) <-> g = vzero 0 n).
Proof.
  intros Hg. split.
  - intros H. rewrite <- Hg. apply Rnormsq_zero. apply (H g Hg).
  - intros -> d _. apply (dot_vzero_r R 0 1 Rplus Rmult Rminus Ropp RTheory).
Qed.

(* ---------- the residual families of the LM cells are differentiable with the Jacobians the harness passes ---------- *)
(* one unknown: r_i(x) = a_i x^2 + b_i x + c_i, J_i = 2 a_i x + b_i  (Model: quadF / quadJ) *)
Definition quadF_R (co : list (R * R * R)) (x : list R) : list R :=
  match x with v :: nil => map (fun abc => let '(a, b, c) := abc in a * v * v + b * v + c) co | _ => [] end.
Definition quadJ_R (co : list (R * R * R)) (x : list R) : list (list R) :=
  match x with v :: nil => map (fun abc => let '(a, b, c) := abc in (((1 + 1) * a * v + b) :: nil)) co | _ => [] end.

Lemma quad_line_derivable co v dv :
  (forall t, length (quadF_R co (line (v :: nil) (dv :: nil) t)) = length co) /\
  wf_mat 1 (quadJ_R co (v :: nil)) /\ length (quadJ_R co (v :: nil)) = length co /\
  forall i, (i < length co)%nat ->
    is_derive (fun t => nth i (quadF_R co (line (v :: nil) (dv :: nil) t)) 0) 0 (nth i (Rmatvec (quadJ_R co (v :: nil)) (dv :: nil)) 0).
Proof.
  unfold line; cbn. split; [ | split; [ | split]].
  - intros t. apply map_length.
  - induction co as [|[[a b] c] co IH]; cbn; constructor; [reflexivity | exact IH].
  - apply map_length.
  - induction co as [|[[a b] c] co IH]; intros [|i] Hi; cbn in *; try lia.
    + auto_derive; [exact I | ring].
    + apply IH. lia.
Qed.

(* two unknowns: the family  sigma * [a (x1 - x0^2), b - x0, c x0 x1 - d]  of the harness (lm2_funcs) *)
Definition lm2F (sg a b c d : R) (x : list R) : list R :=
  match x with x0 :: x1 :: nil => [sg * (a * (x1 - x0 * x0)); sg * (b - x0); sg * (c * x0 * x1 - d)] | _ => [] end.
Definition lm2J (sg a b c d : R) (x : list R) : list (list R) :=
  match x with x0 :: x1 :: nil => [[sg * (- (1 + 1) * a * x0); sg * a]; [sg * - (1); sg * 0]; [sg * (c * x1); sg * (c * x0)]] | _ => [] end.

Lemma lm2_line_derivable sg a b c d x0 x1 d0 d1 :
  (forall t, length (lm2F sg a b c d (line [x0; x1] [d0; d1] t)) = 3%nat) /\
  wf_mat 2 (lm2J sg a b c d [x0; x1]) /\ length (lm2J sg a b c d [x0; x1]) = 3%nat /\
  forall i, (i < 3)%nat ->
    is_derive (fun t => nth i (lm2F sg a b c d (line [x0; x1] [d0; d1] t)) 0) 0
              (nth i (Rmatvec (lm2J sg a b c d [x0; x1]) [d0; d1]) 0).
Proof.
  unfold line; cbn. split; [reflexivity | split; [ | split; [reflexivity|]]].
  - repeat constructor.
  - intros i Hi. destruct i as [|[|[|i]]]; try lia; cbn; auto_derive; try exact I; ring.
Qed.
