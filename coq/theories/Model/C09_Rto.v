(* C09 -- the draw of the block samplers that solve a perturbed, stacked least-squares problem
   (cuqi.experimental.mcmc.LinearRTO._precompute/step and UGLA._precompute/step), as an exact rational function of the
   scripted standard normals.  No proofs here.

   The conditional of the block x given the other blocks has log-density (up to terms constant in x)
        q(x) = -1/2 * sum_r w_r (c_r - <a_r, x>)^2 ,
   one row r per scalar Gaussian factor: a_r the coefficients of x, c_r the right-hand side (data or prior mean, reduced by
   the contributions of the other blocks), w_r the precision of the factor AT THE CURRENT VALUES OF THE OTHER BLOCKS (noise
   precision l, prior precision d; for UGLA's Laplace approximation d / sqrt(t_r^2 + beta), t_r the r-th difference of the
   sampler's current point).  The samplers stack the rows scaled by s_r = sqrt(w_r)  (M = [sqrt(l) A; sqrt(d) L], b_tild
   likewise), add a standard normal e_r to every entry of the stacked right-hand side and return the least-squares solution:
        x(e) = argmin_x sum_r (s_r <a_r, x> - s_r c_r - e_r)^2,   i.e.   A^T W A x = A^T (W c + S e)   when s_r^2 = w_r.
   Square roots are not rational: s_r is a certificate supplied with the case (the correspondence checks s_r^2 = w_r to the
   tolerance of the comparison); the theorems assume s_r * s_r = w_r exactly where they need it. *)
From CV Require Import Base.Tac Base.Cmp Base.LinAlg Base.QcLin.
From Coq Require Import QArith Qcanon.
Local Open Scope Qc_scope.

Record lsrow := mkLS { ls_a : list Qc; ls_w : Qc; ls_s : Qc; ls_c : Qc }.

(* rows paired with the standard normal added to their right-hand side *)
Definition noisy := list (lsrow * Qc).

Definition A_of (re : noisy) : list (list Qc) := map (fun p => ls_a (fst p)) re.
(* W (A x) *)
Definition wAx (re : noisy) (x : list Qc) : list Qc := map (fun p => ls_w (fst p) * qdot (ls_a (fst p)) x) re.
(* W c + S e *)
Definition wc_se (re : noisy) : list Qc := map (fun p => ls_w (fst p) * ls_c (fst p) + ls_s (fst p) * snd p) re.

Definition nrm_lhs (n : nat) (re : noisy) (x : list Qc) : list Qc := qmattvec n (A_of re) (wAx re x).     (* A^T W A x *)
Definition nrm_rhs (n : nat) (re : noisy) : list Qc := qmattvec n (A_of re) (wc_se re).                   (* A^T (W c + S e) *)

(* elimination without pivoting (symmetric positive definite systems): rows paired with right-hand sides *)
Fixpoint csolve (n : nat) (rows : list (list Qc * Qc)) : list Qc :=
  match n, rows with
  | S n', (a :: r, b) :: rest =>
      let red := map (fun row => match row with
                                 | (c :: r', b') => (map (fun xy => fst xy - (c / a) * snd xy) (combine r' r), b' - (c / a) * b)
                                 | ([], b') => ([], b')
                                 end) rest in
      let xs := csolve n' red in
      ((b - qdot r xs) / a) :: xs
  | _, _ => []
  end.

(* the draw: solve the normal equations; the elimination is not proved correct -- its result is used only if it solves
   the normal equations EXACTLY (checked here, over Qc) *)
Definition rto_draw (n : nat) (re : noisy) : option (list Qc) :=
  let H := map (fun j => nrm_lhs n re (qunit n j)) (seq 0 n) in
  let g := nrm_rhs n re in
  let x := csolve n (combine H g) in
  if Nat.eqb (length x) n && qcl_eqb (nrm_lhs n re x) g then Some x else None.

(* the quantities the theorems are stated with (scalar sums over the rows) *)
Definition rsum (f : lsrow * Qc -> Qc) (re : noisy) : Qc := fold_right (fun p acc => f p + acc) 0 re.
(* precision form  v^T (A^T W A) x  of the conditional *)
Definition Bform (re : noisy) (x v : list Qc) : Qc :=
  rsum (fun p => ls_w (fst p) * qdot (ls_a (fst p)) x * qdot (ls_a (fst p)) v) re.
(* the conditional's log-density (terms depending on the block) *)
Definition qcond (re : noisy) (y : list Qc) : Qc :=
  - (Q2Qc (1 # 2)) * rsum (fun p => ls_w (fst p) * ((ls_c (fst p) - qdot (ls_a (fst p)) y) * (ls_c (fst p) - qdot (ls_a (fst p)) y))) re.
(* the noise functional  v^T A^T S e *)
Definition Nform (re : noisy) (v : list Qc) : Qc := rsum (fun p => ls_s (fst p) * snd p * qdot (ls_a (fst p)) v) re.
(* the same rows with the normals set to zero: the draw is then the conditional mean *)
Definition quiet (re : noisy) : noisy := map (fun p => (fst p, 0)) re.
Definition rows_wf (n : nat) (re : noisy) : Prop := Forall (fun p => length (ls_a (fst p)) = n) re.
