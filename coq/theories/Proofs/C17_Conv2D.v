(* C17 -- Deconvolution2D: the coded forward (pad by PSF_size//2, 'valid' convolution, drop the first row and
   column when the PSF size is even) is the documented centred convolution, for every boundary condition,
   every square PSF (either parity, also larger than the image) and every image size. *)
From CV Require Import Base.Tac Base.LinAlg Model.C17_TP Proofs.C17_Legacy.

Section C2.
Variable R : Type.
Variables (r0 : R) (radd rmul : R -> R -> R).
Local Notation sum_idx := (sum_idx r0 radd).
Local Notation get2 := (get2 r0).

Lemma sum_idx_ext' (f g : nat -> R) n : (forall k, (k < n)%nat -> f k = g k) -> sum_idx f n = sum_idx g n.
Proof.
  intros H. unfold C17_TP.sum_idx. f_equal. apply map_ext_in. intros k Hk. apply in_seq in Hk. apply H. lia.
Qed.

Lemma pad2_length m p (X : list (list R)) : length (pad2 r0 m p X) = (length X + 2 * p)%nat.
Proof. unfold pad2. rewrite map_length, seq_length. reflexivity. Qed.

Lemma pad2_ncols m p (X : list (list R)) : (0 < length X + 2 * p)%nat ->
  ncols (pad2 r0 m p X) = (ncols X + 2 * p)%nat.
Proof.
  intros H. unfold pad2, ncols at 1.
  destruct (length X + 2 * p)%nat as [|k] eqn:E; [lia|].
  cbn [seq map hd]. rewrite map_length, seq_length. reflexivity.
Qed.

Lemma pad2_entry m p (X : list (list R)) u v :
  (u < length X + 2 * p)%nat -> (v < ncols X + 2 * p)%nat ->
  nth v (nth u (pad2 r0 m p X) []) r0 =
  get2 X (ext_idx m (Z.of_nat (length X)) (Z.of_nat u - Z.of_nat p)) (ext_idx m (Z.of_nat (ncols X)) (Z.of_nat v - Z.of_nat p)).
Proof.
  intros Hu Hv. unfold pad2.
  rewrite (nth_map_seq _ _ _ _ Hu), (nth_map_seq _ _ _ _ Hv). reflexivity.
Qed.

Lemma tl_map_seq {B} (f : nat -> B) n : tl (map f (seq 0 (S n))) = map (fun i => f (S i)) (seq 0 n).
Proof. cbn [seq map tl]. rewrite <- seq_shift, map_map. reflexivity. Qed.

Definition square (s : nat) (P : list (list R)) : Prop := length P = s /\ Forall (fun r => length r = s) P.

Lemma square_dims s P : square s P -> (0 < s)%nat -> ncols P = s /\ maxdim P = s.
Proof.
  intros [HL HF] Hs. unfold maxdim, ncols. destruct P as [|r P']; simpl in *; [lia|].
  inversion HF; subst. split; [assumption|]. rewrite H1. lia.
Qed.

Theorem proj_forward_2d_is_convolution m s (P X : list (list R)) :
  (0 < s)%nat -> square s P ->
  proj_forward_2d r0 radd rmul m P X = conv2d r0 radd rmul m P X.
Proof.
  intros Hs Hsq. destruct (square_dims s P Hsq Hs) as [Hc Hm]. destruct Hsq as [HL _].
  unfold proj_forward_2d, conv2d. rewrite Hm.
  set (p := (s / 2)%nat).
  set (Y := pad2 r0 m p X).
  assert (HYl : length Y = (length X + 2 * p)%nat) by apply pad2_length.
  (* the common entry computation *)
  assert (ENTRY : forall i j e, (i < length X)%nat -> (j < ncols X)%nat -> (s + e = 2 * p + 1)%nat ->
            sum_idx (fun a => sum_idx (fun b =>
               rmul (nth b (nth a P []) r0) (nth (j + e + s - 1 - b) (nth (i + e + s - 1 - a) Y []) r0)) s) s
            = conv2d_at r0 radd rmul m P X i j).
  { intros i j e Hi Hj Hso. unfold conv2d_at. rewrite Hm, Hc, HL. fold p.
    apply sum_idx_ext'. intros a Ha. apply sum_idx_ext'. intros b Hb.
    f_equal. unfold Y. rewrite pad2_entry by lia. f_equal; f_equal; lia. }
  assert (HYc : (0 < length X)%nat -> ncols Y = (ncols X + 2 * p)%nat).
  { intros H0. apply pad2_ncols. lia. }
  destruct (Nat.even s) eqn:Ev.
  - (* even size: s = 2p, drop first row and column *)
    assert (Hsp : s = (2 * p)%nat).
    { unfold p. apply Nat.even_spec in Ev. destruct Ev as [q ->]. rewrite Nat.mul_comm, Nat.div_mul by lia. lia. }
    unfold valid2, crop_first. rewrite HL, Hc, HYl.
    replace (length X + 2 * p + 1 - s)%nat with (S (length X)) by lia.
    rewrite tl_map_seq, map_map.
    destruct (Nat.eq_dec (length X) 0) as [E0|E0]; [rewrite E0; reflexivity|].
    rewrite HYc by lia.
    replace (ncols X + 2 * p + 1 - s)%nat with (S (ncols X)) by lia.
    apply map_ext_in. intros i Hi. apply in_seq in Hi.
    rewrite tl_map_seq. apply map_ext_in. intros j Hj. apply in_seq in Hj.
    rewrite <- (ENTRY i j 1%nat) by lia.
    apply sum_idx_ext'. intros a Ha. apply sum_idx_ext'. intros b Hb.
    f_equal. f_equal; [lia | f_equal; lia].
  - (* odd size: s = 2p+1 *)
    assert (Hsp : s = (2 * p + 1)%nat).
    { unfold p. rewrite <- Nat.negb_odd in Ev. apply negb_false_iff in Ev. apply Nat.odd_spec in Ev.
      destruct Ev as [q ->]. replace (2 * q + 1)%nat with (1 + q * 2)%nat by lia.
      rewrite Nat.div_add by lia. simpl. lia. }
    unfold valid2. rewrite HL, Hc, HYl.
    replace (length X + 2 * p + 1 - s)%nat with (length X) by lia.
    destruct (Nat.eq_dec (length X) 0) as [E0|E0]; [rewrite E0; reflexivity|].
    rewrite HYc by lia.
    replace (ncols X + 2 * p + 1 - s)%nat with (ncols X) by lia.
    apply map_ext_in. intros i Hi. apply in_seq in Hi.
    apply map_ext_in. intros j Hj. apply in_seq in Hj.
    rewrite <- (ENTRY i j 0%nat) by lia.
    apply sum_idx_ext'. intros a Ha. apply sum_idx_ext'. intros b Hb.
    f_equal. f_equal; [lia | f_equal; lia].
Qed.

End C2.
