(* C19 -- proofs about operation sequences (Model/C19_History.v): no sequence of statistic /
   conversion / burnthin operations changes a stored chain, and what an operation returns is a
   function of the stored objects it reads only (not of the history). *)
From CV Require Import Base.Tac Base.Cmp Model.C19_Stats Model.C19_Rhat Model.C19_History Proofs.C19_Stats.
From Coq Require Import QArith.
From Coq Require String.

(* ---------------- one step ---------------- *)
Lemma step_state g o st : snd (step g o st) = st ++ created (fst (step g o st)).
Proof.
  unfold step. destruct (lookup_all st (op_targets o)) as [args|]; cbn [fst snd created].
  - destruct (op_value_gs g o args) as [v|]; cbn [fst snd created]; [reflexivity | symmetry; apply app_nil_r].
  - symmetry; apply app_nil_r.
Qed.

Lemma step_extends g o st : exists ext, snd (step g o st) = st ++ ext.
Proof. eexists. apply step_state. Qed.

Lemma lookup_all_app st ext ms args :
  lookup_all st ms = Some args -> lookup_all (st ++ ext) ms = Some args.
Proof.
  revert args; induction ms as [|i r IH]; intros args; cbn [lookup_all]; [trivial|].
  destruct (nth_error st i) as [o|] eqn:E; [|discriminate].
  destruct (lookup_all st r) as [l|]; [|discriminate]. intros [= <-].
  rewrite nth_error_app1 by (apply nth_error_Some; congruence).
  rewrite E, (IH l eq_refl). reflexivity.
Qed.

Lemma lookup_all_defined st ms :
  (forall i, In i ms -> (i < length st)%nat) -> exists args, lookup_all st ms = Some args.
Proof.
  induction ms as [|i r IH]; intros H; cbn [lookup_all]; [eauto|].
  destruct (nth_error st i) as [o|] eqn:E.
  - destruct IH as [l ->]; [intros; apply H; right; assumption | eauto].
  - apply nth_error_None in E. specialize (H i (or_introl eq_refl)). lia.
Qed.

Lemma lookup_all_nth st ms args :
  lookup_all st ms = Some args -> Forall2 (fun i x => nth_error st i = Some x) ms args.
Proof.
  revert args; induction ms as [|i r IH]; intros args; cbn [lookup_all].
  - intros [= <-]. constructor.
  - destruct (nth_error st i) as [o|] eqn:E; [|discriminate].
    destruct (lookup_all st r) as [l|]; [|discriminate]. intros [= <-].
    constructor; [exact E | apply IH; reflexivity].
Qed.

(* the value of an operation is the same in every state that extends one where its targets exist *)
Lemma step_value_extend g o st ext :
  (forall i, In i (op_targets o) -> (i < length st)%nat) ->
  fst (step g o (st ++ ext)) = fst (step g o st).
Proof.
  intros H. destruct (lookup_all_defined st (op_targets o) H) as [args E].
  unfold step. rewrite (lookup_all_app st ext _ _ E), E.
  destruct (op_value_gs g o args); reflexivity.
Qed.

(* ... and, more generally, in any two states that agree on the targets *)
Lemma lookup_all_agree st st' ms :
  (forall i, In i ms -> nth_error st i = nth_error st' i) -> lookup_all st ms = lookup_all st' ms.
Proof.
  induction ms as [|i r IH]; intros H; cbn [lookup_all]; [reflexivity|].
  rewrite (H i (or_introl eq_refl)), IH by (intros; apply H; right; assumption). reflexivity.
Qed.

Theorem step_value_local g o st st' :
  (forall i, In i (op_targets o) -> nth_error st i = nth_error st' i) ->
  (exists args, lookup_all st (op_targets o) = Some args) ->
  fst (step g o st) = fst (step g o st').
Proof.
  intros H [args E]. unfold step. rewrite <- (lookup_all_agree st st' _ H), E.
  destruct (op_value_gs g o args); reflexivity.
Qed.

(* ---------------- sequences ---------------- *)
Lemma final_extends g ops : forall st, exists ext, final g ops st = st ++ ext.
Proof.
  induction ops as [|o r IH]; intros st; cbn [final fold_left].
  - exists []. symmetry; apply app_nil_r.
  - destruct (step_extends g o st) as [e1 E1]. fold (final g r (snd (step g o st))).
    destruct (IH (snd (step g o st))) as [e2 E2]. exists (e1 ++ e2).
    rewrite E2, E1, app_assoc. reflexivity.
Qed.

Lemma final_app g ops1 ops2 st : final g (ops1 ++ ops2) st = final g ops2 (final g ops1 st).
Proof. unfold final. apply fold_left_app. Qed.

(* the state recorded after the k-th operation is the final state of the first k+1 operations *)
Lemma run_nth_final g ops : forall st k v s,
  nth_error (run g ops st) k = Some (v, s) ->
  s = final g (firstn (S k) ops) st /\
  exists o, nth_error ops k = Some o /\ v = fst (step g o (final g (firstn k ops) st)).
Proof.
  induction ops as [|o r IH]; intros st k v s; cbn [run]; [destruct k; discriminate|].
  destruct k as [|k]; cbn [nth_error].
  - intros [= E]. split.
    + cbn [firstn final fold_left]. rewrite E. reflexivity.
    + exists o. split; [reflexivity|]. cbn [firstn final fold_left]. rewrite E. reflexivity.
  - intros H. destruct (IH _ _ _ _ H) as [E1 [o' [E2 E3]]]. split.
    + exact E1.
    + exists o'. split; [exact E2 | exact E3].
Qed.

Lemma run_length g ops : forall st, length (run g ops st) = length ops.
Proof. induction ops as [|o r IH]; intros st; cbn [run length]; [reflexivity | rewrite IH; reflexivity]. Qed.

Lemma firstn_plus {A} (l : list A) : forall a b, firstn (a + b) l = firstn a l ++ firstn b (skipn a l).
Proof.
  induction l as [|x l IH]; intros a b.
  - rewrite skipn_nil, !firstn_nil. reflexivity.
  - destruct a as [|a]; [reflexivity|]. cbn [Nat.add firstn skipn app]. rewrite IH. reflexivity.
Qed.

(* every state in the trace extends every earlier one (and the initial one):
   no operation sequence changes, removes or reorders an object that exists *)
Theorem run_states_extend g ops st k v s :
  nth_error (run g ops st) k = Some (v, s) -> exists ext, s = st ++ ext.
Proof. intros H. destruct (run_nth_final _ _ _ _ _ _ H) as [-> _]. apply final_extends. Qed.

Theorem run_states_monotone g ops st k1 k2 v1 s1 v2 s2 :
  (k1 <= k2)%nat ->
  nth_error (run g ops st) k1 = Some (v1, s1) ->
  nth_error (run g ops st) k2 = Some (v2, s2) ->
  exists ext, s2 = s1 ++ ext.
Proof.
  intros Hk H1 H2.
  destruct (run_nth_final _ _ _ _ _ _ H1) as [-> _].
  destruct (run_nth_final _ _ _ _ _ _ H2) as [-> _].
  replace (firstn (S k2) ops) with (firstn (S k1) ops ++ firstn (k2 - k1) (skipn (S k1) ops)).
  - rewrite final_app. apply final_extends.
  - replace (S k2) with (S k1 + (k2 - k1))%nat by lia. symmetry. apply firstn_plus.
Qed.

(* stored objects are unchanged by any history *)
Theorem history_object_unchanged g ops st i :
  (i < length st)%nat -> nth_error (final g ops st) i = nth_error st i.
Proof.
  intros Hi. destruct (final_extends g ops st) as [ext ->]. apply nth_error_app1. exact Hi.
Qed.

Theorem trace_object_unchanged g ops st k v s i :
  nth_error (run g ops st) k = Some (v, s) -> (i < length st)%nat -> nth_error s i = nth_error st i.
Proof.
  intros H Hi. destruct (run_states_extend _ _ _ _ _ _ H) as [ext ->]. apply nth_error_app1. exact Hi.
Qed.

(* what an operation returns does not depend on the history that precedes it *)
Theorem history_value_indep g ops o st :
  (forall i, In i (op_targets o) -> (i < length st)%nat) ->
  fst (step g o (final g ops st)) = fst (step g o st).
Proof.
  intros H. destruct (final_extends g ops st) as [ext ->]. apply step_value_extend. exact H.
Qed.

(* ... nor, for two histories, on which of them was executed *)
Corollary history_value_indep2 g ops1 ops2 o st :
  (forall i, In i (op_targets o) -> (i < length st)%nat) ->
  fst (step g o (final g ops1 st)) = fst (step g o (final g ops2 st)).
Proof. intros H. rewrite !history_value_indep by exact H. reflexivity. Qed.

(* single-target operations: the value after any history is op_value on the object as first stored *)
Theorem history_value_exact g ops o st i x v :
  op_targets o = [i] -> nth_error st i = Some x -> op_value_gs g o [x] = Some v ->
  fst (step g o (final g ops st)) = v.
Proof.
  intros Ht Hx Hv. rewrite history_value_indep.
  - unfold step. rewrite Ht. cbn [lookup_all]. rewrite Hx, Hv. reflexivity.
  - rewrite Ht. intros j [<-|[]]. apply nth_error_Some. congruence.
Qed.

(* the statistics read the chain only (not the flags / geometry of the object) *)
Definition is_stat_op (o : op) : bool :=
  match o with OMean _ | OMedian _ | OVar _ | OStd _ | OCi _ _ _ | OCiWidth _ _ _ => true | _ => false end.

Theorem stat_value_chain_only g o x y :
  is_stat_op o = true -> s_chain x = s_chain y -> op_value g o [x] = op_value g o [y].
Proof. intros Hs Hc. destruct o; try discriminate; cbn [op_value]; rewrite Hc; reflexivity. Qed.

(* burn-in / thinning after any history: draws Nb, Nb+Nt, ... of the chain as first stored, flags kept *)
Theorem history_burnthin_exact g ops st i nb nt x x' :
  nth_error st i = Some x -> (s_geom x < length g)%nat ->
  fst (step g (OBurnthin i nb nt) (final g ops st)) = VObj x' ->
  (forall k d, nth k (s_chain x') d = nth (nb + k * nt) (s_chain x) d) /\
  length (s_chain x') = ((length (s_chain x) - nb + nt - 1) / nt)%nat /\
  s_is_par x' = s_is_par x /\ s_is_vec x' = s_is_vec x /\ s_geom x' = s_geom x.
Proof.
  intros Hx Hg Hv.
  assert (E : fst (step g (OBurnthin i nb nt) (final g ops st)) =
              match obj_burnthin nb nt x with Some y => VObj y | None => VRefused end).
  { apply (history_value_exact g ops (OBurnthin i nb nt) st i x); [reflexivity | exact Hx |].
    unfold op_value_gs, geom_for. destruct (nth_error g (s_geom x)) eqn:En; [reflexivity|].
    apply nth_error_None in En. lia. }
  rewrite E in Hv. destruct (obj_burnthin nb nt x) as [y|] eqn:Eb; [|discriminate].
  injection Hv as ->. destruct (obj_burnthin_flags _ _ _ _ Eb) as [F1 [F2 [F3 F4]]].
  repeat split; try assumption.
  - intros k d. apply burnthin_nth. exact F4.
  - apply (burnthin_length _ _ _ _ F4).
Qed.

(* the objects an operation creates are appended; nothing else happens to the state *)
Theorem step_creates g o st : snd (step g o st) = st ++ created (fst (step g o st)).
Proof. apply step_state. Qed.

(* joint burnthin: member-wise, all or nothing *)
Lemma burnthin_all_spec nb nt : forall os rs,
  burnthin_all nb nt os = Some rs -> Forall2 (fun o r => obj_burnthin nb nt o = Some r) os rs.
Proof.
  induction os as [|o os IH]; intros rs; cbn [burnthin_all].
  - intros [= <-]. constructor.
  - destruct (obj_burnthin nb nt o) as [o'|] eqn:E; [|discriminate].
    destruct (burnthin_all nb nt os) as [r'|]; [|discriminate]. intros [= <-].
    constructor; [exact E | apply IH; reflexivity].
Qed.

Theorem history_joint_exact g ops st ms nb nt xs rs :
  lookup_all st ms = Some xs -> Forall (fun x => (s_geom x < length g)%nat) xs ->
  fst (step g (OJoint ms nb nt) (final g ops st)) = VObjs rs ->
  Forall2 (fun x r => obj_burnthin nb nt x = Some r) xs rs.
Proof.
  intros Hl Hg Hv. rewrite history_value_indep in Hv.
  - unfold step in Hv. cbn [op_targets] in Hv. rewrite Hl in Hv.
    assert (Eg : op_value_gs g (OJoint ms nb nt) xs = op_value (mkG [] 1 0 false false false) (OJoint ms nb nt) xs).
    { unfold op_value_gs, geom_for. destruct xs as [|x0 xr]; [reflexivity|].
      destruct (nth_error g (s_geom x0)) eqn:En; [reflexivity|].
      apply nth_error_None in En. inversion Hg; subst. lia. }
    rewrite Eg in Hv. cbn [op_value fst] in Hv.
    destruct (burnthin_all nb nt xs) as [l|] eqn:E; [|discriminate].
    injection Hv as ->. apply burnthin_all_spec. exact E.
  - cbn [op_targets]. intros i Hi.
    pose proof (lookup_all_nth _ _ _ Hl) as F. clear -F Hi.
    induction F as [|j x ms' xs' Hj F IH]; [destruct Hi|].
    destruct Hi as [<-|Hi]; [apply nth_error_Some; congruence | apply IH; exact Hi].
Qed.

(* ---------------- the geometry comparison behind compute_rhat depends on the history ----------------
   Two default geometries that are equal; then one of them caches a lazily computed attribute
   (`_funvec_shape`, set by to_arviz_inferencedata / compute_ess / compute_rhat on vector-form function
   values): the comparison now raises in one direction and still answers "equal" in the other. *)
Import String.StringSyntax. Local Open Scope string_scope.
Theorem geometry_eq_lazy_cache_refuted :
  exists (g : list (string * Z)) (k : string) (v : Z),
    all_values_equal g g = Some true /\
    all_values_equal (dict_set k v g) g = None /\
    all_values_equal g (dict_set k v g) = Some true.
Proof. exists [("_grid", 3%Z); ("_variables", 5%Z)], "_funvec_shape", 1%Z. vm_compute. repeat split. Qed.

(* without a positive answer of the geometry comparison nothing is handed to arviz *)
Theorem rhat_value_needs_geom_eq g i js m st args :
  lookup_all st (i :: js) = Some args -> Forall (fun x => (s_geom x < length g)%nat) args ->
  fst (step g (ORhat i js false m) st) = VRefused.
Proof.
  intros H Hg. unfold step. cbn [op_targets]. rewrite H.
  destruct args as [|x ys]; [cbn in H; destruct (nth_error st i); [destruct (lookup_all st js)|]; discriminate|].
  unfold op_value_gs, geom_for. destruct (nth_error g (s_geom x)) eqn:En; [reflexivity|].
  apply nth_error_None in En. inversion Hg; subst. lia.
Qed.

(* R-hat hand-over: with validated lengths (repaired code) every chain handed to arviz is a stored chain,
   unpermuted and complete; the unrepaired code also accepts a one-draw chain and hands over a fabricated one *)
Lemma rhat_others_exact g n ys cs :
  g_rhat_bcast g = false -> rhat_others g n ys = Some cs ->
  cs = map s_chain ys /\ Forall (fun y => length (s_chain y) = n /\ s_is_vec y = true) ys.
Proof.
  intros Hb. revert cs; induction ys as [|y r IH]; intros cs; cbn [rhat_others map].
  - intros [= <-]. split; constructor.
  - unfold rhat_other at 1. rewrite Hb. cbn [andb].
    destruct (s_is_vec y) eqn:Ev; cbn [negb]; [|discriminate].
    destruct (Nat.eqb_spec (length (s_chain y)) n) as [El|]; [|discriminate].
    destruct (rhat_others g n r) as [t|]; [|discriminate]. intros [= <-].
    destruct (IH t eq_refl) as [-> F]. split; [reflexivity | constructor; [split; [exact El | exact Ev] | exact F]].
Qed.

Theorem rhat_handover_exact g x ys geq m d sq :
  g_rhat_bcast g = false -> rhat_value g x ys geq m = VRhat d sq ->
  d = dict_of (zip (g_names g) (map (fun k => map (coordchain k) (s_chain x :: map s_chain ys))
                                    (seq 0 (chain_dim (s_chain x))))) /\
  Forall (fun y => length (s_chain y) = length (s_chain x)) ys.
Proof.
  intros Hb. unfold rhat_value.
  destruct (negb geq || negb (s_is_vec x) || (g_novec g && negb (s_is_par x))); [discriminate|].
  destruct (rhat_others g (length (s_chain x)) ys) as [cs|] eqn:E; [|discriminate].
  intros [= <- _]. destruct (rhat_others_exact _ _ _ _ Hb E) as [-> F]. split; [reflexivity|].
  eapply Forall_impl; [|exact F]. cbn. intros y [H _]. exact H.
Qed.

Theorem rhat_one_draw_broadcast_refuted :
  exists g x y d sq, g_rhat_bcast g = true /\ rhat_value g x [y] true (RRank []) = VRhat d sq /\
    length (s_chain y) <> length (s_chain x) /\
    d = [("v", [[1; 2; 3; 4]; [7; 7; 7; 7]])]%Z.
Proof.
  exists (mkG ["v"] 1 0 false false true), (mkS [[1]; [2]; [3]; [4]]%Z true true 0%nat),
         (mkS [[7]]%Z true true 0%nat). eexists. eexists.
  split; [reflexivity|]. split; [vm_compute; reflexivity|]. split; [cbn; lia | reflexivity].
Qed.
