(* C15 -- optimiser route beyond quadratics: for a differentiable concave log-density, stationary points are exactly the
   maximisers; for a strongly concave one (gradient strongly monotone with modulus mu) a point whose gradient norm is
   at most tol lies within tol/mu of the maximiser.  Vectors are functions nat -> R read on the coordinates i < n
   (so every algebraic law holds without side conditions); over R, Coquelicot derivatives. *)
From Coq Require Import Reals Lra Lia.
From Coquelicot Require Import Coquelicot.
Local Open Scope R_scope.

Definition rvec := nat -> R.
Fixpoint ip (n : nat) (u v : rvec) : R := match n with O => 0 | S k => ip k u v + u k * v k end.
Definition rsub (u v : rvec) : rvec := fun i => u i - v i.
Definition rline (x d : rvec) (t : R) : rvec := fun i => x i + t * d i.
Definition rscale_add (u : rvec) (c : R) (v : rvec) : rvec := fun i => u i + c * v i.
Definition nsq (n : nat) (u : rvec) : R := ip n u u.
Definition zero_on (n : nat) (u : rvec) : Prop := forall i, (i < n)%nat -> u i = 0.

Lemma ip_ext n u u' v v' : (forall i, (i < n)%nat -> u i = u' i) -> (forall i, (i < n)%nat -> v i = v' i) ->
  ip n u v = ip n u' v'.
Proof.
  induction n as [|n IH]; intros Hu Hv; [reflexivity|]. cbn [ip].
  rewrite IH; [| intros; apply Hu; lia | intros; apply Hv; lia]. rewrite Hu, Hv by lia. reflexivity.
Qed.

Lemma ip_comm n u v : ip n u v = ip n v u.
Proof. induction n as [|n IH]; [reflexivity|]. cbn [ip]. rewrite IH. ring. Qed.

Lemma ip_zero_l n u v : zero_on n u -> ip n u v = 0.
Proof. induction n as [|n IH]; intros H; [reflexivity|]. cbn [ip]. rewrite IH by (intros i Hi; apply H; lia). rewrite H by lia. ring. Qed.

Lemma nsq_nonneg n u : 0 <= nsq n u.
Proof. unfold nsq. induction n as [|n IH]; cbn [ip]; [lra|]. pose proof (Rle_0_sqr (u n)) as S. unfold Rsqr in S. lra. Qed.

Lemma nsq_zero n u : nsq n u = 0 -> zero_on n u.
Proof.
  unfold nsq. induction n as [|n IH]; intros H i Hi; [lia|]. cbn [ip] in H.
  pose proof (nsq_nonneg n u) as P. unfold nsq in P. pose proof (Rle_0_sqr (u n)) as S. unfold Rsqr in S.
  assert (E1 : ip n u u = 0) by lra. assert (E2 : u n * u n = 0) by lra.
  destruct (Nat.eq_dec i n) as [->|Hne].
  - apply Rmult_integral in E2. destruct E2; assumption.
  - apply IH; [exact E1 | lia].
Qed.

Lemma nsq_scale_add n u c v : nsq n (rscale_add u c v) = nsq n u + 2 * c * ip n u v + c * c * nsq n v.
Proof. unfold nsq, rscale_add. induction n as [|n IH]; cbn [ip]; [ring|]. rewrite IH. ring. Qed.

Lemma ip_sub_l n u w v : ip n (rsub u w) v = ip n u v - ip n w v.
Proof. unfold rsub. induction n as [|n IH]; cbn [ip]; [ring|]. rewrite IH. ring. Qed.

(* ---- strong concavity: gradient norm <= tol  =>  distance to the maximiser <= tol / mu ---- *)
Section Strong.
Variables (n : nat) (g : rvec -> rvec) (mu : R) (xs : rvec).
Hypothesis Hmu : 0 < mu.
Hypothesis Hstat : zero_on n (g xs).                        (* xs is stationary *)
(* strong monotonicity of the gradient field at xs (what strong concavity with modulus mu gives) *)
Hypothesis Hmono : forall x, ip n (rsub (g x) (g xs)) (rsub x xs) <= - mu * nsq n (rsub x xs).

Lemma strong_sq x : mu * mu * nsq n (rsub x xs) <= nsq n (g x).
Proof.
  pose proof (Hmono x) as M. rewrite ip_sub_l in M. rewrite (ip_zero_l n (g xs) _ Hstat) in M.
  pose proof (nsq_nonneg n (rscale_add (g x) mu (rsub x xs))) as P.
  rewrite nsq_scale_add in P.
  set (G := nsq n (g x)) in *. set (D := nsq n (rsub x xs)) in *. set (I := ip n (g x) (rsub x xs)) in *.
  nra.
Qed.

Lemma strong_distance x tol : 0 <= tol -> sqrt (nsq n (g x)) <= tol -> sqrt (nsq n (rsub x xs)) <= tol / mu.
Proof.
  intros Ht Hg. pose proof (strong_sq x) as S. pose proof (nsq_nonneg n (g x)) as PG. pose proof (nsq_nonneg n (rsub x xs)) as PD.
  assert (HG : nsq n (g x) <= tol * tol).
  { rewrite <- (sqrt_sqrt (nsq n (g x)) PG). pose proof (sqrt_pos (nsq n (g x))). nra. }
  assert (HD : nsq n (rsub x xs) <= (tol / mu) * (tol / mu)).
  { assert (E : (tol / mu) * (tol / mu) = tol * tol / (mu * mu)) by (field; lra). rewrite E.
    assert (Hm : 0 < mu * mu) by nra.
    apply (Rmult_le_reg_r (mu * mu)); [exact Hm|].
    replace (tol * tol / (mu * mu) * (mu * mu)) with (tol * tol) by (field; apply Rgt_not_eq; exact Hmu).
    apply Rle_trans with (nsq n (g x)); [|exact HG]. rewrite Rmult_comm. exact S. }
  assert (T : 0 <= tol / mu) by (apply Rmult_le_pos; [exact Ht | left; apply Rinv_0_lt_compat; exact Hmu]).
  rewrite <- (sqrt_square (tol / mu) T). apply sqrt_le_1; [exact PD | nra | exact HD].
Qed.

(* in particular the stationary point is unique *)
Lemma strong_unique x : zero_on n (g x) -> zero_on n (rsub x xs).
Proof.
  intros Hx. apply nsq_zero. pose proof (strong_sq x) as S. pose proof (nsq_nonneg n (rsub x xs)) as PD.
  assert (E : nsq n (g x) = 0) by (unfold nsq; apply ip_zero_l; exact Hx).
  rewrite E in S. destruct (Rle_lt_or_eq_dec 0 _ PD) as [L|L]; [|symmetry; exact L].
  exfalso. assert (0 < mu * mu * nsq n (rsub x xs)) by (apply Rmult_lt_0_compat; [apply Rmult_lt_0_compat; exact Hmu | exact L]). lra.
Qed.
End Strong.

(* ---- concavity: stationary <=> maximiser ---- *)
Lemma max_deriv_zero (phi : R -> R) (l : R) : is_derive phi 0 l -> (forall t, phi t <= phi 0) -> l = 0.
Proof.
  intros D M. apply is_derive_Reals in D.
  assert (pr : derivable_pt phi 0) by (exists l; exact D).
  assert (E : derive_pt phi 0 pr = 0).
  { apply (deriv_maximum phi (-1) 1 0 pr); try lra. intros x _ _. apply M. }
  rewrite <- E. symmetry. apply derive_pt_eq_0. exact D.
Qed.

Section Concave.
Variables (n : nat) (f : rvec -> R) (g : rvec -> rvec).
(* first-order characterisation of concavity of the differentiable f with gradient g *)
Hypothesis Hconc : forall x y, f y <= f x + ip n (g x) (rsub y x).
(* g x is the gradient: directional derivatives along every line through x *)
Hypothesis Hgrad : forall x d, is_derive (fun t => f (rline x d t)) 0 (ip n (g x) d).
Hypothesis Hline0 : forall x d, f (rline x d 0) = f x.

Lemma stationary_is_maximiser x : zero_on n (g x) -> forall y, f y <= f x.
Proof. intros H y. pose proof (Hconc x y) as C. rewrite (ip_zero_l n (g x) _ H) in C. lra. Qed.

Lemma maximiser_is_stationary x : (forall y, f y <= f x) -> zero_on n (g x).
Proof.
  intros M. apply nsq_zero. unfold nsq.
  apply (max_deriv_zero (fun t => f (rline x (g x) t)) _ (Hgrad x (g x))).
  intros t. rewrite Hline0. apply M.
Qed.

Theorem concave_stationary_iff_maximiser x : zero_on n (g x) <-> (forall y, f y <= f x).
Proof. split; [apply stationary_is_maximiser | apply maximiser_is_stationary]. Qed.
End Concave.

(* non-vacuity: f(x) = -(x_0 - 1)^2 on one coordinate: concave, gradient -2(x_0 - 1), strongly monotone with mu = 2 *)
Definition ex_f (x : rvec) : R := - ((x 0%nat - 1) * (x 0%nat - 1)).
Definition ex_g (x : rvec) : rvec := fun _ => - 2 * (x 0%nat - 1).
Definition ex_xs : rvec := fun _ => 1.

Lemma concave_example :
  (forall x y, ex_f y <= ex_f x + ip 1 (ex_g x) (rsub y x)) /\
  (forall x d, is_derive (fun t => ex_f (rline x d t)) 0 (ip 1 (ex_g x) d)) /\
  (forall x d, ex_f (rline x d 0) = ex_f x) /\
  zero_on 1 (ex_g ex_xs) /\
  (forall x, ip 1 (rsub (ex_g x) (ex_g ex_xs)) (rsub x ex_xs) <= - 2 * nsq 1 (rsub x ex_xs)).
Proof.
  split; [|split; [|split; [|split]]].
  - intros x y. unfold ex_f, ex_g, rsub. cbn [ip]. pose proof (Rle_0_sqr (y 0%nat - x 0%nat)) as S. unfold Rsqr in S. lra.
  - intros x d. unfold ex_f, ex_g, rline. cbn [ip]. auto_derive; [exact I|]. ring.
  - intros x d. unfold ex_f, rline. f_equal. ring.
  - intros i Hi. unfold ex_g, ex_xs. ring.
  - intros x. unfold ex_g, ex_xs, rsub, nsq. cbn [ip]. apply Req_le. ring.
Qed.
