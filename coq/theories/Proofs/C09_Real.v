(* C09 -- facts about the model's kernels for the real samplers (Model/C09_Gibbs.v: KConj, gradq) *)
From CV Require Import Base.Tac Base.Cmp Model.C09_Gibbs.
From Coq Require Import QArith Qfield.
Local Open Scope Q_scope.

(* Conjugate: when the target of a scalar block is  t [p] = c - B p  (+ terms that do not depend on p), the rate the model
   reads off the target is B and its draw from the scripted standard variate z is z / B *)
Lemma conj_rate (t : vec -> Q) (B c p0 : Q) :
  (forall p, t [p] == c - B * p) -> ~ p0 == 0 -> (t [p0] - t [2 * p0]) / p0 == B.
Proof. intros Ht Hp. rewrite !Ht. field. exact Hp. Qed.

Lemma conj_draw (t : vec -> Q) (B c p0 z : Q) :
  (forall p, t [p] == c - B * p) -> ~ p0 == 0 -> ~ B == 0 ->
  z / ((t [p0] - t [2 * p0]) / p0) == z / B.
Proof. intros Ht Hp HB. rewrite (conj_rate t B c p0 Ht Hp). reflexivity. Qed.

(* central differences are exact along every coordinate line on which the target is a quadratic polynomial *)
Lemma central_diff_exact (f : Q -> Q) (f0 g a h : Q) :
  (forall d, f d == f0 + g * d + a * d * d) -> ~ h == 0 -> (f h - f (- h)) / (2 * h) == g.
Proof. intros Hf Hh. rewrite !Hf. field. exact Hh. Qed.

Lemma gradq_entry (t : vec -> Q) (h : Q) (p : vec) (j : nat) : (j < length p)%nat ->
  nth_error (gradq t h p) j = Some (Qred ((t (bump p j h) - t (bump p j (- h))) / (2 * h))).
Proof.
  intros Hj. unfold gradq. rewrite nth_error_map, nth_error_nth' with (d := O) by (now rewrite seq_length).
  rewrite seq_nth by exact Hj. reflexivity.
Qed.

Theorem gradq_exact (t : vec -> Q) (h : Q) (p : vec) (j : nat) (g a : Q) :
  (j < length p)%nat -> ~ h == 0 ->
  (forall d, t (bump p j d) == t (bump p j 0) + g * d + a * d * d) ->
  exists v, nth_error (gradq t h p) j = Some v /\ v == g.
Proof.
  intros Hj Hh Hq. eexists. split; [apply gradq_entry; exact Hj|].
  rewrite Qred_correct. apply (central_diff_exact (fun d => t (bump p j d)) (t (bump p j 0)) g a h Hq Hh).
Qed.
