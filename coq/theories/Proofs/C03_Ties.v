(* C03 -- two links between the executable model (Qc / Q) and the real-valued theorems that were held by correspondence only:
   (1) the full-covariance Lognormal prior: Model/C03_GradQ.v's lognormal_grad / lognormal_logk and the real-valued
       rlognormal_grad / rlognormal_logk of C03_lognormal_full are ONE generic-ring definition (ln x enters as the vector lx:
       a certificate at Qc, map ln x at R);
   (2) the forward-difference quotient: Q2R of the model's fd_quot is fd_coord of the real-valued FD theorem. *)
From CV Require Import Base.Tac Base.LinAlg Base.QcLin Model.C03_GradR Model.C03_GradQ Proofs.C03_GradR Proofs.C03_Quad Proofs.C03_QuadR
     Proofs.C03_GradQ Proofs.C03_LikGen Proofs.C03_Lik Proofs.C03_Sym Proofs.C03_SymR.
From Coq Require Import Reals Lra QArith Qcanon Qreals.

Section GLognormal.
Variable A : Type.
Variables (a0 : A) (add mul sub : A -> A -> A) (opp inv : A -> A) (one hf : A).
Definition glognormal_grad (P : list (list A)) (m x lx : list A) : list A :=
  gvmul A mul (map inv x) (map (fun g => sub g one) (gquad_grad A a0 add mul sub opp P m lx)).
Definition glognormal_logk (P : list (list A)) (m lx : list A) : A :=
  sub (gquad_logk A a0 add mul sub opp hf P m lx) (fold_right add a0 lx).
End GLognormal.

Theorem lognormal_model_is_generic (P : list (list Qc)) (m x lx : list Qc) :
  lognormal_grad P m x lx = glognormal_grad Qc 0%Qc Qcplus Qcmult Qcminus Qcopp Qcinv 1%Qc P m x lx /\
  lognormal_logk P m lx = glognormal_logk Qc 0%Qc Qcplus Qcmult Qcminus Qcopp C03_GradQ.half P m lx.
Proof.
  split.
  - unfold lognormal_grad, glognormal_grad, qvinv. rewrite vmul_generic. reflexivity.
  - reflexivity.
Qed.

Lemma rsum_fold (l : list R) : rsum l = fold_right Rplus 0%R l.
Proof. induction l as [|a l IH]; cbn; [reflexivity | rewrite IH; reflexivity]. Qed.

Theorem lognormal_real_is_generic (P : list (list R)) (m x : list R) :
  rlognormal_grad P m x = glognormal_grad R 0%R Rplus Rmult Rminus Ropp Rinv 1%R P m x (map ln x) /\
  rlognormal_logk P m x = glognormal_logk R 0%R Rplus Rmult Rminus Ropp (/ 2)%R P m (map ln x).
Proof.
  split; [reflexivity|]. unfold rlognormal_logk, glognormal_logk. rewrite rsum_fold. reflexivity.
Qed.

(* ---------- forward differences ---------- *)
Theorem fd_quot_is_fd_coord (F : list R -> R) (xs : list R) (eps f0 fi : Q) (i : nat) :
  ~ (eps == 0)%Q -> Q2R f0 = F xs -> Q2R fi = F (bump i (Q2R eps) xs) ->
  Q2R (fd_quot eps f0 fi) = fd_coord F xs (Q2R eps) i.
Proof.
  intros He H0 Hi. unfold fd_quot, fd_coord. rewrite Q2R_div by exact He. rewrite Q2R_minus, H0, Hi. reflexivity.
Qed.
