(* C15 -- optimiser route beyond quadratic posteriors (over R; vectors = functions nat -> R read on i < n;
   ip n = inner product, nsq n = squared norm, zero_on n u = "u vanishes on the n coordinates").
   What _solve_max_point relies on: scipy stops where the gradient norm is below its tolerance.  These theorems say
   what such a point is FOR EVERY log-density with the stated concavity -- not only the quadratic ones of C15_optimiser_partial.
   C15_gauss_plus_concave_maximiser (round 5) removes the hypothesis "the gradient field is strongly monotone" for the posteriors the
   optimiser route is used on: Gaussian likelihood with a log-concave prior.  There it is PROVED from the shape of the density
   (exact second-order expansion of the quadratic part + first-order inequality of the concave part), and the curvature bound
   A^T Pe A >= mu I is decided on the instance that runs by the model's checked certificate (check_opt_stop in Model/C15_MAP.v).
   Still not proved (and the reason the MAP/ML clause stays partial): that scipy's iteration reaches a point passing its stopping
   test (the harness checks on every optimiser cell that the point it returned passes it, with the model's exact gradient), and that the
   finite-difference gradient it may be given is the gradient. *)
From Coq Require Import Reals Lra.
From Coquelicot Require Import Coquelicot.
From CV Require Import Proofs.C15_Concave Proofs.C15_StrongQ Proofs.C15_Priors.
Local Open Scope R_scope.

(* concave differentiable log-density: the stationary points are exactly the global maximisers *)
Theorem C15_concave_stationary_iff_maximiser :
  forall (n : nat) (f : rvec -> R) (g : rvec -> rvec),
  (forall x y, f y <= f x + ip n (g x) (rsub y x)) ->
  (forall x d, is_derive (fun t => f (rline x d t)) 0 (ip n (g x) d)) ->
  (forall x d, f (rline x d 0) = f x) ->
  forall x, zero_on n (g x) <-> (forall y, f y <= f x).
Proof. exact concave_stationary_iff_maximiser. Qed.
Print Assumptions C15_concave_stationary_iff_maximiser.

(* strongly concave (gradient strongly monotone around the stationary point xs, modulus mu):
   |grad(x)| <= tol  =>  |x - xs| <= tol / mu;  in squared form without square roots; the stationary point is unique *)
Theorem C15_strongly_concave_distance :
  forall (n : nat) (g : rvec -> rvec) (mu : R) (xs : rvec),
  0 < mu -> zero_on n (g xs) ->
  (forall x, ip n (rsub (g x) (g xs)) (rsub x xs) <= - mu * nsq n (rsub x xs)) ->
  forall x,
    mu * mu * nsq n (rsub x xs) <= nsq n (g x) /\
    (forall tol, 0 <= tol -> sqrt (nsq n (g x)) <= tol -> sqrt (nsq n (rsub x xs)) <= tol / mu) /\
    (zero_on n (g x) -> zero_on n (rsub x xs)).
Proof.
  intros n g mu xs Hmu Hs Hm x. split; [exact (strong_sq n g mu xs Hmu Hs Hm x)|].
  split; [intros tol; exact (strong_distance n g mu xs Hmu Hs Hm x tol) | exact (strong_unique n g mu xs Hmu Hs Hm x)].
Qed.
Print Assumptions C15_strongly_concave_distance.

(* non-vacuity: f(x) = -(x_0 - 1)^2 meets every hypothesis of both theorems (mu = 2) *)
Example C15_concave_example :
  (forall x y, ex_f y <= ex_f x + ip 1 (ex_g x) (rsub y x)) /\
  (forall x d, is_derive (fun t => ex_f (rline x d t)) 0 (ip 1 (ex_g x) d)) /\
  (forall x d, ex_f (rline x d 0) = ex_f x) /\
  zero_on 1 (ex_g ex_xs) /\
  (forall x, ip 1 (rsub (ex_g x) (ex_g ex_xs)) (rsub x ex_xs) <= - 2 * nsq 1 (rsub x ex_xs)).
Proof. exact concave_example. Qed.

(* Gaussian likelihood N(A x, Pe^-1) + log-concave prior exp(h) (h concave with (super)gradient gh and modulus mh >= 0 --
   mh = 0 for merely log-concave priors, mh = lambda_min(Px) for a Gaussian prior), curvature A^T Pe A >= mu I, M = mu + mh > 0:
   for every stationary point xs of the posterior log-density f = fpost (gradient g = gpost)
     (1) f(y) <= f(xs) - M/2 |y - xs|^2 for every y: xs is a maximiser and every other point has a strictly smaller value;
     (2) a point whose log-density is at least f(xs) is xs;
     (3) M^2 |x - xs|^2 <= |g(x)|^2, and |g(x)| <= tol implies |x - xs| <= tol / M;
     (4) sup f - f(x) <= |g(x)|^2 / (2 M);
     (5) scipy's BFGS test max_i |g(x)_i| <= tol implies |x - xs| <= sqrt(n) tol / M;
     (6) the gradient field is strongly monotone with modulus M (the hypothesis of C15_strongly_concave_distance, proved). *)
Theorem C15_gauss_plus_concave_maximiser :
  forall (m n : nat) (A Pe : rmat) (b : rvec) (h : rvec -> R) (gh : rvec -> rvec) (mu mh : R),
  sym_on m Pe ->
  (forall v, mu * nsq n v <= qf Pe m (mv A n v)) ->
  (forall x y, h y <= h x + ip n (gh x) (rsub y x) - mh / 2 * nsq n (rsub y x)) ->
  0 < mu + mh ->
  forall xs, zero_on n (gpost m n A Pe b gh xs) ->
  let f := fpost m n A Pe b h in let g := gpost m n A Pe b gh in let M := mu + mh in
  ((forall y, f y <= f xs - M / 2 * nsq n (rsub y xs)) /\
  (forall y, f xs <= f y -> zero_on n (rsub y xs)) /\
  (forall x, M * M * nsq n (rsub x xs) <= nsq n (g x)) /\
  (forall x tol, 0 <= tol -> sqrt (nsq n (g x)) <= tol -> sqrt (nsq n (rsub x xs)) <= tol / M) /\
  (forall x, f xs - f x <= nsq n (g x) / (2 * M)) /\
  (forall x tol, 0 <= tol -> (forall i, (i < n)%nat -> Rabs (g x i) <= tol) -> sqrt (nsq n (rsub x xs)) <= sqrt (INR n) * tol / M) /\
  (forall x y, ip n (rsub (g x) (g y)) (rsub x y) <= - M * nsq n (rsub x y)))%type.
Proof.
  intros m n A Pe b h gh mu mh HP HC HH HM xs Hs f g M.
  split; [exact (post_max m n A Pe b h gh mu mh HP HC HH xs Hs)|].
  split; [exact (post_max_unique m n A Pe b h gh mu mh HP HC HH HM xs Hs)|].
  split; [exact (post_sq m n A Pe b h gh mu mh HP HC HH HM xs Hs)|].
  split; [exact (post_distance m n A Pe b h gh mu mh HP HC HH HM xs Hs)|].
  split; [exact (post_gap m n A Pe b h gh mu mh HP HC HH HM xs)|].
  split; [exact (post_distance_maxnorm m n A Pe b h gh mu mh HP HC HH HM xs Hs)|].
  exact (post_monotone m n A Pe b h gh mu mh HP HC HH).
Qed.
Print Assumptions C15_gauss_plus_concave_maximiser.

(* the pieces the theorem rests on, for the same f and g: the exact expansion of the Gaussian log-likelihood (so glik IS its
   gradient and -A^T Pe A its Hessian) *)
Theorem C15_loglik_expansion :
  forall (m n : nat) (A Pe : rmat) (b : rvec), sym_on m Pe -> forall x y,
  loglik m n A Pe b y = loglik m n A Pe b x + ip n (glik m n A Pe b x) (rsub y x) - 1 / 2 * qf Pe m (mv A n (rsub y x)).
Proof. exact loglik_expansion. Qed.
Print Assumptions C15_loglik_expansion.

(* FINITE DIFFERENCES.  When the density has no gradient _solve_max_point hands none over and SciPy forms forward differences
   (f(x + t e_i) - f(x)) / t.  For the Gaussian log-likelihood (any A, symmetric Pe, data b -- a Gaussian prior is one more block of
   rows) this quotient is the gradient component minus EXACTLY (t/2) (A^T Pe A)_ii; along any direction d it is the directional
   derivative minus (t/2) d^T A^T Pe A d.  Hence a stopping test passed by the finite-difference gradient bounds the true
   gradient: |fd_i| <= tol and |(A^T Pe A)_ii| <= K give |g_i| <= tol + |t| K / 2, and C15_gauss_plus_concave_maximiser (5) then
   bounds the distance to the maximiser.  (This closes "the finite-difference gradient is the gradient" for quadratic
   log-densities; for non-quadratic priors it remains unproved.) *)
Theorem C15_finite_difference_gradient :
  forall (m n : nat) (A Pe : rmat) (b : rvec), sym_on m Pe ->
  forall (x : rvec) (t : R), t <> 0 ->
  (forall d, (loglik m n A Pe b (rline x d t) - loglik m n A Pe b x) / t = ip n (glik m n A Pe b x) d - t / 2 * qf Pe m (mv A n d)) /\
  (forall i, (i < n)%nat ->
     (loglik m n A Pe b (rline x (unitv i) t) - loglik m n A Pe b x) / t = glik m n A Pe b x i - t / 2 * qf Pe m (mv A n (unitv i))) /\
  (forall i tol K, (i < n)%nat ->
     Rabs ((loglik m n A Pe b (rline x (unitv i) t) - loglik m n A Pe b x) / t) <= tol ->
     Rabs (qf Pe m (mv A n (unitv i))) <= K ->
     Rabs (glik m n A Pe b x i) <= tol + Rabs t * K / 2).
Proof.
  intros m n A Pe b HP x t Ht. split; [intros d; exact (fd_quotient m n A Pe b HP x d t Ht)|].
  split; [intros i Hi; exact (fd_component m n A Pe b HP x i t Ht Hi)|].
  intros i tol K Hi. exact (fd_test_bounds_gradient m n A Pe b HP x i t tol K Ht Hi).
Qed.
Print Assumptions C15_finite_difference_gradient.

(* THE CONCAVITY HYPOTHESIS, PROVED for the prior classes the optimiser cells run (so that C15_gauss_plus_concave_maximiser applies to
   those posteriors with no assumption on the prior left):
   (1) quadratic log-priors -1/2 (D x - c)^T P (D x - c) -- Gaussian (D = I, P = prior precision, c = prior mean) and GMRF
       (D = difference operator, P = prec I, c = D mean): modulus mh whenever D^T P D >= mh I, in particular 0 for every
       positive semi-definite P;
   (2) SmoothedLaplace as coded, h(x) = const - sum_i w_i sqrt((x_i - loc_i)^2 + beta), w_i = 1/scale_i >= 0, beta > 0, with the
       gradient coded in SmoothedLaplace.gradient: modulus 0; and that coded gradient is the derivative of the coded logpdf. *)
Theorem C15_prior_classes_concave :
  (forall (k n : nat) (D P : rmat) (c : rvec) (mh : R), sym_on k P -> (forall v, mh * nsq n v <= qf P k (mv D n v)) ->
     forall x y, loglik k n D P c y <= loglik k n D P c x + ip n (glik k n D P c x) (rsub y x) - mh / 2 * nsq n (rsub y x)) /\
  (forall (k n : nat) (D P : rmat) (c : rvec), sym_on k P -> (forall w, 0 <= qf P k w) ->
     forall x y, loglik k n D P c y <= loglik k n D P c x + ip n (glik k n D P c x) (rsub y x) - 0 / 2 * nsq n (rsub y x)) /\
  (forall (n : nat) (loc w : rvec) (beta : R), 0 < beta -> (forall i, (i < n)%nat -> 0 <= w i) ->
     forall x y, slap n loc w beta y <= slap n loc w beta x + ip n (gslap loc w beta x) (rsub y x) - 0 / 2 * nsq n (rsub y x)) /\
  (forall (beta loc t : R), 0 < beta ->
     is_derive (fun s => - sqrt ((s - loc) * (s - loc) + beta)) t (- ((t - loc) / sqrt ((t - loc) * (t - loc) + beta)))).
Proof.
  split; [exact quadratic_prior_concave|]. split; [exact quadratic_prior_concave0|].
  split; [exact slap_concave | exact sl_scalar_derive].
Qed.
Print Assumptions C15_prior_classes_concave.

(* (3) the NON-smooth Laplace prior h(x) = const - sum_i w_i |x_i - loc_i| meets the same first-order inequality with the supergradient
   selection -w_i sgn(x_i - loc_i): the posteriors of the finding ..|nonsmooth-prior:bfgs-finite-differences ARE strongly concave whenever
   A^T Pe A >= mu I > 0 - they have a unique maximiser and every conclusion of C15_gauss_plus_concave_maximiser holds for a point where
   this supergradient selection of the posterior vanishes; what fails there is BFGS on finite differences, not unimodality. *)
Theorem C15_laplace_prior_concave :
  forall (n : nat) (loc w : rvec), (forall i, (i < n)%nat -> 0 <= w i) ->
  forall x y, lap n loc w y <= lap n loc w x + ip n (glap loc w x) (rsub y x) - 0 / 2 * nsq n (rsub y x).
Proof. exact lap_concave. Qed.
Print Assumptions C15_laplace_prior_concave.

(* (4) composition with a linear map keeps the inequality: x |-> h(D x) with (super)gradient D^T gh(D x); hence LMRF
   (h = Laplace o difference operator D, as coded: -sum_i w |(D x)_i - loc_i|) is covered as well *)
Theorem C15_lmrf_prior_concave :
  (forall (k n : nat) (D : rmat) (h : rvec -> R) (gh : rvec -> rvec),
     (forall u v, h v <= h u + ip k (gh u) (rsub v u) - 0 / 2 * nsq k (rsub v u)) ->
     forall x y, h (mv D n y) <= h (mv D n x) + ip n (mtv D k (gh (mv D n x))) (rsub y x) - 0 / 2 * nsq n (rsub y x)) /\
  (forall (k n : nat) (D : rmat) (loc w : rvec), (forall i, (i < k)%nat -> 0 <= w i) ->
     forall x y, lap k loc w (mv D n y) <= lap k loc w (mv D n x) + ip n (mtv D k (glap loc w (mv D n x))) (rsub y x) - 0 / 2 * nsq n (rsub y x)).
Proof. split; [exact compose_linear_concave | exact lmrf_concave]. Qed.
Print Assumptions C15_lmrf_prior_concave.

(* non-vacuity of the chain with a SmoothedLaplace prior (A = 1, Pe = 1, data 1, loc 0, scale 1, beta = 3/4, mu = 1, mh = 0, xs = 1/2):
   every hypothesis of C15_gauss_plus_concave_maximiser holds, the concavity one by C15_prior_classes_concave (3) *)
Example C15_smoothed_laplace_example :
  sym_on 1 slPe /\
  (forall v, 1 * nsq 1 v <= qf slPe 1 (mv slA 1 v)) /\
  (forall x y, slap 1 slloc slw (3 / 4) y <= slap 1 slloc slw (3 / 4) x + ip 1 (gslap slloc slw (3 / 4) x) (rsub y x) - 0 / 2 * nsq 1 (rsub y x)) /\
  0 < 1 + 0 /\
  zero_on 1 (gpost 1 1 slA slPe slb (gslap slloc slw (3 / 4)) slxs).
Proof. exact smoothed_laplace_example. Qed.

(* non-vacuity with a NON-quadratic log-concave prior: A = 1, Pe = 2, data 3, h(x) = -x^4, mu = 2, mh = 0, xs = 1 *)
Example C15_gauss_plus_concave_example :
  sym_on 1 exPe /\
  (forall v, 2 * nsq 1 v <= qf exPe 1 (mv exA 1 v)) /\
  (forall x y, exh y <= exh x + ip 1 (exgh x) (rsub y x) - 0 / 2 * nsq 1 (rsub y x)) /\
  0 < 2 + 0 /\
  zero_on 1 (gpost 1 1 exA exPe exb exgh exxs).
Proof. exact strongq_example. Qed.
