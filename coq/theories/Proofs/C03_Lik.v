(* C03 -- the likelihood gradient of the executable model is the derivative of its log-likelihood:
   glik_logk / glik_grad (Proofs/C03_LikGen.v: the generic form of Model/C03_GradQ.v's lik_logk / lik_grad) at the
   ring R, through the abstract chain rule of Proofs/C03_QuadR.v.  Every size, every polynomial forward model
   F(u) = A (u.u) + B u, every quadratic elementwise geometry, every symmetric precision. *)
From CV Require Import Base.Tac Base.LinAlg Model.C03_GradR Proofs.C03_GradR Proofs.C03_Quad Proofs.C03_QuadR Proofs.C03_LikGen.
From Coq Require Import Reals Lra RealField.
From Coquelicot Require Import Coquelicot.
Open Scope R_scope.

Definition rvmul := gvmul R Rmult.
Definition rfwd := gfwd R 0 Rplus Rmult.
Definition rjact := gjact R 0 Rplus Rmult 2.
Definition rgeo_fun := ggeo_fun R Rplus Rmult.
Definition rgeo_dfun := ggeo_dfun R Rplus Rmult 2.
Definition rlik_grad := glik_grad R 0 Rplus Rmult Rminus 2.
Definition rlik_logk := glik_logk R 0 Rplus Rmult Rminus Ropp (/ 2).

Notation Rring := (R) (only parsing).
Local Notation LA lemma := (lemma R 0 1 Rplus Rmult Rminus Ropp RTheory) (only parsing).

(* ---------- elementwise products ---------- *)
Lemma rvmul_length : forall x y, length x = length y -> length (rvmul x y) = length x.
Proof. induction x as [|a x IH]; intros [|b y] H; cbn in *; try lia. f_equal. apply IH. lia. Qed.

Lemma rdot_vmul_shift : forall a b c, rdot (rvmul a b) c = rdot b (rvmul a c).
Proof.
  induction a as [|x a IH]; intros b c.
  - cbn. destruct b; reflexivity.
  - destruct b as [|y b]; [reflexivity|]. destruct c as [|z c]; [reflexivity|].
    change (x * y * z + rdot (rvmul a b) c = y * (x * z) + rdot b (rvmul a c)). rewrite IH. ring.
Qed.

Lemma rdot_comm x y : rdot x y = rdot y x.
Proof. apply (dot_comm R 0 1 Rplus Rmult Rminus Ropp RTheory). Qed.

(* ---------- the line theta + t d through the geometry ---------- *)
Fixpoint uline (ga gb gc : R) (th d : list R) : list (R -> R) :=
  match th, d with
  | a :: th', b :: d' => (fun t => ga * (a + t * b) * (a + t * b) + gb * (a + t * b) + gc) :: uline ga gb gc th' d'
  | _, _ => []
  end.

Lemma uline_eval ga gb gc : forall th d t, length d = length th ->
  veval (uline ga gb gc th d) t = rgeo_fun ga gb gc (rvadd th (rvscale t d)).
Proof. induction th as [|a th IH]; intros [|b d] t H; cbn in *; try lia; try reflexivity. f_equal. apply IH. lia. Qed.

Lemma uline_derive ga gb gc : forall th d, length d = length th ->
  vderive (uline ga gb gc th d) 0 (rvmul (rgeo_dfun ga gb th) d).
Proof.
  induction th as [|a th IH]; intros [|b d] H; cbn in *; try lia; try exact I.
  split; [|apply IH; lia]. auto_derive; [exact I | ring].
Qed.

Lemma uline_length ga gb gc : forall th d, length d = length th -> length (uline ga gb gc th d) = length th.
Proof. induction th as [|a th IH]; intros [|b d] H; cbn in *; try lia. f_equal. apply IH. lia. Qed.

(* squares of the components *)
Definition sqs (us : list (R -> R)) : list (R -> R) := map (fun u => fun t => u t * u t) us.

Lemma sqs_eval : forall us t, veval (sqs us) t = rvmul (veval us t) (veval us t).
Proof. induction us as [|u us IH]; intros t; cbn; [reflexivity|]. f_equal. apply IH. Qed.

Lemma sqs_derive : forall us x dus, vderive us x dus ->
  vderive (sqs us) x (rvmul (rvscale 2 (veval us x)) dus).
Proof.
  induction us as [|u us IH]; intros x [|du dus] H; cbn in *; try tauto.
  destruct H as [H1 H2]. split; [|apply IH; exact H2].
  assert (Hm : is_derive (fun t => u t * u t) x (du * u x + u x * du)).
  { apply (is_derive_mult u u x du du H1 H1). intros a b. apply Rmult_comm. }
  apply (is_derive_eq _ x _ _ Hm). ring.
Qed.

(* components of F along the line: row_A . (u.u) + row_B . u *)
Definition Fline (A B : list (list R)) (us : list (R -> R)) : list (R -> R) :=
  map (fun ab => fun t => rdot (fst ab) (veval (sqs us) t) + rdot (snd ab) (veval us t)) (combine A B).

Lemma Fline_eval us t : forall A B, length A = length B ->
  veval (Fline A B us) t = rvadd (rmatvec A (veval (sqs us) t)) (rmatvec B (veval us t)).
Proof.
  induction A as [|ra A IH]; intros [|rb B] H; cbn in *; try lia; try reflexivity.
  f_equal. apply IH. lia.
Qed.

Lemma Fline_derive us x du duu : vderive us x du -> vderive (sqs us) x duu ->
  forall A B, length A = length B ->
  vderive (Fline A B us) x (rvadd (rmatvec A duu) (rmatvec B du)).
Proof.
  intros Hu Huu. induction A as [|ra A IH]; intros [|rb B] H; cbn in *; try lia; try exact I.
  split; [|apply IH; lia].
  apply (is_derive_plus (fun t => rdot ra (veval (sqs us) t)) (fun t => rdot rb (veval us t)) x _ _
           (row_derive ra (sqs us) x duu Huu) (row_derive rb us x du Hu)).
Qed.

Lemma Fline_length A B us : length A = length B -> length (Fline A B us) = length A.
Proof. intros H. unfold Fline. rewrite map_length, combine_length. lia. Qed.

Lemma resid_eval : forall b Fs t, length b = length Fs -> veval (resid b Fs) t = rvsub b (veval Fs t).
Proof. induction b as [|bk b IH]; intros [|f Fs] t H; cbn in *; try lia; try reflexivity. f_equal. apply IH. lia. Qed.

Lemma rvadd_zero_line : forall th d, length d = length th -> rvadd th (rvscale 0 d) = th.
Proof. induction th as [|a th IH]; intros [|b d] H; cbn in *; try lia; try reflexivity. f_equal; [ring | apply IH; lia]. Qed.

Lemma rgeo_fun_length ga gb gc th : length (rgeo_fun ga gb gc th) = length th.
Proof. apply map_length. Qed.
Lemma rgeo_dfun_length ga gb th : length (rgeo_dfun ga gb th) = length th.
Proof. apply map_length. Qed.

(* ---------- the theorem on the model's own formulas ---------- *)
Theorem lik_model_derive (n k : nat) (A B P : list (list R)) (ga gb gc : R) (data th d : list R) :
  wf_mat n A -> wf_mat n B -> length A = k -> length B = k ->
  wf_mat k P -> length P = k -> rsym_form k P ->
  length data = k -> length th = n -> length d = n ->
  is_derive (fun t => rlik_logk A B ga gb gc P data (rvadd th (rvscale t d))) 0
            (rdot (rlik_grad A B ga gb gc P data th) d).
Proof.
  intros HA HB HAk HBk HP HPk Hs Hdat Hth Hd.
  set (us := uline ga gb gc th d).
  assert (Hdl : length d = length th) by lia.
  assert (Hus : vderive us 0 (rvmul (rgeo_dfun ga gb th) d)) by (apply uline_derive; exact Hdl).
  assert (Huus := sqs_derive us 0 _ Hus).
  assert (HAB : length A = length B) by lia.
  assert (HF := Fline_derive us 0 _ _ Hus Huus A B HAB).
  set (Fs := Fline A B us) in *.
  assert (HFl : length Fs = k) by (unfold Fs; rewrite Fline_length; lia).
  set (du := rvmul (rgeo_dfun ga gb th) d) in *.
  set (duu := rvmul (rvscale 2 (veval us 0)) du) in *.
  set (Jd := rvadd (rmatvec A duu) (rmatvec B du)) in *.
  assert (Hchain := likelihood_chain_derive k P data Fs Jd HP HPk Hs Hdat HFl HF).
  (* the function is the model's log-likelihood along the line *)
  assert (Hfun : forall t, - (/ 2 * rdot (veval (resid data Fs) t) (rmatvec P (veval (resid data Fs) t))) =
                           rlik_logk A B ga gb gc P data (rvadd th (rvscale t d))).
  { intros t. unfold rlik_logk, glik_logk. fold rdot.
    rewrite resid_eval by lia. unfold Fs. rewrite Fline_eval by exact HAB.
    rewrite sqs_eval. unfold us. rewrite uline_eval by exact Hdl. reflexivity. }
  apply (is_derive_ext _ _ 0 _ Hfun).
  apply (is_derive_eq _ 0 _ _ Hchain).
  (* <P r0, Jd> = <lik_grad, d> *)
  assert (Hu0 : veval us 0 = rgeo_fun ga gb gc th).
  { unfold us. rewrite uline_eval by exact Hdl. rewrite rvadd_zero_line by exact Hdl. reflexivity. }
  assert (Hr0 : veval (resid data Fs) 0 = rvsub data (rfwd A B (rgeo_fun ga gb gc th))).
  { rewrite resid_eval by lia. unfold Fs. rewrite Fline_eval by exact HAB. rewrite sqs_eval, Hu0. reflexivity. }
  rewrite Hr0. unfold rlik_grad, glik_grad. rewrite Hth.
  fold rgeo_fun rgeo_dfun rfwd rjact rvmul rmatvec rvsub.
  set (u0 := rgeo_fun ga gb gc th) in *.
  set (w := rmatvec P (rvsub data (rfwd A B u0))).
  assert (Hu0l : length u0 = n) by (unfold u0; rewrite rgeo_fun_length; exact Hth).
  assert (Hdul : length du = n).
  { unfold du. rewrite rvmul_length; rewrite rgeo_dfun_length; lia. }
  assert (Hduul : length duu = n).
  { unfold duu. rewrite Hu0. rewrite rvmul_length; unfold rvscale; rewrite vscale_length; lia. }
  unfold Jd.
  assert (HlA : length (rmatvec A duu) = length (rmatvec B du)) by (unfold rmatvec; rewrite !matvec_length; exact HAB).
  unfold rdot at 1. unfold rvadd.
  rewrite (dot_vadd_r R 0 1 Rplus Rmult Rminus Ropp RTheory w _ _ HlA). fold rdot.
  rewrite (rdot_comm w (rmatvec A duu)), (rdot_comm w (rmatvec B du)).
  unfold rdot, rmatvec.
  rewrite (adjoint_identity R 0 1 Rplus Rmult Rminus Ropp RTheory n A duu w HA Hduul).
  rewrite (adjoint_identity R 0 1 Rplus Rmult Rminus Ropp RTheory n B du w HB Hdul).
  fold rdot rmatvec rmattvec.
  (* right-hand side *)
  rewrite (rdot_vmul_shift (rgeo_dfun ga gb th) (rjact n A B u0 w) d). fold du.
  unfold rjact, gjact. fold rmattvec rvmul.
  change (vscale Rmult 2 u0) with (rvscale 2 u0).
  assert (Hl1 : length (rvmul (rvscale 2 u0) (rmattvec n A w)) = length (rmattvec n B w)).
  { rewrite rvmul_length; unfold rvscale, rmattvec; rewrite ?vscale_length, ?mattvec_length by assumption; lia. }
  unfold rdot at 3. rewrite (dot_vadd_l R 0 1 Rplus Rmult Rminus Ropp RTheory _ _ _ Hl1). fold rdot.
  rewrite (rdot_vmul_shift (rvscale 2 u0) (rmattvec n A w) du).
  assert (Hduu : duu = rvmul (rvscale 2 u0) du) by (unfold duu; rewrite Hu0; reflexivity).
  rewrite <- Hduu.
  rewrite (rdot_comm duu), (rdot_comm du). reflexivity.
Qed.
