(* C16 -- CGLS in exact arithmetic: the classical conjugate-gradient invariants for ALL iterations, and finite
   termination.  Carrier: a commutative ring embedded order-reflectingly in R with a compatible division (Qc, R);
   fwd/adj linear with adj the exact adjoint (matrix form: Proofs/C16_LMfull.v matrix_adjoint_pair); the system
   A^T A + shift I positive definite on R^n (hypothesis PD).  As long as the normal-equation residuals s_0..s_{K-1}
   are non-zero:
       <s_i, s_j> = 0   and   <A p_i, A p_j> + shift <p_i, p_j> = <p_i, H p_j> = 0     for all i < j <= K,
   and therefore some s_k with k <= n vanishes: the iteration reaches the exact solution of
   (A^T A + shift I) x = A^T b after at most n steps. *)
From CV Require Import Base.Tac Base.LinAlg Model.C16_Solve Proofs.C16_CG Proofs.C16_Mono Proofs.C16_Grad Proofs.C16_Dim.
From Coq Require Import Reals Lra Ring Sorting.Sorted.
Local Open Scope R_scope.

Section Conj.
Variable T : Type.
Variables (t0 t1 : T) (tadd tmul tsub : T -> T -> T) (topp : T -> T).
Hypothesis Tth : ring_theory t0 t1 tadd tmul tsub topp (@eq T).
Add Ring TringC : Tth.
Variable tdiv : T -> T -> T.
Variable tleb : T -> T -> bool.
Variable teps : T.
Variable phi : T -> R.
Hypothesis phi_0 : phi t0 = 0.
Hypothesis phi_1 : phi t1 = 1.
Hypothesis phi_add : forall a b, phi (tadd a b) = phi a + phi b.
Hypothesis phi_mul : forall a b, phi (tmul a b) = phi a * phi b.
Hypothesis phi_sub : forall a b, phi (tsub a b) = phi a - phi b.
Hypothesis phi_leb : forall a b, tleb a b = true <-> phi a <= phi b.
Hypothesis phi_div : forall a b, phi b <> 0 -> phi (tdiv a b) = phi a / phi b.

Local Notation vec := (list T).
Local Notation Dot := (dot t0 tadd tmul).
Local Notation Nsq := (normsq t0 tadd tmul).
Local Notation Vadd := (vadd tadd).
Local Notation Vsub := (vsub tsub).
Local Notation Vscale := (vscale tmul).

Variables (n m : nat) (fwd adj : vec -> vec).
Hypothesis fwd_add : forall x y, length x = n -> length y = n -> fwd (Vadd x y) = Vadd (fwd x) (fwd y).
Hypothesis fwd_scale : forall c x, length x = n -> fwd (Vscale c x) = Vscale c (fwd x).
Hypothesis fwd_len : forall x, length x = n -> length (fwd x) = m.
Hypothesis adj_sub : forall x y, length x = m -> length y = m -> adj (Vsub x y) = Vsub (adj x) (adj y).
Hypothesis adj_scale : forall c x, length x = m -> adj (Vscale c x) = Vscale c (adj x).
Hypothesis adj_len : forall y, length y = m -> length (adj y) = n.
Hypothesis adjoint : forall x y, length x = n -> length y = m -> Dot (fwd x) y = Dot x (adj y).
Variables (b : vec) (shift : T).
Hypothesis b_len : length b = m.

Local Notation delta := (delta_of T t0 tadd tmul fwd shift).
(* A^T A + shift I is positive definite *)
Hypothesis PD : forall p, length p = n -> 0 < phi (Nsq p) -> 0 < phi (delta p).

Local Notation cg_state := (cg_state T).
Local Notation cgls_init := (cgls_init T t0 tadd tmul tsub fwd adj b shift).
Local Notation cgls_step := (cgls_step T t0 tadd tmul tsub tdiv tleb teps fwd adj shift).
Local Notation cgls_iter := (cgls_iter T t0 tadd tmul tsub tdiv tleb teps fwd adj shift).
Local Notation inv := (cgls_inv T t0 tadd tmul tsub n fwd adj b shift).
Local Notation minv := (minv T t0 tadd tmul tsub phi n fwd adj b shift).

(* H p = A^T A p + shift p *)
Definition Hop (p : vec) : vec := Vadd (adj (fwd p)) (Vscale shift p).

Ltac len :=
  repeat first [ assumption | lia
               | rewrite (vadd_length T tadd) | rewrite (vsub_length T tsub) | rewrite (vscale_length T tmul)
               | rewrite fwd_len | rewrite adj_len | rewrite b_len ].

Lemma dvadd_l x y z : length x = length y -> Dot (Vadd x y) z = tadd (Dot x z) (Dot y z).
Proof. apply (dot_vadd_l T t0 t1 tadd tmul tsub topp Tth). Qed.
Lemma dvsub_l x y z : length x = length y -> Dot (Vsub x y) z = tsub (Dot x z) (Dot y z).
Proof. apply (dot_vsub_l T t0 t1 tadd tmul tsub topp Tth). Qed.
Lemma dvscale_l c x y : Dot (Vscale c x) y = tmul c (Dot x y).
Proof. apply (dot_vscale_l T t0 t1 tadd tmul tsub topp Tth). Qed.
Lemma dcomm x y : Dot x y = Dot y x.
Proof. apply (dot_comm T t0 t1 tadd tmul tsub topp Tth). Qed.

Lemma Hop_len p : length p = n -> length (Hop p) = n.
Proof. intros Hp. unfold Hop. len. Qed.

Lemma Hop_dot u v : length u = n -> length v = n -> Dot (Hop u) v = tadd (Dot (fwd u) (fwd v)) (tmul shift (Dot u v)).
Proof.
  intros Hu Hv. unfold Hop. rewrite dvadd_l; [ | solve [len]]. rewrite dvscale_l.
  rewrite (dcomm (adj (fwd u)) v). rewrite <- adjoint; [ | solve [len] | solve [len]]. rewrite (dcomm (fwd v)). reflexivity.
Qed.

Lemma Hop_sym u v : length u = n -> length v = n -> Dot (Hop u) v = Dot u (Hop v).
Proof.
  intros Hu Hv. rewrite (dcomm u (Hop v)), !Hop_dot by assumption. rewrite (dcomm (fwd v)), (dcomm v u). reflexivity.
Qed.

Lemma Hop_delta p : length p = n -> Dot p (Hop p) = delta p.
Proof. intros Hp. rewrite dcomm, Hop_dot by assumption. reflexivity. Qed.

(* one model step, tested against an arbitrary vector z *)
Lemma step_dots st z : inv st -> length z = n ->
  let st' := cgls_step st in
  let alpha := tdiv (cg_gamma T st) (safe_delta T t0 tleb teps (delta (cg_p T st))) in
  let beta := tdiv (cg_gamma T st') (cg_gamma T st) in
  Dot (cg_s T st') z = tsub (Dot (cg_s T st) z) (tmul alpha (Dot (Hop (cg_p T st)) z)) /\
  Dot (cg_p T st') z = tadd (Dot (cg_s T st') z) (tmul beta (Dot (cg_p T st) z)).
Proof.
  intros (Hx & Hp & Hr & Hs & Hg) Hz. cbn zeta.
  unfold C16_Solve.cgls_step; cbn [cg_x cg_p cg_r cg_s cg_gamma].
  change (tadd (Nsq (fwd (cg_p T st))) (tmul shift (Nsq (cg_p T st)))) with (delta (cg_p T st)).
  set (alpha := tdiv (cg_gamma T st) (safe_delta T t0 tleb teps (delta (cg_p T st)))).
  set (x := cg_x T st) in *. set (p := cg_p T st) in *. set (r := cg_r T st) in *.
  assert (Hrl : length r = m) by (rewrite Hr; len).
  assert (Hql : length (fwd p) = m) by len.
  split.
  - rewrite Hs. unfold ne_res. rewrite <- Hr. unfold Hop.
    rewrite adj_sub; [ | solve [len] | solve [len]]. rewrite adj_scale; [ | solve [len]].
    repeat (rewrite dvsub_l; [ | solve [len]]). repeat (rewrite dvadd_l; [ | solve [len]]). rewrite !dvscale_l.
    rewrite dvadd_l; [ | solve [len]]. rewrite !dvscale_l. ring.
  - rewrite dvadd_l, dvscale_l; [reflexivity|]. len.
Qed.

(* ---------------- the sequences ---------------- *)
Variable x0 : vec.
Hypothesis x0_len : length x0 = n.
Definition st (k : nat) : cg_state := cgls_iter k (cgls_init x0).
Definition Sk k := cg_s T (st k).
Definition Pk k := cg_p T (st k).
Definition ss i j : R := phi (Dot (Sk i) (Sk j)).
Definition sh i j : R := phi (Dot (Sk i) (Hop (Pk j))).
Definition ph i j : R := phi (Dot (Pk i) (Hop (Pk j))).
Definition al k : R := phi (tdiv (cg_gamma T (st k)) (safe_delta T t0 tleb teps (delta (Pk k)))).
Definition be k : R := phi (tdiv (cg_gamma T (st (S k))) (cg_gamma T (st k))).

Lemma st_inv k : inv (st k).
Proof.
  unfold st. eapply cgls_iter_inv; try eassumption. eapply cgls_init_inv; eassumption.
Qed.
Lemma Sk_len k : length (Sk k) = n.
Proof. destruct (st_inv k) as (Hx & _ & _ & Hs & _). unfold Sk. rewrite Hs. eapply ne_res_len; eassumption. Qed.
Lemma Pk_len k : length (Pk k) = n.
Proof. destruct (st_inv k) as (_ & Hp & _). exact Hp. Qed.
Lemma gamma_ss k : phi (cg_gamma T (st k)) = ss k k.
Proof. destruct (st_inv k) as (_ & _ & _ & _ & Hg). rewrite Hg. reflexivity. Qed.
Lemma st_S k : st (S k) = cgls_step (st k).
Proof. reflexivity. Qed.

Lemma ss_sym i j : ss i j = ss j i.
Proof. unfold ss. rewrite dcomm. reflexivity. Qed.
Lemma ph_sym i j : ph i j = ph j i.
Proof. unfold ph. rewrite <- Hop_sym by apply Pk_len. rewrite dcomm. reflexivity. Qed.
Lemma ph_delta k : ph k k = phi (delta (Pk k)).
Proof. unfold ph. rewrite Hop_delta by apply Pk_len. reflexivity. Qed.

Lemma R1 k j : ss (S k) j = ss k j - al k * sh j k.
Proof.
  unfold ss, sh, al, Sk, Pk. rewrite st_S.
  destruct (step_dots (st k) (cg_s T (st j)) (st_inv k) (Sk_len j)) as (E & _). cbn zeta in E.
  rewrite E, phi_sub, phi_mul. rewrite (dcomm (Hop (cg_p T (st k)))). reflexivity.
Qed.
Lemma R2 j k : sh (S j) k = ph (S j) k - be j * ph j k.
Proof.
  unfold sh, ph, be, Sk, Pk. rewrite !st_S.
  destruct (step_dots (st j) (Hop (cg_p T (st k))) (st_inv j) (Hop_len _ (Pk_len k))) as (_ & E). cbn zeta in E.
  rewrite E, phi_add, phi_mul. ring.
Qed.
Lemma R20 k : sh 0 k = ph 0 k.
Proof. reflexivity. Qed.

Lemma nsq_nonneg (p : vec) : 0 <= phi (Nsq p).
Proof. unfold normsq. induction p as [|c p IHp]; cbn; [rewrite phi_0; lra|]. rewrite phi_add, phi_mul. nra. Qed.
(* if <s,p> <> 0 then |p|^2 > 0 *)
Lemma dot_zero_of_nsq (s p : vec) : phi (Nsq p) = 0 -> phi (Dot s p) = 0.
Proof.
  unfold normsq. revert s; induction p as [|c p IH]; intros [|a s] H; cbn in *; try exact phi_0.
  rewrite phi_add, phi_mul in *.
  pose proof (nsq_nonneg p) as Hp. unfold normsq in Hp.
  assert (Hc : phi c = 0) by nra. rewrite Hc, (IH s) by nra. ring.
Qed.

(* while the residuals are non-zero: the Mono invariant <s_k,p_k> = gamma_k holds and every curvature is positive *)
Lemma positive_curvature K : (forall k, (k < K)%nat -> ss k k <> 0) ->
  forall k, (k <= K)%nat -> minv (st k) /\ forall j, (j < k)%nat -> 0 < ph j j.
Proof.
  intros Hnz. induction k as [|k IH]; intros HkK.
  - split; [ | intros j Hj; lia]. unfold st. cbn [C16_Solve.cgls_iter].
    eapply minv_init; eassumption.
  - destruct (IH ltac:(lia)) as (Hm & Hpos).
    assert (Hd : 0 < ph k k).
    { rewrite ph_delta. apply PD; [apply Pk_len|].
      destruct Hm as (_ & HJ). fold (Sk k) (Pk k) in HJ. rewrite gamma_ss in HJ.
      destruct (Rle_lt_or_eq_dec 0 (phi (Nsq (Pk k))) (nsq_nonneg _)) as [Hlt | Heq]; [exact Hlt|].
      exfalso. apply (Hnz k ltac:(lia)). rewrite <- HJ. apply dot_zero_of_nsq. symmetry. exact Heq. }
    split.
    + rewrite st_S. rewrite ph_delta in Hd.
      eapply (minv_step T t0 t1 tadd tmul tsub topp Tth tdiv tleb teps phi phi_0 phi_add phi_mul phi_sub phi_leb phi_div
                n m fwd adj fwd_add fwd_scale fwd_len adj_sub adj_scale adj_len adjoint b shift b_len (st k) Hm Hd).
    + intros j Hj. destruct (Nat.eq_dec j k) as [-> | Hn]; [exact Hd | apply Hpos; lia].
Qed.

Lemma Ha K : (forall k, (k < K)%nat -> ss k k <> 0) -> forall k, (k < K)%nat -> al k * ph k k = ss k k.
Proof.
  intros Hnz k Hk. destruct (positive_curvature K Hnz (S k) ltac:(lia)) as (_ & Hpos).
  pose proof (Hpos k ltac:(lia)) as Hd. rewrite ph_delta in *. unfold al.
  assert (Hsafe : safe_delta T t0 tleb teps (delta (Pk k)) = delta (Pk k)).
  { unfold safe_delta, req. destruct (tleb (delta (Pk k)) t0) eqn:E; [ | reflexivity].
    apply phi_leb in E. rewrite phi_0 in E. lra. }
  rewrite Hsafe, phi_div by lra. rewrite gamma_ss. field. lra.
Qed.
Lemma Hb K : (forall k, (k < K)%nat -> ss k k <> 0) -> forall k, (k < K)%nat -> be k * ss k k = ss (S k) (S k).
Proof.
  intros Hnz k Hk. unfold be. rewrite phi_div by (rewrite gamma_ss; apply Hnz; exact Hk). rewrite !gamma_ss. field. apply Hnz; exact Hk.
Qed.

(* ---------------- mutual orthogonality / conjugacy, for all iterations ---------------- *)
Theorem cgls_conjugacy K : (forall k, (k < K)%nat -> ss k k <> 0) ->
  forall i j, (i < j)%nat -> (j <= K)%nat -> ss i j = 0 /\ ph i j = 0.
Proof.
  intros Hnz i j Hij Hj.
  exact (cg_scalar_orthogonality ss sh ph al be K ss_sym ph_sym R1 R2 R20 (Ha K Hnz) (Hb K Hnz) Hnz K (le_n K) i j Hij Hj).
Qed.

(* ---------------- finite termination ---------------- *)
Lemma phi_dot_R (x y : vec) : phi (Dot x y) = Rdot (map phi x) (map phi y).
Proof. revert y; induction x as [|a x IH]; intros [|c y]; cbn; try exact phi_0. rewrite phi_add, phi_mul, IH. reflexivity. Qed.

Lemma FOP_of_indexed (f : nat -> list R) (P : list R -> list R -> Prop) s k :
  (forall i j, (s <= i < j)%nat -> (j < s + k)%nat -> P (f i) (f j)) -> ForallOrdPairs P (map f (seq s k)).
Proof.
  revert s; induction k as [|k IH]; intros s H; cbn; constructor.
  - apply Forall_forall. intros w Hw. apply in_map_iff in Hw as (j & <- & Hj). apply in_seq in Hj. apply H; lia.
  - apply IH. intros i j Hi Hj. apply H; lia.
Qed.

Lemma classic_bounded N : (exists k, (k <= N)%nat /\ ss k k = 0) \/ (forall k, (k <= N)%nat -> ss k k <> 0).
Proof.
  induction N as [|N IH].
  - destruct (Req_dec (ss 0 0) 0) as [E | E]; [left; exists 0%nat; split; [lia | exact E] | right].
    intros k Hk. replace k with 0%nat by lia. exact E.
  - destruct IH as [(k & Hk & E) | Hall]; [left; exists k; split; [lia | exact E]|].
    destruct (Req_dec (ss (S N) (S N)) 0) as [E | E]; [left; exists (S N); split; [lia | exact E] | right].
    intros k Hk. destruct (Nat.eq_dec k (S N)) as [-> | Hn]; [exact E | apply Hall; lia].
Qed.

Theorem cgls_finite_termination : exists k, (k <= n)%nat /\ ss k k = 0.
Proof.
  destruct (classic_bounded n) as [Hex | Hall]; [exact Hex|].
  exfalso.
  pose proof (cgls_conjugacy n (fun k Hk => Hall k (Nat.lt_le_incl _ _ Hk))) as Horth.
  set (f := fun k => map phi (Sk k)).
  assert (Hb' : (length (map f (seq 0 (S n))) <= n)%nat).
  { apply orthogonal_family_bound.
    - apply Forall_forall. intros w Hw. apply in_map_iff in Hw as (k & <- & _). unfold f. rewrite map_length. apply Sk_len.
    - apply FOP_of_indexed. intros i j Hi Hj. unfold f. rewrite <- phi_dot_R. apply (Horth i j); lia.
    - apply Forall_forall. intros w Hw. apply in_map_iff in Hw as (k & <- & Hk). apply in_seq in Hk. unfold f.
      rewrite <- phi_dot_R. pose proof (nsq_nonneg (Sk k)) as Hge. unfold normsq in Hge. fold (ss k k) in *.
      pose proof (Hall k ltac:(lia)). lra. }
  rewrite map_length, seq_length in Hb'. lia.
Qed.

(* ---------------- "run to convergence" in exact arithmetic ---------------- *)
Lemma ss_nonneg k : 0 <= ss k k.
Proof. unfold ss. apply (nsq_nonneg (Sk k)). Qed.

Lemma zero_residual_persists_0 : ss 0 0 = 0 -> ss 1 1 = 0.
Proof.
  intros E. rewrite R1.
  assert (E1 : ss 0 1 = 0) by (rewrite ss_sym; unfold ss; apply dot_zero_of_nsq; exact E).
  assert (E2 : sh 1 0 = 0).
  { unfold sh. rewrite <- Hop_sym by (apply Sk_len || apply Pk_len). change (Pk 0) with (Sk 0). apply dot_zero_of_nsq. exact E. }
  rewrite E1, E2. ring.
Qed.

Lemma first_zero_residual : exists k, (1 <= k <= Nat.max n 1)%nat /\ ss k k = 0.
Proof.
  destruct cgls_finite_termination as (k & Hk & E).
  destruct k as [|k]; [exists 1%nat; split; [lia | apply zero_residual_persists_0; exact E] | exists (S k); split; [lia | exact E]].
Qed.

Local Notation cgls_solve := (cgls_solve T t0 t1 tadd tmul tsub tdiv tleb teps fwd adj b shift).
Local Notation cg_stop := (cg_stop T t0 t1 tadd tmul tleb).

Lemma stop_tol0 j : cg_stop t0 (cg_gamma T (st 0)) (st j) = true <-> ss j j = 0.
Proof.
  unfold C16_Solve.cg_stop. rewrite orb_true_iff, !phi_leb, !phi_mul, phi_0, phi_1, gamma_ss.
  pose proof (ss_nonneg j). split; [intros [H1 | H1]; lra | intros ->; left; lra].
Qed.

Lemma cg_loop_mono (step : cg_state -> cg_state) fuel : forall k tol g0 s x k',
  cg_loop T t0 t1 tadd tmul tleb step fuel k tol g0 s = (x, k') -> (k <= k')%nat.
Proof.
  induction fuel as [|f IH]; intros k tol g0 s x k' H; cbn [cg_loop] in H.
  - inversion H; lia.
  - destruct (cg_stop tol g0 (step s)); [inversion H; lia | apply IH in H; lia].
Qed.
Lemma cg_loop_progress (step : cg_state -> cg_state) f k tol g0 s x k' :
  cg_loop T t0 t1 tadd tmul tleb step (S f) k tol g0 s = (x, k') -> (k < k')%nat.
Proof.
  cbn [cg_loop]. destruct (cg_stop tol g0 (step s)); intros H; [inversion H; lia | apply cg_loop_mono in H; lia].
Qed.

(* CGLS with tol = 0 and maxit >= max(n,1): the loop ends after at most max(n,1) iterations, by its residual clause, at a point
   whose normal-equation residual is exactly zero -- the solution of (A^T A + shift I) x = A^T b, from any start x0 *)
Theorem cgls_exact_convergence maxit x k : (Nat.max n 1 <= maxit)%nat ->
  cgls_solve x0 maxit t0 = (x, k) ->
  (1 <= k <= Nat.max n 1)%nat /\ x = cg_x T (st k) /\ phi (Nsq (ne_res T tmul tsub fwd adj b shift x)) = 0.
Proof.
  intros Hmax H. unfold C16_Solve.cgls_solve in H.
  assert (Hk1 : (1 <= k)%nat).
  { destruct maxit as [|mx]; [lia|]. apply cg_loop_progress in H. lia. }
  apply (cg_loop_spec T t0 t1 tadd tmul tsub tleb n m fwd adj fwd_add fwd_scale fwd_len adj_len b b_len) in H as (j & -> & Hj & -> & Hstop & Hbefore).
  rewrite it_cgls in *.
  destruct first_zero_residual as (kz & Hkz & Ez).
  assert (Hstop' : (j < maxit)%nat -> cg_stop t0 (cg_gamma T (st 0)) (st j) = true) by exact Hstop.
  assert (Hjk : (j <= kz)%nat).
  { destruct (le_lt_dec j kz) as [Hle | Hgt]; [exact Hle|]. exfalso.
    pose proof (Hbefore kz ltac:(lia)) as Hf. rewrite it_cgls in Hf.
    assert (Hf' : cg_stop t0 (cg_gamma T (st 0)) (st kz) = false) by exact Hf.
    apply stop_tol0 in Ez. rewrite Ez in Hf'. discriminate. }
  assert (Hj1 : (1 <= j)%nat) by lia.
  assert (Ej : ss j j = 0).
  { destruct (Nat.eq_dec j kz) as [-> | Hne]; [exact Ez|]. apply stop_tol0. apply Hstop'. lia. }
  split; [lia|]. split; [reflexivity|].
  destruct (st_inv j) as (_ & _ & _ & Hs & _). change (cgls_iter j (cgls_init x0)) with (st j). rewrite <- Hs. exact Ej.
Qed.
End Conj.
