(* C12 -- executable model of cuqi.utilities.get_non_default_args (the list Model.__init__ stores as
   `_non_default_args`), of Python's binding of the ONE positional argument with which Model._apply_func
   calls the forward callable (`out = func(x)`), and of the acceptance test of Model.forward
   (_parse_args_add_to_kwargs + the keyword checks) on top of both.
   A signature is the list of inspect.signature(func).parameters in declaration order: name, kind
   (positional-only, positional-or-keyword, *args, keyword-only, **kwargs) and "has a default".
   No proofs here. *)
From CV Require Import Base.Tac Base.Cmp.
From Coq Require String.
Notation string := String.string.
Import String.StringSyntax.
Local Open Scope string_scope.

Inductive pkind := KPosOnly | KPosOrKw | KVarPos | KKwOnly | KVarKw.

Record param := mkParam { pa_name : string; pa_kind : pkind; pa_default : bool }.

Definition is_variadic (k : pkind) : bool := match k with KVarPos | KVarKw => true | _ => false end.
Definition positional (k : pkind) : bool := match k with KPosOnly | KPosOrKw => true | _ => false end.
Definition is_varpos (k : pkind) : bool := match k with KVarPos => true | _ => false end.

(* a parameter the caller MUST supply *)
Definition required (p : param) : bool := negb (is_variadic (pa_kind p)) && negb (pa_default p).

(* the test of get_non_default_args.  byname = true: the code before /repo commit 074a70c, which recognised
   *args / **kwargs by the NAMES "args" / "kwargs"; byname = false: by parameter kind (today) *)
Definition nda_keeps (byname : bool) (p : param) : bool :=
  (if byname then negb (String.eqb (pa_name p) "args") && negb (String.eqb (pa_name p) "kwargs")
   else negb (is_variadic (pa_kind p)))
  && negb (pa_default p).

Definition non_default_args (byname : bool) (sg : list param) : list string :=
  map pa_name (filter (nda_keeps byname) sg).

(* a callable: its signature, and the `_non_default_args` attribute that get_non_default_args trusts when present
   (a cuqi Model / Distribution used as the callable) *)
Record callable := mkCallable { c_cached : option (list string); c_sig : list param }.

Definition get_non_default_args (byname : bool) (c : callable) : list string :=
  match c_cached c with Some l => l | None => non_default_args byname (c_sig c) end.

(* ---- Python's binding of func(x): one positional argument, no keywords ---------------------- *)
Inductive bound := BoundParam (name : string) | BoundVarPos (name : string).

(* the first parameter that takes positional arguments, with what precedes and follows it *)
Fixpoint split_pos (sg : list param) : option (list param * param * list param) :=
  match sg with
  | [] => None
  | p :: r => if positional (pa_kind p) then Some ([], p, r)
              else match split_pos r with
                   | Some (a, x, b) => Some (p :: a, x, b)
                   | None => None
                   end
  end.

(* None = TypeError (too many positional arguments / a required argument is missing) *)
Definition call1 (sg : list param) : option bound :=
  match split_pos sg with
  | Some (pre, r, post) =>
      match filter required (pre ++ post) with [] => Some (BoundParam (pa_name r)) | _ => None end
  | None =>
      match find (fun p => is_varpos (pa_kind p)) sg with
      | Some v => match filter required sg with [] => Some (BoundVarPos (pa_name v)) | _ => None end
      | None => None
      end
  end.

(* Python's own rule for `def`: among the parameters that take positional arguments, none without a default
   follows one with a default (SyntaxError otherwise) *)
Fixpoint pos_defaults_ok (seen_default : bool) (sg : list param) : bool :=
  match sg with
  | [] => true
  | p :: r => if positional (pa_kind p)
              then (if seen_default then pa_default p else true) && pos_defaults_ok (seen_default || pa_default p) r
              else pos_defaults_ok seen_default r
  end.

(* ---- Model.forward( *args, **kwargs ) with `npos` positional inputs and keyword names `kws` ---- *)
Definition strs_all (k : string) (l : list string) : bool := forallb (String.eqb k) l.

(* true = a value comes back; false = refused (ValueError of the checks, IndexError for a model without
   arguments, TypeError of the call) *)
Definition forward_accepts (nda : list string) (sg : list param) (npos : nat) (kws : list string) : bool :=
  match npos, kws with
  | S _, _ :: _ => false                                 (* positional and keyword inputs together *)
  | S O, [] => match nda with [_] => match call1 sg with Some _ => true | None => false end | _ => false end
  | S (S _), [] => false                                 (* either a count mismatch or "more than one argument" *)
  | O, [k] => match nda with
              | [] => false
              | _ :: _ => strs_all k nda && match call1 sg with Some _ => true | None => false end
              end
  | O, _ => false                                        (* no input (IndexError / ValueError) or several keywords *)
  end.

(* ---- checkers for the generated cases -------------------------------------------------------- *)
Definition check_args (byname : bool) (c : callable) (observed : list string)
           (npos : nat) (kws : list string) (accepted : bool) : bool :=
  strl_eqb (get_non_default_args byname c) observed &&
  Bool.eqb (forward_accepts (get_non_default_args byname c) (c_sig c) npos kws) accepted &&
  pos_defaults_ok false (c_sig c).      (* hypothesis of C12_forward_call_binds_named_argument, for every generated signature *)
