(* C08 -- The No-U-Turn sampler leaves its target invariant.
   Property theorems only: each is closed by `exact <lemma>` (after intros) and followed by Print Assumptions.

   What is proved are the premises of Hoffman-Gelman's invariance argument, for the executable model of
   cuqi.experimental.mcmc.NUTS.step / cuqi.sampler.NUTS._sample (Model/C08_NUTS.v), for EVERY state space,
   leapfrog map, Hamiltonian, U-turn predicate, slice variable, depth and start, plus the invariance itself on
   one orbit for EVERY depth (C08_orbit_stationary; doubly stochastic form C08_orbit_stationary_alldepth in
   Props/C08_Cycle.v), on closed orbits (Props/C08_Cycle.v) and on every finite state space, including the mixture
   over a layer-cake slice variable and any number of transitions (Props/C08_Finite.v).  NOT formalised: that the
   class masses of the real slice variable H0 - Exp(1) are integrals of e^t, that momentum resampling preserves the
   target, and the passage from finite state spaces to R^2d (integration over orbits). *)
From CV Require Import Base.Tac Base.Ext Base.LinAlg Base.QcLin Model.C08_NUTS.
From CV Require Import Proofs.C08_Prog Proofs.C08_Leap Proofs.C08_Tree Proofs.C08_Top Proofs.C08_Law Proofs.C08_Orbit
                       Proofs.C08_Stationary Proofs.C08_Block Proofs.C08_Alive Proofs.C08_Sim Proofs.C08_LeapD Proofs.C08_Offset.
From Coq Require Import QArith Qcanon Qminmax Ring.
Local Open Scope Q_scope.

(* ---- the integrator -------------------------------------------------------------------------------------- *)
(* _Leapfrog over any commutative ring, any dimension, any gradient function, any (half) step h:
   a step with -eps undoes a step with eps (this is what makes the backward half of the tree the same orbit),
   and flip . leapfrog . flip . leapfrog = id.  States carry their cached gradient (cache_ok). *)
Theorem C08_leapfrog_reversible :
  forall (R : Type) (r0 r1 : R) (radd rmul rsub : R -> R -> R) (ropp : R -> R),
  ring_theory r0 r1 radd rmul rsub ropp (@eq R) ->
  forall (grad : list R -> list R), (forall x, length (grad x) = length x) ->
  forall (h : R) (s : ps R), wf_ps R s -> cache_ok R grad s ->
  leapfrog radd rmul grad (ropp h) (leapfrog radd rmul grad h s) = s /\
  flip R ropp (leapfrog radd rmul grad h (flip R ropp (leapfrog radd rmul grad h s))) = s.
Proof.
  intros R r0 r1 radd rmul rsub ropp Rth grad Hg h s Hw Hc. split.
  - exact (leapfrog_reverse R r0 r1 radd rmul rsub ropp Rth grad Hg h s Hw Hc).
  - exact (leapfrog_flip_reverse R r0 r1 radd rmul rsub ropp Rth grad Hg h s Hw Hc).
Qed.
Print Assumptions C08_leapfrog_reversible.

(* The integrator is kick . drift . kick; a kick moves only the momentum, by a function of the point (through
   the cached gradient), a drift moves only the point, by a function of the momentum, and each is undone by the
   same shear with the opposite parameter.
   _partial: that such shears have unit Jacobian (volume preservation proper) is the textbook step and is not
   formalised. *)
Theorem C08_leapfrog_shear_partial :
  forall (R : Type) (r0 r1 : R) (radd rmul rsub : R -> R -> R) (ropp : R -> R),
  ring_theory r0 r1 radd rmul rsub ropp (@eq R) ->
  forall (grad : list R -> list R), (forall x, length (grad x) = length x) ->
  forall (h e : R) (s : ps R),
  leapfrog radd rmul grad h s = kick radd rmul h (drift radd rmul grad (radd h h) (kick radd rmul h s)) /\
  (ps_x (kick radd rmul h s) = ps_x s /\ ps_r (kick radd rmul h s) = vadd radd (ps_r s) (vscale rmul h (ps_g s))) /\
  (ps_r (drift radd rmul grad e s) = ps_r s /\ ps_x (drift radd rmul grad e s) = vadd radd (ps_x s) (vscale rmul e (ps_r s))) /\
  (wf_ps R s -> kick radd rmul (ropp h) (kick radd rmul h s) = s) /\
  (wf_ps R s -> cache_ok R grad s -> drift radd rmul grad (ropp e) (drift radd rmul grad e s) = s).
Proof.
  intros R r0 r1 radd rmul rsub ropp Rth grad Hg h e s. repeat split.
  - exact (kick_inverse R r0 r1 radd rmul rsub ropp Rth grad Hg h s).
  - exact (drift_inverse R r0 r1 radd rmul rsub ropp Rth grad Hg e s).
Qed.
Print Assumptions C08_leapfrog_shear_partial.

(* ---- the tree -------------------------------------------------------------------------------------------- *)
(* On one orbit (positions i in Z): BuildTree(i, v, j) visits i+v, i+2v, ... in this order -- all 2^j of them when
   it says continue, a non-empty prefix otherwise -- and returns the first/last visited as end points. *)
Theorem C08_leaves_interval :
  forall (H : Z -> ext) (U : Z -> Z -> bool) (A : Z -> Q) (logu : ext) (j : nat) (i : Z) (v : bool),
  all_out (fun t => exists m : nat, (1 <= m <= 2 ^ j)%nat /\ t_leaves t = oleaves i v m /\
                    (t_ok t = true -> m = (2 ^ j)%nat) /\
                    t_minus t = (if v then i + 1 else i - Z.of_nat m)%Z /\
                    t_plus t = (if v then i + Z.of_nat m else i - 1)%Z)
          (obuild H U A logu i v j).
Proof.
  intros H U A logu j i v. unfold obuild.
  eapply all_out_impl; [| apply (build_skel Z zleap H U A logu j i v)].
  intros t K. apply skel_fields in K. destruct K as (M & P & _ & O & _ & _ & LL & _).
  destruct (dbuild_orbit H U A logu j i v) as (m & B & L1 & O1 & M1 & P1).
  exists m. rewrite M, P, O, LL. auto.
Qed.
Print Assumptions C08_leaves_interval.

(* The trajectory after any number of doublings is a contiguous interval of orbit positions containing the start,
   every position in it other than the start was visited exactly once, and as long as the loop continues it has
   exactly 2^j positions. *)
Theorem C08_trajectory_interval :
  forall (H L : Z -> ext) (U : Z -> Z -> bool) (A : Z -> Q) (logu : ext) (guard : bool) (max_depth : nat),
  all_out (fun tp => (p_minus tp <= 0 <= p_plus tp)%Z /\ NoDup (p_leaves tp) /\
                     (forall x, In x (p_leaves tp) <-> (p_minus tp <= x <= p_plus tp /\ x <> 0)%Z) /\
                     (p_s tp = true -> p_plus tp - p_minus tp + 1 = 2 ^ Z.of_nat (p_j tp))%Z)
          (otransition H L U A logu guard max_depth 0%Z).
Proof. intros H L U A logu guard md. exact (transition_interval H L U A logu guard md). Qed.
Print Assumptions C08_trajectory_interval.

(* n' is the number of in-slice leaves of the sub-tree, the candidate is one of its leaves, and n at the top level
   is 1 + the number of in-slice leaves of the whole trajectory (any state space) *)
Theorem C08_counts_slice :
  forall (S : Type) (leap : bool -> S -> S) (ham lgd : S -> ext) (uturn : S -> S -> bool) (alpha : S -> Q) (logu : ext),
  (forall s v j, all_out (fun t => t_n t = cnt_slice S ham logu (t_leaves t) /\ In (t_sel t) (t_leaves t))
                         (build S leap ham uturn alpha logu s v j)) /\
  (forall guard md s0, all_out (fun tp => p_n tp = (1 + cnt_slice S ham logu (p_leaves tp))%Z)
                               (transition S leap ham lgd uturn alpha logu guard md s0)).
Proof.
  intros S leap ham lgd uturn alpha logu. split.
  - intros s v j. apply all_out_and; [|apply build_sel_leaf].
    eapply all_out_impl; [| apply (build_skel S leap ham uturn alpha logu j s v)].
    intros t K. apply skel_fields in K. destruct K as (_ & _ & N & _ & _ & _ & LL & _).
    rewrite N, LL. apply dbuild_counts.
  - intros guard md s0. exact (transition_counts S leap ham lgd uturn alpha logu guard md s0).
Qed.
Print Assumptions C08_counts_slice.

(* Whenever the sub-tree has an in-slice leaf (n' > 0), every candidate it can hand upwards with positive
   probability lies in the slice; in particular under any scripted stream of uniforms strictly inside (0,1).
   (numpy's rand() can return exactly 0.0, probability 2^-53 per draw: then `rand() <= 0` swaps to a sub-tree without
   in-slice leaves; see C08_selected_u0_example.) *)
Theorem C08_selected_in_slice :
  forall (S : Type) (leap : bool -> S -> S) (ham : S -> ext) (uturn : S -> S -> bool) (alpha : S -> Q) (logu : ext)
         (s : S) (v : bool) (j : nat),
  all_pos (fun t => (0 < t_n t)%Z -> in_slice S ham logu (t_sel t) = true) (build S leap ham uturn alpha logu s v j) /\
  (forall (us : list Q) log t rest log', Forall (fun u => 0 < u /\ u < 1) us ->
     run (build S leap ham uturn alpha logu s v j) us log = Some (t, rest, log') ->
     (0 < t_n t)%Z -> in_slice S ham logu (t_sel t) = true).
Proof.
  intros S leap ham uturn alpha logu s v j. split.
  - exact (build_sel_in_slice S leap ham uturn alpha logu j s v).
  - intros us log t rest log' Hu Hr.
    exact (run_all_pos _ _ (build_sel_in_slice S leap ham uturn alpha logu j s v) us log t rest log' Hu Hr).
Qed.
Print Assumptions C08_selected_in_slice.

(* Uniform sub-sampling, any state space with a decidable equality test `eqb` (no assumption on it: `occ` counts
   with the same test): P(BuildTree hands k upwards) * n' = number of occurrences of k among the in-slice leaves.
   Holds for stopped sub-trees too (their candidate is never used, C08_stop_first). *)
Theorem C08_subsample_uniform :
  forall (S : Type) (leap : bool -> S -> S) (ham : S -> ext) (uturn : S -> S -> bool) (alpha : S -> Q) (logu : ext)
         (eqb : S -> S -> bool) (j : nat) (s : S) (v : bool) (k : S),
  dist (build S leap ham uturn alpha logu s v j) (fun t => if eqb (t_sel t) k then 1 else 0)
    * inject_Z (k_n S (dbuild S leap ham uturn alpha logu s v j))
  == inject_Z (occ S ham logu eqb k (k_leaves S (dbuild S leap ham uturn alpha logu s v j))).
Proof. intros S leap ham uturn alpha logu eqb j s v k. exact (selp_uniform S leap ham uturn alpha logu eqb j s v k). Qed.
Print Assumptions C08_subsample_uniform.

(* ... on an orbit, where all leaves are distinct: every in-slice leaf is selected with probability exactly 1/n' *)
Theorem C08_subsample_uniform_orbit :
  forall (H : Z -> ext) (U : Z -> Z -> bool) (A : Z -> Q) (logu : ext) (j : nat) (i : Z) (v : bool) (k : Z),
  In k (filter (in_slice Z H logu) (k_leaves Z (dbuild Z zleap H U A logu i v j))) ->
  dist (obuild H U A logu i v j) (fun t => if (t_sel t =? k)%Z then 1 else 0)
    == 1 / inject_Z (k_n Z (dbuild Z zleap H U A logu i v j)) /\
  (0 < k_n Z (dbuild Z zleap H U A logu i v j))%Z.
Proof. intros H U A logu j i v k Hin. exact (selp_orbit H U A logu j i v k Hin). Qed.
Print Assumptions C08_subsample_uniform_orbit.

(* Stop at the first stop: if the first half of a sub-tree says stop the second half is not built (same leaves,
   same everything); a top-level sub-tree that says stop is never accepted from and ends the loop. *)
Theorem C08_stop_first :
  forall (S : Type) (leap : bool -> S -> S) (ham lgd : S -> ext) (uturn : S -> S -> bool) (alpha : S -> Q) (logu : ext),
  (forall s v j, k_ok S (dbuild S leap ham uturn alpha logu s v j) = false ->
     dbuild S leap ham uturn alpha logu s v (Datatypes.S j) = dbuild S leap ham uturn alpha logu s v j) /\
  (forall guard st v, k_ok S (dir_skel S leap ham uturn alpha logu st v) = false ->
     all_out (fun st' => p_cur st' = p_cur st /\ p_s st' = false /\ p_acc st' = p_acc st)
             (doubling_dir S leap ham lgd uturn alpha logu guard st v)) /\
  (forall guard k st, p_s st = false -> doublings S leap ham lgd uturn alpha logu guard k st = Ret st).
Proof.
  intros S leap ham lgd uturn alpha logu. repeat split.
  - intros s v j. exact (dbuild_stop S leap ham uturn alpha logu s v j).
  - intros guard st v. exact (doubling_dir_stop S leap ham lgd uturn alpha logu guard st v).
  - intros guard k st. exact (doublings_stopped S leap ham lgd uturn alpha logu guard k st).
Qed.
Print Assumptions C08_stop_first.

(* Top level of one doubling (direction v), when the new half says continue and the non-finite guard does not
   interfere (legacy sampler, or all new leaves have finite log-density): with a = min(1, n'/n) the current state
   becomes the in-slice leaf k of the new half with probability a/n' each and stays with probability 1 - a;
   a is a probability. *)
Theorem C08_toplevel :
  forall (S : Type) (leap : bool -> S -> S) (ham lgd : S -> ext) (uturn : S -> S -> bool) (alpha : S -> Q) (logu : ext)
         (eqb : S -> S -> bool) (guard : bool) (st : top S) (v : bool) (k : S),
  let d := dir_skel S leap ham uturn alpha logu st v in
  let a := Qmin 1 (inject_Z (k_n S d) / inject_Z (p_n st)) in
  k_ok S d = true ->
  (guard = false \/ Forall (fun s => finite_logd S lgd s = true) (k_leaves S d)) ->
  dist (doubling_dir S leap ham lgd uturn alpha logu guard st v) (fun st' => if eqb (p_cur st') k then 1 else 0)
    * inject_Z (k_n S d)
  == a * inject_Z (occ S ham logu eqb k (k_leaves S d))
     + (1 - a) * (if eqb (p_cur st) k then 1 else 0) * inject_Z (k_n S d)
  /\ ((1 <= p_n st)%Z -> 0 <= a <= 1).
Proof.
  intros S leap ham lgd uturn alpha logu eqb guard st v k d a Hok Hfin. split.
  - exact (doubling_dir_law S leap ham lgd uturn alpha logu eqb guard st v k Hok Hfin).
  - intros Hn. apply acc_prob_range; [|exact Hn]. unfold d, dir_skel. rewrite dbuild_counts. apply cnt_slice_nonneg.
Qed.
Print Assumptions C08_toplevel.

(* The reported statistic alpha/n_alpha: after a transition, alpha is the sum of the Metropolis probabilities of the
   leaves built by the LAST doubling (those actually built: a stopped sub-tree contributes the leaves it built),
   n_alpha their number (non-zero), and these leaves are the tail of the list of all leaves. *)
Theorem C08_alpha_stat :
  forall (S : Type) (leap : bool -> S -> S) (ham lgd : S -> ext) (uturn : S -> S -> bool) (alpha : S -> Q) (logu : ext)
         (guard : bool) (max_depth : nat) (s0 : S),
  all_out (fun tp => (p_asum tp == qsum (map alpha (p_last tp)) /\ p_an tp = Z.of_nat (length (p_last tp)) /\
                      (p_j tp <> O -> p_last tp <> [])) /\ exists l0, p_leaves tp = l0 ++ p_last tp)
          (transition S leap ham lgd uturn alpha logu guard max_depth s0).
Proof.
  intros S leap ham lgd uturn alpha logu guard md s0. apply all_out_and.
  - exact (transition_alpha S leap ham lgd uturn alpha logu guard md s0).
  - exact (transition_last S leap ham lgd uturn alpha logu guard md s0).
Qed.
Print Assumptions C08_alpha_stat.

(* Non-finite candidates.  With H = logd - (finite kinetic energy): in BOTH implementations the new state is the
   old one or a state whose log-density is neither NaN nor -inf (the slice / divergence tests exclude those); with
   the guard of cuqi.experimental.mcmc.NUTS it is finite.  The guard is exactly the complement of the refuted
   class below (legacy sampler, +inf). *)
Theorem C08_nonfinite :
  forall (S : Type) (leap : bool -> S -> S) (ham lgd : S -> ext) (uturn : S -> S -> bool) (alpha : S -> Q) (logu : ext)
         (kin : S -> Q), (forall s, ham s = ext_sub (lgd s) (Fin (kin s))) ->
  forall (guard : bool) (max_depth : nat) (s0 : S),
  all_out (fun tp => p_cur tp = s0 \/
                     (nan_or_ninf (lgd (p_cur tp)) = false /\ (guard = true -> finite_logd S lgd (p_cur tp) = true)))
          (transition S leap ham lgd uturn alpha logu guard max_depth s0).
Proof.
  intros S leap ham lgd uturn alpha logu kin Hk guard md s0.
  exact (transition_nonfinite S leap ham lgd uturn alpha logu kin Hk guard md s0).
Qed.
Print Assumptions C08_nonfinite.

(* finding NUTS.legacy|nonfinite:+inf-selected: without the guard (cuqi.sampler.NUTS) a state with log-density
   +inf is selected with positive probability *)
Theorem C08_nonfinite_legacy_refuted :
  exists (H L : Z -> ext) (K : Z -> Q) (U : Z -> Z -> bool) (A : Z -> Q) (logu : ext) (max_depth : nat),
  (forall i, H i = ext_sub (L i) (Fin (K i))) /\
  0 < dist (otransition H L U A logu false max_depth 0%Z) (fun tp => if is_inf (L (p_cur tp)) then 1 else 0) /\
  dist (otransition H L U A logu true max_depth 0%Z) (fun tp => if is_inf (L (p_cur tp)) then 1 else 0) == 0.
Proof.
  exists (fun i => if (i =? 1)%Z then PInf else Fin 0), (fun i => if (i =? 1)%Z then PInf else Fin 0), (fun _ => 0),
         (fun _ _ => true), (fun _ => 0), (Fin (-1 # 2)), O.
  split; [intros i; destruct (i =? 1)%Z; reflexivity|]. split; vm_compute; reflexivity.
Qed.
Print Assumptions C08_nonfinite_legacy_refuted.

(* Cache consistency: any property of states that a leapfrog step preserves holds of the current state and both
   end points after a transition ... *)
Theorem C08_cache_consistent :
  forall (S : Type) (leap : bool -> S -> S) (ham lgd : S -> ext) (uturn : S -> S -> bool) (alpha : S -> Q) (logu : ext)
         (I : S -> Prop), (forall v s, I s -> I (leap v s)) ->
  forall (guard : bool) (max_depth : nat) (s0 : S), I s0 ->
  all_out (fun tp => I (p_cur tp) /\ I (p_minus tp) /\ I (p_plus tp))
          (transition S leap ham lgd uturn alpha logu guard max_depth s0).
Proof.
  intros S leap ham lgd uturn alpha logu I HI guard md s0 H0.
  exact (transition_states S leap ham lgd uturn alpha logu I HI guard md s0 H0).
Qed.
Print Assumptions C08_cache_consistent.

(* ... in particular, in the concrete model compared with the code, the gradient carried with the current point
   (current_target_grad; the local `grad` of the legacy sampler) is the gradient AT the current point, and the
   log-density compared with current_target_logd / joint_eval[k] is evaluated at the current point by definition *)
Theorem C08_cache_consistent_concrete :
  forall (t : target) (guard : bool) (max_depth : nat) (heps : Qc) (x z : list Qc) (e : Q),
  all_out (fun tp => ps_g (p_cur tp) = t_grad t (ps_x (p_cur tp)))
          (c_transition t guard max_depth heps x z e).
Proof.
  intros t guard md heps x z e. unfold c_transition.
  eapply all_out_impl; [| apply (transition_states cstate (c_leap t heps) (c_ham t) (c_lgd t) c_uturn_ok (fun _ => 0)
      (ext_sub (c_ham t (c_init t x z)) (Fin e)) (fun s => ps_g s = t_grad t (ps_x s)))].
  - intros tp (Hc & _). exact Hc.
  - intros v s _. reflexivity.
  - reflexivity.
Qed.
Print Assumptions C08_cache_consistent_concrete.

(* Step size of cuqi.experimental.mcmc.NUTS once sampling has started (no tune any more), whatever warm-up did
   before: the first step uses the step size warm-up left in _epsilon, every later step uses epsilon_bar, for any
   number of steps; so from the second step on the kernel is one fixed-step-size NUTS kernel. *)
Theorem C08_stepsize_frozen :
  forall (E : Type) (n : nat) (s : sched E),
  let b := match sc_bar s with Some b => b | None => sc_eps s end in
  sched_run s (EvPreSample :: repeat EvStep (Datatypes.S n)) = Some (mkSched b (Some b), sc_eps s :: repeat b n).
Proof. intros E n s. exact (sched_sampling E n s). Qed.
Print Assumptions C08_stepsize_frozen.

(* ---- the orbit abstraction is exact --------------------------------------------------------------------- *)
(* Over ANY state space on which the two directions of the integrator undo each other (on an invariant set of states:
   well-shaped, caches consistent), the transition from s0 is -- outcome by outcome, probability by probability --
   the image of the orbit transition from position 0 under the orbit map phi through s0 (phi 0 = s0,
   leap v (phi i) = phi (i +- 1)), with the orbit's Hamiltonian / log-density / U-turn predicate read off through phi.
   So every theorem above about `otransition` (C08_alive_law, C08_start_position_law, C08_orbit_stationary, ...) is a
   theorem about `transition` over the real phase space. *)
Theorem C08_orbit_abstraction_exact :
  forall (S : Type) (leap : bool -> S -> S) (ham lgd : S -> ext) (uturn : S -> S -> bool) (alpha : S -> Q) (logu : ext)
         (Inv : S -> Prop),
  (forall v s, Inv s -> Inv (leap v s)) -> (forall v s, Inv s -> leap (negb v) (leap v s) = s) ->
  forall s0, Inv s0 -> forall guard max_depth (f : top S -> Q),
  let phi := orb S leap s0 in
  phi 0%Z = s0 /\ (forall v i, leap v (phi i) = phi (zleap v i)) /\
  dist (transition S leap ham lgd uturn alpha logu guard max_depth s0) f
  == dist (otransition (Hz S ham phi) (Lz S lgd phi) (Uz S uturn phi) (Az S alpha phi) logu guard max_depth 0%Z)
          (fun st => f (topmap S phi st)).
Proof.
  intros S leap ham lgd uturn alpha logu Inv HI Hb s0 H0 guard md f phi.
  destruct (orbit_abstraction_exact S leap ham lgd uturn alpha logu Inv HI Hb s0 H0 guard md f) as [E0 E1].
  split; [exact E0 | split; [exact (orb_leap S leap Inv HI Hb s0 H0) | exact E1]].
Qed.
Print Assumptions C08_orbit_abstraction_exact.

(* ... and the concrete phase-space model that the correspondence compares leaf by leaf with both implementations
   (c_transition: states over Qc, the leapfrog of Model/C08_NUTS.v, the targets of the harness) is such an instance:
   the hypothesis "the two directions undo each other" is the reversibility theorem, proved for every target of
   dimension d; well-formed targets of the harness are d-dimensional. *)
Theorem C08_concrete_is_orbit :
  forall (t : target) (d : nat) (guard : bool) (max_depth : nat) (heps : Qc) (x z : list Qc) (e : Q) (f : top cstate -> Q),
  wf_target t d -> length x = d -> length z = d ->
  let s0 := c_init t x z in
  let logu := ext_sub (c_ham t s0) (Fin e) in
  let phi := orb cstate (c_leap t heps) s0 in
  phi 0%Z = s0 /\
  dist (c_transition t guard max_depth heps x z e) f
  == dist (otransition (Hz cstate (c_ham t) phi) (Lz cstate (c_lgd t) phi) (Uz cstate c_uturn_ok phi)
                       (Az cstate (fun _ => 0) phi) logu guard max_depth 0%Z)
          (fun st => f (topmap cstate phi st)).
Proof.
  intros t d guard md heps x z e f Hw Hx Hz.
  exact (concrete_orbit_exact t d guard md heps x z e f (wf_target_dim t d Hw) Hx Hz).
Qed.
Print Assumptions C08_concrete_is_orbit.

(* ---- an additive constant of the log-density changes nothing --------------------------------------------- *)
(* Shift the Hamiltonian, the log-density and the slice variable (= H0 - Exp(1)) by the same finite constant c: the whole
   transition is the same probabilistic program -- same scripted runs for every stream of uniforms, same law -- for every
   state space, depth, guard.  (Any comparison in the code that is not exact, e.g. a relative tolerance in the slice
   test, breaks this; the cells l4:offset check it on both implementations.) *)
Theorem C08_offset_invariant :
  forall (S : Type) (leap : bool -> S -> S) (ham lgd : S -> ext) (uturn : S -> S -> bool) (alpha : S -> Q) (logu : ext) (c : Q)
         (guard : bool) (max_depth : nat) (s0 : S),
  let sh := fun a : ext => ext_add a (Fin c) in
  (forall us log, run (transition S leap (fun s => sh (ham s)) (fun s => sh (lgd s)) uturn alpha (sh logu) guard max_depth s0) us log
                  = run (transition S leap ham lgd uturn alpha logu guard max_depth s0) us log) /\
  (forall f, dist (transition S leap (fun s => sh (ham s)) (fun s => sh (lgd s)) uturn alpha (sh logu) guard max_depth s0) f
             == dist (transition S leap ham lgd uturn alpha logu guard max_depth s0) f).
Proof.
  intros S leap ham lgd uturn alpha logu c guard md s0 sh. split.
  - intros us log. apply peq_run. exact (transition_offset S leap ham lgd uturn alpha logu c guard md s0).
  - intros f. exact (transition_offset_dist S leap ham lgd uturn alpha logu c guard md s0 f).
Qed.
Print Assumptions C08_offset_invariant.

(* ---- invariance on one orbit, bounded (tier 2) -------------------------------------------------------- *)
(* The counting measure on the in-slice positions of an orbit is invariant under the COMPLETE transition (stopping
   included), sum over in-slice i of P(i -> 0) = 1 for an in-slice position 0 (any other target position by
   translation), by exhaustive computation (sizes chosen so that the second checker coqchk, which does not use the
   VM, re-checks them in minutes):
   (i)   max_depth = 0: every in/out/divergent labelling of the 5-position window, every U-turn predicate on its
         adjacent pairs, both guards;
   (ii)  max_depth = 1 (trajectories of up to 4 states, 13-position window), U-turn test never firing: every in/out
         labelling of the 12 positions around 0 (2^12), and every in/out/divergent labelling of the positions
         -3..3 with the outer positions in the slice (3^6);
   (iii) max_depth = 1, every position in the slice, every U-turn predicate on the adjacent end points (a, a+1),
         -4 <= a <= 3 (2^8).
   For unbounded depth see C08_orbit_uniform_alive. *)
Theorem C08_orbit_stationary_bounded :
  (forall (l : list lab) (bs : list bool) (guard : bool), length l = 4%nat -> length bs = 4%nat ->
     colsum (win_get 2 (centred l 2)) (upred bs) guard 0 1 == 1) /\
  (forall l : list lab, length l = 12%nat -> Forall (fun a => a <> LDiv) l ->
     colsum (win_get 6 (centred l 6)) (fun _ _ => true) false 1 3 == 1) /\
  (forall l : list lab, length l = 6%nat ->
     colsum (win_get 6 (centred (inner3 l) 6)) (fun _ _ => true) false 1 3 == 1) /\
  (forall bs : list bool, length bs = 8%nat ->
     colsum (fun _ => LIn) (upred4 bs) false 1 3 == 1).
Proof.
  split; [exact stationary_md0 | split; [exact stationary_md1_inout | split; [exact stationary_md1_inner3 | exact stationary_md1_uturn]]].
Qed.
Print Assumptions C08_orbit_stationary_bounded.

(* ---- Hoffman-Gelman's argument on one orbit, ALL depths ------------------------------------------------- *)
(* A trajectory of 2^j positions is the block (j, a) = [a, a + 2^j); `okb j a` says the loop can be alive with it
   (no divergent position, every sub-block of its balanced binary tree passes the U-turn test on its end points --
   a function of the block alone, whichever member it was built from); `pk j a i x` is the block kernel defined by
   recursion on that binary tree (Proofs/C08_Block.v).  Hypotheses: the non-finite guard does not interfere
   (legacy sampler, or finite log-density on the orbit) and in-slice positions are not divergent (true for every
   finite slice variable, sl_nd_fin).

   (a) the law of the live loop state: started at an in-slice i, after j doublings the loop is alive with
       trajectory (j, a) and current state x with probability exactly 2^-j * pk j a i x -- every depth j. *)
Theorem C08_alive_law :
  forall (H L : Z -> ext) (U : Z -> Z -> bool) (A : Z -> Q) (logu : ext) (guard : bool),
  guard = false \/ (forall i, finite_logd Z L i = true) ->
  (forall i, sl H logu i = true -> nd H logu i = true) ->
  forall (j : nat) (i a x : Z), sl H logu i = true ->
  dist (doublings Z zleap H L U A logu guard j (top_init i))
       (fun st => b2q (p_s st && (p_j st =? j)%nat && (p_minus st =? a)%Z && (p_cur st =? x)%Z))
  == / inject_Z (pw j) * pk H U logu j a i x.
Proof. intros H L U A logu guard Hf Hs j i a x Hi. exact (alive_law H L U A logu guard Hf Hs j i a x Hi). Qed.
Print Assumptions C08_alive_law.

(* (b) the 2^-j law of where the start sits inside the trajectory: each of the 2^j blocks of 2^j positions that
       contain the start is the trajectory after j doublings with probability exactly 2^-j (one direction
       sequence each) if the loop is alive with it, every other block with probability 0. *)
Theorem C08_start_position_law :
  forall (H L : Z -> ext) (U : Z -> Z -> bool) (A : Z -> Q) (logu : ext) (guard : bool),
  guard = false \/ (forall i, finite_logd Z L i = true) ->
  (forall i, sl H logu i = true -> nd H logu i = true) ->
  forall (j : nat) (i a : Z), sl H logu i = true ->
  dist (doublings Z zleap H L U A logu guard j (top_init i))
       (fun st => b2q (p_s st && (p_j st =? j)%nat && (p_minus st =? a)%Z))
  == / inject_Z (pw j) * b2q (okb H U logu j a && ((a <=? i)%Z && (i <? a + pw j)%Z)).
Proof. intros H L U A logu guard Hf Hs j i a Hi. exact (alive_position_law H L U A logu guard Hf Hs j i a Hi). Qed.
Print Assumptions C08_start_position_law.

(* (c) the block kernel is doubly stochastic on the slice of every live block: the mass that is alive (rows) and
       -- the symmetry of the balanced binary tree -- the mass arriving at x from all possible starts (columns). *)
Theorem C08_block_kernel_doubly_stochastic :
  forall (H : Z -> ext) (U : Z -> Z -> bool) (logu : ext) (j : nat) (a : Z),
  (forall i, qs (pk H U logu j a i) (zr a (2 ^ j)) == b2q (okb H U logu j a && inb j a i && sl H logu i)) /\
  (forall x, qs (fun i => pk H U logu j a i x) (zr a (2 ^ j)) == b2q (okb H U logu j a && inb j a x && sl H logu x)).
Proof.
  intros H U logu j a. split; [intros i; exact (pk_rowsum H U logu j a i) | intros x; exact (pk_colsum H U logu j a x)].
Qed.
Print Assumptions C08_block_kernel_doubly_stochastic.

(* (d) started from the counting measure on the slice, on the event that the loop is alive after j doublings with
       trajectory (j, a) the current state is uniform on the in-slice positions of the trajectory: the mass at x
       is 2^-j for every in-slice x of a live block -- every depth, every U-turn predicate, every labelling.
   The complete statement (stopped mass included) is C08_orbit_stationary below. *)
Theorem C08_orbit_uniform_alive :
  forall (H L : Z -> ext) (U : Z -> Z -> bool) (A : Z -> Q) (logu : ext) (guard : bool),
  guard = false \/ (forall i, finite_logd Z L i = true) ->
  (forall i, sl H logu i = true -> nd H logu i = true) ->
  forall (j : nat) (a x : Z),
  qs (fun i => if sl H logu i
               then dist (doublings Z zleap H L U A logu guard j (top_init i))
                         (fun st => b2q (p_s st && (p_j st =? j)%nat && (p_minus st =? a)%Z && (p_cur st =? x)%Z))
               else 0) (zr a (2 ^ j))
  == / inject_Z (pw j) * b2q (okb H U logu j a && inb j a x && sl H logu x).
Proof. intros H L U A logu guard Hf Hs j a x. exact (alive_uniform H L U A logu guard Hf Hs j a x). Qed.
Print Assumptions C08_orbit_uniform_alive.

(* (e) INVARIANCE ON THE ORBIT, EVERY DEPTH.  The complete transition (every way of stopping included: a new half
       that says stop, a U-turn of the whole trajectory, the depth bound) leaves the counting measure on the in-slice
       positions of the orbit invariant: for every in-slice position k the sum over the in-slice starts i of
       P(i -> k) is 1 -- for every max_depth, every U-turn predicate of the end points of a (sub-)trajectory, every
       labelling of the orbit (in slice / outside / divergent), both samplers when the log-density is finite on the
       orbit.  (Starts further than 2^(max_depth+1) from k cannot reach it; the window contains all that can.)
       Proof: each further doubling preserves the total mass at k (Proofs/C08_Alive.v, mass_step): the mass that is
       still alive is uniform on its trajectory by (d), the two directions that can join two neighbouring blocks
       cancel by n_L min(1,n_R/n_L)/n_R + 1 - min(1,n_L/n_R) = 1, and mass that has stopped stays where it is.
       This supersedes the bounded C08_orbit_stationary_bounded. *)
Theorem C08_orbit_stationary :
  forall (H L : Z -> ext) (U : Z -> Z -> bool) (A : Z -> Q) (logu : ext) (guard : bool),
  guard = false \/ (forall i, finite_logd Z L i = true) ->
  (forall i, sl H logu i = true -> nd H logu i = true) ->
  forall (max_depth : nat) (k : Z), sl H logu k = true ->
  qs (fun i => if sl H logu i
               then dist (otransition H L U A logu guard max_depth i) (fun tp => if (p_cur tp =? k)%Z then 1 else 0)
               else 0)
     (zr (k - pw (Datatypes.S max_depth)) (2 * 2 ^ Datatypes.S max_depth + 1)) == 1.
Proof. intros H L U A logu guard Hf Hs md k Hk. exact (orbit_stationary H L U A logu guard Hf Hs md k Hk). Qed.
Print Assumptions C08_orbit_stationary.

(* ... in particular for every finite slice variable log u (which is what the sampler draws: H0 - Exp(1) with a
   finite H0), where "in the slice implies not divergent" is a fact, not a hypothesis *)
Theorem C08_orbit_stationary_finite_slice :
  forall (H L : Z -> ext) (U : Z -> Z -> bool) (A : Z -> Q) (u : Q) (guard : bool),
  guard = false \/ (forall i, finite_logd Z L i = true) ->
  forall (max_depth : nat) (k : Z), sl H (Fin u) k = true ->
  qs (fun i => if sl H (Fin u) i
               then dist (otransition H L U A (Fin u) guard max_depth i) (fun tp => if (p_cur tp =? k)%Z then 1 else 0)
               else 0)
     (zr (k - pw (Datatypes.S max_depth)) (2 * 2 ^ Datatypes.S max_depth + 1)) == 1.
Proof.
  intros H L U A u guard Hf md k Hk.
  exact (orbit_stationary H L U A (Fin u) guard Hf (sl_nd_fin H u) md k Hk).
Qed.
Print Assumptions C08_orbit_stationary_finite_slice.

(* the hypotheses are satisfiable: legacy guard, finite slice variable; all positions in the slice, no U-turn:
   after 2 doublings from 0 the trajectory is [-1, 2] with probability 1/4 *)
Example C08_alive_example :
  (forall (H : Z -> ext) (u : Q) i, sl H (Fin u) i = true -> nd H (Fin u) i = true) /\
  dist (doublings Z zleap (fun _ => Fin 0) (fun _ => Fin 0) (fun _ _ => true) (fun _ => 0) (Fin (-1 # 1)) false 2 (top_init 0%Z))
       (fun st => b2q (p_s st && (p_j st =? 2)%nat && (p_minus st =? -1)%Z)) == 1 # 4.
Proof. split; [exact sl_nd_fin | vm_compute; reflexivity]. Qed.

(* ---- non-vacuity / examples --------------------------------------------------------------------------- *)
(* a concrete orbit: positions -1..2 in the slice, 3 outside; BuildTree(0,+,1) visits 1,2, counts n' = 2, and each
   of them is selected with probability 1/2; the hypotheses of C08_toplevel / C08_nonfinite are satisfiable *)
Example C08_example :
  let H := fun i : Z => if ((-1 <=? i) && (i <=? 2))%Z then Fin 0 else Fin (-3 # 1) in
  let d := dbuild Z zleap H (fun _ _ => true) (fun _ => 0) (Fin (-1 # 1)) 0%Z true 1 in
  k_leaves Z d = [1; 2]%Z /\ k_n Z d = 2%Z /\ k_ok Z d = true /\
  dist (obuild H (fun _ _ => true) (fun _ => 0) (Fin (-1 # 1)) 0%Z true 1) (fun t => if (t_sel t =? 2)%Z then 1 else 0) == 1 # 2 /\
  (forall i, H i = ext_sub (H i) (Fin 0)).
Proof.
  cbv zeta. repeat split; try (vm_compute; reflexivity).
  intros i. destruct ((-1 <=? i) && (i <=? 2))%Z; reflexivity.
Qed.

(* the measure-zero wart: with the uniform u = 0 exactly, `u <= n''/(n'+n'')` = `0 <= 0` swaps to a half without
   in-slice leaves, so an out-of-slice leaf is handed upwards although n' > 0 *)
Example C08_selected_u0_example :
  let H := fun i : Z => if (i =? 1)%Z then Fin 0 else Fin (-3 # 1) in
  match run (obuild H (fun _ _ => true) (fun _ => 0) (Fin (-1 # 1)) 0%Z true 1) [0] [] with
  | Some (t, _, _) => t_n t = 1%Z /\ in_slice Z H (Fin (-1 # 1)) (t_sel t) = false
  | None => False
  end.
Proof. vm_compute. split; reflexivity. Qed.
