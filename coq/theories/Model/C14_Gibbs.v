(* C14 -- what a Gibbs sweep records for a block that takes several inner transitions: the state of the block sampler
   after ALL of them (whether or not the last one moved).  No proofs. *)
From CV Require Import Base.Tac Base.Cmp Model.C14_Chain.

Section Block.
Variables Cfg St Rnd Acc : Type.
Variable step : Cfg -> St -> Rnd -> St * Acc.
(* the block's value after the inner transitions driven by rs, started from s *)
Definition block_after (c : Cfg) (s : St) (rs : list Rnd) : St := last (states Cfg St Rnd Acc step c s rs) s.
End Block.

(* recorded joint states (ids, one per sweep) against the joint state of the block samplers' own current points after
   each sweep, observed through the wrapped step methods -- and, re-read at the end, the same *)
Definition check_sweeps (blocks_after recorded : list Z) : bool := zl_eqb blocks_after recorded.

(* ------------------------------------------------------------------------------------------ *)
(* HybridGibbs as a composite machine: a list of block samplers; one sweep visits the blocks in order, conditions block i
   on the current values of all blocks (its own entry is whatever the block sampler ignores), lets it take its inner
   transitions and records the block sampler's point.  HybridGibbs has no checkpoint interface; the composite checkpoint
   that exists is: get_state() of every block sampler (+ current_samples, which is map point of them). *)
Section Sweep.
Variables Bs V Rnd : Type.
Variable bstep : nat -> list V -> Bs -> Rnd -> Bs.
Variable point : Bs -> V.

Fixpoint inner (i : nat) (vs : list V) (b : Bs) (rs : list Rnd) : Bs :=
  match rs with [] => b | r :: rs' => inner i vs (bstep i vs b r) rs' end.

Fixpoint sweep_aux (done todo : list Bs) (rss : list (list Rnd)) : list Bs :=
  match todo, rss with
  | b :: todo', rs :: rss' =>
      let b' := inner (length done) (map point (done ++ todo)) b rs in sweep_aux (done ++ [b']) todo' rss'
  | _, _ => done ++ todo
  end.
Definition sweep (bl : list Bs) (rss : list (list Rnd)) : list Bs := sweep_aux [] bl rss.

(* the chain recorded by a sequence of sweeps: the blocks' points after each sweep *)
Fixpoint gibbs_chain (bl : list Bs) (rsss : list (list (list Rnd))) : list (list V) :=
  match rsss with
  | [] => []
  | rss :: r => let bl' := sweep bl rss in map point bl' :: gibbs_chain bl' r
  end.
End Sweep.
