(* C20 -- the model instance that RUNS against the repaired tree (accumulating periodic patches
   fd_matrix_acc + repaired rank rule): null spaces, explicit bases and the rank rule for EVERY field
   it builds, with NO guard left.  The development is generic in the matrix builder `fdm` (any builder
   whose matrices are well formed and annihilate exactly the documented null space), then instantiated. *)
From CV Require Import Base.Tac Base.Cmp Base.LinAlg Base.QcLin Model.C20_Diff Model.C20_Spec
  Proofs.C20_Lin Proofs.C20_Stencil Proofs.C20_Null Proofs.C20_Gmrf Proofs.C20_Gmrf2d Proofs.C20_Nullity
  Proofs.C20_Repaired.
From Coq Require Import QArith.
Local Open Scope Z_scope.

(* from "D x is the documented difference list" to "D x = 0 <-> x in the documented null space" *)
Lemma null_of_stencil order b x D :
  stencil_spec order b x = Some (zmatvec D x) ->
  match order, b with
  | 1%nat, Periodic | 1%nat, Backward => (1 <= length x)%nat
  | 2%nat, Periodic => (2 <= length x)%nat
  | _, _ => True
  end ->
  (zmatvec D x = zeros (length D) <-> null_cond order b x).
Proof.
  intros HS Hsz.
  assert (HL : length (zmatvec D x) = length D) by apply zmatvec_length.
  destruct order as [|[|[|o]]]; [discriminate| | |discriminate]; destruct b; try discriminate;
    cbn [stencil_spec] in HS; apply Some_inj in HS; unfold null_cond in *;
    rewrite <- HS in *.
  - rewrite diffs_length in HL. cbn [length] in HL. rewrite app_length in HL. cbn [length] in HL.
    rewrite <- HL. replace (S (length x + 1) - 1)%nat with (length x + 1)%nat by lia. apply null_zero_1.
  - rewrite diffs_length, wrap_pad_length in HL by lia. rewrite <- HL.
    replace (length x + 2 * 1 - 1)%nat with (length x + 1)%nat by lia. apply null_periodic_1. lia.
  - rewrite diffs_length in HL. rewrite <- HL. apply null_neumann_1.
  - destruct x as [|a x']; [cbn in Hsz; lia|]. cbn [length] in HL. rewrite map_length, diffs_length in HL.
    cbn [length] in HL. rewrite <- HL. replace (S (S (length x') - 1)) with (length (a :: x')) by (cbn [length]; lia).
    apply (null_backward_1 a x').
  - rewrite <- HL. reflexivity.
  - unfold ndiffs2 in HL. rewrite map_length, !diffs_length in HL. cbn [length] in HL. rewrite app_length in HL. cbn [length] in HL.
    rewrite <- HL. replace (S (S (length x + 2)) - 1 - 1)%nat with (length x + 2)%nat by lia. apply null_zero_2.
  - unfold ndiffs2 in HL. rewrite map_length, !diffs_length, wrap_pad_length in HL by lia. rewrite <- HL.
    replace (length x + 2 * 2 - 1 - 1)%nat with (length x + 2)%nat by lia. apply null_periodic_2. lia.
  - unfold ndiffs2 in HL. rewrite map_length, !diffs_length in HL. rewrite <- HL.
    replace (length x - 1 - 1)%nat with (length x - 2)%nat by lia. apply null_neumann_2.
Qed.

Definition size_ok (order : nat) (b : bc) (n : nat) : Prop :=
  match order, b with
  | 1%nat, Periodic | 1%nat, Neumann | 1%nat, Backward => (1 <= n)%nat
  | 2%nat, Periodic | 2%nat, Neumann => (2 <= n)%nat
  | _, _ => True
  end.

Section Builder.
Variable fdm : nat -> bc -> nat -> option (list (list Z)).
Hypothesis fdm_wf : forall o b n D, fdm o b n = Some D -> wf_mat n D.
Hypothesis fdm_null : forall o b n x D, fdm o b n = Some D -> length x = n ->
  (zmatvec D x = zeros (length D) <-> null_cond o b x).
Hypothesis fdm_size : forall o b n D, fdm o b n = Some D -> size_ok o b n.

Lemma fd_op_gen_1d order n b : option_map fst (fd_op_gen fdm order (NInt n) b None) = fdm order b n.
Proof. unfold fd_op_gen. change (Qeq_bool 1 0) with false. cbv iota. destruct (fdm order b n); reflexivity. Qed.

Lemma fd_op_gen_2d order N b :
  option_map fst (fd_op_gen fdm order (NTup2 N N) b None) = option_map (stack2d N) (fdm order b N).
Proof. unfold fd_op_gen. rewrite Nat.eqb_refl. cbn [negb]. destruct (fdm order b N); reflexivity. Qed.

Lemma diff_gen_1d order n b : (order <= 2)%nat ->
  diff_of_order_gen fdm order (NInt n) b = fdm (eff_order order) (eff_bc order b) n.
Proof. intros H. destruct order as [|[|[|o]]]; [| | |lia]; cbn [diff_of_order_gen eff_order eff_bc]; apply fd_op_gen_1d. Qed.

Lemma diff_gen_2d order N b : (order <= 2)%nat ->
  diff_of_order_gen fdm order (NTup2 N N) b = option_map (stack2d N) (fdm (eff_order order) (eff_bc order b) N).
Proof. intros H. destruct order as [|[|[|o]]]; [| | |lia]; cbn [diff_of_order_gen eff_order eff_bc]; apply fd_op_gen_2d. Qed.

Definition rank_of (rk : bool) (pd dim : nat) (b : bc) (order : nat) : nat :=
  match b with Zero => dim | _ => if rk then dim - nullity_code order b pd else dim - 1 end.

Lemma init_gen_1d_inv rk dim b order g : gmrf_init_gen fdm rk 1 dim b order = Some g ->
  exists D, (order <= 2)%nat /\ dim <> 1%nat /\ fdm (eff_order order) (eff_bc order b) dim = Some D /\
    g_prec g = gram dim D /\ g_diff g = D /\ g_rank g = rank_of rk 1 dim b order /\
    (b = Zero \/ b = Periodic \/ b = Neumann).
Proof.
  unfold gmrf_init_gen, prec_op_gen. cbn [mrf_nodes nodes_dim].
  destruct (dim =? 1)%nat eqn:E1; [discriminate|].
  destruct (le_lt_dec order 2) as [Ho|Ho].
  - rewrite diff_gen_1d by exact Ho.
    destruct (fdm (eff_order order) (eff_bc order b) dim) as [D|] eqn:ED; [|discriminate].
    cbn [option_map]. intros H. exists D.
    destruct b; try discriminate; injection H as <-; cbn [g_prec g_diff g_rank rank_of];
      repeat split; try lia; auto.
  - destruct order as [|[|[|o]]]; try lia. cbn [diff_of_order_gen]. discriminate.
Qed.

Lemma init_gen_2d_inv rk N b order g : gmrf_init_gen fdm rk 2 (N * N) b order = Some g ->
  exists D, (order <= 2)%nat /\ (N * N)%nat <> 1%nat /\ fdm (eff_order order) (eff_bc order b) N = Some D /\
    g_prec g = gram (N * N) (stack2d N D) /\ g_diff g = stack2d N D /\ g_rank g = rank_of rk 2 (N * N) b order /\
    (b = Zero \/ b = Periodic \/ b = Neumann).
Proof.
  unfold gmrf_init_gen, prec_op_gen. cbn [mrf_nodes]. rewrite isqrt_sq. cbn [nodes_dim].
  destruct (N * N =? 1)%nat eqn:E1; [discriminate|].
  destruct (le_lt_dec order 2) as [Ho|Ho].
  - rewrite diff_gen_2d by exact Ho.
    destruct (fdm (eff_order order) (eff_bc order b) N) as [D|] eqn:ED; [|discriminate].
    cbn [option_map]. intros H. exists D.
    destruct b; try discriminate; injection H as <-; cbn [g_prec g_diff g_rank rank_of];
      repeat split; try lia; auto.
  - destruct order as [|[|[|o]]]; try lia. cbn [diff_of_order_gen]. discriminate.
Qed.

(* explicit null-space basis of every 1-d field this builder makes *)
Theorem nullity_gen_1d rk dim b order g : gmrf_init_gen fdm rk 1 dim b order = Some g ->
  null_basis (g_prec g) dim (null_basis_1d order b dim).
Proof.
  intros Hg. destruct (init_gen_1d_inv rk dim b order g Hg) as [D [Ho [H1 [HD [HP [_ [_ Hb]]]]]]].
  pose proof (fdm_wf _ _ _ _ HD) as Hwf. pose proof (fdm_size _ _ _ _ HD) as Hsz. rewrite HP.
  assert (HN : forall x, length x = dim ->
            (zmatvec (gram dim D) x = zeros (length (gram dim D)) <-> null_cond (eff_order order) (eff_bc order b) x)).
  { intros x Hx. rewrite gram_null_iff by assumption. apply (fdm_null _ _ _ x D HD Hx). }
  destruct order as [|[|[|o]]]; [| | |lia]; destruct Hb as [-> | [-> | ->]];
    cbn [null_basis_1d eff_order eff_bc null_cond size_ok] in *.
  all: try (apply nb_zero; exact HN).
  all: try (apply nb_const; [lia | exact HN]).
  apply nb_affine; [lia | exact HN].
Qed.

Theorem nullity_gen_2d rk N b order g : gmrf_init_gen fdm rk 2 (N * N) b order = Some g ->
  null_basis (g_prec g) (N * N) (null_basis_2d order b N).
Proof.
  intros Hg. destruct (init_gen_2d_inv rk N b order g Hg) as [D [Ho [H1 [HD [HP [_ [_ Hb]]]]]]].
  pose proof (fdm_wf _ _ _ _ HD) as Hwf. pose proof (fdm_size _ _ _ _ HD) as Hsz.
  assert (R : forall r, length r = N ->
            (zmatvec D r = zeros (length D) <-> null_cond (eff_order order) (eff_bc order b) r)).
  { intros r Hr. apply (fdm_null _ _ _ r D HD Hr). }
  assert (HG : forall x, length x = (N * N)%nat ->
            (zmatvec (g_prec g) x = zeros (length (g_prec g)) <->
             zmatvec (stack2d N D) x = zeros (length (stack2d N D)))).
  { intros x Hx. rewrite HP. apply gram_null_iff; [apply stack2d_wf; exact Hwf | exact Hx]. }
  destruct order as [|[|[|o]]]; [| | |lia]; destruct Hb as [-> | [-> | ->]];
    cbn [eff_order eff_bc null_cond size_ok] in *; try rewrite basis2d_as_flat; cbn [null_basis_2d].
  all: try (apply nb_zero; intros x Hx; rewrite (HG x Hx); apply stack2d_null_zero; assumption).
  all: try (apply nb_const; [nia|]; intros x Hx; rewrite (HG x Hx); apply stack2d_null_const; try assumption; lia).
  apply nb_biaffine; [exact Hsz|]. intros X HX.
  assert (Lx : length (concat X) = (N * N)%nat) by (destruct HX as [HL HW]; rewrite (length_concat_const N X HW), HL; reflexivity).
  rewrite (HG _ Lx). rewrite (stack2d_null N D X Hwf HX). split; intros [Ha Hb']; split.
  - apply Forall_forall. intros r Hr. rewrite Forall_forall in Ha. apply R; [eapply image_rows; eassumption | apply Ha; exact Hr].
  - intros c Hc. apply R; [rewrite col_len; apply HX | apply Hb'; exact Hc].
  - apply Forall_forall. intros r Hr. rewrite Forall_forall in Ha. apply R; [eapply image_rows; eassumption | apply Ha; exact Hr].
  - intros c Hc. apply R; [rewrite col_len; apply HX | apply Hb'; exact Hc].
Qed.

(* the repaired rank rule reports dim - nullity for every field *)
Theorem rank_gen_1d dim b order g : gmrf_init_gen fdm true 1 dim b order = Some g ->
  (g_rank g + length (null_basis_1d order b dim) = dim)%nat.
Proof.
  intros Hg. destruct (init_gen_1d_inv true dim b order g Hg) as [D [Ho [H1 [HD [_ [_ [HR Hb]]]]]]].
  pose proof (fdm_size _ _ _ _ HD) as Hsz. rewrite HR, null_basis_1d_length.
  destruct order as [|[|[|o]]]; [| | |lia]; destruct Hb as [-> | [-> | ->]];
    cbn [rank_of nullity_code nullity_1d eff_order eff_bc size_ok Nat.pow Nat.mul] in *; lia.
Qed.

Theorem rank_gen_2d N b order g : gmrf_init_gen fdm true 2 (N * N) b order = Some g ->
  (g_rank g + length (null_basis_2d order b N) = N * N)%nat.
Proof.
  intros Hg. destruct (init_gen_2d_inv true N b order g Hg) as [D [Ho [H1 [HD [_ [_ [HR Hb]]]]]]].
  pose proof (fdm_size _ _ _ _ HD) as Hsz. rewrite HR, null_basis_2d_length.
  destruct order as [|[|[|o]]]; [| | |lia]; destruct Hb as [-> | [-> | ->]];
    cbn [rank_of nullity_code nullity_1d eff_order eff_bc size_ok Nat.pow Nat.mul] in *; nia.
Qed.

Lemma prec_shape_gen_1d rk dim b order g : gmrf_init_gen fdm rk 1 dim b order = Some g ->
  length (g_prec g) = dim /\ wf_mat dim (g_prec g).
Proof.
  intros Hg. destruct (init_gen_1d_inv rk dim b order g Hg) as [D [_ [_ [HD [HP _]]]]]. rewrite HP.
  split; [apply gram_len | apply gram_wf_z; eapply fdm_wf; exact HD].
Qed.

Lemma prec_shape_gen_2d rk N b order g : gmrf_init_gen fdm rk 2 (N * N) b order = Some g ->
  length (g_prec g) = (N * N)%nat /\ wf_mat (N * N) (g_prec g).
Proof.
  intros Hg. destruct (init_gen_2d_inv rk N b order g Hg) as [D [_ [_ [HD [HP _]]]]]. rewrite HP.
  split; [apply gram_len | apply gram_wf_z; apply stack2d_wf; eapply fdm_wf; exact HD].
Qed.

End Builder.

(* ---------------- the instance that runs: accumulating patches ---------------- *)
Lemma fd_matrix_acc_wf o b n D : fd_matrix_acc o b n = Some D -> wf_mat n D.
Proof.
  unfold fd_matrix_acc. destruct (fd_parts_acc o b n) as [[m f]|]; [|discriminate].
  intros H. injection H as <-. apply mk_mat_wf.
Qed.

Lemma fd_matrix_acc_size o b n D : fd_matrix_acc o b n = Some D -> size_ok o b n.
Proof.
  intros HD. destruct (periodic_too_small o b n) eqn:Hs.
  - unfold periodic_too_small in Hs. destruct b; try discriminate.
    destruct o as [|[|[|o]]]; try exact I; cbn [size_ok].
    + destruct n as [|n]; [discriminate | lia].
    + destruct n as [|[|n]]; [discriminate | discriminate | lia].
  - rewrite fd_matrix_acc_eq in HD by exact Hs.
    pose proof (proj1 (fd_matrix_defined o b n) (ex_intro _ D HD)) as Hd.
    destruct o as [|[|[|o]]]; destruct b; try exact I; exact Hd.
Qed.

Lemma fd_matrix_acc_null o b n x D : fd_matrix_acc o b n = Some D -> length x = n ->
  (zmatvec D x = zeros (length D) <-> null_cond o b x).
Proof.
  intros HD Hx. apply null_of_stencil; [apply (stencil_all_acc o b n x D HD Hx)|].
  pose proof (fd_matrix_acc_size o b n D HD) as Hsz. rewrite Hx.
  destruct o as [|[|[|o]]]; destruct b; try exact I; exact Hsz.
Qed.

(* every field of the running model: explicit null basis and rank = dim - nullity, no guard *)
Theorem running_nullity_1d rk dim b order g : gmrf_init_gen fd_matrix_acc rk 1 dim b order = Some g ->
  null_basis (g_prec g) dim (null_basis_1d order b dim).
Proof. apply (nullity_gen_1d fd_matrix_acc fd_matrix_acc_wf fd_matrix_acc_null fd_matrix_acc_size). Qed.

Theorem running_nullity_2d rk N b order g : gmrf_init_gen fd_matrix_acc rk 2 (N * N) b order = Some g ->
  null_basis (g_prec g) (N * N) (null_basis_2d order b N).
Proof. apply (nullity_gen_2d fd_matrix_acc fd_matrix_acc_wf fd_matrix_acc_null fd_matrix_acc_size). Qed.

Theorem running_rank_1d dim b order g : gmrf_init_gen fd_matrix_acc true 1 dim b order = Some g ->
  (g_rank g + length (null_basis_1d order b dim) = dim)%nat.
Proof. first [apply (rank_gen_1d fd_matrix_acc fd_matrix_acc_size) | apply (rank_gen_1d fd_matrix_acc fd_matrix_acc_wf fd_matrix_acc_null fd_matrix_acc_size) | apply (rank_gen_1d fd_matrix_acc fd_matrix_acc_wf fd_matrix_acc_size)]. Qed.

Theorem running_rank_2d N b order g : gmrf_init_gen fd_matrix_acc true 2 (N * N) b order = Some g ->
  (g_rank g + length (null_basis_2d order b N) = N * N)%nat.
Proof. first [apply (rank_gen_2d fd_matrix_acc fd_matrix_acc_size) | apply (rank_gen_2d fd_matrix_acc fd_matrix_acc_wf fd_matrix_acc_null fd_matrix_acc_size) | apply (rank_gen_2d fd_matrix_acc fd_matrix_acc_wf fd_matrix_acc_size)]. Qed.

Lemma running_shape_1d rk dim b order g : gmrf_init_gen fd_matrix_acc rk 1 dim b order = Some g ->
  length (g_prec g) = dim /\ wf_mat dim (g_prec g).
Proof. intros Hg. eapply prec_shape_gen_1d; eauto using fd_matrix_acc_wf, fd_matrix_acc_null, fd_matrix_acc_size. Qed.

Lemma running_shape_2d rk N b order g : gmrf_init_gen fd_matrix_acc rk 2 (N * N) b order = Some g ->
  length (g_prec g) = (N * N)%nat /\ wf_mat (N * N) (g_prec g).
Proof. intros Hg. eapply prec_shape_gen_2d; eauto using fd_matrix_acc_wf, fd_matrix_acc_null, fd_matrix_acc_size. Qed.
