(* C04 -- a Gaussian given through covariance, precision, square-root precision or square-root
   covariance (full matrices) denotes one distribution: the quadratic form |sqrtprec d|^2 and the
   determinant under the logarithm agree between the four inputs.  Every size, any field
   (mathcomp; the executable list model `gauss_dense_cert` and these statements are two
   transcriptions of the same formulas).  d is the column vector x - mean. *)
From mathcomp Require Import all_ssreflect all_algebra.
Set Implicit Arguments.
Unset Strict Implicit.
Unset Printing Implicit Defensive.
Import GRing.Theory.
Local Open Scope ring_scope.

Section Forms.
Variables (F : fieldType) (n : nat).
Implicit Types (S P R : 'M[F]_n) (d : 'cV[F]_n).

(* what the code evaluates: |R d|^2 for sqrtprec = R, and d^T P d for the precision P = R^T R *)
Lemma quad_sqrtprec R d : (R *m d)^T *m (R *m d) = d^T *m (R^T *m R) *m d.
Proof. by rewrite trmx_mul !mulmxA. Qed.

(* the code takes the determinant of R R^T, the documentation defines prec = R^T R: same determinant *)
Lemma det_RRt R : \det (R *m R^T) = \det (R^T *m R).
Proof. by rewrite !det_mulmx mulrC. Qed.

Lemma det_RtR R : \det (R^T *m R) = \det R ^+ 2.
Proof. by rewrite det_mulmx det_tr expr2. Qed.

(* prec = cov^-1 : determinant under the log is inverted (logdet(cov) = - logdet(prec)) *)
Lemma det_prec_of_cov S : \det (invmx S) = (\det S)^-1.
Proof. by rewrite det_inv. Qed.

(* cov = S, prec = S^-1, sqrtprec = R with R^T R = S^-1 : one quadratic form, one determinant *)
Theorem forms_cov_prec_sqrtprec S R d : S \in unitmx -> R^T *m R = invmx S ->
  ((R *m d)^T *m (R *m d) = d^T *m invmx S *m d) /\ (\det (R *m R^T) = (\det S)^-1).
Proof.
  move=> uS RtR; split; first by rewrite quad_sqrtprec RtR.
  by rewrite det_RRt RtR det_inv.
Qed.

(* sqrtcov = R: the code forms cov = R R^T, the documentation says cov = R^T R.
   The determinants always agree ... *)
Theorem sqrtcov_det R : \det (R *m R^T) = \det (R^T *m R).
Proof. exact: det_RRt. Qed.

(* ... and the two covariances coincide exactly when R is normal (symmetric R in particular) *)
Theorem sqrtcov_normal R : R *m R^T = R^T *m R -> invmx (R *m R^T) = invmx (R^T *m R).
Proof. by move=> ->. Qed.

Theorem sqrtcov_symmetric R : R^T = R -> R *m R^T = R^T *m R.
Proof. by move=> ->. Qed.

(* the canonical sqrtprec for sqrtcov = R under the code's reading cov = R R^T is R^-1:
   (R^-1)^T R^-1 = (R R^T)^-1 *)
Theorem sqrtcov_sqrtprec R : R \in unitmx -> (invmx R)^T *m invmx R = invmx (R *m R^T).
Proof.
  move=> uR. have uT : R^T \in unitmx by rewrite unitmx_tr.
  have uRR : R *m R^T \in unitmx by rewrite unitmx_mul uR uT.
  rewrite -[LHS](mulKmx uRR). rewrite trmx_inv -!mulmxA (mulmxA R^T) (mulmxV uT) mul1mx (mulmxV uR) mulmx1.
  by [].
Qed.

(* ---------- the eigenvalue branch (matrices above MIN_DIM_SPARSE): cov = u diag(s) u^T with orthogonal u; the code
   sets sqrtprec = diag(r) u^T with r_i = sqrt(1/s_i), logdet = sum ln s_i.  Same precision and same determinant as
   the dense branch (inverse / det of cov): the two sides of the storage switch denote one distribution. ---------- *)
Lemma orth_uut (u : 'M[F]_n) : u^T *m u = 1%:M -> u *m u^T = 1%:M.
Proof. by move=> h; apply: (mulmx1C h). Qed.

Theorem eigh_branch_prec (u : 'M[F]_n) (s r : 'rV[F]_n) :
  u^T *m u = 1%:M -> (forall i, r 0 i * r 0 i * s 0 i = 1) ->
  let S := u *m diag_mx s *m u^T in
  let R := diag_mx r *m u^T in
  R^T *m R *m S = 1%:M.
Proof.
  move=> uu rs S R; rewrite /S /R {S R}.
  rewrite trmx_mul trmxK tr_diag_mx.
  rewrite -!mulmxA (mulmxA u^T u) uu mul1mx.
  rewrite (mulmxA (diag_mx r) (diag_mx s)) mulmx_diag (mulmxA (diag_mx r)) mulmx_diag.
  have -> : (\row_j (r 0 j * (\row_j0 (r 0 j0 * s 0 j0)) 0 j)) = const_mx 1 :> 'rV[F]_n.
    by apply/rowP => j; rewrite !mxE mulrA rs.
  by rewrite diag_const_mx mulmxA mulmx1 (orth_uut uu).
Qed.

Theorem eigh_branch_det (u : 'M[F]_n) (s : 'rV[F]_n) :
  u^T *m u = 1%:M -> \det (u *m diag_mx s *m u^T) = \prod_i s 0 i.
Proof.
  move=> uu. rewrite !det_mulmx det_diag det_tr mulrAC -{1}(det_tr u) -det_mulmx uu det1 mul1r. by [].
Qed.

(* ---------- the density depends on a square-root factor only through R^T R (sqrtprec) resp. R R^T (sqrtcov, the code's
   reading): multiplying by any orthogonal Q (reflections and signed permutations included, det Q = -1 allowed) changes
   neither the quadratic form nor the determinant under the logarithm.  In particular the SIGN of det R never enters. ---------- *)
Lemma orth_gram m (Q : 'M[F]_n) (A : 'M[F]_(n, m)) : Q^T *m Q = 1%:M -> (Q *m A)^T *m (Q *m A) = A^T *m A.
Proof. by move=> h; rewrite trmx_mul -mulmxA (mulmxA Q^T) h mul1mx. Qed.

Theorem sqrtprec_orth_invariance (Q R : 'M[F]_n) d : Q^T *m Q = 1%:M ->
  [/\ (Q *m R)^T *m (Q *m R) = R^T *m R,
      (Q *m R *m d)^T *m (Q *m R *m d) = (R *m d)^T *m (R *m d)
    & \det ((Q *m R) *m (Q *m R)^T) = \det (R *m R^T)].
Proof.
  move=> h; split; first exact: orth_gram.
  - by rewrite -mulmxA; apply: orth_gram.
  - have dq : \det Q * \det Q = 1 by rewrite -{1}(det_tr Q) -det_mulmx h det1.
    by rewrite !det_mulmx !det_tr !det_mulmx mulrACA dq mul1r.
Qed.

Theorem sqrtcov_orth_invariance (Q R : 'M[F]_n) : Q *m Q^T = 1%:M -> (R *m Q) *m (R *m Q)^T = R *m R^T.
Proof. by move=> h; rewrite trmx_mul mulmxA -(mulmxA R) h mulmx1. Qed.

(* the determinant under the logarithm is a square: the same for R and for any sign pattern of its rows *)
Theorem det_gram_sign_free (R : 'M[F]_n) : \det (R *m R^T) = \det R ^+ 2 /\ \det ((- R) *m (- R)^T) = \det (R *m R^T).
Proof.
  split; first by rewrite det_mulmx det_tr expr2.
  by rewrite -scaleN1r linearZ /= -scalemxAl -scalemxAr scalerA mulN1r opprK scale1r.
Qed.

End Forms.
