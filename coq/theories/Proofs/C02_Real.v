(* C02 -- the log-domain decision `log u <= min(0, r)` is the Metropolis-Hastings decision `u <= min(1, exp r)`;
   detailed balance over the reals. *)
From CV Require Import Base.Tac Base.Cmp Base.Ext Model.C02_MH Proofs.C02_MH.
From Coq Require Import QArith Qreals Reals Lra.
Local Open Scope R_scope.

Lemma decision_is_MH_R (u r : R) : 0 < u -> u <= 1 -> (ln u <= Rmin 0 r <-> u <= Rmin 1 (exp r)).
Proof.
  intros Hu Hu1.
  assert (Hln : ln u <= 0). { rewrite <- ln_1. destruct Hu1 as [H|H]; [left; apply ln_increasing; lra | right; rewrite H; reflexivity]. }
  destruct (Rle_dec r 0) as [Hr|Hr].
  - rewrite (Rmin_right 0 r) by exact Hr.
    assert (He : exp r <= 1). { rewrite <- exp_0. destruct Hr as [H|H]; [left; apply exp_increasing; exact H | right; rewrite H; reflexivity]. }
    rewrite (Rmin_right 1 (exp r)) by exact He.
    split; intro H.
    + rewrite <- (exp_ln u Hu). destruct H as [H|H]; [left; apply exp_increasing; exact H | right; rewrite H; reflexivity].
    + rewrite <- (ln_exp r). destruct H as [H|H]; [left; apply ln_increasing; assumption | right; rewrite H; reflexivity].
  - assert (Hr' : 0 < r) by lra.
    rewrite (Rmin_left 0 r) by lra.
    assert (He : 1 < exp r). { rewrite <- exp_0. apply exp_increasing. exact Hr'. }
    rewrite (Rmin_left 1 (exp r)) by lra.
    tauto.
Qed.

(* the model's accept rule on finite values, with log u the logarithm of a uniform u in (0,1], accepts exactly when
   u <= min(1, exp(star - cur)) *)
Lemma accept_is_MH g (l a b : Q) (u : R) :
  0 < u -> u <= 1 -> Q2R l = ln u ->
  (accept g (Fin l) (ext_sub (Fin a) (Fin b)) (Fin a) = true <-> u <= Rmin 1 (exp (Q2R a - Q2R b))).
Proof.
  intros Hu Hu1 Hl. rewrite ext_sub_fin, accept_fin.
  rewrite <- (decision_is_MH_R u (Q2R a - Q2R b) Hu Hu1), <- Hl.
  assert (E : Q2R (a + - b) = Q2R a - Q2R b) by (rewrite Q2R_plus, Q2R_opp; lra).
  split.
  - intros [H0 H1]. apply Qle_Rle in H0. apply Qle_Rle in H1. rewrite E in H1.
    replace (Q2R 0) with 0 in H0 by (unfold Q2R; cbn; lra).
    apply Rmin_glb; assumption.
  - intro H. split; apply Rle_Qle.
    + replace (Q2R 0) with 0 by (unfold Q2R; cbn; lra). eapply Rle_trans; [exact H | apply Rmin_l].
    + rewrite E. eapply Rle_trans; [exact H | apply Rmin_r].
Qed.

(* detailed balance of the MH acceptance probability over R, for every pair, any positive pi and q *)
Lemma detailed_balance_R (px py qxy qyx : R) :
  0 < px -> 0 < py -> 0 < qxy -> 0 < qyx ->
  px * qxy * Rmin 1 (py * qyx / (px * qxy)) = py * qyx * Rmin 1 (px * qxy / (py * qyx)).
Proof.
  intros H1 H2 H3 H4.
  assert (Ha : 0 < px * qxy) by (apply Rmult_lt_0_compat; assumption).
  assert (Hb : 0 < py * qyx) by (apply Rmult_lt_0_compat; assumption).
  set (a := px * qxy) in *. set (b := py * qyx) in *.
  destruct (Rle_dec a b) as [H|H].
  - assert (1 <= b / a). { apply (Rmult_le_reg_r a); [exact Ha|]. unfold Rdiv. rewrite Rmult_assoc, Rinv_l; lra. }
    assert (a / b <= 1). { apply (Rmult_le_reg_r b); [exact Hb|]. unfold Rdiv. rewrite Rmult_assoc, Rinv_l; lra. }
    rewrite Rmin_left, Rmin_right by assumption. field. lra.
  - assert (b / a <= 1). { apply (Rmult_le_reg_r a); [exact Ha|]. unfold Rdiv. rewrite Rmult_assoc, Rinv_l; lra. }
    assert (1 <= a / b). { apply (Rmult_le_reg_r b); [exact Hb|]. unfold Rdiv. rewrite Rmult_assoc, Rinv_l; lra. }
    rewrite Rmin_right, Rmin_left by assumption. field. lra.
Qed.
