(* C07 -- property theorems for Deconvolution2D under the non-periodic paddings, the classes where the flipped-PSF adjoint
   IS the transpose: half-sample symmetric padding (BC = 'neumann', numpy.pad 'symmetric') with a mirror-symmetric PSF of odd
   size -- every image size, every PSF size (also wider than the image) -- and replicate padding (BC = 'nearest', 'edge') with
   a mirror-symmetric 3x3 PSF.  (Outside these classes the identity fails: C07_deconv2_refuted,
   C07_deconv2_even_paddings_refuted in Props/C07.v.)  Each theorem is closed by `exact <lemma>` + Print Assumptions. *)
From CV Require Import Base.Tac Base.LinAlg Base.Cmp Base.QcLin Model.C07_Adj
  Proofs.C07_Lists Proofs.C07_Model Proofs.C07_Conv Proofs.C07_SymPad.
From Coq Require Import QArith Qcanon.

(* under symmetric extension the transpose of a shift is not the opposite shift, but the PAIR S_d + S_(-d) is a symmetric
   operator: any element type with a pairing into Qc (scalars: 1-d signals; rows: the row direction of an image), every
   length, every d (also wider than the signal: several reflections) *)
Theorem C07_symmetric_shift_pair : forall (A : Type) (zero : A) (ip : A -> A -> Qc) (x y : list A) (d : Z),
  length x = length y ->
  (ldot ip (shift zero BSymmetric d x) y + ldot ip (shift zero BSymmetric (- d) x) y =
   ldot ip x (shift zero BSymmetric d y) + ldot ip x (shift zero BSymmetric (- d) y))%Qc.
Proof. exact (fun A zero ip x y d => @sym_shift_pair A zero ip x y d). Qed.
Print Assumptions C07_symmetric_shift_pair.

(* the padded 2-d convolution with a mirror-symmetric PSF (P = flipud P = fliplr P) of odd size is self-adjoint *)
Theorem C07_conv2_symmetric_padding_selfadjoint : forall (h nr nc : nat) (P X Y : list (list Qc)),
  wf_mat (2 * h + 1) P -> length P = (2 * h + 1)%nat -> rev P = P -> map (@rev Qc) P = P ->
  wf_mat nc X -> length X = nr -> wf_mat nc Y -> length Y = nr ->
  fdot (conv2 BSymmetric (2 * h + 1) nr nc P X) Y = fdot X (conv2 BSymmetric (2 * h + 1) nr nc P Y).
Proof. exact conv2_sym_selfadjoint. Qed.
Print Assumptions C07_conv2_symmetric_padding_selfadjoint.

(* Deconvolution2D(BC='neumann') with such a PSF (the shipped Gauss / Moffat / Defocus PSFs of odd size are of this kind):
   <forward x, y> = <x, adjoint y> for every image size *)
Theorem C07_deconv2_symmetric_padding_adjoint : forall (h n : nat) (P : list (list Qc)),
  wf_mat (2 * h + 1) P -> length P = (2 * h + 1)%nat -> rev P = P -> map (@rev Qc) P = P ->
  forall x y, length x = (n * n)%nat -> length y = (n * n)%nat ->
  exists fx ay, forward (deconv2_model BSymmetric (2 * h + 1) n P) (V1 x) = Some (V1 fx) /\
                adjoint (deconv2_model BSymmetric (2 * h + 1) n P) (V1 y) = Some (V1 ay) /\
                length fx = (n * n)%nat /\ length ay = (n * n)%nat /\ qdot fx y = qdot x ay.
Proof. exact deconv2_sym_adjoint. Qed.
Print Assumptions C07_deconv2_symmetric_padding_adjoint.

(* Deconvolution2D(BC='nearest') with a mirror-symmetric 3x3 PSF: replicate padding by one pixel is the symmetric extension *)
Theorem C07_deconv2_edge_padding_3x3_adjoint : forall (n : nat) (P : list (list Qc)),
  wf_mat 3 P -> length P = 3%nat -> rev P = P -> map (@rev Qc) P = P ->
  forall x y, length x = (n * n)%nat -> length y = (n * n)%nat ->
  exists fx ay, forward (deconv2_model BEdge 3 n P) (V1 x) = Some (V1 fx) /\
                adjoint (deconv2_model BEdge 3 n P) (V1 y) = Some (V1 ay) /\
                length fx = (n * n)%nat /\ length ay = (n * n)%nat /\ qdot fx y = qdot x ay.
Proof. exact deconv2_edge3_adjoint. Qed.
Print Assumptions C07_deconv2_edge_padding_3x3_adjoint.

(* ... and with a one-pixel PSF (a scaling): size 1 and 3 are exactly the sizes whose padding is one replicated pixel at most *)
Theorem C07_deconv2_edge_padding_1x1_adjoint : forall (n : nat) (P : list (list Qc)),
  wf_mat 1 P -> length P = 1%nat ->
  forall x y, length x = (n * n)%nat -> length y = (n * n)%nat ->
  exists fx ay, forward (deconv2_model BEdge 1 n P) (V1 x) = Some (V1 fx) /\
                adjoint (deconv2_model BEdge 1 n P) (V1 y) = Some (V1 ay) /\
                length fx = (n * n)%nat /\ length ay = (n * n)%nat /\ qdot fx y = qdot x ay.
Proof. exact deconv2_edge1_adjoint. Qed.
Print Assumptions C07_deconv2_edge_padding_1x1_adjoint.

(* 1-d (scipy.ndimage mode 'reflect' = half-sample symmetric): the convolution with a symmetric PSF of odd length is
   self-adjoint, so Deconvolution1D(BC='reflect') with such a PSF (every shipped 1-d PSF of odd size) has a SYMMETRIC model
   matrix: adjoint and forward are the same map *)
Theorem C07_conv1_symmetric_padding_selfadjoint : forall (h : nat) (P x y : list Qc),
  length P = (2 * h + 1)%nat -> rev P = P -> length x = length y ->
  qdot (conv1 BSymmetric P x) y = qdot x (conv1 BSymmetric P y).
Proof. exact conv1_sym_selfadjoint. Qed.
Print Assumptions C07_conv1_symmetric_padding_selfadjoint.

Theorem C07_deconv1_reflect_symmetric : forall (h : nat) (P : list Qc) (n : nat) (y : list Qc),
  length P = (2 * h + 1)%nat -> rev P = P -> length y = n ->
  adjoint (mat_model n (deconv1_matrix false BSymmetric P n) (GId n) (GId n)) (V1 y) =
  forward (mat_model n (deconv1_matrix false BSymmetric P n) (GId n) (GId n)) (V1 y).
Proof. exact deconv1_reflect_symmetric. Qed.
Print Assumptions C07_deconv1_reflect_symmetric.

(* the hypotheses are satisfiable: the 3x3 cross PSF; and the guard is needed: an asymmetric PSF fails (C07_deconv2_refuted) *)
Example C07_example_sympad :
  let P := zm [[0; 1; 0]; [1; 2; 1]; [0; 1; 0]]%Z in
  wf_mat (2 * 1 + 1) P /\ length P = (2 * 1 + 1)%nat /\ rev P = P /\ map (@rev Qc) P = P.
Proof. exact sym_psf_example. Qed.
