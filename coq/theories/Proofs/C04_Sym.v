(* C04 -- proofs, part 5 (rationals only): the symmetry test numpy.allclose(M, M^T) of the cov / prec setters.
   Exactly symmetric matrices are never refused; the absolute tolerance 1e-8 makes the refusal of a non-symmetric matrix
   depend on its magnitude (witness); the float range of numpy.linalg.det (witness). *)
From CV Require Import Base.Tac Base.Cmp Model.C04_Dens.
From Coq Require Import QArith Qabs Lqa.
Local Open Scope Q_scope.

Lemma list_eqb_mono {A} (e1 e2 : A -> A -> bool) :
  (forall a b, e1 a b = true -> e2 a b = true) -> forall x y, list_eqb e1 x y = true -> list_eqb e2 x y = true.
Proof.
  intros H x. induction x as [|a x IH]; intros [|b y] E; cbn in *; try discriminate; try reflexivity.
  apply andb_true_iff in E as [E1 E2]. apply andb_true_iff. split; [apply H; exact E1 | apply IH; exact E2].
Qed.

Lemma np_close_of_eq a b : Qeq_bool a b = true -> np_close a b = true.
Proof.
  intros H. apply Qeq_bool_iff in H. unfold np_close. apply Qle_bool_iff.
  assert (E : a - b == 0) by (rewrite H; ring). rewrite E. cbn [Qabs Qnum Z.abs].
  pose proof (Qabs_nonneg b). lra.
Qed.

(* guard: an exactly symmetric cov / prec is never refused, whatever its magnitude *)
Theorem np_allclose_of_sym n M : qsym n M = true -> np_allclose_tr n M = true.
Proof.
  unfold qsym, np_allclose_tr, qll_eqb, ql_eqb. apply list_eqb_mono. apply list_eqb_mono. exact np_close_of_eq.
Qed.

Theorem sym_never_refused f n M : qsym n M = true -> gauss_sym_refused f n M = false.
Proof. intros H. destruct f; cbn; try reflexivity; rewrite (np_allclose_of_sym n M H); reflexivity. Qed.

(* the same grossly non-symmetric matrix is refused at scale 1 and accepted at scale 2^-30 *)
Theorem symmetry_check_scale_refuted :
  exists (M : list (list Q)) (c : Q), 0 < c /\
    gauss_sym_refused FCov 2 M = true /\
    gauss_sym_refused FCov 2 (qscale c M) = false /\ qsym 2 (qscale c M) = false.
Proof.
  exists ((4 :: 1 :: nil) :: (2 :: 3 :: nil) :: nil), (1 # 1073741824).
  split; [reflexivity|]. split; [vm_compute; reflexivity|]. split; vm_compute; reflexivity.
Qed.

(* numpy.linalg.det leaves the binary64 range although the determinant is an ordinary positive rational *)
Theorem det_range_refuted : exists dcov : Q, 0 < dcov /\ det_underflow dcov = true /\ det_overflow (/ dcov) = true.
Proof. exists (1 # (2 ^ 1600)). split; [reflexivity|]. split; vm_compute; reflexivity. Qed.

(* ---------- GMRF after fixes/C20_gmrf_rank_rule.diff: the coded rank is the true rank for every order and boundary condition ---------- *)
Theorem gmrf_rank_v_fixed order b twod dim : (order <= 2)%nat -> b <> BBackward -> b <> BNone ->
  gmrf_rank_v true order b twod dim = gmrf_true_rank order b twod dim.
Proof.
  intros Ho H1 H2. unfold gmrf_rank_v.
  destruct order as [|[|[|o]]]; try lia; destruct b; try congruence; cbn [gmrf_nullity gmrf_true_rank];
    rewrite ?Nat.sub_0_r, ?Nat.sub_1_r; try reflexivity; destruct twod; reflexivity.
Qed.

Theorem gmrf_rank_v_unfixed order b twod dim : gmrf_rank_v false order b twod dim = gmrf_rank_code b dim.
Proof. reflexivity. Qed.
