(* Common header: arithmetic automation for Z/nat/bool models. *)
From Coq Require Export ZArith List Bool Lia ZifyBool.
Export ListNotations.
Ltac Zify.zify_post_hook ::= Z.to_euclidean_division_equations.

(* A safe wrapper: never leave an unbounded search in a proof. *)
Ltac inv H := inversion H; subst; clear H.

Lemma forallb_forall_iff {A} (f : A -> bool) l :
  forallb f l = true <-> (forall x, In x l -> f x = true).
Proof. apply forallb_forall. Qed.
