(* C20 -- the log-determinant GMRF reports for zero boundary conditions is computed from the
   diagonal of a triangular factor: det(L L^T) = (prod_i l_ii)^2, every size, any commutative ring.
   (mathcomp; the executable list model and this statement are two transcriptions of `P = L L^T`.) *)
From mathcomp Require Import all_ssreflect all_algebra.
Set Implicit Arguments.
Unset Strict Implicit.
Unset Printing Implicit Defensive.
Import GRing.Theory.
Local Open Scope ring_scope.

Section Det.
Variables (R : comRingType) (n : nat).

(* is_trig_mx L : L i j = 0 for i < j  (lower triangular, the factor `_chol` of the code) *)
Lemma det_chol_lower (L : 'M[R]_n) : is_trig_mx L -> \det (L *m L^T) = (\prod_i L i i) ^+ 2.
Proof. by move=> trigL; rewrite det_mulmx det_tr (det_trig trigL) expr2. Qed.

(* the same for the upper factor U returned by sparse_cholesky (A = U^T U) *)
Lemma det_chol_upper (U : 'M[R]_n) : is_trig_mx U^T -> \det (U^T *m U) = (\prod_i U i i) ^+ 2.
Proof.
  move=> trigU. rewrite det_mulmx -(det_tr U) (det_trig trigU) expr2.
  by congr (_ * _); apply: eq_bigr => i _; rewrite mxE.
Qed.

(* scaling by the precision parameter: det (c P) = c^n det P  (rank n term of the constant) *)
Lemma det_scale (c : R) (P : 'M[R]_n) : \det (c *: P) = c ^+ n * \det P.
Proof. by rewrite detZ. Qed.

End Det.
