(* C20 -- executable model of cuqi.operator.{First,Second}OrderFiniteDifference,
   PrecisionFiniteDifference and of the way GMRF / LMRF / CMRF use them.  No proofs here.

   Matrices are lists of rows over Z (the code's stencil entries are the integers -1, 0, 1, 2;
   the division by dx / dx^2 is a separate scalar).  The construction follows the code statement
   by statement: a `spdiags` base given by its constant diagonals, followed by the item
   assignments `Dmat[r, c] = v` with Python index semantics (negative indices count from the end,
   an index outside the matrix is an IndexError = refusal, a later assignment overwrites an
   earlier entry -- it does NOT accumulate). *)
From CV Require Import Base.Tac Base.Cmp Base.LinAlg Base.QcLin.
From Coq Require Import QArith Qabs Qcanon.
Local Open Scope nat_scope.

Inductive bc := Zero | Periodic | Neumann | Backward | NoBC | UnknownBC.

Definition bc_eqb (a b : bc) : bool :=
  match a, b with
  | Zero, Zero | Periodic, Periodic | Neumann, Neumann | Backward, Backward
  | NoBC, NoBC | UnknownBC, UnknownBC => true
  | _, _ => false
  end.

(* ---------------- matrices from entry functions ---------------- *)
Definition entry := nat -> nat -> Z.

Definition mk_mat (m n : nat) (f : entry) : list (list Z) :=
  map (fun i => map (fun j => f i j) (seq 0 n)) (seq 0 m).

(* scipy.sparse.spdiags with constant diagonals: entry (i,j) carries the value of diagonal j-i *)
Fixpoint diag_val (dl : list (Z * Z)) (k : Z) : Z :=
  match dl with
  | [] => 0
  | (loc, v) :: r => if (k =? loc)%Z then v else diag_val r k
  end.

Definition spd (dl : list (Z * Z)) : entry :=
  fun i j => diag_val dl (Z.of_nat j - Z.of_nat i).

(* Python index normalisation on an axis of length dim; None = IndexError *)
Definition norm_idx (dim : nat) (k : Z) : option nat :=
  let k' := (if k <? 0 then k + Z.of_nat dim else k)%Z in
  if ((0 <=? k') && (k' <? Z.of_nat dim))%Z then Some (Z.to_nat k') else None.

(* Dmat[r, c] = v on an m x n matrix *)
Definition set1 (m n : nat) (p : Z * Z * Z) (f : option entry) : option entry :=
  let '(r, c, v) := p in
  match f, norm_idx m r, norm_idx n c with
  | Some g, Some r', Some c' =>
      Some (fun i j => if ((i =? r') && (j =? c'))%nat then v else g i j)
  | _, _, _ => None
  end.

Definition apply_patches (m n : nat) (ps : list (Z * Z * Z)) (f : entry) : option entry :=
  fold_left (fun acc p => set1 m n p acc) ps (Some f).

(* ---------------- the one-dimensional stencil matrices (before the division by dx) ----------- *)
Local Open Scope Z_scope.
Definition d1_zero : list (Z * Z) := [(-1, -1); (0, 1)].          (* spdiags([-1, 1], [-1, 0]) *)
Definition d1_neumann : list (Z * Z) := [(0, -1); (1, 1)].        (* spdiags([-1, 1], [0, 1]) *)
Definition d1_backward : list (Z * Z) := [(0, -1); (-1, 1)].      (* spdiags([-1, 1], [0, -1]) *)
Definition d1_eye : list (Z * Z) := [(0, 1)].
Definition p1_periodic : list (Z * Z * Z) := [(-1, 0, 1); (0, -1, -1)].   (* Dmat[-1,0]=1; Dmat[0,-1]=-1 *)
Definition p1_backward : list (Z * Z * Z) := [(0, 0, 1)].                 (* Dmat[0,0]=1 *)
Definition d2_zero : list (Z * Z) := [(-2, -1); (-1, 2); (0, -1)].        (* spdiags([-1,2,-1], [-2,-1,0]) *)
Definition d2_neumann : list (Z * Z) := [(0, -1); (1, 2); (2, -1)].       (* spdiags([-1,2,-1], [0,1,2]) *)
(* Dmat[0,-2]=-1; Dmat[0:2,-1]=[2,-1]; Dmat[-2,0]=-1; Dmat[-1,0:2]=[2,-1] *)
Definition p2_periodic : list (Z * Z * Z) :=
  [(0, -2, -1); (0, -1, 2); (1, -1, -1); (-2, 0, -1); (-1, 0, 2); (-1, 1, -1)].
Local Close Scope Z_scope.

(* FirstOrderFiniteDifference._create_diff_matrix: (rows, patched entry function) *)
Definition fd1_parts (b : bc) (n : nat) : option (nat * entry) :=
  match b with
  | Zero => Some (n + 1, spd d1_zero)
  | Periodic =>
      match apply_patches (n + 1) n p1_periodic (spd d1_zero) with
      | Some f => Some (n + 1, f) | None => None end
  | Neumann => if (n =? 0)%nat then None else Some (n - 1, spd d1_neumann)
  | Backward =>
      match apply_patches n n p1_backward (spd d1_backward) with
      | Some f => Some (n, f) | None => None end
  | NoBC => Some (n, spd d1_eye)
  | UnknownBC => None
  end.

(* SecondOrderFiniteDifference._create_diff_matrix *)
Definition fd2_parts (b : bc) (n : nat) : option (nat * entry) :=
  match b with
  | Zero => Some (n + 2, spd d2_zero)
  | Periodic =>
      match apply_patches (n + 2) n p2_periodic (spd d2_zero) with
      | Some f => Some (n + 2, f) | None => None end
  | Neumann => if (n <? 2)%nat then None else Some (n - 2, spd d2_neumann)
  | _ => None
  end.

Definition fd_parts (order : nat) (b : bc) (n : nat) : option (nat * entry) :=
  match order with
  | 1%nat => fd1_parts b n
  | 2%nat => fd2_parts b n
  | _ => None
  end.

Definition fd_matrix (order : nat) (b : bc) (n : nat) : option (list (list Z)) :=
  match fd_parts order b n with
  | Some (m, f) => Some (mk_mat m n f)
  | None => None
  end.

(* ---- repaired state (fixes/C20_periodic_accumulate.diff): the periodic boundary patches are ADDED to the band
   (`Dmat[r, c] += v`) instead of overwriting it; nothing else changes ---- *)
Definition add1 (m n : nat) (p : Z * Z * Z) (f : option entry) : option entry :=
  let '(r, c, v) := p in
  match f, norm_idx m r, norm_idx n c with
  | Some g, Some r', Some c' =>
      Some (fun i j => if ((i =? r') && (j =? c'))%nat then (v + g i j)%Z else g i j)
  | _, _, _ => None
  end.

Definition apply_patches_acc (m n : nat) (ps : list (Z * Z * Z)) (f : entry) : option entry :=
  fold_left (fun acc p => add1 m n p acc) ps (Some f).

Definition fd_parts_acc (order : nat) (b : bc) (n : nat) : option (nat * entry) :=
  match order, b with
  | 1%nat, Periodic =>
      match apply_patches_acc (n + 1) n p1_periodic (spd d1_zero) with
      | Some f => Some (n + 1, f) | None => None end
  | 2%nat, Periodic =>
      match apply_patches_acc (n + 2) n p2_periodic (spd d2_zero) with
      | Some f => Some (n + 2, f) | None => None end
  | _, _ => fd_parts order b n
  end.

Definition fd_matrix_acc (order : nat) (b : bc) (n : nat) : option (list (list Z)) :=
  match fd_parts_acc order b n with
  | Some (m, f) => Some (mk_mat m n f)
  | None => None
  end.

(* which of the two constructions the tree under test has *)
Definition fdm_of (acc : bool) := if acc then fd_matrix_acc else fd_matrix.

(* ---------------- two dimensions: vstack [kron(I, D); kron(D, I)] ---------------- *)
(* scipy.sparse.kron(A, B): block matrix [[a_ij * B]] *)
Definition kron (A B : list (list Z)) : list (list Z) :=
  concat (map (fun arow => map (fun brow => concat (map (fun a => zvscale a brow) arow)) B) A).

Definition eye (n : nat) : list (list Z) := map (fun i => zunit n i) (seq 0 n).

Definition stack2d (n : nat) (D : list (list Z)) : list (list Z) := kron (eye n) D ++ kron D (eye n).

(* ---------------- the constructor: num_nodes forms, dx, refusals ---------------- *)
Inductive nodes := NInt (n : nat) | NTup1 (n : nat) | NTup2 (n1 n2 : nat) | NBad.

(* result: integer stencil matrix together with the divisor (dx or dx^2; 1 when dx is None) *)
Definition fd_op_gen (fdm : nat -> bc -> nat -> option (list (list Z)))
           (order : nat) (nd : nodes) (b : bc) (dx : option Q) : option (list (list Z) * Q) :=
  match nd with
  | NBad => None
  | NInt n | NTup1 n =>
      let d := (match dx with None => 1 | Some q => q end)%Q in
      if Qeq_bool d 0%Q then None       (* ZeroDivisionError *)
      else match fdm order b n with
           | Some M => Some (M, if (order =? 2)%nat then (d * d)%Q else d)
           | None => None
           end
  | NTup2 n1 n2 =>
      if negb (n1 =? n2)%nat then None                      (* NotImplementedError *)
      else match dx with
           | Some _ => None                                 (* NotImplementedError *)
           | None => match fdm order b n1 with
                     | Some D => Some (stack2d n1 D, 1%Q)
                     | None => None
                     end
           end
  end.

Definition fd_op := fd_op_gen fd_matrix.

Definition nodes_dim (nd : nodes) : nat :=
  match nd with NInt n | NTup1 n => n | NTup2 a b => a * b | NBad => 0 end.

(* ---------------- PrecisionFiniteDifference: (D^T D) ---------------- *)
Definition zmatmul := matmul 0%Z Z.add Z.mul.
Definition gram (n : nat) (D : list (list Z)) : list (list Z) := zmatmul n (ztranspose n D) D.

Definition diff_of_order_gen (fdm : nat -> bc -> nat -> option (list (list Z)))
           (order : nat) (nd : nodes) (b : bc) : option (list (list Z)) :=
  match order with
  | 0%nat => option_map fst (fd_op_gen fdm 1 nd NoBC None)     (* "special case that is identity" *)
  | 1%nat => option_map fst (fd_op_gen fdm 1 nd b None)
  | 2%nat => option_map fst (fd_op_gen fdm 2 nd b None)
  | _ => None
  end.
Definition diff_of_order := diff_of_order_gen fd_matrix.

Definition prec_op_gen (fdm : nat -> bc -> nat -> option (list (list Z)))
           (order : nat) (nd : nodes) (b : bc) : option (list (list Z)) :=
  option_map (gram (nodes_dim nd)) (diff_of_order_gen fdm order nd b).
Definition prec_op := prec_op_gen fd_matrix.

(* ---------------- applying the operators ---------------- *)
Definition zabs_sum (v : list Z) : Z := fold_right (fun a s => (Z.abs a + s)%Z) 0%Z v.
Definition quad (P : list (list Z)) (d : list Z) : Z := zdot d (zmatvec P d).

(* ---------------- the MRF priors ---------------- *)
(* the geometry gives (dim, physical_dim); 2-d: N = int(sqrt(dim)), num_nodes = (N, N) *)
Definition mrf_nodes (pd dim : nat) : nodes :=
  match pd with
  | 1%nat => NInt dim
  | 2%nat => let N := Z.to_nat (Z.sqrt (Z.of_nat dim)) in NTup2 N N
  | _ => NBad
  end.

(* x - location: location is a vector of length dim or a single number (broadcast) *)
Definition shift (x loc : list Z) : list Z :=
  match loc with
  | [c] => map (fun a => a - c)%Z x
  | _ => zvsub x loc
  end.

(* LMRF / CMRF: FirstOrderFiniteDifference(num_nodes, bc_type); dim = 1 is refused *)
Definition mrf_diff_gen (fdm : nat -> bc -> nat -> option (list (list Z))) (pd dim : nat) (b : bc)
  : option (list (list Z)) :=
  if (dim =? 1)%nat then None
  else option_map fst (fd_op_gen fdm 1 (mrf_nodes pd dim) b None).
Definition mrf_diff := mrf_diff_gen fd_matrix.

(* Dx = D (x - location) *)
Definition mrf_dx (pd dim : nat) (b : bc) (x loc : list Z) : option (list Z) :=
  option_map (fun D => zmatvec D (shift x loc)) (mrf_diff pd dim b).

(* LMRF.logpdf(x) = len(Dx) (-(log 2 + log s)) - ||Dx||_1 / s : the data-dependent part *)
Definition lmrf_l1 (pd dim : nat) (b : bc) (x loc : list Z) : option Z :=
  option_map zabs_sum (mrf_dx pd dim b x loc).

(* CMRF.logpdf(x) = -len(Dx) log pi + sum (log s - log (Dx^2 + s^2)); with v0 = logpdf(location):
   exp (v0 - logpdf x) = prod (1 + (Dx_i / s)^2) *)
Definition cmrf_ratio (s : Q) (dx : list Z) : Q :=
  fold_right (fun d acc => Qred ((1 + (inject_Z d / s) * (inject_Z d / s)) * acc))%Q 1%Q dx.

(* GMRF.__init__: the rank rule of the code, the operators, refusals *)
Record gmrf := mkG { g_rank : nat; g_prec : list (list Z); g_diff : list (list Z) }.

(* repaired rank rule (fixes/C20_gmrf_rank_rule.diff): dim - nullity, nullity = 0 for order 0,
   2^physical_dim for order 2 / neumann, 1 otherwise *)
Definition nullity_code (order : nat) (b : bc) (pd : nat) : nat :=
  match order, b with
  | 0%nat, _ => 0
  | 2%nat, Neumann => 2 ^ pd
  | _, _ => 1
  end.

Definition gmrf_init_gen (fdm : nat -> bc -> nat -> option (list (list Z))) (rank_fixed : bool)
           (pd dim : nat) (b : bc) (order : nat) : option gmrf :=
  if (dim =? 1)%nat then None
  else match diff_of_order_gen fdm order (mrf_nodes pd dim) b, prec_op_gen fdm order (mrf_nodes pd dim) b with
       | Some D, Some P =>
           match b with
           | Zero => Some (mkG dim P D)
           | Periodic | Neumann =>
               Some (mkG (if rank_fixed then dim - nullity_code order b pd
                          else dim - 1) P D)                    (* "self._rank = self.dim - 1" *)
           | _ => None
           end
       | _, _ => None
       end.
Definition gmrf_init := gmrf_init_gen fd_matrix false.

(* the regularisation added before the Cholesky factorisation: sqrt(eps) = 2^-26 *)
Definition chol_shift (b : bc) : Q := (match b with Zero => 0 | _ => 1 # 67108864 end)%Q.

(* ---------------- exact rank / determinant (reference computations, Gaussian elimination over Q) *)
Fixpoint split_pivot (rows : list (list Q)) : option (list Q * list (list Q) * bool) :=
  match rows with
  | [] => None
  | r :: rest =>
      match r with
      | a :: _ => if negb (Qeq_bool a 0%Q) then Some (r, rest, false)
                  else match split_pivot rest with
                       | Some (p, rest', odd) => Some (p, r :: rest', negb odd)
                       | None => None
                       end
      | [] => None
      end
  end.

Fixpoint row_elim (c : Q) (p r : list Q) : list Q :=
  match p, r with
  | a :: p', b :: r' => Qred (b - c * a)%Q :: row_elim c p' r'
  | _, _ => []
  end.

Definition reduce_rows (p : list Q) (rest : list (list Q)) : list (list Q) :=
  match p with
  | a :: _ => map (fun r => match r with b :: _ => tl (row_elim (b / a)%Q p r) | [] => [] end) rest
  | [] => rest
  end.

Fixpoint det_aux (fuel : nat) (rows : list (list Q)) : Q :=
  match fuel with
  | O => 1%Q
  | S f =>
      match rows with
      | [] => 1%Q
      | _ => match split_pivot rows with
             | None => 0%Q
             | Some (p, rest, odd) =>
                 let a := hd 0%Q p in
                 Qred ((if odd then - a else a) * det_aux f (reduce_rows p rest))%Q
             end
      end
  end.

Definition qmat_of (M : list (list Z)) : list (list Q) := map (map inject_Z) M.
Definition zdet (M : list (list Z)) : Q := det_aux (S (length M)) (qmat_of M).

Fixpoint rank_aux (fuel : nat) (rows : list (list Q)) : nat :=
  match fuel with
  | O => 0
  | S f =>
      if forallb (fun r => match r with [] => true | _ => false end) rows then 0%nat
      else match split_pivot rows with
           | None => rank_aux f (map (@tl Q) rows)
           | Some (p, rest, _) => S (rank_aux f (reduce_rows p rest))
           end
  end.
Definition zrank (n : nat) (M : list (list Z)) : nat := rank_aux (S (n + length M)) (qmat_of M).

(* remove row i and column i *)
Fixpoint drop_nth {A} (i : nat) (l : list A) : list A :=
  match l, i with
  | [], _ => []
  | _ :: r, O => r
  | a :: r, S i' => a :: drop_nth i' r
  end.
Definition principal_minor (i : nat) (M : list (list Z)) : list (list Z) :=
  map (drop_nth i) (drop_nth i M).

(* sum of the principal (n-1)-minors = e_{n-1}(eigenvalues) = product of the non-zero eigenvalues
   of a symmetric matrix of rank n-1 *)
Definition pdet1 (M : list (list Z)) : Q :=
  fold_right (fun i s => Qred (zdet (principal_minor i M) + s)%Q) 0%Q (seq 0 (length M)).

(* what exp(_logdet) is, where the model can say it cheaply:
   zero: det P;  periodic/neumann with a one-dimensional null space: product of the other
   eigenvalues;  order 0 (P = c I, the code sums the dim-1 largest eigenvalues): c^(dim-1);
   None = not modelled (order 2 neumann: the code takes the log of a zero eigenvalue;
   order 2 periodic with N = 2) *)
Definition gmrf_expdet (pd dim : nat) (b : bc) (order : nat) : option Q :=
  match gmrf_init pd dim b order with
  | None => None
  | Some g =>
      let P := g_prec g in
      match b with
      | Zero => Some (zdet P)
      | _ => if (order =? 0)%nat then Some (inject_Z (nth 0 (nth 0 P []) 0%Z) ^ Z.of_nat (dim - 1))%Q
             else if (zrank dim P =? dim - 1)%nat then Some (pdet1 P) else None
      end
  end.

(* dim > config.MAX_DIM_INV with periodic / neumann: `_logdet = 2*sum(log(diag(chol)))` of the REGULARISED
   matrix P + sqrt(eps) I.  Reported here divided by sqrt(eps) (a power of two) to keep the number O(1). *)
Definition add_diag (s : Q) (M : list (list Q)) : list (list Q) :=
  map (fun ir => map (fun jz => if (fst ir =? fst jz)%nat then Qred (snd jz + s)%Q else snd jz)
                     (combine (seq 0 (length (snd ir))) (snd ir)))
      (combine (seq 0 (length M)) M).

Definition gmrf_expdet_reg (pd dim : nat) (b : bc) (order : nat) : option Q :=
  match gmrf_init pd dim b order with
  | Some g =>
      match b with
      | Periodic | Neumann =>
          Some (Qred (det_aux (S dim) (add_diag (chol_shift b) (qmat_of (g_prec g))) / chol_shift b))%Q
      | _ => None
      end
  | None => None
  end.

(* ---------------- boolean checkers used by the generated case files ---------------- *)
Fixpoint list_rel {A B} (r : A -> B -> bool) (x : list A) (y : list B) : bool :=
  match x, y with
  | [], [] => true
  | a :: x', b :: y' => r a b && list_rel r x' y'
  | _, _ => false
  end.

Definition zq_mat_close (exact : bool) (obs : list (list Q)) (M : list (list Z)) (divisor : Q) : bool :=
  list_rel (list_rel (fun o z => if exact then Qeq_bool o (inject_Z z / divisor)%Q
                                 else q_close tol12 o (inject_Z z / divisor)%Q)) obs M.

(* get_matrix() of a difference operator with dx = None: integer entries, exact *)
Definition check_fd_z (order : nat) (nd : nodes) (b : bc) (obs : option (list (list Z))) : bool :=
  opt_eqb zll_eqb (option_map fst (fd_op order nd b None)) obs.

(* get_matrix() with a grid spacing: exact for dyadic dx, 1e-12 otherwise *)
Definition check_fd_q (order : nat) (nd : nodes) (b : bc) (dx : option Q) (exact : bool)
           (obs : option (list (list Q))) : bool :=
  match fd_op order nd b dx, obs with
  | Some (M, d), Some ob => zq_mat_close exact ob M d
  | None, None => true
  | _, _ => false
  end.

Definition check_prec (order : nat) (nd : nodes) (b : bc) (obs : option (list (list Z))) : bool :=
  opt_eqb zll_eqb (prec_op order nd b) obs.

(* D @ x and D.T @ y for integer vectors *)
Definition check_apply (order : nat) (nd : nodes) (b : bc) (x y obs_Dx obs_DTy : list Z) : bool :=
  match fd_op order nd b None with
  | Some (D, _) => zl_eqb (zmatvec D x) obs_Dx && zl_eqb (zmattvec (nodes_dim nd) D y) obs_DTy
  | None => false
  end.

(* GMRF: refusal / rank / operators *)
Definition check_gmrf_init (pd dim : nat) (b : bc) (order : nat)
           (obs : option (nat * list (list Z) * list (list Z))) : bool :=
  match gmrf_init pd dim b order, obs with
  | Some g, Some (r, P, D) => (g_rank g =? r)%nat && zll_eqb (g_prec g) P && zll_eqb (g_diff g) D
  | None, None => true
  | _, _ => false
  end.

(* the property's rank: that of the precision matrix (exact elimination) *)
Definition check_true_rank (pd dim : nat) (b : bc) (order : nat) (obs_rank : nat) : bool :=
  match gmrf_init pd dim b order with
  | Some g => (zrank dim (g_prec g) =? obs_rank)%nat
  | None => false
  end.

(* sqrtprec: R^T R = prec * (P + shift I), observed R as exact rationals, 1e-9 *)
Definition check_sqrtprec (pd dim : nat) (b : bc) (order : nat) (prec : Q) (R : list (list Q)) : bool :=
  match gmrf_init pd dim b order with
  | Some g =>
      let Rc := qmat R in
      let RtR := qmatmul dim (qtranspose dim Rc) Rc in
      let expected := map (fun ir => map (fun jz =>
                         qc (prec * (inject_Z (snd jz) + (if (fst ir =? fst jz)%nat then chol_shift b else 0)))%Q)
                         (combine (seq 0 dim) (snd ir))) (combine (seq 0 dim) (g_prec g)) in
      (length R =? dim)%nat && qcll_close tol9 RtR expected
  | None => false
  end.

(* exp(_logdet) observed (as an exact rational of the float) vs the model's determinant *)
Definition check_expdet (pd dim : nat) (b : bc) (order : nat) (obs : Q) : bool :=
  match gmrf_expdet pd dim b order with
  | Some d => q_close tol9 obs d
  | None => false
  end.

(* the property's determinant: pseudo-determinant for the true rank (only rank >= dim-1 is computed) *)
Definition check_true_expdet (pd dim : nat) (b : bc) (order : nat) (obs : Q) : bool :=
  match gmrf_init pd dim b order with
  | Some g => let P := g_prec g in
              if (zrank dim P =? dim)%nat then q_close tol9 obs (zdet P)
              else if (zrank dim P =? dim - 1)%nat then q_close tol9 obs (pdet1 P) else false
  | None => false
  end.

(* GMRF.logpdf: -2 (logpdf x - logpdf mean) / prec = (x-mean)^T P (x-mean) *)
Definition check_gmrf_quad (pd dim : nat) (b : bc) (order : nat) (x mean : list Z) (obs : Q) : bool :=
  match gmrf_init pd dim b order with
  | Some g => q_close tol9 obs (inject_Z (quad (g_prec g) (shift x mean)))
  | None => false
  end.

(* LMRF: scale * (logpdf loc - logpdf x) = || D (x - loc) ||_1, and the operator it holds *)
Definition check_lmrf (pd dim : nat) (b : bc) (x loc : list Z) (obs_l1 : option Q)
           (obs_D : option (list (list Z))) : bool :=
  opt_eqb zll_eqb (mrf_diff pd dim b) obs_D &&
  match lmrf_l1 pd dim b x loc, obs_l1 with
  | Some l, Some o => q_close tol9 o (inject_Z l)
  | None, None => true
  | _, _ => false
  end.

(* CMRF: exp (logpdf loc - logpdf x) = prod (1 + (Dx_i/s)^2) *)
Definition check_cmrf (pd dim : nat) (b : bc) (s : Q) (x loc : list Z) (obs_ratio : option Q)
           (obs_D : option (list (list Z))) : bool :=
  opt_eqb zll_eqb (mrf_diff pd dim b) obs_D &&
  match mrf_dx pd dim b x loc, obs_ratio with
  | Some d, Some o => q_close tol9 o (cmrf_ratio s d)
  | None, None => true
  | _, _ => false
  end.

(* large-dimension branch: exp(_logdet) / sqrt(eps) vs det(P + sqrt(eps) I) / sqrt(eps).
   1e-6: the last Cholesky pivot of the nearly singular matrix is ~sqrt(eps) and is computed as a difference
   of O(1) numbers, so it carries a relative rounding error of about 1e-16 / 1.5e-8 ~ 1e-8 *)
Definition check_expdet_reg (pd dim : nat) (b : bc) (order : nat) (obs : Q) : bool :=
  match gmrf_expdet_reg pd dim b order with
  | Some d => q_close tol6 obs d
  | None => false
  end.

(* ---------------- the same checkers for a tree in a repaired state:
   acc = periodic patches accumulate, rk = repaired rank rule ---------------- *)
Definition check_fd_z_st (acc : bool) (order : nat) (nd : nodes) (b : bc) (obs : option (list (list Z))) : bool :=
  opt_eqb zll_eqb (option_map fst (fd_op_gen (fdm_of acc) order nd b None)) obs.

Definition check_fd_q_st (acc : bool) (order : nat) (nd : nodes) (b : bc) (dx : option Q) (exact : bool)
           (obs : option (list (list Q))) : bool :=
  match fd_op_gen (fdm_of acc) order nd b dx, obs with
  | Some (M, d), Some ob => zq_mat_close exact ob M d
  | None, None => true
  | _, _ => false
  end.

Definition check_prec_st (acc : bool) (order : nat) (nd : nodes) (b : bc) (obs : option (list (list Z))) : bool :=
  opt_eqb zll_eqb (prec_op_gen (fdm_of acc) order nd b) obs.

Definition check_apply_st (acc : bool) (order : nat) (nd : nodes) (b : bc) (x y obs_Dx obs_DTy : list Z) : bool :=
  match fd_op_gen (fdm_of acc) order nd b None with
  | Some (D, _) => zl_eqb (zmatvec D x) obs_Dx && zl_eqb (zmattvec (nodes_dim nd) D y) obs_DTy
  | None => false
  end.

Definition check_gmrf_init_st (acc rk : bool) (pd dim : nat) (b : bc) (order : nat)
           (obs : option (nat * list (list Z) * list (list Z))) : bool :=
  match gmrf_init_gen (fdm_of acc) rk pd dim b order, obs with
  | Some g, Some (r, P, D) => (g_rank g =? r)%nat && zll_eqb (g_prec g) P && zll_eqb (g_diff g) D
  | None, None => true
  | _, _ => false
  end.

(* the remaining GMRF / MRF checkers depend on the state only through the operators *)
Definition with_prec (acc : bool) (pd dim : nat) (b : bc) (order : nat) (k : gmrf -> bool) : bool :=
  match gmrf_init_gen (fdm_of acc) false pd dim b order with Some g => k g | None => false end.

Definition check_true_rank_st (acc : bool) (pd dim : nat) (b : bc) (order : nat) (obs_rank : nat) : bool :=
  with_prec acc pd dim b order (fun g => (zrank dim (g_prec g) =? obs_rank)%nat).

Definition check_true_expdet_st (acc : bool) (pd dim : nat) (b : bc) (order : nat) (obs : Q) : bool :=
  with_prec acc pd dim b order (fun g =>
    let P := g_prec g in
    if (zrank dim P =? dim)%nat then q_close tol9 obs (zdet P)
    else if (zrank dim P =? dim - 1)%nat then q_close tol9 obs (pdet1 P) else false).

Definition check_gmrf_quad_st (acc : bool) (pd dim : nat) (b : bc) (order : nat) (x mean : list Z) (obs : Q) : bool :=
  with_prec acc pd dim b order (fun g => q_close tol9 obs (inject_Z (quad (g_prec g) (shift x mean)))).

Definition check_sqrtprec_st (acc : bool) (pd dim : nat) (b : bc) (order : nat) (prec : Q) (R : list (list Q)) : bool :=
  with_prec acc pd dim b order (fun g =>
      let Rc := qmat R in
      let RtR := qmatmul dim (qtranspose dim Rc) Rc in
      let expected := map (fun ir => map (fun jz =>
                         qc (prec * (inject_Z (snd jz) + (if (fst ir =? fst jz)%nat then chol_shift b else 0)))%Q)
                         (combine (seq 0 dim) (snd ir))) (combine (seq 0 dim) (g_prec g)) in
      (length R =? dim)%nat && qcll_close tol9 RtR expected).

Definition check_lmrf_st (acc : bool) (pd dim : nat) (b : bc) (x loc : list Z) (obs_l1 : option Q)
           (obs_D : option (list (list Z))) : bool :=
  opt_eqb zll_eqb (mrf_diff_gen (fdm_of acc) pd dim b) obs_D &&
  match option_map (fun D => zabs_sum (zmatvec D (shift x loc))) (mrf_diff_gen (fdm_of acc) pd dim b), obs_l1 with
  | Some l, Some o => q_close tol9 o (inject_Z l)
  | None, None => true
  | _, _ => false
  end.

Definition check_cmrf_st (acc : bool) (pd dim : nat) (b : bc) (s : Q) (x loc : list Z) (obs_ratio : option Q)
           (obs_D : option (list (list Z))) : bool :=
  opt_eqb zll_eqb (mrf_diff_gen (fdm_of acc) pd dim b) obs_D &&
  match option_map (fun D => zmatvec D (shift x loc)) (mrf_diff_gen (fdm_of acc) pd dim b), obs_ratio with
  | Some d, Some o => q_close tol9 o (cmrf_ratio s d)
  | None, None => true
  | _, _ => false
  end.

(* which branch of GMRF.__init__ computes the log-determinant: `if self.dim > config.MAX_DIM_INV` -- the regularised
   Cholesky factor (finding logdet:dim-above-MAX_DIM_INV) strictly ABOVE the threshold, the spectrum at and below it;
   zero boundary conditions have no such branch *)
Definition gmrf_uses_regularised (b : bc) (dim max_dim_inv : nat) : bool :=
  match b with
  | Periodic | Neumann => (max_dim_inv <? dim)%nat
  | _ => false
  end.

Definition check_logdet_branch (b : bc) (dim max_dim_inv : nat) (obs_regularised : bool) : bool :=
  Bool.eqb (gmrf_uses_regularised b dim max_dim_inv) obs_regularised.

(* ---------------- exact pseudo-determinant for ANY nullity (reference computation) ----------------
   Faddeev-LeVerrier over Z: M_k = A M_(k-1) + c_(n-k+1) I, c_(n-k) = - tr(A M_k) / k (the division is exact),
   p(t) = sum_k c_k t^k the characteristic polynomial.  For a symmetric positive semi-definite matrix with nullity m
   the product of the non-zero eigenvalues is (-1)^(n-m) c_m. *)
Definition zscalar_mat (n : nat) (c : Z) : list (list Z) :=
  map (fun i => map (fun j => if (i =? j)%nat then c else 0%Z) (seq 0 n)) (seq 0 n).

Fixpoint zmat_add (A B : list (list Z)) : list (list Z) :=
  match A, B with
  | a :: A', b :: B' => zvadd a b :: zmat_add A' B'
  | _, _ => []
  end.

Definition ztrace (A : list (list Z)) : Z :=
  fold_right (fun ir s => (nth (fst ir) (snd ir) 0 + s)%Z) 0%Z (combine (seq 0 (length A)) A).

Fixpoint flv_steps (steps : nat) (k : Z) (n : nat) (A M : list (list Z)) (c : Z) : Z :=
  match steps with
  | O => c
  | S s =>
      let M' := zmat_add (zmatmul n A M) (zscalar_mat n c) in
      let c' := (- ztrace (zmatmul n A M') / k)%Z in
      flv_steps s (k + 1)%Z n A M' c'
  end.

(* coefficient c_m of the characteristic polynomial, and the pseudo-determinant for nullity m *)
Definition charpoly_coeff (n : nat) (A : list (list Z)) (m : nat) : Z :=
  flv_steps (n - m) 1%Z n A (zscalar_mat n 0%Z) 1%Z.

Definition zpdet (n : nat) (A : list (list Z)) (m : nat) : Z :=
  ((if Nat.even (n - m) then 1 else -1) * charpoly_coeff n A m)%Z.

(* the property's determinant for whatever nullity the precision has *)
Definition check_true_expdet_any (acc : bool) (pd dim : nat) (b : bc) (order : nat) (obs : Q) : bool :=
  with_prec acc pd dim b order (fun g =>
    let P := g_prec g in
    q_close tol9 obs (inject_Z (zpdet dim P (dim - zrank dim P)))).

(* exp(_logdet) as the REPAIRED code computes it below the threshold: the product of the eigenvalues left after dropping
   the `nullity_code` smallest -- the pseudo-determinant for that nullity when it is the true one *)
Definition check_expdet_repaired (acc : bool) (pd dim : nat) (b : bc) (order : nat) (obs : Q) : bool :=
  match gmrf_init_gen (fdm_of acc) true pd dim b order with
  | Some g =>
      let P := g_prec g in
      match b with
      | Zero => q_close tol9 obs (zdet P)
      | _ => (zrank dim P =? g_rank g)%nat && q_close tol9 obs (inject_Z (zpdet dim P (dim - g_rank g)))
      end
  | None => false
  end.

(* ---------------- repaired large-dimension branch (cd6ea4a): `_logdet = 2 sum log diag chol(P + sqrt(eps) I)
   - nullity * log(sqrt(eps))`, i.e. exp(_logdet) = det(P + e I) / e^nullity with e = sqrt(eps) = 2^-26.
   With c_j the coefficients of the characteristic polynomial (|c_j| = e_(n-j) of the eigenvalues),
   det(P + e I) = sum_j |c_j| e^j, so for true nullity k:  det(P + e I) / e^k = pdet + |c_(k+1)| e + ... ,
   |c_(k+1)| / |c_k| = trace of the pseudo-inverse: the reported value exceeds the pseudo-determinant by the
   relative amount e * trace(P^+) + O(e^2) <= exp(e trace(P^+)) - 1. ---------------- *)
Definition reg_shift : Q := 1 # 67108864.

Definition abs_coeff (n : nat) (A : list (list Z)) (j : nat) : Q := inject_Z (Z.abs (charpoly_coeff n A j)).

(* sum_(j = k .. n) |c_j| e^(j-k) *)
Definition reg_poly (n : nat) (A : list (list Z)) (k : nat) : Q :=
  fold_right (fun j s => Qred (abs_coeff n A j * reg_shift ^ Z.of_nat (j - k) + s)%Q) 0%Q (seq k (S n - k)).

Definition gmrf_expdet_reg_repaired (acc : bool) (pd dim : nat) (b : bc) (order : nat) : option Q :=
  match gmrf_init_gen (fdm_of acc) true pd dim b order with
  | Some g =>
      match b with
      | Periodic | Neumann =>
          let k := dim - g_rank g in
          Some (Qred (det_aux (S dim) (add_diag reg_shift (qmat_of (g_prec g))) / reg_shift ^ Z.of_nat k))%Q
      | _ => None
      end
  | None => None
  end.

(* (1) the two reference computations agree exactly: elimination over Q = characteristic polynomial at -e;
   (2) the implementation's exp(_logdet) is that number (1e-6: the pivots of the nearly singular matrix, see check_expdet_reg);
   (3) it lies between the pseudo-determinant and pseudo-determinant * (1 + 2 e trace(P^+))  [valid while e trace(P^+) <= 1] *)
Definition check_expdet_reg_repaired (acc : bool) (pd dim : nat) (b : bc) (order : nat) (obs : Q) : bool :=
  match gmrf_expdet_reg_repaired acc pd dim b order, gmrf_init_gen (fdm_of acc) true pd dim b order with
  | Some reg, Some g =>
      let P := g_prec g in
      let k := dim - g_rank g in
      let pd_ := abs_coeff dim P k in
      let tr_pinv := (abs_coeff dim P (S k) / pd_)%Q in
      (zrank dim P =? g_rank g)%nat &&
      Qeq_bool reg (reg_poly dim P k) &&
      q_close tol6 obs reg &&
      Qle_bool pd_ reg && Qle_bool (reg_shift * tr_pinv) 1 &&
      Qle_bool reg (pd_ * (1 + 2 * reg_shift * tr_pinv))
  | _, _ => false
  end.
